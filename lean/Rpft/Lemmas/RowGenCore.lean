/-
General round-trip development (C07 `parse_unparse`), part 1: header paths, the local view
of `parse_entry` at a position of the schema (`pstep` / `pfold`) and the focus lemmas that
push a column `name.rest` through one level of `find_entry` (record field, list index).
-/
import Rpft.Lemmas.RowFam
set_option linter.unusedSimpArgs false
set_option linter.unusedVariables false
namespace Rpft.Row
open Rpft

/-! ### header paths -/

/-- the prefix string `unparse_row_recurse` carries for a position: `.seg1.seg2…` -/
def pathStr : List Str → Str
  | [] => []
  | s :: r => '.' :: (s ++ pathStr r)

/-- the column header of a position -/
def keyOf (p : List Str) : Str := trimPrefix (pathStr p)

/-- a path segment (field header or list index) -/
def SegOk (s : Str) : Prop := ∀ c ∈ s, okChar c = true

theorem pathStr_append (a b : List Str) : pathStr (a ++ b) = pathStr a ++ pathStr b := by
  induction a with
  | nil => rfl
  | cons s r ih => simp [pathStr, ih]

theorem pathStr_snoc (a : List Str) (m : Str) : pathStr (a ++ [m]) = pathStr a ++ '.' :: m := by
  rw [pathStr_append]; simp [pathStr]

theorem idxPrefix_pathStr (a : List Str) (i : Nat) :
    idxPrefix (pathStr a) i = pathStr (a ++ [printNat i]) := by
  rw [pathStr_snoc]; rfl

theorem keyOf_cons (s : Str) (r : List Str) : keyOf (s :: r) = s ++ pathStr r := by
  simp [keyOf, pathStr, trimPrefix]

theorem segOk_simple {n : Str} (h : simpleName n = true) : SegOk n := by
  simp only [simpleName, Bool.and_eq_true, List.all_eq_true] at h
  exact h.2

theorem segOk_no_dot {s : Str} (h : SegOk s) : ∀ c ∈ s, c ≠ '.' := by
  intro c hc
  have := h c hc
  simp [okChar] at this
  exact this.1.1.1.1.1

theorem segOk_keyChar {s : Str} (h : SegOk s) : ∀ c ∈ s, keyChar c = true :=
  fun c hc => okChar_keyChar (h c hc)

theorem digitChar_okChar (d : Nat) (hd : d < 10) : okChar (digitChar d) = true := by
  have h := digitChar_ne d hd
  simp [okChar, h.2.2.2.2.1, h.2.2.2.2.2.1, h.2.2.2.2.2.2.1, h.2.2.2.2.2.2.2,
    digitChar_not_ws d hd, h.2.2.2.1]

theorem segOk_printNat (i : Nat) : SegOk (printNat i) := by
  intro c hc
  obtain ⟨d, hd, rfl⟩ := (printNat_spec i).1 c hc
  exact digitChar_okChar d hd

theorem splitDot_keyOf : ∀ (r : List Str) (s : Str), SegOk s → (∀ x ∈ r, SegOk x) →
    splitDot (keyOf (s :: r)) = s :: r
  | [], s, hs, _ => by
    rw [keyOf_cons]; simp only [pathStr, List.append_nil]
    exact splitDot_simple s (segOk_no_dot hs)
  | t :: r, s, hs, hr => by
    have ih := splitDot_keyOf r t (hr t (by simp)) (fun x hx => hr x (List.mem_cons_of_mem _ hx))
    rw [keyOf_cons] at ih ⊢
    simp only [pathStr]
    rw [splitDot_append s _ (segOk_no_dot hs), ih]

theorem pathStr_keyChar : ∀ (p : List Str), (∀ x ∈ p, SegOk x) → ∀ c ∈ pathStr p, keyChar c = true
  | [], _, c, hc => by simp [pathStr] at hc
  | s :: r, h, c, hc => by
    simp only [pathStr, List.mem_cons, List.mem_append] at hc
    rcases hc with rfl | hc | hc
    · decide
    · exact segOk_keyChar (h s (by simp)) c hc
    · exact pathStr_keyChar r (fun x hx => h x (List.mem_cons_of_mem _ hx)) c hc

theorem keyOf_keyChar (p : List Str) (h : ∀ x ∈ p, SegOk x) : ∀ c ∈ keyOf p, keyChar c = true := by
  cases p with
  | nil => intro c hc; simp [keyOf, pathStr, trimPrefix] at hc
  | cons s r =>
    rw [keyOf_cons]
    intro c hc
    rcases List.mem_append.mp hc with hc | hc
    · exact segOk_keyChar (h s (by simp)) c hc
    · exact pathStr_keyChar r (fun x hx => h x (List.mem_cons_of_mem _ hx)) c hc

/-- the path of a written header is read back by `parse_entry` -/
theorem colPath_keyOf (p : List Str) (hne : p ≠ []) (h : ∀ x ∈ p, SegOk x) :
    splitDot (getFieldName (keyOf p)) = p := by
  rw [getFieldName_key _ (keyOf_keyChar p h)]
  cases p with
  | nil => exact absurd rfl hne
  | cons s r => exact splitDot_keyOf r s (h s (by simp)) (fun x hx => h x (List.mem_cons_of_mem _ hx))

theorem keyOf_inj {p q : List Str} (hp : p ≠ []) (hq : q ≠ []) (h1 : ∀ x ∈ p, SegOk x)
    (h2 : ∀ x ∈ q, SegOk x) (h : keyOf p = keyOf q) : p = q := by
  rw [← colPath_keyOf p hp h1, ← colPath_keyOf q hq h2, h]

/-- the first segment below a common prefix is determined by the header -/
theorem pathStr_head_inj {m m' : Str} {r r' : List Str} (hm : SegOk m) (hm' : SegOk m')
    (h : pathStr (m :: r) = pathStr (m' :: r')) : m = m' := by
  simp only [pathStr, List.cons.injEq, true_and] at h
  have e1 : (m ++ pathStr r).takeWhile (· ≠ '.') = m := by
    cases r with
    | nil => simp only [pathStr, List.append_nil]; exact takeWhile_all _ _ (by
        intro c hc; simpa using segOk_no_dot hm c hc)
    | cons t r => simp only [pathStr]; exact takeWhile_append_dot m _ (segOk_no_dot hm)
  have e2 : (m' ++ pathStr r').takeWhile (· ≠ '.') = m' := by
    cases r' with
    | nil => simp only [pathStr, List.append_nil]; exact takeWhile_all _ _ (by
        intro c hc; simpa using segOk_no_dot hm' c hc)
    | cons t r => simp only [pathStr]; exact takeWhile_append_dot m' _ (segOk_no_dot hm')
  rw [← e1, ← e2, h]

/-- `out` holds no column at or below the position `segs` -/
def Fresh (segs : List Str) (out : Out) : Prop :=
  ∀ kv ∈ out, ∀ r, kv.1 ≠ keyOf (segs ++ r)

theorem fresh_absent {segs : List Str} {out : Out} (h : Fresh segs out) :
    alookup (keyOf segs) out = none := by
  rw [alookup_none_iff]
  intro hm
  obtain ⟨kv, hkv, e⟩ := List.mem_map.mp hm
  exact h kv hkv [] (by simpa using e)

theorem fresh_child {segs : List Str} {out : Out} (h : Fresh segs out) (m : Str) :
    Fresh (segs ++ [m]) out := by
  intro kv hkv r
  have := h kv hkv (m :: r)
  simpa using this

theorem keyOf_append_inj {segs : List Str} {a b : List Str} (hne : segs ≠ [])
    (h : keyOf (segs ++ a) = keyOf (segs ++ b)) : pathStr a = pathStr b := by
  cases segs with
  | nil => exact absurd rfl hne
  | cons s r =>
    simp only [List.cons_append, keyOf_cons, pathStr_append] at h
    exact List.append_cancel_left (List.append_cancel_left h)

/-- columns written below the sibling `m'` are not below `m` -/
theorem fresh_sibling {segs : List Str} (hne : segs ≠ []) {m m' : Str} (hm : SegOk m)
    (hm' : SegOk m') (hd : m' ≠ m) (cols : List (List Str × Str)) :
    Fresh (segs ++ [m]) (cols.map fun c => (keyOf ((segs ++ [m']) ++ c.1), c.2)) := by
  intro kv hkv r e
  obtain ⟨c, _, rfl⟩ := List.mem_map.mp hkv
  simp only [List.append_assoc, List.singleton_append] at e
  exact hd (pathStr_head_inj hm' hm (keyOf_append_inj hne e))

theorem fresh_append {segs : List Str} {a b : Out} (ha : Fresh segs a) (hb : Fresh segs b) :
    Fresh segs (a ++ b) := by
  intro kv hkv
  rcases List.mem_append.mp hkv with h | h
  · exact ha kv h
  · exact hb kv h

/-! ### `parse_entry` seen from a position -/

/-- the effect of one column on the tree `t` of a position of type `ty`; `c.1` is the path
below the position (`[]`: the column is the cell of the position itself) -/
def pstep (ty : Ty) (t : Tree) (c : List Str × ColVal) : Except Err Tree :=
  match c.1 with
  | [] =>
    match leafFn c.2 ty with
    | .error e => .error e
    | .ok (some x) => .ok x
    | .ok none => .ok t
  | seg :: rest => findSet (leafFn c.2) ty (initChild ty t) (seg :: rest)

def pfold (ty : Ty) : Tree → List (List Str × ColVal) → Except Err Tree := foldE (pstep ty)

/-- prefix every column path with one more segment -/
def prep (p : Str) (cs : List (List Str × ColVal)) : List (List Str × ColVal) :=
  cs.map fun c => (p :: c.1, c.2)

theorem initChild_dict (ty : Ty) (kvs : List (Str × Tree)) : initChild ty (.dict kvs) = .dict kvs := rfl
theorem initChild_list (ty : Ty) (xs : List Tree) : initChild ty (.list xs) = .list xs := rfl

theorem fieldLookup_fst : ∀ (fs : List Field) (k : Str) (f : Field),
    fieldLookup k fs = some f → f.1 = k
  | [], _, _, h => by simp [fieldLookup] at h
  | g :: fs, k, f, h => by
    simp only [fieldLookup] at h
    split at h
    · rename_i hk; cases h; exact hk
    · exact fieldLookup_fst fs k f h

theorem alookup_st (acc : List (Str × Tree)) (n : Str) (hk : alookup n acc = none)
    (cur : Option Tree) : alookup n (st acc n cur) = cur := by
  cases cur with
  | none => simpa [st] using hk
  | some t => simp [st, alookup_append, hk, alookup]

theorem ensureKey_st (acc : List (Str × Tree)) (n : Str) (hk : alookup n acc = none)
    (cur : Option Tree) : ensureKey n (st acc n cur) = st acc n (some (cur.getD .none)) := by
  cases cur with
  | none => simp [ensureKey, st, hk, aset_of_absent n Tree.none acc hk]
  | some t => simp [ensureKey, alookup_st acc n hk (some t)]

theorem aset_st (acc : List (Str × Tree)) (n : Str) (hk : alookup n acc = none) (t x : Tree) :
    aset n x (st acc n (some t)) = st acc n (some x) := by
  simp [st, aset_last n t x acc hk]

/-- **focus, record field**: a column `p.rest` acts on the dictionary of a record position
as `rest` acts on the entry of the field `n = header_name_to_field_name(p)` -/
theorem pstep_model (fs : List Field) (h2f f2h : List (Str × Str)) (acc : List (Str × Tree))
    (p n : Str) (ty : Ty) (d : Option Val) (hn : remap h2f p = n)
    (hf : fieldLookup n fs = some (n, ty, d)) (hk : alookup n acc = none)
    (cur : Option Tree) (c : List Str × ColVal) :
    pstep (.model fs h2f f2h) (.dict (st acc n cur)) (p :: c.1, c.2) =
      (match pstep ty (cur.getD .none) c with
        | .error e => .error e
        | .ok tr => .ok (.dict (st acc n (some tr)))) := by
  obtain ⟨path, cv⟩ := c
  simp only [pstep, initChild_dict]
  conv => lhs; unfold findSet
  simp only [isListTy, Bool.false_eq_true, if_false, hn, hf, ensureKey_st acc n hk cur]
  cases path with
  | nil =>
    simp only
    cases leafFn cv ty with
    | error e => rfl
    | ok r =>
      cases r with
      | none => simp [leafDict]
      | some x => simp [leafDict, aset_st acc n hk]
  | cons seg rest =>
    simp only [alookup_st acc n hk, Option.getD_some]
    cases findSet (leafFn cv) ty (initChild ty (cur.getD Tree.none)) (seg :: rest) with
    | error e => rfl
    | ok sub => simp [wrapDict, aset_st acc n hk]

theorem pfold_model_block (fs : List Field) (h2f f2h : List (Str × Str)) (acc : List (Str × Tree))
    (p n : Str) (ty : Ty) (d : Option Val) (hn : remap h2f p = n)
    (hf : fieldLookup n fs = some (n, ty, d)) (hk : alookup n acc = none) :
    ∀ (cs : List (List Str × ColVal)) (c : List Str × ColVal) (cur : Option Tree),
    pfold (.model fs h2f f2h) (.dict (st acc n cur)) (prep p (c :: cs)) =
      (match pfold ty (cur.getD .none) (c :: cs) with
        | .error e => .error e
        | .ok tr => .ok (.dict (st acc n (some tr))))
  | [], c, cur => by
    simp only [pfold, prep, List.map_cons, List.map_nil, foldE]
    rw [pstep_model fs h2f f2h acc p n ty d hn hf hk cur c]
    cases pstep ty (cur.getD Tree.none) c <;> rfl
  | c' :: cs, c, cur => by
    have ih := pfold_model_block fs h2f f2h acc p n ty d hn hf hk cs c'
    simp only [pfold, prep, List.map_cons, foldE] at ih ⊢
    rw [pstep_model fs h2f f2h acc p n ty d hn hf hk cur c]
    cases pstep ty (cur.getD Tree.none) c with
    | error e => rfl
    | ok tr =>
      simp only
      exact ih (some tr)

/-- **focus, list index (new element)** -/
theorem pstep_list_new (lty : Ty) (hl : isListTy lty = true) (ts : List Tree)
    (c : List Str × ColVal) :
    pstep lty (.list ts) (printNat (ts.length + 1) :: c.1, c.2) =
      (match pstep (listChild lty) .none c with
        | .error e => .error e
        | .ok tr => .ok (.list (ts ++ [tr]))) := by
  obtain ⟨path, cv⟩ := c
  simp only [pstep, initChild_list]
  conv => lhs; unfold findSet
  have h1 : (Int.ofNat (ts.length + 1) : Int) - 1 = (ts.length : Int) := by simp
  have h2 : ¬ ((ts.length : Int) ≤ (ts.length : Int) ∧ (ts.length : Int) ≠ (ts.length : Int)) := by
    intro h; exact h.2 rfl
  have h3 : pyIndex (ts.length + 1) (ts.length : Int) = some ts.length := by simp [pyIndex]
  rw [if_pos hl]
  simp only [pyInt_printNat, h1]
  rw [if_neg h2]
  simp only [Int.le_refl, if_true, List.length_append, List.length_singleton, h3]
  cases path with
  | nil =>
    simp only
    cases leafFn cv (listChild lty) with
    | error e => rfl
    | ok r => cases r <;> simp [leafList]
  | cons seg rest =>
    have h4 : (ts ++ [Tree.none]).getD ts.length Tree.none = Tree.none := by simp
    simp only [h4]
    cases findSet (leafFn cv) (listChild lty) (initChild (listChild lty) Tree.none) (seg :: rest) with
    | error e => rfl
    | ok sub => simp [wrapList]

/-- **focus, list index (last element again)** -/
theorem pstep_list_last (lty : Ty) (hl : isListTy lty = true) (ts : List Tree) (t0 : Tree)
    (c : List Str × ColVal) :
    pstep lty (.list (ts ++ [t0])) (printNat (ts.length + 1) :: c.1, c.2) =
      (match pstep (listChild lty) t0 c with
        | .error e => .error e
        | .ok tr => .ok (.list (ts ++ [tr]))) := by
  obtain ⟨path, cv⟩ := c
  simp only [pstep, initChild_list]
  conv => lhs; unfold findSet
  have h1 : (Int.ofNat (ts.length + 1) : Int) - 1 = (ts.length : Int) := by simp
  have hlen : (ts ++ [t0]).length = ts.length + 1 := by simp
  have h2 : ¬ (((ts.length + 1 : Nat) : Int) ≤ (ts.length : Int)) := by omega
  have h3 : pyIndex (ts.length + 1) (ts.length : Int) = some ts.length := by simp [pyIndex]
  simp only [hl, if_true, pyInt_printNat, h1, hlen, h2, false_and, if_false, h3]
  cases path with
  | nil =>
    simp only
    cases leafFn cv (listChild lty) with
    | error e => rfl
    | ok r => cases r <;> simp [leafList]
  | cons seg rest =>
    have h4 : (ts ++ [t0]).getD ts.length Tree.none = t0 := by simp
    simp only [h4]
    cases findSet (leafFn cv) (listChild lty) (initChild (listChild lty) t0) (seg :: rest) with
    | error e => rfl
    | ok sub => simp [wrapList]

/-- all the columns of the element with the next index -/
theorem pfold_list_block (lty : Ty) (hl : isListTy lty = true) (ts : List Tree) :
    ∀ (cs : List (List Str × ColVal)) (c : List Str × ColVal),
    pfold lty (.list ts) (prep (printNat (ts.length + 1)) (c :: cs)) =
      (match pfold (listChild lty) .none (c :: cs) with
        | .error e => .error e
        | .ok tr => .ok (.list (ts ++ [tr]))) := by
  have hlast : ∀ (cs : List (List Str × ColVal)) (t0 : Tree),
      pfold lty (.list (ts ++ [t0])) (prep (printNat (ts.length + 1)) cs) =
        (match pfold (listChild lty) t0 cs with
          | .error e => .error e
          | .ok tr => .ok (.list (ts ++ [tr]))) := by
    intro cs
    induction cs with
    | nil => intro t0; simp [pfold, prep, foldE]
    | cons c cs ih =>
      intro t0
      simp only [pfold, prep, List.map_cons, foldE] at ih ⊢
      rw [pstep_list_last lty hl ts t0 c]
      cases pstep (listChild lty) t0 c with
      | error e => rfl
      | ok tr => simp only; exact ih tr
  intro cs c
  have := hlast cs
  simp only [pfold, prep, List.map_cons, foldE] at this ⊢
  rw [pstep_list_new lty hl ts c]
  cases pstep (listChild lty) Tree.none c with
  | error e => rfl
  | ok tr => simp only; exact this tr

/-- the first column of a position creates its container -/
theorem pstep_none (ty : Ty) (c : List Str × ColVal) (hne : c.1 ≠ []) :
    pstep ty .none c = pstep ty (initChild ty .none) c := by
  obtain ⟨path, cv⟩ := c
  cases path with
  | nil => exact absurd rfl hne
  | cons seg rest =>
    simp only [pstep]
    cases ty <;> simp [initChild, isListTy, isModelTy]

theorem pfold_none (ty : Ty) (c : List Str × ColVal) (cs : List (List Str × ColVal))
    (hne : c.1 ≠ []) : pfold ty .none (c :: cs) = pfold ty (initChild ty .none) (c :: cs) := by
  simp only [pfold, foldE]
  rw [pstep_none ty c hne]

theorem pfold_append (ty : Ty) (t : Tree) (a b : List (List Str × ColVal)) :
    pfold ty t (a ++ b) = (match pfold ty t a with
      | .error e => .error e
      | .ok t' => pfold ty t' b) := by
  unfold pfold; rw [foldE_append]; cases foldE (pstep ty) t a <;> rfl

end Rpft.Row
