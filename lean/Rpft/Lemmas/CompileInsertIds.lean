/-
Renamings defined on the counter (`rhoOf π` maps the invented identifier `~k` to `~π(k)` and leaves
every other identifier alone), all identifiers stored in a node, and: in a reachable state every
identifier stored in a node is below the counter or was given in the sheet.
-/
import Rpft.Lemmas.CompileInsertSim
import Rpft.Lemmas.CompileInvA5
set_option linter.unusedSimpArgs false
set_option linter.unusedVariables false
namespace Rpft.Compile
open Rpft Function

open Classical in
/-- the counter value of an invented identifier -/
noncomputable def untid (x : Uid) : Option Nat :=
  if h : ∃ k, x = tid k then some (Classical.choose h) else none

theorem untid_tid (k : Nat) : untid (tid k) = some k := by
  unfold untid
  have h : ∃ j, tid k = tid j := ⟨k, rfl⟩
  rw [dif_pos h]
  have := Classical.choose_spec h
  exact congrArg some (tid_inj.mp this).symm

theorem untid_some {x : Uid} {k : Nat} (h : untid x = some k) : x = tid k := by
  unfold untid at h
  split at h
  · rename_i hx
    injection h with h
    rw [← h]; exact Classical.choose_spec hx
  · cases h

theorem untid_none_of_plain {x : Uid} (h : ¬ Invented x) : untid x = none := by
  cases hu : untid x with
  | none => rfl
  | some k => exact absurd (by rw [untid_some hu]; exact invented_tid k) h

/-- the renaming of identifiers induced by a map on counter values -/
noncomputable def rhoOf (π : Nat → Nat) (x : Uid) : Uid :=
  match untid x with
  | some k => tid (π k)
  | none => x

theorem rhoOf_tid (π : Nat → Nat) (k : Nat) : rhoOf π (tid k) = tid (π k) := by
  unfold rhoOf; rw [untid_tid]

theorem rhoOf_plain (π : Nat → Nat) {x : Uid} (h : ¬ Invented x) : rhoOf π x = x := by
  unfold rhoOf; rw [untid_none_of_plain h]

theorem rhoOf_injective {π : Nat → Nat} (hπ : Injective π) : Injective (rhoOf π) := by
  intro x y e
  unfold rhoOf at e
  cases hx : untid x with
  | some k =>
    cases hy : untid y with
    | some j =>
      rw [hx, hy] at e
      have := hπ (tid_inj.mp e)
      rw [untid_some hx, untid_some hy, this]
    | none =>
      rw [hx, hy] at e
      simp only [] at e
      rw [← e, untid_tid] at hy; cases hy
  | none =>
    cases hy : untid y with
    | some j =>
      rw [hx, hy] at e
      simp only [] at e
      rw [e, untid_tid] at hx; cases hx
    | none => rw [hx, hy] at e; exact e

theorem rhoOf_leftInv {π π' : Nat → Nat} (h : ∀ k, π' (π k) = k) (x : Uid) : rhoOf π' (rhoOf π x) = x := by
  cases hx : untid x with
  | some k => rw [untid_some hx, rhoOf_tid, rhoOf_tid, h]
  | none =>
    have : rhoOf π x = x := by unfold rhoOf; rw [hx]
    rw [this]; unfold rhoOf; rw [hx]

theorem rhoOf_congr {π π' : Nat → Nat} {x : Uid} (h : ∀ k, x = tid k → π k = π' k) : rhoOf π x = rhoOf π' x := by
  cases hx : untid x with
  | some k => rw [untid_some hx, rhoOf_tid, rhoOf_tid, h k (untid_some hx)]
  | none => unfold rhoOf; rw [hx]

/-- identity below `a`, plus `c` from `a` on -/
def shiftFrom (a c : Nat) (i : Nat) : Nat := if i < a then i else i + c

/-- its left inverse -/
def unshiftFrom (a c : Nat) (i : Nat) : Nat := if i < a then i else i - c

theorem shiftFrom_injective (a c : Nat) : Injective (shiftFrom a c) := by
  intro x y e
  unfold shiftFrom at e
  split at e <;> split at e <;> omega

theorem unshift_shift (a c i : Nat) : unshiftFrom a c (shiftFrom a c i) = i := by
  unfold unshiftFrom shiftFrom
  by_cases h : i < a
  · simp [h]
  · have h2 : ¬ i + c < a := by omega
    simp [h, h2]

theorem shiftFrom_lt {a c i : Nat} (h : i < a) : shiftFrom a c i = i := by simp [shiftFrom, h]
theorem shiftFrom_ge {a c i : Nat} (h : a ≤ i) : shiftFrom a c i = i + c := by
  have : ¬ i < a := by omega
  simp [shiftFrom, this]

/-! ### all identifiers stored in a node -/

def destIds : Dest → List Uid
  | .node u => [u]
  | _ => []

def Cat.allIds (c : Cat) : List Uid := c.uid :: c.exitUid :: destIds c.dest

def Case.allIds (k : Case) : List Uid := [k.uid, k.catUid]

def RouterM.allIds : RouterM → List Uid
  | .sw r => r.cats.flatMap Cat.allIds ++ r.dflt.allIds ++ (r.noResp.toList.flatMap Cat.allIds) ++
      r.cases.flatMap Case.allIds
  | .rnd r => r.cats.flatMap Cat.allIds

def NodeM.allIds (n : NodeM) : List Uid :=
  n.uid :: n.dexitUid :: (destIds n.dexitDest ++ n.actions.map (·.1) ++ (n.router.toList.flatMap RouterM.allIds))

variable {ρ ρ' : Uid → Uid}

theorem rnDest_congr {d : Dest} (h : ∀ x ∈ destIds d, ρ x = ρ' x) : rnDest ρ d = rnDest ρ' d := by
  cases d with
  | none => rfl
  | hard => rfl
  | node u => simp [rnDest, h u (by simp [destIds])]

theorem rnCat_congr {c : Cat} (h : ∀ x ∈ c.allIds, ρ x = ρ' x) : rnCat ρ c = rnCat ρ' c := by
  unfold rnCat
  rw [h c.uid (by simp [Cat.allIds]), h c.exitUid (by simp [Cat.allIds]),
    rnDest_congr (fun x hx => h x (by simp [Cat.allIds, hx]))]

theorem rnCase_congr {k : Case} (h : ∀ x ∈ k.allIds, ρ x = ρ' x) : rnCase ρ k = rnCase ρ' k := by
  unfold rnCase
  rw [h k.uid (by simp [Case.allIds]), h k.catUid (by simp [Case.allIds])]

theorem map_rnCat_congr {l : List Cat} (h : ∀ x ∈ l.flatMap Cat.allIds, ρ x = ρ' x) :
    l.map (rnCat ρ) = l.map (rnCat ρ') := by
  apply List.map_congr_left
  intro c hc
  exact rnCat_congr (fun x hx => h x (List.mem_flatMap.mpr ⟨c, hc, hx⟩))

theorem rnRouter_congr {r : RouterM} (h : ∀ x ∈ r.allIds, ρ x = ρ' x) : rnRouter ρ r = rnRouter ρ' r := by
  cases r with
  | sw r =>
    simp only [RouterM.allIds, List.mem_append] at h
    simp only [rnRouter, rnSw]
    rw [map_rnCat_congr (fun x hx => h x (.inl (.inl (.inl hx)))),
      rnCat_congr (fun x hx => h x (.inl (.inl (.inr hx))))]
    have h3 : r.noResp.map (rnCat ρ) = r.noResp.map (rnCat ρ') := by
      cases hnr : r.noResp with
      | none => rfl
      | some c =>
        simp only [Option.map_some]
        rw [rnCat_congr (fun x hx => h x (.inl (.inr (by simp [hnr, hx]))))]
    have h4 : r.cases.map (rnCase ρ) = r.cases.map (rnCase ρ') := by
      apply List.map_congr_left
      intro k hk
      exact rnCase_congr (fun x hx => h x (.inr (List.mem_flatMap.mpr ⟨k, hk, hx⟩)))
    rw [h3, h4]
  | rnd r =>
    simp only [rnRouter, rnRnd]
    rw [map_rnCat_congr (fun x hx => h x (by simpa [RouterM.allIds] using hx))]

/-- two renamings that agree on the identifiers stored in a node rename it in the same way -/
theorem rnNode_congr {n : NodeM} (h : ∀ x ∈ n.allIds, ρ x = ρ' x) : rnNode ρ n = rnNode ρ' n := by
  unfold rnNode
  have h1 := h n.uid (by simp [NodeM.allIds])
  have h2 := h n.dexitUid (by simp [NodeM.allIds])
  have h3 : rnDest ρ n.dexitDest = rnDest ρ' n.dexitDest :=
    rnDest_congr (fun x hx => h x (by simp [NodeM.allIds, hx]))
  have h4 : n.actions.map (rnAct ρ) = n.actions.map (rnAct ρ') := by
    apply List.map_congr_left
    intro a ha
    unfold rnAct
    rw [h a.1 (by simp only [NodeM.allIds, List.mem_cons, List.mem_append, List.mem_map]; exact .inr (.inr (.inl (.inr ⟨a, ha, rfl⟩))))]
  have h5 : n.router.map (rnRouter ρ) = n.router.map (rnRouter ρ') := by
    cases hr : n.router with
    | none => rfl
    | some r =>
      simp only [Option.map_some]
      rw [rnRouter_congr (fun x hx => h x (by simp [NodeM.allIds, hr, hx]))]
  rw [h1, h2, h3, h4, h5]

theorem rnDest_inv (h : ∀ x, ρ' (ρ x) = x) (d : Dest) : rnDest ρ' (rnDest ρ d) = d := by
  cases d <;> simp [rnDest, h]

theorem rnCat_inv (h : ∀ x, ρ' (ρ x) = x) (c : Cat) : rnCat ρ' (rnCat ρ c) = c := by
  simp [rnCat, h, rnDest_inv h]

/-- a left inverse on identifiers undoes the renaming of a node -/
theorem rnNode_inv (h : ∀ x, ρ' (ρ x) = x) (n : NodeM) : rnNode ρ' (rnNode ρ n) = n := by
  have hc : ∀ l : List Cat, (l.map (rnCat ρ)).map (rnCat ρ') = l := by
    intro l; simp [List.map_map, Function.comp_def, rnCat_inv h]
  have hr : ∀ r : RouterM, rnRouter ρ' (rnRouter ρ r) = r := by
    intro r
    cases r with
    | sw r =>
      simp only [rnRouter, rnSw, hc, rnCat_inv h]
      have h3 : (r.noResp.map (rnCat ρ)).map (rnCat ρ') = r.noResp := by
        cases r.noResp <;> simp [rnCat_inv h]
      have h4 : (r.cases.map (rnCase ρ)).map (rnCase ρ') = r.cases := by
        simp [List.map_map, Function.comp_def, rnCase, h]
      rw [h3, h4]
    | rnd r => simp only [rnRouter, rnRnd, hc]
  unfold rnNode
  have h4 : (n.actions.map (rnAct ρ)).map (rnAct ρ') = n.actions := by
    simp [List.map_map, Function.comp_def, rnAct, h]
  have h5 : (n.router.map (rnRouter ρ)).map (rnRouter ρ') = n.router := by
    cases n.router <;> simp [hr]
  simp only [h, rnDest_inv h, h4, h5]

theorem destIds_rn (d : Dest) : destIds (rnDest ρ d) = (destIds d).map ρ := by
  cases d <;> rfl

theorem Cat.allIds_rn (c : Cat) : (rnCat ρ c).allIds = c.allIds.map ρ := by
  simp [Cat.allIds, rnCat, destIds_rn]

/-- the identifiers stored in a renamed node are the renamed identifiers -/
theorem allIds_rnNode (n : NodeM) : ∀ y ∈ (rnNode ρ n).allIds, ∃ x ∈ n.allIds, y = ρ x := by
  have hcats : ∀ (l : List Cat) y, y ∈ (l.map (rnCat ρ)).flatMap Cat.allIds → ∃ x ∈ l.flatMap Cat.allIds, y = ρ x := by
    intro l y hy
    simp only [List.mem_flatMap, List.mem_map] at hy
    obtain ⟨c', ⟨c, hc, rfl⟩, hy⟩ := hy
    rw [Cat.allIds_rn] at hy
    obtain ⟨x, hx, rfl⟩ := List.mem_map.mp hy
    exact ⟨x, List.mem_flatMap.mpr ⟨c, hc, hx⟩, rfl⟩
  intro y hy
  simp only [NodeM.allIds, rnNode, List.mem_cons, List.mem_append] at hy
  rcases hy with rfl | rfl | (hy | hy) | hy
  · exact ⟨n.uid, by simp [NodeM.allIds], rfl⟩
  · exact ⟨n.dexitUid, by simp [NodeM.allIds], rfl⟩
  · rw [destIds_rn] at hy
    obtain ⟨x, hx, rfl⟩ := List.mem_map.mp hy
    exact ⟨x, by simp [NodeM.allIds, hx], rfl⟩
  · simp only [List.map_map, List.mem_map, Function.comp] at hy
    obtain ⟨a, ha, rfl⟩ := hy
    refine ⟨a.1, ?_, rfl⟩
    simp only [NodeM.allIds, List.mem_cons, List.mem_append, List.mem_map]
    exact .inr (.inr (.inl (.inr ⟨a, ha, rfl⟩)))
  · cases hr : n.router with
    | none => simp [hr] at hy
    | some r =>
      simp only [hr, Option.map_some, Option.toList_some, List.flatMap_cons, List.flatMap_nil, List.append_nil] at hy
      have hin : ∀ x, x ∈ r.allIds → x ∈ n.allIds := by
        intro x hx; simp [NodeM.allIds, hr, hx]
      cases r with
      | rnd r =>
        simp only [rnRouter, rnRnd, RouterM.allIds] at hy
        obtain ⟨x, hx, e⟩ := hcats _ _ hy
        exact ⟨x, hin x (by simpa [RouterM.allIds] using hx), e⟩
      | sw r =>
        simp only [rnRouter, rnSw, RouterM.allIds, List.mem_append] at hy
        rcases hy with ((hy | hy) | hy) | hy
        · obtain ⟨x, hx, e⟩ := hcats _ _ hy
          exact ⟨x, hin x (by simp [RouterM.allIds, hx]), e⟩
        · rw [Cat.allIds_rn] at hy
          obtain ⟨x, hx, rfl⟩ := List.mem_map.mp hy
          exact ⟨x, hin x (by simp [RouterM.allIds, hx]), rfl⟩
        · cases hnr : r.noResp with
          | none => simp [hnr] at hy
          | some c =>
            simp only [hnr, Option.map_some, Option.toList_some, List.flatMap_cons, List.flatMap_nil,
              List.append_nil] at hy
            rw [Cat.allIds_rn] at hy
            obtain ⟨x, hx, rfl⟩ := List.mem_map.mp hy
            exact ⟨x, hin x (by simp [RouterM.allIds, hnr, hx]), rfl⟩
        · simp only [List.mem_flatMap, List.mem_map] at hy
          obtain ⟨k', ⟨k, hk, rfl⟩, hy⟩ := hy
          simp only [Case.allIds, rnCase, List.mem_cons, List.mem_singleton, List.not_mem_nil, or_false] at hy
          rcases hy with rfl | rfl
          · exact ⟨k.uid, hin _ (by simp only [RouterM.allIds, List.mem_append, List.mem_flatMap]; exact .inr ⟨k, hk, by simp [Case.allIds]⟩), rfl⟩
          · exact ⟨k.catUid, hin _ (by simp only [RouterM.allIds, List.mem_append, List.mem_flatMap]; exact .inr ⟨k, hk, by simp [Case.allIds]⟩), rfl⟩

/-! ### in a reachable state the identifiers stored in a node are below the counter, or given -/

def IdOk (b : Nat) (x : Uid) : Prop := Below b x ∨ ¬ Invented x

theorem IdOk.mono {b b' : Nat} {x : Uid} (h : IdOk b x) (hb : b ≤ b') : IdOk b' x := by
  rcases h with h | h
  · exact .inl (h.mono hb)
  · exact .inr h

theorem allIds_range {s : St} (a : AInv ⟨True, False⟩ s)
    (hdex : ∀ (i : Nat) (n : NodeM), s.nodes[i]? = some n → IdOk s.next n.dexitUid)
    {i : Nat} {n : NodeM} (hn : s.nodes[i]? = some n) : ∀ x ∈ n.allIds, IdOk s.next x := by
  have hI := a.ids trivial
  have hok := a.ok i n hn
  have hf : ∀ x ∈ n.fids, IdOk s.next x := fun x hx => .inl (hI.below i n hn x hx)
  have huid : ∀ (j : Nat) (m : NodeM), s.nodes[j]? = some m → IdOk s.next m.uid := by
    intro j m hm
    by_cases hinv : Invented m.uid
    · exact .inl (hI.below j m hm m.uid (by simp [NodeM.fids, uidPart, hinv]))
    · exact .inr hinv
  have hdest : ∀ d, DestOk s.nodes d → ∀ x ∈ destIds d, IdOk s.next x := by
    intro d hd x hx
    cases d with
    | none => simp [destIds] at hx
    | hard => simp [destIds] at hx
    | node u =>
      simp only [destIds, List.mem_singleton] at hx
      subst hx
      obtain ⟨j, m, hm, hu⟩ := hd
      rw [← hu]; exact huid j m hm
  have hinner : ∀ x ∈ n.innerIds, IdOk s.next x := fun x hx => hf x (by simp [NodeM.fids, hx])
  have hcat : ∀ c : Cat, c.uid ∈ n.tailIds → c.exitUid ∈ n.tailIds → c.dest ∈ n.exitDests →
      ∀ x ∈ c.allIds, IdOk s.next x := by
    intro c h1 h2 h3 x hx
    simp only [Cat.allIds, List.mem_cons] at hx
    rcases hx with rfl | rfl | hx
    · exact hinner _ (by simp [NodeM.innerIds, h1])
    · exact hinner _ (by simp [NodeM.innerIds, h2])
    · exact hdest c.dest (hok.dests _ h3) x hx
  intro x hx
  simp only [NodeM.allIds, List.mem_cons, List.mem_append] at hx
  rcases hx with rfl | rfl | (hx | hx) | hx
  · exact huid i n hn
  · exact hdex i n hn
  · exact hdest _ hok.dexit x hx
  · exact hinner x (by simp only [NodeM.innerIds, List.mem_append]; exact .inl hx)
  · cases hr : n.router with
    | none => simp [hr] at hx
    | some rt =>
      simp only [hr, Option.toList_some, List.flatMap_cons, List.flatMap_nil, List.append_nil] at hx
      cases rt with
      | rnd r =>
        simp only [RouterM.allIds, List.mem_flatMap] at hx
        obtain ⟨c, hc, hx⟩ := hx
        refine hcat c ?_ ?_ ?_ x hx
        · simp only [NodeM.tailIds, hr, RandomR.ids, List.mem_append, List.mem_map]; exact .inr ⟨c, hc, rfl⟩
        · simp only [NodeM.tailIds, hr, RandomR.ids, List.mem_append, List.mem_map]; exact .inl ⟨c, hc, rfl⟩
        · simp only [NodeM.exitDests, hr, List.mem_map]; exact ⟨c, hc, rfl⟩
      | sw r =>
        have hall : ∀ c ∈ r.allCats, ∀ x ∈ c.allIds, IdOk s.next x := by
          intro c hc x hx
          refine hcat c ?_ ?_ ?_ x hx
          · simp only [NodeM.tailIds, hr, SwitchR.ids, List.mem_append, List.mem_map]; exact .inr (.inl ⟨c, hc, rfl⟩)
          · simp only [NodeM.tailIds, hr, SwitchR.ids, List.mem_append, List.mem_map]; exact .inl ⟨c, hc, rfl⟩
          · simp only [NodeM.exitDests, hr, List.mem_map]; exact ⟨c, hc, rfl⟩
        simp only [RouterM.allIds, List.mem_append, List.mem_flatMap] at hx
        rcases hx with ((⟨c, hc, hx⟩ | hx) | ⟨c, hc, hx⟩) | ⟨k, hk, hx⟩
        · exact hall c (by simp [SwitchR.allCats, hc]) x hx
        · exact hall r.dflt (by simp [SwitchR.allCats]) x hx
        · exact hall c (by simp only [SwitchR.allCats, List.mem_append]; exact .inr hc) x hx
        · simp only [Case.allIds, List.mem_cons, List.mem_singleton, List.not_mem_nil, or_false] at hx
          rcases hx with rfl | rfl
          · exact hinner _ (by
              simp only [NodeM.innerIds, NodeM.tailIds, hr, SwitchR.ids, List.mem_append, List.mem_map]
              exact .inr (.inr (.inr ⟨k, hk, rfl⟩)))
          · have := hok.cases r hr k hk
            simp only [List.mem_map] at this
            obtain ⟨c, hc, hcu⟩ := this
            rw [← hcu]
            exact hall c hc c.uid (by simp [Cat.allIds])

end Rpft.Compile
