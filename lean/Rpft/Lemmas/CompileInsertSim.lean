/-
The simulation relation between two states of the compiler machine: equal up to a renaming `ρ` of
identifiers, a re-indexing `ν` of the node arena and `γ` of the group arena, on a domain
(`DN`, `DG`) of the left state; outside the domain the left state did not change w.r.t. a base
state, outside the image of the domain the right state did not change w.r.t. its base state.
One block `bx` of the left state may have, on the right, an extra first child `gx` (the `no_op`
group a begin row leaves inside its block).  `T` are the groups that are never traversed.
-/
import Rpft.Lemmas.CompileInsertNodes
import Rpft.Lemmas.CompileInvA
set_option linter.unusedSimpArgs false
set_option linter.unusedVariables false
namespace Rpft.Compile
open Rpft Function

structure Params where
  ρ : Uid → Uid
  ν : Nat → Nat
  γ : Nat → Nat
  DN : Nat → Prop
  DG : Nat → Prop
  T : Nat → Prop
  bx : Nat
  gx : Nat
  base₁ : St
  base₂ : St
  /-- the special block is known to have a child already -/
  hb : Prop
  /-- there is a special block at all -/
  sp : Bool
  /-- the test tables of both runs -/
  na : List Str
  nt : List Str
  /-- open mode: the special block is an ordinary (untainted) group; the extra first child it has on
  the right (a `no_op` group without router node whose parents are row groups without loose exit)
  is then inert -/
  op : Bool := false

structure Params.Ok (P : Params) : Prop where
  hρ : Injective P.ρ
  hν : Injective P.ν
  hγ : Injective P.γ
  hT : P.sp = true → P.op = false → P.T P.bx
  hfix : ∀ x, ¬ Invented x → P.ρ x = x
  hgx : P.op = true → P.sp = true ∧ ∀ j, P.γ j ≠ P.gx

/-- the nodes a group refers to -/
def gnodes : Grp → List Nat
  | .row ns _ => ns
  | .noop _ (some j) => [j]
  | .noop _ none => []
  | .block _ => []

/-- the groups a group refers to (children of a block, parents of a `no_op` group) -/
def grefs : Grp → List Nat
  | .row _ _ => []
  | .noop ps _ => ps.map (·.1)
  | .block cs => cs

variable (P : Params)

def mapGrp : Grp → Grp
  | .row nodes t => .row (nodes.map P.ν) t
  | .noop ps r => .noop (ps.map fun p => (P.γ p.1, p.2)) (r.map P.ν)
  | .block cs => .block (cs.map P.γ)

/-- the image of group `j`: the special block gets the extra first child -/
def mapGrpAt (j : Nat) : Grp → Grp
  | .block cs => if j = P.bx ∧ P.sp = true then .block (P.gx :: cs.map P.γ) else .block (cs.map P.γ)
  | g => mapGrp P g

theorem mapGrpAt_row (j : Nat) (nodes : List Nat) (t : Str) :
    mapGrpAt P j (.row nodes t) = .row (nodes.map P.ν) t := rfl

theorem mapGrpAt_noop (j : Nat) (ps : List (Nat × Cond)) (r : Option Nat) :
    mapGrpAt P j (.noop ps r) = .noop (ps.map fun p => (P.γ p.1, p.2)) (r.map P.ν) := rfl

theorem mapGrpAt_block_ne {j : Nat} (h : j ≠ P.bx ∨ P.sp = false) (cs : List Nat) :
    mapGrpAt P j (.block cs) = .block (cs.map P.γ) := by
  rcases h with h | h <;> simp [mapGrpAt, h]

theorem mapGrpAt_block_bx (hsp : P.sp = true) (cs : List Nat) :
    mapGrpAt P P.bx (.block cs) = .block (P.gx :: cs.map P.γ) := by
  simp [mapGrpAt, hsp]

/-- an untainted block is not the special one (outside open mode) -/
theorem Params.Ok.ne_bx {P : Params} (ok : P.Ok) (hop : P.op = false) {j : Nat} (ht : ¬ P.T j) :
    j ≠ P.bx ∨ P.sp = false := by
  cases hsp : P.sp with
  | false => exact .inr rfl
  | true => exact .inl (fun e => ht (e ▸ ok.hT hsp hop))

/-- a node without loose exit that stays so when a router is put behind it -/
def NoLoose (n : NodeM) : Prop := n.hasLoose = false ∧ (n.kind = .basic → n.dexitDest ≠ Dest.none)

theorem noLoose_rn {ρ : Uid → Uid} {n : NodeM} (h : NoLoose n) : NoLoose (rnNode ρ n) := by
  refine ⟨by rw [rnNode_hasLoose]; exact h.1, fun hk => ?_⟩
  have := h.2 hk
  show rnDest ρ n.dexitDest ≠ Dest.none
  cases hd : n.dexitDest with
  | none => exact absurd hd this
  | hard => intro e; cases e
  | node u => intro e; cases e

theorem noLoose_of_rn {ρ : Uid → Uid} {n : NodeM} (h : NoLoose (rnNode ρ n)) : NoLoose n := by
  refine ⟨by have := h.1; rw [rnNode_hasLoose] at this; exact this, fun hk => ?_⟩
  have := h.2 hk
  intro e
  apply this
  show rnDest ρ n.dexitDest = Dest.none
  rw [e]; rfl

/-- the extra child of the special block, in open mode: a `no_op` group without router node whose
parents are row groups all of whose nodes exist and have no loose exit -/
def Inert (gx : Nat) (s : St) : Prop :=
  ∃ ps, s.groups[gx]? = some (.noop ps none) ∧ ∀ p ∈ ps, ∃ nodes t, s.groups[p.1]? = some (.row nodes t) ∧
    ∀ i ∈ nodes, ∃ n, s.nodes[i]? = some n ∧ NoLoose n

theorem getElem?_push_lt' {α : Type} {a : Array α} {i : Nat} {x y : α} (h : a[i]? = some x) :
    (a.push y)[i]? = some x := by
  have hlt : i < a.size := (Array.getElem?_eq_some_iff.mp h).1
  rw [Array.getElem?_push]
  have : ¬ i = a.size := by omega
  simp [this, h]

/-- arena part of the simulation -/
structure ASim (s₁ s₂ : St) : Prop where
  na₁ : s₁.noArgs = P.na
  na₂ : s₂.noArgs = P.na
  nt₁ : s₁.testTypes = P.nt
  nt₂ : s₂.testTypes = P.nt
  /-- nothing shrinks w.r.t. the base states -/
  mono₁ : P.base₁.next ≤ s₁.next ∧ P.base₁.nodes.size ≤ s₁.nodes.size ∧ P.base₁.groups.size ≤ s₁.groups.size
  mono₂ : P.base₂.next ≤ s₂.next ∧ P.base₂.nodes.size ≤ s₂.nodes.size ∧ P.base₂.groups.size ≤ s₂.groups.size
  idsync : ∀ k, P.ρ (tid (s₁.next + k)) = tid (s₂.next + k)
  nsync : ∀ k, P.ν (s₁.nodes.size + k) = s₂.nodes.size + k
  gsync : ∀ k, P.γ (s₁.groups.size + k) = s₂.groups.size + k
  ndom : ∀ i, s₁.nodes.size ≤ i → P.DN i
  gdom : ∀ j, s₁.groups.size ≤ j → P.DG j ∧ ¬ P.T j
  bxlt : P.bx < s₁.groups.size
  bne : P.hb → ∃ c cs, s₁.groups[P.bx]? = some (.block (c :: cs))
  wf : ∀ (j : Nat) (g : Grp), s₁.groups[j]? = some g →
    (∀ i ∈ gnodes g, i < s₁.nodes.size) ∧ (∀ x ∈ grefs g, x < s₁.groups.size)
  /-- the exit identifier a router node carries without using it was drawn from the counter too -/
  dex : ∀ (i : Nat) (n : NodeM), s₁.nodes[i]? = some n → Below s₁.next n.dexitUid ∨ ¬ Invented n.dexitUid
  nodes : ∀ i n, P.DN i → s₁.nodes[i]? = some n → s₂.nodes[P.ν i]? = some (rnNode P.ρ n)
  groups : ∀ j g, P.DG j → s₁.groups[j]? = some g → s₂.groups[P.γ j]? = some (mapGrpAt P j g)
  closed : ∀ j g, P.DG j → s₁.groups[j]? = some g → (∀ i ∈ gnodes g, P.DN i) ∧ (∀ x ∈ grefs g, P.DG x)
  ra : ∀ j g, P.DG j → ¬ P.T j → s₁.groups[j]? = some g → ∀ x ∈ grefs g, ¬ P.T x
  fr1n : ∀ i, ¬ P.DN i → s₁.nodes[i]? = P.base₁.nodes[i]?
  fr1g : ∀ j, ¬ P.DG j → s₁.groups[j]? = P.base₁.groups[j]?
  fr2n : ∀ i', (∀ i, P.DN i → P.ν i ≠ i') → s₂.nodes[i']? = P.base₂.nodes[i']?
  fr2g : ∀ j', (∀ j, P.DG j → P.γ j ≠ j') → s₂.groups[j']? = P.base₂.groups[j']?
  /-- open mode: the extra child on the right is inert -/
  pl : P.op = true → Inert P.gx s₂

variable {P}

theorem ASim.idSync {s₁ s₂ : St} (h : ASim P s₁ s₂) : IdSync P.ρ s₁ s₂ :=
  ⟨by rw [h.na₂, h.na₁], by rw [h.nt₂, h.nt₁], h.idsync⟩

theorem ASim.bumps {s₁ s₂ t₁ t₂ : St} (h : ASim P s₁ s₂) (hb : Bumps s₁ t₁ s₂ t₂) : ASim P t₁ t₂ := by
  obtain ⟨k, rfl, rfl⟩ := hb
  refine { h with idsync := ?_, dex := ?_, mono₁ := ?_, mono₂ := ?_ }
  · exact ⟨Nat.le_trans h.mono₁.1 (Nat.le_add_right _ _), h.mono₁.2⟩
  · exact ⟨Nat.le_trans h.mono₂.1 (Nat.le_add_right _ _), h.mono₂.2⟩
  · intro j
    have := h.idsync (k + j)
    simpa [Nat.add_assoc] using this
  · intro i n hn
    rcases h.dex i n hn with hh | hh
    · exact .inl (hh.mono (Nat.le_add_right _ _))
    · exact .inr hh

theorem ASim.node_lt {s₁ s₂ : St} (h : ASim P s₁ s₂) {i : Nat} {n : NodeM} (hd : P.DN i)
    (hn : s₁.nodes[i]? = some n) : P.ν i < s₂.nodes.size :=
  (Array.getElem?_eq_some_iff.mp (h.nodes i n hd hn)).1

theorem ASim.grp_lt {s₁ s₂ : St} (h : ASim P s₁ s₂) {j : Nat} {g : Grp} (hd : P.DG j)
    (hg : s₁.groups[j]? = some g) : P.γ j < s₂.groups.size :=
  (Array.getElem?_eq_some_iff.mp (h.groups j g hd hg)).1

/-- the same node is overwritten on both sides -/
theorem ASim.setNode (ok : P.Ok) {s₁ s₂ : St} (h : ASim P s₁ s₂) {i : Nat} {old n' : NodeM}
    (hd : P.DN i) (ho : s₁.nodes[i]? = some old)
    (hdx : n'.dexitUid = old.dexitUid ∨ Below s₁.next n'.dexitUid)
    (hpl : P.op = true → NoLoose old → NoLoose n') :
    ASim P { s₁ with nodes := s₁.nodes.setIfInBounds i n' }
      { s₂ with nodes := s₂.nodes.setIfInBounds (P.ν i) (rnNode P.ρ n') } := by
  have hlt : i < s₁.nodes.size := (Array.getElem?_eq_some_iff.mp ho).1
  have hlt2 := h.node_lt hd ho
  refine { h with nsync := ?_, ndom := ?_, wf := ?_, dex := ?_, nodes := ?_, fr1n := ?_, fr2n := ?_, mono₁ := ?_, mono₂ := ?_, pl := ?_ }
  · exact ⟨h.mono₁.1, by simpa using h.mono₁.2.1, h.mono₁.2.2⟩
  · exact ⟨h.mono₂.1, by simpa using h.mono₂.2.1, h.mono₂.2.2⟩
  · intro k; simpa using h.nsync k
  · intro j hj; exact h.ndom j (by simpa using hj)
  · intro j g hg
    have := h.wf j g hg
    exact ⟨fun i hi => by simpa using this.1 i hi, this.2⟩
  · intro j m hj
    simp only [Array.getElem?_setIfInBounds] at hj
    by_cases hij : i = j
    · subst hij
      simp only [hlt, if_true, Option.some.injEq] at hj
      subst hj
      rcases hdx with hh | hh
      · rw [hh]; exact h.dex i old ho
      · exact .inl hh
    · simp only [hij, if_false] at hj
      exact h.dex j m hj
  · intro j m hdj hj
    simp only [Array.getElem?_setIfInBounds] at hj ⊢
    by_cases hij : i = j
    · subst hij
      simp only [hlt, if_true, Option.some.injEq] at hj
      subst hj
      simp [hlt2]
    · have : ¬ P.ν i = P.ν j := fun e => hij (ok.hν e)
      simp only [hij, if_false] at hj
      simp only [this, if_false]
      exact h.nodes j m hdj hj
  · intro j hj
    have : ¬ i = j := fun e => hj (e ▸ hd)
    simp only [Array.getElem?_setIfInBounds, this, if_false]
    exact h.fr1n j hj
  · intro j' hj'
    have : ¬ P.ν i = j' := hj' i hd
    simp only [Array.getElem?_setIfInBounds, this, if_false]
    exact h.fr2n j' hj'
  · intro hop
    obtain ⟨ps, hgx, hps⟩ := h.pl hop
    refine ⟨ps, hgx, fun p hp => ?_⟩
    obtain ⟨nodes, t, hgp, hn⟩ := hps p hp
    refine ⟨nodes, t, hgp, fun k hk => ?_⟩
    obtain ⟨m, hm, hml⟩ := hn k hk
    show ∃ n, (s₂.nodes.setIfInBounds (P.ν i) (rnNode P.ρ n'))[k]? = some n ∧ NoLoose n
    rw [Array.getElem?_setIfInBounds]
    by_cases hik : P.ν i = k
    · subst hik
      rw [if_pos rfl, if_pos hlt2]
      refine ⟨_, rfl, ?_⟩
      have e := h.nodes i old hd ho
      rw [hm] at e
      injection e with e
      rw [e] at hml
      exact noLoose_rn (hpl hop (noLoose_of_rn hml))
    · rw [if_neg hik]; exact ⟨m, hm, hml⟩

/-- a node is created on both sides -/
theorem ASim.addNode {s₁ s₂ : St} (h : ASim P s₁ s₂) (n : NodeM)
    (hdx : Below s₁.next n.dexitUid ∨ ¬ Invented n.dexitUid) :
    ASim P { s₁ with nodes := s₁.nodes.push n } { s₂ with nodes := s₂.nodes.push (rnNode P.ρ n) } := by
  have h0 : P.ν s₁.nodes.size = s₂.nodes.size := by simpa using h.nsync 0
  refine { h with nsync := ?_, ndom := ?_, wf := ?_, dex := ?_, nodes := ?_, fr1n := ?_, fr2n := ?_, mono₁ := ?_, mono₂ := ?_, pl := ?_ }
  · exact ⟨h.mono₁.1, by have := h.mono₁.2.1; simp; omega, h.mono₁.2.2⟩
  · exact ⟨h.mono₂.1, by have := h.mono₂.2.1; simp; omega, h.mono₂.2.2⟩
  · intro k
    have := h.nsync (1 + k)
    simpa [Nat.add_assoc] using this
  · intro j hj; exact h.ndom j (by simp at hj; omega)
  · intro j g hg
    have := h.wf j g hg
    exact ⟨fun i hi => by have := this.1 i hi; simp; omega, this.2⟩
  · intro j m hj
    simp only [Array.getElem?_push] at hj
    by_cases hjs : j = s₁.nodes.size
    · simp only [hjs, if_true, Option.some.injEq] at hj
      subst hj; exact hdx
    · simp only [hjs, if_false] at hj
      exact h.dex j m hj
  · intro j m hdj hj
    simp only [Array.getElem?_push] at hj ⊢
    by_cases hjs : j = s₁.nodes.size
    · subst hjs
      simp only [if_true, Option.some.injEq] at hj
      subst hj
      simp [h0]
    · simp only [hjs, if_false] at hj
      have hl := h.node_lt hdj hj
      have : ¬ P.ν j = s₂.nodes.size := by omega
      simp only [this, if_false]
      exact h.nodes j m hdj hj
  · intro j hj
    have : ¬ j = s₁.nodes.size := fun e => hj (h.ndom j (by omega))
    simp only [Array.getElem?_push, this, if_false]
    exact h.fr1n j hj
  · intro j' hj'
    have : ¬ j' = s₂.nodes.size := fun e => hj' s₁.nodes.size (h.ndom _ (Nat.le_refl _)) (by rw [h0, e])
    simp only [Array.getElem?_push, this, if_false]
    exact h.fr2n j' hj'
  · intro hop
    obtain ⟨ps, hgx, hps⟩ := h.pl hop
    refine ⟨ps, hgx, fun p hp => ?_⟩
    obtain ⟨nodes, t, hgp, hn⟩ := hps p hp
    refine ⟨nodes, t, hgp, fun k hk => ?_⟩
    obtain ⟨m, hm, hml⟩ := hn k hk
    exact ⟨m, getElem?_push_lt' hm, hml⟩

/-- the same group is overwritten on both sides -/
theorem ASim.setGrp (ok : P.Ok) {s₁ s₂ : St} (h : ASim P s₁ s₂) {j : Nat} {old g' : Grp}
    (hd : P.DG j) (ho : s₁.groups[j]? = some old)
    (hn : ∀ i ∈ gnodes g', P.DN i) (hr : ∀ x ∈ grefs g', P.DG x)
    (ht : ¬ P.T j → ∀ x ∈ grefs g', ¬ P.T x)
    (hbn : P.hb → j = P.bx → ∃ c cs, g' = .block (c :: cs))
    (hwf : (∀ i ∈ gnodes g', i < s₁.nodes.size) ∧ (∀ x ∈ grefs g', x < s₁.groups.size))
    (hplg : P.op = true → ∀ nodes t, old = .row nodes t →
      (∀ i ∈ nodes, ∀ n, s₁.nodes[i]? = some n → NoLoose n) → ∃ nodes', g' = .row nodes' t ∧
      ∀ i ∈ nodes', i ∈ nodes ∨ (P.DN i ∧ ∃ n, s₁.nodes[i]? = some n ∧ NoLoose n)) :
    ASim P { s₁ with groups := s₁.groups.setIfInBounds j g' }
      { s₂ with groups := s₂.groups.setIfInBounds (P.γ j) (mapGrpAt P j g') } := by
  have hlt : j < s₁.groups.size := (Array.getElem?_eq_some_iff.mp ho).1
  have hlt2 := h.grp_lt hd ho
  have get1 : ∀ x g, (s₁.groups.setIfInBounds j g')[x]? = some g →
      (x = j ∧ g = g') ∨ (x ≠ j ∧ s₁.groups[x]? = some g) := by
    intro x g hx
    simp only [Array.getElem?_setIfInBounds] at hx
    by_cases hjx : j = x
    · subst hjx; simp only [hlt, if_true, Option.some.injEq] at hx; exact .inl ⟨rfl, hx.symm⟩
    · simp only [hjx, if_false] at hx; exact .inr ⟨fun e => hjx e.symm, hx⟩
  refine { h with gsync := ?_, gdom := ?_, bxlt := ?_, bne := ?_, wf := ?_, groups := ?_, closed := ?_, ra := ?_, fr1g := ?_, fr2g := ?_, mono₁ := ?_, mono₂ := ?_, pl := ?_ }
  · exact ⟨h.mono₁.1, h.mono₁.2.1, by simpa using h.mono₁.2.2⟩
  · exact ⟨h.mono₂.1, h.mono₂.2.1, by simpa using h.mono₂.2.2⟩
  · intro k; simpa using h.gsync k
  · intro x hx; exact h.gdom x (by simpa using hx)
  · simpa using h.bxlt
  · intro hhb
    by_cases hjb : j = P.bx
    · obtain ⟨c, cs, e⟩ := hbn hhb hjb
      refine ⟨c, cs, ?_⟩
      subst hjb
      simp [hlt, e]
    · obtain ⟨c, cs, e⟩ := h.bne hhb
      refine ⟨c, cs, ?_⟩
      simp only [Array.getElem?_setIfInBounds, hjb, if_false]
      exact e
  · intro x g hx
    rcases get1 x g hx with ⟨rfl, rfl⟩ | ⟨hne, hx'⟩
    · exact ⟨hwf.1, fun y hy => by simpa using hwf.2 y hy⟩
    · have := h.wf x g hx'
      exact ⟨this.1, fun y hy => by simpa using this.2 y hy⟩
  · intro x g hdx hx
    rcases get1 x g hx with ⟨rfl, rfl⟩ | ⟨hne, hx'⟩
    · simp [hlt2]
    · have : ¬ P.γ j = P.γ x := fun e => hne (ok.hγ e).symm
      simp only [Array.getElem?_setIfInBounds, this, if_false]
      exact h.groups x g hdx hx'
  · intro x g hdx hx
    rcases get1 x g hx with ⟨rfl, rfl⟩ | ⟨hne, hx'⟩
    · exact ⟨hn, hr⟩
    · exact h.closed x g hdx hx'
  · intro x g hdx htx hx
    rcases get1 x g hx with ⟨rfl, rfl⟩ | ⟨hne, hx'⟩
    · exact ht htx
    · exact h.ra x g hdx htx hx'
  · intro x hx
    have : ¬ j = x := fun e => hx (e ▸ hd)
    simp only [Array.getElem?_setIfInBounds, this, if_false]
    exact h.fr1g x hx
  · intro x' hx'
    have : ¬ P.γ j = x' := hx' j hd
    simp only [Array.getElem?_setIfInBounds, this, if_false]
    exact h.fr2g x' hx'
  · intro hop
    obtain ⟨ps, hgx, hps⟩ := h.pl hop
    refine ⟨ps, ?_, fun p hp => ?_⟩
    · show (s₂.groups.setIfInBounds (P.γ j) _)[P.gx]? = _
      rw [Array.getElem?_setIfInBounds, if_neg ((ok.hgx hop).2 j)]
      exact hgx
    · obtain ⟨nodes₂, t₂, hgp, hn⟩ := hps p hp
      show ∃ nodes t, (s₂.groups.setIfInBounds (P.γ j) _)[p.1]? = some (.row nodes t) ∧ _
      rw [Array.getElem?_setIfInBounds]
      by_cases hjp : P.γ j = p.1
      · rw [if_pos hjp, if_pos hlt2]
        have e := h.groups j old hd ho
        rw [hjp, hgp] at e
        injection e with e
        cases old with
        | noop ps' r' => cases e
        | block cs' =>
          by_cases hb : j = P.bx ∧ P.sp = true
          · simp only [mapGrpAt, hb, and_self, if_true] at e; cases e
          · simp only [mapGrpAt, hb, if_false] at e; cases e
        | row nodes t =>
          rw [mapGrpAt_row] at e
          injection e with e1 e2
          have hn2 := hn
          have hold : ∀ i ∈ nodes, ∀ n, s₁.nodes[i]? = some n → NoLoose n := by
            intro i hi n hni
            obtain ⟨m, hm, hml⟩ := hn2 (P.ν i) (by rw [e1]; exact List.mem_map_of_mem hi)
            have := h.nodes i n ((h.closed j _ hd ho).1 i hi) hni
            rw [hm] at this; injection this with this
            rw [this] at hml
            exact noLoose_of_rn hml
          obtain ⟨nodes', rfl, hn'⟩ := hplg hop nodes t rfl hold
          refine ⟨nodes'.map P.ν, t, by rw [mapGrpAt_row], fun k hk => ?_⟩
          simp only [List.mem_map] at hk
          obtain ⟨i, hi, rfl⟩ := hk
          rcases hn' i hi with h1 | ⟨hdn, n, hni, hnl⟩
          · exact hn2 (P.ν i) (by rw [e1]; exact List.mem_map_of_mem h1)
          · exact ⟨_, h.nodes i n hdn hni, noLoose_rn hnl⟩
      · rw [if_neg hjp]
        exact ⟨nodes₂, t₂, hgp, hn⟩

/-- a group is created on both sides -/
theorem ASim.addGrp {s₁ s₂ : St} (h : ASim P s₁ s₂) (g : Grp)
    (hn : ∀ i ∈ gnodes g, P.DN i) (hr : ∀ x ∈ grefs g, P.DG x) (ht : ∀ x ∈ grefs g, ¬ P.T x)
    (hwf : (∀ i ∈ gnodes g, i < s₁.nodes.size) ∧ (∀ x ∈ grefs g, x < s₁.groups.size)) :
    ASim P { s₁ with groups := s₁.groups.push g } { s₂ with groups := s₂.groups.push (mapGrp P g) } := by
  have h0 : P.γ s₁.groups.size = s₂.groups.size := by simpa using h.gsync 0
  have hpl' : P.op = true → Inert P.gx { s₂ with groups := s₂.groups.push (mapGrp P g) } := by
    intro hop
    obtain ⟨ps, hgx, hps⟩ := h.pl hop
    refine ⟨ps, getElem?_push_lt' hgx, fun p hp => ?_⟩
    obtain ⟨nodes, t, hgp, hn⟩ := hps p hp
    exact ⟨nodes, t, getElem?_push_lt' hgp, hn⟩
  have hne : s₁.groups.size ≠ P.bx := by have := h.bxlt; omega
  have hm : mapGrpAt P s₁.groups.size g = mapGrp P g := by
    cases g <;> simp [mapGrpAt, mapGrp, hne]
  have get1 : ∀ x g0, (s₁.groups.push g)[x]? = some g0 →
      (x = s₁.groups.size ∧ g0 = g) ∨ (x ≠ s₁.groups.size ∧ s₁.groups[x]? = some g0) := by
    intro x g0 hx
    simp only [Array.getElem?_push] at hx
    by_cases hxs : x = s₁.groups.size
    · simp only [hxs, if_true, Option.some.injEq] at hx; exact .inl ⟨hxs, hx.symm⟩
    · simp only [hxs, if_false] at hx; exact .inr ⟨hxs, hx⟩
  refine { h with gsync := ?_, gdom := ?_, bxlt := ?_, bne := ?_, wf := ?_, groups := ?_, closed := ?_, ra := ?_, fr1g := ?_, fr2g := ?_, mono₁ := ?_, mono₂ := ?_, pl := hpl' }
  · exact ⟨h.mono₁.1, h.mono₁.2.1, by have := h.mono₁.2.2; simp; omega⟩
  · exact ⟨h.mono₂.1, h.mono₂.2.1, by have := h.mono₂.2.2; simp; omega⟩
  · intro k
    have := h.gsync (1 + k)
    simpa [Nat.add_assoc] using this
  · intro x hx; exact h.gdom x (by simp at hx; omega)
  · have := h.bxlt; simp; omega
  · intro hhb
    obtain ⟨c, cs, e⟩ := h.bne hhb
    exact ⟨c, cs, getElem?_push_lt' e⟩
  · intro x g0 hx
    rcases get1 x g0 hx with ⟨rfl, rfl⟩ | ⟨hne', hx'⟩
    · exact ⟨hwf.1, fun y hy => by have := hwf.2 y hy; simp; omega⟩
    · have := h.wf x g0 hx'
      exact ⟨this.1, fun y hy => by have := this.2 y hy; simp; omega⟩
  · intro x g0 hdx hx
    rcases get1 x g0 hx with ⟨rfl, rfl⟩ | ⟨hne', hx'⟩
    · simp [h0, hm]
    · have hl := h.grp_lt hdx hx'
      have : ¬ P.γ x = s₂.groups.size := by omega
      simp only [Array.getElem?_push, this, if_false]
      exact h.groups x g0 hdx hx'
  · intro x g0 hdx hx
    rcases get1 x g0 hx with ⟨rfl, rfl⟩ | ⟨hne', hx'⟩
    · exact ⟨hn, hr⟩
    · exact h.closed x g0 hdx hx'
  · intro x g0 hdx htx hx
    rcases get1 x g0 hx with ⟨rfl, rfl⟩ | ⟨hne', hx'⟩
    · exact ht
    · exact h.ra x g0 hdx htx hx'
  · intro x hx
    have : ¬ x = s₁.groups.size := fun e => hx (h.gdom x (by omega)).1
    simp only [Array.getElem?_push, this, if_false]
    exact h.fr1g x hx
  · intro x' hx'
    have : ¬ x' = s₂.groups.size := fun e => hx' s₁.groups.size (h.gdom _ (Nat.le_refl _)).1 (by rw [h0, e])
    simp only [Array.getElem?_push, this, if_false]
    exact h.fr2g x' hx'

/-- fields outside the arena do not matter -/
theorem ASim.congr {s₁ s₂ t₁ t₂ : St} (h : ASim P s₁ s₂)
    (e1 : t₁.nodes = s₁.nodes) (e2 : t₁.groups = s₁.groups) (e3 : t₁.next = s₁.next)
    (e4 : t₁.noArgs = s₁.noArgs) (e5 : t₁.testTypes = s₁.testTypes)
    (f1 : t₂.nodes = s₂.nodes) (f2 : t₂.groups = s₂.groups) (f3 : t₂.next = s₂.next)
    (f4 : t₂.noArgs = s₂.noArgs) (f5 : t₂.testTypes = s₂.testTypes) : ASim P t₁ t₂ := by
  constructor
  · rw [e4]; exact h.na₁
  · rw [f4]; exact h.na₂
  · rw [e5]; exact h.nt₁
  · rw [f5]; exact h.nt₂
  · rw [e3, e1, e2]; exact h.mono₁
  · rw [f3, f1, f2]; exact h.mono₂
  · rw [e3, f3]; exact h.idsync
  · rw [e1, f1]; exact h.nsync
  · rw [e2, f2]; exact h.gsync
  · rw [e1]; exact h.ndom
  · rw [e2]; exact h.gdom
  · rw [e2]; exact h.bxlt
  · rw [e2]; exact h.bne
  · rw [e1, e2]; exact h.wf
  · rw [e1, e3]; exact h.dex
  · rw [e1, f1]; exact h.nodes
  · rw [e2, f2]; exact h.groups
  · rw [e2]; exact h.closed
  · rw [e2]; exact h.ra
  · rw [e1]; exact h.fr1n
  · rw [e2]; exact h.fr1g
  · rw [f1]; exact h.fr2n
  · rw [f2]; exact h.fr2g
  · unfold Inert; rw [f1, f2]; exact h.pl

end Rpft.Compile
