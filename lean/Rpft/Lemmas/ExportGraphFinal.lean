/-
Helper lemmas for C04 (graph level): the two instances of the order lemma `run_filter`
(`Q = (dst = t)`: always; `Q = true`: sheets without joins), what the selection gives on the
prescribed edge list, the node rows of the rendered skeleton.
-/
import Rpft.Lemmas.ExportGraphOrder
import Rpft.Lemmas.ExportGraphReach
set_option linter.unusedSimpArgs false
set_option linter.unusedVariables false
set_option linter.unusedSectionVars false
namespace Rpft.Export
open Function

variable {U : Type} [DecidableEq U]

/-! ### instance 1: edges into one target row -/

theorem gotoAfter_split {A B : List (Item U)} {c : NodeX U} {es : List (EdgeT U)}
    (h : GotoAfter (A ++ Item.block c es :: B)) : ∀ k c' e, Item.goto k c' e ∈ A → c'.uuid ≠ c.uuid := by
  induction A with
  | nil => intro _ _ _ hm; cases hm
  | cons it A ih =>
    intro k c' e hm
    cases it with
    | goto k2 c2 e2 =>
      simp only [List.cons_append, GotoAfter] at h
      rcases List.mem_cons.1 hm with hm | hm
      · injection hm with _ h2 _
        subst h2
        intro heq
        apply h.1
        rw [heq, blockUuids_append]
        simp [blockUuids, blockNodes_cons_block]
      · exact ih h.2 k c' e hm
    | block m es2 =>
      simp only [List.cons_append, GotoAfter] at h
      rcases List.mem_cons.1 hm with hm | hm
      · cases hm
      · exact ih h k c' e hm

theorem dst_skelEdges_ne {f : FlowX U} {A : List (Item U)} {c : NodeX U}
    (hA : c.uuid ∉ blockUuids A) (hG : ∀ k c' e, Item.goto k c' e ∈ A → c'.uuid ≠ c.uuid) :
    ∀ e ∈ skelEdges A, e.dst ≠ firstId c := by
  intro e he
  obtain ⟨it, hit, hei⟩ := List.mem_flatMap.1 he
  cases it with
  | goto k c' e0 =>
    simp only [itemEdges, List.mem_singleton] at hei
    subst hei
    exact fun heq => hG k c' e0 hit (rowId_eq_uuid heq)
  | block m es =>
    have hm : m.uuid ≠ c.uuid := by
      intro heq
      apply hA
      rw [← heq]
      exact List.mem_map.2 ⟨m, mem_blockNodes.2 ⟨es, hit⟩, rfl⟩
    simp only [itemEdges, List.mem_append, List.mem_map] at hei
    rcases hei with ⟨e0, _, rfl⟩ | hch
    · exact fun heq => hm (rowId_eq_uuid heq)
    · obtain ⟨j, _, rfl⟩ := mem_chain hch
      exact fun heq => hm (rowId_eq_uuid heq)

/-- the "edge to a completed node" branch puts the edge in front of every edge into the same row -/
theorem doneOk_dst (f : FlowX U) (D : List (Item U) → NodeX U → NodeX U → Label → Prop) (s t : TempId U) :
    DoneOk f D s (fun e => decide (e.dst = t)) := by
  intro vis0 items0 n c lab A es B _ hi hAB hA _ hQ
  simp only [decide_eq_true_eq] at hQ
  subst hQ
  have hG := gotoAfter_split (hAB ▸ hi.gotoAfter)
  have := dst_skelEdges_ne (f := f) hA hG
  simp only [sel, List.filter_eq_nil_iff]
  intro e he
  simp [this e he]

/-! ### instance 2: nodes none of whose edges was PREPENDED to an existing row -/

/-- the "edge to a completed node" branch is only taken for sources other than `s` -/
def DNe (s : TempId U) : List (Item U) → NodeX U → NodeX U → Label → Prop := fun _ n _ _ => lastId n ≠ s

theorem doneOk_ne (f : FlowX U) (s : TempId U) (Q : GEdge U → Bool) : DoneOk f (DNe s) s Q := by
  intro _ _ _ _ _ _ _ _ h _ _ _ hs _
  exact absurd hs.symm h

def EdgesNonempty (items : List (Item U)) : Prop := ∀ n es, Item.block n es ∈ items → es ≠ []

/-- `e` stands in the edge list of a first row, but not as its last entry: it was prepended there
(the last entry is the edge the row was created with) -/
def Prepended (items : List (Item U)) (e : EdgeT U) : Prop := ∃ n es, Item.block n es ∈ items ∧ e ∈ es.dropLast

theorem mem_block_map_prepend {cu : U} {e : EdgeT U} {items : List (Item U)} {n : NodeX U} {es : List (EdgeT U)}
    (h : Item.block n es ∈ items) :
    ∃ pre, Item.block n (pre ++ es) ∈ items.map (prependItem cu e) ∧ (n.uuid = cu → pre = [e]) := by
  by_cases hu : n.uuid = cu
  · exact ⟨[e], List.mem_map.2 ⟨_, h, by simp [prependItem, hu]⟩, fun _ => rfl⟩
  · exact ⟨[], List.mem_map.2 ⟨_, h, by simp [prependItem, hu]⟩, fun e => absurd e hu⟩

/-- the edge lists of the first rows only grow, at the front -/
theorem run_grow (f : FlowX U) (D : List (Item U) → NodeX U → NodeX U → Label → Prop)
    {task : Task U} {vis : List U} {items : List (Item U)} {vis' : List U} {items' : List (Item U)}
    (h : Run f D task vis items vis' items') :
    ∀ n es, Item.block n es ∈ items → ∃ pre, Item.block n (pre ++ es) ∈ items' := by
  induction h with
  | nil => intro n es h; exact ⟨[], h⟩
  | skip _ ih => exact ih
  | done _ _ _ _ ih =>
    intro n es h
    obtain ⟨p1, h1, _⟩ := mem_block_map_prepend h
    obtain ⟨p2, h2⟩ := ih n _ h1
    exact ⟨p2 ++ p1, by simpa [List.append_assoc] using h2⟩
  | back _ _ _ _ ih =>
    intro n es h
    exact ih n es (List.mem_cons_of_mem _ h)
  | new _ _ _ _ _ ih1 ih2 =>
    intro n es h
    obtain ⟨p1, h1⟩ := ih1 n es h
    obtain ⟨p2, h2⟩ := ih2 n _ h1
    exact ⟨p2 ++ p1, by simpa [List.append_assoc] using h2⟩
  | node _ _ ih =>
    intro n es h
    obtain ⟨p, h2⟩ := ih n es h
    exact ⟨p, List.mem_cons_of_mem _ h2⟩

theorem Prepended.of_run {f : FlowX U} {D : List (Item U) → NodeX U → NodeX U → Label → Prop}
    {task : Task U} {vis : List U} {items : List (Item U)} {vis' : List U} {items' : List (Item U)}
    (h : Run f D task vis items vis' items') {e : EdgeT U} (hp : Prepended items e) : Prepended items' e := by
  obtain ⟨n, es, hm, he⟩ := hp
  obtain ⟨pre, h2⟩ := run_grow f D h n es hm
  refine ⟨n, pre ++ es, h2, ?_⟩
  have hne : es ≠ [] := by intro e0; subst e0; simp at he
  rw [List.dropLast_append_of_ne_nil hne]
  exact List.mem_append_right _ he

theorem run_nonempty (f : FlowX U) (D : List (Item U) → NodeX U → NodeX U → Label → Prop)
    {task : Task U} {vis : List U} {items : List (Item U)} {vis' : List U} {items' : List (Item U)}
    (h : Run f D task vis items vis' items') : EdgesNonempty items → EdgesNonempty items' := by
  induction h with
  | nil => exact id
  | skip _ ih => exact ih
  | done _ _ _ _ ih =>
    intro h0
    apply ih
    intro n es hm
    obtain ⟨it, hit, he⟩ := List.mem_map.1 hm
    cases it with
    | goto k c e' => simp [prependItem] at he
    | block m es0 =>
      simp only [prependItem] at he
      split at he
      · injection he with _ h2; subst h2; simp
      · injection he with h1 h2; subst h1; subst h2; exact h0 _ _ hit
  | back _ _ _ _ ih =>
    intro h0
    apply ih
    intro n es hm
    cases hm with
    | tail _ hm => exact h0 n es hm
  | new _ _ _ _ _ ih1 ih2 => exact fun h0 => ih2 (ih1 h0)
  | node _ _ ih =>
    intro h0 n es hm
    cases hm with
    | head => simp
    | tail _ hm => exact ih h0 n es hm

/-- if no edge leaving row `s` was prepended anywhere in the final sheet, the "edge to a completed
node" branch never ran for an exit of the node that ends in `s` -/
theorem run_noPrepended (f : FlowX U) (s : TempId U)
    {task : Task U} {vis : List U} {items : List (Item U)} {vis' : List U} {items' : List (Item U)}
    (h : Run f DTrue task vis items vis' items') :
    EdgesNonempty items → (∀ e, Prepended items' e → e.from_ ≠ some s) → Run f (DNe s) task vis items vis' items' := by
  induction h with
  | nil => intro _ _; exact .nil
  | skip _ ih => intro h0 hj; exact .skip (ih h0 hj)
  | @done n lab d es c vis items vis' items' hfn hc _ r ih =>
    intro h0 hj
    have h1 : EdgesNonempty (items.map (prependItem c.uuid ⟨some (lastId n), lab⟩)) := by
      intro m es1 hm
      obtain ⟨it, hit, he⟩ := List.mem_map.1 hm
      cases it with
      | goto k c' e' => simp [prependItem] at he
      | block m0 es0 =>
        simp only [prependItem] at he
        split at he
        · injection he with _ h2; subst h2; simp
        · injection he with h1 h2; subst h1; subst h2; exact h0 _ _ hit
    refine .done hfn hc ?_ (ih h1 hj)
    intro heq
    obtain ⟨m, hm1, hm2⟩ := List.mem_map.1 hc
    obtain ⟨es0, hes⟩ := mem_blockNodes.1 hm1
    obtain ⟨pre, hpre, hp⟩ := mem_block_map_prepend (cu := c.uuid) (e := ⟨some (lastId n), lab⟩) hes
    rw [hp hm2] at hpre
    have hne := h0 m es0 hes
    have hprep : Prepended (items.map (prependItem c.uuid ⟨some (lastId n), lab⟩)) ⟨some (lastId n), lab⟩ := by
      refine ⟨m, _, hpre, ?_⟩
      rw [List.dropLast_append_of_ne_nil hne]
      simp
    exact hj _ (Prepended.of_run r hprep) (by simp [heq])
  | @back n lab d es c k vis items vis' items' hfn hc hv r ih =>
    intro h0 hj
    refine .back hfn hc hv (ih ?_ hj)
    intro m es hm
    cases hm with
    | tail _ hm => exact h0 m es hm
  | @new n lab d es c vis items vis1 items1 vis' items' hfn hc hv r1 r2 ih1 ih2 =>
    intro h0 hj
    exact .new hfn hc hv (ih1 h0 (fun e he => hj e (Prepended.of_run r2 he))) (ih2 (run_nonempty f DTrue r1 h0) hj)
  | @node n pe vis items vis' items' hr r ih =>
    intro h0 hj
    refine .node hr (ih h0 ?_)
    intro e he
    obtain ⟨m, es, hm, hes⟩ := he
    exact hj e ⟨m, es, List.mem_cons_of_mem _ hm, hes⟩

/-! ### the selection on the prescribed edges -/

theorem sel_chain_nil (n : NodeX U) (Q : GEdge U → Bool) : sel (lastId n) Q (chain n) = [] := by
  apply sel_eq_nil_of_src
  intro e he
  obtain ⟨j, hj, rfl⟩ := mem_chain he
  intro heq
  have := rowId_inj n (Option.some.inj heq)
  omega

theorem sel_exitsEdges (f : FlowX U) (n : NodeX U) (Q : GEdge U → Bool) :
    sel (lastId n) Q (exitsEdges f n) = (exitsEdges f n).filter Q := by
  simp only [sel]
  apply List.filter_congr
  intro e he
  obtain ⟨lab, d, c, _, _, rfl⟩ := mem_loopEdges he
  simp

/-- among the contributions of pairwise different nodes, the edges leaving the last row of `n` are the
exits of `n`, in exit order -/
theorem sel_flatMap_nodeOut (f : FlowX U) (Q : GEdge U → Bool) {order : List (NodeX U)} {n : NodeX U}
    (hnd : (order.map (·.uuid)).Nodup) (hn : n ∈ order) :
    sel (lastId n) Q (order.flatMap (nodeOut f)) = (exitsEdges f n).filter Q := by
  obtain ⟨A, B, hAB⟩ := List.append_of_mem hn
  subst hAB
  simp only [List.map_append, List.map_cons] at hnd
  have h1 := List.nodup_append.1 hnd
  have hA : ∀ m ∈ A, m.uuid ≠ n.uuid := fun m hm heq =>
    h1.2.2 _ (List.mem_map.2 ⟨m, hm, rfl⟩) _ (List.mem_cons_self ..) heq
  have hB : ∀ m ∈ B, m.uuid ≠ n.uuid := fun m hm heq =>
    (List.nodup_cons.1 h1.2.1).1 (heq ▸ List.mem_map.2 ⟨m, hm, rfl⟩)
  simp only [List.flatMap_append, List.flatMap_cons, sel_append, nodeOut]
  rw [show lastId n = rowId n (n.rows.length - 1) from rfl, sel_nodeOut_nil hA, sel_nodeOut_nil hB]
  rw [show rowId n (n.rows.length - 1) = lastId n from rfl, sel_chain_nil, sel_exitsEdges]
  simp

theorem outOf_eq_sel (s : TempId U) (l : List (GEdge U)) : outOf s l = sel s (fun _ => true) l := by
  simp [outOf, sel]

theorem outOf_filter_eq_sel (s : TempId U) (Q : GEdge U → Bool) (l : List (GEdge U)) :
    (outOf s l).filter Q = sel s Q l := by
  simp [outOf, sel, List.filter_filter, Bool.and_comm]

/-! ### node rows of the rendered skeleton -/

/-- the rows of node `n` as the sheet shows them: id, `_nodeId`, `obj_id`, content -/
def nodeSig (n : NodeX U) : List (TempId U × Option U × Option U × Payload) :=
  n.rows.zipIdx.map (fun x => (rowId n x.2, some n.uuid, x.1.2, x.1.1))

theorem nodeRowsT_append (a b : List (RowT U)) : nodeRowsT (a ++ b) = nodeRowsT a ++ nodeRowsT b := by
  simp [nodeRowsT]

theorem nodeRowsT_mkRowsFrom (n : NodeX U) (rs : List (Payload × Option U)) :
    ∀ i pe, nodeRowsT (mkRowsFrom n i pe rs) = (rs.zipIdx i).map (fun x => (rowId n x.2, some n.uuid, x.1.2, x.1.1)) := by
  induction rs with
  | nil => intro i pe; rfl
  | cons x rs ih =>
    intro i pe
    obtain ⟨p, o⟩ := x
    have := ih (i + 1) ⟨some (rowId n i), blankLabel⟩
    simp only [nodeRowsT] at this ⊢
    simp only [mkRowsFrom, List.filter_cons, List.isEmpty_nil, if_true, List.map_cons, this, List.zipIdx_cons]

theorem nodeRowsT_blockRows (n : NodeX U) (es : List (EdgeT U)) : nodeRowsT (blockRows n es) = nodeSig n := by
  unfold blockRows nodeSig
  cases hr : n.rows with
  | nil => rfl
  | cons x rest =>
    obtain ⟨p, o⟩ := x
    have := nodeRowsT_mkRowsFrom n rest 1 ⟨some (rowId n 0), blankLabel⟩
    simp only [nodeRowsT] at this ⊢
    simp only [List.filter_cons, List.isEmpty_nil, if_true, List.map_cons, this, List.zipIdx_cons, Nat.zero_add]

theorem nodeRowsT_renderAll (items : List (Item U)) : nodeRowsT (renderAll items) = (blockNodes items).flatMap nodeSig := by
  induction items with
  | nil => rfl
  | cons it items ih =>
    simp only [renderAll, List.flatMap_cons, nodeRowsT_append] at ih ⊢
    rw [ih]
    cases it with
    | goto k c e => simp [Item.render, nodeRowsT, gotoRow, blockNodes_cons_goto]
    | block n es => simp [Item.render, nodeRowsT_blockRows, blockNodes_cons_block]

end Rpft.Export
