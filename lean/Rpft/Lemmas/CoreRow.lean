/-
Lock-step simulation, row by row: node-producing rows (their node is created, their edges are
added, their group is appended), `hard_exit` / `loose_exit` rows and `go_to` rows (edges only).
-/
import Rpft.Lemmas.CoreEdge
import Rpft.Lemmas.CoreFixed
set_option linter.unusedSimpArgs false
set_option linter.unusedVariables false
namespace Rpft.CoreSheet
open Rpft Rpft.Compile Rpft.RefFlow

/-- the facts about a row of the fragment that the parser looks at -/
structure RowFacts (c : CRow) : Prop where
  nouid : c.row.nodeUuid = []
  noname : c.row.nodeName = []
  t8 : c.row.type ≠ "no_op".toList
  t9 : c.row.type ≠ "go_to".toList
  t10 : c.row.type ≠ "hard_exit".toList
  t11 : c.row.type ≠ "loose_exit".toList
  t12 : c.row.type ≠ "insert_as_block".toList
  kind : kindOf c.row.type = .action ∨ kindOf c.row.type = .wait ∨ kindOf c.row.type = .splitValue ∨
    kindOf c.row.type = .splitGroup ∨ kindOf c.row.type = .enterFlow ∨ kindOf c.row.type = .webhook ∨
    kindOf c.row.type = .airtime ∨ kindOf c.row.type = .splitRandom

theorem fixed_type {t : Str} (h : fixedTypes.contains t = true) :
    t = "start_new_flow".toList ∨ t = "call_webhook".toList ∨ t = "transfer_airtime".toList := by
  rw [List.contains_iff_mem] at h
  simp only [fixedTypes, List.map_cons, List.map_nil, List.mem_cons, List.not_mem_nil, or_false] at h
  exact h

theorem kindOf_fixed {t : Str}
    (h : t = "start_new_flow".toList ∨ t = "call_webhook".toList ∨ t = "transfer_airtime".toList) :
    isFixedKind (kindOf t) := by
  rcases h with h | h | h <;> subst h
  · exact .inl kindOf_enter
  · exact .inr (.inl kindOf_webhook)
  · exact .inr (.inr kindOf_airtime)

theorem rowFacts (c : CRow) (hf : nodeRowOk c = true) : RowFacts c := by
  simp only [nodeRowOk, Bool.or_eq_true] at hf
  rcases hf with ((hf | hf) | hf) | hf
  · simp only [plainActionRow, Bool.and_eq_true, Bool.not_eq_true', List.isEmpty_iff, decide_eq_true_eq] at hf
    obtain ⟨⟨⟨hsp, hu⟩, hnm⟩, _⟩ := hf
    obtain ⟨_, _, _, _, _, _, _, h8, h9, h10, h11, h12⟩ := not_special hsp
    exact ⟨hu, hnm, h8, h9, h10, h11, h12, .inl (kindOf_action hsp)⟩
  · simp only [switchRow, Bool.and_eq_true, List.isEmpty_iff] at hf
    obtain ⟨⟨⟨hsw, hu⟩, hnm⟩, _⟩ := hf
    have ht := switch_type hsw
    refine ⟨hu, hnm, ?_, ?_, ?_, ?_, ?_, ?_⟩
    · rcases ht with h | h | h <;> rw [h] <;> decide
    · rcases ht with h | h | h <;> rw [h] <;> decide
    · rcases ht with h | h | h <;> rw [h] <;> decide
    · rcases ht with h | h | h <;> rw [h] <;> decide
    · rcases ht with h | h | h <;> rw [h] <;> decide
    · rcases kindOf_switch ht with h | h | h
      · exact .inr (.inl h)
      · exact .inr (.inr (.inl h))
      · exact .inr (.inr (.inr (.inl h)))
  · simp only [fixedRow, Bool.and_eq_true, List.isEmpty_iff] at hf
    obtain ⟨⟨⟨hsw, hu⟩, hnm⟩, _⟩ := hf
    have ht := fixed_type hsw
    refine ⟨hu, hnm, ?_, ?_, ?_, ?_, ?_, ?_⟩
    · rcases ht with h | h | h <;> rw [h] <;> decide
    · rcases ht with h | h | h <;> rw [h] <;> decide
    · rcases ht with h | h | h <;> rw [h] <;> decide
    · rcases ht with h | h | h <;> rw [h] <;> decide
    · rcases ht with h | h | h <;> rw [h] <;> decide
    · rcases kindOf_fixed ht with h | h | h
      · exact .inr (.inr (.inr (.inr (.inl h))))
      · exact .inr (.inr (.inr (.inr (.inr (.inl h)))))
      · exact .inr (.inr (.inr (.inr (.inr (.inr (.inl h))))))
  · simp only [randomRow, Bool.and_eq_true, List.isEmpty_iff, decide_eq_true_eq] at hf
    obtain ⟨⟨⟨ht, hu⟩, hnm⟩, _⟩ := hf
    refine ⟨hu, hnm, ?_, ?_, ?_, ?_, ?_, ?_⟩
    · rw [ht]; decide
    · rw [ht]; decide
    · rw [ht]; decide
    · rw [ht]; decide
    · rw [ht]; decide
    · rw [ht]; exact .inr (.inr (.inr (.inr (.inr (.inr (.inr kindOf_random))))))

/-- a row of the fragment goes straight to `newRow` -/
theorem wp_parseRow_new (c : CRow) (hf : RowFacts c) (s : St) (Q : PUnit → St → Prop)
    (h : c.row.actionOk = true → wp (newRow { c.row with edges := dropTrivial c.row.edges } []) s Q) :
    wp (parseRow c.row) s Q := by
  unfold parseRow
  simp only
  rw [if_neg (by rintro (hh | hh); exact hf.t10 hh; exact hf.t11 hh), if_neg hf.t9, if_neg hf.t8, if_neg hf.t12]
  unfold actionRow
  wp_simp
  refine ⟨fun _ => trivial, fun hok => ?_⟩
  have e1 : (if List.isEmpty c.row.nodeUuid = true then c.row.nodeName else c.row.nodeUuid) = [] := by
    simp [hf.nouid, hf.noname]
  rw [e1]
  simp only [List.isEmpty_nil, if_true]
  exact h (by simpa using hok)

/-- pass 1 on a node-producing row -/
theorem pass1Row_node (st : P1) (k : Nat) (r : RRow)
    (hk : r.kind = .action ∨ r.kind = .wait ∨ r.kind = .splitValue ∨ r.kind = .splitGroup ∨ r.kind = .enterFlow ∨
      r.kind = .webhook ∨ r.kind = .airtime ∨ r.kind = .splitRandom) :
    pass1Row st k r =
      match addEdges st k (((r.edges.zipIdx.filter fun (p : REdge × Nat) => p.2 = 0 || !isTrivial p.1).map (·.1)).map
          (fun e => (e, Target.row k))) with
      | .error err => .error err
      | .ok st1 => .ok { st1 with prev := some k, ids := if r.rowId.isEmpty then st1.ids else (r.rowId, k) :: st1.ids } := by
  unfold pass1Row
  rcases hk with h | h | h | h | h | h | h | h <;> simp only [h, bind, Except.bind, pure, Except.pure] <;>
    (cases addEdges st k _ <;> rfl)


theorem type_of_wait' {t : Str} (h : kindOf t = .wait) : t = "wait_for_response".toList := by
  rcases switch_type_of_kind (.inl h) with h1 | h1 | h1
  · exact h1
  · rw [h1, kindOf_value] at h; cases h
  · rw [h1, kindOf_group] at h; cases h

/-- the node the compiler creates for a row of the fragment is the compiled form of the row with no
out-edge yet -/
theorem rowNode_sim (c : CRow) (hf : nodeRowOk c = true) (edges : List Compile.Edge) (act : Option (Uid × Str))
    (hact : act.map (·.2) = c.row.action) (s : St) (hna : s.noArgs = RefFlow.noArgsTests) :
    wp (rowNode { c.row with edges := edges } act) s (fun n s' =>
      (∃ k, Bump s s' k) ∧ (∀ r, n.router = some (RouterM.rnd r) → r.cats = []) ∧ ∀ M ns, NodeSim M ns n c []) := by
  simp only [nodeRowOk, Bool.or_eq_true] at hf
  rcases hf with ((hf | hf) | hf) | hf
  · simp only [plainActionRow, Bool.and_eq_true, Bool.not_eq_true', List.isEmpty_iff, decide_eq_true_eq] at hf
    obtain ⟨⟨⟨hsp, _⟩, _⟩, _⟩ := hf
    refine wp_mono (rowNode_plain _ act s hsp) ?_
    intro n s' ⟨hb, hnk, hnr, hna, hnd⟩
    refine ⟨hb, (fun r hr => by rw [hnr] at hr; cases hr), fun M ns => .plain (kindOf_action hsp) ⟨hnk, hnr, ?_, ?_, ?_⟩⟩
    · have e2 : act.toList.map (·.2) = (act.map (·.2)).toList := by cases act <;> rfl
      rw [hna, e2, hact]
    · rw [hnd]; rfl
    · intro e he; cases he
  · simp only [switchRow, Bool.and_eq_true, List.isEmpty_iff] at hf
    obtain ⟨⟨⟨hsw, _⟩, _⟩, _⟩ := hf
    have ht := switch_type hsw
    refine wp_mono (rowNode_switch _ act s ht) ?_
    intro n s' ⟨hb, hnk, hna, sw, hrt, hfr⟩
    refine ⟨hb, (fun r hr => by rw [hrt] at hr; cases hr), fun M ns => .sw sw (kindOf_switch ht) ⟨hnk, hna, hrt, hfr.operand, hfr.rname, ?_, hfr.nrSome, ?_, ?_, ?_, ?_, ?_, ?_⟩⟩
    · rw [hfr.wait]; rfl
    · rw [hfr.cases]; rfl
    · rw [hfr.cases, hfr.cats]; rfl
    · rw [hfr.cats]; exact List.Forall₂.nil
    · rw [hfr.dflt]; rfl
    · intro nr hnr; rw [hfr.nr nr hnr]; rfl
    · refine ⟨by rw [hfr.cats]; rfl, ?_⟩
      have hw : sw.wait = if c.row.type = "wait_for_response".toList then some (timeoutOf c.row) else none := hfr.wait
      unfold baseNames
      cases hnn : sw.noResp with
      | none =>
        have hnot : ¬ (kindOf c.row.type = .wait ∧ timeoutOf c.row ≠ 0) := by
          rintro ⟨h1, h2⟩
          have ht1 := type_of_wait' h1
          rw [if_pos ht1] at hw
          obtain ⟨m, hm⟩ : ∃ m, timeoutOf c.row = m + 1 := ⟨timeoutOf c.row - 1, by omega⟩
          have := hfr.nrSome.mpr ⟨m, by rw [hw, hm]⟩
          rw [hnn] at this; cases this
        rw [if_neg hnot]
        simp [hfr.dname]
      | some nr =>
        obtain ⟨m, hm⟩ := hfr.nrSome.mp (by rw [hnn]; rfl)
        rw [hw] at hm
        have hyes : kindOf c.row.type = .wait ∧ timeoutOf c.row ≠ 0 := by
          by_cases ht1 : c.row.type = "wait_for_response".toList
          · rw [if_pos ht1] at hm
            injection hm with hm
            exact ⟨by rw [ht1]; exact kindOf_wait, by omega⟩
          · rw [if_neg ht1] at hm; cases hm
        rw [if_pos hyes]
        simp [hfr.dname, hfr.nrname nr hnn]
  · simp only [fixedRow, Bool.and_eq_true, List.isEmpty_iff] at hf
    obtain ⟨⟨⟨hsw, _⟩, _⟩, _⟩ := hf
    have ht := fixed_type hsw
    have key : wp (rowNode { c.row with edges := edges } act) s (fun n s' =>
        (∃ k, Bump s s' k) ∧ ∃ sw sc, FreshFix { c.row with edges := edges } n sw sc) := by
      rcases ht with h | h
      · exact rowNode_enter _ act s hna h
      · exact rowNode_hook _ act s hna h
    refine wp_mono key ?_
    intro n s' ⟨hb, sw, sc, hfr⟩
    refine ⟨hb, (fun r hr => by rw [hfr.router] at hr; cases hr), fun M ns => .fix sw sc (kindOf_fixed ht) ⟨hfr.kind, hfr.acts, hfr.router, hfr.operand, hfr.rname,
      hfr.wait, hfr.noResp, hfr.cats, hfr.sname, hfr.uidne, hfr.cases, ?_, ?_⟩⟩
    · rw [hfr.succ]; rfl
    · rw [hfr.dflt]; rfl
  · simp only [randomRow, Bool.and_eq_true, List.isEmpty_iff, decide_eq_true_eq] at hf
    obtain ⟨⟨⟨ht, _⟩, _⟩, _⟩ := hf
    refine wp_mono (rowNode_random _ act s ht) ?_
    intro n s' ⟨hb, hnk, hna, hrt⟩
    refine ⟨hb, (fun r hr => by rw [hrt] at hr; injection hr with hr; injection hr with hr; rw [← hr]), fun M ns =>
      .rnd _ (by rw [ht]; exact kindOf_random) ⟨hnk, hna, hrt, rfl, List.nodup_nil, List.nodup_nil, List.Forall₂.nil, ?_⟩⟩
    intro cat hcat; cases hcat

/-! ### changing the ghost map where no target lives -/

theorem DestIs.congrM {M M' : Maps} {ns : Array NodeM} {d : Dest} {t : Option Target}
    (h : ∀ k, t = some (Target.row k) → M'.nOf k = M.nOf k) (hd : DestIs M ns d t) : DestIs M' ns d t := by
  cases t with
  | none => exact hd
  | some t =>
    cases t with
    | exit => exact hd
    | row k =>
      obtain ⟨m, hm, e⟩ := hd
      exact ⟨m, by rw [h k rfl]; exact hm, e⟩

theorem forall2_imp_mem {α β} {R S : α → β → Prop} {l1 : List α} {l2 : List β} (h : List.Forall₂ R l1 l2)
    (himp : ∀ a b, b ∈ l2 → R a b → S a b) : List.Forall₂ S l1 l2 := by
  induction h with
  | nil => exact .nil
  | cons hab _ ih =>
    exact .cons (himp _ _ (by simp) hab) (ih (fun a b hb => himp a b (by simp [hb])))

theorem NodeSim.congrM {M M' : Maps} {ns : Array NodeM} {n : NodeM} {c : CRow} {es : List OutEdge}
    (h : ∀ e ∈ es, ∀ k, e.tgt = Target.row k → M'.nOf k = M.nOf k) (hs : NodeSim M ns n c es) :
    NodeSim M' ns n c es := by
  have hlast : ∀ (l : List OutEdge), (∀ e ∈ l, e ∈ es) → ∀ k, (l.getLast?).map (·.tgt) = some (Target.row k) →
      M'.nOf k = M.nOf k := by
    intro l hl k hk
    cases hg : l.getLast? with
    | none => rw [hg] at hk; cases hk
    | some e =>
      rw [hg] at hk
      simp only [Option.map_some, Option.some.injEq] at hk
      exact h e (hl e (List.mem_of_getLast? hg)) k hk
  have hfil : ∀ (p : OutEdge → Bool) (l : List OutEdge), (∀ e ∈ l, e ∈ es) → ∀ e ∈ l.filter p, e ∈ es :=
    fun p l hl e he => hl e (List.mem_filter.mp he).1
  cases hs with
  | plain hk hp =>
    exact .plain hk ⟨hp.kind, hp.router, hp.acts, hp.dest.congrM (hlast es (fun e he => he)), hp.blank⟩
  | sw r hk hp =>
    refine .sw r hk ⟨hp.kind, hp.acts, hp.router, hp.operand, hp.rname, hp.wait, hp.nrSome, hp.cases, hp.casecat,
      ?_, ?_, ?_, hp.names⟩
    · refine forall2_imp_mem hp.catd ?_
      intro cat e he hd
      refine hd.congrM ?_
      intro k hk
      simp only [Option.some.injEq] at hk
      have : e ∈ es := by
        unfold testsOf at he
        exact hfil _ _ (hfil _ _ (fun e he => he)) e he
      exact h e this k hk
    · exact hp.dflt.congrM (hlast _ (hfil _ _ (fun e he => he)))
    · intro nr hnr
      exact (hp.nr nr hnr).congrM (hlast _ (hfil _ _ (hfil _ _ (fun e he => he))))
  | fix r sc hk hp =>
    exact .fix r sc hk ⟨hp.kind, hp.acts, hp.router, hp.operand, hp.rname, hp.wait, hp.noResp, hp.cats, hp.sname,
      hp.uidne, hp.cases, hp.succ.congrM (hlast _ (hfil _ _ (fun e he => he))),
      hp.dflt.congrM (hlast _ (hfil _ _ (fun e he => he)))⟩
  | rnd r hk hp =>
    refine .rnd r hk ⟨hp.kind, hp.acts, hp.router, hp.rname, hp.uids, hp.names, ?_, hp.gen⟩
    refine forall2_imp_mem hp.rel ?_
    intro cat b hb hd
    refine ⟨hd.1.congrM ?_, hd.2⟩
    intro k hk'
    simp only [Option.some.injEq] at hk'
    obtain ⟨e, he, het⟩ := buckets_tgt es b hb
    exact h e he k (by rw [het]; exact hk')

theorem RowSim.congrM {M M' : Maps} {ns : Array NodeM} {n : NodeM} {c : CRow} {es : List OutEdge} {ro : Option Nat}
    (h : ∀ e ∈ es, ∀ k, e.tgt = Target.row k → M'.nOf k = M.nOf k) (hs : RowSim M ns n c es ro) :
    RowSim M' ns n c es ro := by
  cases hs with
  | one hn => exact .one (hn.congrM h)
  | impl i' n' r hk hp =>
    have hlast : ∀ (l : List OutEdge), (∀ e ∈ l, e ∈ es) → ∀ k, (l.getLast?).map (·.tgt) = some (Target.row k) →
        M'.nOf k = M.nOf k := by
      intro l hl k hk
      cases hg : l.getLast? with
      | none => rw [hg] at hk; cases hk
      | some e =>
        rw [hg] at hk
        simp only [Option.map_some, Option.some.injEq] at hk
        exact h e (hl e (List.mem_of_getLast? hg)) k hk
    refine .impl i' n' r hk ⟨hp.kind, hp.router, hp.acts, hp.link, hp.rnode, hp.kind',
      hp.acts', hp.router', hp.operand, hp.rname, hp.wait, hp.noResp, hp.cases, hp.casecat, ?_, ?_, hp.some, hp.names⟩
    · refine forall2_imp_mem hp.catd ?_
      intro cat e he hd
      refine hd.congrM ?_
      intro k hk
      simp only [Option.some.injEq] at hk
      have : e ∈ es := by
        unfold testsOf at he
        exact (List.mem_filter.mp (List.mem_filter.mp he).1).1
      exact h e this k hk
    · exact hp.dflt.congrM (hlast _ (fun e he => (List.mem_filter.mp he).1))

theorem isNodeRow_of_ok (c : CRow) (hf : nodeRowOk c = true) : isNodeRow c = true := by
  unfold isNodeRow
  rcases (rowFacts c hf).kind with h | h | h | h | h | h | h | h <;> rw [h] <;> rfl

theorem outOf_nil_of_src (st : P1) (k : Nat) (h : ∀ e ∈ st.out, e.src < k) : outOf st k = [] := by
  unfold outOf
  rw [List.filter_eq_nil_iff]
  intro e he
  have := h e (by simpa using he)
  simp; omega

/-- a row that produces no node has been dealt with -/
theorem Rel.skip {rows : List CRow} {M : Maps} {k : Nat} {s : St} {st : P1} {c : CRow}
    (h : Rel rows M false k s st) (hc : rows[k]? = some c) (hn : isNodeRow c = false) :
    Rel rows M false (k + 1) s st := by
  have hg : gOf rows (k + 1) = gOf rows k := by rw [gOf_succ rows k c hc, hn]; simp
  refine ⟨by rw [hg]; exact h.gsize, by rw [hg]; exact h.root, ?_, h.stack, h.ids, ?_, ?_, ?_, ?_, h.args, ?_, ?_, h.rne,
    fun j hj => h.rnone j (by omega), h.rfresh⟩
  · intro j c' hj hc' hn'
    have : j < k := by
      rcases Nat.lt_succ_iff_lt_or_eq.mp hj with h1 | h1
      · exact h1
      · subst h1; rw [hc] at hc'; injection hc' with hc'; subst hc'; rw [hn] at hn'; cases hn'
    exact h.grp j c' this hc' hn'
  · intro p hp; have := h.idok p hp; exact ⟨by omega, this.2⟩
  · have := h.prev
    cases hpv : st.prev with
    | none => rw [hpv] at this; simp only at this ⊢; rw [hg]; exact this
    | some p =>
      rw [hpv] at this
      simp only at this ⊢
      exact ⟨by omega, this.2.1, by rw [hg]; exact this.2.2⟩
  · intro e he; have := h.srcok e he; exact ⟨by omega, this.2⟩
  · intro e he t ht
    rcases h.tgtok e he t ht with h1 | h1
    · exact .inl (by omega)
    · exact absurd h1.1 (by simp)
  · intro j c' hv
    have : Valid rows false k j c' := by
      obtain ⟨h1, h2, h3⟩ := hv
      rcases h1 with h1 | h1
      · rcases Nat.lt_succ_iff_lt_or_eq.mp h1 with h4 | h4
        · exact ⟨.inl h4, h2, h3⟩
        · subst h4; rw [hc] at h2; injection h2 with h2; subst h2; rw [hn] at h3; cases h3
      · exact absurd h1.1 (by simp)
    exact h.node j c' this
  · intro j c1 j' c2 hv1 hv2
    have conv : ∀ j c', Valid rows false (k + 1) j c' → Valid rows false k j c' := by
      intro j c' hv
      obtain ⟨h1, h2, h3⟩ := hv
      rcases h1 with h1 | h1
      · rcases Nat.lt_succ_iff_lt_or_eq.mp h1 with h4 | h4
        · exact ⟨.inl h4, h2, h3⟩
        · subst h4; rw [hc] at h2; injection h2 with h2; subst h2; rw [hn] at h3; cases h3
      · exact absurd h1.1 (by simp)
    exact h.disj j c1 j' c2 (conv _ _ hv1) (conv _ _ hv2)

/-- a node-producing row -/
theorem node_row_sim (rows : List CRow) (outF : List OutEdge) (g : Good rows outF) (M : Maps) (k : Nat) (c : CRow)
    (hc : rows[k]? = some c) (hf : nodeRowOk c = true) (s : St) (st st' : P1) (h : Rel rows M false k s st)
    (hst : pass1Row st k (toRRow c) = .ok st') (hpre : st'.out.reverse <+: outF) :
    wp (step (toEvent c)) s (fun _ s' => ∃ M', Rel rows M' false (k + 1) s' st') := by
  have hfacts := rowFacts c hf
  have hnode := isNodeRow_of_ok c hf
  have hgk : gOf rows (k + 1) = gOf rows k + 1 := by rw [gOf_succ rows k c hc, hnode]; simp
  -- the reference side
  rw [pass1Row_node st k (toRRow c) hfacts.kind] at hst
  have hes : (((toRRow c).edges.zipIdx.filter fun (p : REdge × Nat) => p.2 = 0 || !isTrivial p.1).map (·.1)).map
      (fun e => (e, Target.row k)) = (dropTrivial c.row.edges).map (fun e => (toREdge e, Target.row k)) := by
    have := dropTrivial_ref c.row.edges
    simp only [toRRow]
    rw [this, List.map_map]; rfl
  rw [hes] at hst
  cases hst1 : addEdges st k ((dropTrivial c.row.edges).map (fun e => (toREdge e, Target.row k))) with
  | error err => rw [hst1] at hst; cases hst
  | ok st1 =>
    rw [hst1] at hst
    simp only [Except.ok.injEq] at hst
    have hpre1 : st1.out.reverse <+: outF := by rw [← hst] at hpre; exact hpre
    -- the compiler side
    unfold step toEvent
    refine wp_parseRow_new c hfacts s _ (fun _ => ?_)
    unfold newRow
    wp_simp [wp_addNode, wp_addGrp]
    refine wp_mono (rowAction_exact _ s) ?_
    intro act s1 ⟨⟨k1, hb1⟩, hact1⟩; subst hb1
    refine wp_mono (rowNode_sim c hf _ act hact1 _ h.args) ?_
    intro n s2 ⟨⟨k2, hb2⟩, hnrnd, hnsim⟩; subst hb2
    dsimp only
    -- the ghost map learns where the node of row `k` lives
    obtain ⟨M', hM'⟩ : ∃ M' : Maps, M' = { M with nOf := fun x => if x = k then s.nodes.size else M.nOf x } := ⟨_, rfl⟩
    have hMk : M'.nOf k = s.nodes.size := by rw [hM']; simp
    have hMo : ∀ x, x ≠ k → M'.nOf x = M.nOf x := by intro x hx; rw [hM']; simp [hx]
    have hMr : M'.rOf = M.rOf := by rw [hM']
    have hsrck : ∀ e ∈ st.out, e.src < k := fun e he => (h.srcok e he).1
    have htgk : ∀ e ∈ st.out, ∀ t, e.tgt = Target.row t → M'.nOf t = M.nOf t := by
      intro e he t ht
      rcases h.tgtok e he t ht with h1 | h1
      · exact hMo t (by omega)
      · exact absurd h1.1 (by simp)
    have hmemout : ∀ j, ∀ e ∈ outOf st j, e ∈ st.out := by
      intro j e he
      have := (List.mem_filter.mp he).1
      simpa using this
    have hvalid : ∀ j c', Valid rows true k j c' → j ≠ k → Valid rows false k j c' := by
      intro j c' hv hjk
      rcases hv.1 with h1 | h1
      · exact ⟨.inl h1, hv.2⟩
      · exact absurd h1.2 hjk
    -- the arena with the pending node
    have r1 : Rel rows M' true k { s with nodes := s.nodes.push n, next := s.next + k1 + k2 } st := by
      have hrk : M'.rOf k = none := by rw [hMr]; exact h.rnone k (Nat.le_refl _)
      have hidx : ∀ j0, idxs M' j0 = if j0 = k then [s.nodes.size] else idxs M j0 := by
        intro j0
        by_cases hjj : j0 = k
        · subst hjj; simp [idxs, hMk, hrk]
        · simp [idxs, hMo j0 hjj, hMr, hjj]
      refine ⟨h.gsize, h.root, ?_, h.stack, h.ids, h.idok, h.prev, h.srcok, ?_, h.args, ?_, ?_, ?_, ?_, ?_⟩
      · intro j c' hj hc' hn'
        rw [hMo j (by omega), hMr]; exact h.grp j c' hj hc' hn'
      · intro e he t ht
        rcases h.tgtok e he t ht with h1 | h1
        · exact .inl h1
        · exact absurd h1.1 (by simp)
      · intro j c' hv
        by_cases hjk : j = k
        · subst hjk
          have : c' = c := by have := hv.2.1; rw [hc] at this; injection this with this; exact this.symm
          subst this
          refine ⟨n, by rw [hMk]; simp, ?_⟩
          rw [outOf_nil_of_src st j hsrck, hrk]
          exact .one (hnsim _ _)
        · obtain ⟨n', hn', hp'⟩ := h.node j c' (hvalid j c' hv hjk)
          refine ⟨n', by rw [hMo j hjk]; exact getElem?_push_of_some n hn', ?_⟩
          rw [hMr]
          refine (hp'.transfer (NExt.push _ _) ?_).congrM (fun e he t ht => htgk e (hmemout j e he) t ht)
          intro i hi
          have := h.idx_lt j c' (hvalid j c' hv hjk) i (by simp only [idxs, List.mem_cons]; exact .inr hi)
          simp [Array.getElem?_push, Nat.ne_of_lt this]
      · intro j1 c1 j2 c2 hv1 hv2 x hx1 hx2
        rw [hidx] at hx1 hx2
        by_cases h1 : j1 = k
        · by_cases h2 : j2 = k
          · rw [h1, h2]
          · exfalso
            rw [if_pos h1] at hx1; rw [if_neg h2] at hx2
            have := h.idx_lt j2 c2 (hvalid j2 c2 hv2 h2) x hx2
            simp only [List.mem_singleton] at hx1
            omega
        · by_cases h2 : j2 = k
          · exfalso
            rw [if_neg h1] at hx1; rw [if_pos h2] at hx2
            have := h.idx_lt j1 c1 (hvalid j1 c1 hv1 h1) x hx1
            simp only [List.mem_singleton] at hx2
            omega
          · rw [if_neg h1] at hx1; rw [if_neg h2] at hx2
            exact h.disj j1 c1 j2 c2 (hvalid j1 c1 hv1 h1) (hvalid j2 c2 hv2 h2) x hx1 hx2
      · intro j1 i' hi'
        rw [hMr] at hi'
        have hjk : j1 ≠ k := by
          intro e; rw [e, h.rnone k (Nat.le_refl _)] at hi'; cases hi'
        rw [hMo j1 hjk]; exact h.rne j1 i' hi'
      · intro j1 hj1; rw [hMr]; exact h.rnone j1 hj1
      · intro i m r hm hr cat hcat
        simp only [Array.getElem?_push] at hm
        split at hm
        · injection hm with hm; subst hm
          rw [hnrnd r hr] at hcat; cases hcat
        · obtain ⟨k0, hk0, e⟩ := h.rfresh i m r hm hr cat hcat
          exact ⟨k0, by show k0 < s.next + k1 + k2; omega, e⟩
    have hdk : DestIs M' ({ s with nodes := s.nodes.push n, next := s.next + k1 + k2 } : St).nodes (.node n.uid)
        (some (Target.row k)) := ⟨n, by rw [hMk]; simp, rfl⟩
    refine wp_mono (edges_sim rows outF g M' true k (.node n.uid) (Target.row k) _ _ st st1 r1 hdk
      (fun t ht => by injection ht with ht; exact .inr ⟨rfl, ht.symm⟩) hst1 hpre1) ?_
    intro _ s3 ⟨M3, hM3, r3, _⟩
    have hM3k : M3.nOf k = s.nodes.size := by rw [hM3, hMk]
    have hM3r : M3.rOf k = none := r3.rnone k (Nat.le_refl _)
    -- the row group is created and appended to the root block
    unfold appendGroup
    wp_simp [wp_setGrp]
    simp only [r3.stack]
    have hsz : s3.groups.size = gOf rows k := r3.gsize
    have hpos := gOf_pos rows k
    have hroot3 : (s3.groups.push (Grp.row [s.nodes.size] c.row.type))[0]? = some (.block (List.range' 1 (gOf rows k - 1))) := by
      rw [Array.getElem?_push]
      have : ¬ 0 = s3.groups.size := by rw [hsz]; omega
      simp [this, r3.root]
    rw [hroot3]
    wp_simp [wp_setGrp]
    unfold addRowId
    have hfinal : ∀ (rowIds : List (Str × Nat)) (ids : List (Str × Nat)) (names : List (Str × Nat)),
        rowIds = ids.map (fun p => (p.1, gOf rows p.2)) →
        (∀ p ∈ ids, p.2 < k + 1 ∧ ∃ c, rows[p.2]? = some c ∧ isNodeRow c = true) →
        Rel rows M3 false (k + 1)
          { s3 with groups := (s3.groups.push (Grp.row [s.nodes.size] c.row.type)).setIfInBounds 0
                      (Grp.block (List.range' 1 (gOf rows k - 1) ++ [s3.groups.size])),
                    rowIds := rowIds, names := names }
          { st1 with prev := some k, ids := ids } := by
      intro rowIds ids names hids hlt
      refine ⟨by simp [hsz, hgk], ?_, ?_, r3.stack, hids, hlt, ?_, ?_, ?_, r3.args, ?_, ?_, r3.rne,
        fun j hj => r3.rnone j (by omega), r3.rfresh⟩
      · simp only [Array.getElem?_setIfInBounds, Array.size_push]
        have e1 : gOf rows (k + 1) - 1 = (gOf rows k - 1) + 1 := by omega
        rw [e1, List.range'_concat]
        simp [hsz]; omega
      · intro j c' hj hc' hn'
        simp only [Array.getElem?_setIfInBounds, Array.getElem?_push]
        have hgj := gOf_pos rows j
        have h0 : ¬ 0 = gOf rows j := by omega
        simp only [h0, if_false]
        by_cases hjk : j = k
        · subst hjk
          rw [hc] at hc'; injection hc' with hc'; subst hc'
          simp [hsz, hM3k, hM3r]
        · have hjl : j < k := by omega
          have := r3.grp j c' hjl hc' hn'
          have hlt' := gOf_lt rows hjl hc' hn'
          have : ¬ gOf rows j = s3.groups.size := by omega
          simp [this, r3.grp j c' hjl hc' hn']
      · exact ⟨by omega, ⟨c, hc, hnode⟩, hgk.symm⟩
      · intro e he; have := r3.srcok e he; exact ⟨by omega, this.2⟩
      · intro e he t ht
        rcases r3.tgtok e he t ht with h1 | h1
        · exact .inl (by omega)
        · exact .inl (by omega)
      · intro j c' hv
        have : Valid rows true k j c' := by
          obtain ⟨h1, h2, h3⟩ := hv
          rcases h1 with h1 | h1
          · rcases Nat.lt_succ_iff_lt_or_eq.mp h1 with h4 | h4
            · exact ⟨.inl h4, h2, h3⟩
            · exact ⟨.inr ⟨rfl, h4⟩, h2, h3⟩
          · exact absurd h1.1 (by simp)
        exact r3.node j c' this
      · intro j c1 j' c2 hv1 hv2
        have conv : ∀ j c', Valid rows false (k + 1) j c' → Valid rows true k j c' := by
          intro j c' hv
          obtain ⟨h1, h2, h3⟩ := hv
          rcases h1 with h1 | h1
          · rcases Nat.lt_succ_iff_lt_or_eq.mp h1 with h4 | h4
            · exact ⟨.inl h4, h2, h3⟩
            · exact ⟨.inr ⟨rfl, h4⟩, h2, h3⟩
          · exact absurd h1.1 (by simp)
        exact r3.disj j c1 j' c2 (conv _ _ hv1) (conv _ _ hv2)
    by_cases hrid : c.row.rowId = []
    · simp only [hrid, List.isEmpty_nil, if_true]
      wp_simp
      refine ⟨M3, ?_⟩
      have := hfinal s3.rowIds st1.ids (([], s.nodes.size) :: s3.names) r3.ids
        (fun p hp => by have := r3.idok p hp; exact ⟨by omega, this.2⟩)
      rw [← hst]
      simpa [toRRow, hrid, r3.stack] using this
    · simp only [List.isEmpty_iff, hrid, if_false]
      wp_simp
      refine ⟨M3, ?_⟩
      have := hfinal ((c.row.rowId, s3.groups.size) :: s3.rowIds) ((c.row.rowId, k) :: st1.ids)
        (([], s.nodes.size) :: s3.names) (by simp [r3.ids, hsz])
        (fun p hp => by
          simp only [List.mem_cons] at hp
          rcases hp with rfl | hp
          · exact ⟨by simp, c, hc, hnode⟩
          · have := r3.idok p hp; exact ⟨by omega, this.2⟩)
      rw [← hst]
      simpa [toRRow, List.isEmpty_iff, hrid, r3.stack] using this

/-! ### rows that produce no node -/

theorem dropTrivial_map (es : List Compile.Edge) :
    ((es.map toREdge).zipIdx.filter fun (p : REdge × Nat) => p.2 = 0 || !isTrivial p.1).map (·.1) =
      (dropTrivial es).map toREdge := dropTrivial_ref es

theorem kindOf_hard : kindOf "hard_exit".toList = .hardExit := by decide
theorem kindOf_loose : kindOf "loose_exit".toList = .looseExit := by decide
theorem kindOf_goto : kindOf "go_to".toList = .goTo := by decide

/-- a `hard_exit` / `loose_exit` row -/
theorem exit_row_sim (rows : List CRow) (outF : List OutEdge) (g : Good rows outF) (M : Maps) (k : Nat) (c : CRow)
    (hc : rows[k]? = some c) (hf : exitRow c = true) (s : St) (st st' : P1) (h : Rel rows M false k s st)
    (hst : pass1Row st k (toRRow c) = .ok st') (hpre : st'.out.reverse <+: outF) :
    wp (step (toEvent c)) s (fun _ s' => ∃ M', Rel rows M' false (k + 1) s' st') := by
  simp only [exitRow, Bool.and_eq_true, Bool.or_eq_true, decide_eq_true_eq] at hf
  obtain ⟨ht, _⟩ := hf
  have hkind : kindOf c.row.type = .hardExit ∨ kindOf c.row.type = .looseExit := by
    rcases ht with h1 | h1 <;> rw [h1]
    · exact .inl kindOf_hard
    · exact .inr kindOf_loose
  have hnn : isNodeRow c = false := by
    unfold isNodeRow; rcases hkind with h1 | h1 <;> rw [h1] <;> rfl
  -- the reference side
  have hst2 : addEdges st k ((dropTrivial c.row.edges).map (fun e => (toREdge e, Target.exit))) = .ok st' := by
    unfold pass1Row at hst
    have hk' : (toRRow c).kind = kindOf c.row.type := rfl
    have hes := dropTrivial_map c.row.edges
    rcases hkind with h1 | h1 <;>
      (simp only [hk', h1] at hst
       have he : (toRRow c).edges = c.row.edges.map toREdge := rfl
       rw [he, hes, List.map_map] at hst
       exact hst)
  -- the compiler side
  unfold step toEvent parseRow
  simp only
  rw [if_pos ht]
  have hd : DestIs M s.nodes (if c.row.type = "hard_exit".toList then Dest.hard else Dest.none) (some Target.exit) := by
    split
    · exact .inl rfl
    · exact .inr rfl
  refine wp_mono (edges_sim rows outF g M false k _ Target.exit _ s st st' h hd (fun t ht => by cases ht) hst2 hpre) ?_
  intro _ s' ⟨M', _, r, _⟩
  exact ⟨M', r.skip hc hnn⟩

theorem wp_lookupRow (id : Str) (s : St) (Q : Option Nat → St → Prop) :
    wp (lookupRow id) s Q ↔ Q ((s.rowIds.find? (·.1 = id)).map (·.2)) s := by
  unfold lookupRow; wp_simp

/-- the edges of a `go_to` row, each with its destination -/
theorem goto_edges_sim (rows : List CRow) (outF : List OutEdge) (g : Good rows outF) (k : Nat) :
    ∀ (es : List Compile.Edge) (M : Maps) (ds : List Str) (tgts : List Target) (s : St) (st st' : P1),
      Rel rows M false k s st → ds.length = es.length →
      ds.mapM (fun d => match lookupId st.ids d with
        | some t => (pure (Target.row t) : Except WfErr Target)
        | none => throw (WfErr.unknownDest k d)) = .ok tgts →
      addEdges st k ((es.map toREdge).zip tgts) = .ok st' →
      st'.out.reverse <+: outF →
      wp ((es.zip ds).forM gotoEdge) s (fun _ s' => ∃ M', Rel rows M' false k s' st') := by
  intro es
  induction es with
  | nil =>
    intro M ds tgts s st st' h _ _ hst _
    simp only [List.map_nil, List.zip_nil_left] at hst ⊢
    rw [addEdges_nil] at hst
    injection hst with hst; subst hst
    rw [wp_forM_nil]; exact ⟨M, h⟩
  | cons e es ih =>
    intro M ds tgts s st st' h hlen hm hst hpre
    cases ds with
    | nil => simp at hlen
    | cons dd ds =>
      simp only [List.mapM_cons, bind, Except.bind] at hm
      cases hl : lookupId st.ids dd with
      | none => rw [hl] at hm; cases hm
      | some t =>
        rw [hl] at hm
        simp only [pure, Except.pure] at hm
        cases hm2 : ds.mapM (fun d => match lookupId st.ids d with
            | some t => (Except.ok (Target.row t) : Except WfErr Target)
            | none => throw (WfErr.unknownDest k d)) with
        | error err => rw [hm2] at hm; cases hm
        | ok tg2 =>
          rw [hm2] at hm
          simp only [Except.ok.injEq] at hm
          subst hm
          simp only [List.map_cons, List.zip_cons_cons] at hst ⊢
          rw [addEdges_cons] at hst
          rw [wp_forM_cons]
          cases h1 : edgeStep st k (toREdge e) (Target.row t) with
          | error err => rw [h1] at hst; cases hst
          | ok st1 =>
            rw [h1] at hst
            simp only at hst
            have hpre1 : st1.out.reverse <+: outF := (addEdges_prefix _ _ _ _ hst).trans hpre
            -- the destination row: its group, its node
            obtain ⟨p, hp, hpt⟩ := lookupId_mem hl
            have hidok := h.idok p hp
            rw [hpt] at hidok
            obtain ⟨htk, ct, hct, hnt⟩ := hidok
            have hgrp := h.grp t ct htk hct hnt
            obtain ⟨nt, hnt', _⟩ := h.node t ct ⟨.inl htk, hct, hnt⟩
            have step1 : wp (gotoEdge (e, dd)) s (fun _ s1 => ∃ M1, Rel rows M1 false k s1 st1) := by
              unfold gotoEdge
              wp_simp [wp_lookupRow]
              rw [h.ids, lookup_ids, hl]
              simp only [Option.map_some]
              wp_simp [wp_fuelOf]
              have hfuel : 2 * s.groups.size + 8 = (2 * s.groups.size + 7) + 1 := by omega
              rw [hfuel]
              unfold entryNode
              wp_simp [wp_getGrp]
              intro grp hg
              rw [hgrp] at hg; injection hg with hg; subst hg
              simp only [List.head?_cons]
              wp_simp [wp_getNode]
              intro n' hn'
              rw [hnt'] at hn'; injection hn' with hn'; subst hn'
              exact wp_mono (edge_sim rows outF g M false k (.node nt.uid) (Target.row t) e s st st1 h
                ⟨nt, hnt', rfl⟩ (fun t' ht' => by injection ht' with ht'; exact .inl (ht' ▸ htk)) h1 hpre1)
                (fun _ _ ⟨M1, _, r1, _⟩ => ⟨M1, r1⟩)
            refine wp_mono step1 ?_
            intro _ s1 ⟨M1, r1⟩
            have hids : st1.ids = st.ids := (edgeStep_prefix h1).2.1
            exact ih M1 ds tg2 s1 st1 st' r1 (by simpa using hlen) (by rw [hids]; exact hm2) hst hpre

/-- a `go_to` row -/
theorem goto_row_sim (rows : List CRow) (outF : List OutEdge) (g : Good rows outF) (M : Maps) (k : Nat) (c : CRow)
    (hc : rows[k]? = some c) (hf : gotoRow c = true) (s : St) (st st' : P1) (h : Rel rows M false k s st)
    (hst : pass1Row st k (toRRow c) = .ok st') (hpre : st'.out.reverse <+: outF) :
    wp (step (toEvent c)) s (fun _ s' => ∃ M', Rel rows M' false (k + 1) s' st') := by
  simp only [gotoRow, Bool.and_eq_true, decide_eq_true_eq] at hf
  obtain ⟨ht, _⟩ := hf
  have hkind : kindOf c.row.type = .goTo := by rw [ht]; exact kindOf_goto
  have hnn : isNodeRow c = false := by unfold isNodeRow; rw [hkind]; rfl
  have hlenE : ((dropTrivial c.row.edges).map toREdge).length = (dropTrivial c.row.edges).length := by simp
  -- the reference side
  unfold pass1Row at hst
  have hk' : (toRRow c).kind = kindOf c.row.type := rfl
  have he : (toRRow c).edges = c.row.edges.map toREdge := rfl
  have hd' : (toRRow c).dests = c.row.dests := rfl
  simp only [hk', hkind, he, dropTrivial_map, hd', hlenE, bind, Except.bind, pure, Except.pure] at hst
  -- the compiler side
  unfold step toEvent parseRow
  simp only
  have e10 : ¬ (c.row.type = "hard_exit".toList ∨ c.row.type = "loose_exit".toList) := by
    rw [ht]; rintro (hh | hh) <;> exact absurd hh (by decide)
  rw [if_neg e10, if_pos ht]
  unfold parseGoto
  simp only
  generalize hds : (if c.row.dests.length = 1 then List.replicate (dropTrivial c.row.edges).length (c.row.dests.headD [])
    else c.row.dests) = ds at hst ⊢
  by_cases hlen : ds.length = (dropTrivial c.row.edges).length
  · rw [if_neg (by simpa using hlen)] at hst
    simp only [hlen, ne_eq, not_true_eq_false, if_false]
    split at hst
    · cases hst
    · rename_i tgts hm
      refine wp_mono (goto_edges_sim rows outF g k _ M ds tgts s st st' h hlen hm hst hpre) ?_
      intro _ s' ⟨M', r⟩
      exact ⟨M', r.skip hc hnn⟩
  · simp only [hlen, ne_eq, not_false_eq_true, if_true]
    wp_simp

/-- a row of the fragment: the compiler machine and pass 1 stay related -/
theorem row_sim (rows : List CRow) (outF : List OutEdge) (g : Good rows outF) (M : Maps) (k : Nat) (c : CRow)
    (hc : rows[k]? = some c) (hf : rowOk c = true) (s : St) (st st' : P1) (h : Rel rows M false k s st)
    (hst : pass1Row st k (toRRow c) = .ok st') (hpre : st'.out.reverse <+: outF) :
    wp (step (toEvent c)) s (fun _ s' => ∃ M', Rel rows M' false (k + 1) s' st') := by
  simp only [rowOk, Bool.or_eq_true] at hf
  rcases hf with (hf | hf) | hf
  · exact node_row_sim rows outF g M k c hc hf s st st' h hst hpre
  · exact exit_row_sim rows outF g M k c hc hf s st st' h hst hpre
  · exact goto_row_sim rows outF g M k c hc hf s st st' h hst hpre

end Rpft.CoreSheet
