/-
Lock-step simulation, row by row: node-producing rows (their node is created, their edges are
added, their group is appended), `hard_exit` / `loose_exit` rows and `go_to` rows (edges only).
-/
import Rpft.Lemmas.CoreEdge
import Rpft.Lemmas.CoreFixed
set_option linter.unusedSimpArgs false
set_option linter.unusedVariables false
namespace Rpft.CoreSheet
open Rpft Rpft.Compile Rpft.RefFlow

/-- the facts about a row of the fragment that the parser looks at -/
structure RowFacts (c : CRow) : Prop where
  nouid : c.row.nodeUuid = []
  /-- a node name: on an action row that has an action only -/
  noname : c.row.nodeName = [] ∨ (kindOf c.row.type = .action ∧ c.row.action.isSome = true)
  t8 : c.row.type ≠ "no_op".toList
  t9 : c.row.type ≠ "go_to".toList
  t10 : c.row.type ≠ "hard_exit".toList
  t11 : c.row.type ≠ "loose_exit".toList
  t12 : c.row.type ≠ "insert_as_block".toList
  kind : kindOf c.row.type = .action ∨ kindOf c.row.type = .wait ∨ kindOf c.row.type = .splitValue ∨
    kindOf c.row.type = .splitGroup ∨ kindOf c.row.type = .enterFlow ∨ kindOf c.row.type = .webhook ∨
    kindOf c.row.type = .airtime ∨ kindOf c.row.type = .splitRandom

theorem fixed_type {t : Str} (h : fixedTypes.contains t = true) :
    t = "start_new_flow".toList ∨ t = "call_webhook".toList ∨ t = "transfer_airtime".toList := by
  rw [List.contains_iff_mem] at h
  simp only [fixedTypes, List.map_cons, List.map_nil, List.mem_cons, List.not_mem_nil, or_false] at h
  exact h

theorem kindOf_fixed {t : Str}
    (h : t = "start_new_flow".toList ∨ t = "call_webhook".toList ∨ t = "transfer_airtime".toList) :
    isFixedKind (kindOf t) := by
  rcases h with h | h | h <;> subst h
  · exact .inl kindOf_enter
  · exact .inr (.inl kindOf_webhook)
  · exact .inr (.inr kindOf_airtime)

theorem rowFacts (c : CRow) (hf : nodeRowOk c = true) : RowFacts c := by
  simp only [nodeRowOk, Bool.or_eq_true] at hf
  rcases hf with ((hf | hf) | hf) | hf
  · simp only [plainActionRow, Bool.and_eq_true, Bool.not_eq_true', List.isEmpty_iff, decide_eq_true_eq] at hf
    obtain ⟨⟨⟨hsp, hu⟩, hnm⟩, _⟩ := hf
    obtain ⟨_, _, _, _, _, _, _, h8, h9, h10, h11, h12⟩ := not_special hsp
    refine ⟨hu, ?_, h8, h9, h10, h11, h12, .inl (kindOf_action hsp)⟩
    simp only [Bool.or_eq_true, List.isEmpty_iff] at hnm
    exact hnm.imp id (fun h => ⟨kindOf_action hsp, h⟩)
  · simp only [switchRow, Bool.and_eq_true, List.isEmpty_iff] at hf
    obtain ⟨⟨⟨hsw, hu⟩, hnm⟩, _⟩ := hf
    have ht := switch_type hsw
    refine ⟨hu, .inl hnm, ?_, ?_, ?_, ?_, ?_, ?_⟩
    · rcases ht with h | h | h <;> rw [h] <;> decide
    · rcases ht with h | h | h <;> rw [h] <;> decide
    · rcases ht with h | h | h <;> rw [h] <;> decide
    · rcases ht with h | h | h <;> rw [h] <;> decide
    · rcases ht with h | h | h <;> rw [h] <;> decide
    · rcases kindOf_switch ht with h | h | h
      · exact .inr (.inl h)
      · exact .inr (.inr (.inl h))
      · exact .inr (.inr (.inr (.inl h)))
  · simp only [fixedRow, Bool.and_eq_true, List.isEmpty_iff] at hf
    obtain ⟨⟨⟨hsw, hu⟩, hnm⟩, _⟩ := hf
    have ht := fixed_type hsw
    refine ⟨hu, .inl hnm, ?_, ?_, ?_, ?_, ?_, ?_⟩
    · rcases ht with h | h | h <;> rw [h] <;> decide
    · rcases ht with h | h | h <;> rw [h] <;> decide
    · rcases ht with h | h | h <;> rw [h] <;> decide
    · rcases ht with h | h | h <;> rw [h] <;> decide
    · rcases ht with h | h | h <;> rw [h] <;> decide
    · rcases kindOf_fixed ht with h | h | h
      · exact .inr (.inr (.inr (.inr (.inl h))))
      · exact .inr (.inr (.inr (.inr (.inr (.inl h)))))
      · exact .inr (.inr (.inr (.inr (.inr (.inr (.inl h))))))
  · simp only [randomRow, Bool.and_eq_true, List.isEmpty_iff, decide_eq_true_eq] at hf
    obtain ⟨⟨⟨ht, hu⟩, hnm⟩, _⟩ := hf
    refine ⟨hu, .inl hnm, ?_, ?_, ?_, ?_, ?_, ?_⟩
    · rw [ht]; decide
    · rw [ht]; decide
    · rw [ht]; decide
    · rw [ht]; decide
    · rw [ht]; decide
    · rw [ht]; exact .inr (.inr (.inr (.inr (.inr (.inr (.inr kindOf_random))))))

/-- a row of the fragment whose node name (if any) is not in use goes straight to `newRow` -/
theorem wp_parseRow_new (c : CRow) (hf : RowFacts c) (s : St) (Q : PUnit → St → Prop)
    (hex : c.row.nodeName = [] ∨ s.names.find? (·.1 = c.row.nodeName) = none)
    (h : c.row.actionOk = true → wp (newRow { c.row with edges := dropTrivial c.row.edges } c.row.nodeName) s Q) :
    wp (parseRow c.row) s Q := by
  unfold parseRow
  simp only
  rw [if_neg (by rintro (hh | hh); exact hf.t10 hh; exact hf.t11 hh), if_neg hf.t9, if_neg hf.t8, if_neg hf.t12]
  unfold actionRow
  wp_simp
  refine ⟨fun _ => trivial, fun hok => ?_⟩
  have e1 : (if List.isEmpty c.row.nodeUuid = true then c.row.nodeName else c.row.nodeUuid) = c.row.nodeName := by
    simp [hf.nouid]
  rw [e1]
  have e2 : (if c.row.nodeName.isEmpty = true then none
      else Option.map (fun x => x.2) (List.find? (fun x => decide (x.1 = c.row.nodeName)) s.names)) = none := by
    rcases hex with hex | hex
    · simp [hex]
    · rw [hex]; simp
  rw [e2]
  exact h (by simpa using hok)

/-- pass 1 on a node-producing row -/
theorem pass1Row_node (st : P1) (k : Nat) (r : RRow)
    (hk : r.kind = .action ∨ r.kind = .wait ∨ r.kind = .splitValue ∨ r.kind = .splitGroup ∨ r.kind = .enterFlow ∨
      r.kind = .webhook ∨ r.kind = .airtime ∨ r.kind = .splitRandom) :
    pass1Row st k r =
      match addEdges st k (((r.edges.zipIdx.filter fun (p : REdge × Nat) => p.2 = 0 || !isTrivial p.1).map (·.1)).map
          (fun e => (e, Target.row k))) with
      | .error err => .error err
      | .ok st1 => .ok { st1 with prev := some k, ids := if r.rowId.isEmpty then st1.ids else (r.rowId, k) :: st1.ids } := by
  unfold pass1Row
  rcases hk with h | h | h | h | h | h | h | h <;> simp only [h, bind, Except.bind, pure, Except.pure] <;>
    (cases addEdges st k _ <;> rfl)


theorem type_of_wait' {t : Str} (h : kindOf t = .wait) : t = "wait_for_response".toList := by
  rcases switch_type_of_kind (.inl h) with h1 | h1 | h1
  · exact h1
  · rw [h1, kindOf_value] at h; cases h
  · rw [h1, kindOf_group] at h; cases h

/-- the node the compiler creates for a row of the fragment is the compiled form of the row with no
out-edge yet -/
theorem rowNode_sim (c : CRow) (hf : nodeRowOk c = true) (edges : List Compile.Edge) (act : Option (Uid × Str))
    (hact : act.map (·.2) = c.row.action) (s : St) (hna : s.noArgs = RefFlow.noArgsTests) :
    wp (rowNode { c.row with edges := edges } act) s (fun n s' =>
      (∃ k, Bump s s' k) ∧ (∀ r, n.router = some (RouterM.rnd r) → r.cats = []) ∧ ∀ M ns, NodeSim M ns n c [] []) := by
  simp only [nodeRowOk, Bool.or_eq_true] at hf
  rcases hf with ((hf | hf) | hf) | hf
  · simp only [plainActionRow, Bool.and_eq_true, Bool.not_eq_true', List.isEmpty_iff, decide_eq_true_eq] at hf
    obtain ⟨⟨⟨hsp, _⟩, _⟩, _⟩ := hf
    refine wp_mono (rowNode_plain _ act s hsp) ?_
    intro n s' ⟨hb, hnk, hnr, hna, hnd⟩
    refine ⟨hb, (fun r hr => by rw [hnr] at hr; cases hr), fun M ns => .plain (kindOf_action hsp) ⟨hnk, hnr, ?_, ?_, ?_⟩⟩
    · have e2 : act.toList.map (·.2) = (act.map (·.2)).toList := by cases act <;> rfl
      rw [hna, e2, hact, List.append_nil]
    · rw [hnd]; rfl
    · intro e he; cases he
  · simp only [switchRow, Bool.and_eq_true, List.isEmpty_iff] at hf
    obtain ⟨⟨⟨hsw, _⟩, _⟩, _⟩ := hf
    have ht := switch_type hsw
    refine wp_mono (rowNode_switch _ act s ht) ?_
    intro n s' ⟨hb, hnk, hna, sw, hrt, hfr⟩
    refine ⟨hb, (fun r hr => by rw [hrt] at hr; cases hr), fun M ns => .sw sw (kindOf_switch ht) ⟨hnk, hna, hrt, hfr.operand, hfr.rname, ?_, hfr.nrSome, ?_, ?_, ?_, ?_, ?_, ?_⟩⟩
    · rw [hfr.wait]; rfl
    · rw [hfr.cases]; rfl
    · rw [hfr.cases, hfr.cats]; rfl
    · rw [hfr.cats]; exact List.Forall₂.nil
    · rw [hfr.dflt]; rfl
    · intro nr hnr; rw [hfr.nr nr hnr]; rfl
    · refine ⟨by rw [hfr.cats]; rfl, ?_⟩
      have hw : sw.wait = if c.row.type = "wait_for_response".toList then some (timeoutOf c.row) else none := hfr.wait
      unfold baseNames
      cases hnn : sw.noResp with
      | none =>
        have hnot : ¬ (kindOf c.row.type = .wait ∧ timeoutOf c.row ≠ 0) := by
          rintro ⟨h1, h2⟩
          have ht1 := type_of_wait' h1
          rw [if_pos ht1] at hw
          obtain ⟨m, hm⟩ : ∃ m, timeoutOf c.row = m + 1 := ⟨timeoutOf c.row - 1, by omega⟩
          have := hfr.nrSome.mpr ⟨m, by rw [hw, hm]⟩
          rw [hnn] at this; cases this
        rw [if_neg hnot]
        simp [hfr.dname]
      | some nr =>
        obtain ⟨m, hm⟩ := hfr.nrSome.mp (by rw [hnn]; rfl)
        rw [hw] at hm
        have hyes : kindOf c.row.type = .wait ∧ timeoutOf c.row ≠ 0 := by
          by_cases ht1 : c.row.type = "wait_for_response".toList
          · rw [if_pos ht1] at hm
            injection hm with hm
            exact ⟨by rw [ht1]; exact kindOf_wait, by omega⟩
          · rw [if_neg ht1] at hm; cases hm
        rw [if_pos hyes]
        simp [hfr.dname, hfr.nrname nr hnn]
  · simp only [fixedRow, Bool.and_eq_true, List.isEmpty_iff] at hf
    obtain ⟨⟨⟨hsw, _⟩, _⟩, _⟩ := hf
    have ht := fixed_type hsw
    have key : wp (rowNode { c.row with edges := edges } act) s (fun n s' =>
        (∃ k, Bump s s' k) ∧ ∃ sw sc, FreshFix { c.row with edges := edges } n sw sc) := by
      rcases ht with h | h
      · exact rowNode_enter _ act s hna h
      · exact rowNode_hook _ act s hna h
    refine wp_mono key ?_
    intro n s' ⟨hb, sw, sc, hfr⟩
    refine ⟨hb, (fun r hr => by rw [hfr.router] at hr; cases hr), fun M ns => .fix sw sc (kindOf_fixed ht) ⟨hfr.kind, hfr.acts, hfr.router, hfr.operand, hfr.rname,
      hfr.wait, hfr.noResp, hfr.cats, hfr.sname, hfr.uidne, hfr.cases, ?_, ?_⟩⟩
    · rw [hfr.succ]; rfl
    · rw [hfr.dflt]; rfl
  · simp only [randomRow, Bool.and_eq_true, List.isEmpty_iff, decide_eq_true_eq] at hf
    obtain ⟨⟨⟨ht, _⟩, _⟩, _⟩ := hf
    refine wp_mono (rowNode_random _ act s ht) ?_
    intro n s' ⟨hb, hnk, hna, hrt⟩
    refine ⟨hb, (fun r hr => by rw [hrt] at hr; injection hr with hr; injection hr with hr; rw [← hr]), fun M ns =>
      .rnd _ (by rw [ht]; exact kindOf_random) ⟨hnk, hna, hrt, rfl, List.nodup_nil, List.nodup_nil, List.Forall₂.nil, ?_⟩⟩
    intro cat hcat; cases hcat

/-! ### changing the ghost map where no target lives -/

theorem DestIs.congrM {M M' : Maps} {ns : Array NodeM} {d : Dest} {t : Option Target}
    (h : ∀ k, t = some (Target.row k) → M'.nOf k = M.nOf k) (hd : DestIs M ns d t) : DestIs M' ns d t := by
  cases t with
  | none => exact hd
  | some t =>
    cases t with
    | exit => exact hd
    | row k =>
      obtain ⟨m, hm, e⟩ := hd
      exact ⟨m, by rw [h k rfl]; exact hm, e⟩

theorem forall2_imp_mem {α β} {R S : α → β → Prop} {l1 : List α} {l2 : List β} (h : List.Forall₂ R l1 l2)
    (himp : ∀ a b, b ∈ l2 → R a b → S a b) : List.Forall₂ S l1 l2 := by
  induction h with
  | nil => exact .nil
  | cons hab _ ih =>
    exact .cons (himp _ _ (by simp) hab) (ih (fun a b hb => himp a b (by simp [hb])))

theorem NodeSim.congrM {M M' : Maps} {ns : Array NodeM} {n : NodeM} {c : CRow} {post : List Str} {es : List OutEdge}
    (h : ∀ e ∈ es, ∀ k, e.tgt = Target.row k → M'.nOf k = M.nOf k) (hs : NodeSim M ns n c post es) :
    NodeSim M' ns n c post es := by
  have hlast : ∀ (l : List OutEdge), (∀ e ∈ l, e ∈ es) → ∀ k, (l.getLast?).map (·.tgt) = some (Target.row k) →
      M'.nOf k = M.nOf k := by
    intro l hl k hk
    cases hg : l.getLast? with
    | none => rw [hg] at hk; cases hk
    | some e =>
      rw [hg] at hk
      simp only [Option.map_some, Option.some.injEq] at hk
      exact h e (hl e (List.mem_of_getLast? hg)) k hk
  have hfil : ∀ (p : OutEdge → Bool) (l : List OutEdge), (∀ e ∈ l, e ∈ es) → ∀ e ∈ l.filter p, e ∈ es :=
    fun p l hl e he => hl e (List.mem_filter.mp he).1
  cases hs with
  | plain hk hp =>
    exact .plain hk ⟨hp.kind, hp.router, hp.acts, hp.dest.congrM (hlast es (fun e he => he)), hp.blank⟩
  | sw r hk hp =>
    refine .sw r hk ⟨hp.kind, hp.acts, hp.router, hp.operand, hp.rname, hp.wait, hp.nrSome, hp.cases, hp.casecat,
      ?_, ?_, ?_, hp.names⟩
    · refine forall2_imp_mem hp.catd ?_
      intro cat e he hd
      refine hd.congrM ?_
      intro k hk
      simp only [Option.some.injEq] at hk
      have : e ∈ es := by
        unfold testsOf at he
        exact hfil _ _ (hfil _ _ (fun e he => he)) e he
      exact h e this k hk
    · exact hp.dflt.congrM (hlast _ (hfil _ _ (fun e he => he)))
    · intro nr hnr
      exact (hp.nr nr hnr).congrM (hlast _ (hfil _ _ (hfil _ _ (fun e he => he))))
  | fix r sc hk hp =>
    exact .fix r sc hk ⟨hp.kind, hp.acts, hp.router, hp.operand, hp.rname, hp.wait, hp.noResp, hp.cats, hp.sname,
      hp.uidne, hp.cases, hp.succ.congrM (hlast _ (hfil _ _ (fun e he => he))),
      hp.dflt.congrM (hlast _ (hfil _ _ (fun e he => he)))⟩
  | rnd r hk hp =>
    refine .rnd r hk ⟨hp.kind, hp.acts, hp.router, hp.rname, hp.uids, hp.names, ?_, hp.gen⟩
    refine forall2_imp_mem hp.rel ?_
    intro cat b hb hd
    refine ⟨hd.1.congrM ?_, hd.2⟩
    intro k hk'
    simp only [Option.some.injEq] at hk'
    obtain ⟨e, he, het⟩ := buckets_tgt es b hb
    exact h e he k (by rw [het]; exact hk')
  | nop r hk hp =>
    refine .nop r hk ⟨hp.kind, hp.acts, hp.router, hp.operand, hp.rname, hp.wait, hp.noResp, hp.cases, hp.casecat,
      ?_, ?_, hp.names⟩
    · refine forall2_imp_mem hp.catd ?_
      intro cat e he hd
      refine hd.congrM ?_
      intro k hk
      simp only [Option.some.injEq] at hk
      have : e ∈ es := by
        unfold testsOf at he
        exact hfil _ _ (hfil _ _ (fun e he => he)) e he
      exact h e this k hk
    · exact hp.dflt.congrM (hlast _ (hfil _ _ (fun e he => he)))

theorem RowSim.congrM {M M' : Maps} {ns : Array NodeM} {n : NodeM} {c : CRow} {post : List Str} {es : List OutEdge} {ro : Option Nat}
    (h : ∀ e ∈ es, ∀ k, e.tgt = Target.row k → M'.nOf k = M.nOf k) (hs : RowSim M ns n c post es ro) :
    RowSim M' ns n c post es ro := by
  cases hs with
  | one hn => exact .one (hn.congrM h)
  | impl i' n' r hk hp =>
    have hlast : ∀ (l : List OutEdge), (∀ e ∈ l, e ∈ es) → ∀ k, (l.getLast?).map (·.tgt) = some (Target.row k) →
        M'.nOf k = M.nOf k := by
      intro l hl k hk
      cases hg : l.getLast? with
      | none => rw [hg] at hk; cases hk
      | some e =>
        rw [hg] at hk
        simp only [Option.map_some, Option.some.injEq] at hk
        exact h e (hl e (List.mem_of_getLast? hg)) k hk
    refine .impl i' n' r hk ⟨hp.kind, hp.router, hp.acts, hp.link, hp.rnode, hp.kind',
      hp.acts', hp.router', hp.operand, hp.rname, hp.wait, hp.noResp, hp.cases, hp.casecat, ?_, ?_, hp.some, hp.names⟩
    · refine forall2_imp_mem hp.catd ?_
      intro cat e he hd
      refine hd.congrM ?_
      intro k hk
      simp only [Option.some.injEq] at hk
      have : e ∈ es := by
        unfold testsOf at he
        exact (List.mem_filter.mp (List.mem_filter.mp he).1).1
      exact h e this k hk
    · exact hp.dflt.congrM (hlast _ (fun e he => (List.mem_filter.mp he).1))

theorem isNodeRow_of_ok (c : CRow) (hf : nodeRowOk c = true) (hm : (c.merged && isNamedAct c) = false) :
    isNodeRow c = true := by
  unfold isNodeRow
  rw [hm]
  rcases (rowFacts c hf).kind with h | h | h | h | h | h | h | h <;> rw [h] <;> rfl

theorem outOf_nil_of_src (st : P1) (k : Nat) (h : ∀ e ∈ st.out, e.src < k) : outOf st k = [] := by
  unfold outOf
  rw [List.filter_eq_nil_iff]
  intro e he
  have := h e (by simpa using he)
  simp; omega

/-- a row that produces no node has been dealt with -/
theorem Rel.skip {rows : List CRow} {M : Maps} {k : Nat} {s : St} {st : P1} {c : CRow}
    (h : Rel rows M false k s st) (hc : rows[k]? = some c) (hn : isNodeRow c = false)
    (hm : (c.merged && isNamedAct c) = false) :
    Rel rows M false (k + 1) s st := by
  have hg : gOf rows (k + 1) = gOf rows k := by rw [gOf_succ rows k c hc, hn]; simp
  have hlt : ∀ j c', j < k + 1 → rows[j]? = some c' → isNodeRow c' = true → j < k := by
    intro j c' hj hc' hn'
    rcases Nat.lt_succ_iff_lt_or_eq.mp hj with h1 | h1
    · exact h1
    · subst h1; rw [hc] at hc'; injection hc' with hc'; subst hc'; rw [hn] at hn'; cases hn'
  have conv : ∀ j c', Valid rows M false (k + 1) j c' → Valid rows M false k j c' := by
    intro j c' hv
    obtain ⟨h1, h2, h3⟩ := hv
    rcases h1 with h1 | h1
    · exact ⟨.inl (hlt j c' h1 h2 h3.1), h2, h3⟩
    · exact absurd h1.1 (by simp)
  refine ⟨by rw [hg]; exact h.gsize, by rw [hg]; exact h.root, ?_, ?_, h.elno, ?_, h.tgtfr, h.stack, h.ids, ?_, ?_, ?_, ?_,
    h.args, ?_, ?_, h.rne, fun j hj => h.rnone j (by omega), h.rnoop, h.rfresh, ?_⟩
  rotate_right
  · refine ⟨fun p hp hne => ?_, fun i c' hi hc' hn' hnn' hne => ?_⟩
    · obtain ⟨i, c', hi, r⟩ := h.names.1 p hp hne
      exact ⟨i, c', by omega, r⟩
    · exact h.names.2 i c' (hlt i c' hi hc' hn') hc' hn' hnn' hne
  · intro j c' hj hc' hn' hnn'
    exact h.grp j c' (hlt j c' hj hc' hn') hc' hn' hnn'
  · intro j c' hj hc' hnn'
    exact h.grpN j c' (hlt j c' hj hc' (isNodeRow_of_noop hnn')) hc' hnn'
  · intro j hj; have := h.frel j hj; exact ⟨this.1, by omega, this.2.2⟩
  · intro p hp; have := h.idok p hp; exact ⟨by omega, this.2⟩
  · have := h.prev
    cases hpv : st.prev with
    | none => rw [hpv] at this; simp only at this ⊢; rw [hg]; exact this
    | some p =>
      rw [hpv] at this
      simp only at this ⊢
      exact ⟨by omega, this.2.1, by rw [hg]; exact this.2.2⟩
  · intro e he; have := h.srcok e he; exact ⟨by omega, this.2⟩
  · intro e he t ht
    rcases h.tgtok e he t ht with h1 | h1
    · exact .inl (by omega)
    · exact absurd h1.1 (by simp)
  · intro j c' hv
    rw [postUpTo_succ rows k j c hc hm]
    exact h.node j c' (conv _ _ hv)
  · intro j c1 j' c2 hv1 hv2
    exact h.disj j c1 j' c2 (conv _ _ hv1) (conv _ _ hv2)

/-- the node name of a row that is not merged is not in use -/
theorem names_none_of_unmerged {rows : List CRow} {M : Maps} {k : Nat} {names : List (Str × Nat)} {c : CRow}
    (ha : Annot rows) (h : NamesInv rows M k names) (hc : rows[k]? = some c)
    (hm : (c.merged && isNamedAct c) = false) (hna : c.row.nodeName ≠ [] → isNamedAct c = true) :
    c.row.nodeName = [] ∨ names.find? (·.1 = c.row.nodeName) = none := by
  by_cases hnm : c.row.nodeName = []
  · exact .inl hnm
  · right
    have hnamed := hna hnm
    rw [hnamed, Bool.and_true] at hm
    have hma := ha k c hc
    rw [hm] at hma
    unfold mergeAt at hma
    rw [hc] at hma
    simp only [hnamed, Bool.true_and] at hma
    cases hfd : names.find? (·.1 = c.row.nodeName) with
    | none => rfl
    | some p =>
      exfalso
      have hp1 : p.1 = c.row.nodeName := by simpa using List.find?_some hfd
      obtain ⟨i, ci, hi, hci, _, _, hnai, hnmi, _⟩ := h.1 p (List.mem_of_find?_eq_some hfd) (by rw [hp1]; exact hnm)
      have : (rows.take k).any (fun c' => isNamedAct c' && decide (c'.row.nodeName = c.row.nodeName)) = true := by
        rw [List.any_eq_true]
        refine ⟨ci, ?_, by rw [hnai, hnmi, hp1]; simp⟩
        rw [List.mem_iff_getElem?]
        exact ⟨i, by rw [List.getElem?_take, if_pos hi]; exact hci⟩
      rw [this] at hma; cases hma

theorem unmerged_of_node {c : CRow} (h : isNodeRow c = true) : (c.merged && isNamedAct c) = false := by
  unfold isNodeRow at h
  simp only [Bool.and_eq_true, Bool.not_eq_true'] at h
  exact h.2

/-- the node names after a row that created a node -/
theorem NamesInv.push {rows : List CRow} {M : Maps} {k : Nat} {names : List (Str × Nat)} {c : CRow}
    (h : NamesInv rows M k names) (hc : rows[k]? = some c) (hnode : isNodeRow c = true) (hnn : isNoop c = false)
    (hna : c.row.nodeName ≠ [] → isNamedAct c = true) :
    NamesInv rows M (k + 1) ((c.row.nodeName, M.nOf k) :: names) := by
  refine ⟨fun p hp hne => ?_, fun i c' hi hc' hn' hnn' hne => ?_⟩
  · simp only [List.mem_cons] at hp
    rcases hp with rfl | hp
    · exact ⟨k, c, by omega, hc, hnode, hnn, hna hne, rfl, rfl⟩
    · obtain ⟨i, c', hi, r⟩ := h.1 p hp hne
      exact ⟨i, c', by omega, r⟩
  · rcases Nat.lt_succ_iff_lt_or_eq.mp hi with h1 | h1
    · exact List.mem_cons_of_mem _ (h.2 i c' h1 hc' hn' hnn' hne)
    · subst h1; rw [hc] at hc'; injection hc' with hc'; subst hc'; simp

/-- … after a `no_op` row -/
theorem NamesInv.step_noop {rows : List CRow} {M : Maps} {k : Nat} {names : List (Str × Nat)} {c : CRow}
    (h : NamesInv rows M k names) (hc : rows[k]? = some c) (hnn : isNoop c = true) :
    NamesInv rows M (k + 1) names := by
  refine ⟨fun p hp hne => ?_, fun i c' hi hc' hn' hnn' hne => ?_⟩
  · obtain ⟨i, c', hi, r⟩ := h.1 p hp hne
    exact ⟨i, c', by omega, r⟩
  · rcases Nat.lt_succ_iff_lt_or_eq.mp hi with h1 | h1
    · exact h.2 i c' h1 hc' hn' hnn' hne
    · subst h1; rw [hc] at hc'; injection hc' with hc'; subst hc'; rw [hnn] at hnn'; cases hnn'

/-! ### the two bookkeeping steps of a row that produces a group -/

/-- the node of row `k` has been created and pushed on the arena; the ghost map learns where it lives -/
theorem Rel.push_node {rows : List CRow} {M : Maps} {k : Nat} {s : St} {st : P1} {c : CRow}
    (h : Rel rows M false k s st) (hc : rows[k]? = some c) (hnode : isNodeRow c = true) (hnn : isNoop c = false)
    (n : NodeM) (hnrnd : ∀ r, n.router = some (RouterM.rnd r) → r.cats = [])
    (hnsim : ∀ M ns, NodeSim M ns n c [] []) (nx : Nat) (hnx : s.next ≤ nx) :
    Rel rows { M with nOf := fun x => if x = k then s.nodes.size else M.nOf x } true k
      { s with nodes := s.nodes.push n, next := nx } st := by
  obtain ⟨M', hM'⟩ : ∃ M' : Maps, M' = { M with nOf := fun x => if x = k then s.nodes.size else M.nOf x } := ⟨_, rfl⟩
  rw [← hM']
  have hMk : M'.nOf k = s.nodes.size := by rw [hM']; simp
  have hMo : ∀ x, x ≠ k → M'.nOf x = M.nOf x := by intro x hx; rw [hM']; simp [hx]
  have hMr : M'.rOf = M.rOf := by rw [hM']
  have hMel : M'.el = M.el := by rw [hM']
  have hMfr : M'.fr = M.fr := by rw [hM']
  have hsrck : ∀ e ∈ st.out, e.src < k := fun e he => (h.srcok e he).1
  have htgk : ∀ e ∈ st.out, ∀ t, e.tgt = Target.row t → M'.nOf t = M.nOf t := by
    intro e he t ht
    rcases h.tgtok e he t ht with h1 | h1
    · exact hMo t (by omega)
    · exact absurd h1.1 (by simp)
  have hmemout : ∀ j, ∀ e ∈ outOf st j, e ∈ st.out := by
    intro j e he
    have := (List.mem_filter.mp he).1
    simpa using this
  have hvalid : ∀ j c', Valid rows M' true k j c' → j ≠ k → Valid rows M false k j c' := by
    intro j c' hv hjk
    rcases hv.1 with h1 | h1
    · exact ⟨.inl h1, hv.2.1, hv.2.2.1, by rw [← hMel]; exact hv.2.2.2⟩
    · exact absurd h1.2 hjk
  have hrk : M'.rOf k = none := by rw [hMr]; exact h.rnone k (Nat.le_refl _)
  have hidx : ∀ j0, idxs M' j0 = if j0 = k then [s.nodes.size] else idxs M j0 := by
    intro j0
    by_cases hjj : j0 = k
    · subst hjj; simp [idxs, hMk, hrk]
    · simp [idxs, hMo j0 hjj, hMr, hjj]
  refine ⟨h.gsize, h.root, ?_, ?_, by rw [hMel]; exact h.elno, by rw [hMel, hMfr]; exact h.frel,
    by rw [hMfr]; exact h.tgtfr, h.stack, h.ids, h.idok, h.prev, h.srcok, ?_, h.args, ?_, ?_, ?_, ?_,
    by rw [hMr]; exact h.rnoop, ?_, h.names.congr (fun i _ hi _ _ _ => hMo i (by omega))⟩
  · intro j c' hj hc' hn' hnn'
    rw [hMo j (by omega), hMr]; exact h.grp j c' hj hc' hn' hnn'
  · intro j c' hj hc' hnn'
    rw [hMo j (by omega), hMel]; exact h.grpN j c' hj hc' hnn'
  · intro e he t ht
    rcases h.tgtok e he t ht with h1 | h1
    · exact .inl h1
    · exact absurd h1.1 (by simp)
  · intro j c' hv
    by_cases hjk : j = k
    · subst hjk
      have : c' = c := by have := hv.2.1; rw [hc] at this; injection this with this; exact this.symm
      subst this
      refine ⟨n, by rw [hMk]; simp, ?_⟩
      rw [outOf_nil_of_src st j hsrck, hrk, postUpTo_le rows (Nat.le_succ j)]
      exact .one (hnsim _ _)
    · obtain ⟨n', hn', hp'⟩ := h.node j c' (hvalid j c' hv hjk)
      refine ⟨n', by rw [hMo j hjk]; exact getElem?_push_of_some n hn', ?_⟩
      rw [hMr]
      refine (hp'.transfer (NExt.push _ _) ?_).congrM (fun e he t ht => htgk e (hmemout j e he) t ht)
      intro i hi
      have := h.idx_lt j c' (hvalid j c' hv hjk) i (by simp only [idxs, List.mem_cons]; exact .inr hi)
      simp [Array.getElem?_push, Nat.ne_of_lt this]
  · intro j1 c1 j2 c2 hv1 hv2 x hx1 hx2
    rw [hidx] at hx1 hx2
    by_cases h1 : j1 = k
    · by_cases h2 : j2 = k
      · rw [h1, h2]
      · exfalso
        rw [if_pos h1] at hx1; rw [if_neg h2] at hx2
        have := h.idx_lt j2 c2 (hvalid j2 c2 hv2 h2) x hx2
        simp only [List.mem_singleton] at hx1
        omega
    · by_cases h2 : j2 = k
      · exfalso
        rw [if_neg h1] at hx1; rw [if_pos h2] at hx2
        have := h.idx_lt j1 c1 (hvalid j1 c1 hv1 h1) x hx1
        simp only [List.mem_singleton] at hx2
        omega
      · rw [if_neg h1] at hx1; rw [if_neg h2] at hx2
        exact h.disj j1 c1 j2 c2 (hvalid j1 c1 hv1 h1) (hvalid j2 c2 hv2 h2) x hx1 hx2
  · intro j1 i' hi'
    rw [hMr] at hi'
    have hjk : j1 ≠ k := by
      intro e; rw [e, h.rnone k (Nat.le_refl _)] at hi'; cases hi'
    rw [hMo j1 hjk]; exact h.rne j1 i' hi'
  · intro j1 hj1; rw [hMr]; exact h.rnone j1 hj1
  · intro i m r hm hr cat hcat
    simp only [Array.getElem?_push] at hm
    split at hm
    · injection hm with hm; subst hm
      rw [hnrnd r hr] at hcat; cases hcat
    · obtain ⟨k0, hk0, e⟩ := h.rfresh i m r hm hr cat hcat
      exact ⟨k0, by show k0 < nx; omega, e⟩

/-- the group of row `k` is created and appended to the root block, the row id is registered -/
theorem Rel.close_row {rows : List CRow} {M : Maps} {pd0 : Bool} {k : Nat} {s3 : St} {st1 : P1} {c : CRow}
    (r3 : Rel rows M pd0 k s3 st1) (hc : rows[k]? = some c) (hnode : isNodeRow c = true)
    (hpd : pd0 = true ∨ M.el k = true) (hfrk : M.fr k = true → M.el k = true ∧ isNoop c = true) (grp : Grp)
    (hg1 : isNoop c = false → grp = .row (M.nOf k :: (M.rOf k).toList) c.row.type)
    (hg2 : isNoop c = true → ∃ ps ro, grp = .noop ps ro ∧ (M.el k = false → ro = some (M.nOf k)))
    (rowIds : List (Str × Nat)) (ids : List (Str × Nat)) (names : List (Str × Nat))
    (hids : rowIds = ids.map (fun p => (p.1, gOf rows p.2)))
    (hlt : ∀ p ∈ ids, p.2 < k + 1 ∧ ∃ c, rows[p.2]? = some c ∧ isNodeRow c = true)
    (hnames : NamesInv rows M (k + 1) names) :
    Rel rows M false (k + 1)
      { s3 with groups := (s3.groups.push grp).setIfInBounds 0
                  (Grp.block (List.range' 1 (gOf rows k - 1) ++ [s3.groups.size])),
                rowIds := rowIds, names := names }
      { st1 with prev := some k, ids := ids } := by
  have hgk : gOf rows (k + 1) = gOf rows k + 1 := by rw [gOf_succ rows k c hc, hnode]; simp
  have hsz : s3.groups.size = gOf rows k := r3.gsize
  have hpos := gOf_pos rows k
  have conv : ∀ j c', Valid rows M false (k + 1) j c' → Valid rows M pd0 k j c' := by
    intro j c' hv
    obtain ⟨h1, h2, h3⟩ := hv
    rcases h1 with h1 | h1
    · rcases Nat.lt_succ_iff_lt_or_eq.mp h1 with h4 | h4
      · exact ⟨.inl h4, h2, h3⟩
      · rcases hpd with hpd | hpd
        · exact ⟨.inr ⟨hpd, h4⟩, h2, h3⟩
        · rw [h4, hpd] at h3; cases h3.2
    · exact absurd h1.1 (by simp)
  have hgetk : ∀ j, 1 ≤ j → ((s3.groups.push grp).setIfInBounds 0
      (Grp.block (List.range' 1 (gOf rows k - 1) ++ [s3.groups.size])))[j]? =
        if j = s3.groups.size then some grp else s3.groups[j]? := by
    intro j hj
    simp only [Array.getElem?_setIfInBounds, Array.getElem?_push]
    have h0 : ¬ 0 = j := by omega
    simp only [h0, if_false]
  refine ⟨by simp [hsz, hgk], ?_, ?_, ?_, r3.elno, ?_, r3.tgtfr, r3.stack, hids, hlt, ?_, ?_, ?_, r3.args, ?_, ?_, r3.rne,
    fun j hj => r3.rnone j (by omega), r3.rnoop, r3.rfresh, hnames⟩
  · simp only [Array.getElem?_setIfInBounds, Array.size_push]
    have e1 : gOf rows (k + 1) - 1 = (gOf rows k - 1) + 1 := by omega
    rw [e1, List.range'_concat]
    simp [hsz]; omega
  · intro j c' hj hc' hn' hnn'
    rw [hgetk _ (gOf_pos rows j)]
    by_cases hjk : j = k
    · subst hjk
      rw [hc] at hc'; injection hc' with hc'; subst hc'
      rw [if_pos hsz.symm, hg1 hnn']
    · have hjl : j < k := by omega
      have hlt' := gOf_lt rows hjl hc' hn'
      rw [if_neg (by omega)]
      exact r3.grp j c' hjl hc' hn' hnn'
  · intro j c' hj hc' hnn'
    rw [hgetk _ (gOf_pos rows j)]
    by_cases hjk : j = k
    · subst hjk
      rw [hc] at hc'; injection hc' with hc'; subst hc'
      rw [if_pos hsz.symm]
      obtain ⟨ps, ro, e1, e2⟩ := hg2 hnn'
      exact ⟨ps, ro, by rw [e1], e2⟩
    · have hjl : j < k := by omega
      have hlt' := gOf_lt rows hjl hc' (isNodeRow_of_noop hnn')
      rw [if_neg (by omega)]
      exact r3.grpN j c' hjl hc' hnn'
  · intro j hj
    by_cases hjk : j = k
    · subst hjk; exact ⟨(hfrk hj).1, by omega, c, hc, (hfrk hj).2⟩
    · have := r3.frel j hj; exact ⟨this.1, by omega, this.2.2⟩
  · exact ⟨by omega, ⟨c, hc, hnode⟩, hgk.symm⟩
  · intro e he; have := r3.srcok e he; exact ⟨by omega, this.2⟩
  · intro e he t ht
    rcases r3.tgtok e he t ht with h1 | h1
    · exact .inl (by omega)
    · exact .inl (by omega)
  · intro j c' hv
    rw [postUpTo_succ rows k j c hc (unmerged_of_node hnode)]
    exact r3.node j c' (conv _ _ hv)
  · intro j c1 j' c2 hv1 hv2
    exact r3.disj j c1 j' c2 (conv _ _ hv1) (conv _ _ hv2)

theorem wp_lookupRow (id : Str) (s : St) (Q : Option Nat → St → Prop) :
    wp (lookupRow id) s Q ↔ Q ((s.rowIds.find? (·.1 = id)).map (·.2)) s := by
  unfold lookupRow; wp_simp

end Rpft.CoreSheet
