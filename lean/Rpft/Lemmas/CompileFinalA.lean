/-
Consequences of the arena invariants (layer A) for the output of a successful compilation:
every emitted node is an arena node, so its cases name its categories and its destinations
are identifiers of arena nodes.
-/
import Rpft.Lemmas.CompileInvA5
set_option linter.unusedSimpArgs false
set_option linter.unusedVariables false
namespace Rpft.Compile
open Rpft

def initSt (noArgs testTypes : List Str) : St := { noArgs := noArgs, testTypes := testTypes }

theorem ainv_init (h : Flags) (noArgs testTypes : List Str) : AInv h (initSt noArgs testTypes) := by
  refine ⟨?_, fun _ => ⟨?_, ?_, ?_⟩, ?_⟩
  · intro i n hn; simp [initSt] at hn
  · intro i n hn; simp [initSt] at hn
  · intro i n hn; simp [initSt] at hn
  · intro i j n m x hn; simp [initSt] at hn
  · intro _ i n hn; simp [initSt] at hn

/-- what a successful compilation is: the final state of the machine and the emitted nodes -/
theorem compile_ok {noArgs testTypes : List Str} {evs : List Event} {out : Out}
    (h : compile noArgs testTypes evs = .ok out) :
    ∃ s, (steps evs).run (initSt noArgs testTypes) = .ok ((), s) ∧ s.stack.length = 1 ∧
      out.nodes = (emit s (s.groups.size + 2) 0).filterMap fun i => s.nodes[i]? := by
  unfold compile at h
  split at h
  · simp at h
  · rename_i u s hs
    split at h
    · simp at h
    · rename_i hl
      refine ⟨s, hs, by simpa using hl, ?_⟩
      injection h with h
      rw [← h]

theorem final_ainv (h : Flags) {noArgs testTypes : List Str} {evs : List Event} {s : St}
    (hid : EvsOk h evs)
    (hr : (steps evs).run (initSt noArgs testTypes) = .ok ((), s)) : AInv h s :=
  (wp_of_run (steps_spec h evs hid _ (ainv_init h noArgs testTypes) trivial) hr).1

theorem out_nodes_arena {s : St} {l : List Nat} {n : NodeM}
    (hn : n ∈ l.filterMap fun i => s.nodes[i]?) : ∃ i : Nat, s.nodes[i]? = some n := by
  simp only [List.mem_filterMap] at hn
  obtain ⟨i, _, hi⟩ := hn
  exact ⟨i, hi⟩

/-- every case of every emitted switch router names a category of that router -/
theorem rendered_cases_ok {n : NodeM} (hc : ∀ r, n.router = some (.sw r) → CaseCatsOk r) :
    ∀ r, (renderNode n).router = some r → ∀ k ∈ r.cases, k.catUuid ∈ r.cats.map (·.uuid) := by
  intro r hr k hk
  rcases hrt : n.router with _ | sw | rnd
  · simp [renderNode, hrt] at hr
  · simp only [renderNode, hrt, Option.map_some, Option.some.injEq] at hr
    subst hr
    simp only [renderRouter, Flow.Router.cases, List.mem_map] at hk
    obtain ⟨k0, hk0, rfl⟩ := hk
    have := hc sw hrt k0 hk0
    simp only [List.mem_map] at this
    obtain ⟨c, hc1, hc2⟩ := this
    simp only [renderRouter, Flow.Router.cats, List.map_map, List.mem_map, Function.comp]
    exact ⟨c, hc1, by simp [renderCat, renderCase, hc2]⟩
  · simp only [renderNode, hrt, Option.map_some, Option.some.injEq] at hr
    subst hr
    simp [renderRouter, Flow.Router.cases] at hk

/-- destinations of a rendered node are the `.node` destinations of the model node -/
theorem rendered_dest {n : NodeM} {e : Flow.Exit} {d : Flow.Id} (he : e ∈ (renderNode n).exits)
    (hd : e.dest = some d) : Dest.node d ∈ n.exitDests := by
  have key : ∀ c : Cat, (renderExit c).dest = some d → c.dest = .node d := by
    intro c hc
    cases hcd : c.dest <;> simp [renderExit, renderDest, hcd] at hc
    rw [hc]
  rcases hrt : n.router with _ | sw | rnd
  · simp only [renderNode, hrt, List.mem_singleton] at he
    subst he
    simp only [NodeM.exitDests, hrt, List.mem_singleton]
    cases hcd : n.dexitDest <;> simp [renderDest, hcd] at hd
    rw [hd]
  · simp only [renderNode, hrt, List.mem_map] at he
    obtain ⟨c, hc, rfl⟩ := he
    simp only [NodeM.exitDests, hrt, List.mem_map]
    exact ⟨c, hc, key c hd⟩
  · simp only [renderNode, hrt, List.mem_map] at he
    obtain ⟨c, hc, rfl⟩ := he
    simp only [NodeM.exitDests, hrt, List.mem_map]
    exact ⟨c, hc, key c hd⟩

/-- every destination named by an emitted node is the identifier of an arena node -/
theorem compile_dests_resolve_arena {noArgs testTypes : List Str} {evs : List Event} {s : St}
    (hr : (steps evs).run (initSt noArgs testTypes) = .ok ((), s)) {l : List Nat} {n : NodeM}
    (hn : n ∈ l.filterMap fun i => s.nodes[i]?) {e : Flow.Exit} {d : Flow.Id}
    (he : e ∈ (renderNode n).exits) (hd : e.dest = some d) :
    ∃ (i : Nat) (m : NodeM), s.nodes[i]? = some m ∧ m.uid = d := by
  have a := final_ainv Flags.none ⟨fun hf => hf.elim, fun hf => hf.elim⟩ hr
  obtain ⟨i, hi⟩ := out_nodes_arena hn
  exact (a.ok i n hi).dests _ (rendered_dest he hd)

end Rpft.Compile
