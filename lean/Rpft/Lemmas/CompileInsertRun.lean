/-
Whole event sequences preserve the simulation: in a clean scope (nested parsers, the body of the
inserted block) without any condition on the rows, and in the outer scope after the block for
the rows that avoid the tainted groups (`avoids`).
-/
import Rpft.Lemmas.CompileInsertGlue
import Rpft.Lemmas.CompileInvA5
set_option linter.unusedSimpArgs false
set_option linter.unusedVariables false
namespace Rpft.Compile
open Rpft Function

theorem rowPre_clean {P : Params} {X : SParams} (ok : P.Ok) {s₁ : St} (hF : X.F = []) (hm : MR P s₁) (r : Row)
    (hid : ¬ Invented r.nodeUuid) (hrv : RV s₁) (hnm : X.nmAll = true ∨ (r.nodeUuid = [] ∧ r.nodeName = []))
    (hnl : P.op = true → r.type ≠ "loose_exit".toList) :
    RowPre P X s₁ r :=
  ⟨⟨fun e _ _ => by rw [hF]; simp, fun _ => hm⟩, fun d _ => by rw [hF]; simp, ok.hfix _ hid, hrv, hnm, hnl⟩

/-- the rows of this scope (not those of nested parsers) give no node names / identifiers -/
def Event.noNames : Event → Bool
  | .row r => r.nodeUuid.isEmpty && r.nodeName.isEmpty
  | _ => true

def noNamesL (es : List Event) : Bool := es.all Event.noNames

mutual
theorem step_clean : ∀ e : Event, e.okIds = true → ∀ (P : Params) (X : SParams) (s₁ s₂ : St), P.Ok →
    Sim P X s₁ s₂ → X.F = [] → (X.nmAll = true ∨ e.noNames = true) → CL P s₁ → SB s₁ → RV s₁ →
    (P.op = true → e.noLoose = true) →
    rwp (step e) (step e) s₁ s₂ (fun _ t₁ _ t₂ => Sim P X t₁ t₂ ∧ Eff P s₁ t₁)
  | .row r => by
    intro hid P X s₁ s₂ ok h hF hnm hcl hsb hrv hnl
    unfold step
    have hid' : ¬ Invented r.nodeUuid := by simpa [Event.okIds] using hid
    have hnm' : X.nmAll = true ∨ (r.nodeUuid = [] ∧ r.nodeName = []) := by
      rcases hnm with hh | hh
      · exact .inl hh
      · right; simpa [Event.noNames] using hh
    refine rwp_mono (parseRow_rel ok h r (rowPre_clean ok hF hcl.mr r hid' hrv hnm'
      (fun hop => noLoose_row (hnl hop)))) ?_
    intro _ t₁ _ t₂ ⟨ht, _, hf, _⟩
    exact ⟨ht, hf⟩
  | .openGroup edges starting => by
    intro _ P X s₁ s₂ ok h hF _ hcl hsb hrv _
    unfold step
    refine rwp_mono (openGroup_rel ok h edges starting
      (fun _ => ⟨fun e _ _ => by rw [hF]; simp, fun _ => hcl.mr⟩) hrv) ?_
    intro _ t₁ _ t₂ ⟨ht, _, _, hf, _⟩
    exact ⟨ht, hf⟩
  | .closeGroup rowId => by
    intro _ P X s₁ s₂ ok h hF _ hcl hsb hrv _
    unfold step
    refine rwp_mono (closeGroup_rel ok h rowId ?_ (fun b hb => hsb.lt hb)) ?_
    · intro b c rest hst htb
      exact absurd htb (hcl.2 b (by rw [hst]; simp))
    · intro _ t₁ _ t₂ ⟨ht, _, hsb', hrv', hhk, ⟨b, c, rest, hst⟩, hm⟩
      have := hm b (by rw [hst]; rfl) (hcl.2 b (by rw [hst]; simp))
      exact ⟨ht, fun _ => this.1, fun _ => this.2 hcl, hsb', hrv', hhk⟩
  | .insert r body => by
    intro hid P X s₁ s₂ ok h hF _ hcl hsb hrv hnl
    have hb : BodyRel body := fun P' X' u₁ u₂ ok' hu hF' hall hcl' hsb' hrv' hnl' =>
      steps_clean body (by simpa [Event.okIds] using hid) P' X' u₁ u₂ ok' hu hF' (.inl hall) hcl' hsb' hrv' hnl'
    refine rwp_mono (insert_rel ok h r body hb ⟨fun e _ _ => by rw [hF]; simp, fun _ => hcl.mr⟩ hsb
      (fun hop => noLoose_insert (hnl hop))) ?_
    intro _ t₁ _ t₂ ⟨ht, _, _, hf⟩
    exact ⟨ht, hf⟩
theorem steps_clean : ∀ es : List Event, okIdsL es = true → ∀ (P : Params) (X : SParams) (s₁ s₂ : St), P.Ok →
    Sim P X s₁ s₂ → X.F = [] → (X.nmAll = true ∨ noNamesL es = true) → CL P s₁ → SB s₁ → RV s₁ →
    (P.op = true → noLooseL es = true) →
    rwp (steps es) (steps es) s₁ s₂ (fun _ t₁ _ t₂ => Sim P X t₁ t₂ ∧ Eff P s₁ t₁)
  | [] => by
    intro _ P X s₁ s₂ ok h hF _ hcl hsb hrv _
    unfold steps
    rw [rwp_pure]
    exact ⟨h, Eff.of_blkEq (BlkEq.refl _) rfl⟩
  | e :: es => by
    intro hid P X s₁ s₂ ok h hF hnm hcl hsb hrv hnl
    have hnl2 : P.op = true → e.noLoose = true ∧ noLooseL es = true := fun hop => noLooseL_cons (hnl hop)
    have hid2 : e.okIds = true ∧ okIdsL es = true := by simpa [okIdsL] using hid
    have hnm1 : X.nmAll = true ∨ e.noNames = true := by
      rcases hnm with hh | hh
      · exact .inl hh
      · right; simp [noNamesL] at hh; exact hh.1
    have hnm2 : X.nmAll = true ∨ noNamesL es = true := by
      rcases hnm with hh | hh
      · exact .inl hh
      · right; simp [noNamesL] at hh ⊢; exact hh.2
    unfold steps
    rw [rwp_bind]
    refine rwp_mono (step_clean e hid2.1 P X s₁ s₂ ok h hF hnm1 hcl hsb hrv (fun hop => (hnl2 hop).1)) ?_
    intro _ u₁ _ u₂ ⟨hu, hf⟩
    refine rwp_mono (steps_clean es hid2.2 P X u₁ u₂ ok hu hF hnm2 (hf.cl hcl) (hf.sb hsb) (hf.rv hrv)
      (fun hop => (hnl2 hop).2)) ?_
    intro _ t₁ _ t₂ ⟨ht, hf'⟩
    exact ⟨ht, hf.trans hf'⟩
end

theorem bodyRel_of_okIds (body : List Event) (h : okIdsL body = true) : BodyRel body :=
  fun P X s₁ s₂ ok hs hF hall hcl hsb hrv hnl => steps_clean body h P X s₁ s₂ ok hs hF (.inl hall) hcl hsb hrv hnl

/-! ### the outer scope after the block -/

/-- an edge may be followed: it does not name a forbidden row id, and a blank `from` is used only
when the most recent node group is known to be untainted (`flag = false`) -/
def Edge.ok (F : List Str) (flag : Bool) (e : Edge) : Bool :=
  if e.from_.isEmpty then !flag else !F.contains e.from_

def edgesOk (F : List Str) (flag : Bool) (es : List Edge) : Bool := (dropTrivial es).all (Edge.ok F flag)

/-- the rows after the block never reach it (nor an enclosing block): no edge names a forbidden
row id (`F`: the block's id, the ids of the enclosing blocks closed later, the ids defined inside
the block), no `go_to` leads there, and no edge with a blank `from` is used while the most recent
node group may be the block or an enclosing block (`flag`); `depth` counts the blocks opened since -/
def avoids (F : List Str) : Bool → Nat → List Event → Bool
  | _, _, [] => true
  | flag, depth, .row r :: es =>
    edgesOk F flag r.edges && r.dests.all (fun d => !F.contains d) && avoids F (flag && !r.appends) depth es
  | flag, depth, .openGroup edges starting :: es =>
    (starting || edgesOk F flag edges) && avoids F (flag && starting) (depth + 1) es
  | _, 0, .closeGroup rowId :: es => (rowId.isEmpty || F.contains rowId) && avoids F true 0 es
  | _, depth + 1, .closeGroup _ :: es => avoids F false depth es
  | flag, depth, .insert r _ :: es => edgesOk F flag r.edges && avoids F false depth es

variable {P : Params} {X : SParams}

theorem edgesPre_of_ok {s₁ : St} {flag : Bool} {es : List Edge} (h : edgesOk X.F flag es = true)
    (hm : flag = false → MR P s₁) : EdgesPre P X s₁ (dropTrivial es) := by
  unfold edgesOk at h
  rw [List.all_eq_true] at h
  refine ⟨fun e he hne => ?_, fun ⟨e, he, h0⟩ => ?_⟩
  · have := h e he
    unfold Edge.ok at this
    have hem : e.from_.isEmpty = false := by cases hf : e.from_ <;> simp_all
    simp only [hem, Bool.false_eq_true, if_false, Bool.not_eq_true', List.contains_eq_mem,
      decide_eq_false_iff_not] at this
    exact this
  · have := h e he
    unfold Edge.ok at this
    simp only [h0, List.isEmpty_nil, if_true, Bool.not_eq_true'] at this
    exact hm this

/-- the unary invariant of the outer scope: the most recent group is untainted unless `flag`, the
blocks opened since the inserted block are untainted, open blocks are blocks -/
structure TopInv (P : Params) (flag : Bool) (depth : Nat) (s : St) : Prop where
  mr : flag = false → MR P s
  dp : ∀ b ∈ s.stack.take depth, ¬ P.T b
  sb : SB s
  rv : RV s

theorem steps_top (ok : P.Ok) (hall : X.nmAll = true) : ∀ (es : List Event) (flag : Bool) (depth : Nat) (s₁ s₂ : St),
    avoids X.F flag depth es = true → okIdsL es = true → Sim P X s₁ s₂ → TopInv P flag depth s₁ →
    (P.op = true → noLooseL es = true) →
    rwp (steps es) (steps es) s₁ s₂ (fun _ t₁ _ t₂ => Sim P X t₁ t₂) := by
  intro es
  induction es with
  | nil =>
    intro flag depth s₁ s₂ _ _ h _ _
    unfold steps
    rw [rwp_pure]; exact h
  | cons e es ih =>
    intro flag depth s₁ s₂ hav hid h inv hnl
    have hnl2 : P.op = true → e.noLoose = true ∧ noLooseL es = true := fun hop => noLooseL_cons (hnl hop)
    have hnl3 : P.op = true → noLooseL es = true := fun hop => (hnl2 hop).2
    have hid2 : e.okIds = true ∧ okIdsL es = true := by simpa [okIdsL] using hid
    unfold steps
    rw [rwp_bind]
    cases e with
    | row r =>
      simp only [avoids, Bool.and_eq_true] at hav
      obtain ⟨⟨he, hd⟩, hrest⟩ := hav
      unfold step
      have hid' : ¬ Invented r.nodeUuid := by simpa [Event.okIds] using hid2.1
      have hpre : RowPre P X s₁ r := by
        refine ⟨edgesPre_of_ok he inv.mr, ?_, ok.hfix _ hid', inv.rv, .inl hall,
          fun hop => noLoose_row (hnl2 hop).1⟩
        intro d hdm
        rw [List.all_eq_true] at hd
        have := hd d hdm
        simpa using this
      refine rwp_mono (parseRow_rel ok h r hpre) ?_
      intro _ u₁ _ u₂ ⟨hu, est, hf, hap⟩
      refine ih _ depth u₁ u₂ hrest hid2.2 hu ⟨?_, by rw [est]; exact inv.dp, hf.sb inv.sb, hf.rv inv.rv⟩ hnl3
      intro hfl
      simp only [Bool.and_eq_false_iff, Bool.not_eq_false'] at hfl
      rcases hfl with hfl | hfl
      · exact hf.mr (inv.mr hfl)
      · exact hap hfl
    | openGroup edges starting =>
      simp only [avoids, Bool.and_eq_true, Bool.or_eq_true] at hav
      obtain ⟨he, hrest⟩ := hav
      unfold step
      refine rwp_mono (openGroup_rel ok h edges starting ?_ inv.rv) ?_
      · intro hs
        rcases he with he | he
        · rw [hs] at he; cases he
        · exact edgesPre_of_ok he inv.mr
      · intro _ u₁ _ u₂ ⟨hu, est, hnt, hf, hm⟩
        refine ih _ (depth + 1) u₁ u₂ hrest hid2.2 hu ⟨?_, ?_, hf.sb inv.sb, hf.rv inv.rv⟩ hnl3
        · intro hfl
          simp only [Bool.and_eq_false_iff] at hfl
          rcases hfl with hfl | hfl
          · exact hf.mr (inv.mr hfl)
          · exact hm hfl
        · rw [est]
          intro b hb
          simp only [List.take_succ_cons, List.mem_cons] at hb
          rcases hb with hb | hb
          · rw [hb]; exact hnt
          · exact inv.dp b hb
    | closeGroup rowId =>
      unfold step
      cases depth with
      | zero =>
        simp only [avoids, Bool.and_eq_true, Bool.or_eq_true] at hav
        obtain ⟨he, hrest⟩ := hav
        refine rwp_mono (closeGroup_rel ok h rowId ?_ (fun b hb => inv.sb.lt hb)) ?_
        · intro b c rest _ _ hne
          rcases he with he | he
          · exfalso; apply hne; simpa using he
          · simpa using he
        · intro _ u₁ _ u₂ ⟨hu, est, hsb, hrv', _, _, _⟩
          refine ih true 0 u₁ u₂ hrest hid2.2 hu ⟨fun hh => ?_, ?_, hsb inv.sb, hrv' inv.rv⟩ hnl3
          · cases hh
          · intro b hb; simp at hb
      | succ d =>
        simp only [avoids] at hav
        refine rwp_mono (closeGroup_rel ok h rowId ?_ (fun b hb => inv.sb.lt hb)) ?_
        · intro b c rest hst htb
          exact absurd htb (inv.dp b (by rw [hst]; simp))
        · intro _ u₁ _ u₂ ⟨hu, est, hsb, hrv', _, ⟨b, c, rest, hst⟩, hm⟩
          have hb := hm b (by rw [hst]; rfl) (inv.dp b (by rw [hst]; simp))
          refine ih false d u₁ u₂ hav hid2.2 hu ⟨fun _ => hb.1, ?_, hsb inv.sb, hrv' inv.rv⟩ hnl3
          rw [est, hst]
          intro x hx
          apply inv.dp x
          rw [hst]
          simp only [List.tail_cons] at hx
          simp only [List.take_succ_cons, List.mem_cons]
          exact .inr hx
    | insert r body =>
      simp only [avoids, Bool.and_eq_true] at hav
      obtain ⟨he, hrest⟩ := hav
      have hb : BodyRel body := bodyRel_of_okIds body (by simpa [Event.okIds] using hid2.1)
      refine rwp_mono (insert_rel ok h r body hb (edgesPre_of_ok he inv.mr) inv.sb
        (fun hop => noLoose_insert (hnl2 hop).1)) ?_
      intro _ u₁ _ u₂ ⟨hu, est, hm, hf⟩
      exact ih false depth u₁ u₂ hrest hid2.2 hu ⟨fun _ => hm, by rw [est]; exact inv.dp, hf.sb inv.sb, hf.rv inv.rv⟩ hnl3

/-! ### the outer scope after the block, open mode: nothing is tainted -/

/-- the event names no forbidden row id (by an edge or as a `go_to` destination) -/
def Event.avoidsF (F : List Str) : Event → Bool
  | .row r => edgesOk F false r.edges && r.dests.all (fun d => !F.contains d)
  | .openGroup edges starting => starting || edgesOk F false edges
  | .closeGroup _ => true
  | .insert r _ => edgesOk F false r.edges

def avoidsOpen (F : List Str) (es : List Event) : Bool := es.all (Event.avoidsF F)

theorem steps_open (ok : P.Ok) (hall : X.nmAll = true) (hT : ∀ j, ¬ P.T j) : ∀ (es : List Event) (s₁ s₂ : St),
    avoidsOpen X.F es = true → okIdsL es = true → Sim P X s₁ s₂ → SB s₁ → RV s₁ →
    (P.op = true → noLooseL es = true) →
    rwp (steps es) (steps es) s₁ s₂ (fun _ t₁ _ t₂ => Sim P X t₁ t₂) := by
  have hmr : ∀ s : St, MR P s := fun s x _ => hT x
  intro es
  induction es with
  | nil =>
    intro s₁ s₂ _ _ h _ _ _
    unfold steps
    rw [rwp_pure]; exact h
  | cons e es ih =>
    intro s₁ s₂ hav hid h hsb hrv hnl
    have hnl2 : P.op = true → e.noLoose = true ∧ noLooseL es = true := fun hop => noLooseL_cons (hnl hop)
    have hnl3 : P.op = true → noLooseL es = true := fun hop => (hnl2 hop).2
    have hid2 : e.okIds = true ∧ okIdsL es = true := by simpa [okIdsL] using hid
    have hav2 : e.avoidsF X.F = true ∧ avoidsOpen X.F es = true := by
      simpa [avoidsOpen] using hav
    unfold steps
    rw [rwp_bind]
    cases e with
    | row r =>
      have hav3 : edgesOk X.F false r.edges = true ∧ (r.dests.all (fun d => !X.F.contains d)) = true := by
        simpa [Event.avoidsF] using hav2.1
      unfold step
      have hid' : ¬ Invented r.nodeUuid := by simpa [Event.okIds] using hid2.1
      have hpre : RowPre P X s₁ r := by
        refine ⟨edgesPre_of_ok hav3.1 (fun _ => hmr s₁), ?_, ok.hfix _ hid', hrv, .inl hall,
          fun hop => noLoose_row (hnl2 hop).1⟩
        intro d hdm
        have hd := hav3.2
        rw [List.all_eq_true] at hd
        have := hd d hdm
        simpa using this
      refine rwp_mono (parseRow_rel ok h r hpre) ?_
      intro _ u₁ _ u₂ ⟨hu, est, hf, hap⟩
      exact ih u₁ u₂ hav2.2 hid2.2 hu (hf.sb hsb) (hf.rv hrv) hnl3
    | openGroup edges starting =>
      have hav3 : starting = true ∨ edgesOk X.F false edges = true := by
        simpa [Event.avoidsF] using hav2.1
      unfold step
      refine rwp_mono (openGroup_rel ok h edges starting ?_ hrv) ?_
      · intro hs
        rcases hav3 with he | he
        · rw [hs] at he; cases he
        · exact edgesPre_of_ok he (fun _ => hmr s₁)
      · intro _ u₁ _ u₂ ⟨hu, est, hnt, hf, hm⟩
        exact ih u₁ u₂ hav2.2 hid2.2 hu (hf.sb hsb) (hf.rv hrv) hnl3
    | closeGroup rowId =>
      unfold step
      refine rwp_mono (closeGroup_rel ok h rowId (fun b c rest _ htb => absurd htb (hT b)) (fun b hb => hsb.lt hb)) ?_
      intro _ u₁ _ u₂ ⟨hu, est, hsb', hrv', _, _, _⟩
      exact ih u₁ u₂ hav2.2 hid2.2 hu (hsb' hsb) (hrv' hrv) hnl3
    | insert r body =>
      have he : edgesOk X.F false r.edges = true := by simpa [Event.avoidsF] using hav2.1
      have hb : BodyRel body := bodyRel_of_okIds body (by simpa [Event.okIds] using hid2.1)
      refine rwp_mono (insert_rel ok h r body hb (edgesPre_of_ok he (fun _ => hmr s₁)) hsb
        (fun hop => noLoose_insert (hnl2 hop).1)) ?_
      intro _ u₁ _ u₂ ⟨hu, est, hm, hf⟩
      exact ih u₁ u₂ hav2.2 hid2.2 hu (hf.sb hsb) (hf.rv hrv) hnl3

end Rpft.Compile
