/-
Assembly, part D: the correspondence for the edges into the block — the twin's state when its entry
row is read against the insert row's state when the nested parser has returned — on the part of
the arenas before the block.
-/
import Rpft.Lemmas.CompileInsertMainC
set_option linter.unusedVariables false
set_option linter.unusedSimpArgs false
set_option linter.unusedSectionVars false
namespace Rpft.Compile
open Rpft Function

noncomputable def PE (na nt : List Str) (s₀ : St) (kk : Nat) (b₁ t₂ w : St) : Params := { ρ := rhoOf (shiftFrom (s₀.next + kk) (b₁.next - (s₀.next + kk))), ν := shiftFrom (s₀.nodes.size + 1) (b₁.nodes.size - (s₀.nodes.size + 1)), γ := shiftFrom (s₀.groups.size + 2) (b₁.groups.size - (s₀.groups.size + 2)), DN := fun i => i ≠ s₀.nodes.size, DG := fun j => j < s₀.groups.size ∨ s₀.groups.size + 2 ≤ j, T := fun j => j = s₀.groups.size, bx := s₀.groups.size, gx := s₀.groups.size + 1, base₁ := t₂, base₂ := w, hb := False, sp := true, na := na, nt := nt }

theorem PE_ok (na nt : List Str) (s₀ : St) (kk : Nat) (b₁ t₂ w : St) : (PE na nt s₀ kk b₁ t₂ w).Ok :=
  ⟨rhoOf_injective (shiftFrom_injective _ _), shiftFrom_injective _ _, shiftFrom_injective _ _, fun _ _ => rfl,
    fun x hx => rhoOf_plain _ hx, fun h => Bool.noConfusion h⟩

/-- what is known of the nested parser's final state about the part before the block -/
structure B1Facts (na nt : List Str) (s₀ : St) (kk : Nat) (b₁ : St) : Prop where
  nodes : ∀ i, i < s₀.nodes.size → b₁.nodes[i]? = s₀.nodes[i]?
  groups : ∀ j, j < s₀.groups.size → b₁.groups[j]? = s₀.groups[j]?
  hna : b₁.noArgs = na
  hnt : b₁.testTypes = nt
  next : s₀.next + kk ≤ b₁.next
  nsz : s₀.nodes.size + 1 ≤ b₁.nodes.size
  gsz : s₀.groups.size + 2 ≤ b₁.groups.size

section
variable {na nt : List Str} {s₀ : St} (hg : Good na nt s₀)

include hg in
theorem asimE_establish {ps : List (Nat × Cond)} {n : NodeM} {kk : Nat} {b₁ w : St}
    (hids0 : ∀ (i : Nat) (m : NodeM), s₀.nodes[i]? = some m → ∀ x ∈ m.allIds, IdOk s₀.next x)
    (hps : ∀ p ∈ ps, p.1 < s₀.groups.size)
    (hdn : Below (s₀.next + kk) n.dexitUid ∨ ¬ Invented n.dexitUid)
    (hb : B1Facts na nt s₀ kk b₁)
    (hw1 : w.nodes = b₁.nodes) (hw2 : w.groups = b₁.groups) (hw3 : w.next = b₁.next)
    (hw4 : w.noArgs = b₁.noArgs) (hw5 : w.testTypes = b₁.testTypes) :
    ASim (PE na nt s₀ kk b₁ (twT s₀ ps n kk) w) (twT s₀ ps n kk) w := by
  constructor
  · exact hg.hna
  · rw [hw4]; exact hb.hna
  · exact hg.hnt
  · rw [hw5]; exact hb.hnt
  · exact ⟨Nat.le_refl _, Nat.le_refl _, Nat.le_refl _⟩
  · exact ⟨Nat.le_refl _, Nat.le_refl _, Nat.le_refl _⟩
  · intro k
    show rhoOf _ (tid (s₀.next + kk + k)) = tid (w.next + k)
    rw [rhoOf_tid, shiftFrom_ge (by omega), hw3]
    congr 1; have := hb.next; omega
  · intro k
    show shiftFrom _ _ ((twT s₀ ps n kk).nodes.size + k) = w.nodes.size + k
    rw [twT_nodes_size, shiftFrom_ge (by omega), hw1]; have := hb.nsz; omega
  · intro k
    show shiftFrom _ _ ((twT s₀ ps n kk).groups.size + k) = w.groups.size + k
    rw [twT_groups_size, shiftFrom_ge (by omega), hw2]; have := hb.gsz; omega
  · intro i hi; rw [twT_nodes_size] at hi; show i ≠ _; omega
  · intro j hj; rw [twT_groups_size] at hj; exact ⟨.inr hj, by show ¬ j = _; omega⟩
  · rw [twT_groups_size]; show s₀.groups.size < _; omega
  · intro h; exact h.elim
  · intro j g hgj
    rw [twT_nodes_size, twT_groups_size]
    rcases twT_groups_cases ps n kk hgj with ⟨_, h1⟩ | ⟨_, rfl⟩ | ⟨_, rfl⟩
    · have := hg.wf j g h1
      exact ⟨fun i hi => by have := this.1 i hi; omega, fun x hx => by have := this.2 x hx; omega⟩
    · exact ⟨by intro i hi; simp [gnodes] at hi, by intro x hx; simp [grefs] at hx; omega⟩
    · refine ⟨by intro i hi; simp [gnodes] at hi, ?_⟩
      intro x hx
      simp only [grefs, List.mem_map] at hx
      obtain ⟨p, hp, rfl⟩ := hx
      have := hps p hp; omega
  · intro i m hm
    show Below (s₀.next + kk) m.dexitUid ∨ _
    have hlt := (Array.getElem?_eq_some_iff.mp hm).1
    rw [twT_nodes_size] at hlt
    rcases Nat.lt_or_ge i s₀.nodes.size with h1 | h1
    · rw [twT_nodes_lt ps n kk h1] at hm
      rcases hg.dex i m hm with h' | h'
      · exact .inl (h'.mono (Nat.le_add_right _ _))
      · exact .inr h'
    · have : i = s₀.nodes.size := by omega
      subst this
      rw [twT_nodes_N] at hm; injection hm with hm
      subst hm; exact hdn
  · intro i m hd hm
    have hlt := (Array.getElem?_eq_some_iff.mp hm).1
    rw [twT_nodes_size] at hlt
    have hi : i < s₀.nodes.size := by
      have : i ≠ s₀.nodes.size := hd
      omega
    rw [twT_nodes_lt ps n kk hi] at hm
    show w.nodes[shiftFrom _ _ i]? = some (rnNode (rhoOf _) m)
    rw [shiftFrom_lt (by omega), hw1, hb.nodes i hi, hm]
    congr 1
    symm
    exact rnNode_fix (B := s₀.next) (fun k hk => shiftFrom_lt (by omega)) (hids0 i m hm)
  · intro j g hd hgj
    have hlt := (Array.getElem?_eq_some_iff.mp hgj).1
    rw [twT_groups_size] at hlt
    have hj : j < s₀.groups.size := by
      rcases hd with h | h <;> omega
    rw [twT_groups_lt ps n kk hj] at hgj
    show w.groups[shiftFrom _ _ j]? = _
    rw [shiftFrom_lt (by omega), hw2, hb.groups j hj, hgj]
    congr 1
    have hwf := hg.wf j g hgj
    have hne : j ≠ (PE na nt s₀ kk b₁ (twT s₀ ps n kk) w).bx := by show j ≠ s₀.groups.size; omega
    cases g with
    | row ns t =>
      show Grp.row ns t = Grp.row (ns.map (shiftFrom _ _)) t
      congr 1
      symm
      rw [List.map_congr_left (g := id)]
      · simp
      · intro i hi
        exact shiftFrom_lt (by have := hwf.1 i (by simpa [gnodes] using hi); omega)
    | noop ps' r =>
      show Grp.noop ps' r = Grp.noop (ps'.map fun p => (shiftFrom _ _ p.1, p.2)) (r.map (shiftFrom _ _))
      have h1 : ps'.map (fun p => (shiftFrom (s₀.groups.size + 2) (b₁.groups.size - (s₀.groups.size + 2)) p.1, p.2)) = ps' := by
        rw [List.map_congr_left (g := id)]
        · simp
        · intro p hp
          have : p.1 < s₀.groups.size := hwf.2 p.1 (by simp only [grefs, List.mem_map]; exact ⟨p, hp, rfl⟩)
          show (shiftFrom _ _ p.1, p.2) = p
          rw [shiftFrom_lt (by omega)]
      have h2 : r.map (shiftFrom (s₀.nodes.size + 1) (b₁.nodes.size - (s₀.nodes.size + 1))) = r := by
        cases r with
        | none => rfl
        | some i =>
          simp only [Option.map_some]
          rw [shiftFrom_lt (by have := hwf.1 i (by simp [gnodes]); omega)]
      rw [h1, h2]
    | block cs =>
      rw [mapGrpAt_block_ne _ (.inl hne)]
      show Grp.block cs = Grp.block (cs.map (shiftFrom _ _))
      congr 1
      symm
      rw [List.map_congr_left (g := id)]
      · simp
      · intro c hc
        exact shiftFrom_lt (by have := hwf.2 c (by simpa [grefs] using hc); omega)
  · intro j g hd hgj
    have hlt := (Array.getElem?_eq_some_iff.mp hgj).1
    rw [twT_groups_size] at hlt
    have hj : j < s₀.groups.size := by
      rcases hd with h | h <;> omega
    rw [twT_groups_lt ps n kk hj] at hgj
    have hwf := hg.wf j g hgj
    exact ⟨fun i hi => by have := hwf.1 i hi; show i ≠ _; omega, fun x hx => .inl (hwf.2 x hx)⟩
  · intro j g hd _ hgj
    have hlt := (Array.getElem?_eq_some_iff.mp hgj).1
    rw [twT_groups_size] at hlt
    have hj : j < s₀.groups.size := by
      rcases hd with h | h <;> omega
    rw [twT_groups_lt ps n kk hj] at hgj
    have hwf := hg.wf j g hgj
    intro x hx
    have := hwf.2 x hx
    show ¬ x = s₀.groups.size
    omega
  · intro i _; rfl
  · intro j _; rfl
  · intro i _; rfl
  · intro j _; rfl
  · intro h; exact Bool.noConfusion h

end

end Rpft.Compile
