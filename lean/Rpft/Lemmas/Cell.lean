/-
Helper lemmas for the cell syntax (C08).  Property theorems live in `Rpft/Props/C08.lean`.
-/
import Rpft.Cell
set_option linter.unusedSimpArgs false
set_option linter.unusedVariables false
namespace Rpft.Cell
open Rpft

/-! ### escape_string is a single pass -/

theorem replace1_nil (c : Char) (r : Str) : replace1 c r [] = [] := rfl

theorem replace1_cons (c : Char) (r : Str) (x : Char) (s : Str) :
    replace1 c r (x :: s) = (if x = c then r else [x]) ++ replace1 c r s := by
  simp [replace1]

theorem replace1_append (c : Char) (r : Str) (s t : Str) :
    replace1 c r (s ++ t) = replace1 c r s ++ replace1 c r t := by
  simp [replace1]

theorem esc_nil : esc [] = [] := rfl
theorem esc_cons (c : Char) (s : Str) : esc (c :: s) = escChar c ++ esc s := by
  simp [esc]
theorem esc_append (s t : Str) : esc (s ++ t) = esc s ++ esc t := by
  simp [esc]

theorem escapeString_eq_esc (s : Str) : escapeString s = esc s := by
  induction s with
  | nil => rfl
  | cons c s ih =>
    unfold escapeString at ih ⊢
    rw [esc_cons, ← ih]
    by_cases h1 : c = escC
    · subst h1
      simp [replace1_cons, replace1_append, escChar, escC, sep0, sep1]
    · by_cases h2 : c = sep0
      · subst h2
        simp [replace1_cons, replace1_append, escChar, escC, sep0, sep1]
      · by_cases h3 : c = sep1
        · subst h3
          simp [replace1_cons, replace1_append, escChar, escC, sep0, sep1]
        · simp [replace1_cons, escChar, h1, h2, h3]

theorem escChar_ne_nil (c : Char) : escChar c ≠ [] := by
  unfold escChar; split <;> simp

theorem esc_eq_nil {s : Str} : esc s = [] ↔ s = [] := by
  cases s with
  | nil => simp [esc_nil]
  | cons c s =>
    simp only [esc_cons, List.append_eq_nil_iff, reduceCtorEq, iff_false, not_and]
    intro h; exact absurd h (escChar_ne_nil c)

/-! ### splitting: transparent pieces -/

/-- prepend a whole prefix to the first piece -/
def headApp (p : Str) : List Str → List Str
  | [] => [p]
  | x :: xs => (p ++ x) :: xs

theorem headApp_nil (xs : List Str) (h : xs ≠ []) : headApp [] xs = xs := by
  cases xs with
  | nil => exact absurd rfl h
  | cons x xs => simp [headApp]

theorem headCons_eq_headApp (c : Char) (xs : List Str) (h : xs ≠ []) :
    headCons c xs = headApp [c] xs := by
  cases xs with
  | nil => exact absurd rfl h
  | cons x xs => simp [headCons, headApp]

theorem headApp_headApp (p q : Str) (xs : List Str) (h : xs ≠ []) :
    headApp p (headApp q xs) = headApp (p ++ q) xs := by
  cases xs with
  | nil => exact absurd rfl h
  | cons x xs => simp [headApp]

theorem headApp_ne_nil (p : Str) (xs : List Str) : headApp p xs ≠ [] := by
  cases xs <;> simp [headApp]

theorem headCons_ne_nil (c : Char) (xs : List Str) : headCons c xs ≠ [] := by
  cases xs <;> simp [headCons]

theorem splitAux_ne_nil (sep : Char) (b : Bool) (s : Str) : splitAux sep b s ≠ [] := by
  induction s generalizing b with
  | nil => cases b <;> simp [splitAux]
  | cons c s ih =>
    cases b
    · simp only [splitAux]
      split
      · exact headCons_ne_nil _ _
      · split
        · simp
        · exact headCons_ne_nil _ _
    · simp only [splitAux]; exact headCons_ne_nil _ _

theorem splitRaw_ne_nil (sep : Char) (s : Str) : splitRaw sep s ≠ [] :=
  splitAux_ne_nil sep false s

/-- A piece is transparent for `sep` when scanning it from the unescaped state neither
finds a separator nor leaves a dangling escape. -/
def Transparent (sep : Char) (p : Str) : Prop :=
  ∀ rest, splitAux sep false (p ++ rest) = headApp p (splitAux sep false rest)

theorem transparent_nil (sep : Char) : Transparent sep [] := by
  intro rest; simp [headApp_nil _ (splitAux_ne_nil sep false rest)]

theorem transparent_append {sep : Char} {p q : Str}
    (hp : Transparent sep p) (hq : Transparent sep q) : Transparent sep (p ++ q) := by
  intro rest
  rw [List.append_assoc, hp, hq, headApp_headApp _ _ _ (splitAux_ne_nil sep false rest)]

theorem transparent_plain {sep c : Char} (h1 : c ≠ escC) (h2 : c ≠ sep) :
    Transparent sep [c] := by
  intro rest
  simp [splitAux, h1, h2, headCons_eq_headApp _ _ (splitAux_ne_nil sep false rest)]

theorem transparent_escaped (sep c : Char) : Transparent sep [escC, c] := by
  intro rest
  have h := splitAux_ne_nil sep false rest
  simp only [List.cons_append, List.nil_append, splitAux, if_true]
  rw [headCons_eq_headApp _ _ h, headCons_eq_headApp _ _ (headApp_ne_nil _ _),
    headApp_headApp _ _ _ h]
  rfl

theorem transparent_escChar {sep : Char} (hs : sep = sep0 ∨ sep = sep1) (c : Char) :
    Transparent sep (escChar c) := by
  unfold escChar
  split
  · exact transparent_escaped sep c
  · rename_i h
    simp only [not_or] at h
    apply transparent_plain h.1
    rcases hs with hs | hs <;> subst hs
    · exact h.2.1
    · exact h.2.2

theorem transparent_esc {sep : Char} (hs : sep = sep0 ∨ sep = sep1) (s : Str) :
    Transparent sep (esc s) := by
  induction s with
  | nil => exact transparent_nil sep
  | cons c s ih =>
    rw [esc_cons]
    exact transparent_append (transparent_escChar hs c) ih

theorem splitRaw_transparent {sep : Char} {p : Str} (h : Transparent sep p) :
    splitRaw sep p = [p] := by
  have := h []
  simpa [splitRaw, splitAux, headApp] using this

/-- Splitting a `sep.join` of transparent pieces gives the pieces back. -/
theorem splitRaw_joinWith {sep : Char} (hse : sep ≠ escC) :
    ∀ (ps : List Str), ps ≠ [] → (∀ p ∈ ps, Transparent sep p) →
      splitRaw sep (joinWith [sep] ps) = ps
  | [], h, _ => absurd rfl h
  | [p], _, hp => by
    simpa [joinWith] using splitRaw_transparent (hp p (by simp))
  | p :: q :: ps, _, hp => by
    have ih := splitRaw_joinWith hse (q :: ps) (by simp) (fun x hx => hp x (by simp [hx]))
    have hpp := hp p (by simp)
    unfold splitRaw at ih ⊢
    simp only [joinWith, List.append_assoc]
    rw [hpp]
    simp only [List.cons_append, List.nil_append, splitAux, hse, if_false, if_true]
    rw [ih]; simp [headApp]

/-- The 1-element rule: `p ++ sep` splits into `[p, ""]`. -/
theorem splitRaw_single {sep : Char} (hse : sep ≠ escC) {p : Str} (hp : Transparent sep p) :
    splitRaw sep (p ++ [sep]) = [p, []] := by
  unfold splitRaw
  rw [hp]
  simp [splitAux, hse, headApp]

/-! ### strip commutes with escaping -/

theorem rstrip_eq_nil_of_all {ws : Char → Bool} {s : Str} (h : ∀ c ∈ s, ws c = true) :
    rstrip ws s = [] := by
  induction s with
  | nil => rfl
  | cons c s ih =>
    have := ih (fun x hx => h x (by simp [hx]))
    simp [rstrip, this, h c (by simp)]

/-- whitespace predicate assumptions shared by all C08 theorems -/
structure WsOk (ws : Char → Bool) : Prop where
  esc : ws escC = false
  s0 : ws sep0 = false
  s1 : ws sep1 = false

theorem escChar_of_ws {ws : Char → Bool} (h : WsOk ws) {c : Char} (hc : ws c = true) :
    escChar c = [c] := by
  unfold escChar
  split
  · rename_i h'
    rcases h' with h' | h' | h' <;> subst h'
    · rw [h.esc] at hc; cases hc
    · rw [h.s0] at hc; cases hc
    · rw [h.s1] at hc; cases hc
  · rfl

theorem lstrip_esc {ws : Char → Bool} (h : WsOk ws) (s : Str) :
    lstrip ws (esc s) = esc (lstrip ws s) := by
  induction s with
  | nil => rfl
  | cons c s ih =>
    unfold lstrip at ih ⊢
    by_cases hc : ws c = true
    · simp [esc_cons, escChar_of_ws h hc, List.dropWhile_cons, hc, ih]
    · simp only [Bool.not_eq_true] at hc
      rw [esc_cons, List.dropWhile_cons, hc]
      simp only [Bool.false_eq_true, if_false]
      unfold escChar
      split
      · simp [List.dropWhile_cons, h.esc, esc_cons, escChar, *]
      · simp [List.dropWhile_cons, hc, esc_cons, escChar, *]

theorem rstrip_cons (ws : Char → Bool) (c : Char) (s : Str) :
    rstrip ws (c :: s) = if rstrip ws s = [] then (if ws c then [] else [c]) else c :: rstrip ws s := by
  simp only [rstrip]
  split <;> simp_all

theorem rstrip_esc {ws : Char → Bool} (h : WsOk ws) (s : Str) :
    rstrip ws (esc s) = esc (rstrip ws s) := by
  induction s with
  | nil => rfl
  | cons c s ih =>
    rw [esc_cons]
    unfold escChar
    split
    · rename_i hsp
      have hc : ws c = false := by
        rcases hsp with h' | h' | h' <;> subst h'
        · exact h.esc
        · exact h.s0
        · exact h.s1
      simp only [List.cons_append, List.nil_append]
      rw [rstrip_cons, rstrip_cons, ih, rstrip_cons]
      by_cases hr : rstrip ws s = []
      · simp [hr, esc_nil, hc, h.esc, esc_cons, escChar, hsp]
      · have : esc (rstrip ws s) ≠ [] := fun e => hr (esc_eq_nil.mp e)
        simp [hr, this, esc_cons, escChar, hsp]
    · rename_i hsp
      simp only [List.cons_append, List.nil_append]
      rw [rstrip_cons, ih, rstrip_cons]
      by_cases hr : rstrip ws s = []
      · by_cases hc : ws c = true
        · simp [hr, esc_nil, hc]
        · simp [hr, esc_nil, hc, esc_cons, escChar, hsp]
      · have : esc (rstrip ws s) ≠ [] := fun e => hr (esc_eq_nil.mp e)
        simp [hr, this, esc_cons, escChar, hsp]

theorem strip_esc {ws : Char → Bool} (h : WsOk ws) (s : Str) :
    strip ws (esc s) = esc (strip ws s) := by
  unfold strip; rw [lstrip_esc h, rstrip_esc h]

/-! ### unescape inverts esc -/

theorem unescape_cons_ne {c : Char} (t : Str) (h : c ≠ escC) : unescape (c :: t) = c :: unescape t := by
  cases t with
  | nil => simp [unescape]
  | cons d rest => simp [unescape, h]

theorem unescape_pair (d : Char) (t : Str) (h : d = escC ∨ d = sep0 ∨ d = sep1) :
    unescape (escC :: d :: t) = d :: unescape t := by
  simp [unescape, h]

/-- for EVERY string (no character is reserved any more) -/
theorem unescape_esc (s : Str) : unescape (esc s) = s := by
  induction s with
  | nil => rfl
  | cons c s ih =>
    rw [esc_cons]
    unfold escChar
    split
    · rename_i h
      simp only [List.cons_append, List.nil_append]
      rw [unescape_pair c _ h, ih]
    · rename_i h
      simp only [not_or] at h
      simp only [List.cons_append, List.nil_append]
      rw [unescape_cons_ne _ h.1, ih]

end Rpft.Cell
