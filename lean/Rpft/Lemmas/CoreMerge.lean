/-
Rows merged into an existing node (C02 fragment): a row that carries the node name of an earlier action
row adds its action to that row's node (`Compile.mergeRow`) and creates nothing.  In the lock-step
simulation such a row is a row without a node (`isNodeRow` is false for it: the mark `CRow.merged`); the
reference side is the FUSED reading `pass1RowF`: no edge, the row id stands for the first row of the
chain.  The node of that row accounts for the merged actions through the `post` argument of `RowSim`.
-/
import Rpft.Lemmas.CoreNoop3
set_option linter.unusedSimpArgs false
set_option linter.unusedVariables false
namespace Rpft.CoreSheet
open Rpft Rpft.Compile Rpft.RefFlow

theorem kindOf_of_named {c : CRow} (h : isNamedAct c = true) : kindOf c.row.type = .action := by
  unfold isNamedAct at h
  simp only [Bool.and_eq_true, Bool.not_eq_true'] at h
  exact kindOf_action h.1

theorem isNoop_of_named {c : CRow} (h : isNamedAct c = true) : isNoop c = false := by
  cases hh : isNoop c with
  | false => rfl
  | true => have := kind_of_noop hh; rw [kindOf_of_named h] at this; cases this

theorem name_ne_of_named {c : CRow} (h : isNamedAct c = true) : c.row.nodeName ≠ [] := by
  unfold isNamedAct at h
  simp only [Bool.and_eq_true, Bool.not_eq_true', List.isEmpty_eq_false_iff] at h
  exact h.2

/-- of the action rows with one node name only the first is not merged -/
theorem named_unique {rows : List CRow} (ha : Annot rows) {i j : Nat} {ci cj : CRow}
    (hi : rows[i]? = some ci) (hj : rows[j]? = some cj) (hni : isNamedAct ci = true) (hnj : isNamedAct cj = true)
    (hmi : ci.merged = false) (hmj : cj.merged = false) (hnm : ci.row.nodeName = cj.row.nodeName) : i = j := by
  have key : ∀ (a b : Nat) (ca cb : CRow), rows[a]? = some ca → rows[b]? = some cb → isNamedAct ca = true →
      isNamedAct cb = true → cb.merged = false → ca.row.nodeName = cb.row.nodeName → ¬ a < b := by
    intro a b ca cb hca hcb hna hnb hmb hnm hlt
    have := ha b cb hcb
    rw [hmb] at this
    unfold mergeAt at this
    rw [hcb] at this
    simp only [hnb, Bool.true_and] at this
    have h2 : (rows.take b).any (fun c' => isNamedAct c' && decide (c'.row.nodeName = cb.row.nodeName)) = true := by
      rw [List.any_eq_true]
      refine ⟨ca, ?_, by rw [hna, hnm]; simp⟩
      rw [List.mem_iff_getElem?]
      exact ⟨a, by rw [List.getElem?_take, if_pos hlt]; exact hca⟩
    rw [h2] at this; cases this
  rcases Nat.lt_trichotomy i j with h1 | h1 | h1
  · exact absurd h1 (key i j ci cj hi hj hni hnj hmj hnm)
  · exact h1
  · exact absurd h1 (key j i cj ci hj hi hnj hni hmi hnm.symm)

/-- the merged row `k` adds its action to the actions merged into the first row of its chain -/
theorem postUpTo_merge (rows : List CRow) (k R : Nat) (c cR : CRow) (hc : rows[k]? = some c) (hcR : rows[R]? = some cR)
    (hR : R < k) (hmg : c.merged = true) (hna : isNamedAct c = true) (hnaR : isNamedAct cR = true)
    (hnm : c.row.nodeName = cR.row.nodeName) :
    postUpTo rows (k + 1) R = postUpTo rows k R ++ c.row.action.toList := by
  unfold postUpTo
  rw [hcR]
  simp only [hnaR, Bool.not_true, Bool.false_eq_true, if_false]
  rw [List.take_add_one, hc]
  have hk : k < rows.length := (List.getElem?_eq_some_iff.mp hc).1
  have hlen : (rows.take k).length = k := by rw [List.length_take]; omega
  simp only [Option.toList, List.drop_append, List.filterMap_append, hlen]
  have : R + 1 - k = 0 := by omega
  rw [this]
  simp only [List.drop_zero, List.filterMap_cons, List.filterMap_nil, hmg, hna, hnm, Bool.and_self, decide_true,
    if_true]
  cases c.row.action <;> rfl

/-- … and nothing to the other rows -/
theorem postUpTo_other (rows : List CRow) (k j : Nat) (c : CRow) (hc : rows[k]? = some c)
    (hj : ∀ cj, rows[j]? = some cj → isNamedAct cj = true → c.row.nodeName ≠ cj.row.nodeName) :
    postUpTo rows (k + 1) j = postUpTo rows k j := by
  unfold postUpTo
  cases hcj : rows[j]? with
  | none => rfl
  | some cj =>
    simp only
    cases hn : isNamedAct cj with
    | false => simp
    | true =>
      simp only [Bool.not_true, Bool.false_eq_true, if_false]
      rw [List.take_add_one, hc]
      simp only [Option.toList, List.drop_append, List.filterMap_append]
      have hne := hj cj hcj hn
      have : ([c].drop (j + 1 - (rows.take k).length)).filterMap (fun c' =>
          if c'.merged && isNamedAct c' && decide (c'.row.nodeName = cj.row.nodeName) then c'.row.action else none) = [] := by
        cases hd : (j + 1 - (rows.take k).length) with
        | zero => simp [hne]
        | succ m => simp
      rw [this, List.append_nil]

/-- one more action at the end of the node of an action row -/
theorem RowSim.addAct {M : Maps} {ns ns' : Array NodeM} (hext : NExt ns ns') {n : NodeM} {c : CRow} {post : List Str}
    {es : List OutEdge} {ro : Option Nat} (hk : kindOf c.row.type = .action) (hro : ∀ i ∈ ro.toList, ns'[i]? = ns[i]?)
    (u : Uid) (a : Str) (hs : RowSim M ns n c post es ro) :
    RowSim M ns' { n with actions := n.actions ++ [(u, a)] } c (post ++ [a]) es ro := by
  cases hs with
  | one hn =>
    cases hn with
    | plain _ hp =>
      refine .one (.plain hk ⟨hp.kind, hp.router, ?_, hp.dest.ext hext, hp.blank⟩)
      simp only [List.map_append, List.map_cons, List.map_nil, hp.acts, List.append_assoc]
    | sw r hk' _ => rcases hk' with h | h | h <;> rw [hk] at h <;> cases h
    | fix r sc hk' _ => rcases hk' with h | h | h <;> rw [hk] at h <;> cases h
    | rnd r hk' _ => rw [hk] at hk'; cases hk'
    | nop r hk' _ => rw [hk] at hk'; cases hk'
  | impl i' n' r _ hp =>
    refine .impl i' n' r hk ⟨hp.kind, hp.router, ?_, hp.link, by rw [hro i' (by simp)]; exact hp.rnode, hp.kind',
      hp.acts', hp.router', hp.operand, hp.rname, hp.wait, hp.noResp, hp.cases, hp.casecat, ?_, hp.dflt.ext hext,
      hp.some, hp.names⟩
    · simp only [List.map_append, List.map_cons, List.map_nil, hp.acts, List.append_assoc]
    · exact hp.catd.imp (fun _ _ hd => hd.ext hext)

/-- the relation after a merged row: the node of the first row of its chain has one more action, the row
id of the merged row stands for that row -/
theorem Rel.merge {rows : List CRow} {M : Maps} {k : Nat} {s : St} {st : P1} {c : CRow} (ha : Annot rows)
    (h : Rel rows M false k s st) (hc : rows[k]? = some c) (hmg : c.merged = true) (hna : isNamedAct c = true)
    (a : Str) (hact : c.row.action = some a)
    (R : Nat) (cR : CRow) (hR : R < k) (hcR : rows[R]? = some cR) (hnaR : isNamedAct cR = true)
    (hmR : cR.merged = false) (hnm : cR.row.nodeName = c.row.nodeName)
    (n : NodeM) (hn : s.nodes[M.nOf R]? = some n) (u : Uid)
    (rowIds : List (Str × Nat)) (ids : List (Str × Nat))
    (hids : rowIds = ids.map (fun p => (p.1, gOf rows p.2)))
    (hlt : ∀ p ∈ ids, p.2 < k + 1 ∧ ∃ c, rows[p.2]? = some c ∧ isNodeRow c = true) (nx : Nat) (hnx : s.next ≤ nx) :
    Rel rows M false (k + 1)
      { s with nodes := s.nodes.setIfInBounds (M.nOf R) { n with actions := n.actions ++ [(u, a)] },
               rowIds := rowIds, next := nx }
      { st with ids := ids } := by
  have hnode : isNodeRow c = false := by unfold isNodeRow; rw [hmg, hna]; simp
  have hnodeR : isNodeRow cR = true := by
    rw [isNodeRow_of_unmerged hmR, kindOf_of_named hnaR]; rfl
  have hvR : Valid rows M false k R cR := ⟨.inl hR, hcR, hnodeR, h.elno R cR hcR (isNoop_of_named hnaR)⟩
  have hg : gOf rows (k + 1) = gOf rows k := by rw [gOf_succ rows k c hc, hnode]; simp
  have hlt' : ∀ j c', j < k + 1 → rows[j]? = some c' → isNodeRow c' = true → j < k := by
    intro j c' hj hc' hn'
    rcases Nat.lt_succ_iff_lt_or_eq.mp hj with h1 | h1
    · exact h1
    · subst h1; rw [hc] at hc'; injection hc' with hc'; subst hc'; rw [hnode] at hn'; cases hn'
  have conv : ∀ j c', Valid rows M false (k + 1) j c' → Valid rows M false k j c' := by
    intro j c' hv
    obtain ⟨h1, h2, h3⟩ := hv
    rcases h1 with h1 | h1
    · exact ⟨.inl (hlt' j c' h1 h2 h3.1), h2, h3⟩
    · exact absurd h1.1 (by simp)
  have hext : NExt s.nodes (s.nodes.setIfInBounds (M.nOf R) { n with actions := n.actions ++ [(u, a)] }) := by
    intro i m hm
    by_cases hi : i = M.nOf R
    · subst hi; rw [hn] at hm; injection hm with hm; subst hm
      exact ⟨_, set_getElem?_self _ hn, rfl⟩
    · exact ⟨m, by rw [set_getElem?_other _ _ _ _ hi]; exact hm, rfl⟩
  refine ⟨by rw [hg]; exact h.gsize, by rw [hg]; exact h.root, ?_, ?_, h.elno, ?_, h.tgtfr, h.stack, hids, hlt, ?_, ?_, ?_,
    h.args, ?_, ?_, h.rne, fun j hj => h.rnone j (by omega), h.rnoop, ?_, ?_⟩
  · intro j c' hj hc' hn' hnn'
    exact h.grp j c' (hlt' j c' hj hc' hn') hc' hn' hnn'
  · intro j c' hj hc' hnn'
    exact h.grpN j c' (hlt' j c' hj hc' (isNodeRow_of_noop hnn')) hc' hnn'
  · intro j hj; have := h.frel j hj; exact ⟨this.1, by omega, this.2.2⟩
  · have := h.prev
    cases hpv : st.prev with
    | none => rw [hpv] at this; simp only at this ⊢; rw [hg]; exact this
    | some p =>
      rw [hpv] at this
      simp only at this ⊢
      exact ⟨by omega, this.2.1, by rw [hg]; exact this.2.2⟩
  · intro e he; have := h.srcok e he; exact ⟨by omega, this.2⟩
  · intro e he t ht
    rcases h.tgtok e he t ht with h1 | h1
    · exact .inl (by omega)
    · exact absurd h1.1 (by simp)
  · -- the nodes
    intro j c' hv
    have hv0 := conv j c' hv
    obtain ⟨m, hm, hp'⟩ := h.node j c' hv0
    by_cases hjR : j = R
    · subst hjR
      have : c' = cR := by have := hv.2.1; rw [hcR] at this; injection this with this; exact this.symm
      subst this
      rw [hn] at hm; injection hm with hm; subst hm
      refine ⟨_, set_getElem?_self _ hn, ?_⟩
      rw [postUpTo_merge rows k j c c' hc hcR hR hmg hna hnaR hnm.symm, hact]
      refine RowSim.addAct hext (kindOf_of_named hnaR) ?_ u a hp'
      intro i hi
      have : i ≠ M.nOf j := by
        intro e
        cases hro : M.rOf j with
        | none => rw [hro] at hi; cases hi
        | some i' =>
          rw [hro] at hi
          simp only [Option.toList, List.mem_singleton] at hi
          exact h.rne j i' hro (by rw [← hi, e])
      exact set_getElem?_other _ _ _ _ this
    · have hnotin : ∀ y, y ∈ idxs M j → y ≠ M.nOf R := by
        intro y hy e
        exact hjR (h.disj j c' R cR hv0 hvR y hy (by rw [e]; simp [idxs]))
      refine ⟨m, by rw [set_getElem?_other _ _ _ _ (hnotin _ (by simp [idxs]))]; exact hm, ?_⟩
      rw [postUpTo_other rows k j c hc (fun cj hcj hnj hne => by
        have hcj' : cj = c' := by have := hv.2.1; rw [hcj] at this; injection this
        subst hcj'
        have hmj : cj.merged = false := by
          have := unmerged_of_node hv.2.2.1
          rw [hnj, Bool.and_true] at this; exact this
        exact hjR (named_unique ha hv.2.1 hcR hnj hnaR hmj hmR (by rw [← hne, hnm])))]
      refine hp'.transfer hext ?_
      intro i hi
      exact set_getElem?_other _ _ _ _ (hnotin i (by simp only [idxs, List.mem_cons]; exact .inr hi))
  · intro j c1 j' c2 hv1 hv2
    exact h.disj j c1 j' c2 (conv _ _ hv1) (conv _ _ hv2)
  · intro i m r hm hr cat hcat
    by_cases hi : i = M.nOf R
    · subst hi
      rw [set_getElem?_self _ hn] at hm; injection hm with hm; subst hm
      obtain ⟨k0, hk0, e⟩ := h.rfresh _ n r hn hr cat hcat
      exact ⟨k0, by show k0 < nx; omega, e⟩
    · rw [set_getElem?_other _ _ _ _ hi] at hm
      obtain ⟨k0, hk0, e⟩ := h.rfresh i m r hm hr cat hcat
      exact ⟨k0, by show k0 < nx; omega, e⟩
  · refine ⟨fun p hp hne => ?_, fun i c' hi hc' hn' hnn' hne => ?_⟩
    · obtain ⟨i, c', hi, r⟩ := h.names.1 p hp hne
      exact ⟨i, c', by omega, r⟩
    · exact h.names.2 i c' (hlt' i c' hi hc' hn') hc' hn' hnn' hne

/-- the schedule does not see the row ids and the arena -/
theorem Sched.congr_ids {rows : List CRow} {M : Maps} {kg : Nat} {s s' : St} {stT st : P1} {pnd : List OutEdge}
    (hs : Sched rows M kg s stT st pnd) (hg : s'.groups = s.groups) (ids : List (Str × Nat)) :
    Sched rows M kg s' { stT with ids := ids } { st with ids := ids } pnd := by
  refine ⟨rfl, hs.prev, hs.split, hs.fold, hs.pend, hs.psrc, ?_, hs.elided, hs.routed, ?_⟩
  · intro N hN; rw [hg]; exact hs.fresh N hN
  · intro N hel hlt hNn; rw [hg]; exact hs.elgrp N hel hlt hNn

/-- the source of an edge in the schedule is a row with a node -/
theorem edgeSrc_ok {rows : List CRow} {M : Maps} {pd : Bool} {kg : Nat} {s : St} {st : P1}
    (h : Rel rows M pd kg s st) (e : REdge) (R : Nat) (hsrc : edgeSrc st kg e = .ok (some R)) :
    R < kg ∧ ∃ c, rows[R]? = some c ∧ isNodeRow c = true := by
  unfold edgeSrc at hsrc
  split at hsrc
  · cases hsrc
  · split at hsrc
    · cases hpv : st.prev with
      | none => rw [hpv] at hsrc; cases hsrc
      | some p =>
        rw [hpv] at hsrc
        injection hsrc with hsrc; injection hsrc with hsrc; subst hsrc
        have := h.prev; rw [hpv] at this
        exact ⟨this.1, this.2.1⟩
    · cases hl : lookupId st.ids e.from_ with
      | none => rw [hl] at hsrc; cases hsrc
      | some j =>
        rw [hl] at hsrc
        injection hsrc with hsrc; injection hsrc with hsrc; subst hsrc
        obtain ⟨p, hp, hpj⟩ := lookupId_mem hl
        have := h.idok p hp
        rw [hpj] at this; exact this

/-- **a merged row**: the compiler adds its action to the node its name names — the node of the first
row of its chain —, the fused reading records that its row id stands for that row -/
theorem merge_row_simN (rows : List CRow) (outF : List OutEdge) (g : Good rows outF) (M : Maps) (k : Nat) (c : CRow)
    (hc : rows[k]? = some c) (hf : nodeRowOk c = true) (hm : (c.merged && isNamedAct c) = true)
    (s : St) (stT stT' : P1) (h : RelN rows M k s stT) (hst : pass1RowF rows stT k c = .ok stT') :
    wp (step (toEvent c)) s (fun _ s' => ∃ M', RelN rows M' (k + 1) s' stT') := by
  obtain ⟨st, pnd, h, hs⟩ := h
  simp only [Bool.and_eq_true] at hm
  obtain ⟨hmg, hna⟩ := hm
  have hfacts := rowFacts c hf
  have hnode : isNodeRow c = false := by unfold isNodeRow; rw [hmg, hna]; simp
  -- the fused reading
  unfold pass1RowF at hst
  rw [hmg, hna] at hst
  simp only [Bool.and_self, if_true] at hst
  split at hst
  rotate_left
  · cases hst
  rename_i e hedges
  split at hst
  rotate_left
  · cases hst
  rename_i hcond
  simp only [Bool.and_eq_true, Bool.or_eq_true, Bool.not_eq_true', Option.isSome_iff_exists] at hcond
  obtain ⟨⟨heb, hfrom⟩, a, hact⟩ := hcond
  split at hst
  rotate_left
  · cases hst
  rename_i R hsrcT
  split at hst
  rotate_left
  · cases hst
  rename_i cR hcR
  split at hst
  rotate_left
  · cases hst
  rename_i hRok
  simp only [Bool.and_eq_true, Bool.not_eq_true', decide_eq_true_eq] at hRok
  obtain ⟨⟨hnaR, hmR⟩, hnm⟩ := hRok
  injection hst with hst
  -- the source in the schedule
  have hsrc : edgeSrc st k (toREdge e) = .ok (some R) := by
    rw [edgeSrc_congr stT st k (toREdge e) hs.ids hs.prev]; exact hsrcT
  obtain ⟨hR, cR', hcR', hnodeR⟩ := edgeSrc_ok h (toREdge e) R hsrc
  rw [hcR] at hcR'; injection hcR' with hcR'; subst hcR'
  have hnnR := isNoop_of_named hnaR
  have helR := h.elno R cR hcR hnnR
  have hvR : Valid rows M false k R cR := ⟨.inl hR, hcR, hnodeR, helR⟩
  obtain ⟨n, hn, hsimR⟩ := h.node R cR hvR
  have hgrpR := h.grp R cR hR hcR hnodeR hnnR
  -- the name in use leads to the node of `R`
  have hname : ∃ p, s.names.find? (·.1 = c.row.nodeName) = some p ∧ p.2 = M.nOf R := by
    have hmem := h.names.2 R cR hR hcR hnodeR hnnR (name_ne_of_named hnaR)
    rw [hnm] at hmem
    cases hfd : s.names.find? (·.1 = c.row.nodeName) with
    | none =>
      exfalso
      have := List.find?_eq_none.mp hfd _ hmem
      simp at this
    | some p =>
      refine ⟨p, rfl, ?_⟩
      have hp1 : p.1 = c.row.nodeName := by simpa using List.find?_some hfd
      obtain ⟨i, ci, hi, hci, hni, hnni, hnai, hnmi, hp2⟩ :=
        h.names.1 p (List.mem_of_find?_eq_some hfd) (by rw [hp1]; exact name_ne_of_named hna)
      have hmi : ci.merged = false := by
        have := unmerged_of_node hni
        rw [hnai, Bool.and_true] at this; exact this
      have : i = R := named_unique g.annot hci hcR hnai hnaR hmi hmR (by rw [hnmi, hp1, hnm])
      rw [hp2, this]
  obtain ⟨p, hfind, hp2⟩ := hname
  -- the compiler side
  unfold step toEvent parseRow
  simp only
  rw [if_neg (by rintro (hh | hh); exact hfacts.t10 hh; exact hfacts.t11 hh), if_neg hfacts.t9, if_neg hfacts.t8,
    if_neg hfacts.t12]
  unfold actionRow
  wp_simp
  refine ⟨fun _ => trivial, fun hok => ?_⟩
  have e1 : (if List.isEmpty c.row.nodeUuid = true then c.row.nodeName else c.row.nodeUuid) = c.row.nodeName := by
    simp [hfacts.nouid]
  rw [e1]
  have hne : c.row.nodeName.isEmpty = false := by
    cases hh : c.row.nodeName with
    | nil => exact absurd hh (name_ne_of_named hna)
    | cons _ _ => rfl
  simp only [hne, Bool.false_eq_true, if_false, hfind, Option.map_some, hact]
  unfold mergeRow
  simp only [hedges]
  rw [if_neg (by simp [heb])]
  wp_simp
  -- the group the edge comes from
  have hpred : wp (predGroup e) s (fun o s' => o = some (gOf rows R) ∧ s = s') := by
    unfold predGroup
    unfold edgeSrc at hsrc
    by_cases hemp : e.from_ = []
    · simp only [hemp, List.isEmpty_nil, if_true]
      unfold mostRecent
      wp_simp
      rw [h.stack, mostRecent_root s.groups _ h.root]
      have hne' : ¬ (toREdge e).from_ = "start".toList := by
        show ¬ e.from_ = "start".toList; rw [hemp]; decide
      rw [if_neg hne'] at hsrc
      have he2 : (toREdge e).from_.isEmpty = true := by show e.from_.isEmpty = true; rw [hemp]; rfl
      rw [if_pos he2] at hsrc
      cases hpv : st.prev with
      | none => rw [hpv] at hsrc; cases hsrc
      | some p0 =>
        rw [hpv] at hsrc
        injection hsrc with hsrc; injection hsrc with hsrc; subst hsrc
        have := h.prev; rw [hpv] at this
        obtain ⟨_, _, hp3⟩ := this
        have hpos := gOf_pos rows p0
        have hne2 : ¬ (gOf rows k - 1 = 0) := by omega
        rw [if_neg hne2]
        exact ⟨by congr 1; omega, by trivial⟩
    · have he2 : e.from_.isEmpty = false := by
        cases hh : e.from_ with
        | nil => exact absurd hh hemp
        | cons _ _ => rfl
      simp only [he2, Bool.false_eq_true, if_false]
      rw [wp_lookupRow, h.ids, lookup_ids]
      split at hsrc
      · cases hsrc
      · have he3 : (toREdge e).from_.isEmpty = false := he2
        rw [if_neg (by rw [he3]; simp)] at hsrc
        cases hl : lookupId st.ids (toREdge e).from_ with
        | none => rw [hl] at hsrc; cases hsrc
        | some j =>
          rw [hl] at hsrc
          injection hsrc with hsrc; injection hsrc with hsrc; subst hsrc
          have hl' : lookupId st.ids e.from_ = some j := hl
          rw [hl']; exact ⟨rfl, by trivial⟩
  refine wp_mono hpred ?_
  intro o s0 ⟨ho, hs0⟩
  subst ho hs0
  simp only
  wp_simp [wp_fuelOf]
  have hfuel : 2 * s.groups.size + 8 = (2 * s.groups.size + 7) + 1 := by omega
  rw [hfuel]
  unfold entryNode
  wp_simp [wp_getGrp]
  intro grp hg
  rw [hgrpR] at hg; injection hg with hg; subst hg
  simp only [List.head?_cons]
  wp_simp
  refine ⟨fun _ => trivial, fun _ => ?_⟩
  wp_simp [wp_fresh', wp_getNode, wp_setNode]
  intro n0 hn0
  rw [hp2] at hn0 ⊢
  rw [hn] at hn0; injection hn0 with hn0; subst hn0
  have hrel := fun rowIds ids hids hlt =>
    Rel.merge g.annot h hc hmg hna a hact R cR hR hcR hnaR hmR hnm n hn (tid s.next) rowIds ids hids hlt
      (s.next + 1) (Nat.le_succ _)
  have hsch := hs.skip h hc hnode
  refine ⟨fun hrid0 => ?_, fun hrid0 => ?_⟩
  · have hrid : c.row.rowId = [] := List.isEmpty_iff.mp hrid0
    refine ⟨M, { st with ids := st.ids }, pnd, ?_, ?_⟩
    · have := hrel s.rowIds st.ids h.ids (fun p hp => by have := h.idok p hp; exact ⟨by omega, this.2⟩)
      simpa using this
    · rw [← hst]
      simp only [hrid, List.isEmpty_nil, if_true]
      rw [← hs.ids]
      exact hsch.congr_ids (by rfl) st.ids
  · have hrid' : c.row.rowId.isEmpty = false := by simpa using hrid0
    -- an explicit `from`: the row id is registered for the group of the first row of the chain
    have hemp : e.from_ ≠ [] := by
      rcases hfrom with hh | hh
      · intro e0; rw [e0] at hh; cases hh
      · rw [hrid'] at hh; cases hh
    wp_simp [wp_lookupRow]
    rw [h.ids, lookup_ids]
    have hl : lookupId st.ids e.from_ = some R := by
      unfold edgeSrc at hsrc
      split at hsrc
      · cases hsrc
      · have he3 : (toREdge e).from_.isEmpty = false := by
          show e.from_.isEmpty = false
          cases hh : e.from_ with
          | nil => exact absurd hh hemp
          | cons _ _ => rfl
        rw [if_neg (by rw [he3]; simp)] at hsrc
        cases hl : lookupId st.ids (toREdge e).from_ with
        | none => rw [hl] at hsrc; cases hsrc
        | some j =>
          rw [hl] at hsrc
          injection hsrc with hsrc; injection hsrc with hsrc; subst hsrc
          exact hl
    rw [hl]
    simp only [Option.map_some]
    wp_simp
    refine ⟨M, { st with ids := (c.row.rowId, R) :: st.ids }, pnd, ?_, ?_⟩
    · have := hrel ((c.row.rowId, gOf rows R) :: st.ids.map (fun p => (p.1, gOf rows p.2))) ((c.row.rowId, R) :: st.ids) (by simp)
        (fun p hp => by
          simp only [List.mem_cons] at hp
          rcases hp with rfl | hp
          · exact ⟨by simp; omega, cR, hcR, hnodeR⟩
          · have := h.idok p hp; exact ⟨by omega, this.2⟩)
      simpa using this
    · rw [← hst]
      simp only [hrid', Bool.false_eq_true, if_false]
      rw [← hs.ids]
      exact hsch.congr_ids (by rfl) ((c.row.rowId, R) :: st.ids)

end Rpft.CoreSheet
