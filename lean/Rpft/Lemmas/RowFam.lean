/-
The schema family of `Props.C07.parse_unparse_partial` and the dispatch of a field of the
family to its field round trip.
-/
import Rpft.Lemmas.RowAny
set_option linter.unusedSimpArgs false
set_option linter.unusedVariables false
namespace Rpft.Row
open Rpft

/-- family 2: every field is of a basic type, a list of basic values, a sub-record (without
header remaps) of basic-typed fields with distinct simple names, or a list of such
sub-records, or an untyped list -/
def famTy : Ty → Bool
  | .anyList => true
  | .list (.model sfs [] []) => subFamily sfs
  | .list t => isBasicTy t
  | .model sfs [] [] => subFamily sfs
  | t => isBasicTy t

def family (fs : List Field) : Bool := fs.all fun f => famTy f.2.1

theorem anyDeepFields_mem (lay : Layout) (f2h : List (Str × Str)) (pfx : Str)
    (kvs : List (Str × Val)) :
    ∀ (fs : List Field), anyDeepFields lay f2h pfx kvs fs = true → ∀ f ∈ fs, remap f2h f.1 = f.1 →
      ∀ x, alookup f.1 kvs = some x → isDefault f.2.2 x = false →
        anyDeep lay f.2.1 x (pfx ++ '.' :: f.1) = true
  | [], _, f, h, _, _, _, _ => by simp at h
  | (n, t, d) :: rest, ha, f, h, hr, x, hx, hd => by
    simp only [anyDeepFields, Bool.and_eq_true] at ha
    simp only [List.mem_cons] at h
    rcases h with rfl | h
    · have := ha.1
      simp only [hx, hr, if_true, hd, Bool.false_or] at this
      exact this
    · exact anyDeepFields_mem lay f2h pfx kvs rest ha.2 f h hr x hx hd

theorem atoms_of_all {xs : List PV} (h1 : xs.all isAtom = true) (h2 : ∀ x ∈ xs, pvOk x = true) :
    ∃ ss : List Str, xs = ss.map PV.atom ∧ ∀ s ∈ ss, strOk s = true := by
  induction xs with
  | nil => exact ⟨[], rfl, by simp⟩
  | cons x xs ih =>
    simp only [List.all_cons, Bool.and_eq_true] at h1
    obtain ⟨ss, rfl, hss⟩ := ih h1.2 (fun y hy => h2 y (List.mem_cons_of_mem _ hy))
    cases x with
    | list _ => simp [isAtom] at h1
    | atom s =>
      have := h2 (.atom s) (by simp)
      simp only [pvOk, Bool.and_eq_true] at this
      refine ⟨s :: ss, rfl, ?_⟩
      intro t ht
      simp only [List.mem_cons] at ht
      rcases ht with rfl | ht
      · exact this.1
      · exact hss t ht

theorem packDepth_list_model (sfs : List Field) (h2f f2h : List (Str × Str)) :
    ¬ packDepth (.list (.model sfs h2f f2h)) ≤ 2 := by
  simp [packDepth]; omega

theorem admFields_mem (targets : List Str) (f2h : List (Str × Str)) (pfx : Str) :
    ∀ (fs : List Field), admFields targets f2h pfx fs = true → ∀ f ∈ fs, remap f2h f.1 = f.1 →
      admTy targets f.2.1 (pfx ++ '.' :: f.1) = true
  | [], _, f, h, _ => by simp at h
  | (n, t, d) :: rest, ha, f, h, hr => by
    simp only [admFields, Bool.and_eq_true] at ha
    simp only [List.mem_cons] at h
    rcases h with rfl | h
    · have := ha.1
      simp only [hr, if_true] at this
      exact this
    · exact admFields_mem targets f2h pfx rest ha.2 f h hr

theorem fieldRT_fam {lay : Layout} {fs : List Field} {n : Str} {ty : Ty} {d : Option Val} {v : Val}
    (hn : simpleName n = true) (hf : fieldLookup n fs = some (n, ty, d)) (he : lay.excluded = [])
    (hfam : famTy ty = true) (hfo : fieldOk false ty v = true) (hr : reprOk false ty v = true)
    (hadm : admTy lay.targets ty ('.' :: n) = true)
    (hany : ∀ xs, ty = .anyList → v = .any xs →
      matchesHeaders ('.' :: n) lay.targets = false → xs.all isAtom = true) :
    FieldRT lay fs n ty v := by
  cases ty with
  | str => exact fieldRT_basic hn hf he rfl hr
  | int => exact fieldRT_basic hn hf he rfl hr
  | float => exact fieldRT_basic hn hf he rfl hr
  | bool => exact fieldRT_basic hn hf he rfl hr
  | anyList =>
    cases v <;> simp [reprOk] at hr
    case any xs =>
      have hne : xs ≠ [] := by
        intro e; subst e; simp [fieldOk] at hfo
      cases hm : matchesHeaders ('.' :: n) lay.targets with
      | true => exact fieldRT_any_packed hn hf he hm xs hne hr
      | false =>
        obtain ⟨ss, rfl, hss⟩ := atoms_of_all (hany xs rfl rfl hm) hr
        exact fieldRT_any_spread hn hf he hm ss (by simpa using hne) hss
  | list t =>
    cases v <;> simp [reprOk] at hr
    case list xs =>
      have hne : xs ≠ [] := by
        intro e; subst e; simp [fieldOk] at hfo
      cases hm : matchesHeaders ('.' :: n) lay.targets with
      | true =>
        cases t with
        | model sfs h2f f2h =>
          exfalso
          unfold admTy at hadm
          simp only [isBasicTy, Bool.false_eq_true, if_false, hm, if_true, decide_eq_true_eq] at hadm
          exact packDepth_list_model sfs h2f f2h hadm
        | str => exact fieldRT_listBasic_packed rfl hn hf he hm xs hne hr
        | int => exact fieldRT_listBasic_packed rfl hn hf he hm xs hne hr
        | float => exact fieldRT_listBasic_packed rfl hn hf he hm xs hne hr
        | bool => exact fieldRT_listBasic_packed rfl hn hf he hm xs hne hr
        | anyList => simp [famTy, isBasicTy] at hfam
        | list _ => simp [famTy, isBasicTy] at hfam
      | false =>
        cases t with
        | model sfs h2f f2h =>
          cases h2f <;> cases f2h <;> simp [famTy, isBasicTy] at hfam
          have hfst : ∀ i v, (elemCOfSub lay n sfs i v).1 = v := by
            intro i v; cases v <;> simp [elemCOfSub]; split <;> rfl
          have hes := enumElems_fst (elemCOfSub lay n sfs) hfst 1 xs
          rw [← hes]
          refine fieldRT_of_elemRT (d := d) hn he hm _ ?_ ?_
          · intro e; rw [e] at hes; simp at hes; exact hne hes
          · intro j e hj
            obtain ⟨x, hx, rfl⟩ := enumElems_get _ 1 xs j e hj
            exact elemRT_sub hn hf he hfam (1 + j) (hr x hx)
        | anyList => simp [famTy, isBasicTy] at hfam
        | list _ => simp [famTy, isBasicTy] at hfam
        | str | int | float | bool =>
          have hes : (xs.map elemOfBasic).map (·.1) = xs := by
            rw [List.map_map]
            conv => rhs; rw [← List.map_id xs]
            exact List.map_congr_left (fun x _ => rfl)
          rw [← hes]
          exact fieldRT_list_elems hn hf he hm _ (by simpa using hne) (by
            intro e hmem
            obtain ⟨x, hx, rfl⟩ := List.mem_map.mp hmem
            exact elemOk_basic he n rfl (hr x hx))
  | model sfs h2f f2h =>
    cases h2f <;> cases f2h <;> simp [famTy, isBasicTy] at hfam
    cases v with
    | model skvs =>
      obtain ⟨D⟩ := subData_of_repr hfam hr hfo
      cases hm : matchesHeaders ('.' :: n) lay.targets with
      | true => exact fieldRT_sub_packed hn hf he hm D
      | false => exact fieldRT_sub_spread hn hf he hm D
    | _ => simp [reprOk] at hr

end Rpft.Row
