import Rpft.Lemmas.RefFlowNode
/-! The reference interpretation of every sheet is a closed flow (`refFlow_closed`). -/
set_option linter.unusedSimpArgs false
set_option linter.unusedVariables false
namespace Rpft.RefFlow
open Rpft Rpft.Flow

theorem keysOf_nodup (k na me mc nk : Nat) : (keysOf k na me mc nk).Nodup := by
  have hinj : ∀ t, Function.Injective (Key.sub k t) := fun t a b h => by injection h
  have hn : ∀ t m, ((List.range m).map (Key.sub k t)).Nodup := fun t m => List.nodup_range.map (hinj t)
  simp [keysOf, List.nodup_cons, List.nodup_append, hn]
  constructor
  · rintro a _ b (⟨c, _, rfl⟩ | ⟨c, _, rfl⟩) h <;> simp at h
  · rintro a _ b (⟨c, _, rfl⟩ | ⟨c, _, rfl⟩ | ⟨c, _, rfl⟩) h <;> simp at h

theorem keysOf_ok (k na me mc nk : Nat) : ∀ key ∈ keysOf k na me mc nk, key.idx = k ∧ key.ok := by
  intro key hk
  simp only [keysOf, List.mem_cons, List.mem_append, List.mem_map, List.mem_range] at hk
  rcases hk with rfl | (⟨_, _, rfl⟩ | ⟨_, _, rfl⟩) | (⟨_, _, rfl⟩ | ⟨_, _, rfl⟩) <;> simp [Key.idx, Key.ok]


theorem nodeGood_ids_nodup {k : Nat} {out : List OutEdge} {n : Node} (h : NodeGood k out n) : n.ids.Nodup := by
  obtain ⟨na, me, mc, nk, hids⟩ := h.ids
  rw [hids]
  refine List.Nodup.map_on ?_ (keysOf_nodup k na me mc nk)
  intro a ha b hb hab
  exact enc_injective (keysOf_ok _ _ _ _ _ a ha).2 (keysOf_ok _ _ _ _ _ b hb).2 hab

theorem nodeGood_ids_disjoint {k k' : Nat} {out out' : List OutEdge} {n n' : Node}
    (h : NodeGood k out n) (h' : NodeGood k' out' n') (hne : k ≠ k') :
    ∀ x ∈ n.ids, ∀ y ∈ n'.ids, x ≠ y := by
  obtain ⟨na, me, mc, nk, hids⟩ := h.ids
  obtain ⟨na', me', mc', nk', hids'⟩ := h'.ids
  intro x hx y hy hxy
  rw [hids] at hx
  rw [hids'] at hy
  simp only [List.mem_map] at hx hy
  obtain ⟨a, ha, rfl⟩ := hx
  obtain ⟨b, hb, rfl⟩ := hy
  have := enc_injective (keysOf_ok _ _ _ _ _ a ha).2 (keysOf_ok _ _ _ _ _ b hb).2 hxy
  have h1 := (keysOf_ok _ _ _ _ _ a ha).1
  have h2 := (keysOf_ok _ _ _ _ _ b hb).1
  rw [this] at h1
  omega

/-- the nodes of the reference flow, as a function of pass 1's result -/
def refNodes (rows : List RRow) (out : List OutEdge) : List Node :=
  rows.zipIdx.filterMap fun (p : RRow × Nat) =>
    if p.1.kind.isNode then some (mkNode p.2 p.1 (out.filter (·.src = p.2))) else none

theorem refFlow_nodes (rows : List RRow) (f : Flow) (h : refFlow rows = .ok f) :
    ∃ out, pass1 rows = .ok out ∧ f.nodes = refNodes rows out := by
  unfold refFlow at h
  simp only [bind, Except.bind, pure, Except.pure] at h
  split at h
  · simp at h
  · rename_i out hout
    simp only [Except.ok.injEq] at h
    subst h
    exact ⟨out, hout, rfl⟩

theorem zipIdx_pairwise (rows : List RRow) : rows.zipIdx.Pairwise (fun p q => p.2 < q.2) := by
  have h := List.pairwise_lt_range' (s := 0) (n := rows.length) (step := 1)
  rw [← List.zipIdx_map_snd 0 rows, List.pairwise_map] at h
  exact h

theorem mem_refNodes {rows : List RRow} {out : List OutEdge} {n : Node} (h : n ∈ refNodes rows out) :
    ∃ r k, (r, k) ∈ rows.zipIdx ∧ r.kind.isNode = true ∧ n = mkNode k r (out.filter (·.src = k)) := by
  simp only [refNodes, List.mem_filterMap] at h
  obtain ⟨p, hp, hn⟩ := h
  obtain ⟨r, k⟩ := p
  by_cases hk : r.kind.isNode = true
  · simp only [hk, if_true, Option.some.injEq] at hn
    exact ⟨r, k, hp, hk, hn.symm⟩
  · simp [hk] at hn

theorem refNodes_pairwise (rows : List RRow) (out : List OutEdge) :
    (refNodes rows out).Pairwise (fun a b => ∃ k k' oa ob, k ≠ k' ∧ NodeGood k oa a ∧ NodeGood k' ob b) := by
  unfold refNodes
  rw [List.pairwise_filterMap]
  refine (zipIdx_pairwise rows).imp ?_
  intro p q hpq a ha b hb
  by_cases h1 : p.1.kind.isNode = true
  · by_cases h2 : q.1.kind.isNode = true
    · simp only [h1, h2, if_true, Option.mem_def, Option.some.injEq] at ha hb
      subst ha; subst hb
      exact ⟨p.2, q.2, _, _, by omega, mkNode_good _ _ _, mkNode_good _ _ _⟩
    · simp [h2] at hb
  · simp [h1] at ha

/-- **The reference interpretation is well formed for every sheet**: whatever the rows are, if the
reference flow exists (every `from` / `go_to` names an earlier row) it is a closed flow definition —
node identifiers unique, every exit leads nowhere or to a node of the flow, routers closed, all
identifiers pairwise distinct. -/
theorem refFlow_closed (rows : List RRow) (f : Flow) (h : refFlow rows = .ok f) : Closed f := by
  obtain ⟨out, hout, hnodes⟩ := refFlow_nodes rows f h
  have htg := pass1_targets rows out hout
  have hpw := refNodes_pairwise rows out
  refine ⟨?_, ?_, ?_⟩
  · rw [hnodes, List.nodup_iff_pairwise_ne, List.pairwise_map]
    refine hpw.imp ?_
    rintro a b ⟨k, k', oa, ob, hne, ha, hb⟩ hab
    rw [ha.uuid, hb.uuid] at hab
    exact hne (natStr_injective hab)
  · intro n hn
    rw [hnodes] at hn
    obtain ⟨r, k, hrk, hnode, rfl⟩ := mem_refNodes hn
    have hg := mkNode_good k r (out.filter (·.src = k))
    refine ⟨?_, ?_, hg.plain⟩
    · intro e he d hd
      simp only [Option.mem_toList] at hd
      obtain ⟨o, ho, hod⟩ := hg.dests e he d hd
      have hok := htg o (List.mem_filter.mp ho).1
      cases ht : o.tgt with
      | exit => simp [ht, tgtDest] at hod
      | row t =>
        rw [ht] at hok
        simp only [ht, tgtDest, Option.some.injEq] at hod
        obtain ⟨r', hr', hn'⟩ := hok
        have hmem : (r', t) ∈ rows.zipIdx := by
          rw [List.mem_zipIdx_iff_getElem?]
          simpa using hr'
        rw [hnodes, ← hod]
        simp only [List.mem_map]
        refine ⟨mkNode t r' (out.filter (·.src = t)), ?_, (mkNode_good _ _ _).uuid⟩
        simp only [refNodes, List.mem_filterMap]
        exact ⟨(r', t), hmem, by simp [hn']⟩
    · intro rt hrt
      exact hg.closed rt (by simpa using hrt)
  · unfold Flow.ids
    rw [List.nodup_flatMap]
    refine ⟨?_, ?_⟩
    · intro n hn
      rw [hnodes] at hn
      obtain ⟨r, k, _, _, rfl⟩ := mem_refNodes hn
      exact nodeGood_ids_nodup (mkNode_good _ _ _)
    · rw [hnodes]
      refine hpw.imp ?_
      rintro a b ⟨k, k', oa, ob, hne, ha, hb⟩
      simp only [Function.onFun, List.disjoint_left]
      intro x hx hy
      exact nodeGood_ids_disjoint ha hb hne x hx x hy rfl

end Rpft.RefFlow
