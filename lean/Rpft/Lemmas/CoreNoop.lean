/-
Lock-step simulation with `no_op` rows.  The compiler keeps a `no_op` row as a lazy junction: the
edges INTO it take effect when an edge LEAVES it.  The simulation relation `Rel` therefore runs
against a SCHEDULE `st` of the reference's pass 1 in which the edges into a `no_op` row are recorded
when they take effect; `Sched` ties the schedule to the true state `stT` of pass 1 (per source row
the same out-edges in the same order, apart from the remembered ones `pnd`).
-/
import Rpft.Lemmas.CoreRow
set_option linter.unusedSimpArgs false
set_option linter.unusedVariables false
set_option linter.unusedSectionVars false
namespace Rpft.CoreSheet
open Rpft Rpft.Compile Rpft.RefFlow

/-- a condition as the compiler remembers it -/
def fromRCond (c : RefFlow.Cond) : Compile.Cond := ⟨c.value, c.var, c.type, c.name⟩

theorem toRCond_fromRCond (c : RefFlow.Cond) : toRCond (fromRCond c) = c := rfl
theorem fromRCond_toRCond (c : Compile.Cond) : fromRCond (toRCond c) = c := rfl

/-! ### where an edge comes from -/

/-- the group the compiler finds for the `from` cell of an edge is the group of the row pass 1 finds -/
theorem wp_groupOfEdge_of {rows : List CRow} {kg : Nat} {s : St} {st : P1}
    (hstack : s.stack = [0]) (hroot : s.groups[0]? = some (.block (List.range' 1 (gOf rows kg - 1))))
    (hids : s.rowIds = st.ids.map (fun p => (p.1, gOf rows p.2)))
    (hidok : ∀ p ∈ st.ids, p.2 < kg ∧ ∃ c, rows[p.2]? = some c ∧ isNodeRow c = true)
    (hprev : match st.prev with
      | none => gOf rows kg = 1
      | some p => p < kg ∧ (∃ c, rows[p]? = some c ∧ isNodeRow c = true) ∧ gOf rows p + 1 = gOf rows kg)
    (e : Compile.Edge) (Q : Option Nat → St → Prop)
    (hQ : ∀ o, edgeSrc st kg (toREdge e) = .ok o →
      (∀ j, o = some j → j < kg ∧ ∃ c, rows[j]? = some c ∧ isNodeRow c = true) → Q (o.map (gOf rows)) s) :
    wp (groupOfEdge e) s Q := by
  have h : (s.stack = [0]) ∧ True := ⟨hstack, trivial⟩
  rw [wp_groupOfEdge]
  by_cases hs : e.from_ = "start".toList
  · have : edgeSrc st kg (toREdge e) = .ok none := by simp [edgeSrc, toREdge, hs]
    rw [if_pos hs]
    exact hQ none this (fun j hj => by cases hj)
  · rw [if_neg hs]
    by_cases hemp : e.from_ = []
    · have hsrc : edgeSrc st kg (toREdge e) = .ok st.prev := by
        simp only [edgeSrc, toREdge, hs, hemp, List.isEmpty_nil, if_true, if_false]
        cases st.prev <;> rfl
      rw [if_pos hemp, hstack, mostRecent_root s.groups _ hroot]
      cases hpv : st.prev with
      | none =>
        have hprev' : gOf rows kg = 1 := by have := hprev; rw [hpv] at this; exact this
        have : gOf rows kg - 1 = 0 := by omega
        simp only [this, if_true]
        rw [hpv] at hsrc
        exact hQ none hsrc (fun j hj => by cases hj)
      | some p =>
        rw [hpv] at hsrc
        have hprev' : p < kg ∧ (∃ c, rows[p]? = some c ∧ isNodeRow c = true) ∧ gOf rows p + 1 = gOf rows kg := by
          have := hprev; rw [hpv] at this; exact this
        obtain ⟨hp1, hp2, hp3⟩ := hprev'
        have hpos := gOf_pos rows p
        have hne : ¬ (gOf rows kg - 1 = 0) := by omega
        simp only [hne, if_false]
        have e1 : gOf rows kg - 1 = gOf rows p := by omega
        rw [e1]
        exact hQ (some p) hsrc (fun j hj => by injection hj with hj; subst hj; exact ⟨hp1, hp2⟩)
    · have hsrc : edgeSrc st kg (toREdge e) =
          match lookupId st.ids e.from_ with
          | some j => .ok (some j)
          | none => .error (.unknownFrom kg e.from_) := by
        simp only [edgeSrc, toREdge, hs, if_false, List.isEmpty_iff, hemp]
        rfl
      rw [if_neg hemp, hids, lookup_ids]
      cases hl : lookupId st.ids e.from_ with
      | none => simp only [Option.map_none]
      | some j =>
        simp only [Option.map_some]
        obtain ⟨p, hp, hpj⟩ := lookupId_mem hl
        have := hidok p hp
        rw [hpj] at this
        exact hQ (some j) (by rw [hsrc, hl]) (fun j' hj' => by injection hj' with hj'; subst hj'; exact this)

theorem wp_groupOfEdge_rel {rows : List CRow} {M : Maps} {pd : Bool} {kg : Nat} {s : St} {st : P1}
    (h : Rel rows M pd kg s st) (e : Compile.Edge) (Q : Option Nat → St → Prop)
    (hQ : ∀ o, edgeSrc st kg (toREdge e) = .ok o →
      (∀ j, o = some j → j < kg ∧ ∃ c, rows[j]? = some c ∧ isNodeRow c = true) → Q (o.map (gOf rows)) s) :
    wp (groupOfEdge e) s Q :=
  wp_groupOfEdge_of h.stack h.root h.ids h.idok h.prev e Q hQ

/-- the source pass 1 finds depends on the row ids and the previous row only -/
theorem edgeSrc_congr (st st' : P1) (k : Nat) (e : REdge) (h1 : st'.ids = st.ids) (h2 : st'.prev = st.prev) :
    edgeSrc st' k e = edgeSrc st k e := by
  unfold edgeSrc; rw [h1, h2]

/-! ### the schedule -/

/-- `N` is a `no_op` row -/
abbrev NoopRow (rows : List CRow) (N : Nat) : Prop := ∃ c, rows[N]? = some c ∧ isNoop c = true

theorem noopAt_iff (rows : List CRow) (N : Nat) : noopAt rows N = true ↔ NoopRow rows N := by
  unfold noopAt NoopRow
  cases h : rows[N]? with
  | none => simp
  | some c => simp

/-- the parents the compiler remembers for the `no_op` row `N`: the remembered edges into it -/
def parentsOf (rows : List CRow) (pnd : List OutEdge) (N : Nat) : List (Nat × Compile.Cond) :=
  (pnd.filter (fun pe => decide (pe.tgt = .row N))).map (fun pe => (gOf rows pe.src, fromRCond pe.cond))

/-- the true state `stT` of pass 1, the schedule `st` the simulation relation runs against, the
remembered edges `pnd` -/
structure Sched (rows : List CRow) (M : Maps) (kg : Nat) (s : St) (stT st : P1) (pnd : List OutEdge) : Prop where
  ids : st.ids = stT.ids
  prev : st.prev = stT.prev
  /-- per source row: the same out-edges in the same order, the remembered ones last -/
  split : ∀ j, outOf stT j = outOf st j ++ pnd.filter (·.src = j)
  fold : stT.out.reverse.foldlM (schedStep rows) [] = some pnd
  /-- remembered edges lead from ordinary rows into `no_op` rows that have not been left -/
  pend : ∀ e ∈ pnd, ∃ N, e.tgt = .row N ∧ M.fr N = true
  psrc : ∀ e ∈ pnd, e.src < kg ∧ ∃ c, rows[e.src]? = some c ∧ isNodeRow c = true ∧ isNoop c = false
  /-- a `no_op` row that has not been left: no out-edge; its group remembers the edges into it -/
  fresh : ∀ N, M.fr N = true → NoopRow rows N ∧ outOf stT N = [] ∧
    s.groups[gOf rows N]? = some (.noop (parentsOf rows pnd N) none)
  /-- a `no_op` row left unconditionally: its sources lead where its one out-edge leads -/
  elided : ∀ N, M.el N = true → M.fr N = false → N < kg →
    NoopRow rows N ∧ ∃ b T cT, outOf stT N = [b] ∧ b.cond.blank = true ∧ b.tgt = .row T ∧ M.nOf N = M.nOf T ∧
      rows[T]? = some cT ∧ isNodeRow cT = true ∧ isNoop cT = false
  /-- a `no_op` row left conditionally -/
  routed : ∀ N c, N < kg → rows[N]? = some c → isNoop c = true → M.el N = false →
    testsOf .noOp (outOf stT N) ≠ []
  /-- a `no_op` row without a node of its own has no router node -/
  elgrp : ∀ N, M.el N = true → N < kg → NoopRow rows N → ∃ ps, s.groups[gOf rows N]? = some (.noop ps none)

/-- the ghost maps only learn: rows that are not `no_op` rows waiting to be left keep their node -/
def MExt (M M' : Maps) : Prop := ∀ t, M.fr t = false → M'.fr t = false ∧ M'.nOf t = M.nOf t

theorem MExt.refl (M : Maps) : MExt M M := fun _ h => ⟨h, rfl⟩

theorem MExt.trans {M1 M2 M3 : Maps} (h1 : MExt M1 M2) (h2 : MExt M2 M3) : MExt M1 M3 := by
  intro t ht
  obtain ⟨a, b⟩ := h1 t ht
  obtain ⟨c, d⟩ := h2 t a
  exact ⟨c, by rw [d, b]⟩

theorem MExt.of_eq {M M' : Maps} (h1 : ∀ t, M'.nOf t = M.nOf t) (h2 : M'.fr = M.fr) : MExt M M' :=
  fun t ht => ⟨by rw [h2]; exact ht, h1 t⟩

theorem DestIs.mext {M M' : Maps} (hM : MExt M M') {ns : Array NodeM} {d : Dest} {tgt : Target}
    (htf : ∀ t, tgt = Target.row t → M.fr t = false) (hd : DestIs M ns d (some tgt)) : DestIs M' ns d (some tgt) :=
  hd.congrM (fun k hk => by injection hk with hk; exact (hM k (htf k hk)).2)

/-! ### facts about the schedule step -/

theorem foldlM_snoc {α β} (f : β → α → Option β) (l : List α) (a : α) (init : β) :
    (l ++ [a]).foldlM f init = (l.foldlM f init).bind (fun b => f b a) := by
  rw [List.foldlM_append]
  cases l.foldlM f init <;> simp [List.foldlM_cons, List.foldlM_nil]

/-- an edge between ordinary rows: its source has no remembered edge -/
theorem schedStep_normal {rows : List CRow} {pnd p' : List OutEdge} {e : OutEdge}
    (hs : noopAt rows e.src = false) (ht : tgtNoop rows e.tgt = false) (h : schedStep rows pnd e = some p') :
    p' = pnd ∧ pnd.filter (·.src = e.src) = [] := by
  unfold schedStep at h
  rw [ht, hs] at h
  simp only [Bool.false_eq_true, if_false] at h
  split at h
  · cases h
  · rename_i hany
    injection h with h
    refine ⟨h.symm, ?_⟩
    rw [List.filter_eq_nil_iff]
    intro pe hpe hsrc
    apply hany
    rw [List.any_eq_true]
    exact ⟨pe, hpe, hsrc⟩

/-- an edge into a `no_op` row: remembered; it does not come from a `no_op` row -/
theorem schedStep_into {rows : List CRow} {pnd p' : List OutEdge} {e : OutEdge}
    (ht : tgtNoop rows e.tgt = true) (h : schedStep rows pnd e = some p') :
    p' = pnd ++ [e] ∧ noopAt rows e.src = false := by
  unfold schedStep at h
  rw [ht] at h
  simp only [if_true] at h
  split at h
  · cases h
  · rename_i hn
    injection h with h
    exact ⟨h.symm, by simpa using hn⟩

/-- an edge leaving the `no_op` row `N`: the remembered edges into `N` are the oldest remembered edges
of their sources -/
theorem schedStep_leave {rows : List CRow} {pnd p' : List OutEdge} {e : OutEdge}
    (hs : noopAt rows e.src = true) (ht : tgtNoop rows e.tgt = false) (h : schedStep rows pnd e = some p') :
    p' = pnd.filter (fun pe => !decide (pe.tgt = .row e.src)) ∧
      ∀ pe ∈ pnd, ∀ m ∈ pnd, m.tgt = .row e.src → m.src = pe.src → pe.tgt = .row e.src := by
  unfold schedStep at h
  rw [ht, hs] at h
  simp only [Bool.false_eq_true, if_false, if_true] at h
  split at h
  · cases h
  · rename_i hany
    injection h with h
    refine ⟨h.symm, ?_⟩
    intro pe hpe m hm hmt hms
    by_contra hne
    apply hany
    rw [List.any_eq_true]
    refine ⟨pe, hpe, ?_⟩
    rw [Bool.and_eq_true, List.any_eq_true]
    refine ⟨⟨m, ?_, by simpa using hms⟩, by simpa using hne⟩
    rw [List.mem_filter]
    exact ⟨hm, by simpa using hmt⟩

/-! ### an edge leaving an ordinary row -/

theorem outOf_cons (st : P1) (new : OutEdge) (j : Nat) :
    outOf { st with out := new :: st.out } j = outOf st j ++ (if new.src = j then [new] else []) := by
  unfold outOf
  simp only [List.reverse_cons, List.filter_append, List.filter_cons, List.filter_nil]
  by_cases h : new.src = j <;> simp [h]

theorem gOf_inj (rows : List CRow) {j j' : Nat} {c c' : CRow} (hc : rows[j]? = some c) (hc' : rows[j']? = some c')
    (hn : isNodeRow c = true) (hn' : isNodeRow c' = true) (h : gOf rows j = gOf rows j') : j = j' := by
  rcases Nat.lt_trichotomy j j' with h1 | h1 | h1
  · have := gOf_lt rows h1 hc hn; omega
  · exact h1
  · have := gOf_lt rows h1 hc' hn'; omega

/-- what the state must look like after an edge has been dealt with: related to some schedule of the
true state `stT'` -/
abbrev NPost (rows : List CRow) (M : Maps) (pd : Bool) (kg : Nat) (s : St) (stT' : P1) : PUnit → St → Prop :=
  fun _ s' => ∃ (M' : Maps) (st' : P1) (pnd' : List OutEdge), MExt M M' ∧ Rel rows M' pd kg s' st' ∧
    Sched rows M' kg s' stT' st' pnd' ∧ NExt s.nodes s'.nodes

/-- an edge leaving an ordinary row (into an ordinary row or an exit): it takes effect at once -/
theorem addExit_simN (rows : List CRow) (outF : List OutEdge) (g : Good rows outF) (M : Maps) (pd : Bool) (kg : Nat)
    (d : Dest) (tgt : Target) (cond : Compile.Cond) (s : St) (stT st : P1) (pnd : List OutEdge) (j : Nat)
    (h : Rel rows M pd kg s st) (hs : Sched rows M kg s stT st pnd)
    (hj : j < kg) (hjn : ∃ c, rows[j]? = some c ∧ isNodeRow c = true ∧ isNoop c = false)
    (hd : DestIs M s.nodes d (some tgt))
    (htg : ∀ t, tgt = Target.row t → (t < kg ∨ (pd = true ∧ t = kg)) ∧ M.fr t = false)
    (htn : tgtNoop rows tgt = false)
    (hTpre : (newEdge tgt cond j :: stT.out).reverse <+: outF)
    (hF : ∃ p', (newEdge tgt cond j :: stT.out).reverse.foldlM (schedStep rows) [] = some p') (f : Nat) :
    wp (addExit (f + 1) (gOf rows j) d cond) s
      (NPost rows M pd kg s { stT with out := newEdge tgt cond j :: stT.out }) := by
  obtain ⟨c, hc, hnode, hnn⟩ := hjn
  -- the schedule step
  have hsn : noopAt rows j = false := by
    unfold noopAt; rw [hc]; exact hnn
  obtain ⟨p', hp'⟩ := hF
  rw [List.reverse_cons, foldlM_snoc, hs.fold] at hp'
  simp only [Option.bind_some] at hp'
  obtain ⟨hpeq, hnop⟩ := schedStep_normal (e := newEdge tgt cond j) hsn htn hp'
  rw [hpeq] at hp'
  -- the out-edges of row `j` in the schedule are those of the true state
  have hsplit := hs.split j
  have hnop' : pnd.filter (·.src = j) = [] := hnop
  rw [hnop', List.append_nil] at hsplit
  have hpre : outOf st j ++ [newEdge tgt cond j] <+: outF.filter (·.src = j) := by
    have := hTpre.filter (·.src = j)
    have e1 : (newEdge tgt cond j :: stT.out).reverse.filter (·.src = j) = outOf stT j ++ [newEdge tgt cond j] := by
      simp [outOf, List.filter_append]
    rw [e1, hsplit] at this
    exact this
  have hmem : newEdge tgt cond j ∈ outF := hTpre.subset (by simp)
  refine wp_mono (addExit_sim rows outF g M pd kg d tgt cond s st j h hj ⟨c, hc, hnode, hnn⟩ hd htg hmem hpre f) ?_
  intro _ s' ⟨M', hMn, hMel, hMfr, hr, hext, hgrp⟩
  refine ⟨M', _, pnd, MExt.of_eq hMn hMfr, hr, ?_, hext⟩
  have hNj : ∀ N, NoopRow rows N → N ≠ j := by
    rintro N ⟨cN, hcN, hnN⟩ e
    subst e; rw [hc] at hcN; injection hcN with hcN; subst hcN; rw [hnn] at hnN; cases hnN
  have hout : ∀ N, N ≠ j → outOf { stT with out := newEdge tgt cond j :: stT.out } N = outOf stT N := by
    intro N hN
    rw [outOf_cons, if_neg (fun e => hN e.symm), List.append_nil]
  refine ⟨hs.ids, hs.prev, ?_, ?_, by rw [hMfr]; exact hs.pend, hs.psrc, ?_, ?_, ?_, ?_⟩
  rotate_right
  · intro N hel hlt hNn
    rw [hMel] at hel
    obtain ⟨cN, hcN, hnN⟩ := hNn
    rw [hgrp _ (fun e => hNj N ⟨cN, hcN, hnN⟩ (gOf_inj rows hcN hc (isNodeRow_of_noop hnN) hnode e))]
    exact hs.elgrp N hel hlt ⟨cN, hcN, hnN⟩
  · intro j0
    rw [outOf_cons, outOf_cons, hs.split j0]
    by_cases hj0 : j = j0
    · subst hj0
      simp [hnop']
    · have : (newEdge tgt cond j).src ≠ j0 := hj0
      simp [this]
  · rw [List.reverse_cons, foldlM_snoc, hs.fold]; exact hp'
  · intro N hN
    rw [hMfr] at hN
    obtain ⟨hnr, ho, hgN⟩ := hs.fresh N hN
    refine ⟨hnr, by rw [hout N (hNj N hnr)]; exact ho, ?_⟩
    obtain ⟨cN, hcN, hnN⟩ := hnr
    rw [hgrp _ (fun e => hNj N ⟨cN, hcN, hnN⟩ (gOf_inj rows hcN hc (isNodeRow_of_noop hnN) hnode e))]
    exact hgN
  · intro N hel hfr hlt
    rw [hMel] at hel; rw [hMfr] at hfr
    obtain ⟨hNn, b, T, cT, h1, h2, h3, h4, h5⟩ := hs.elided N hel hfr hlt
    refine ⟨hNn, b, T, cT, by rw [hout N (hNj N hNn)]; exact h1, h2, h3, by rw [hMn, hMn]; exact h4, h5⟩
  · intro N cN hN hcN hnN hel
    rw [hMel] at hel
    rw [hout N (hNj N ⟨cN, hcN, hnN⟩)]
    exact hs.routed N cN hN hcN hnN hel

/-! ### edges leaving a `no_op` row that has its router node -/

theorem tests_noop_eq (es : List OutEdge) : testsOf .noOp es = es.filter (fun e => !e.cond.blank) := by
  unfold testsOf
  have : (fun (e : OutEdge) => !(decide (Kind.noOp = Kind.wait) && isNR e.cond)) = fun _ => true := by
    funext e; simp
  rw [this, List.filter_true]

theorem tests_noop_append (es : List OutEdge) (e : OutEdge) (hb : e.cond.blank = false) :
    testsOf .noOp (es ++ [e]) = testsOf .noOp es ++ [e] :=
  testsOf_append_test .noOp es e hb (fun h => by cases h.1)

theorem tests_noop_blank (es : List OutEdge) (e : OutEdge) (hb : e.cond.blank = true) :
    testsOf .noOp (es ++ [e]) = testsOf .noOp es :=
  testsOf_append_skip _ _ _ (.inl hb)

theorem implVar_append' (es : List OutEdge) (e : OutEdge) (h : testsOf .noOp es ≠ []) :
    implVar (es ++ [e]) = implVar es := by
  unfold implVar
  rw [List.filter_append]
  rw [tests_noop_eq] at h
  cases hf : es.filter (fun e => !e.cond.blank) with
  | nil => exact absurd hf h
  | cons a l => rfl

theorem stored_test_noop (cond : Compile.Cond) :
    ((if cond.type.isEmpty = true then "has_any_word".toList else cond.type),
      (if RefFlow.noArgsTests.contains (if cond.type.isEmpty = true then "has_any_word".toList else cond.type) = true
        then ([] : List (Option Str)) else [some cond.value]).map (·.getD [])) = refTest .noOp (toRCond cond) := by
  unfold refTest
  rw [if_neg (show ¬ (Kind.noOp = Kind.splitGroup) by decide)]
  unfold RefFlow.condTest toRCond
  simp only
  generalize (if cond.type.isEmpty = true then "has_any_word".toList else cond.type) = ty
  cases RefFlow.noArgsTests.contains ty <;> rfl

theorem baseNames_noop (tmo : Nat) : baseNames .noOp tmo = ["Other".toList] := by
  unfold baseNames
  rw [if_neg (fun h => by cases h.1)]

theorem NopSim.allNames {M : Maps} {ns : Array NodeM} {n : NodeM} {c : CRow} {es : List OutEdge}
    {r : SwitchR} (hp : NopSim M ns n c es r) :
    r.allCats.map (·.name) = namesFrom .noOp (timeoutOf c.row) [] (testsOf .noOp es) ++ baseNames .noOp (timeoutOf c.row) := by
  unfold SwitchR.allCats
  rw [hp.noResp, baseNames_noop]
  simp [hp.names.1, hp.names.2]

theorem args_noop (cond : Compile.Cond) : ([some cond.value] : List (Option Str)) = argsOf .noOp (toRCond cond) := by
  unfold argsOf
  rw [if_neg (by decide)]; rfl

section
variable (rows : List CRow) (M : Maps) (pd : Bool) (kg : Nat) (d : Dest) (tgt : Target) (cond : Compile.Cond) (s : St) (st : P1) (j : Nat)
  (n : NodeM) (c : CRow)
variable (h : Rel rows M pd kg s st) (hj : j < kg) (hn : s.nodes[M.nOf j]? = some n) (hc : rows[j]? = some c)
  (hnode : isNodeRow c = true ∧ M.el j = false) (hro : M.rOf j = none) (hk : kindOf c.row.type = .noOp)
  (hd : DestIs M s.nodes d (some tgt))
  (htg : ∀ t, tgt = Target.row t → (t < kg ∨ (pd = true ∧ t = kg)) ∧ M.fr t = false)
include h hj hn hc hnode hro hk hd htg

/-- an unconditional edge leaving a `no_op` row with a router node: the default category -/
theorem nop_blank_sim (r : SwitchR) (hp : NopSim M s.nodes n c (outOf st j) r) (he : cond.blank = true) :
    wp (noopRouterExit (M.nOf j) d cond) s (EdgePost rows M pd kg tgt cond s st j) := by
  have hv : cond.value = [] := by
    unfold Compile.Cond.blank at he
    simp only [Bool.and_eq_true, List.isEmpty_iff] at he
    exact he.1.1.1
  unfold noopRouterExit
  rw [hv]
  simp only [List.isEmpty_nil, if_true]
  unfold updSwitch setDfltM
  wp_simp [wp_getNode, wp_setNode]
  intro n' hn'
  rw [hn] at hn'; injection hn' with hn'; subst hn'
  simp only [hp.router]
  wp_simp [wp_setNode]
  have heb : (newEdge tgt cond j).cond.blank = true := by simpa [toRCond_blank] using he
  refine Rel.update h (newEdge tgt cond j) rfl hj hn hc hnode hro (n' := { n with router := some (.sw (r.setDflt d)) })
    rfl htg (set_getElem?_self _ hn) (fun i hi => set_getElem?_other _ _ _ _ hi) rfl rfl rfl rfl ?_
  have hext : NExt s.nodes (s.nodes.setIfInBounds (M.nOf j) { n with router := some (.sw (r.setDflt d)) }) :=
    NExt.set hn rfl
  refine .nop (r.setDflt d) hk ⟨hp.kind, hp.acts, rfl, ?_, hp.rname, hp.wait, hp.noResp, ?_, hp.casecat, ?_, ?_,
    ⟨by rw [tests_noop_blank _ _ heb]; exact hp.names.1, hp.names.2⟩⟩
  · refine ⟨hp.operand.1, fun hne => ?_⟩
    rw [tests_noop_blank _ _ heb] at hne
    rw [implVar_append' _ _ hne]
    exact hp.operand.2 hne
  · rw [tests_noop_blank _ _ heb]; exact hp.cases
  · rw [tests_noop_blank _ _ heb]
    exact hp.catd.imp (fun _ _ hd => hd.ext hext)
  · rw [blanks_append_blank _ _ heb, getLast?_append_singleton]
    exact hd.ext hext

/-- a conditional edge leaving a `no_op` row with a router node: a new case and a new category -/
theorem nop_test_sim (r : SwitchR) (hp : NopSim M s.nodes n c (outOf st j) r) (he : cond.blank = false)
    (hval : cond.value ≠ []) (hvne : cond.var ≠ [])
    (hvar : cond.var = implVar (outOf st j ++ [newEdge tgt cond j]))
    (hfreeN : cond.name ≠ [] → cond.name ∉ namesFrom .noOp (timeoutOf c.row) [] (testsOf .noOp (outOf st j)) ++
      baseNames .noOp (timeoutOf c.row))
    (hdist : ((testsOf .noOp (outOf st j ++ [newEdge tgt cond j])).map (fun e => refTest .noOp e.cond)).Nodup) :
    wp (noopRouterExit (M.nOf j) d cond) s (EdgePost rows M pd kg tgt cond s st j) := by
  have heb : (newEdge tgt cond j).cond.blank = false := by simpa [toRCond_blank] using he
  have htests := tests_noop_append (outOf st j) (newEdge tgt cond j) heb
  rw [htests, List.map_append, List.nodup_append] at hdist
  unfold noopRouterExit
  have hvemp : cond.value.isEmpty = false := by
    cases hv : cond.value with
    | nil => exact absurd hv hval
    | cons _ _ => rfl
  simp only [hvemp, Bool.false_eq_true, if_false]
  unfold updSwitch
  wp_simp [wp_getNode]
  intro n' hn'
  rw [hn] at hn'; injection hn' with hn'; subst hn'
  simp only [hp.router]
  wp_simp [wp_setNode]
  have hstored0 := stored_test_noop cond
  generalize hty : (if cond.type.isEmpty = true then "has_any_word".toList else cond.type) = ty at hstored0 ⊢
  have hstored : (ty, (if s.noArgs.contains ty then [] else [some cond.value]).map (·.getD [])) =
      refTest .noOp (newEdge tgt cond j).cond := by
    rw [h.args]; exact hstored0
  refine addChoice_any r _ ty [some cond.value] cond.name d s ?_ ?_ _ ?_
  · intro k hkm ⟨e1, e2⟩
    have hmem : (k.type, k.args.map (·.getD [])) ∈ r.cases.map (fun k => (k.type, k.args.map (·.getD []))) :=
      List.mem_map_of_mem hkm
    rw [hp.cases] at hmem
    have : (k.type, k.args.map (·.getD [])) = refTest .noOp (newEdge tgt cond j).cond := by
      rw [← hstored, e1, e2]
    rw [this] at hmem
    exact hdist.2.2 _ hmem _ (by simp) rfl
  · intro hne
    refine catByName_none_of_not_mem r _ ?_
    rw [hp.allNames]; exact hfreeN hne
  · intro _
    wp_simp [wp_setNode]
    have hvemp2 : cond.var.isEmpty = false := by
      cases hv : cond.var with
      | nil => exact absurd hv hvne
      | cons _ _ => rfl
    simp only [hvemp2, Bool.false_eq_true, if_false]
    obtain ⟨nm, hnm⟩ : ∃ nm : Str, nm = if cond.name.isEmpty = true
        then genCatName { r with operand := cond.var } [some cond.value] else cond.name := ⟨_, rfl⟩
    rw [← hnm]
    have hnm2 : nm = catNameOf .noOp (timeoutOf c.row)
        (namesFrom .noOp (timeoutOf c.row) [] (testsOf .noOp (outOf st j))) (newEdge tgt cond j).cond := by
      rw [hnm]
      unfold catNameOf
      have e0 : (newEdge tgt cond j).cond.name = cond.name := rfl
      rw [e0, genCatName_eq, ← args_noop]
      have e1 : ({ r with operand := cond.var } : SwitchR).allCats = r.allCats := rfl
      rw [e1, hp.allNames]
    obtain ⟨r', hr'⟩ : ∃ r' : SwitchR, r' = { r with
        operand := cond.var,
        cats := r.cats ++ [Cat.mk (tid s.next) nm (tid (s.next + 1)) d],
        cases := r.cases ++ [Case.mk (tid (s.next + 2)) ty (if s.noArgs.contains ty = true then [] else [some cond.value]) (tid s.next)] } := ⟨_, rfl⟩
    have hr'' : ({ r with
        operand := cond.var,
        cats := r.cats ++ [{ uid := tid s.next, name := nm, exitUid := tid (s.next + 1), dest := d }],
        cases := r.cases ++ [{ uid := tid (s.next + 2), type := ty,
                               args := if s.noArgs.contains ty = true then [] else [some cond.value], catUid := tid s.next }] } : SwitchR) = r' := by
      rw [hr']
    rw [hr'']
    have hext : NExt s.nodes (s.nodes.setIfInBounds (M.nOf j) { n with router := some (.sw r') }) := NExt.set hn rfl
    refine Rel.update h (newEdge tgt cond j) rfl hj hn hc hnode hro (n' := { n with router := some (.sw r') })
      rfl htg (set_getElem?_self _ hn) (fun i hi => set_getElem?_other _ _ _ _ hi) rfl rfl rfl rfl ?_
    have fcats : r'.cats = r.cats ++ [{ uid := tid s.next, name := nm, exitUid := tid (s.next + 1), dest := d }] := by
      rw [hr']
    have fcases : r'.cases = r.cases ++ [{ uid := tid (s.next + 2), type := ty, args := if s.noArgs.contains ty = true then [] else [some cond.value], catUid := tid s.next }] := by
      rw [hr']
    have fop : r'.operand = cond.var := by rw [hr']
    have frn : r'.resultName = r.resultName := by rw [hr']
    have fw : r'.wait = r.wait := by rw [hr']
    have fnr : r'.noResp = r.noResp := by rw [hr']
    have fd : r'.dflt = r.dflt := by rw [hr']
    refine .nop r' hk ⟨hp.kind, hp.acts, rfl, ⟨by rw [fop]; exact hvne, fun _ => by rw [fop]; exact hvar⟩,
      by rw [frn]; exact hp.rname, by rw [fw]; exact hp.wait, by rw [fnr]; exact hp.noResp, ?_, ?_, ?_, ?_, ?_⟩
    · rw [htests, fcases]
      simp only [List.map_append, List.map_cons, List.map_nil, hp.cases]
      rw [hstored]
    · rw [fcases, fcats]; simp only [List.map_append, List.map_cons, List.map_nil, hp.casecat]
    · rw [htests, fcats]
      refine List.rel_append (hp.catd.imp (fun _ _ hd => hd.ext hext)) ?_
      refine List.Forall₂.cons ?_ List.Forall₂.nil
      exact hd.ext hext
    · rw [blanks_append_cond _ _ heb, fd]; exact hp.dflt.ext hext
    · constructor
      · rw [fcats, htests, namesFrom_append, List.map_append, hp.names.1]
        simp only [List.map_cons, List.map_nil, namesFrom]
        rw [hnm2]
      · rw [fd]; exact hp.names.2

end
/-! ### a `no_op` row is left for the first time -/

/-- the ghost map after the `no_op` row `N` has been left: its sources lead to arena node `x` -/
def unfreshM (M : Maps) (N x : Nat) : Maps :=
  { M with nOf := fun t => if t = N then x else M.nOf t, fr := fun t => if t = N then false else M.fr t }

theorem unfreshM_nOf (M : Maps) (N x t : Nat) (h : t ≠ N) : (unfreshM M N x).nOf t = M.nOf t := by
  simp [unfreshM, h]

theorem unfreshM_mext (M : Maps) (N x : Nat) (hN : M.fr N = true) : MExt M (unfreshM M N x) := by
  intro t ht
  have : t ≠ N := by intro e; rw [e, hN] at ht; cases ht
  exact ⟨by simp [unfreshM, this, ht], unfreshM_nOf M N x t this⟩

/-- only the ghost map changes -/
theorem Rel.unfresh {rows : List CRow} {M : Maps} {pd : Bool} {kg : Nat} {s : St} {st : P1}
    (h : Rel rows M pd kg s st) (N : Nat) (hN : M.fr N = true) (x : Nat) :
    Rel rows (unfreshM M N x) pd kg s st := by
  have hel : M.el N = true := (h.frel N hN).1
  have hne : ∀ j, M.el j = false → j ≠ N := by intro j hj e; rw [e, hel] at hj; cases hj
  have hnn : ∀ j c, rows[j]? = some c → isNoop c = false → j ≠ N := fun j c hc hn => hne j (h.elno j c hc hn)
  have hvc : ∀ j c, Valid rows (unfreshM M N x) pd kg j c → Valid rows M pd kg j c := fun _ _ hv => hv
  refine ⟨h.gsize, h.root, ?_, ?_, h.elno, ?_, ?_, h.stack, h.ids, h.idok, h.prev, h.srcok, h.tgtok, h.args, ?_, ?_, ?_,
    h.rnone, h.rnoop, h.rfresh, h.names.congr (fun i c _ hc _ hnn' => unfreshM_nOf M N x i (hnn i c hc hnn'))⟩
  · intro j c hj hc hn hnn'
    rw [unfreshM_nOf M N x j (hnn j c hc hnn')]
    exact h.grp j c hj hc hn hnn'
  · intro j c hj hc hnn'
    obtain ⟨ps, ro, e1, e2⟩ := h.grpN j c hj hc hnn'
    refine ⟨ps, ro, e1, fun hej => ?_⟩
    rw [unfreshM_nOf M N x j (hne j hej)]; exact e2 hej
  · intro j hj
    have : j ≠ N := by intro e; subst e; simp [unfreshM] at hj
    have hj' : M.fr j = true := by simpa [unfreshM, this] using hj
    exact h.frel j hj'
  · intro e he t ht
    have := h.tgtfr e he t ht
    by_cases htN : t = N
    · simp [unfreshM, htN]
    · simp [unfreshM, htN, this]
  · intro j c hv
    obtain ⟨n, hn, hsim⟩ := h.node j c hv
    refine ⟨n, by rw [unfreshM_nOf M N x j (hne j hv.2.2.2)]; exact hn, ?_⟩
    refine hsim.congrM ?_
    intro e he t ht
    have hmem : e ∈ st.out := by
      have := (List.mem_filter.mp he).1
      simpa using this
    have := h.tgtfr e hmem t ht
    exact unfreshM_nOf M N x t (by intro e'; rw [e', hN] at this; cases this)
  · intro j c j' c' hv hv' y hy hy'
    have e1 : idxs (unfreshM M N x) j = idxs M j := by
      simp only [idxs]; rw [unfreshM_nOf M N x j (hne j hv.2.2.2)]; rfl
    have e2 : idxs (unfreshM M N x) j' = idxs M j' := by
      simp only [idxs]; rw [unfreshM_nOf M N x j' (hne j' hv'.2.2.2)]; rfl
    rw [e1] at hy; rw [e2] at hy'
    exact h.disj j c j' c' hv hv' y hy hy'
  · intro j i' hi'
    have hi'' : M.rOf j = some i' := hi'
    by_cases hjN : j = N
    · -- a `no_op` row has no second node
      exfalso
      subst hjN
      obtain ⟨_, _, c, hc, hnc⟩ := h.frel j hN
      rw [h.rnoop j c hc hnc] at hi''; cases hi''
    · rw [unfreshM_nOf M N x j hjN]; exact h.rne j i' hi''

theorem newEdge_self (m : OutEdge) (N : Nat) (h : m.tgt = .row N) :
    newEdge (Target.row N) (fromRCond m.cond) m.src = m := by
  cases m with
  | mk src cond tgt =>
    simp only at h
    subst h
    rfl

/-- the remembered edges into a `no_op` row take effect, in the order they were remembered in -/
theorem parents_sim (rows : List CRow) (outF : List OutEdge) (g : Good rows outF) (pd : Bool) (kg : Nat) (d : Dest)
    (N : Nat) (hN : N < kg) (f : Nat) :
    ∀ (mine : List OutEdge) (M : Maps) (s : St) (st : P1),
      Rel rows M pd kg s st → DestIs M s.nodes d (some (.row N)) → M.fr N = false →
      (∀ m ∈ mine, m.tgt = .row N ∧ m ∈ outF ∧ m.src < kg ∧
        ∃ c, rows[m.src]? = some c ∧ isNodeRow c = true ∧ isNoop c = false) →
      (∀ j, outOf st j ++ mine.filter (·.src = j) <+: outF.filter (·.src = j)) →
      wp ((mine.map (fun pe => (gOf rows pe.src, fromRCond pe.cond))).forM
          (fun (p : Nat × Compile.Cond) => addExit (f + 1) p.1 d p.2)) s
        (fun _ s' => ∃ (M' : Maps) (st' : P1), (∀ t, M'.nOf t = M.nOf t) ∧ M'.el = M.el ∧ M'.fr = M.fr ∧
          Rel rows M' pd kg s' st' ∧ NExt s.nodes s'.nodes ∧ st'.ids = st.ids ∧ st'.prev = st.prev ∧
          (∀ j, outOf st' j = outOf st j ++ mine.filter (·.src = j)) ∧
          (∀ g0, (∀ m ∈ mine, g0 ≠ gOf rows m.src) → s'.groups[g0]? = s.groups[g0]?)) := by
  intro mine
  induction mine with
  | nil =>
    intro M s st h _ _ _ _
    rw [List.map_nil, wp_forM_nil]
    exact ⟨M, st, fun _ => rfl, rfl, rfl, h, NExt.refl _, rfl, rfl, fun j => by simp, fun _ _ => rfl⟩
  | cons m rest ih =>
    intro M s st h hd hfr hm hpre
    rw [List.map_cons, wp_forM_cons]
    obtain ⟨hmt, hmo, hmk, hmc⟩ := hm m (by simp)
    have hpre1 : outOf st m.src ++ [newEdge (Target.row N) (fromRCond m.cond) m.src] <+: outF.filter (·.src = m.src) := by
      rw [newEdge_self m N hmt]
      have := hpre m.src
      simp only [List.filter_cons, decide_true, if_true] at this
      refine List.IsPrefix.trans ?_ this
      exact ⟨rest.filter (·.src = m.src), by simp⟩
    have hstep := addExit_sim rows outF g M pd kg d (Target.row N) (fromRCond m.cond) s st m.src h hmk hmc hd
      (fun t ht => by injection ht with ht; subst ht; exact ⟨.inl hN, hfr⟩)
      (by rw [newEdge_self m N hmt]; exact hmo) hpre1 f
    refine wp_mono hstep ?_
    intro _ s1 ⟨M1, hM1, hM1el, hM1fr, r1, e1, hg1⟩
    rw [newEdge_self m N hmt] at r1
    have hpre2 : ∀ j, outOf { st with out := m :: st.out } j ++ rest.filter (·.src = j) <+: outF.filter (·.src = j) := by
      intro j
      have := hpre j
      rw [outOf_cons]
      by_cases hj : m.src = j
      · simp only [hj, if_true, List.filter_cons, decide_true] at this ⊢
        rw [List.append_assoc]; exact this
      · simp only [hj, if_false, List.filter_cons, decide_false, List.append_nil] at this ⊢
        exact this
    have := ih M1 s1 { st with out := m :: st.out } r1 ((hd.ext e1).congrN hM1) (by rw [hM1fr]; exact hfr)
      (fun m' hm' => hm m' (by simp [hm'])) hpre2
    refine wp_mono this ?_
    intro _ s2 ⟨M2, st2, hM2, hM2el, hM2fr, r2, e2, hi2, hp2, ho2, hg2⟩
    refine ⟨M2, st2, fun t => by rw [hM2, hM1], by rw [hM2el, hM1el], by rw [hM2fr, hM1fr], r2, e1.trans e2, hi2, hp2, ?_, ?_⟩
    · intro j
      rw [ho2 j, outOf_cons]
      by_cases hj : m.src = j
      · simp [hj]
      · simp [hj]
    · intro g0 hg0
      rw [hg2 g0 (fun m' hm' => hg0 m' (by simp [hm'])), hg1 g0 (hg0 m (by simp))]

/-- the schedule records an edge that leaves a row without a node of its own -/
theorem Rel.record {rows : List CRow} {M : Maps} {pd : Bool} {kg : Nat} {s : St} {st : P1}
    (h : Rel rows M pd kg s st) (new : OutEdge) (hsrc : new.src < kg)
    (hc : ∃ c, rows[new.src]? = some c ∧ isNodeRow c = true) (hel : M.el new.src = true)
    (htg : ∀ t, new.tgt = Target.row t → (t < kg ∨ (pd = true ∧ t = kg)) ∧ M.fr t = false) :
    Rel rows M pd kg s { st with out := new :: st.out } := by
  refine ⟨h.gsize, h.root, h.grp, h.grpN, h.elno, h.frel, ?_, h.stack, h.ids, h.idok, h.prev, ?_, ?_, h.args, ?_,
    h.disj, h.rne, h.rnone, h.rnoop, h.rfresh, h.names⟩
  · intro o ho t ht
    simp only [List.mem_cons] at ho
    rcases ho with rfl | ho
    · exact (htg t ht).2
    · exact h.tgtfr o ho t ht
  · intro o ho
    simp only [List.mem_cons] at ho
    rcases ho with rfl | ho
    · exact ⟨hsrc, hc⟩
    · exact h.srcok o ho
  · intro o ho t ht
    simp only [List.mem_cons] at ho
    rcases ho with rfl | ho
    · exact (htg t ht).1
    · exact h.tgtok o ho t ht
  · intro j c hv
    have hne : new.src ≠ j := by intro e; rw [e] at hel; rw [hv.2.2.2] at hel; cases hel
    rw [outOf_cons_other st new j hne]
    exact h.node j c hv

/-- the remembered edges of one source, when those into `N` are its oldest ones: all of them lead into
`N`, or none does -/
theorem pnd_split (pnd : List OutEdge) (N j : Nat)
    (hold : ∀ pe ∈ pnd, ∀ m ∈ pnd, m.tgt = .row N → m.src = pe.src → pe.tgt = .row N) :
    pnd.filter (·.src = j) =
      (pnd.filter (fun pe => decide (pe.tgt = .row N))).filter (·.src = j) ++
      (pnd.filter (fun pe => !decide (pe.tgt = .row N))).filter (·.src = j) ∧
    ((pnd.filter (fun pe => decide (pe.tgt = .row N))).filter (·.src = j) = [] ∨
     (pnd.filter (fun pe => !decide (pe.tgt = .row N))).filter (·.src = j) = []) := by
  by_cases hex : ∃ m ∈ pnd, m.tgt = .row N ∧ m.src = j
  · obtain ⟨m, hm, hmt, hms⟩ := hex
    have hall : ∀ pe ∈ pnd, pe.src = j → pe.tgt = .row N := fun pe hpe hsj => hold pe hpe m hm hmt (by rw [hms, hsj])
    have e2 : (pnd.filter (fun pe => !decide (pe.tgt = .row N))).filter (·.src = j) = [] := by
      rw [List.filter_eq_nil_iff]
      intro pe hpe hsj
      have := List.mem_filter.mp hpe
      have ht := hall pe this.1 (by simpa using hsj)
      simp [ht] at this
    have e1 : (pnd.filter (fun pe => decide (pe.tgt = .row N))).filter (·.src = j) = pnd.filter (·.src = j) := by
      rw [List.filter_filter]
      apply List.filter_congr
      intro pe hpe
      by_cases hsj : pe.src = j
      · simp [hsj, hall pe hpe hsj]
      · simp [hsj]
    exact ⟨by rw [e1, e2, List.append_nil], .inr e2⟩
  · have e1 : (pnd.filter (fun pe => decide (pe.tgt = .row N))).filter (·.src = j) = [] := by
      rw [List.filter_eq_nil_iff]
      intro pe hpe hsj
      have := List.mem_filter.mp hpe
      exact hex ⟨pe, this.1, by simpa using this.2, by simpa using hsj⟩
    have e2 : (pnd.filter (fun pe => !decide (pe.tgt = .row N))).filter (·.src = j) = pnd.filter (·.src = j) := by
      rw [List.filter_filter]
      apply List.filter_congr
      intro pe hpe
      by_cases hsj : pe.src = j
      · have : ¬ pe.tgt = .row N := fun ht => hex ⟨pe, hpe, ht, hsj⟩
        simp [hsj, this]
      · simp [hsj]
    exact ⟨by rw [e1, e2, List.nil_append], .inl e1⟩

theorem Sched.pnd_mem {rows : List CRow} {M : Maps} {kg : Nat} {s : St} {stT st : P1} {pnd : List OutEdge}
    (hs : Sched rows M kg s stT st pnd) : ∀ e ∈ pnd, e ∈ stT.out := by
  intro e he
  have : e ∈ outOf stT e.src := by
    rw [hs.split e.src, List.mem_append]
    exact .inr (List.mem_filter.mpr ⟨he, by simp⟩)
  have := (List.mem_filter.mp this).1
  simpa using this

/-- the schedule after the `no_op` row `N` has been left for the first time -/
theorem sched_leave {rows : List CRow} {M : Maps} {kg : Nat} {s : St} {stT st : P1} {pnd p' : List OutEdge}
    (hs : Sched rows M kg s stT st pnd) (N : Nat) (hNr : NoopRow rows N) (hfrN : M.fr N = true) (hN : N < kg)
    (new : OutEdge) (hnsrc : new.src = N) (htn : tgtNoop rows new.tgt = false)
    (hp' : schedStep rows pnd new = some p')
    (M2 : Maps) (s2 : St) (st3 : P1)
    (hM2n : ∀ t, t ≠ N → M2.nOf t = M.nOf t) (hM2el : ∀ t, t ≠ N → M2.el t = M.el t)
    (hM2fr : ∀ t, M2.fr t = (if t = N then false else M.fr t))
    (hids : st3.ids = st.ids) (hprev : st3.prev = st.prev)
    (hout : ∀ j, outOf st3 j = outOf st j ++ (pnd.filter (fun pe => decide (pe.tgt = .row N))).filter (·.src = j) ++
      (if N = j then [new] else []))
    (hgrp : ∀ N2, NoopRow rows N2 → N2 ≠ N → s2.groups[gOf rows N2]? = s.groups[gOf rows N2]?)
    (helN : M2.el N = true → ∃ T cT, new.cond.blank = true ∧ new.tgt = .row T ∧ M2.nOf N = M2.nOf T ∧
      rows[T]? = some cT ∧ isNodeRow cT = true ∧ isNoop cT = false)
    (hrtN : M2.el N = false → testsOf .noOp [new] ≠ [])
    (helg : M2.el N = true → ∃ ps, s2.groups[gOf rows N]? = some (.noop ps none)) :
    Sched rows M2 kg s2 { stT with out := new :: stT.out } st3 p' := by
  have hsn : noopAt rows new.src = true := by rw [hnsrc]; exact (noopAt_iff rows N).mpr hNr
  obtain ⟨hpeq, hold⟩ := schedStep_leave hsn htn hp'
  rw [hnsrc] at hpeq hold
  -- no remembered edge leaves a `no_op` row
  have hnosrc : ∀ N2, NoopRow rows N2 → pnd.filter (·.src = N2) = [] := by
    intro N2 hN2
    rw [List.filter_eq_nil_iff]
    intro pe hpe hsrc
    obtain ⟨_, c, hc, _, hnn⟩ := hs.psrc pe hpe
    obtain ⟨c2, hc2, hn2⟩ := hN2
    have : pe.src = N2 := by simpa using hsrc
    rw [this, hc2] at hc; injection hc with hc; subst hc
    rw [hn2] at hnn; cases hnn
  have houtT : ∀ j, outOf { stT with out := new :: stT.out } j = outOf stT j ++ (if N = j then [new] else []) := by
    intro j; rw [outOf_cons, hnsrc]
  have hfreshN := hs.fresh N hfrN
  refine ⟨by rw [hids]; exact hs.ids, by rw [hprev]; exact hs.prev, ?_, ?_, ?_, ?_, ?_, ?_, ?_, ?_⟩
  rotate_right
  · intro N2 hel2 hlt2 hN2
    by_cases hne : N2 = N
    · subst hne; exact helg hel2
    · rw [hM2el N2 hne] at hel2
      rw [hgrp N2 hN2 hne]
      exact hs.elgrp N2 hel2 hlt2 hN2
  · intro j
    rw [houtT, hout, hs.split j, hpeq]
    obtain ⟨e1, e2⟩ := pnd_split pnd N j hold
    by_cases hj : N = j
    · subst hj
      have := hnosrc N hNr
      rw [this] at e1
      have e1' := e1.symm
      rw [List.append_eq_nil_iff] at e1'
      rw [this, e1'.1, e1'.2]; simp
    · simp only [hj, if_false, List.append_nil]
      rw [e1, List.append_assoc]
  · rw [List.reverse_cons, foldlM_snoc, hs.fold]; exact hp'
  · intro e he
    rw [hpeq] at he
    have hm := List.mem_filter.mp he
    obtain ⟨N2, ht, hf2⟩ := hs.pend e hm.1
    refine ⟨N2, ht, ?_⟩
    have : N2 ≠ N := by intro e2; rw [ht, e2] at hm; simp at hm
    rw [hM2fr, if_neg this]; exact hf2
  · intro e he
    rw [hpeq] at he
    exact hs.psrc e (List.mem_filter.mp he).1
  · intro N2 hf2
    rw [hM2fr] at hf2
    have hne : N2 ≠ N := by intro e2; rw [if_pos e2] at hf2; cases hf2
    rw [if_neg hne] at hf2
    obtain ⟨hnr, ho, hg⟩ := hs.fresh N2 hf2
    refine ⟨hnr, ?_, ?_⟩
    · rw [houtT, if_neg (fun e => hne e.symm), List.append_nil]; exact ho
    · rw [hgrp N2 hnr hne, hg]
      congr 2
      unfold parentsOf
      rw [hpeq, List.filter_filter]
      congr 1
      apply List.filter_congr
      intro pe _
      by_cases ht : pe.tgt = .row N2
      · have : ¬ pe.tgt = .row N := by rw [ht]; intro e2; injection e2 with e2; exact hne e2
        simp [ht, this, hne]
      · simp [ht]
  · intro N2 hel2 hf2 hlt2
    by_cases hne : N2 = N
    · subst hne
      obtain ⟨T, cT, h1, h2, h3, h4⟩ := helN hel2
      refine ⟨hNr, new, T, cT, ?_, h1, h2, h3, h4⟩
      rw [houtT, if_pos rfl, hfreshN.2.1]; rfl
    · rw [hM2el N2 hne] at hel2
      rw [hM2fr, if_neg hne] at hf2
      obtain ⟨hnr2, b, T, cT, h1, h2, h3, h4, h5, h6, h7⟩ := hs.elided N2 hel2 hf2 hlt2
      refine ⟨hnr2, b, T, cT, ?_, h2, h3, ?_, h5, h6, h7⟩
      · rw [houtT, if_neg (fun e => hne e.symm), List.append_nil]; exact h1
      · have hTN : T ≠ N := by
          intro e2; subst e2
          obtain ⟨cN, hcN, hnN⟩ := hNr
          rw [hcN] at h5; injection h5 with h5; subst h5
          rw [hnN] at h7; cases h7
        rw [hM2n N2 hne, hM2n T hTN]; exact h4
  · intro N2 c2 hlt2 hc2 hn2 hel2
    by_cases hne : N2 = N
    · subst hne
      rw [houtT, if_pos rfl, hfreshN.2.1]
      exact hrtN hel2
    · rw [hM2el N2 hne] at hel2
      rw [houtT, if_neg (fun e => hne e.symm), List.append_nil]
      exact hs.routed N2 c2 hlt2 hc2 hn2 hel2

/-- the remembered edges into `N`, appended to the schedule, stay prefixes of the out-edges per source -/
theorem mine_prefix {rows : List CRow} {M : Maps} {kg : Nat} {s : St} {stT st : P1} {pnd : List OutEdge}
    (hs : Sched rows M kg s stT st pnd) (outF : List OutEdge) (new : OutEdge)
    (hTpre : (new :: stT.out).reverse <+: outF) (N : Nat)
    (hold : ∀ pe ∈ pnd, ∀ m ∈ pnd, m.tgt = .row N → m.src = pe.src → pe.tgt = .row N) (j : Nat) :
    outOf st j ++ (pnd.filter (fun pe => decide (pe.tgt = .row N))).filter (·.src = j) <+: outF.filter (·.src = j) := by
  have h1 : outOf stT j <+: outF.filter (·.src = j) := by
    have := hTpre.filter (·.src = j)
    rw [List.reverse_cons, List.filter_append] at this
    exact (List.prefix_append _ _).trans this
  refine List.IsPrefix.trans ?_ h1
  rw [hs.split j]
  obtain ⟨e1, _⟩ := pnd_split pnd N j hold
  rw [e1, ← List.append_assoc]
  exact List.prefix_append _ _

/-- a `no_op` row is left unconditionally (for the first and only time): the remembered edges into it
now lead to the target; the row itself gets no node -/
theorem noop_elide_sim (rows : List CRow) (outF : List OutEdge) (g : Good rows outF) (M : Maps) (pd : Bool) (kg : Nat)
    (d : Dest) (cond : Compile.Cond) (s : St) (stT st : P1) (pnd : List OutEdge) (N T : Nat) (cT : CRow)
    (h : Rel rows M pd kg s st) (hs : Sched rows M kg s stT st pnd)
    (hN : N < kg) (hNr : NoopRow rows N) (hfr : M.fr N = true)
    (hcT : rows[T]? = some cT) (hnT : isNodeRow cT = true) (hnnT : isNoop cT = false)
    (hd : DestIs M s.nodes d (some (.row T)))
    (htg : (T < kg ∨ (pd = true ∧ T = kg)) ∧ M.fr T = false)
    (he : cond.blank = true)
    (hTpre : (newEdge (.row T) cond N :: stT.out).reverse <+: outF)
    (hF : ∃ p', (newEdge (.row T) cond N :: stT.out).reverse.foldlM (schedStep rows) [] = some p') (f : Nat) :
    wp (addExit (f + 2) (gOf rows N) d cond) s
      (NPost rows M pd kg s { stT with out := newEdge (.row T) cond N :: stT.out }) := by
  obtain ⟨p', hp'⟩ := hF
  rw [List.reverse_cons, foldlM_snoc, hs.fold] at hp'
  simp only [Option.bind_some] at hp'
  have hsn : noopAt rows (newEdge (.row T) cond N).src = true := (noopAt_iff rows N).mpr hNr
  have htn : tgtNoop rows (newEdge (Target.row T) cond N).tgt = false := by
    show noopAt rows T = false
    unfold noopAt; rw [hcT]; exact hnnT
  obtain ⟨hpeq, hold⟩ := schedStep_leave hsn htn hp'
  have hold' : ∀ pe ∈ pnd, ∀ m ∈ pnd, m.tgt = .row N → m.src = pe.src → pe.tgt = .row N := hold
  obtain ⟨_, hoN, hgN⟩ := hs.fresh N hfr
  have hTN : T ≠ N := by
    intro e; subst e
    obtain ⟨cN, hcN, hnN⟩ := hNr
    rw [hcN] at hcT; injection hcT with hcT; subst hcT
    rw [hnN] at hnnT; cases hnnT
  -- the ghost map: the sources of `N` lead where `T`'s node is
  have r1 := h.unfresh N hfr (M.nOf T)
  obtain ⟨M1, hM1⟩ : ∃ M1, M1 = unfreshM M N (M.nOf T) := ⟨_, rfl⟩
  rw [← hM1] at r1
  have hM1N : M1.nOf N = M.nOf T := by rw [hM1]; simp [unfreshM]
  have hM1o : ∀ t, t ≠ N → M1.nOf t = M.nOf t := fun t ht => by rw [hM1]; exact unfreshM_nOf M N _ t ht
  have hM1el : M1.el = M.el := by rw [hM1]; rfl
  have hM1fr : ∀ t, M1.fr t = if t = N then false else M.fr t := by intro t; rw [hM1]; rfl
  have hd1 : DestIs M1 s.nodes d (some (.row N)) := by
    obtain ⟨m, hm, e⟩ := hd
    exact ⟨m, by rw [hM1N]; exact hm, e⟩
  -- the compiler
  unfold addExit
  wp_simp [wp_getGrp]
  intro grp hgrp
  rw [hgN] at hgrp; injection hgrp with hgrp; subst hgrp
  simp only [he, if_true]
  have hfun : (fun (x : Nat × Compile.Cond) => match x with | (p, pc) => addExit (f + 1) p d pc) =
      (fun (p : Nat × Compile.Cond) => addExit (f + 1) p.1 d p.2) := by
    funext x; cases x; rfl
  rw [hfun]
  unfold parentsOf
  have hmine : ∀ m ∈ pnd.filter (fun pe => decide (pe.tgt = .row N)), m.tgt = .row N ∧ m ∈ outF ∧ m.src < kg ∧
      ∃ c, rows[m.src]? = some c ∧ isNodeRow c = true ∧ isNoop c = false := by
    intro m hm
    have hm' := List.mem_filter.mp hm
    refine ⟨by simpa using hm'.2, ?_, hs.psrc m hm'.1⟩
    exact hTpre.subset (by
      rw [List.reverse_cons, List.mem_append]
      exact .inl (by simpa using hs.pnd_mem m hm'.1))
  refine wp_mono (parents_sim rows outF g pd kg d N hN f _ M1 s st r1 hd1 (by rw [hM1fr]; simp) hmine
    (fun j => mine_prefix hs outF _ hTpre N hold' j)) ?_
  intro _ s2 ⟨M2, st2, hM2, hM2el, hM2fr, r2, e2, hi2, hp2, ho2, hg2⟩
  -- the schedule records the leaving edge
  have hM2frT : M2.fr T = false := by rw [hM2fr, hM1fr, if_neg hTN]; exact htg.2
  have r3 := r2.record (newEdge (.row T) cond N) hN
    (by obtain ⟨cN, hcN, hnN⟩ := hNr; exact ⟨cN, hcN, isNodeRow_of_noop hnN⟩)
    (by show M2.el N = true; rw [hM2el, hM1el]; exact (h.frel N hfr).1)
    (fun t ht => by injection ht with ht; subst ht; exact ⟨htg.1, hM2frT⟩)
  refine ⟨M2, _, p', ?_, r3, ?_, e2⟩
  · intro t ht
    have htN : t ≠ N := by intro e; rw [e, hfr] at ht; cases ht
    exact ⟨by rw [hM2fr, hM1fr, if_neg htN]; exact ht, by rw [hM2, hM1o t htN]⟩
  · refine sched_leave hs N hNr hfr hN (newEdge (.row T) cond N) rfl htn hp' M2 s2 _
      (fun t ht => by rw [hM2, hM1o t ht]) (fun t _ => by rw [hM2el, hM1el]) (fun t => by rw [hM2fr, hM1fr])
      hi2 hp2 ?_ ?_ ?_ ?_ ?_
    · intro j
      rw [outOf_cons, ho2 j]
    · intro N2 hN2 hne
      apply hg2
      intro m hm
      obtain ⟨_, _, _, c, hc, hn, hnn⟩ := hmine m hm
      obtain ⟨c2, hc2, hn2⟩ := hN2
      intro e
      have := gOf_inj rows hc2 hc (isNodeRow_of_noop hn2) hn e
      subst this
      rw [hc2] at hc; injection hc with hc; subst hc
      rw [hn2] at hnn; cases hnn
    · intro _
      exact ⟨T, cT, by simpa [toRCond_blank] using he, rfl, by rw [hM2, hM2, hM1N, hM1o T hTN], hcT, hnT, hnnT⟩
    · intro hel
      rw [hM2el, hM1el, (h.frel N hfr).1] at hel; cases hel
    · intro _
      refine ⟨parentsOf rows pnd N, ?_⟩
      rw [hg2]
      · exact hgN
      · intro m hm
        obtain ⟨_, _, _, c, hc, hn, hnn⟩ := hmine m hm
        obtain ⟨c2, hc2, hn2⟩ := hNr
        intro e
        have := gOf_inj rows hc2 hc (isNodeRow_of_noop hn2) hn e
        subst this
        rw [hc2] at hc; injection hc with hc; subst hc
        rw [hn2] at hnn; cases hnn

/-! ### a `no_op` row gets its router node -/

/-- the ghost map after the `no_op` row `N` got its router node at arena index `x` -/
def routeM (M : Maps) (N x : Nat) : Maps :=
  { M with nOf := fun t => if t = N then x else M.nOf t, el := fun t => if t = N then false else M.el t,
           fr := fun t => if t = N then false else M.fr t }

theorem routeM_nOf (M : Maps) (N x t : Nat) (h : t ≠ N) : (routeM M N x).nOf t = M.nOf t := by simp [routeM, h]
theorem routeM_el (M : Maps) (N x t : Nat) (h : t ≠ N) : (routeM M N x).el t = M.el t := by simp [routeM, h]
theorem routeM_fr (M : Maps) (N x t : Nat) : (routeM M N x).fr t = if t = N then false else M.fr t := rfl

/-- the router node of the `no_op` row `N` is pushed on the arena and entered in the row's group -/
theorem Rel.route {rows : List CRow} {M : Maps} {pd : Bool} {kg : Nat} {s : St} {st : P1}
    (h : Rel rows M pd kg s st) (N : Nat) (cN : CRow) (hcN : rows[N]? = some cN) (hnN : isNoop cN = true)
    (hfr : M.fr N = true) (hN : N < kg) (hout : outOf st N = [])
    (n : NodeM) (hnrnd : ∀ r, n.router ≠ some (RouterM.rnd r)) (hnsim : ∀ M ns post, NodeSim M ns n cN post [])
    (ps : List (Nat × Compile.Cond)) (nx : Nat) (hnx : s.next ≤ nx) :
    Rel rows (routeM M N s.nodes.size) pd kg
      { s with nodes := s.nodes.push n,
               groups := s.groups.setIfInBounds (gOf rows N) (.noop ps (some s.nodes.size)), next := nx } st := by
  obtain ⟨M', hM'⟩ : ∃ M', M' = routeM M N s.nodes.size := ⟨_, rfl⟩
  rw [← hM']
  have hMN : M'.nOf N = s.nodes.size := by rw [hM']; simp [routeM]
  have hMo : ∀ t, t ≠ N → M'.nOf t = M.nOf t := fun t ht => by rw [hM']; exact routeM_nOf M N _ t ht
  have hMelN : M'.el N = false := by rw [hM']; simp [routeM]
  have hMelo : ∀ t, t ≠ N → M'.el t = M.el t := fun t ht => by rw [hM']; exact routeM_el M N _ t ht
  have hMfr : ∀ t, M'.fr t = if t = N then false else M.fr t := by intro t; rw [hM']; rfl
  have hMr : M'.rOf = M.rOf := by rw [hM']; rfl
  have helN : M.el N = true := (h.frel N hfr).1
  have hnodeN : isNodeRow cN = true := isNodeRow_of_noop hnN
  have hposN := gOf_pos rows N
  have hgne : ∀ j c, rows[j]? = some c → isNodeRow c = true → j ≠ N → gOf rows N ≠ gOf rows j :=
    fun j c hc hn hne e => hne (gOf_inj rows hcN hc hnodeN hn e).symm
  have hvalid : ∀ j c', Valid rows M' pd kg j c' → j ≠ N → Valid rows M pd kg j c' :=
    fun j c' hv hne => ⟨hv.1, hv.2.1, hv.2.2.1, by rw [← hMelo j hne]; exact hv.2.2.2⟩
  have htgN : ∀ e ∈ st.out, ∀ t, e.tgt = Target.row t → t ≠ N := by
    intro e he t ht e2
    have := h.tgtfr e he t ht
    rw [e2, hfr] at this; cases this
  have hmemout : ∀ j, ∀ e ∈ outOf st j, e ∈ st.out := by
    intro j e he
    have := (List.mem_filter.mp he).1
    simpa using this
  have hrN : M'.rOf N = none := by rw [hMr]; exact h.rnoop N cN hcN hnN
  have hidx : ∀ j0, M'.el j0 = false → idxs M' j0 = if j0 = N then [s.nodes.size] else idxs M j0 := by
    intro j0 _
    by_cases hjj : j0 = N
    · subst hjj; simp [idxs, hMN, hrN]
    · simp [idxs, hMo j0 hjj, hMr, hjj]
  refine ⟨by simpa using h.gsize, ?_, ?_, ?_, ?_, ?_, ?_, h.stack, h.ids, h.idok, h.prev, h.srcok, h.tgtok, h.args, ?_, ?_,
    ?_, by rw [hMr]; exact h.rnone, by rw [hMr]; exact h.rnoop, ?_,
    h.names.congr (fun i c _ hc _ hnn' => hMo i (by
      intro e; subst e; rw [hcN] at hc; injection hc with hc; subst hc; rw [hnN] at hnn'; cases hnn'))⟩
  · simp only [Array.getElem?_setIfInBounds]
    rw [if_neg (by omega)]; exact h.root
  · intro j c hj hc hn hnn
    have hjN : j ≠ N := by
      intro e; subst e; rw [hcN] at hc; injection hc with hc; subst hc; rw [hnN] at hnn; cases hnn
    simp only [Array.getElem?_setIfInBounds]
    rw [if_neg (hgne j c hc hn hjN), hMo j hjN, hMr]
    exact h.grp j c hj hc hn hnn
  · intro j c hj hc hnn
    simp only [Array.getElem?_setIfInBounds]
    by_cases hjN : j = N
    · subst hjN
      have hlt : gOf rows j < s.groups.size := by
        have := h.gsize
        have := gOf_lt rows hN hcN hnodeN
        omega
      refine ⟨ps, some s.nodes.size, by simp [hlt], fun _ => by rw [hMN]⟩
    · rw [if_neg (hgne j c hc (isNodeRow_of_noop hnn) hjN), hMelo j hjN, hMo j hjN]
      exact h.grpN j c hj hc hnn
  · intro j c hc hnn
    have hjN : j ≠ N := by
      intro e; subst e; rw [hcN] at hc; injection hc with hc; subst hc; rw [hnN] at hnn; cases hnn
    rw [hMelo j hjN]; exact h.elno j c hc hnn
  · intro j hj
    rw [hMfr] at hj
    have hjN : j ≠ N := by intro e; rw [if_pos e] at hj; cases hj
    rw [if_neg hjN] at hj
    rw [hMelo j hjN]; exact h.frel j hj
  · intro e he t ht
    rw [hMfr, if_neg (htgN e he t ht)]
    exact h.tgtfr e he t ht
  · intro j c' hv
    by_cases hjN : j = N
    · subst hjN
      have : c' = cN := by have := hv.2.1; rw [hcN] at this; injection this with this; exact this.symm
      subst this
      refine ⟨n, by rw [hMN]; simp, ?_⟩
      rw [hout, hrN]
      exact .one (hnsim _ _ _)
    · obtain ⟨n', hn', hp'⟩ := h.node j c' (hvalid j c' hv hjN)
      refine ⟨n', by rw [hMo j hjN]; exact getElem?_push_of_some n hn', ?_⟩
      rw [hMr]
      refine (hp'.transfer (NExt.push _ _) ?_).congrM
        (fun e he t ht => hMo t (htgN e (hmemout j e he) t ht))
      intro i hi
      have := h.idx_lt j c' (hvalid j c' hv hjN) i (by simp only [idxs, List.mem_cons]; exact .inr hi)
      simp [Array.getElem?_push, Nat.ne_of_lt this]
  · intro j1 c1 j2 c2 hv1 hv2 x hx1 hx2
    rw [hidx j1 hv1.2.2.2] at hx1; rw [hidx j2 hv2.2.2.2] at hx2
    by_cases h1 : j1 = N
    · by_cases h2 : j2 = N
      · rw [h1, h2]
      · exfalso
        rw [if_pos h1] at hx1; rw [if_neg h2] at hx2
        have := h.idx_lt j2 c2 (hvalid j2 c2 hv2 h2) x hx2
        simp only [List.mem_singleton] at hx1
        omega
    · by_cases h2 : j2 = N
      · exfalso
        rw [if_neg h1] at hx1; rw [if_pos h2] at hx2
        have := h.idx_lt j1 c1 (hvalid j1 c1 hv1 h1) x hx1
        simp only [List.mem_singleton] at hx2
        omega
      · rw [if_neg h1] at hx1; rw [if_neg h2] at hx2
        exact h.disj j1 c1 j2 c2 (hvalid j1 c1 hv1 h1) (hvalid j2 c2 hv2 h2) x hx1 hx2
  · intro j1 i' hi'
    rw [hMr] at hi'
    have hjN : j1 ≠ N := by
      intro e; rw [e, h.rnoop N cN hcN hnN] at hi'; cases hi'
    rw [hMo j1 hjN]; exact h.rne j1 i' hi'
  · intro i m r hm hr cat hcat
    simp only [Array.getElem?_push] at hm
    split at hm
    · injection hm with hm; subst hm
      exact absurd hr (hnrnd r)
    · obtain ⟨k0, hk0, e⟩ := h.rfresh i m r hm hr cat hcat
      exact ⟨k0, by show k0 < nx; omega, e⟩

/-- the node of a `no_op` row with a router node is described by `NopSim` -/
theorem NodeSim.nop_of_kind {M : Maps} {ns : Array NodeM} {n : NodeM} {c : CRow} {post : List Str} {es : List OutEdge}
    (hk : kindOf c.row.type = .noOp) (hs : NodeSim M ns n c post es) : ∃ r, NopSim M ns n c es r := by
  cases hs with
  | plain hk' _ => rw [hk] at hk'; cases hk'
  | sw r hk' _ => rcases hk' with h | h | h <;> rw [hk] at h <;> cases h
  | fix r sc hk' _ => rcases hk' with h | h | h <;> rw [hk] at h <;> cases h
  | rnd r hk' _ => rw [hk] at hk'; cases hk'
  | nop r _ hp => exact ⟨r, hp⟩

theorem kind_of_noop {c : CRow} (h : isNoop c = true) : kindOf c.row.type = .noOp := by
  unfold isNoop at h
  rw [of_decide_eq_true h]; exact kindOf_noop

/-- a `no_op` row is left conditionally for the first time: its router node is created, the remembered
edges into the row now lead to it, and it gets its first case -/
theorem noop_route_sim (rows : List CRow) (outF : List OutEdge) (g : Good rows outF) (M : Maps) (pd : Bool) (kg : Nat)
    (d : Dest) (tgt : Target) (cond : Compile.Cond) (s : St) (stT st : P1) (pnd : List OutEdge) (N : Nat)
    (h : Rel rows M pd kg s st) (hs : Sched rows M kg s stT st pnd)
    (hN : N < kg) (hNr : NoopRow rows N) (hfr : M.fr N = true)
    (hd : DestIs M s.nodes d (some tgt))
    (htg : ∀ t, tgt = Target.row t → (t < kg ∨ (pd = true ∧ t = kg)) ∧ M.fr t = false)
    (htn : tgtNoop rows tgt = false)
    (he : cond.blank = false)
    (hTpre : (newEdge tgt cond N :: stT.out).reverse <+: outF)
    (hF : ∃ p', (newEdge tgt cond N :: stT.out).reverse.foldlM (schedStep rows) [] = some p') (f : Nat) :
    wp (addExit (f + 2) (gOf rows N) d cond) s
      (NPost rows M pd kg s { stT with out := newEdge tgt cond N :: stT.out }) := by
  obtain ⟨p', hp'⟩ := hF
  rw [List.reverse_cons, foldlM_snoc, hs.fold] at hp'
  simp only [Option.bind_some] at hp'
  have hsn : noopAt rows (newEdge tgt cond N).src = true := (noopAt_iff rows N).mpr hNr
  obtain ⟨hpeq, hold⟩ := schedStep_leave hsn htn hp'
  have hold' : ∀ pe ∈ pnd, ∀ m ∈ pnd, m.tgt = .row N → m.src = pe.src → pe.tgt = .row N := hold
  obtain ⟨_, hoN, hgN⟩ := hs.fresh N hfr
  obtain ⟨cN, hcN, hnN⟩ := hNr
  have hkN := kind_of_noop hnN
  -- what the single-meaning conditions say about the edge
  have hmem : newEdge tgt cond N ∈ outF := hTpre.subset (by simp)
  have hok := g.ok _ hmem
  have hok2 : (cond.blank || (!cond.var.isEmpty && !cond.value.isEmpty)) = true := by
    simp only [edgeOk, hcN, Option.map_some, hkN] at hok
    exact hok
  rw [he, Bool.false_or, Bool.and_eq_true] at hok2
  have hvne : cond.var ≠ [] := by
    intro e; have := hok2.1; rw [e] at this; simp at this
  have hval : cond.value ≠ [] := by
    intro e; have := hok2.2; rw [e] at this; simp at this
  have hstN : outOf st N = [] := by
    have := hs.split N; rw [hoN] at this
    exact (List.append_eq_nil_iff.mp this.symm).1
  -- the compiler: the router node
  unfold addExit
  wp_simp [wp_getGrp]
  intro grp hgrp
  rw [hgN] at hgrp; injection hgrp with hgrp; subst hgrp
  simp only [he, Bool.false_eq_true, if_false]
  have hvemp : cond.var.isEmpty = false := by
    cases hv : cond.var with
    | nil => exact absurd hv hvne
    | cons _ _ => rfl
  simp only [hvemp, Bool.false_eq_true, if_false]
  wp_simp [wp_fresh', wp_newSwitch, wp_newRouterNode]
  unfold attachNoopRouter
  wp_simp [wp_addNode, wp_setGrp]
  -- the arena with the router node
  obtain ⟨sw0, hsw0⟩ : ∃ sw0 : SwitchR, sw0 = SwitchR.mk cond.var [] []
      (Cat.mk (tid (s.next + 1)) "Other".toList (tid (s.next + 1 + 1)) .none) none none none := ⟨_, rfl⟩
  obtain ⟨rn, hrn⟩ : ∃ rn : NodeM, rn = NodeM.mk (tid s.next) .switch [] (some (.sw sw0))
      (tid (s.next + 1 + 2)) .none := ⟨_, rfl⟩
  have hnsim : ∀ M ns post, NodeSim M ns rn cN post [] := by
    intro M0 ns post
    refine .nop sw0 hkN ⟨by rw [hrn], by rw [hrn], by rw [hrn], ⟨by rw [hsw0]; exact hvne, fun hh => absurd rfl hh⟩,
      by rw [hsw0], by rw [hsw0], by rw [hsw0], by rw [hsw0]; rfl, by rw [hsw0]; rfl, by rw [hsw0]; exact List.Forall₂.nil,
      by rw [hsw0]; rfl, ⟨by rw [hsw0]; rfl, by rw [hsw0]⟩⟩
  have r1 := h.route N cN hcN hnN hfr hN hstN rn (by intro r hr; rw [hrn] at hr; cases hr) hnsim
    (parentsOf rows pnd N) (s.next + 1 + 2 + 1) (by omega)
  obtain ⟨M1, hM1⟩ : ∃ M1, M1 = routeM M N s.nodes.size := ⟨_, rfl⟩
  rw [← hM1] at r1
  have hM1N : M1.nOf N = s.nodes.size := by rw [hM1]; simp [routeM]
  have hd1 : DestIs M1 (s.nodes.push rn) (Dest.node (tid s.next)) (some (.row N)) :=
    ⟨rn, by rw [hM1N]; simp, by rw [hrn]⟩
  rw [hrn, hsw0] at r1 hd1
  have hM1o : ∀ t, t ≠ N → M1.nOf t = M.nOf t := fun t ht => by rw [hM1]; exact routeM_nOf M N _ t ht
  have hM1elN : M1.el N = false := by rw [hM1]; simp [routeM]
  have hM1elo : ∀ t, t ≠ N → M1.el t = M.el t := fun t ht => by rw [hM1]; exact routeM_el M N _ t ht
  have hM1fr : ∀ t, M1.fr t = if t = N then false else M.fr t := by intro t; rw [hM1]; rfl
  -- the remembered edges now lead to the router node
  have hfun : (fun (x : Nat × Compile.Cond) => match x with | (p, pc) => addExit (f + 1) p (Dest.node (tid s.next)) pc) =
      (fun (p : Nat × Compile.Cond) => addExit (f + 1) p.1 (Dest.node (tid s.next)) p.2) := by
    funext x; cases x; rfl
  rw [hfun]
  have hmine : ∀ m ∈ pnd.filter (fun pe => decide (pe.tgt = .row N)), m.tgt = .row N ∧ m ∈ outF ∧ m.src < kg ∧
      ∃ c, rows[m.src]? = some c ∧ isNodeRow c = true ∧ isNoop c = false := by
    intro m hm
    have hm' := List.mem_filter.mp hm
    refine ⟨by simpa using hm'.2, ?_, hs.psrc m hm'.1⟩
    exact hTpre.subset (by
      rw [List.reverse_cons, List.mem_append]
      exact .inl (by simpa using hs.pnd_mem m hm'.1))
  refine wp_mono (parents_sim rows outF g pd kg (Dest.node (tid s.next)) N hN f _ M1 _ st r1
    hd1 (by rw [hM1fr]; simp) hmine
    (fun j => mine_prefix hs outF _ hTpre N hold' j)) ?_
  intro _ s2 ⟨M2, st2, hM2, hM2el, hM2fr, r2, e2, hi2, hp2, ho2, hg2⟩
  -- the first case of the router
  have hvN : Valid rows M2 pd kg N cN := ⟨.inl hN, hcN, isNodeRow_of_noop hnN, by rw [hM2el]; exact hM1elN⟩
  obtain ⟨n2, hn2, hsim2⟩ := r2.node N cN hvN
  have hroN : M2.rOf N = none := r2.rnoop N cN hcN hnN
  have ho2N : outOf st2 N = [] := by
    rw [ho2 N, hstN]
    have := hs.psrc
    rw [List.nil_append, List.filter_eq_nil_iff]
    intro pe hpe hsrc
    obtain ⟨_, c, hc, _, hnn⟩ := hs.psrc pe (List.mem_filter.mp hpe).1
    have : pe.src = N := by simpa using hsrc
    rw [this, hcN] at hc; injection hc with hc; subst hc
    rw [hnN] at hnn; cases hnn
  rw [hroN, ho2N] at hsim2
  generalize hro0 : (none : Option Nat) = ro0 at hsim2
  cases hsim2 with
  | impl _ _ _ _ _ => cases hro0
  | one hsim2 =>
  obtain ⟨r, hp⟩ := hsim2.nop_of_kind hkN
  have hext12 : NExt s.nodes s2.nodes := (NExt.push s.nodes _).trans e2
  have htN : ∀ t, tgt = Target.row t → t ≠ N := by
    intro t ht e; have := (htg t ht).2; rw [e, hfr] at this; cases this
  have hd2 : DestIs M2 s2.nodes d (some tgt) := by
    refine (hd.ext hext12).congrM ?_
    intro k hk
    injection hk with hk
    rw [hM2, hM1o k (htN k hk)]
  have htg2 : ∀ t, tgt = Target.row t → (t < kg ∨ (pd = true ∧ t = kg)) ∧ M2.fr t = false := by
    intro t ht
    exact ⟨(htg t ht).1, by rw [hM2fr, hM1fr, if_neg (htN t ht)]; exact (htg t ht).2⟩
  have hpreN : outOf st2 N ++ [newEdge tgt cond N] <+: outF.filter (·.src = N) := by
    have := hTpre.filter (·.src = N)
    have e1 : (newEdge tgt cond N :: stT.out).reverse.filter (·.src = N) = outOf stT N ++ [newEdge tgt cond N] := by
      simp [outOf, List.filter_append]
    rw [e1, hoN] at this
    rw [ho2N]; exact this
  have heb : (newEdge tgt cond N).cond.blank = false := by simpa [toRCond_blank] using he
  have hdist := g.nodup_prefix N hpreN cN hcN (.inr (.inr hkN))
  rw [hkN] at hdist
  have hfreeN := g.fresh_prefix N cN hcN (.inr (.inr hkN)) (outOf st2 N) (newEdge tgt cond N) hpreN
    (by rw [hkN]; exact tests_noop_append _ _ heb)
  rw [hkN] at hfreeN
  have hvar : cond.var = implVar (outOf st2 N ++ [newEdge tgt cond N]) := by
    rw [ho2N]
    unfold implVar
    simp only [List.nil_append, List.filter_cons, heb, Bool.not_false, if_true, List.filter_nil, List.head?_cons,
      Option.map_some, Option.getD_some]
    rfl
  have hM2N : M2.nOf N = s.nodes.size := by rw [hM2, hM1N]
  have key := nop_test_sim rows M2 pd kg d tgt cond s2 st2 N n2 cN r2 hN hn2 hcN
    ⟨isNodeRow_of_noop hnN, by rw [hM2el]; exact hM1elN⟩ hroN hkN hd2 htg2 r (by rw [ho2N]; exact hp) he hval hvne hvar
    hfreeN hdist
  rw [hM2N] at key
  refine wp_mono key ?_
  intro _ s3 ⟨r3, e3, hg3⟩
  refine ⟨M2, _, p', ?_, r3, ?_, hext12.trans e3⟩
  · intro t ht
    have htN' : t ≠ N := by intro e; rw [e, hfr] at ht; cases ht
    exact ⟨by rw [hM2fr, hM1fr, if_neg htN']; exact ht, by rw [hM2, hM1o t htN']⟩
  · refine sched_leave hs N ⟨cN, hcN, hnN⟩ hfr hN (newEdge tgt cond N) rfl htn hp' M2 s3 _
      (fun t ht => by rw [hM2, hM1o t ht]) (fun t ht => by rw [hM2el, hM1elo t ht]) (fun t => by rw [hM2fr, hM1fr])
      hi2 hp2 ?_ ?_ ?_ ?_ (fun hel => by rw [hM2el, hM1elN] at hel; cases hel)
    · intro j
      rw [outOf_cons, ho2 j]
    · intro N2 hN2 hne
      rw [hg3, hg2]
      · simp only [Array.getElem?_setIfInBounds]
        obtain ⟨c2, hc2, hn2'⟩ := hN2
        rw [if_neg (fun e => hne (gOf_inj rows hcN hc2 (isNodeRow_of_noop hnN) (isNodeRow_of_noop hn2') e).symm)]
      · intro m hm
        obtain ⟨_, _, _, c, hc, hn, hnn⟩ := hmine m hm
        obtain ⟨c2, hc2, hn2'⟩ := hN2
        intro e
        have := gOf_inj rows hc2 hc (isNodeRow_of_noop hn2') hn e
        subst this
        rw [hc2] at hc; injection hc with hc; subst hc
        rw [hn2'] at hnn; cases hnn
    · intro hel
      rw [hM2el, hM1elN] at hel; cases hel
    · intro _
      rw [tests_noop_eq]
      simp [heb]

/-! ### a `no_op` row that has been left before -/

/-- an edge leaves a row whose earlier out-edges have all taken effect: both states record it -/
theorem sched_append {rows : List CRow} {M M' : Maps} {kg : Nat} {s s' : St} {stT st : P1} {pnd : List OutEdge}
    (hs : Sched rows M kg s stT st pnd) (new : OutEdge)
    (hp' : schedStep rows pnd new = some pnd) (hnop : pnd.filter (·.src = new.src) = [])
    (hMn : ∀ t, M'.nOf t = M.nOf t) (hMel : M'.el = M.el) (hMfr : M'.fr = M.fr)
    (hfe : ∀ N, M.fr N = true → M.el N = true)
    (hfrs : M.fr new.src = false) (hels : M.el new.src = true → False)
    (hgrp : ∀ N, NoopRow rows N → M.el N = true → s'.groups[gOf rows N]? = s.groups[gOf rows N]?)
    (hrt : ∀ c, rows[new.src]? = some c → isNoop c = true → testsOf .noOp (outOf stT new.src ++ [new]) ≠ []) :
    Sched rows M' kg s' { stT with out := new :: stT.out } { st with out := new :: st.out } pnd := by
  have hout : ∀ N, N ≠ new.src → outOf { stT with out := new :: stT.out } N = outOf stT N := by
    intro N hN
    rw [outOf_cons, if_neg (fun e => hN e.symm), List.append_nil]
  refine ⟨hs.ids, hs.prev, ?_, ?_, by rw [hMfr]; exact hs.pend, hs.psrc, ?_, ?_, ?_, ?_⟩
  rotate_right
  · intro N hel hlt hNn
    rw [hMel] at hel
    rw [hgrp N hNn hel]; exact hs.elgrp N hel hlt hNn
  · intro j0
    rw [outOf_cons, outOf_cons, hs.split j0]
    by_cases hj0 : new.src = j0
    · subst hj0
      simp [hnop]
    · simp [hj0]
  · rw [List.reverse_cons, foldlM_snoc, hs.fold]; exact hp'
  · intro N hN
    rw [hMfr] at hN
    obtain ⟨hnr, ho, hgN⟩ := hs.fresh N hN
    have hne : N ≠ new.src := by intro e; rw [e, hfrs] at hN; cases hN
    exact ⟨hnr, by rw [hout N hne]; exact ho, by rw [hgrp N hnr (hfe N hN)]; exact hgN⟩
  · intro N hel hfr hlt
    rw [hMel] at hel; rw [hMfr] at hfr
    have hne : N ≠ new.src := by intro e; rw [e] at hel; exact hels hel
    obtain ⟨hNn, b, T, cT, h1, h2, h3, h4, h5⟩ := hs.elided N hel hfr hlt
    exact ⟨hNn, b, T, cT, by rw [hout N hne]; exact h1, h2, h3, by rw [hMn, hMn]; exact h4, h5⟩
  · intro N cN hN hcN hnN hel
    rw [hMel] at hel
    by_cases hne : N = new.src
    · subst hne
      rw [outOf_cons, if_pos rfl]
      exact hrt cN hcN hnN
    · rw [hout N hne]
      exact hs.routed N cN hN hcN hnN hel

/-- what `noopShape` says about the edges leaving one `no_op` row, on a prefix -/
theorem shape_prefix (rows : List CRow) (outF : List OutEdge) (hsh : noopShape rows outF = true) (N : Nat)
    (hN : NoopRow rows N) (l : List OutEdge) (hl : l <+: outF.filter (·.src = N)) :
    (∀ b e, l = [b, e] → b.cond.blank = true → False) ∧
    (∀ b, l = [b] → b.cond.blank = true → ∃ T, b.tgt = .row T) := by
  have hlen : N < rows.length := by
    obtain ⟨c, hc, _⟩ := hN; exact (List.getElem?_eq_some_iff.mp hc).1
  simp only [noopShape, List.all_eq_true, List.mem_range] at hsh
  have h1 := hsh N hlen
  rw [(noopAt_iff rows N).mpr hN] at h1
  simp only [Bool.not_true, Bool.false_or, Bool.and_eq_true, List.all_eq_true, decide_eq_true_eq] at h1
  obtain ⟨hdw, himp⟩ := h1
  obtain ⟨t, ht⟩ := hl
  constructor
  · intro b e hle hb
    subst hle
    -- the list starts with an unconditional edge: every edge is unconditional, so there is one only
    have hL : outF.filter (·.src = N) = b :: e :: t := by rw [← ht]; rfl
    rw [hL] at hdw himp
    have hall : ∀ x ∈ b :: e :: t, x.cond.blank = true := by
      have : (b :: e :: t).dropWhile (fun e => !e.cond.blank) = b :: e :: t := by
        simp [List.dropWhile_cons, hb]
      rw [this] at hdw; exact hdw
    have hcn : ((b :: e :: t).filter (fun e => !e.cond.blank)).isEmpty = true := by
      rw [List.isEmpty_iff, List.filter_eq_nil_iff]
      intro x hx; simp [hall x hx]
    have := (himp hcn)
    simp only [Bool.and_eq_true, decide_eq_true_eq, List.length_cons] at this
    omega
  · intro b hle hb
    subst hle
    have hL : outF.filter (·.src = N) = b :: t := by rw [← ht]; rfl
    rw [hL] at hdw himp
    have hall : ∀ x ∈ b :: t, x.cond.blank = true := by
      have : (b :: t).dropWhile (fun e => !e.cond.blank) = b :: t := by
        simp [List.dropWhile_cons, hb]
      rw [this] at hdw; exact hdw
    have hcn : ((b :: t).filter (fun e => !e.cond.blank)).isEmpty = true := by
      rw [List.isEmpty_iff, List.filter_eq_nil_iff]
      intro x hx; simp [hall x hx]
    have := (himp hcn)
    have hb2 := this.2 b (by simp)
    cases hbt : b.tgt with
    | row T => exact ⟨T, rfl⟩
    | exit => rw [hbt] at hb2; cases hb2

/-- **an edge leaving a `no_op` row** -/
theorem noop_leave_sim (rows : List CRow) (outF : List OutEdge) (g : Good rows outF) (hsh : noopShape rows outF = true)
    (M : Maps) (pd : Bool) (kg : Nat)
    (d : Dest) (tgt : Target) (cond : Compile.Cond) (s : St) (stT st : P1) (pnd : List OutEdge) (N : Nat)
    (h : Rel rows M pd kg s st) (hs : Sched rows M kg s stT st pnd)
    (hN : N < kg) (hNr : NoopRow rows N)
    (hd : DestIs M s.nodes d (some tgt))
    (htg : ∀ t, tgt = Target.row t → (t < kg ∨ (pd = true ∧ t = kg)) ∧ M.fr t = false)
    (hTrow : ∀ t, tgt = Target.row t → ∃ c, rows[t]? = some c ∧ isNodeRow c = true)
    (htn : tgtNoop rows tgt = false)
    (hTpre : (newEdge tgt cond N :: stT.out).reverse <+: outF)
    (hF : ∃ p', (newEdge tgt cond N :: stT.out).reverse.foldlM (schedStep rows) [] = some p') (f : Nat) :
    wp (addExit (f + 2) (gOf rows N) d cond) s
      (NPost rows M pd kg s { stT with out := newEdge tgt cond N :: stT.out }) := by
  have hpreT : outOf stT N ++ [newEdge tgt cond N] <+: outF.filter (·.src = N) := by
    have := hTpre.filter (·.src = N)
    have e1 : (newEdge tgt cond N :: stT.out).reverse.filter (·.src = N) = outOf stT N ++ [newEdge tgt cond N] := by
      simp [outOf, List.filter_append]
    rw [e1] at this; exact this
  obtain ⟨hsh1, hsh2⟩ := shape_prefix rows outF hsh N hNr _ hpreT
  by_cases hfr : M.fr N = true
  · -- first time
    by_cases he : cond.blank = true
    · have hoN := (hs.fresh N hfr).2.1
      rw [hoN] at hsh2
      obtain ⟨T, hT⟩ := hsh2 _ rfl (by simpa [toRCond_blank] using he)
      have hT' : tgt = .row T := hT
      subst hT'
      obtain ⟨cT, hcT, hnT⟩ := hTrow T rfl
      have hnnT : isNoop cT = false := by
        have : noopAt rows T = false := htn
        unfold noopAt at this; rw [hcT] at this; exact this
      exact noop_elide_sim rows outF g M pd kg d cond s stT st pnd N T cT h hs hN hNr hfr hcT hnT hnnT hd
        (htg T rfl) he hTpre hF f
    · exact noop_route_sim rows outF g M pd kg d tgt cond s stT st pnd N h hs hN hNr hfr hd htg htn
        (by simpa using he) hTpre hF f
  · have hfr' : M.fr N = false := by simpa using hfr
    by_cases hel : M.el N = true
    · -- left unconditionally before: no further edge leaves it
      exfalso
      obtain ⟨_, b, T, cT, h1, h2, _⟩ := hs.elided N hel hfr' hN
      rw [h1] at hsh1
      exact hsh1 b _ rfl h2
    · -- it has its router node
      have hel' : M.el N = false := by simpa using hel
      obtain ⟨cN, hcN, hnN⟩ := hNr
      have hkN := kind_of_noop hnN
      obtain ⟨ps, ro, hgN, hro⟩ := h.grpN N cN hN hcN hnN
      have hro' := hro hel'
      subst hro'
      have hvN : Valid rows M pd kg N cN := ⟨.inl hN, hcN, isNodeRow_of_noop hnN, hel'⟩
      obtain ⟨n, hn, hsim⟩ := h.node N cN hvN
      have hroN : M.rOf N = none := h.rnoop N cN hcN hnN
      rw [hroN] at hsim
      generalize hro0 : (none : Option Nat) = ro0 at hsim
      cases hsim with
      | impl _ _ _ _ _ => cases hro0
      | one hsim =>
      obtain ⟨r, hp⟩ := hsim.nop_of_kind hkN
      -- the schedule step
      obtain ⟨p', hp'⟩ := hF
      rw [List.reverse_cons, foldlM_snoc, hs.fold] at hp'
      simp only [Option.bind_some] at hp'
      have hsn : noopAt rows (newEdge tgt cond N).src = true := (noopAt_iff rows N).mpr ⟨cN, hcN, hnN⟩
      obtain ⟨hpeq, _⟩ := schedStep_leave hsn htn hp'
      have hnone : pnd.filter (fun pe => !decide (pe.tgt = .row (newEdge tgt cond N).src)) = pnd := by
        rw [List.filter_eq_self]
        intro pe hpe
        obtain ⟨N2, ht2, hf2⟩ := hs.pend pe hpe
        have : N2 ≠ N := by intro e; rw [e, hfr'] at hf2; cases hf2
        rw [ht2]
        have : ¬ (Target.row N2 = Target.row N) := by intro e; injection e with e; exact this e
        simpa using this
      rw [hnone] at hpeq
      rw [hpeq] at hp'
      have hnop : pnd.filter (·.src = N) = [] := by
        rw [List.filter_eq_nil_iff]
        intro pe hpe hsrc
        obtain ⟨_, c, hc, _, hnn⟩ := hs.psrc pe hpe
        have : pe.src = N := by simpa using hsrc
        rw [this, hcN] at hc; injection hc with hc; subst hc
        rw [hnN] at hnn; cases hnn
      have hsplit := hs.split N
      rw [hnop, List.append_nil] at hsplit
      have hpre : outOf st N ++ [newEdge tgt cond N] <+: outF.filter (·.src = N) := by rw [← hsplit]; exact hpreT
      have hrouted := hs.routed N cN hN hcN hnN hel'
      -- the compiler
      unfold addExit
      wp_simp [wp_getGrp]
      intro grp hgrp
      rw [hgN] at hgrp; injection hgrp with hgrp; subst hgrp
      simp only
      have fin : wp (noopRouterExit (M.nOf N) d cond) s (EdgePost rows M pd kg tgt cond s st N) := by
        by_cases he : cond.blank = true
        · exact nop_blank_sim rows M pd kg d tgt cond s st N n cN h hN hn hcN ⟨isNodeRow_of_noop hnN, hel'⟩ hroN hkN hd htg
            r hp he
        · have he' : cond.blank = false := by simpa using he
          have heb : (newEdge tgt cond N).cond.blank = false := by simpa [toRCond_blank] using he'
          have hmem : newEdge tgt cond N ∈ outF := hTpre.subset (by simp)
          have hok := g.ok _ hmem
          have hok2 : (cond.blank || (!cond.var.isEmpty && !cond.value.isEmpty)) = true := by
            simp only [edgeOk, hcN, Option.map_some, hkN] at hok
            exact hok
          rw [he', Bool.false_or, Bool.and_eq_true] at hok2
          have hvne : cond.var ≠ [] := by
            intro e; have := hok2.1; rw [e] at this; simp at this
          have hval : cond.value ≠ [] := by
            intro e; have := hok2.2; rw [e] at this; simp at this
          have hdist := g.nodup_prefix N hpre cN hcN (.inr (.inr hkN))
          rw [hkN] at hdist
          have hfreeN := g.fresh_prefix N cN hcN (.inr (.inr hkN)) (outOf st N) (newEdge tgt cond N) hpre
            (by rw [hkN]; exact tests_noop_append _ _ heb)
          rw [hkN] at hfreeN
          have hvar := g.var_prefix N hpre cN hcN (.inr hkN) (newEdge tgt cond N) (by simp) heb
          exact nop_test_sim rows M pd kg d tgt cond s st N n cN h hN hn hcN ⟨isNodeRow_of_noop hnN, hel'⟩ hroN hkN hd htg
            r hp he' hval hvne hvar hfreeN hdist
      refine wp_mono fin ?_
      intro _ s' ⟨r', e', hg'⟩
      refine ⟨M, _, pnd, MExt.refl M, r', ?_, e'⟩
      refine sched_append hs (newEdge tgt cond N) hp' hnop (fun _ => rfl) rfl rfl (fun N2 hN2 => (h.frel N2 hN2).1)
        hfr' (fun hh => hel hh) (fun _ _ _ => by rw [hg']) ?_
      intro c hc _
      rw [tests_noop_eq, List.filter_append]
      rw [tests_noop_eq] at hrouted
      intro hnil
      exact hrouted (List.append_eq_nil_iff.mp hnil).1

end Rpft.CoreSheet
