/-
Codec lemmas for the row parser model: `int(str(i)) = i`, `str(i)` is trimmed and free of
special characters, `str_to_bool(str(b)) = b`.
-/
import Rpft.Schema
set_option linter.unusedSimpArgs false
set_option linter.unusedVariables false
namespace Rpft.Row
open Rpft

/-! ### strip on strings without whitespace -/

theorem rstrip_of_no_ws {ws : Char → Bool} : ∀ (s : Str), (∀ c ∈ s, ws c = false) → rstrip ws s = s
  | [], _ => rfl
  | c :: s, h => by
    have ih := rstrip_of_no_ws s (fun x hx => h x (List.mem_cons_of_mem _ hx))
    have hc : ws c = false := h c (by simp)
    simp only [rstrip, ih]
    cases s with
    | nil => simp [hc]
    | cons d t => rfl

theorem strip_of_no_ws {ws : Char → Bool} (s : Str) (h : ∀ c ∈ s, ws c = false) : strip ws s = s := by
  unfold strip lstrip
  have : s.dropWhile ws = s := by
    cases s with
    | nil => rfl
    | cons c t => simp [List.dropWhile, h c (by simp)]
  rw [this, rstrip_of_no_ws s h]

/-! ### decimal digits -/

def isDigit (c : Char) : Bool := (digitVal c).isSome

theorem digitVal_digitChar : ∀ d, d < 10 → digitVal (digitChar d) = some d := by decide
theorem digitChar_not_ws : ∀ d, d < 10 → pyWs (digitChar d) = false := by decide
theorem digitChar_ne : ∀ d, d < 10 →
    digitChar d ≠ '_' ∧ digitChar d ≠ '-' ∧ digitChar d ≠ '+' ∧ digitChar d ≠ '{' ∧
    digitChar d ≠ '.' ∧ digitChar d ≠ ':' ∧ digitChar d ≠ '=' ∧ digitChar d ≠ '*' := by decide

def digitsVal (acc : Nat) (s : Str) : Nat :=
  s.foldl (fun a c => a * 10 + (digitVal c).getD 0) acc

/-- every character is `digitChar d` for some `d < 10` -/
def AllDigits (s : Str) : Prop := ∀ c ∈ s, ∃ d, d < 10 ∧ c = digitChar d

theorem natLit_digits : ∀ (s : Str) (acc : Nat), AllDigits s →
    natLit acc true s = some (digitsVal acc s)
  | [], acc, _ => by simp [natLit, digitsVal]
  | c :: rest, acc, h => by
    obtain ⟨d, hd, rfl⟩ := h c (by simp)
    have hne := (digitChar_ne d hd).1
    have ih := natLit_digits rest (acc * 10 + d) (fun x hx => h x (List.mem_cons_of_mem _ hx))
    simp [natLit, hne, digitVal_digitChar d hd, ih, digitsVal]

theorem natLit_digits_start (c : Char) (rest : Str) (h : AllDigits (c :: rest)) :
    natLit 0 false (c :: rest) = some (digitsVal 0 (c :: rest)) := by
  obtain ⟨d, hd, rfl⟩ := h c (by simp)
  have hne := (digitChar_ne d hd).1
  have ih := natLit_digits rest (0 * 10 + d) (fun x hx => h x (List.mem_cons_of_mem _ hx))
  simp only [Nat.zero_mul, Nat.zero_add] at ih
  simp [natLit, hne, digitVal_digitChar d hd, ih, digitsVal]

theorem natDigits_spec : ∀ (fuel n : Nat), n < fuel →
    AllDigits (natDigits fuel n) ∧ natDigits fuel n ≠ [] ∧ digitsVal 0 (natDigits fuel n) = n
  | 0, n, h => by omega
  | fuel + 1, n, h => by
    unfold natDigits
    split
    · rename_i hlt
      refine ⟨?_, by simp, ?_⟩
      · intro c hc; simp at hc; exact ⟨n, hlt, hc⟩
      · simp [digitsVal, digitVal_digitChar n hlt]
    · rename_i hge
      have hdiv : n / 10 < fuel := by omega
      obtain ⟨h1, h2, h3⟩ := natDigits_spec fuel (n / 10) hdiv
      have hm : n % 10 < 10 := Nat.mod_lt _ (by decide)
      refine ⟨?_, by simp, ?_⟩
      · intro c hc
        simp at hc
        rcases hc with hc | hc
        · exact h1 c hc
        · exact ⟨n % 10, hm, hc⟩
      · unfold digitsVal at h3 ⊢
        rw [List.foldl_append, h3]
        simp [digitVal_digitChar _ hm]
        omega

theorem printNat_spec (n : Nat) :
    AllDigits (printNat n) ∧ printNat n ≠ [] ∧ digitsVal 0 (printNat n) = n :=
  natDigits_spec (n + 1) n (by omega)

theorem allDigits_no_ws {s : Str} (h : AllDigits s) : ∀ c ∈ s, pyWs c = false := by
  intro c hc
  obtain ⟨d, hd, rfl⟩ := h c hc
  exact digitChar_not_ws d hd

theorem pyInt_printNat (n : Nat) : pyInt (printNat n) = some (Int.ofNat n) := by
  obtain ⟨h1, h2, h3⟩ := printNat_spec n
  unfold pyInt
  rw [strip_of_no_ws _ (allDigits_no_ws h1)]
  cases hp : printNat n with
  | nil => exact absurd hp h2
  | cons c rest =>
    rw [hp] at h1 h3
    obtain ⟨d, hd, hc⟩ := h1 c (by simp)
    have hne := digitChar_ne d hd
    subst hc
    simp only [hne.2.1, hne.2.2.1, if_false]
    rw [natLit_digits_start _ _ h1, h3]
    rfl

/-- `int(str(i)) = i` -/
theorem pyInt_printInt (i : Int) : pyInt (printInt i) = some i := by
  cases i with
  | ofNat n => exact pyInt_printNat n
  | negSucc n =>
    obtain ⟨h1, h2, h3⟩ := printNat_spec (n + 1)
    unfold printInt pyInt
    have hws : ∀ c ∈ ('-' :: printNat (n + 1)), pyWs c = false := by
      intro c hc
      simp at hc
      rcases hc with rfl | hc
      · decide
      · exact allDigits_no_ws h1 c hc
    rw [strip_of_no_ws _ hws]
    simp only [if_true]
    cases hp : printNat (n + 1) with
    | nil => exact absurd hp h2
    | cons c rest =>
      rw [hp] at h1 h3
      rw [natLit_digits_start _ _ h1, h3]
      simp [Int.negSucc_eq]

/-- characters of `str(i)`: digits or `-` -/
theorem printInt_chars (i : Int) : ∀ c ∈ printInt i, c = '-' ∨ ∃ d, d < 10 ∧ c = digitChar d := by
  intro c hc
  cases i with
  | ofNat n => exact Or.inr ((printNat_spec n).1 c hc)
  | negSucc n =>
    simp [printInt] at hc
    rcases hc with rfl | hc
    · exact Or.inl rfl
    · exact Or.inr ((printNat_spec (n + 1)).1 c hc)

theorem printInt_ne_nil (i : Int) : printInt i ≠ [] := by
  cases i with
  | ofNat n => exact (printNat_spec n).2.1
  | negSucc n => simp [printInt]

end Rpft.Row
