/-
Lock-step simulation, edge by edge: the single-meaning conditions read off the reference's out-edges
(`Good`), the dispatch of `RowNodeGroup.add_exit` over the kinds of rows, the edges of one row.
-/
import Rpft.Lemmas.CoreImpl
set_option linter.unusedSimpArgs false
set_option linter.unusedVariables false
namespace Rpft.CoreSheet
open Rpft Rpft.Compile Rpft.RefFlow

/-! ### the single-meaning conditions, read off the reference's out-edges -/

/-- `outF`: all out-edges pass 1 records for the sheet -/
abbrev isSwitchKind (K : Kind) : Prop := K = .wait ∨ K = .splitValue ∨ K = .splitGroup

/-- kinds of rows whose conditional out-edges are tests of a switch -/
abbrev isTestKind (K : Kind) : Prop := isSwitchKind K ∨ K = .action ∨ K = .noOp

structure Good (rows : List CRow) (outF : List OutEdge) : Prop where
  ok : ∀ e ∈ outF, edgeOk rows e = true
  dist : ∀ (j : Nat) (c : CRow), rows[j]? = some c → isTestKind (kindOf c.row.type) →
    ((testsOf (kindOf c.row.type) (outF.filter (·.src = j))).map (fun e => refTest (kindOf c.row.type) e.cond)).Nodup
  var : ∀ (j : Nat) (c : CRow), rows[j]? = some c → (kindOf c.row.type = .action ∨ kindOf c.row.type = .noOp) →
    ∀ e ∈ (outF.filter (·.src = j)).filter (fun e => !e.cond.blank), e.cond.var = implVar (outF.filter (·.src = j))
  names : ∀ (j : Nat) (c : CRow), rows[j]? = some c → isTestKind (kindOf c.row.type) →
    namesOk (kindOf c.row.type) (timeoutOf c.row) [] (testsOf (kindOf c.row.type) (outF.filter (·.src = j))) = true
  /-- the merged rows are marked -/
  annot : Annot rows

/-- per source row: `l` is a prefix of the out-edges of row `j` -/
theorem Good.nodup_prefix {rows : List CRow} {outF l : List OutEdge} (g : Good rows outF) (j : Nat)
    (hl : l <+: outF.filter (·.src = j))
    (c : CRow) (hc : rows[j]? = some c) (hk : isTestKind (kindOf c.row.type)) :
    ((testsOf (kindOf c.row.type) l).map (fun e => refTest (kindOf c.row.type) e.cond)).Nodup := by
  refine List.Nodup.sublist ?_ (g.dist j c hc hk)
  unfold testsOf
  exact (((hl.filter _).filter _).map _).sublist

/-- the variable of the conditional edges of a prefix is that of the whole list -/
theorem implVar_prefix {l L : List OutEdge} (hl : l <+: L) (hne : l.filter (fun e => !e.cond.blank) ≠ []) :
    implVar L = implVar l := by
  obtain ⟨t, rfl⟩ := hl
  unfold implVar
  rw [List.filter_append]
  cases hf : l.filter (fun e => !e.cond.blank) with
  | nil => exact absurd hf hne
  | cons a l' => rfl

theorem Good.var_prefix {rows : List CRow} {outF l : List OutEdge} (g : Good rows outF) (j : Nat)
    (hl : l <+: outF.filter (·.src = j))
    (c : CRow) (hc : rows[j]? = some c) (hk : kindOf c.row.type = .action ∨ kindOf c.row.type = .noOp)
    (e : OutEdge) (he : e ∈ l) (hb : e.cond.blank = false) :
    e.cond.var = implVar l := by
  have hmem : e ∈ l.filter (fun e => !e.cond.blank) := by
    rw [List.mem_filter]; exact ⟨he, by simp [hb]⟩
  have h1 := g.var j c hc hk e (by
    rw [List.mem_filter] at hmem ⊢
    exact ⟨hl.subset hmem.1, hmem.2⟩)
  rw [h1]
  exact implVar_prefix hl (List.ne_nil_of_mem hmem)

theorem blank_value {cond : Compile.Cond} (h : cond.blank = true) : cond.value = [] := by
  unfold Compile.Cond.blank at h
  simp only [Bool.and_eq_true, List.isEmpty_iff] at h
  exact h.1.1.1

theorem lower_eq (v : Str) : RefFlow.lower v = Compile.lower v := rfl

/-- the explicit category name of a new test is not in use -/
theorem Good.fresh_prefix {rows : List CRow} {outF : List OutEdge} (g : Good rows outF)
    (j : Nat) (c : CRow) (hc : rows[j]? = some c) (hk : isTestKind (kindOf c.row.type))
    (es : List OutEdge) (e : OutEdge) (hl : es ++ [e] <+: outF.filter (·.src = j))
    (htests : testsOf (kindOf c.row.type) (es ++ [e]) = testsOf (kindOf c.row.type) es ++ [e])
    (hne : e.cond.name ≠ []) :
    e.cond.name ∉ namesFrom (kindOf c.row.type) (timeoutOf c.row) [] (testsOf (kindOf c.row.type) es) ++
      baseNames (kindOf c.row.type) (timeoutOf c.row) := by
  have hpre : testsOf (kindOf c.row.type) (es ++ [e]) <+: testsOf (kindOf c.row.type) (outF.filter (·.src = j)) := by
    unfold testsOf
    exact (hl.filter _).filter _
  have hok := namesOk_prefix _ _ _ _ hpre (g.names j c hc hk)
  rw [htests] at hok
  exact namesOk_last _ _ _ _ hok hne

/-- what `edgeOk` says about a conditional edge leaving an action row -/
theorem action_edge_ok (cond : Compile.Cond) (he : cond.blank = false)
    (hok : (cond.blank || !isNR (toRCond cond)) = true) :
    ¬ Compile.lower cond.value = "no response".toList := by
  rw [he, Bool.false_or] at hok
  rw [Bool.not_eq_true', isNR_toRCond] at hok
  exact of_decide_eq_false hok

theorem post_of_fixed (rows : List CRow) (M : Maps) (pd : Bool) (kg : Nat) (tgt : Target) (cond : Compile.Cond) (s : St)
    (st : P1) (j : Nat) (m : Compile.M PUnit) (h : wp m s (EdgePost rows M pd kg tgt cond s st j)) :
    wp m s (EdgePost' rows M pd kg tgt cond s st j) :=
  wp_mono h (fun _ s' ⟨r, e, hg⟩ => ⟨M, fun _ => rfl, rfl, rfl, r, e, fun _ _ => by rw [hg]⟩)

/-- one out-edge leaving row `j` -/
theorem addExit_sim (rows : List CRow) (outF : List OutEdge) (g : Good rows outF) (M : Maps) (pd : Bool) (kg : Nat)
    (d : Dest) (tgt : Target) (cond : Compile.Cond) (s : St) (st : P1) (j : Nat) (h : Rel rows M pd kg s st)
    (hj : j < kg) (hjn : ∃ c, rows[j]? = some c ∧ isNodeRow c = true ∧ isNoop c = false)
    (hd : DestIs M s.nodes d (some tgt))
    (htg : ∀ t, tgt = Target.row t → (t < kg ∨ (pd = true ∧ t = kg)) ∧ M.fr t = false)
    (hmem : newEdge tgt cond j ∈ outF)
    (hpre : outOf st j ++ [newEdge tgt cond j] <+: outF.filter (·.src = j)) (f : Nat) :
    wp (addExit (f + 1) (gOf rows j) d cond) s (EdgePost' rows M pd kg tgt cond s st j) := by
  obtain ⟨c, hc, hnode0, hnn⟩ := hjn
  have hnode : isNodeRow c = true ∧ M.el j = false := ⟨hnode0, h.elno j c hc hnn⟩
  have hg := h.grp j c hj hc hnode0 hnn
  obtain ⟨n, hn, hrsim⟩ := h.node j c ⟨.inl hj, hc, hnode⟩
  -- what the single-meaning conditions say about this edge
  have hok : edgeOk rows (newEdge tgt cond j) = true := g.ok _ hmem
  simp only [edgeOk, hc, Option.map_some, toRCond_blank] at hok
  unfold addExit
  wp_simp [wp_getGrp]
  intro grp hgrp
  rw [hg] at hgrp; injection hgrp with hgrp; subst hgrp
  simp only
  unfold rowAddExit
  generalize hro : M.rOf j = ro at hrsim
  cases hrsim with
  | impl i' n' r hk hp =>
    -- an action row with a router node behind its node: the edge goes to the router node
    simp only [Option.toList, List.getLast?_cons_cons, List.getLast?_singleton]
    wp_simp [wp_getNode]
    intro n'' hn''
    rw [hp.rnode] at hn''; injection hn'' with hn''; subst hn''
    rw [hk] at hok
    have hkr : n'.kind ≠ NodeKind.random := by rw [hp.kind']; intro hh; cases hh
    have hke : n'.kind ≠ NodeKind.enter := by rw [hp.kind']; intro hh; cases hh
    have hkw : ¬ (n'.kind = NodeKind.webhook ∨ n'.kind = NodeKind.airtime) := by
      rw [hp.kind']; rintro (hh | hh) <;> cases hh
    by_cases he : cond.blank = true
    · exact ⟨fun _ => impl_blank_sim rows M pd kg d tgt cond s st j n c h hj hn hc hnode hk hd htg i' n' r hro hp he,
        fun hh => absurd ⟨he, hkr⟩ hh⟩
    · have he' : cond.blank = false := by simpa using he
      have hnr := action_edge_ok cond he' hok
      refine ⟨fun hh => absurd hh.1 he, fun _ => ⟨fun hh => absurd hh hke, fun _ => ⟨fun hh => absurd hh hkw, fun _ =>
        ⟨fun hh => absurd hh.2 hnr, fun _ => ?_⟩⟩⟩⟩
      have hfreeN := g.fresh_prefix j c hc (.inr (.inl hk)) (outOf st j) (newEdge tgt cond j) hpre
        (by rw [hk]; exact tests_action_append _ _ (by simpa [toRCond_blank] using he'))
      rw [hk] at hfreeN
      have hdist := g.nodup_prefix j hpre c hc (.inr (.inl hk))
      rw [hk] at hdist
      have hvar := g.var_prefix j hpre c hc (.inl hk) (newEdge tgt cond j) (by simp) (by simpa [toRCond_blank] using he')
      exact impl_test_sim rows M pd kg d tgt cond s st j n c h hj hn hc hnode hk hd htg i' n' r hro hp he' hfreeN hvar hdist
  | one hsim =>
  simp only [Option.toList, List.getLast?_singleton]
  wp_simp [wp_getNode]
  intro n' hn'
  rw [hn] at hn'; injection hn' with hn'; subst hn'
  cases hsim with
  | plain hk hp =>
    have hkr : n.kind ≠ NodeKind.random := by rw [hp.kind]; intro hh; cases hh
    have hke : n.kind ≠ NodeKind.enter := by rw [hp.kind]; intro hh; cases hh
    have hkw : ¬ (n.kind = NodeKind.webhook ∨ n.kind = NodeKind.airtime) := by
      rw [hp.kind]; rintro (hh | hh) <;> cases hh
    have hks : n.kind ≠ NodeKind.switch := by rw [hp.kind]; intro hh; cases hh
    rw [hk] at hok
    by_cases he : cond.blank = true
    · exact ⟨fun _ => post_of_fixed _ _ _ _ _ _ _ _ _ _
          (plain_edge_sim rows M pd kg d tgt cond s st j n c h hj hn hc hnode hro hd htg hk hp he),
        fun hh => absurd ⟨he, hkr⟩ hh⟩
    · have he' : cond.blank = false := by simpa using he
      have hnr := action_edge_ok cond he' hok
      refine ⟨fun hh => absurd hh.1 he, fun _ => ⟨fun hh => absurd hh hke, fun _ => ⟨fun hh => absurd hh hkw, fun _ =>
        ⟨fun hh => absurd hh.1 hks, fun _ => ?_⟩⟩⟩⟩
      have hfreeN := g.fresh_prefix j c hc (.inr (.inl hk)) (outOf st j) (newEdge tgt cond j) hpre
        (by rw [hk]; exact tests_action_append _ _ (by simpa [toRCond_blank] using he'))
      rw [hk] at hfreeN
      exact impl_first_sim rows M pd kg d tgt cond s st j n c h hj hn hc hnode hk hd htg hro hp he' hfreeN
  | sw r hk hp =>
    have hdist := g.nodup_prefix j hpre c hc (.inl hk)
    have hkr : n.kind ≠ NodeKind.random := by rw [hp.kind]; intro hh; cases hh
    have hke : n.kind ≠ NodeKind.enter := by rw [hp.kind]; intro hh; cases hh
    have hkw : ¬ (n.kind = NodeKind.webhook ∨ n.kind = NodeKind.airtime) := by
      rw [hp.kind]; rintro (hh | hh) <;> cases hh
    by_cases he : cond.blank = true
    · exact ⟨fun _ => post_of_fixed _ _ _ _ _ _ _ _ _ _ (sw_blank_sim rows M pd kg d tgt cond s st j n c h hj hn hc hnode hro hd htg r hk hp he), fun hh => absurd ⟨he, hkr⟩ hh⟩
    · have he' : cond.blank = false := by simpa using he
      refine ⟨fun hh => absurd hh.1 he, fun _ => ⟨fun hh => absurd hh hke, fun _ => ⟨fun hh => absurd hh hkw, fun _ => ?_⟩⟩⟩
      rw [he'] at hok
      by_cases hnr : Compile.lower cond.value = "no response".toList
      · -- only a wait row can be left by a "no response" edge
        have hkwait : kindOf c.row.type = .wait := by
          rcases hk with h1 | h1 | h1
          · exact h1
          · rw [h1] at hok; simp [isNR_toRCond, hnr] at hok
          · rw [h1] at hok; simp [isNR_toRCond, hnr] at hok
        exact ⟨fun _ => post_of_fixed _ _ _ _ _ _ _ _ _ _ (sw_nr_sim rows M pd kg d tgt cond s st j n c h hj hn hc hnode hro hd htg r hkwait hp he' hnr),
          fun hh => absurd ⟨hp.kind, hnr⟩ hh⟩
      · refine ⟨fun hh => absurd hh.2 hnr, fun _ => ?_⟩
        have heb : (newEdge tgt cond j).cond.blank = false := by simpa [toRCond_blank] using he'
        have hnotnr : ¬ (kindOf c.row.type = .wait ∧ isNR (newEdge tgt cond j).cond = true) := by
          rintro ⟨_, h2⟩
          simp only [isNR_toRCond, decide_eq_true_eq] at h2
          exact hnr h2
        have hfreeN := g.fresh_prefix j c hc (.inl hk) (outOf st j) (newEdge tgt cond j) hpre
          (testsOf_append_test _ _ _ heb hnotnr)
        have hvar : kindOf c.row.type = .wait → cond.var = [] := by
          intro h1; rw [h1] at hok
          simp only [Bool.false_or, List.isEmpty_iff, toRCond] at hok; exact hok
        exact post_of_fixed _ _ _ _ _ _ _ _ _ _ (sw_test_sim rows M pd kg d tgt cond s st j n c h hj hn hc hnode hro hd htg r hk hp he' (fun _ => hnr) (fun _ => hnr) hvar hfreeN hdist)
  | rnd r hk hp =>
    rw [hk] at hok
    have hke : n.kind ≠ NodeKind.enter := by rw [hp.kind]; intro hh; cases hh
    have hkw : ¬ (n.kind = NodeKind.webhook ∨ n.kind = NodeKind.airtime) := by
      rw [hp.kind]; rintro (hh | hh) <;> cases hh
    have hks : n.kind ≠ NodeKind.switch := by rw [hp.kind]; intro hh; cases hh
    refine ⟨fun hh => absurd hp.kind hh.2, fun _ => ⟨fun hh => absurd hh hke, fun _ => ⟨fun hh => absurd hh hkw, fun _ =>
      ⟨fun hh => absurd hh.1 hks, fun _ => ?_⟩⟩⟩⟩
    exact post_of_fixed _ _ _ _ _ _ _ _ _ _ (rand_edge_sim rows M pd kg d tgt cond s st j n c h hj hn hc hnode hro hd htg r hk hp hok)
  | nop r hk hp =>
    rw [isNoop_of_kind hk] at hnn; cases hnn
  | fix r sc hk hp =>
    have hkr : n.kind ≠ NodeKind.random := by
      rw [hp.kind]; rcases hk with h1 | h1 | h1 <;> rw [h1] <;> intro hh <;> cases hh
    by_cases hent : kindOf c.row.type = .enterFlow
    · -- start_new_flow
      have hkind : n.kind = NodeKind.enter := by rw [hp.kind, hent]; rfl
      have hsn : succName (kindOf c.row.type) = "Complete".toList := by rw [hent]; rfl
      constructor
      · intro _
        unfold rowExitBlank
        rw [hkind]
        exact trivial
      · intro _
        refine ⟨fun _ => ?_, fun hh => absurd hkind hh⟩
        unfold rowExitEnter
        simp only
        split
        · rename_i hv
          have hs : isSucc (kindOf c.row.type) (newEdge tgt cond j) = true := by
            rw [hent]; exact (isSucc_enter _).mpr hv
          have hf : isFail (kindOf c.row.type) (newEdge tgt cond j) = false := by
            rw [hent]
            refine bool_false_of_not (fun hh => ?_)
            have hx : Compile.lower cond.value = "expired".toList := (isFail_enter _).mp hh
            rcases hv with hv | hv <;> rw [hv] at hx <;> exact absurd hx (by decide)
          have := fix_succ_sim rows M pd kg d tgt cond s st j n c h hj hn hc hnode hro hd htg r sc hk hp hs hf
          rw [hsn] at this; exact post_of_fixed _ _ _ _ _ _ _ _ _ _ this
        · rename_i hv
          split
          · rename_i hx
            have hs : isSucc (kindOf c.row.type) (newEdge tgt cond j) = false := by
              rw [hent]
              exact bool_false_of_not (fun hh => hv ((isSucc_enter _).mp hh))
            have hf : isFail (kindOf c.row.type) (newEdge tgt cond j) = true := by
              rw [hent]; exact (isFail_enter _).mpr hx
            exact post_of_fixed _ _ _ _ _ _ _ _ _ _ (fix_fail_sim rows M pd kg d tgt cond s st j n c h hj hn hc hnode hro hd htg r sc hk hp hs hf)
          · exact trivial
    · -- call_webhook / transfer_airtime
      have hkind : n.kind = NodeKind.webhook ∨ n.kind = NodeKind.airtime := by
        rw [hp.kind]
        rcases hk with h1 | h1 | h1
        · exact absurd h1 hent
        · rw [h1]; exact .inl rfl
        · rw [h1]; exact .inr rfl
      have hke : n.kind ≠ NodeKind.enter := by rcases hkind with h1 | h1 <;> rw [h1] <;> intro hh <;> cases hh
      have hkb : n.kind ≠ NodeKind.basic := by rcases hkind with h1 | h1 <;> rw [h1] <;> intro hh <;> cases hh
      have hsn : succName (kindOf c.row.type) = "Success".toList := by unfold succName; rw [if_neg hent]
      by_cases he : cond.blank = true
      · refine ⟨fun _ => ?_, fun hh => absurd ⟨he, hkr⟩ hh⟩
        have hval := blank_value he
        have hs : isSucc (kindOf c.row.type) (newEdge tgt cond j) = false := by
          refine bool_false_of_not (fun hh => ?_)
          have hx : Compile.lower cond.value = "success".toList := (isSucc_hook _ hent _).mp hh
          rw [hval] at hx
          exact absurd hx (by decide)
        have hf : isFail (kindOf c.row.type) (newEdge tgt cond j) = true :=
          (isFail_hook _ hent _).mpr (.inl he)
        have := fix_fail_sim rows M pd kg d tgt cond s st j n c h hj hn hc hnode hro hd htg r sc hk hp hs hf
        unfold rowExitBlank
        split
        · rename_i hb; exact absurd hb hkb
        · rename_i hb; exact absurd hb hke
        · exact post_of_fixed _ _ _ _ _ _ _ _ _ _ this
      · have he' : cond.blank = false := by simpa using he
        refine ⟨fun hh => absurd hh.1 he, fun _ => ⟨fun hh => absurd hh hke, fun _ => ⟨fun _ => ?_, fun hh => absurd hkind hh⟩⟩⟩
        unfold rowExitHook
        simp only
        split
        · rename_i hv
          have hs : isSucc (kindOf c.row.type) (newEdge tgt cond j) = true := (isSucc_hook _ hent _).mpr hv
          have hf : isFail (kindOf c.row.type) (newEdge tgt cond j) = false := by
            refine bool_false_of_not (fun hh => ?_)
            rcases (isFail_hook _ hent _).mp hh with hx | hx
            · exact he hx
            · have hx' : Compile.lower cond.value = "failure".toList := hx
              rw [hv] at hx'; exact absurd hx' (by decide)
          have := fix_succ_sim rows M pd kg d tgt cond s st j n c h hj hn hc hnode hro hd htg r sc hk hp hs hf
          rw [hsn] at this; exact post_of_fixed _ _ _ _ _ _ _ _ _ _ this
        · rename_i hv
          split
          · rename_i hx
            have hs : isSucc (kindOf c.row.type) (newEdge tgt cond j) = false :=
              bool_false_of_not (fun hh => hv ((isSucc_hook _ hent _).mp hh))
            have hf : isFail (kindOf c.row.type) (newEdge tgt cond j) = true := (isFail_hook _ hent _).mpr (.inr hx)
            exact post_of_fixed _ _ _ _ _ _ _ _ _ _ (fix_fail_sim rows M pd kg d tgt cond s st j n c h hj hn hc hnode hro hd htg r sc hk hp hs hf)
          · exact trivial

end Rpft.CoreSheet
