/-
Decomposition of the two runs into their phases.
-/
import Rpft.Lemmas.CompileInsertSelf
set_option linter.unusedSimpArgs false
set_option linter.unusedVariables false
namespace Rpft.Compile
open Rpft Function

theorem run_det {α : Type} {m : M α} {s : St} {a b : α} {t u : St}
    (h1 : m.run s = .ok (a, t)) (h2 : m.run s = .ok (b, u)) : a = b ∧ t = u := by
  rw [h1] at h2; cases h2; exact ⟨rfl, rfl⟩

theorem run_insertEnter_ok {s t : St} {p : St × Nat} (h : insertEnter.run s = .ok (p, t)) :
    p = (s, s.groups.size) ∧ t = enterSt s := by
  have := wp_of_run ((wp_insertEnter' s (fun p t => p = (s, s.groups.size) ∧ t = enterSt s)).mpr ⟨rfl, rfl⟩) h
  exact this

/-- the run of the insert row -/
theorem insert_run {r r₁ : Row} {rest : List Event} {s₀ z₁ : St}
    (h : (step (.insert r (.row r₁ :: rest))).run s₀ = .ok ((), z₁)) :
    ∃ a₁ b₁, (parseRow r₁).run (enterSt s₀) = .ok ((), a₁) ∧ (steps rest).run a₁ = .ok ((), b₁) ∧
      (insertLeave s₀ s₀.groups.size r).run b₁ = .ok ((), z₁) := by
  unfold step at h
  obtain ⟨p, u, h1, h⟩ := run_bind_ok h
  obtain ⟨rfl, rfl⟩ := run_insertEnter_ok h1
  obtain ⟨_, b₁, h2, h⟩ := run_bind_ok h
  obtain ⟨a₁, h3, h4⟩ := run_steps_cons h2
  unfold step at h3
  exact ⟨a₁, b₁, h3, h4, h⟩

/-- the run of `parse_as_block`'s return: the row's edges lead to the entry node -/
theorem insertLeave_run {s₀ b₁ z₁ : St} {G : Nat} {r : Row} (h : (insertLeave s₀ G r).run b₁ = .ok ((), z₁)) :
    b₁.stack.length = 1 ∧ ∃ i n x₁,
      (entryNode (2 * (restoreSt b₁ s₀).groups.size + 8) G).run (restoreSt b₁ s₀) = .ok (i, restoreSt b₁ s₀) ∧
      (restoreSt b₁ s₀).nodes[i]? = some n ∧
      ((dropTrivial r.edges).forM (addRowEdge (.node n.uid))).run (restoreSt b₁ s₀) = .ok ((), x₁) ∧
      (appendGroup G r.rowId).run x₁ = .ok ((), z₁) := by
  unfold insertLeave at h
  obtain ⟨s2, u, h1, h⟩ := run_bind_ok h
  obtain ⟨e1, e2⟩ := run_get_ok h1
  subst s2; subst u
  by_cases hl : b₁.stack.length ≠ 1
  · rw [if_pos hl] at h; cases h
  rw [if_neg hl] at h
  have hl' : b₁.stack.length = 1 := by
    rcases Nat.lt_or_ge b₁.stack.length 1 with h' | h'
    · exfalso; apply hl; omega
    · rcases Nat.lt_or_ge 1 b₁.stack.length with h'' | h''
      · exfalso; apply hl; omega
      · omega
  refine ⟨hl', ?_⟩
  obtain ⟨_, w, h2, h⟩ := run_bind_ok h
  have hw : w = restoreSt b₁ s₀ := run_modify_ok h2
  subst hw
  obtain ⟨f, u, h3, h⟩ := run_bind_ok h
  obtain ⟨rfl, rfl⟩ := run_fuelOf_ok h3
  obtain ⟨i, u, h4, h⟩ := run_bind_ok h
  have hu : u = restoreSt b₁ s₀ := ro_entryNode _ _ _ _ _ h4
  subst hu
  obtain ⟨n, u, h5, h⟩ := run_bind_ok h
  have hn : (restoreSt b₁ s₀).nodes[i]? = some n ∧ u = restoreSt b₁ s₀ := by
    have := wp_of_run ((wp_getNode i (restoreSt b₁ s₀) (fun n u => (restoreSt b₁ s₀).nodes[i]? = some n ∧
      u = restoreSt b₁ s₀)).mpr (fun n hn => ⟨hn, rfl⟩)) h5
    exact this
  obtain ⟨hn1, rfl⟩ := hn
  obtain ⟨_, x₁, h6, h⟩ := run_bind_ok h
  exact ⟨i, n, x₁, h4, hn1, h6, h⟩

/-- the run of the twin -/
theorem twin_run {r r₁ : Row} {rest post : List Event} {s₀ f₂ : St} (hns : noStartL rest = true)
    (h : (steps (twin r (.row r₁ :: rest) ++ post)).run s₀ = .ok ((), f₂)) :
    ∃ o₂ a₂ b₂ z₂, (openGroup r.edges false).run s₀ = .ok ((), o₂) ∧
      (parseRow (retargetRow r₁)).run o₂ = .ok ((), a₂) ∧ (steps rest).run a₂ = .ok ((), b₂) ∧
      (closeGroup r.rowId).run b₂ = .ok ((), z₂) ∧ (steps post).run z₂ = .ok ((), f₂) := by
  have e : twin r (.row r₁ :: rest) ++ post =
      .openGroup r.edges false :: .row (retargetRow r₁) :: (rest ++ (.closeGroup r.rowId :: post)) := by
    simp only [twin, retarget, List.map_cons, retargetEv, List.cons_append, List.nil_append, List.append_assoc]
    have := retarget_of_noStart hns
    simp only [retarget] at this
    rw [this]
  rw [e] at h
  obtain ⟨o₂, h1, h⟩ := run_steps_cons h
  obtain ⟨a₂, h2, h⟩ := run_steps_cons h
  obtain ⟨b₂, h3, h⟩ := run_steps_append h
  obtain ⟨z₂, h4, h⟩ := run_steps_cons h
  unfold step at h1 h2 h4
  exact ⟨o₂, a₂, b₂, z₂, h1, h2, h3, h4, h⟩

/-- the run of `end_block` -/
theorem closeGroup_run {id : Str} {s t : St} (h : (closeGroup id).run s = .ok ((), t)) :
    ∃ b c rest, s.stack = b :: c :: rest ∧ (appendGroup b id).run { s with stack := c :: rest } = .ok ((), t) := by
  unfold closeGroup at h
  obtain ⟨s2, u, h1, h⟩ := run_bind_ok h
  obtain ⟨e1, e2⟩ := run_get_ok h1
  subst s2; subst u
  match hst : s.stack with
  | [] => rw [hst] at h; cases h
  | [b] => rw [hst] at h; cases h
  | b :: c :: rest =>
    rw [hst] at h
    simp only [] at h
    obtain ⟨_, u, h2, h⟩ := run_bind_ok h
    have : u = { s with stack := c :: rest } := by cases h2; rfl
    subst this
    exact ⟨b, c, rest, rfl, h⟩

/-! ### the entry row on both sides -/

/-- the twin when the entry row's node exists and its edge is about to be applied -/
def twT (s₀ : St) (ps : List (Nat × Cond)) (n : NodeM) (kk : Nat) : St :=
  { twO s₀ ps with nodes := s₀.nodes.push n, next := s₀.next + kk }

/-- the nested parser when the entry row's node exists -/
def insT (s₀ : St) (n : NodeM) (kk : Nat) : St :=
  { enterSt s₀ with nodes := s₀.nodes.push n, next := s₀.next + kk }

theorem bump_of_rowAction {r : Row} {s s1 : St} {act : Option (Uid × Str)} (h : (rowAction r).run s = .ok (act, s1)) :
    ∃ k, s1 = { s with next := s.next + k } := by
  obtain ⟨k, hb, _⟩ := wp_of_run (rowAction_spec r s) h
  exact ⟨k, hb⟩

theorem bump_of_rowNode {r : Row} {act : Option (Uid × Str)} {s s1 : St} {n : NodeM}
    (h : (rowNode r act).run s = .ok (n, s1)) : ∃ k, s1 = { s with next := s.next + k } := by
  obtain ⟨k, hb, _⟩ := wp_of_run (rowNode_spec r act s) h
  exact ⟨k, hb⟩

/-- `rowNode` does not read the edges -/
theorem rowNode_edges (r : Row) (es : List Edge) (act : Option (Uid × Str)) :
    rowNode { r with edges := es } act = rowNode r act := rfl

theorem rowAction_edges (r : Row) (es : List Edge) : rowAction { r with edges := es } = rowAction r := rfl

/-- the twin's entry edge: through the begin row's `no_op` group, to its parents -/
theorem twin_entry_edge {s₀ : St} {ps : List (Nat × Cond)} {n : NodeM} {kk : Nat} {d : Dest} {e : Edge}
    (he1 : e.from_ = []) (he2 : e.cond.blank = true) {e₂ : St}
    (h : ([e].forM (addRowEdge d)).run (twT s₀ ps n kk) = .ok ((), e₂)) :
    (ps.forM (fun p => addExit (2 * (s₀.groups.size + 2) + 7) p.1 d p.2)).run (twT s₀ ps n kk) = .ok ((), e₂) := by
  have h' : (addRowEdge d e).run (twT s₀ ps n kk) = .ok ((), e₂) := by
    have : ([e].forM (addRowEdge d)) = (addRowEdge d e >>= fun _ => pure PUnit.unit) := rfl
    rw [this] at h
    obtain ⟨_, u, h1, h2⟩ := run_bind_ok h
    obtain ⟨_, rfl⟩ := run_pure_ok h2
    exact h1
  have h1 : ¬ e.from_ = "start".toList := by rw [he1]; decide
  have hmr : mostRecentIn (twT s₀ ps n kk).groups (twT s₀ ps n kk).stack = some (s₀.groups.size + 1) := by
    show mostRecentIn ((s₀.groups.push (.block [s₀.groups.size + 1])).push (.noop ps none)) (s₀.groups.size :: s₀.stack) = _
    unfold mostRecentIn
    have e1 : ((s₀.groups.push (Grp.block [s₀.groups.size + 1])).push (Grp.noop ps none))[s₀.groups.size]? =
        some (.block [s₀.groups.size + 1]) := by
      rw [Array.getElem?_push]
      have : ¬ s₀.groups.size = (s₀.groups.push (Grp.block [s₀.groups.size + 1])).size := by simp
      simp [this]
    rw [e1]
    rfl
  have step1 : (groupOfEdge e).run (twT s₀ ps n kk) = .ok (some (s₀.groups.size + 1), twT s₀ ps n kk) := by
    unfold groupOfEdge
    rw [if_neg h1]
    have : e.from_.isEmpty = true := by rw [he1]; rfl
    simp only [this, not_true_eq_false, if_false]
    rw [mostRecent_run, hmr]
  have hsz : (twT s₀ ps n kk).groups.size = s₀.groups.size + 2 := by
    show ((s₀.groups.push _).push _).size = _
    simp
  have step2 : (addRowEdge d e).run (twT s₀ ps n kk) =
      (addExit (2 * (s₀.groups.size + 2) + 7 + 1) (s₀.groups.size + 1) d e.cond).run (twT s₀ ps n kk) := by
    unfold addRowEdge
    rw [run_bind_of step1]
    simp only []
    rw [run_bind_of (fuelOf_run _), hsz]
  have hgg : (getGrp (s₀.groups.size + 1)).run (twT s₀ ps n kk) = .ok (.noop ps none, twT s₀ ps n kk) := by
    have : (twT s₀ ps n kk).groups[s₀.groups.size + 1]? = some (.noop ps none) := by
      show ((s₀.groups.push (.block [s₀.groups.size + 1])).push (.noop ps none))[s₀.groups.size + 1]? = _
      rw [Array.getElem?_push]
      simp
    have hw : wp (getGrp (s₀.groups.size + 1)) (twT s₀ ps n kk) (fun g t => g = .noop ps none ∧ t = twT s₀ ps n kk) := by
      rw [wp_getGrp]
      intro g hg
      rw [this] at hg
      injection hg with hg
      exact ⟨hg.symm, rfl⟩
    cases hr : (getGrp (s₀.groups.size + 1)).run (twT s₀ ps n kk) with
    | error err =>
      exfalso
      unfold getGrp at hr
      simp only [StateT.run, bind, StateT.bind, get, getThe, MonadStateOf.get, StateT.get, Except.bind, pure,
        Except.pure, this] at hr
      cases hr
    | ok p =>
      obtain ⟨g, t⟩ := p
      obtain ⟨rfl, rfl⟩ := wp_of_run hw hr
      rfl
  rw [step2] at h'
  unfold addExit at h'
  rw [run_bind_of hgg] at h'
  simp only [he2, if_true] at h'
  exact h'

end Rpft.Compile
