/-
Renaming of the identifiers of a flow document, and: the behaviour of a flow (its transition
system, hence every trace) is invariant under an injective renaming of its identifiers.
Positions of the LTS are node INDICES, so the two systems have literally the same states,
observations, arities and successors.
-/
import Rpft.FlowSys
set_option linter.unusedSimpArgs false
set_option linter.unusedVariables false
namespace Rpft.Flow
open Function Rpft.Bisim

variable (ρ : Id → Id)

def Exit.rename (e : Exit) : Exit := { uuid := ρ e.uuid, dest := e.dest.map ρ }

def Category.rename (c : Category) : Category :=
  { uuid := ρ c.uuid, name := c.name, exitUuid := ρ c.exitUuid }

def Case.rename (k : Case) : Case := { k with uuid := ρ k.uuid, catUuid := ρ k.catUuid }

def Router.rename : Router → Router
  | .switch operand cases cats d w rn =>
    .switch operand (cases.map (Case.rename ρ)) (cats.map (Category.rename ρ)) (ρ d)
      (w.map fun o => o.map fun (p : Nat × Id) => (p.1, ρ p.2)) rn
  | .random cats rn => .random (cats.map (Category.rename ρ)) rn

def Action.rename (a : Action) : Action := { a with uuid := ρ a.uuid }

def Node.rename (n : Node) : Node :=
  { uuid := ρ n.uuid, actions := n.actions.map (Action.rename ρ),
    router := n.router.map (Router.rename ρ), exits := n.exits.map (Exit.rename ρ) }

/-- every node / action / exit / category / case identifier and every destination is renamed;
the flow's own uuid and name (not referred to from inside) stay -/
def Flow.rename (f : Flow) : Flow := { f with nodes := f.nodes.map (Node.rename ρ) }

variable {ρ}

theorem findIdx?_map_inj (h : Injective ρ) (l : List Node) (u : Id) :
    (l.map (Node.rename ρ)).findIdx? (·.uuid = ρ u) = l.findIdx? (·.uuid = u) := by
  induction l with
  | nil => rfl
  | cons n l ih =>
    simp only [List.map_cons, List.findIdx?_cons]
    by_cases hu : n.uuid = u
    · simp [hu, Node.rename]
    · have : ρ n.uuid ≠ ρ u := fun e => hu (h e)
      simp only [Node.rename, this, hu, decide_false]
      rw [show (List.map (Node.rename ρ) l).findIdx? (fun x => decide (x.uuid = ρ u))
          = l.findIdx? (fun x => decide (x.uuid = u)) from ih]

theorem findNode_rename (h : Injective ρ) (f : Flow) (u : Id) :
    findNode (f.rename ρ) (ρ u) = findNode f u := by
  unfold findNode Flow.rename
  exact findIdx?_map_inj h f.nodes u

@[simp] theorem rename_nodes_getElem? (f : Flow) (i : Nat) :
    (f.rename ρ).nodes[i]? = (f.nodes[i]?).map (Node.rename ρ) := by
  simp [Flow.rename]

@[simp] theorem rename_actions_isEmpty (n : Node) : (n.rename ρ).actions.isEmpty = n.actions.isEmpty := by
  simp [Node.rename]

@[simp] theorem rename_router_isNone (n : Node) : (n.rename ρ).router.isNone = n.router.isNone := by
  cases h : n.router <;> simp [Node.rename, h]

theorem rename_head_dest (n : Node) :
    ((n.rename ρ).exits.head?).bind (·.dest) = ((n.exits.head?).bind (·.dest)).map ρ := by
  cases h : n.exits with
  | nil => simp [Node.rename, h]
  | cons e es => simp [Node.rename, h, Exit.rename]

theorem enter_rename (h : Injective ρ) (f : Flow) : ∀ (fuel : Nat) (d : Option Id),
    enter (f.rename ρ) fuel (d.map ρ) = enter f fuel d := by
  intro fuel
  induction fuel with
  | zero => intro d; cases d <;> rfl
  | succ fuel ih =>
    intro d
    cases d with
    | none => rfl
    | some u =>
      simp only [Option.map_some, enter, findNode_rename h]
      cases hf : findNode f u with
      | none => rfl
      | some i =>
        simp only [rename_nodes_getElem?]
        cases hn : f.nodes[i]? with
        | none => rfl
        | some n =>
          simp only [Option.map_some, rename_actions_isEmpty, rename_router_isNone, rename_head_dest]
          split
          · exact ih _
          · rfl

theorem fuelOf_rename (f : Flow) : fuelOf (f.rename ρ) = fuelOf f := by
  simp [fuelOf, Flow.rename]

theorem find?_cat_rename (h : Injective ρ) (cats : List Category) (u : Id) :
    (cats.map (Category.rename ρ)).find? (·.uuid = ρ u) = (cats.find? (·.uuid = u)).map (Category.rename ρ) := by
  induction cats with
  | nil => rfl
  | cons c cs ih =>
    simp only [List.map_cons, List.find?_cons]
    by_cases hu : c.uuid = u
    · simp [hu, Category.rename]
    · have : ρ c.uuid ≠ ρ u := fun e => hu (h e)
      simp only [Category.rename, this, hu, decide_false]
      exact ih

theorem find?_exit_rename (h : Injective ρ) (es : List Exit) (u : Id) :
    (es.map (Exit.rename ρ)).find? (·.uuid = ρ u) = (es.find? (·.uuid = u)).map (Exit.rename ρ) := by
  induction es with
  | nil => rfl
  | cons c cs ih =>
    simp only [List.map_cons, List.find?_cons]
    by_cases hu : c.uuid = u
    · simp [hu, Exit.rename]
    · have : ρ c.uuid ≠ ρ u := fun e => hu (h e)
      simp only [Exit.rename, this, hu, decide_false]
      exact ih

theorem catName_rename (h : Injective ρ) (cats : List Category) (u : Id) :
    catName (cats.map (Category.rename ρ)) (ρ u) = catName cats u := by
  unfold catName
  rw [find?_cat_rename h]
  cases cats.find? (·.uuid = u) <;> simp [Category.rename]

theorem testArgs_rename (k : Case) : testArgs (k.rename ρ) = testArgs k := by
  unfold testArgs Case.rename
  rfl

theorem routerObs_rename (h : Injective ρ) (lvl : ObsLevel) (r : Router) :
    routerObs lvl (r.rename ρ) = routerObs lvl r := by
  cases r with
  | random cats rn =>
    simp [Router.rename, routerObs, List.map_map, Function.comp_def, Category.rename]
  | «switch» operand cases cats d w rn =>
    have hk : ∀ k : Case, catName (cats.map (Category.rename ρ)) (k.rename ρ).catUuid = catName cats k.catUuid :=
      fun k => catName_rename h cats k.catUuid
    have hw : (match (w.map fun o => o.map fun (p : Nat × Id) => (p.1, ρ p.2)) with
        | some (some (_, t)) => [catName (cats.map (Category.rename ρ)) t]
        | _ => []) = (match w with | some (some (_, t)) => [catName cats t] | _ => []) := by
      rcases w with _ | _ | ⟨secs, t⟩ <;> simp [catName_rename h]
    have ht : ∀ k : Case, (k.rename ρ).type = k.type := fun k => rfl
    simp only [Router.rename, routerObs, List.map_map, Function.comp_def, testArgs_rename, hk,
      catName_rename h, hw, ht]
    congr 1
    · rcases w with _ | _ | ⟨secs, t⟩
      · rfl
      · rfl
      · simp [catName_rename h]
    · rcases w with _ | _ | ⟨secs, t⟩ <;> rfl

theorem routerArity_rename (r : Router) : routerArity (r.rename ρ) = routerArity r := by
  cases r with
  | random cats rn => simp [Router.rename, routerArity]
  | «switch» operand cases cats d w rn =>
    rcases w with _ | _ | ⟨secs, t⟩ <;> simp [Router.rename, routerArity]

theorem routerChoice_rename (r : Router) (c : Nat) :
    routerChoice (r.rename ρ) c = (routerChoice r c).map ρ := by
  cases r with
  | random cats rn =>
    simp only [Router.rename, routerChoice, List.getElem?_map]
    cases cats[c]? <;> rfl
  | «switch» operand cases cats d w rn =>
    simp only [Router.rename, routerChoice, List.length_map]
    split
    · simp only [List.getElem?_map]
      cases cases[c]? <;> rfl
    · split
      · rfl
      · rcases w with _ | _ | ⟨secs, t⟩ <;> simp

theorem exitDest_rename (h : Injective ρ) (n : Node) (u : Id) :
    exitDest (n.rename ρ) (ρ u) = (exitDest n u).map ρ := by
  unfold exitDest
  simp only [Node.rename]
  rw [find?_exit_rename h]
  cases n.exits.find? (·.uuid = u) <;> simp [Exit.rename]

theorem catDest_rename (h : Injective ρ) (n : Node) (r : Router) (u : Id) :
    catDest (n.rename ρ) (r.rename ρ) (ρ u) = (catDest n r u).map ρ := by
  unfold catDest
  have : (r.rename ρ).cats = r.cats.map (Category.rename ρ) := by
    cases r <;> rfl
  rw [this, find?_cat_rename h]
  cases r.cats.find? (·.uuid = u) with
  | none => rfl
  | some c => simp [Category.rename, exitDest_rename h]

theorem choice_dest_rename (h : Injective ρ) (n : Node) (r : Router) (c : Nat) :
    (routerChoice (r.rename ρ) c).bind (catDest (n.rename ρ) (r.rename ρ)) =
      ((routerChoice r c).bind (catDest n r)).map ρ := by
  rw [routerChoice_rename]
  cases routerChoice r c with
  | none => rfl
  | some u => simp [catDest_rename h]

@[simp] theorem rename_actions_getElem? (n : Node) (k : Nat) :
    (n.rename ρ).actions[k]? = (n.actions[k]?).map (Action.rename ρ) := by
  simp [Node.rename]

theorem obsAt_rename (h : Injective ρ) (lvl : ObsLevel) (f : Flow) (s : St) :
    obsAt lvl (f.rename ρ) s = obsAt lvl f s := by
  cases s with
  | div => rfl
  | «at» p =>
    simp only [obsAt, rename_nodes_getElem?]
    cases hn : f.nodes[p.node]? with
    | none => rfl
    | some n =>
      simp only [Option.map_some, rename_actions_getElem?]
      cases ha : n.actions[p.k]? with
      | some a => simp [Action.rename]
      | none =>
        cases hr : n.router with
        | none => simp [Node.rename, hr]
        | some r => simp [Node.rename, hr, routerObs_rename h]

theorem arityAt_rename (f : Flow) (s : St) : arityAt (f.rename ρ) s = arityAt f s := by
  cases s with
  | div => rfl
  | «at» p =>
    simp only [arityAt, rename_nodes_getElem?]
    cases hn : f.nodes[p.node]? with
    | none => rfl
    | some n =>
      simp only [Option.map_some, rename_actions_getElem?]
      cases ha : n.actions[p.k]? with
      | some a => simp
      | none =>
        cases hr : n.router with
        | none => simp [Node.rename, hr]
        | some r => simp [Node.rename, hr, routerArity_rename]

theorem nextAt_rename (h : Injective ρ) (f : Flow) (s : St) (c : Nat) :
    nextAt (f.rename ρ) s c = nextAt f s c := by
  cases s with
  | div => rfl
  | «at» p =>
    simp only [nextAt, rename_nodes_getElem?, fuelOf_rename]
    cases hn : f.nodes[p.node]? with
    | none => rfl
    | some n =>
      simp only [Option.map_some, rename_actions_getElem?]
      cases ha : n.actions[p.k]? with
      | some a =>
        have hl : (n.rename ρ).actions.length = n.actions.length := by simp [Node.rename]
        simp only [Option.map_some, hl]
        split
        · rfl
        · cases hr : n.router with
          | none =>
            simp only [Node.rename, hr, Option.map_none]
            have := rename_head_dest (ρ := ρ) n
            simp only [Node.rename] at this
            rw [this]
            exact enter_rename h f _ _
          | some r => simp [Node.rename, hr]
      | none =>
        cases hr : n.router with
        | none => simp [Node.rename, hr]
        | some r =>
          have e1 : (n.rename ρ).router = some (r.rename ρ) := by simp [Node.rename, hr]
          simp only [Option.map_none, e1]
          rw [choice_dest_rename h]
          exact enter_rename h f _ _

theorem start_rename (h : Injective ρ) (f : Flow) : start (f.rename ρ) = start f := by
  unfold start
  rw [fuelOf_rename]
  have : ((f.rename ρ).nodes.head?).map (·.uuid) = ((f.nodes.head?).map (·.uuid)).map ρ := by
    cases hn : f.nodes with
    | nil => simp [Flow.rename, hn]
    | cons n ns => simp [Flow.rename, hn, Node.rename]
  rw [this]
  exact enter_rename h f _ _

theorem flowSys_rename (h : Injective ρ) (lvl : ObsLevel) (f : Flow) :
    flowSys lvl (f.rename ρ) = flowSys lvl f := by
  unfold flowSys
  congr 1
  · funext s; exact obsAt_rename h lvl f s
  · funext s; exact arityAt_rename f s
  · funext s c; exact nextAt_rename h f s c

/-- **Traces are invariant under injective renaming of identifiers**: for every observation
level, every environment and every length, a flow and the flow with all its identifiers renamed
by an injective function show the same observations. -/
theorem trace_rename (h : Injective ρ) (lvl : ObsLevel) (f : Flow) (env : Nat → Nat) (n : Nat) :
    trace lvl (f.rename ρ) env n = trace lvl f env n := by
  unfold trace
  rw [flowSys_rename h, start_rename h]

end Rpft.Flow
