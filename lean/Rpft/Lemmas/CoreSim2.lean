/-
The whole sheet: the lock-step simulation over all rows, the emitted node list, and the equality of
the index-resolved abstractions of the compiled flow and of the reference flow.
-/
import Rpft.Lemmas.CoreSim
import Rpft.Lemmas.FlowAbs
import Rpft.Lemmas.CompileFinalB
import Rpft.Lemmas.RefFlowClosed
set_option linter.unusedSimpArgs false
set_option linter.unusedVariables false
namespace Rpft.CoreSheet
open Rpft Rpft.Compile Rpft.RefFlow Rpft.Flow

theorem rel_init (rows : List CRow) (noArgs testTypes : List Str) (h : noArgs = RefFlow.noArgsTests) :
    Rel rows 0 0 (initSt noArgs testTypes) {} := by
  refine ⟨rfl, rfl, rfl, fun j hj => absurd hj (Nat.not_lt_zero j), rfl, rfl, ?_, rfl, ?_, h, ?_⟩
  · intro p hp; cases hp
  · intro e he; cases he
  · intro j hj; exact absurd hj (Nat.not_lt_zero j)

theorem pass1Row_prefix (c : CRow) (hf : rowOk c = true) (st st' : P1) (k : Nat)
    (h : pass1Row st k (toRRow c) = .ok st') : st.out.reverse <+: st'.out.reverse := by
  rw [pass1Row_node st k (toRRow c) (rowFacts c hf).kind] at h
  split at h
  · cases h
  · rename_i st1 h1
    injection h with h; subst h
    exact addEdges_prefix _ st st1 _ h1

theorem fold_prefix : ∀ (l : List CRow) (k : Nat), (∀ c ∈ l, rowOk c = true) → ∀ (st st' : P1),
    ((l.map toRRow).zipIdx k).foldlM (fun st (p : RRow × Nat) => pass1Row st p.2 p.1) st = .ok st' →
    st.out.reverse <+: st'.out.reverse := by
  intro l
  induction l with
  | nil =>
    intro k _ st st' h
    simp only [List.map_nil, List.zipIdx_nil, List.foldlM_nil, pure, Except.pure, Except.ok.injEq] at h
    subst h; exact List.prefix_rfl
  | cons c l ih =>
    intro k hf st st' h
    simp only [List.map_cons, List.zipIdx_cons, List.foldlM_cons, bind, Except.bind] at h
    cases h1 : pass1Row st k (toRRow c) with
    | error err => rw [h1] at h; cases h
    | ok st1 =>
      rw [h1] at h
      exact (pass1Row_prefix c (hf c (by simp)) st st1 k h1).trans
        (ih (k + 1) (fun c' hc' => hf c' (by simp [hc'])) st1 st' h)

theorem rows_sim (rows : List CRow) (outF : List OutEdge) (g : Good rows outF) : ∀ (l : List CRow) (k : Nat),
    (∀ (i : Nat) (c : CRow), l[i]? = some c → rows[k + i]? = some c) → (∀ c ∈ l, rowOk c = true) →
    ∀ (s : Compile.St) (st st' : P1), Rel rows k k s st →
      ((l.map toRRow).zipIdx k).foldlM (fun st (p : RRow × Nat) => pass1Row st p.2 p.1) st = .ok st' →
      st'.out.reverse <+: outF →
      wp (steps (l.map toEvent)) s (fun _ s' => Rel rows (k + l.length) (k + l.length) s' st') := by
  intro l
  induction l with
  | nil =>
    intro k _ _ s st st' h hst _
    simp only [List.map_nil, List.zipIdx_nil, List.foldlM_nil, pure, Except.pure, Except.ok.injEq] at hst
    subst hst
    simp only [List.map_nil]
    unfold steps; wp_simp
    simpa using h
  | cons c l ih =>
    intro k hrows hfr s st st' h hst hpre
    simp only [List.map_cons, List.zipIdx_cons, List.foldlM_cons, bind, Except.bind] at hst
    cases h1 : pass1Row st k (toRRow c) with
    | error err => rw [h1] at hst; cases hst
    | ok st1 =>
      rw [h1] at hst
      simp only at hst
      simp only [List.map_cons]
      unfold steps
      wp_simp
      have hck : rows[k]? = some c := by have := hrows 0 c (by simp); simpa using this
      have hpre1 : st1.out.reverse <+: outF :=
        (fold_prefix l (k + 1) (fun c' hc' => hfr c' (by simp [hc'])) st1 st' hst).trans hpre
      refine wp_mono (row_sim rows outF g k c hck (hfr c (by simp)) s st st1 h h1 hpre1) ?_
      intro _ s1 r1
      have := ih (k + 1) (fun i c' hi => by
        have := hrows (i + 1) c' (by simpa using hi)
        rw [← this]; congr 1; omega) (fun c' hc' => hfr c' (by simp [hc'])) s1 st1 st' r1 hst hpre
      refine wp_mono this ?_
      intro _ s2 r2
      have e : k + 1 + l.length = k + (c :: l).length := by simp; omega
      rw [← e]; exact r2

/-! ### the emitted nodes are the arena, in row order -/

theorem emit_rel {rows : List CRow} {n : Nat} {s : Compile.St} {st : P1} (h : Rel rows n n s st) :
    emit s (s.groups.size + 2) 0 = List.range n := by
  have h1 : ∀ j, j < n → emit s (s.groups.size + 1) (j + 1) = [j] := by
    intro j hj
    obtain ⟨t, _, ht⟩ := h.grp j hj
    simp [emit, ht]
  have e1 : emit s (s.groups.size + 1 + 1) 0 = (List.range' 1 n).flatMap (emit s (s.groups.size + 1)) := by
    simp [emit, h.root]
  rw [e1]
  have : ∀ (m : Nat), m ≤ n → (List.range' 1 m).flatMap (emit s (s.groups.size + 1)) = List.range m := by
    intro m
    induction m with
    | zero => intro _; rfl
    | succ m ihm =>
      intro hm
      rw [List.range'_concat, List.flatMap_append, ihm (by omega), List.range_succ]
      simp only [List.flatMap_cons, List.flatMap_nil, List.append_nil, Nat.one_mul]
      have := h1 m (by omega)
      rw [Nat.add_comm 1 m, this]
  exact this n (Nat.le_refl n)

instance : Inhabited NodeM := ⟨⟨[], .basic, [], none, [], .none⟩⟩

theorem out_nodes_rel {rows : List CRow} {n : Nat} {s : Compile.St} {st : P1} (h : Rel rows n n s st) :
    ((emit s (s.groups.size + 2) 0).filterMap fun i => s.nodes[i]?) = s.nodes.toList := by
  rw [emit_rel h]
  apply List.ext_getElem?
  intro i
  by_cases hi : i < n
  · have e1 : (List.range n)[i]? = some i := by simp [hi]
    rw [Array.getElem?_toList (xs := s.nodes)]
    have hlt : i < s.nodes.size := by rw [h.nsize]; exact hi
    have e2 : s.nodes[i]? = some s.nodes[i] := by simp [hlt]
    rw [e2]
    have : ((List.range n).filterMap fun i => s.nodes[i]?) = (List.range n).map (fun i => s.nodes[i]?.getD default) := by
      apply List.filterMap_eq_map_iff_forall_eq_some.mpr
      intro a ha
      have : a < s.nodes.size := by rw [h.nsize]; simpa using ha
      simp [this]
    rw [this]
    simp [hi, e2]
  · have hl1 : ((List.range n).filterMap fun i => s.nodes[i]?).length ≤ n := by
      have := List.length_filterMap_le (fun i => s.nodes[i]?) (List.range n)
      simpa using this
    rw [List.getElem?_eq_none (by omega), List.getElem?_eq_none (by simp [h.nsize]; omega)]

/-! ### finding a node by its identifier -/

theorem findNode_unique (f : Flow) (t : Nat) (u : Id) (n : Node) (ht : f.nodes[t]? = some n) (hu : n.uuid = u)
    (hnd : (f.nodes.map (·.uuid)).Nodup) : findNode f u = some t := by
  unfold findNode
  have hlt : t < f.nodes.length := (List.getElem?_eq_some_iff.mp ht).1
  have hget : f.nodes[t] = n := (List.getElem?_eq_some_iff.mp ht).2
  rw [List.findIdx?_eq_some_iff_getElem]
  refine ⟨hlt, by simp [hget, hu], ?_⟩
  intro j hj
  rw [List.nodup_iff_pairwise_ne, List.pairwise_iff_getElem] at hnd
  have := hnd j t (by simp; omega) (by simpa using hlt) hj
  simp only [List.getElem_map, hget, hu] at this
  simpa using this

/-! ### the reference nodes -/

theorem refNodes_all (rows : List RRow) (out : List OutEdge) (h : ∀ r ∈ rows, r.kind.isNode = true) :
    refNodes rows out = rows.zipIdx.map fun (p : RRow × Nat) => mkNode p.2 p.1 (out.filter (·.src = p.2)) := by
  unfold refNodes
  apply List.filterMap_eq_map_iff_forall_eq_some.mpr
  intro p hp
  have : p.1 ∈ rows := by
    have := List.mem_zipIdx' hp
    rw [this.2]; exact List.getElem_mem _
  simp [h p.1 this]

theorem refNodes_getElem? (rows : List RRow) (out : List OutEdge) (h : ∀ r ∈ rows, r.kind.isNode = true)
    (j : Nat) : (refNodes rows out)[j]? = (rows[j]?).map fun r => mkNode j r (out.filter (·.src = j)) := by
  rw [refNodes_all rows out h, List.getElem?_map, List.getElem?_zipIdx]
  cases rows[j]? <;> simp

theorem mkNode_uuid (k : Nat) (r : RRow) (out : List OutEdge) : (mkNode k r out).uuid = nodeId k :=
  (mkNode_good k r out).uuid

/-- the reference node of an action row without conditional out-edges -/
def plainRef (k : Nat) (act : Option Str) (d : Option Id) : Node :=
  { uuid := nodeId k,
    actions := (match act with
      | some a => [{ uuid := subId k "a" 0, obs := a }]
      | none => []),
    router := none,
    exits := [{ uuid := subId k "e" 0, dest := d }] }

theorem mkNode_plain (k : Nat) (r : RRow) (es : List OutEdge) (hk : r.kind = .action)
    (hb : ∀ e ∈ es, e.cond.blank = true) :
    mkNode k r es = plainRef k r.act ((es.getLast?).bind (fun e => tgtDest e.tgt)) := by
  have h1 : es.filter (fun e => !e.cond.blank) = [] := by
    rw [List.filter_eq_nil_iff]; intro e he; simp [hb e he]
  have h2 : es.filter (·.cond.blank) = es := by
    rw [List.filter_eq_self]; intro e he; exact hb e he
  unfold mkNode plainRef
  simp only [hk, h1, h2, List.isEmpty_nil, if_true, lastTgt, List.filter_true]
  cases es.getLast? <;> rfl

/-! ### abstraction of a plain node on both sides -/

theorem absNode_plain_ref (lvl : ObsLevel) (r : Flow) (k : Nat) (act : Option Str) (d : Option Id) :
    absNode lvl r (plainRef k act d) = { acts := act.toList, ask := none, dests := [destIdx r d] } := by
  cases act <;> simp [absNode, plainRef]

theorem absNode_plain_cmp (lvl : ObsLevel) (f : Flow) (n : NodeM) (act : Option Str) (hr : n.router = none)
    (ha : n.actions.map (·.2) = act.toList) :
    absNode lvl f (renderNode n) =
      { acts := act.toList, ask := none, dests := [destIdx f (renderDest n.dexitDest)] } := by
  simp only [absNode, renderNode, hr, Option.map_none, List.map_map, List.head?_cons, Option.bind_some]
  rw [← ha]
  simp [Function.comp_def]

end Rpft.CoreSheet
