/-
The whole sheet: the lock-step simulation over all rows, the emitted node list (the nodes of the
node-producing rows, in row order), and facts about the two node lists used to compare the
index-resolved abstractions of the compiled flow and of the reference flow.
-/
import Rpft.Lemmas.CoreMerge
import Rpft.Lemmas.FlowAbs
import Rpft.Lemmas.CompileFinalB
import Rpft.Lemmas.RefFlowClosed
set_option linter.unusedSimpArgs false
set_option linter.unusedVariables false
namespace Rpft.CoreSheet
open Rpft Rpft.Compile Rpft.RefFlow Rpft.Flow

theorem rel_init (rows : List CRow) (M : Maps) (hM : ∀ j, M.rOf j = none) (hel : ∀ j, M.el j = false)
    (hfr : ∀ j, M.fr j = false) (noArgs testTypes : List Str)
    (h : noArgs = RefFlow.noArgsTests) : Rel rows M false 0 (initSt noArgs testTypes) {} := by
  refine ⟨by rw [gOf_zero]; rfl, by rw [gOf_zero]; rfl, fun j c hj => absurd hj (Nat.not_lt_zero j),
    fun j c hj => absurd hj (Nat.not_lt_zero j), fun j _ _ _ => hel j, ?_, ?_, rfl, rfl,
    ?_, by simp [gOf_zero], ?_, ?_, h, ?_, ?_, ?_, fun j _ => hM j, fun j _ _ _ => hM j, ?_,
    ⟨fun p hp => by simp [initSt] at hp, fun i _ hi => absurd hi (Nat.not_lt_zero i)⟩⟩
  · intro j hj; rw [hfr j] at hj; cases hj
  · intro e he; cases he
  · intro p hp; cases hp
  · intro e he; cases he
  · intro e he; cases he
  · intro j c hv; rcases hv.1 with h1 | h1
    · exact absurd h1 (Nat.not_lt_zero j)
    · exact absurd h1.1 (by simp)
  · intro j c j' c' hv; rcases hv.1 with h1 | h1
    · exact absurd h1 (Nat.not_lt_zero j)
    · exact absurd h1.1 (by simp)
  · intro j i' hi'; rw [hM j] at hi'; cases hi'
  · intro i n r hn; simp [initSt] at hn

theorem relN_init (rows : List CRow) (M : Maps) (hM : ∀ j, M.rOf j = none) (hel : ∀ j, M.el j = false)
    (hfr : ∀ j, M.fr j = false) (noArgs testTypes : List Str)
    (h : noArgs = RefFlow.noArgsTests) : RelN rows M 0 (initSt noArgs testTypes) {} := by
  refine ⟨{}, [], rel_init rows M hM hel hfr noArgs testTypes h, rfl, rfl, ?_, rfl, ?_, ?_, ?_, ?_, ?_, ?_⟩
  · intro j; simp [outOf]
  · intro e he; cases he
  · intro e he; cases he
  · intro N hN; rw [hfr N] at hN; cases hN
  · intro N hN; rw [hel N] at hN; cases hN
  · intro N c hN; exact absurd hN (Nat.not_lt_zero N)
  · intro N _ hN; exact absurd hN (Nat.not_lt_zero N)

/-- pass 1 only ever adds out-edges -/
theorem pass1Row_prefix (r : RRow) (st st' : P1) (k : Nat) (h : pass1Row st k r = .ok st') :
    st.out.reverse <+: st'.out.reverse := by
  unfold pass1Row at h
  by_cases hg : r.kind = .goTo
  · simp only [hg, bind, Except.bind, pure, Except.pure] at h
    generalize (if r.dests.length = 1 then List.replicate _ (r.dests.headD []) else r.dests) = ds at h
    split at h
    · simp [throw, throwThe, MonadExceptOf.throw] at h
    · split at h
      · cases h
      · exact addEdges_prefix _ _ _ _ h
  · cases hk : r.kind <;> simp only [hk, bind, Except.bind, pure, Except.pure] at h
    all_goals first
      | exact absurd hk hg
      | exact addEdges_prefix _ _ _ _ h
      | (split at h
         · cases h
         · rename_i st1 h1
           injection h with h; subst h
           exact addEdges_prefix _ st st1 _ h1)

/-- the fused pass only ever adds out-edges, too -/
theorem pass1RowF_prefix (rows : List CRow) (c : CRow) (st st' : P1) (k : Nat) (h : pass1RowF rows st k c = .ok st') :
    st.out.reverse <+: st'.out.reverse := by
  unfold pass1RowF at h
  split at h
  · repeat' split at h
    all_goals first
      | (injection h with h; subst h; exact List.prefix_refl _)
      | cases h
  · exact pass1Row_prefix _ st st' k h

theorem fold_prefix (rows : List CRow) : ∀ (l : List CRow) (k : Nat) (st st' : P1),
    (l.zipIdx k).foldlM (fun st (p : CRow × Nat) => pass1RowF rows st p.2 p.1) st = .ok st' →
    st.out.reverse <+: st'.out.reverse := by
  intro l
  induction l with
  | nil =>
    intro k st st' h
    simp only [List.zipIdx_nil, List.foldlM_nil, pure, Except.pure, Except.ok.injEq] at h
    subst h; exact List.prefix_rfl
  | cons c l ih =>
    intro k st st' h
    simp only [List.zipIdx_cons, List.foldlM_cons, bind, Except.bind] at h
    cases h1 : pass1RowF rows st k c with
    | error err => rw [h1] at h; cases h
    | ok st1 =>
      rw [h1] at h
      exact (pass1RowF_prefix rows c st st1 k h1).trans (ih (k + 1) st1 st' h)

/-- a row of the fragment: the compiler machine and (fused) pass 1 stay related -/
theorem row_simN (rows : List CRow) (outF : List OutEdge) (g : Good rows outF) (hsh : noopShape rows outF = true)
    (hFull : ∃ p, outF.foldlM (schedStep rows) [] = some p) (M : Maps) (k : Nat) (c : CRow)
    (hc : rows[k]? = some c) (hf : rowOk c = true) (s : Compile.St) (stT stT' : P1) (h : RelN rows M k s stT)
    (hst : pass1RowF rows stT k c = .ok stT') (hpre : stT'.out.reverse <+: outF) :
    wp (step (toEvent c)) s (fun _ s' => ∃ M', RelN rows M' (k + 1) s' stT') := by
  cases hm : c.merged && isNamedAct c with
  | true =>
    -- a merged row is an action row
    have hf' : nodeRowOk c = true := by
      simp only [Bool.and_eq_true] at hm
      have hsp : specialTypes.contains c.row.type = false := by
        have := hm.2; unfold isNamedAct at this
        simp only [Bool.and_eq_true, Bool.not_eq_true'] at this; exact this.1
      obtain ⟨_, _, _, _, _, _, _, h8, h9, h10, h11, _⟩ := not_special hsp
      simp only [rowOk, Bool.or_eq_true] at hf
      rcases hf with ((hf | hf) | hf) | hf
      · exact hf
      · simp only [exitRow, Bool.and_eq_true, Bool.or_eq_true, decide_eq_true_eq] at hf
        rcases hf.1 with h1 | h1
        · exact absurd h1 h10
        · exact absurd h1 h11
      · simp only [gotoRow, Bool.and_eq_true, decide_eq_true_eq] at hf
        exact absurd hf.1 h9
      · simp only [noopRow, isNoop, Bool.and_eq_true, decide_eq_true_eq] at hf
        exact absurd hf.1.1 h8
    exact merge_row_simN rows outF g M k c hc hf' hm s stT stT' h hst
  | false =>
    have hst' : pass1Row stT k (toRRow c) = .ok stT' := by
      unfold pass1RowF at hst; rw [hm] at hst; simpa using hst
    simp only [rowOk, Bool.or_eq_true] at hf
    rcases hf with ((hf | hf) | hf) | hf
    · exact node_row_simN rows outF g hsh hFull M k c hc hf hm s stT stT' h hst' hpre
    · exact exit_row_simN rows outF g hsh hFull M k c hc hf s stT stT' h hst' hpre
    · exact goto_row_simN rows outF g hsh hFull M k c hc hf s stT stT' h hst' hpre
    · exact noop_row_simN rows outF g hFull M k c hc hf s stT stT' h hst' hpre

theorem rows_simN (rows : List CRow) (outF : List OutEdge) (g : Good rows outF) (hsh : noopShape rows outF = true)
    (hFull : ∃ p, outF.foldlM (schedStep rows) [] = some p) : ∀ (l : List CRow) (k : Nat),
    (∀ (i : Nat) (c : CRow), l[i]? = some c → rows[k + i]? = some c) → (∀ c ∈ l, rowOk c = true) →
    ∀ (M : Maps) (s : Compile.St) (st st' : P1), RelN rows M k s st →
      (l.zipIdx k).foldlM (fun st (p : CRow × Nat) => pass1RowF rows st p.2 p.1) st = .ok st' →
      st'.out.reverse <+: outF →
      wp (steps (l.map toEvent)) s (fun _ s' => ∃ M', RelN rows M' (k + l.length) s' st') := by
  intro l
  induction l with
  | nil =>
    intro k _ _ M s st st' h hst _
    simp only [List.zipIdx_nil, List.foldlM_nil, pure, Except.pure, Except.ok.injEq] at hst
    subst hst
    simp only [List.map_nil]
    unfold steps; wp_simp
    exact ⟨M, by simpa using h⟩
  | cons c l ih =>
    intro k hrows hfr M s st st' h hst hpre
    simp only [List.zipIdx_cons, List.foldlM_cons, bind, Except.bind] at hst
    cases h1 : pass1RowF rows st k c with
    | error err => rw [h1] at hst; cases hst
    | ok st1 =>
      rw [h1] at hst
      simp only at hst
      simp only [List.map_cons]
      unfold steps
      wp_simp
      have hck : rows[k]? = some c := by have := hrows 0 c (by simp); simpa using this
      have hpre1 : st1.out.reverse <+: outF := (fold_prefix rows _ (k + 1) st1 st' hst).trans hpre
      refine wp_mono (row_simN rows outF g hsh hFull M k c hck (hfr c (by simp)) s st st1 h h1 hpre1) ?_
      intro _ s1 ⟨M1, r1⟩
      have := ih (k + 1) (fun i c' hi => by
        have := hrows (i + 1) c' (by simpa using hi)
        rw [← this]; congr 1; omega) (fun c' hc' => hfr c' (by simp [hc'])) M1 s1 st1 st' r1 hst hpre
      refine wp_mono this ?_
      intro _ s2 ⟨M2, r2⟩
      have e : k + 1 + l.length = k + (c :: l).length := by simp; omega
      exact ⟨M2, by rw [← e]; exact r2⟩

/-! ### the emitted nodes: the nodes of the node-producing rows, in row order -/

/-- the arena indices of the nodes of row `j` (none when the row produces no node) -/
def nodeIdxs (rows : List CRow) (M : Maps) (j : Nat) : List Nat :=
  match rows[j]? with
  | some c => if isNodeRow c && !M.el j then idxs M j else []
  | none => []

theorem emit_rel {rows : List CRow} {M : Maps} {s : Compile.St} {st stT : P1} {pnd : List OutEdge}
    (h : Rel rows M false rows.length s st) (hs : Sched rows M rows.length s stT st pnd) :
    emit s (s.groups.size + 2) 0 = (List.range rows.length).flatMap (nodeIdxs rows M) := by
  have e1 : emit s (s.groups.size + 1 + 1) 0 =
      (List.range' 1 (gOf rows rows.length - 1)).flatMap (emit s (s.groups.size + 1)) := by
    simp [emit, h.root]
  rw [e1]
  have : ∀ (m : Nat), m ≤ rows.length →
      (List.range' 1 (gOf rows m - 1)).flatMap (emit s (s.groups.size + 1)) =
        (List.range m).flatMap (nodeIdxs rows M) := by
    intro m
    induction m with
    | zero => intro _; simp [gOf_zero]
    | succ m ihm =>
      intro hm
      obtain ⟨c, hc⟩ : ∃ c, rows[m]? = some c := ⟨rows[m], by simp⟩
      rw [List.range_succ, List.flatMap_append, ← ihm (by omega), gOf_succ rows m c hc]
      have hpos := gOf_pos rows m
      by_cases hn : isNodeRow c = true
      · have e2 : gOf rows m + (if isNodeRow c = true then 1 else 0) - 1 = (gOf rows m - 1) + 1 := by simp [hn] <;> omega
        rw [e2, List.range'_concat, List.flatMap_append]
        have e3 : 1 + (gOf rows m - 1) = gOf rows m := by omega
        cases hnn : isNoop c with
        | false =>
          have hg := h.grp m c (by omega) hc hn hnn
          have hel := h.elno m c hc hnn
          simp [e3, emit, hg, nodeIdxs, hc, hn, idxs, hel]
        | true =>
          obtain ⟨ps, ro, hg, hro⟩ := h.grpN m c (by omega) hc hnn
          cases hel : M.el m with
          | false =>
            rw [hro hel] at hg
            have hr : M.rOf m = none := h.rnoop m c hc hnn
            simp [e3, emit, hg, nodeIdxs, hc, hn, idxs, hel, hr]
          | true =>
            obtain ⟨ps', hg'⟩ := hs.elgrp m hel (by omega) ⟨c, hc, hnn⟩
            simp [e3, emit, hg', nodeIdxs, hc, hn, hel]
      · have hn' : isNodeRow c = false := by simpa using hn
        simp [hn', nodeIdxs, hc]
  exact this rows.length (Nat.le_refl _)

/-! ### positions in a list built by `filterMap` -/

theorem filterMap_pos {α β} (f : α → Option β) (L : List α) (t : Nat) (x : α) (y : β) (hx : L[t]? = some x)
    (hy : f x = some y) : (L.filterMap f)[((L.take t).filterMap f).length]? = some y := by
  have hlt : t < L.length := (List.getElem?_eq_some_iff.mp hx).1
  have hL : L = L.take t ++ x :: L.drop (t + 1) := by
    have := List.getElem?_eq_some_iff.mp hx
    rw [← this.2]
    simp
  have : L.filterMap f = (L.take t).filterMap f ++ y :: (L.drop (t + 1)).filterMap f := by
    conv => lhs; rw [hL]
    rw [List.filterMap_append, List.filterMap_cons, hy]
  rw [this]
  simp

theorem filterMap_map_congr {α β γ δ} (L : List α) (f : α → Option β) (g : α → Option γ) (a : β → δ) (b : γ → δ)
    (h : ∀ x ∈ L, (f x).map a = (g x).map b) : (L.filterMap f).map a = (L.filterMap g).map b := by
  induction L with
  | nil => rfl
  | cons x L ih =>
    have hx := h x (by simp)
    have ih' := ih (fun y hy => h y (by simp [hy]))
    simp only [List.filterMap_cons]
    cases hf : f x <;> cases hg : g x <;> simp [hf, hg] at hx ⊢ <;> simp [ih', hx]

/-! ### finding a node by its identifier -/

theorem findNode_unique (f : Flow) (t : Nat) (u : Id) (n : Node) (ht : f.nodes[t]? = some n) (hu : n.uuid = u)
    (hnd : (f.nodes.map (·.uuid)).Nodup) : findNode f u = some t := by
  unfold findNode
  have hlt : t < f.nodes.length := (List.getElem?_eq_some_iff.mp ht).1
  have hget : f.nodes[t] = n := (List.getElem?_eq_some_iff.mp ht).2
  rw [List.findIdx?_eq_some_iff_getElem]
  refine ⟨hlt, by simp [hget, hu], ?_⟩
  intro j hj
  rw [List.nodup_iff_pairwise_ne, List.pairwise_iff_getElem] at hnd
  have := hnd j t (by simp; omega) (by simpa using hlt) hj
  simp only [List.getElem_map, hget, hu] at this
  simpa using this

/-! ### the reference nodes -/

theorem mkNode_uuid (k : Nat) (r : RRow) (out : List OutEdge) : (mkNode k r out).uuid = nodeId k :=
  (mkNode_good k r out).uuid

/-- the reference node of an action row without conditional out-edges -/
def plainRef (k : Nat) (act : Option Str) (d : Option Id) : Node :=
  { uuid := nodeId k,
    actions := (match act with
      | some a => [{ uuid := subId k "a" 0, obs := a }]
      | none => []),
    router := none,
    exits := [{ uuid := subId k "e" 0, dest := d }] }

theorem mkNode_plain (k : Nat) (r : RRow) (es : List OutEdge) (hk : r.kind = .action)
    (hb : ∀ e ∈ es, e.cond.blank = true) :
    mkNode k r es = plainRef k r.act ((es.getLast?).bind (fun e => tgtDest e.tgt)) := by
  have h1 : es.filter (fun e => !e.cond.blank) = [] := by
    rw [List.filter_eq_nil_iff]; intro e he; simp [hb e he]
  have h2 : es.filter (·.cond.blank) = es := by
    rw [List.filter_eq_self]; intro e he; exact hb e he
  unfold mkNode plainRef
  simp only [hk, h1, h2, List.isEmpty_nil, if_true, lastTgt, List.filter_true]
  cases es.getLast? <;> rfl

/-! ### abstraction of a plain node on both sides -/

theorem absNode_plain_ref (lvl : ObsLevel) (r : Flow) (k : Nat) (act : Option Str) (d : Option Id) :
    absNode lvl r (plainRef k act d) = { acts := act.toList, ask := none, dests := [destIdx r d] } := by
  cases act <;> simp [absNode, plainRef]

theorem absNode_plain_cmp' (lvl : ObsLevel) (f : Flow) (n : NodeM) (l : List Str) (hr : n.router = none)
    (ha : n.actions.map (·.2) = l) :
    absNode lvl f (renderNode n) =
      { acts := l, ask := none, dests := [destIdx f (renderDest n.dexitDest)] } := by
  simp only [absNode, renderNode, hr, Option.map_none, List.map_map, List.head?_cons, Option.bind_some]
  rw [← ha]
  simp [Function.comp_def]

theorem absNode_plain_cmp (lvl : ObsLevel) (f : Flow) (n : NodeM) (act : Option Str) (hr : n.router = none)
    (ha : n.actions.map (·.2) = act.toList) :
    absNode lvl f (renderNode n) =
      { acts := act.toList, ask := none, dests := [destIdx f (renderDest n.dexitDest)] } := by
  simp only [absNode, renderNode, hr, Option.map_none, List.map_map, List.head?_cons, Option.bind_some]
  rw [← ha]
  simp [Function.comp_def]

end Rpft.CoreSheet
