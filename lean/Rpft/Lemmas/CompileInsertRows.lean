/-
Rows: `no_op` rows, `go_to` rows, merging rows, rows creating a node — `_parse_row`.
-/
import Rpft.Lemmas.CompileInsertScope2
import Rpft.Lemmas.CompileInsertDex
set_option linter.unusedSimpArgs false
set_option linter.unusedVariables false
namespace Rpft.Compile
open Rpft Function

variable {P : Params} {X : SParams}

/-- what the edges of a row must satisfy in the current left state -/
def EdgesPre (P : Params) (X : SParams) (s₁ : St) (es : List Edge) : Prop :=
  (∀ e ∈ es, e.from_ ≠ [] → e.from_ ∉ X.F) ∧ ((∃ e ∈ es, e.from_ = []) → MR P s₁)

theorem EdgesPre.of_blkEq {s t : St} {es : List Edge} (hb : BlkEq s t) (h : EdgesPre P X s es) : EdgesPre P X t es :=
  ⟨h.1, fun he => (h.2 he).of_blkEq hb⟩

theorem EdgesPre.mem {s : St} {es : List Edge} (h : EdgesPre P X s es) {e : Edge} (he : e ∈ es) :
    (e.from_ ≠ [] → e.from_ ∉ X.F) ∧ (e.from_ = [] → MR P s) :=
  ⟨h.1 e he, fun h0 => h.2 ⟨e, he, h0⟩⟩

theorem BlkEq.push {s : St} {g : Grp} (hg : ∀ cs, g ≠ .block cs) (s' : St)
    (e1 : s'.groups = s.groups.push g) (e2 : s'.stack = s.stack) (e3 : s.nodes.size ≤ s'.nodes.size) :
    BlkEq s s' := by
  refine ⟨e2, fun j cs => ?_, by rw [e1]; simp, ?_, e3⟩
  · rw [e1, Array.getElem?_push]
    by_cases hj : j = s.groups.size
    · simp only [hj, if_true]
      constructor
      · intro e; injection e with e; exact absurd e (hg cs)
      · intro e; simp at e
    · simp [hj]
  · intro j i l t hgj
    exact ⟨l, by rw [e1]; exact getElem?_push_lt' hgj⟩

theorem spost_trans {s₁ s₂ u₁ u₂ t₁ t₂ : St} (e1 : SEq s₁ u₁) (e2 : SEq s₂ u₂) (hb : BlkEq s₁ u₁)
    (h : SPost P X u₁ u₂ ⟨⟩ t₁ ⟨⟩ t₂) : SPost P X s₁ s₂ ⟨⟩ t₁ ⟨⟩ t₂ :=
  ⟨h.1, e1.trans h.2.1, e2.trans h.2.2.1, hb.trans h.2.2.2⟩

/-- one incoming edge of a `no_op` row -/
theorem noopEdge_rel (ok : P.Ok) {s₁ s₂ : St} (h : Sim P X s₁ s₂) {g : Nat} (hdg : P.DG g) (htg : ¬ P.T g) (e : Edge)
    (hF : e.from_ ≠ [] → e.from_ ∉ X.F) (hmr : e.from_ = [] → MR P s₁) (hrv : RV s₁) :
    rwp (noopEdge g e) (noopEdge (P.γ g) e) s₁ s₂ (SPost P X s₁ s₂) := by
  unfold noopEdge
  rw [rwp_bind]
  refine rwp_mono (groupOfEdge_rel ok h e hF hmr) ?_
  intro a t₁ b t₂ ⟨⟨hb, hj⟩, e1, e2⟩
  subst b; subst t₁; subst t₂
  cases a with
  | none =>
    simp only [Option.map_none]
    rw [rwp_pure]
    exact ⟨h, SEq.refl _, SEq.refl _, BlkEq.refl _⟩
  | some src =>
    simp only [Option.map_some]
    rw [rwp_bind]
    refine rwp_mono (getGrp_rel h.1 hdg) ?_
    intro grp t₁ grp' t₂ ⟨hg', hg, e1, e2⟩
    subst grp'; subst t₁; subst t₂
    have hcl := h.1.closed g grp hdg hg
    cases grp with
    | row _ _ => exact rwp_fail_left _ _ _ _ _
    | block _ => exact rwp_fail_left _ _ _ _ _
    | noop parents router =>
      simp only [mapGrpAt_noop]
      have a1 := h.1.setGrp ok hdg hg (g' := .noop (parents ++ [(src, e.cond)]) router)
        (by intro i hi; exact hcl.1 i (by cases router <;> simp [gnodes] at hi ⊢ <;> exact hi))
        (by
          intro x hx
          simp only [grefs, List.map_append, List.map_cons, List.map_nil, List.mem_append, List.mem_singleton] at hx
          rcases hx with hx | hx
          · exact hcl.2 x (by simpa [grefs] using hx)
          · rw [hx]; exact (hj src rfl).1)
        (by
          intro _ x hx
          simp only [grefs, List.map_append, List.map_cons, List.map_nil, List.mem_append, List.mem_singleton] at hx
          rcases hx with hx | hx
          · exact h.1.ra g _ hdg htg hg x (by simpa [grefs] using hx)
          · rw [hx]; exact (hj src rfl).2.1)
        (by
          intro hhb hgb
          obtain ⟨c, cs, e'⟩ := h.1.bne hhb
          rw [← hgb, hg] at e'; cases e')
        (by
          have hw := h.1.wf g _ hg
          refine ⟨fun i hi => hw.1 i (by cases router <;> simp [gnodes] at hi ⊢ <;> exact hi), ?_⟩
          intro x hx
          simp only [grefs, List.map_append, List.map_cons, List.map_nil, List.mem_append, List.mem_singleton] at hx
          rcases hx with hx | hx
          · exact hw.2 x (by simpa [grefs] using hx)
          · rw [hx]; exact (hj src rfl).2.2 hrv)
        (by intro _ nodes0 t0 e0; cases e0)
      have em : mapGrpAt P g (.noop (parents ++ [(src, e.cond)]) router) =
          .noop (parents.map (fun p => (P.γ p.1, p.2)) ++ [(P.γ src, e.cond)]) (router.map P.ν) := by
        simp [mapGrpAt, mapGrp]
      rw [em] at a1
      have hblk : BlkEq s₁ { s₁ with groups := s₁.groups.setIfInBounds g (.noop (parents ++ [(src, e.cond)]) router) } :=
        BlkEq.set hg (by intro cs e'; cases e') (by intro cs e'; cases e') (by intro i l t e'; cases e') _ rfl rfl (Nat.le_refl _)
      have hsim : Sim P X _ _ := ⟨a1, h.2.of_seq ⟨rfl, rfl, rfl⟩ ⟨rfl, rfl, rfl⟩⟩
      rw [rwp_bind, rwp_iff_wp, wp_setGrp]
      rw [wp_setGrp]
      cases router with
      | none =>
        simp only [Option.map_none]
        rw [rwp_pure]
        exact ⟨hsim, ⟨rfl, rfl, rfl⟩, ⟨rfl, rfl, rfl⟩, hblk⟩
      | some j =>
        simp only [Option.map_some]
        have hdj : P.DN j := hcl.1 j (by simp [gnodes])
        rw [rwp_bind]
        refine rwp_mono (getNode_rel hsim.1 hdj) ?_
        intro n t₁ n' t₂ ⟨hn', hn, e1, e2⟩
        subst n'; subst t₁; subst t₂
        rw [rwp_bind]
        refine rwp_of_run (fuelOf_run _) (fuelOf_run _) ?_
        refine rwp_mono (addExit_srel ok hsim _ _ (hj src rfl).1 (hj src rfl).2.1 (.node n.uid) e.cond
          (fun _ e' => by cases e')) ?_
        intro _ t₁ _ t₂ hp
        refine spost_trans ?_ ?_ hblk hp
        · exact ⟨rfl, rfl, rfl⟩
        · exact ⟨rfl, rfl, rfl⟩

/-- scope-level loop: every iteration keeps `SPost` w.r.t. the start -/
theorem srel_forM {β : Type} (l : List β) (f₁ f₂ : β → M PUnit) {s₁ s₂ : St} (h : Sim P X s₁ s₂)
    (hf : ∀ x ∈ l, ∀ u₁ u₂, Sim P X u₁ u₂ → BlkEq s₁ u₁ → SEq s₁ u₁ →
      rwp (f₁ x) (f₂ x) u₁ u₂ (SPost P X u₁ u₂)) :
    rwp (l.forM f₁) (l.forM f₂) s₁ s₂ (SPost P X s₁ s₂) := by
  have := rwp_forM (fun t₁ t₂ => Sim P X t₁ t₂ ∧ SEq s₁ t₁ ∧ SEq s₂ t₂ ∧ BlkEq s₁ t₁) id l
    f₁ f₂ ?_ s₁ s₂ ⟨h, SEq.refl _, SEq.refl _, BlkEq.refl _⟩
  · rw [List.map_id] at this; exact this
  · intro x hx u₁ u₂ ⟨hu, e1, e2, hb⟩
    refine rwp_mono (hf x hx u₁ u₂ hu hb e1) ?_
    intro _ t₁ _ t₂ ⟨ht, e1', e2', hb'⟩
    exact ⟨ht, e1.trans e1', e2.trans e2', hb.trans hb'⟩

/-- `_parse_noop_row` -/
theorem parseNoop_rel (ok : P.Ok) {s₁ s₂ : St} (h : Sim P X s₁ s₂) (edges : List Edge) (rowId : Str)
    (hpre : EdgesPre P X s₁ edges) (hrv : RV s₁) :
    rwp (parseNoop edges rowId) (parseNoop edges rowId) s₁ s₂ (fun _ t₁ _ t₂ =>
      Sim P X t₁ t₂ ∧ t₁.stack = s₁.stack ∧ MR P t₁ ∧ Eff P s₁ t₁) := by
  unfold parseNoop
  rw [rwp_bind, rwp_iff_wp, wp_addGrp]
  rw [wp_addGrp]
  have hd := h.1.gdom s₁.groups.size (Nat.le_refl _)
  have h0 : P.γ s₁.groups.size = s₂.groups.size := by simpa using h.1.gsync 0
  have a1 := h.1.addGrp (.noop [] none) (by intro i hi; simp [gnodes] at hi) (by intro x hx; simp [grefs] at hx)
    (by intro x hx; simp [grefs] at hx) ⟨by intro i hi; simp [gnodes] at hi, by intro x hx; simp [grefs] at hx⟩
  have hrv1 : RV { s₁ with groups := s₁.groups.push (.noop [] none) } := by
    intro p hp
    have := hrv p hp
    simp; omega
  have hblk : BlkEq s₁ { s₁ with groups := s₁.groups.push (.noop [] none) } :=
    BlkEq.push (by intro cs e; cases e) _ rfl rfl (Nat.le_refl _)
  have hsim : Sim P X { s₁ with groups := s₁.groups.push (.noop [] none) }
      { s₂ with groups := s₂.groups.push (.noop [] none) } :=
    ⟨a1, h.2.of_seq ⟨rfl, rfl, rfl⟩ ⟨rfl, rfl, rfl⟩⟩
  rw [rwp_bind]
  refine rwp_mono (srel_forM edges (noopEdge s₁.groups.size) (noopEdge s₂.groups.size) hsim ?_) ?_
  · intro e he u₁ u₂ hu hb hse
    have hp := (hpre.of_blkEq (hblk.trans hb)).mem he
    have hrvu : RV u₁ := (Eff.of_blkEq (P := P) hb hse.2.1).rv hrv1
    have := noopEdge_rel ok hu hd.1 hd.2 e hp.1 hp.2 hrvu
    rw [h0] at this
    exact this
  · intro _ u₁ _ u₂ ⟨hu, e1, e2, hb⟩
    have hltu : s₁.groups.size < u₁.groups.size := by
      have := hb.2.2.1
      simp at this; omega
    have := appendGroup_rel ok hu rowId hd.1 hltu (fun ht => absurd ht hd.2)
    rw [h0] at this
    refine rwp_mono this ?_
    intro _ t₁ _ t₂ ⟨ht, e3, _, _, hsb, hrvt, hhk, hm⟩
    have ef1 : Eff P s₁ u₁ := Eff.of_blkEq (hblk.trans hb) e1.2.1
    exact ⟨ht, e3.trans e1.1, (hm hd.2).1, fun _ => (hm hd.2).1,
      fun hcl => (hm hd.2).2 (ef1.cl hcl), fun hs => hsb (ef1.sb hs), fun hr => hrvt (ef1.rv hr),
      ef1.hk.trans hhk⟩

/-- one edge of a `go_to` row -/
theorem gotoEdge_rel (ok : P.Ok) {s₁ s₂ : St} (h : Sim P X s₁ s₂) (ed : Edge × Str) (hd : ed.2 ∉ X.F)
    (hF : ed.1.from_ ≠ [] → ed.1.from_ ∉ X.F) (hmr : ed.1.from_ = [] → MR P s₁) :
    rwp (gotoEdge ed) (gotoEdge ed) s₁ s₂ (SPost P X s₁ s₂) := by
  unfold gotoEdge
  rw [rwp_bind]
  refine rwp_of_run (lookupRow_run _ s₁) (lookupRow_run _ s₂) ?_
  cases hl : lookupIn s₁.rowIds ed.2 with
  | none => exact rwp_fail_left _ _ _ _ _
  | some g =>
    rw [h.2.ri ed.2 g hd hl]
    simp only []
    have hm := lookupIn_mem hl
    have hdg : P.DG g := h.2.riDG _ hm
    have htg : ¬ P.T g := fun ht => hd (h.2.rl _ hm ht)
    rw [rwp_bind]
    refine rwp_of_run (fuelOf_run s₁) (fuelOf_run s₂) ?_
    rw [rwp_bind]
    refine rwp_mono (entryNode_rel ok h.1 _ _ g hdg htg) ?_
    intro i t₁ i' t₂ ⟨⟨hi', hdi⟩, e1, e2⟩
    subst i'; subst t₁; subst t₂
    rw [rwp_bind]
    refine rwp_mono (getNode_rel h.1 hdi) ?_
    intro n t₁ n' t₂ ⟨hn', hn, e1, e2⟩
    subst n'; subst t₁; subst t₂
    exact addRowEdge_rel ok h (.node n.uid) ed.1 hF hmr (fun _ e' => by cases e')

theorem mem_zip_left {α β : Type} {l : List α} {m : List β} {p : α × β} (h : p ∈ l.zip m) : p.1 ∈ l ∧ p.2 ∈ m :=
  ⟨(List.of_mem_zip h).1, (List.of_mem_zip h).2⟩

theorem parseGoto_rel (ok : P.Ok) {s₁ s₂ : St} (h : Sim P X s₁ s₂) (r : Row)
    (hpre : EdgesPre P X s₁ r.edges) (hds : ∀ d ∈ r.dests, d ∉ X.F) :
    rwp (parseGoto r) (parseGoto r) s₁ s₂ (SPost P X s₁ s₂) := by
  unfold parseGoto
  simp only []
  refine rwp_ite (fun _ => rwp_fail_left _ _ _ _ _) fun _ => ?_
  refine srel_forM _ gotoEdge gotoEdge h ?_
  intro ed hed u₁ u₂ hu hb _
  obtain ⟨he, hd⟩ := mem_zip_left hed
  have hp := (hpre.of_blkEq hb).mem he
  refine gotoEdge_rel ok hu ed ?_ hp.1 hp.2
  split at hd
  · rename_i h1
    have := List.eq_of_mem_replicate hd
    rw [this]
    match hr : r.dests, h1 with
    | [x], _ => simp only [List.headD_cons]; exact hds x (by rw [hr]; simp)
  · exact hds _ hd

theorem SSim.consAlias {s₁ s₂ : St} (h : SSim P X s₁ s₂) (id : Str) (hid0 : id ≠ []) {g : Nat} (hd : P.DG g)
    (ht : ¬ P.T g) (t₁ t₂ : St)
    (e1 : t₁.stack = s₁.stack) (e2 : t₁.rowIds = (id, g) :: s₁.rowIds) (e3 : t₁.names = s₁.names)
    (f1 : t₂.stack = s₂.stack) (f2 : t₂.rowIds = (id, P.γ g) :: s₂.rowIds) (f3 : t₂.names = s₂.names) :
    SSim P X t₁ t₂ :=
  h.consRowId id hid0 hd (fun h' => absurd h' ht) t₁ t₂ e1 e2 e3 f1 f2 f3

/-- a row naming an existing node adds its action to that node -/
theorem mergeRow_rel (ok : P.Ok) {s₁ s₂ : St} (h : Sim P X s₁ s₂) (r : Row) {ex : Nat} (hdx : P.DN ex) (act : Str)
    (hpre : EdgesPre P X s₁ r.edges) :
    rwp (mergeRow r ex act) (mergeRow r (P.ν ex) act) s₁ s₂ (fun _ t₁ _ t₂ =>
      Sim P X t₁ t₂ ∧ BlkEq s₁ t₁ ∧ (RV s₁ → RV t₁)) := by
  unfold mergeRow
  match hre : r.edges with
  | [] => exact rwp_fail_left _ _ _ _ _
  | _ :: _ :: _ => exact rwp_fail_left _ _ _ _ _
  | [e] =>
    simp only []
    have hp := hpre.mem (e := e) (by rw [hre]; simp)
    refine rwp_ite (fun _ => rwp_fail_left _ _ _ _ _) fun _ => ?_
    rw [rwp_bind]
    -- the predecessor group
    have hpred : rwp (predGroup e) (predGroup e) s₁ s₂
        (RO (fun a b => ∀ j, a = some j → b = some (P.γ j) ∧ P.DG j ∧ ¬ P.T j) s₁ s₂) := by
      unfold predGroup
      by_cases hem : e.from_.isEmpty = true
      · simp only [hem, if_true]
        have he : e.from_ = [] := by simpa using hem
        obtain ⟨e1, e2⟩ := mostRecent_sim ok h
        refine rwp_of_run (mostRecent_run s₁) (mostRecent_run s₂) ⟨fun j hj => ⟨?_, e2 j hj, hp.2 he j hj⟩, rfl, rfl⟩
        rw [e1, hj]; rfl
      · simp only [hem, Bool.false_eq_true, if_false]
        have he : e.from_ ≠ [] := by simpa using hem
        refine rwp_of_run (lookupRow_run _ s₁) (lookupRow_run _ s₂) ⟨fun j hj => ?_, rfl, rfl⟩
        have hm := lookupIn_mem hj
        exact ⟨h.2.ri e.from_ j (hp.1 he) hj, h.2.riDG _ hm, fun ht => hp.1 he (h.2.rl _ hm ht)⟩
    refine rwp_mono hpred ?_
    intro a t₁ b t₂ ⟨hab, e1, e2⟩
    subst t₁; subst t₂
    cases a with
    | none => exact rwp_fail_left _ _ _ _ _
    | some pg =>
      obtain ⟨hb, hdpg, htpg⟩ := hab pg rfl
      subst hb
      simp only []
      rw [rwp_bind]
      refine rwp_of_run (fuelOf_run s₁) (fuelOf_run s₂) ?_
      rw [rwp_bind]
      refine rwp_mono (entryNode_rel ok h.1 _ _ pg hdpg htpg) ?_
      intro en t₁ en' t₂ ⟨⟨hen', hden⟩, e1, e2⟩
      subst en'; subst t₁; subst t₂
      by_cases hne : en = ex
      · have hne' : P.ν en = P.ν ex := by rw [hne]
        rw [if_neg (show ¬ (en ≠ ex) from fun h' => h' hne),
          if_neg (show ¬ (P.ν en ≠ P.ν ex) from fun h' => h' hne')]
        refine rwp_bind_id IdRel.fresh h.1.idSync ?_
        intro au k
        have a0 := bump_asim h.1 k
        rw [rwp_bind]
        refine rwp_mono (getNode_rel a0 hdx) ?_
        intro n t₁ n' t₂ ⟨hn', hn, e1, e2⟩
        subst n'; subst t₁; subst t₂
        have a1 := a0.setNode ok hdx hn (n' := { n with actions := n.actions ++ [(au, act)] }) (.inl rfl)
          (fun _ hl => noLoose_actions _ hl)
        rw [rwp_bind, rwp_iff_wp, wp_setNode]
        rw [wp_setNode]
        have e3 : (rnNode P.ρ { n with actions := n.actions ++ [(au, act)] }) =
            { rnNode P.ρ n with actions := (rnNode P.ρ n).actions ++ [(P.ρ au, act)] } := by
          simp [rnNode, rnAct]
        rw [← e3]
        cases hid : r.rowId.isEmpty with
        | true =>
          simp only [if_true]
          rw [rwp_pure]
          exact ⟨⟨a1, h.2.of_seq ⟨rfl, rfl, rfl⟩ ⟨rfl, rfl, rfl⟩⟩, (by apply BlkEq.of_groups <;> first | rfl | simp), fun hr => hr⟩
        | false =>
          simp only [Bool.false_eq_true, if_false]
          rw [rwp_bind]
          refine rwp_of_run (lookupRow_run _ _) (lookupRow_run _ _) ?_
          simp only []
          cases hl : lookupIn s₁.rowIds e.from_ with
          | none => exact rwp_fail_left _ _ _ _ _
          | some g0 =>
            have hm := lookupIn_mem hl
            by_cases he0 : e.from_ = []
            · -- an empty `from` is never a key that was looked up successfully before: the predecessor came
              -- from `mostRecent`; the alias is recorded for whatever the empty key names
              exact absurd he0 (by have := h.2.rk _ hm; exact this)
            · rw [h.2.ri e.from_ g0 (hp.1 he0) hl]
              simp only []
              rw [rwp_iff_wp, wp_modify, wp_modify]
              refine ⟨⟨a1.congr rfl rfl rfl rfl rfl rfl rfl rfl rfl rfl, ?_⟩,
                (by apply BlkEq.of_groups <;> first | rfl | simp), ?_⟩
              · have hidne : r.rowId ≠ [] := by intro e'; rw [e'] at hid; cases hid
                exact h.2.consAlias r.rowId hidne (h.2.riDG _ hm) (fun ht => hp.1 he0 (h.2.rl _ hm ht)) _ _
                  rfl rfl rfl rfl rfl rfl
              · intro hr p hp
                simp only [List.mem_cons] at hp
                rcases hp with hp | hp
                · rw [hp]; exact hr (e.from_, g0) hm
                · exact hr p hp
      · have hne' : P.ν en ≠ P.ν ex := fun e' => hne (ok.hν e')
        rw [if_pos hne]
        exact rwp_fail_left _ _ _ _ _

theorem SSim.consName {s₁ s₂ : St} (h : SSim P X s₁ s₂) (nmv : Str) {i : Nat} (hd : P.DN i) (t₁ t₂ : St)
    (e1 : t₁.stack = s₁.stack) (e2 : t₁.rowIds = s₁.rowIds) (e3 : t₁.names = (nmv, i) :: s₁.names)
    (f1 : t₂.stack = s₂.stack) (f2 : t₂.rowIds = s₂.rowIds) (f3 : t₂.names = (nmv, P.ν i) :: s₂.names) :
    SSim P X t₁ t₂ := by
  constructor
  · rw [e1, f1]; exact h.stack
  · rw [e1]; exact h.stackDG
  · rw [e1]; exact h.tl
  · rw [e1]; exact h.bxs
  · rw [e1]; exact h.ss
  · rw [e2, f2]; exact h.ri
  · rw [e2]; exact h.riDG
  · rw [e2]; exact h.rl
  · rw [e2]; exact h.rk
  · rw [e2, f2]; exact h.rk2
  · intro hall x hx
    rw [e3, f3, lookupIn_cons, lookupIn_cons]
    simp only []
    by_cases hid : nmv = x
    · simp [hid]
    · simp only [hid, if_false]; exact h.nm hall x hx
  · intro p hp
    rw [e3] at hp
    simp only [List.mem_cons] at hp
    rcases hp with hp | hp
    · rw [hp]; exact hd
    · exact h.nmDN p hp

/-- a row that creates its own node and row group -/
theorem newRow_rel (ok : P.Ok) {s₁ s₂ : St} (h : Sim P X s₁ s₂) (r : Row) (nodeName : Str)
    (hgiv : P.ρ r.nodeUuid = r.nodeUuid) (hpre : EdgesPre P X s₁ r.edges) :
    rwp (newRow r nodeName) (newRow r nodeName) s₁ s₂ (fun _ t₁ _ t₂ =>
      Sim P X t₁ t₂ ∧ t₁.stack = s₁.stack ∧ MR P t₁ ∧ Eff P s₁ t₁) := by
  unfold newRow
  refine rwp_bind_id (rowAction_rel r) h.1.idSync ?_
  intro act k0
  have a0 := bump_asim h.1 k0
  refine rwp_bind_id_u (rowNode_dex r act _) (rowNode_rel ok.hρ r act hgiv) a0.idSync ?_
  intro n k1 hdexn
  have a1 := (bump_asim a0 k1).addNode n (.inl hdexn)
  dsimp only at a1 ⊢
  have hs1 : Sim P X _ _ := ⟨a1, h.2.of_seq ⟨rfl, rfl, rfl⟩ ⟨rfl, rfl, rfl⟩⟩
  have hb1 : BlkEq s₁ { s₁ with next := s₁.next + k0 + k1, nodes := s₁.nodes.push n } :=
    (by apply BlkEq.of_groups <;> first | rfl | simp)
  have h0 : P.ν s₁.nodes.size = s₂.nodes.size := by simpa using h.1.nsync 0
  have hdi : P.DN s₁.nodes.size := h.1.ndom _ (Nat.le_refl _)
  rw [rwp_bind, rwp_iff_wp, wp_addNode]
  rw [wp_addNode]
  rw [rwp_bind]
  refine rwp_mono (edges_rel ok hs1 (.node n.uid) r.edges hpre.1 (fun he => (hpre.2 he).of_blkEq hb1) (fun _ e' => by cases e')) ?_
  intro _ u₁ _ u₂ ⟨hu, e1, e2, hb⟩
  have hdg := hu.1.gdom u₁.groups.size (Nat.le_refl _)
  have hg0 : P.γ u₁.groups.size = u₂.groups.size := by simpa using hu.1.gsync 0
  have hnlt : s₁.nodes.size < u₁.nodes.size := by
    have := hb.2.2.2.2
    simp at this; omega
  have a2 := hu.1.addGrp (.row [s₁.nodes.size] r.type)
    (by intro i hi; simp only [gnodes, List.mem_singleton] at hi; rw [hi]; exact hdi)
    (by intro x hx; simp [grefs] at hx) (by intro x hx; simp [grefs] at hx)
    ⟨by intro i hi; simp only [gnodes, List.mem_singleton] at hi; rw [hi]; exact hnlt,
      by intro x hx; simp [grefs] at hx⟩
  have em : mapGrp P (.row [s₁.nodes.size] r.type) = .row [s₂.nodes.size] r.type := by
    simp [mapGrp, h0]
  rw [em] at a2
  have hs2 : Sim P X _ _ := ⟨a2, hu.2.of_seq ⟨rfl, rfl, rfl⟩ ⟨rfl, rfl, rfl⟩⟩
  have hb2 : BlkEq u₁ { u₁ with groups := u₁.groups.push (.row [s₁.nodes.size] r.type) } :=
    BlkEq.push (by intro cs e; cases e) _ rfl rfl (Nat.le_refl _)
  rw [rwp_bind, rwp_iff_wp, wp_addGrp]
  rw [wp_addGrp]
  rw [rwp_bind]
  have hap := appendGroup_rel ok hs2 r.rowId hdg.1 (by simp) (fun ht => absurd ht hdg.2)
  rw [hg0] at hap
  refine rwp_mono hap ?_
  intro _ v₁ _ v₂ ⟨hv, e3, e4, e5, hsb, hrvt, hhk, hm⟩
  rw [rwp_iff_wp, wp_modify, wp_modify]
  have hbb : BlkEq s₁ { u₁ with groups := u₁.groups.push (.row [s₁.nodes.size] r.type) } :=
    (hb1.trans hb).trans hb2
  have hst : v₁.stack = s₁.stack := by rw [e3]; exact e1.1
  refine ⟨⟨hv.1.congr rfl rfl rfl rfl rfl rfl rfl rfl rfl rfl,
    hv.2.consName nodeName hdi _ _ rfl rfl rfl rfl rfl (by rw [h0])⟩, hst, ?_, ?_, ?_, ?_, ?_, ?_⟩
  · have := (hm hdg.2).1
    intro x hx; exact this x hx
  · intro _
    have := (hm hdg.2).1
    intro x hx; exact this x hx
  · intro hcl
    have := (hm hdg.2).2 (hcl.of_blkEq hbb)
    exact ⟨this.1, this.2⟩
  · intro hs
    have := hsb (hs.of_blkEq hbb)
    intro b hb; exact this b hb
  · intro hr
    have ef : Eff P s₁ { u₁ with groups := u₁.groups.push (.row [s₁.nodes.size] r.type) } :=
      Eff.of_blkEq hbb e1.2.1
    have := hrvt (ef.rv hr)
    intro p hp; exact this p hp
  · have h1 := (HeadKeep.of_blkEq hbb).trans hhk
    exact ⟨fun j i l t hg => h1.1 j i l t hg, fun j c cs hg => h1.2.1 j c cs hg, h1.2.2⟩

/-- an action row -/
theorem actionRow_rel (ok : P.Ok) {s₁ s₂ : St} (h : Sim P X s₁ s₂) (r : Row)
    (hgiv : P.ρ r.nodeUuid = r.nodeUuid) (hpre : EdgesPre P X s₁ r.edges)
    (hnmk : X.nmAll = true ∨ (r.nodeUuid = [] ∧ r.nodeName = [])) :
    rwp (actionRow r) (actionRow r) s₁ s₂ (fun _ t₁ _ t₂ =>
      Sim P X t₁ t₂ ∧ t₁.stack = s₁.stack ∧ Eff P s₁ t₁ ∧
      (r.nodeUuid = [] → r.nodeName = [] → MR P t₁)) := by
  unfold actionRow
  refine rwp_ite (fun _ => rwp_fail_left _ _ _ _ _) fun _ => ?_
  simp only []
  rw [rwp_get]
  have newc : rwp (newRow r (if r.nodeUuid.isEmpty = true then r.nodeName else r.nodeUuid))
      (newRow r (if r.nodeUuid.isEmpty = true then r.nodeName else r.nodeUuid)) s₁ s₂ (fun _ t₁ _ t₂ =>
      Sim P X t₁ t₂ ∧ t₁.stack = s₁.stack ∧ Eff P s₁ t₁ ∧
      (r.nodeUuid = [] → r.nodeName = [] → MR P t₁)) := by
    refine rwp_mono (newRow_rel ok h r _ hgiv hpre) ?_
    intro _ t₁ _ t₂ ⟨ht, e, hm, hc⟩
    exact ⟨ht, e, hc, fun _ _ => hm⟩
  generalize hnn : (if r.nodeUuid.isEmpty = true then r.nodeName else r.nodeUuid) = nodeName at newc ⊢
  by_cases hne : nodeName.isEmpty = true
  · simp only [hne, if_true]
    exact newc
  · simp only [hne, Bool.false_eq_true, if_false]
    have hne' : nodeName ≠ [] := by simpa using hne
    have hall : X.nmAll = true := by
      rcases hnmk with hh | hh
      · exact hh
      · exfalso; apply hne'; rw [← hnn]; simp [hh.1, hh.2]
    have hnm := h.2.nm hall nodeName hne'
    unfold lookupIn at hnm
    rw [hnm]
    cases hf : (s₁.names.find? (·.1 = nodeName)) with
    | none => simp only [Option.map_none]; exact newc
    | some p =>
      simp only [Option.map_some]
      cases hact : r.action with
      | none => exact newc
      | some act =>
        simp only []
        have hdx : P.DN p.2 := h.2.nmDN p (List.mem_of_find?_eq_some hf)
        refine rwp_mono (mergeRow_rel ok h r hdx act hpre) ?_
        intro _ t₁ _ t₂ ⟨ht, hb, hrv'⟩
        refine ⟨ht, hb.1, Eff.of_blkEq' hb hrv', ?_⟩
        intro h1 h2
        exfalso
        apply hne'
        rw [← hnn]
        simp [h1, h2]

end Rpft.Compile
