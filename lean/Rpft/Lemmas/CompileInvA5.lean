/-
Layer A, the parser: every event (row, open/close group, inserted block) preserves the arena
invariants; hence they hold for the final state of every successful compilation.
-/
import Rpft.Lemmas.CompileInvA4
set_option linter.unusedSimpArgs false
set_option linter.unusedVariables false
namespace Rpft.Compile
open Rpft

/-! "no identifiers are given in the sheet": every row, also inside inserted blocks, has an
empty `_nodeId` -/
mutual
def Event.noIds : Event → Bool
  | .row r => r.nodeUuid.isEmpty
  | .openGroup _ _ => true
  | .closeGroup _ => true
  | .insert _ body => noIdsL body
def noIdsL : List Event → Bool
  | [] => true
  | e :: es => e.noIds && noIdsL es
end

/-! "given identifiers do not look like invented ones": no `_nodeId` starts with `~` -/
mutual
def Event.okIds : Event → Bool
  | .row r => decide (¬ Invented r.nodeUuid)
  | .openGroup _ _ => true
  | .closeGroup _ => true
  | .insert _ body => okIdsL body
def okIdsL : List Event → Bool
  | [] => true
  | e :: es => e.okIds && okIdsL es
end

/-- what the flags assume of one `_nodeId` -/
def GivenOk (h : Flags) (given : Str) : Prop := (h.ids → ¬ Invented given) ∧ (h.noGiven → given = [])

/-- what the flags assume of an event / of the event sequence -/
def EvOk (h : Flags) (e : Event) : Prop := (h.ids → e.okIds = true) ∧ (h.noGiven → e.noIds = true)
def EvsOk (h : Flags) (es : List Event) : Prop := (h.ids → okIdsL es = true) ∧ (h.noGiven → noIdsL es = true)

theorem AInv.of_eq {h : Flags} {s s' : St} (a : AInv h s) (h1 : s'.nodes = s.nodes) (h2 : s'.next = s.next) :
    AInv h s' := by
  unfold AInv at *; rw [h1, h2]; exact a

/-- an operation that leaves the node arena and the counter alone -/
def NodesFrame {α} (m : M α) : Prop := ∀ s, wp m s (fun _ s' => s'.nodes = s.nodes ∧ s'.next = s.next)

theorem NodesFrame.astep {h : Flags} {d : Dest} {m : M PUnit} (hm : NodesFrame m) : AStep h d m := by
  intro s a _
  refine wp_mono (hm s) ?_
  intro _ s' ⟨h1, h2⟩
  exact ⟨a.of_eq h1 h2, by rw [h1]; exact NExt.refl _⟩

theorem addRowId_frame (rowId : Str) (g : Nat) : NodesFrame (addRowId rowId g) := by
  intro s; unfold addRowId; wp_simp; simp

theorem appendGroup_frame (g : Nat) (rowId : Str) : NodesFrame (appendGroup g rowId) := by
  intro s
  unfold appendGroup
  wp_simp
  split
  · wp_simp
  · split
    · wp_simp [wp_setGrp]
      refine wp_mono (addRowId_frame _ _ _) ?_
      intro _ s' h; exact h
    · wp_simp

theorem addRowEdge_spec (h : Flags) (d : Dest) (e : Edge) : AStep h d (addRowEdge d e) := by
  intro s a hd
  unfold addRowEdge
  wp_simp
  refine wp_ro (ro_groupOfEdge _) s _ ?_
  intro og
  split
  · exact AStep.pure h d s a hd
  · wp_simp
    refine wp_ro ro_fuelOf s _ ?_
    intro fuel
    exact addExit_spec h fuel _ d _ s a hd

theorem noopEdge_spec (h : Flags) (g : Nat) (e : Edge) : AStep h .none (noopEdge g e) := by
  intro s a _
  unfold noopEdge
  wp_simp
  refine wp_ro (ro_groupOfEdge _) s _ ?_
  intro og
  split
  · exact AStep.pure h .none s a trivial
  · wp_simp [wp_getGrp, wp_setGrp]
    intro grp _
    split
    · wp_simp [wp_setGrp]
      split
      · wp_simp [wp_getNode]
        intro n hn
        refine wp_ro ro_fuelOf _ _ ?_
        intro fuel
        exact addExit_spec h fuel _ _ _ _ (a.of_eq rfl rfl) ⟨_, n, hn, rfl⟩
      · wp_simp; exact ⟨a, NExt.refl _⟩
    · wp_simp

theorem parseNoop_spec (h : Flags) (edges : List Edge) (rowId : Str) : AStep h .none (parseNoop edges rowId) := by
  intro s a _
  unfold parseNoop
  wp_simp [wp_addGrp]
  have a' : AInv h { s with groups := s.groups.push (Grp.noop [] none) } := a
  refine wp_mono (AStep.forM _ _ (fun x _ => noopEdge_spec h _ x) _ a' trivial) ?_
  intro _ s1 ⟨a1, e1⟩
  refine wp_mono ((appendGroup_frame _ _).astep (h := h) (d := .none) s1 a1 trivial) ?_
  intro _ s2 ⟨a2, e2⟩
  exact ⟨a2, e1.trans e2⟩

theorem gotoEdge_spec (h : Flags) (ed : Edge × Str) : AStep h .none (gotoEdge ed) := by
  intro s a _
  unfold gotoEdge
  wp_simp
  refine wp_ro (ro_lookupRow _) s _ ?_
  intro og
  split
  · wp_simp
  · wp_simp [wp_getNode]
    refine wp_ro ro_fuelOf s _ ?_
    intro fuel
    refine wp_ro (ro_entryNode _ _) s _ ?_
    intro i n hn
    exact addRowEdge_spec h _ _ s a ⟨i, n, hn, rfl⟩

theorem parseGoto_spec (h : Flags) (r : Row) : AStep h .none (parseGoto r) := by
  intro s a _
  unfold parseGoto
  wp_simp
  exact ⟨fun _ => trivial, fun _ => AStep.forM _ _ (fun x _ => gotoEdge_spec h x) s a trivial⟩

theorem mergeRow_spec (h : Flags) (r : Row) (ex : Nat) (act : Str) : AStep h .none (mergeRow r ex act) := by
  intro s a _
  unfold mergeRow
  split
  · rename_i e _
    wp_simp
    refine ⟨fun _ => trivial, fun _ => ?_⟩
    have hpred : ReadOnly (predGroup e) := by
      unfold predGroup
      split
      · exact ro_mostRecent
      · exact ro_lookupRow _
    refine wp_ro hpred s _ ?_
    intro pred
    split
    · wp_simp
    · wp_simp
      refine wp_ro ro_fuelOf s _ ?_
      intro fuel
      refine wp_ro (ro_entryNode _ _) s _ ?_
      intro en
      refine ⟨fun _ => trivial, fun _ => ?_⟩
      wp_simp [wp_fresh', wp_getNode, wp_setNode]
      intro n hn
      have a1 : AInv h { s with nodes := s.nodes.setIfInBounds ex { n with actions := n.actions ++ [(tid s.next, act)] },
                                next := s.next + 1 } := by
        refine AInvC.set (b' := s.next + 1) a hn rfl ⟨?_, (a.ok ex n hn).dexit, (a.ok ex n hn).cases⟩ ?_ (by omega)
        · exact (a.ok ex n hn).dests
        · simp only [NodeM.fids, NodeM.innerIds, NodeM.tailIds]
          grow_new [tid s.next]
      have e1 : NExt s.nodes (s.nodes.setIfInBounds ex { n with actions := n.actions ++ [(tid s.next, act)] }) :=
        NExt.set hn rfl
      refine ⟨fun _ => ⟨a1, e1⟩, fun _ => ?_⟩
      refine wp_ro (ro_lookupRow _) _ _ ?_
      intro og
      split
      · wp_simp; exact ⟨a1, e1⟩
      · wp_simp
  · wp_simp

theorem rowAction_spec (r : Row) (s : St) :
    wp (rowAction r) s (fun act s' => ∃ k, Bump s s' k ∧ Grow s.next (s.next + k) [] (act.toList.map (·.1))) := by
  unfold rowAction
  split
  · wp_simp [wp_fresh']
    exact ⟨1, rfl, by simp only [Option.toList, List.map_cons, List.map_nil]; grow_new [tid s.next]⟩
  · wp_simp
    exact ⟨0, rfl, Grow.refl _ _ _⟩

theorem newRow_spec (h : Flags) (r : Row) (nodeName : Str) (hid : GivenOk h r.nodeUuid) :
    AStep h .none (newRow r nodeName) := by
  intro s a _
  unfold newRow
  wp_simp [wp_addNode, wp_addGrp]
  refine wp_mono (rowAction_spec r s) ?_
  intro act s1 ⟨k1, hb, hg1⟩; subst hb
  refine wp_mono (rowNode_spec r act _) ?_
  intro n s2 ⟨k2, hb, ⟨hd1, hd2⟩, hc, hg2, hi2⟩; subst hb
  dsimp only at hg2 ⊢
  have a1 : AInvC h (s.nodes.push n) (s.next + k1 + k2) := by
    refine AInvC.push a ⟨?_, ?_, hc⟩ ?_ (fun hh => hi2 (hid.2 hh)) (by omega)
    · intro d hd; rw [hd1 d hd]; trivial
    · rw [hd2]; trivial
    · intro hh
      exact hg1.trans (hg2 (hid.1 hh)) (by omega) (by omega)
  have e1 : NExt s.nodes (s.nodes.push n) := NExt.push _ _
  refine wp_mono (AStep.forM _ _ (fun x _ => addRowEdge_spec h (.node n.uid) x) _ a1 (DestOk.push_self _ _)) ?_
  intro _ s3 ⟨a3, e3⟩
  have a4 : AInv h { s3 with groups := s3.groups.push (Grp.row [s.nodes.size] r.type) } := a3
  refine wp_mono ((appendGroup_frame _ _).astep (h := h) (d := .none) _ a4 trivial) ?_
  intro _ s5 ⟨a5, e5⟩
  exact ⟨a5, (e1.trans e3).trans e5⟩

theorem actionRow_spec (h : Flags) (r : Row) (hid : GivenOk h r.nodeUuid) : AStep h .none (actionRow r) := by
  intro s a _
  unfold actionRow
  wp_simp
  refine ⟨fun _ => trivial, fun _ => ?_⟩
  split
  · exact mergeRow_spec h _ _ _ s a trivial
  · exact newRow_spec h _ _ hid s a trivial

theorem parseRow_spec (h : Flags) (r : Row) (hid : GivenOk h r.nodeUuid) : AStep h .none (parseRow r) := by
  intro s a _
  unfold parseRow
  wp_simp
  refine ⟨fun _ => ?_, fun _ => ⟨fun _ => parseGoto_spec h _ s a trivial, fun _ =>
    ⟨fun _ => parseNoop_spec h _ _ s a trivial, fun _ => ⟨fun _ => trivial, fun _ =>
      actionRow_spec h _ (by exact hid) s a trivial⟩⟩⟩⟩
  refine AStep.forM _ _ (fun x _ => addRowEdge_spec h _ x) s a ?_
  split <;> trivial

theorem openGroup_spec (h : Flags) (edges : List Edge) (starting : Bool) :
    AStep h .none (openGroup edges starting) := by
  intro s a _
  unfold openGroup
  wp_simp [wp_addGrp]
  refine ⟨fun _ => ⟨a, NExt.refl _⟩, fun _ => ?_⟩
  have a' : AInv h { s with groups := s.groups.push (Grp.block []), stack := s.groups.size :: s.stack } := a
  exact parseNoop_spec h _ _ _ a' trivial

theorem closeGroup_spec (h : Flags) (rowId : Str) : AStep h .none (closeGroup rowId) := by
  intro s a _
  unfold closeGroup
  wp_simp
  split
  · wp_simp
    exact (appendGroup_frame _ _).astep (h := h) (d := .none) _ (a.of_eq rfl rfl) trivial
  · wp_simp

theorem insertEnter_spec (s : St) :
    wp insertEnter s (fun sb s' => s'.nodes = s.nodes ∧ s'.next = s.next) := by
  unfold insertEnter
  wp_simp [wp_addGrp]
  simp

theorem insertLeave_spec (h : Flags) (s0 : St) (b : Nat) (r : Row) : AStep h .none (insertLeave s0 b r) := by
  intro s a _
  unfold insertLeave
  wp_simp
  refine ⟨fun _ => trivial, fun _ => ?_⟩
  refine wp_ro ro_fuelOf _ _ ?_
  intro fuel
  refine wp_ro (ro_entryNode _ _) _ _ ?_
  intro i
  wp_simp [wp_getNode]
  intro n hn
  have a' : AInv h { s with stack := s0.stack, rowIds := s0.rowIds, names := s0.names } := a
  refine wp_mono (AStep.forM _ _ (fun x _ => addRowEdge_spec h (.node n.uid) x) _ a' ⟨i, n, hn, rfl⟩) ?_
  intro _ s1 ⟨a1, e1⟩
  refine wp_mono ((appendGroup_frame _ _).astep (h := h) (d := .none) _ a1 trivial) ?_
  intro _ s2 ⟨a2, e2⟩
  exact ⟨a2, e1.trans e2⟩

mutual
theorem step_spec (h : Flags) : ∀ e : Event, EvOk h e → AStep h .none (step e)
  | .row r, hid => by
    unfold step
    refine parseRow_spec h r ⟨fun hh => ?_, fun hh => ?_⟩
    · have := hid.1 hh; simpa [Event.okIds] using this
    · have := hid.2 hh; simpa [Event.noIds, List.isEmpty_iff] using this
  | .openGroup edges starting, _ => by unfold step; exact openGroup_spec h _ _
  | .closeGroup rowId, _ => by unfold step; exact closeGroup_spec h _
  | .insert r body, hid => by
    intro s a _
    unfold step
    wp_simp
    refine wp_mono (insertEnter_spec s) ?_
    intro sb s1 ⟨h1, h2⟩
    have a1 : AInv h s1 := a.of_eq h1 h2
    have hb : EvsOk h body :=
      ⟨fun hh => by have := hid.1 hh; simpa [Event.okIds] using this,
       fun hh => by have := hid.2 hh; simpa [Event.noIds] using this⟩
    refine wp_mono (steps_spec h body hb s1 a1 trivial) ?_
    intro _ s2 ⟨a2, e2⟩
    refine wp_mono (insertLeave_spec h _ _ _ s2 a2 trivial) ?_
    intro _ s3 ⟨a3, e3⟩
    exact ⟨a3, by rw [← h1]; exact e2.trans e3⟩
theorem steps_spec (h : Flags) : ∀ es : List Event, EvsOk h es → AStep h .none (steps es)
  | [], _ => by unfold steps; exact AStep.pure h _
  | e :: es, hid => by
    intro s a _
    unfold steps
    wp_simp
    have he : EvOk h e :=
      ⟨fun hh => by have := hid.1 hh; simp [okIdsL] at this; exact this.1,
       fun hh => by have := hid.2 hh; simp [noIdsL] at this; exact this.1⟩
    have hes : EvsOk h es :=
      ⟨fun hh => by have := hid.1 hh; simp [okIdsL] at this; exact this.2,
       fun hh => by have := hid.2 hh; simp [noIdsL] at this; exact this.2⟩
    refine wp_mono (step_spec h e he s a trivial) ?_
    intro _ s1 ⟨a1, e1⟩
    refine wp_mono (steps_spec h es hes s1 a1 trivial) ?_
    intro _ s2 ⟨a2, e2⟩
    exact ⟨a2, e1.trans e2⟩
end

/-! no given identifiers at all ⇒ in particular none that looks invented -/
mutual
theorem Event.okIds_of_noIds : ∀ e : Event, e.noIds = true → e.okIds = true
  | .row r, h => by
    simp only [Event.noIds, List.isEmpty_iff] at h
    simp [Event.okIds, h, Invented]
  | .openGroup _ _, _ => rfl
  | .closeGroup _, _ => rfl
  | .insert _ body, h => by
    simp only [Event.noIds] at h
    simp only [Event.okIds]; exact okIdsL_of_noIdsL body h
theorem okIdsL_of_noIdsL : ∀ es : List Event, noIdsL es = true → okIdsL es = true
  | [], _ => rfl
  | e :: es, h => by
    simp only [noIdsL, Bool.and_eq_true] at h
    simp only [okIdsL, Bool.and_eq_true]
    exact ⟨Event.okIds_of_noIds e h.1, okIdsL_of_noIdsL es h.2⟩
end

end Rpft.Compile
