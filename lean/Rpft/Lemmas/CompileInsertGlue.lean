/-
Restricting the simulation to the part of the arenas created from some point on, and gluing the
result back: what a nested parser does to the new part, together with the frame (it does not touch
the old part), gives the simulation of the whole arenas again.
-/
import Rpft.Lemmas.CompileInsertSteps
set_option linter.unusedSimpArgs false
set_option linter.unusedVariables false
namespace Rpft.Compile
open Rpft Function

/-- the same correspondence, on the nodes from `N` and the groups from `G` on, framed w.r.t. `u₁`, `u₂` -/
def Params.restrict (P : Params) (N G : Nat) (u₁ u₂ : St) : Params :=
  { P with DN := fun i => P.DN i ∧ N ≤ i, DG := fun j => P.DG j ∧ G ≤ j, base₁ := u₁, base₂ := u₂ }

variable {P : Params}

theorem Params.Ok.restrict (ok : P.Ok) (N G : Nat) (u₁ u₂ : St) : (P.restrict N G u₁ u₂).Ok :=
  ⟨ok.hρ, ok.hν, ok.hγ, ok.hT, ok.hfix, ok.hgx⟩

theorem mapGrpAt_restrict (N G : Nat) (u₁ u₂ : St) (j : Nat) (g : Grp) :
    mapGrpAt (P.restrict N G u₁ u₂) j g = mapGrpAt P j g := by
  cases g <;> rfl

theorem ASim.restrict {u₁ u₂ : St} (h : ASim P u₁ u₂) (N G : Nat) (hN : N ≤ u₁.nodes.size) (hG : G ≤ u₁.groups.size)
    (hcl : ∀ j g, G ≤ j → u₁.groups[j]? = some g → (∀ i ∈ gnodes g, N ≤ i) ∧ (∀ x ∈ grefs g, G ≤ x)) :
    ASim (P.restrict N G u₁ u₂) u₁ u₂ := by
  constructor
  · exact h.na₁
  · exact h.na₂
  · exact h.nt₁
  · exact h.nt₂
  · exact ⟨Nat.le_refl _, Nat.le_refl _, Nat.le_refl _⟩
  · exact ⟨Nat.le_refl _, Nat.le_refl _, Nat.le_refl _⟩
  · exact h.idsync
  · exact h.nsync
  · exact h.gsync
  · intro i hi
    exact ⟨h.ndom i hi, by omega⟩
  · intro j hj
    exact ⟨⟨(h.gdom j hj).1, by omega⟩, (h.gdom j hj).2⟩
  · exact h.bxlt
  · exact h.bne
  · exact h.wf
  · exact h.dex
  · intro i n hd hn
    exact h.nodes i n hd.1 hn
  · intro j g hd hg
    rw [mapGrpAt_restrict]
    exact h.groups j g hd.1 hg
  · intro j g hd hg
    have c1 := h.closed j g hd.1 hg
    have c2 := hcl j g hd.2 hg
    exact ⟨fun i hi => ⟨c1.1 i hi, c2.1 i hi⟩, fun x hx => ⟨c1.2 x hx, c2.2 x hx⟩⟩
  · intro j g hd ht hg
    exact h.ra j g hd.1 ht hg
  · intro i _; rfl
  · intro j _; rfl
  · intro i _; rfl
  · intro j _; rfl
  · exact h.pl

/-- gluing: the simulation before, and the restricted simulation (with its frame) after, give the
simulation after -/
theorem ASim.glue (ok : P.Ok) {u₁ u₂ v₁ v₂ : St} (h : ASim P u₁ u₂) {N G : Nat}
    (h' : ASim (P.restrict N G u₁ u₂) v₁ v₂) : ASim P v₁ v₂ := by
  have fn1 : ∀ i, i < N → v₁.nodes[i]? = u₁.nodes[i]? := fun i hi =>
    h'.fr1n i (fun hd => by have := hd.2; omega)
  have fg1 : ∀ j, j < G → v₁.groups[j]? = u₁.groups[j]? := fun j hj =>
    h'.fr1g j (fun hd => by have := hd.2; omega)
  have fn2 : ∀ i, i < N → v₂.nodes[P.ν i]? = u₂.nodes[P.ν i]? := fun i hi =>
    h'.fr2n (P.ν i) (fun i' hd e => by have := ok.hν e; have := hd.2; omega)
  have fg2 : ∀ j, j < G → v₂.groups[P.γ j]? = u₂.groups[P.γ j]? := fun j hj =>
    h'.fr2g (P.γ j) (fun j' hd e => by have := ok.hγ e; have := hd.2; omega)
  constructor
  · exact h'.na₁
  · exact h'.na₂
  · exact h'.nt₁
  · exact h'.nt₂
  · have a := h.mono₁; have b := h'.mono₁
    exact ⟨Nat.le_trans a.1 b.1, Nat.le_trans a.2.1 b.2.1, Nat.le_trans a.2.2 b.2.2⟩
  · have a := h.mono₂; have b := h'.mono₂
    exact ⟨Nat.le_trans a.1 b.1, Nat.le_trans a.2.1 b.2.1, Nat.le_trans a.2.2 b.2.2⟩
  · exact h'.idsync
  · exact h'.nsync
  · exact h'.gsync
  · intro i hi; exact (h'.ndom i hi).1
  · intro j hj; exact ⟨(h'.gdom j hj).1.1, (h'.gdom j hj).2⟩
  · exact h'.bxlt
  · exact h'.bne
  · exact h'.wf
  · exact h'.dex
  · intro i n hd hn
    rcases Nat.lt_or_ge i N with hi | hi
    · rw [fn1 i hi] at hn
      rw [fn2 i hi]
      exact h.nodes i n hd hn
    · exact h'.nodes i n ⟨hd, hi⟩ hn
  · intro j g hd hg
    rcases Nat.lt_or_ge j G with hj | hj
    · rw [fg1 j hj] at hg
      rw [fg2 j hj]
      exact h.groups j g hd hg
    · have := h'.groups j g ⟨hd, hj⟩ hg
      rw [mapGrpAt_restrict] at this
      exact this
  · intro j g hd hg
    rcases Nat.lt_or_ge j G with hj | hj
    · rw [fg1 j hj] at hg
      exact h.closed j g hd hg
    · have := h'.closed j g ⟨hd, hj⟩ hg
      exact ⟨fun i hi => (this.1 i hi).1, fun x hx => (this.2 x hx).1⟩
  · intro j g hd ht hg
    rcases Nat.lt_or_ge j G with hj | hj
    · rw [fg1 j hj] at hg
      exact h.ra j g hd ht hg
    · exact h'.ra j g ⟨hd, hj⟩ ht hg
  · intro i hi
    rw [h'.fr1n i (fun hd => hi hd.1)]
    exact h.fr1n i hi
  · intro j hj
    rw [h'.fr1g j (fun hd => hj hd.1)]
    exact h.fr1g j hj
  · intro i' hi'
    rw [h'.fr2n i' (fun i hd => hi' i hd.1)]
    exact h.fr2n i' hi'
  · intro j' hj'
    rw [h'.fr2g j' (fun j hd => hj' j hd.1)]
    exact h.fr2g j' hj'
  · exact h'.pl

variable {X : SParams}

mutual
/-- no `loose_exit` row (also inside inserted templates) -/
def Event.noLoose : Event → Bool
  | .row r => decide (r.type ≠ "loose_exit".toList)
  | .openGroup _ _ => true
  | .closeGroup _ => true
  | .insert _ body => noLooseL body
def noLooseL : List Event → Bool
  | [] => true
  | e :: es => e.noLoose && noLooseL es
end

theorem noLoose_row {r : Row} (h : Event.noLoose (.row r) = true) : r.type ≠ "loose_exit".toList := by
  unfold Event.noLoose at h; exact of_decide_eq_true h

theorem noLoose_insert {r : Row} {body : List Event} (h : Event.noLoose (.insert r body) = true) :
    noLooseL body = true := by
  unfold Event.noLoose at h; exact h

theorem noLooseL_cons {e : Event} {es : List Event} (h : noLooseL (e :: es) = true) :
    e.noLoose = true ∧ noLooseL es = true := by
  unfold noLooseL at h
  exact Bool.and_eq_true_iff.mp h

/-- what the nested parser of an `insert_as_block` row is known to do (induction hypothesis) -/
def BodyRel (body : List Event) : Prop :=
  ∀ (P : Params) (X : SParams) (s₁ s₂ : St), P.Ok → Sim P X s₁ s₂ → X.F = [] → X.nmAll = true →
    CL P s₁ → SB s₁ → RV s₁ → (P.op = true → noLooseL body = true) →
    rwp (steps body) (steps body) s₁ s₂ (fun _ t₁ _ t₂ => Sim P X t₁ t₂ ∧ Eff P s₁ t₁)

/-- the state in which the nested parser starts -/
def enterSt (s : St) : St :=
  { s with groups := s.groups.push (Grp.block []), stack := [s.groups.size], rowIds := [], names := [] }

/-- the outer parser's scope is back -/
def restoreSt (v s : St) : St := { v with stack := s.stack, rowIds := s.rowIds, names := s.names }

theorem wp_insertEnter' (s : St) (Q : St × Nat → St → Prop) :
    wp insertEnter s Q ↔ Q (s, s.groups.size) (enterSt s) := by
  unfold insertEnter enterSt
  wp_simp [wp_addGrp]

/-- `_parse_insert_as_block_row`: a nested parser on the new part of the arenas, then the row's
edges into the entry node of the block it built -/
theorem insert_rel (ok : P.Ok) {s₁ s₂ : St} (h : Sim P X s₁ s₂) (r : Row) (body : List Event)
    (hbody : BodyRel body) (hpre : EdgesPre P X s₁ (dropTrivial r.edges)) (hsb : SB s₁)
    (hnl : P.op = true → noLooseL body = true) :
    rwp (step (.insert r body)) (step (.insert r body)) s₁ s₂ (fun _ t₁ _ t₂ =>
      Sim P X t₁ t₂ ∧ t₁.stack = s₁.stack ∧ MR P t₁ ∧ Eff P s₁ t₁) := by
  unfold step
  rw [rwp_bind, rwp_iff_wp, wp_insertEnter']
  rw [wp_insertEnter']
  simp only []
  have hd := h.1.gdom s₁.groups.size (Nat.le_refl _)
  have h0 : P.γ s₁.groups.size = s₂.groups.size := by simpa using h.1.gsync 0
  have hne : s₁.groups.size ≠ P.bx := by have := h.1.bxlt; omega
  have a1 := h.1.addGrp (.block []) (by intro i hi; simp [gnodes] at hi) (by intro x hx; simp [grefs] at hx)
    (by intro x hx; simp [grefs] at hx) ⟨by intro i hi; simp [gnodes] at hi, by intro x hx; simp [grefs] at hx⟩
  -- the states after `insertEnter`
  generalize hu₁ : enterSt s₁ = u₁
  generalize hu₂ : enterSt s₂ = u₂
  have au : ASim P u₁ u₂ := by
    rw [← hu₁, ← hu₂]
    exact a1.congr rfl rfl rfl rfl rfl rfl rfl rfl rfl rfl
  have eu1 : u₁.groups = s₁.groups.push (.block []) := by rw [← hu₁]; rfl
  have eu1n : u₁.nodes = s₁.nodes := by rw [← hu₁]; rfl
  have eu1s : u₁.stack = [s₁.groups.size] := by rw [← hu₁]; rfl
  have a' : ASim (P.restrict s₁.nodes.size s₁.groups.size u₁ u₂) u₁ u₂ := by
    refine au.restrict _ _ (by rw [eu1n]; exact Nat.le_refl _) (by rw [eu1]; simp) ?_
    intro j g hj hg
    rw [eu1, Array.getElem?_push] at hg
    by_cases hjs : j = s₁.groups.size
    · simp only [hjs, if_true, Option.some.injEq] at hg
      subst hg
      exact ⟨by intro i hi; simp [gnodes] at hi, by intro x hx; simp [grefs] at hx⟩
    · simp only [hjs, if_false] at hg
      have := (Array.getElem?_eq_some_iff.mp hg).1
      omega
  have ss' : SSim (P.restrict s₁.nodes.size s₁.groups.size u₁ u₂) ⟨[], [], true, []⟩ u₁ u₂ := by
    rw [← hu₁, ← hu₂]
    unfold enterSt
    constructor
    · show [s₂.groups.size] = List.map P.γ [s₁.groups.size] ++ []
      simp [h0]
    · intro b hb
      simp only [List.mem_singleton] at hb
      subst hb
      exact ⟨hd.1, Nat.le_refl _⟩
    · exact .inl rfl
    · intro _ hb
      simp only [List.mem_singleton] at hb
      exact absurd hb.symm hne
    · simp
    · intro id j _ hl; simp [lookupIn] at hl
    · intro p hp; simp at hp
    · intro p hp; simp at hp
    · intro p hp; simp at hp
    · intro x _; simp [lookupIn]
    · intro _ x _; simp [lookupIn]
    · intro p hp; simp at hp
  have cl' : CL (P.restrict s₁.nodes.size s₁.groups.size u₁ u₂) u₁ := by
    rw [← hu₁]
    unfold enterSt
    refine ⟨?_, by simp⟩
    intro b hb cs hg
    simp only [List.mem_singleton] at hb
    subst hb
    simp only [Array.getElem?_push, if_true, Option.some.injEq, Grp.block.injEq] at hg
    subst hg
    intro c hc; simp at hc
  have sb' : SB u₁ := by
    rw [← hu₁]
    unfold enterSt
    intro b hb
    simp only [List.mem_singleton] at hb
    subst hb
    exact ⟨[], by simp⟩
  have rv' : RV u₁ := by
    rw [← hu₁]
    unfold enterSt
    intro p hp; simp at hp
  rw [rwp_bind]
  refine rwp_mono (hbody _ _ u₁ u₂ (ok.restrict _ _ _ _) ⟨a', ss'⟩ rfl rfl cl' sb' rv' hnl) ?_
  intro _ v₁ _ v₂ ⟨hv, hefn⟩
  have hvsz : s₁.groups.size + 1 ≤ v₁.groups.size := by
    have := hefn.hk.2.2
    rw [eu1] at this
    simpa using this
  have av : ASim P v₁ v₂ := ASim.glue ok au hv.1
  unfold insertLeave
  rw [rwp_get]
  have hlen : v₂.stack.length = v₁.stack.length := by
    have := hv.2.stack
    simp only [List.append_nil] at this
    rw [this]; simp [Params.restrict]
  rw [hlen]
  refine rwp_ite (fun _ => rwp_fail_left _ _ _ _ _) fun _ => ?_
  rw [rwp_bind, rwp_iff_wp, wp_modify]
  rw [wp_modify]
  change rwp _ _ (restoreSt v₁ s₁) (restoreSt v₂ s₂) _
  generalize hw₁ : restoreSt v₁ s₁ = w₁
  generalize hw₂ : restoreSt v₂ s₂ = w₂
  have hw : Sim P X w₁ w₂ := by
    rw [← hw₁, ← hw₂]
    exact ⟨av.congr rfl rfl rfl rfl rfl rfl rfl rfl rfl rfl, h.2.of_seq ⟨rfl, rfl, rfl⟩ ⟨rfl, rfl, rfl⟩⟩
  have hss : StackSame s₁ w₁ := by
    rw [← hw₁]
    refine ⟨rfl, fun b hb => ?_⟩
    have hlt := hsb.lt hb
    show v₁.groups[b]? = s₁.groups[b]?
    rw [hv.1.fr1g b (fun hdd => by have := hdd.2; omega)]
    show u₁.groups[b]? = s₁.groups[b]?
    rw [eu1, Array.getElem?_push]
    have : ¬ b = s₁.groups.size := by omega
    simp [this]
  have hlow : ∀ j, j < s₁.groups.size → w₁.groups[j]? = s₁.groups[j]? := by
    intro j hj
    rw [← hw₁]
    show v₁.groups[j]? = s₁.groups[j]?
    rw [hv.1.fr1g j (fun hdd => by have := hdd.2; omega)]
    show u₁.groups[j]? = s₁.groups[j]?
    rw [eu1, Array.getElem?_push]
    have : ¬ j = s₁.groups.size := by omega
    simp [this]
  have hwsz : s₁.groups.size ≤ w₁.groups.size := by
    rw [← hw₁]
    show s₁.groups.size ≤ v₁.groups.size
    omega
  have hef : Eff P s₁ w₁ := by
    refine Eff.of_stackSame hss ?_ ?_
    · intro hr p hp
      have hp' : p ∈ s₁.rowIds := by rw [← hw₁] at hp; exact hp
      exact Nat.lt_of_lt_of_le (hr p hp') hwsz
    · refine ⟨fun j i l t hg => ⟨l, ?_⟩, fun j c cs hg => ⟨cs, ?_⟩, hwsz⟩
      · rw [hlow j (Array.getElem?_eq_some_iff.mp hg).1]; exact hg
      · rw [hlow j (Array.getElem?_eq_some_iff.mp hg).1]; exact hg
  rw [rwp_bind]
  refine rwp_of_run (fuelOf_run w₁) (fuelOf_run w₂) ?_
  rw [rwp_bind]
  have hen := entryNode_rel ok hw.1 (2 * w₁.groups.size + 8) (2 * w₂.groups.size + 8) s₁.groups.size hd.1 hd.2
  rw [h0] at hen
  refine rwp_mono hen ?_
  intro i t₁ i' t₂ ⟨⟨hi', hdi⟩, e1, e2⟩
  subst i'; subst t₁; subst t₂
  rw [rwp_bind]
  refine rwp_mono (getNode_rel hw.1 hdi) ?_
  intro n t₁ n' t₂ ⟨hn', hn, e1, e2⟩
  subst n'; subst t₁; subst t₂
  rw [rwp_bind]
  have hpre' : EdgesPre P X w₁ (dropTrivial r.edges) := hpre.mono hef.mr
  refine rwp_mono (edges_rel ok hw (.node n.uid) (dropTrivial r.edges) hpre'.1 hpre'.2 (fun _ e' => by cases e')) ?_
  intro _ x₁ _ x₂ ⟨hx, e1, e2, hb⟩
  have hxlt : s₁.groups.size < x₁.groups.size := by
    have h1 := hb.2.2.1
    have h2 : s₁.groups.size < w₁.groups.size := by
      rw [← hw₁]
      show s₁.groups.size < v₁.groups.size
      omega
    omega
  have hap := appendGroup_rel ok hx r.rowId hd.1 hxlt (fun ht => absurd ht hd.2)
  rw [h0] at hap
  refine rwp_mono hap ?_
  intro _ t₁ _ t₂ ⟨ht, e3, _, _, hsbt, hrvt, hhk, hm⟩
  have hef2 : Eff P s₁ x₁ := hef.trans (Eff.of_blkEq hb e1.2.1)
  refine ⟨ht, ?_, (hm hd.2).1, fun _ => (hm hd.2).1, fun hc => (hm hd.2).2 (hef2.cl hc), fun hs => hsbt (hef2.sb hs),
    fun hr => hrvt (hef2.rv hr), hef2.hk.trans hhk⟩
  rw [e3, e1.1, ← hw₁]; rfl

end Rpft.Compile
