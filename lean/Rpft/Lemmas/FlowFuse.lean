/-
Node fusion: a chain of nodes of `A` — each performing actions, deciding nothing, with one exit that
leads to the next node of the chain — may be replaced by ONE node of `B` that performs all their
actions in order, without changing what a contact observes.  This generalises `run_split` of
`Lemmas/FlowSplit.lean`: node `ia j` of `A` corresponds to the segment of the actions of node `ib j`
of `B` that starts at `off j`; the last node of a chain may moreover be split (actions / decision).
-/
import Rpft.Lemmas.FlowSplit
set_option linter.unusedSimpArgs false
set_option linter.unusedVariables false
namespace Rpft.Flow
open Rpft Rpft.Bisim

section
variable {ι : Type} (A B : List ANode) (V : ι → Prop) (ia ib off : ι → Nat) (ir : ι → Option Nat)

/-- corresponding destinations: a destination of `A` names the FIRST node of a chain (`off j = 0`),
or a do-nothing node that has no counterpart in `B` -/
inductive DRelO : Option (Option Nat) → Option (Option Nat) → Prop
  | none : DRelO none none
  | out : DRelO (some none) (some none)
  | node (j : ι) : V j → off j = 0 → DRelO (some (some (ia j))) (some (some (ib j)))
  | skip (k : Nat) (a : ANode) (y : Option (Option Nat)) : A[k]? = some a → a.acts = [] → a.ask = none →
      DRelO (a.dests.head?.join) y → DRelO (some (some k)) y

/-- the actions of node `ia j` of `A` are the actions of node `ib j` of `B` from `off j` on; the node
is the last of its chain (and then possibly split, the decision being made by node `q` of `B`), or it
is linked to the next node `ia j'` of its chain, whose actions follow in the same node of `B` -/
structure FuseOf : Prop where
  node : ∀ j, V j → ∃ a b, A[ia j]? = some a ∧ B[ib j]? = some b ∧
    (∀ k, k < a.acts.length → b.acts[off j + k]? = a.acts[k]?) ∧
    ( (ir j = none ∧ b.acts.length = off j + a.acts.length ∧ b.ask = a.ask ∧
         List.Forall₂ (DRelO A V ia ib off) a.dests b.dests) ∨
      (∃ q b2, ir j = some q ∧ a.ask.isSome = true ∧ b.acts.length = off j + a.acts.length ∧ b.ask = none ∧
         b.dests = [some (some q)] ∧ B[q]? = some b2 ∧ b2.acts = [] ∧ b2.ask = a.ask ∧
         List.Forall₂ (DRelO A V ia ib off) a.dests b2.dests) ∨
      (∃ j', V j' ∧ a.acts ≠ [] ∧ a.ask = none ∧ a.dests = [some (some (ia j'))] ∧ ib j' = ib j ∧
         off j' = off j + a.acts.length ∧ ∃ a', A[ia j']? = some a' ∧ a'.acts ≠ []) )

/-- corresponding positions -/
def SRelO : St → St → Prop
  | .div, .div => True
  | .at p, .at p' => ∃ j a, V j ∧ p.node = ia j ∧ A[ia j]? = some a ∧
      ((p.k < a.acts.length ∧ p'.node = ib j ∧ p'.k = off j + p.k) ∨
       (p.k = a.acts.length ∧ a.ask.isSome = true ∧
         ((ir j = none ∧ p'.node = ib j ∧ p'.k = off j + p.k) ∨ (∃ q, ir j = some q ∧ p'.node = q ∧ p'.k = 0))))
  | _, _ => False

variable {A B V ia ib off ir}

theorem DRelO.head {l1 l2 : List (Option (Option Nat))} (h : List.Forall₂ (DRelO A V ia ib off) l1 l2) :
    DRelO A V ia ib off l1.head?.join l2.head?.join := by
  cases h with
  | nil => exact .none
  | cons hab _ => exact hab

theorem DRelO.get {l1 l2 : List (Option (Option Nat))} (h : List.Forall₂ (DRelO A V ia ib off) l1 l2) (c : Nat) :
    DRelO A V ia ib off (l1[c]?).join (l2[c]?).join := by
  induction h generalizing c with
  | nil => exact .none
  | cons hab _ ih =>
    cases c with
    | zero => exact hab
    | succ c => simpa using ih c

/-- a position inside the actions of `A[ia j]` is a position inside the actions of `B[ib j]` -/
theorem fuse_lt_of_lt {a b : ANode} {o : Nat} (hacts : ∀ k, k < a.acts.length → b.acts[o + k]? = a.acts[k]?)
    (k : Nat) (hk : k < a.acts.length) : o + k < b.acts.length := by
  have h := hacts k hk
  by_contra hge
  rw [List.getElem?_eq_none (Nat.le_of_not_lt hge)] at h
  have : a.acts[k]? = some a.acts[k] := by simp [hk]
  rw [this] at h; cases h

/-- the first node `ia j` of a chain of `A`, entered: what `B` does at `ib j` (with enough fuel) -/
theorem fuse_enter_node_nonempty (hs : FuseOf A B V ia ib off ir) (j : ι) (hj : V j) (hoff : off j = 0)
    (a : ANode) (ha : A[ia j]? = some a) (hemp : ¬ (a.acts = [] ∧ a.ask = none)) :
    ∃ p', (∀ g, aEnter B (g + 2) (some (some (ib j))) = some (.at p')) ∧
      SRelO A V ia ib off ir (.at ⟨ia j, 0⟩) (.at p') ∧
      (∀ g, aEnter B g (some (some (ib j))) = some (.at p') ∨ aEnter B g (some (some (ib j))) = some .div) := by
  obtain ⟨a', b, ha', hb, hacts, hcase⟩ := hs.node j hj
  rw [ha] at ha'; injection ha' with ha'; subst ha'
  rw [hoff] at hacts
  -- when `b` is not a do-nothing node, `B` stops at its first position
  have hstay : ¬ (b.acts = [] ∧ b.ask = none) →
      SRelO A V ia ib off ir (.at ⟨ia j, 0⟩) (.at ⟨ib j, 0⟩) →
      ∃ p', (∀ g, aEnter B (g + 2) (some (some (ib j))) = some (.at p')) ∧
        SRelO A V ia ib off ir (.at ⟨ia j, 0⟩) (.at p') ∧
        (∀ g, aEnter B g (some (some (ib j))) = some (.at p') ∨
          aEnter B g (some (some (ib j))) = some .div) := by
    intro hbe hrel
    have hB : ∀ g, aEnter B (g + 1) (some (some (ib j))) = some (.at ⟨ib j, 0⟩) := by
      intro g
      simp only [aEnter, hb]
      rw [if_neg (fun h => hbe ((isEmptyNode_iff b).mp h))]
    refine ⟨⟨ib j, 0⟩, fun g => hB (g + 1), hrel, ?_⟩
    intro g
    cases g with
    | zero => exact .inr rfl
    | succ g => exact .inl (hB g)
  rcases hcase with ⟨hir, hlen, hbk, hbd⟩ | ⟨q, b2, hir, hask, hlen, hbk, hbd, hb2, hb2a, hb2k, hb2d⟩ |
    ⟨j', hj', hne, hak, had, hib, hoff', a2, ha2, hne2⟩
  · -- last of its chain (a chain of one node), not split
    rw [hoff, Nat.zero_add] at hlen
    have hbe : ¬ (b.acts = [] ∧ b.ask = none) := by
      intro h
      apply hemp
      refine ⟨List.eq_nil_of_length_eq_zero ?_, ?_⟩
      · rw [← hlen, h.1]; rfl
      · rw [← hbk]; exact h.2
    apply hstay hbe
    refine ⟨j, a, hj, rfl, ha, ?_⟩
    by_cases hl : 0 < a.acts.length
    · exact .inl ⟨hl, rfl, by simp [hoff]⟩
    · have hnil : a.acts = [] := List.eq_nil_of_length_eq_zero (by omega)
      have : a.ask.isSome = true := by
        cases hk : a.ask with
        | none => exact absurd ⟨hnil, hk⟩ hemp
        | some _ => rfl
      exact .inr ⟨by rw [hnil]; rfl, this, .inl ⟨hir, rfl, by simp [hoff, hnil]⟩⟩
  · -- last of its chain, split
    rw [hoff, Nat.zero_add] at hlen
    by_cases hl : 0 < a.acts.length
    · have hbe : ¬ (b.acts = [] ∧ b.ask = none) := by
        intro h
        rw [h.1] at hlen
        simp at hlen
        omega
      apply hstay hbe
      exact ⟨j, a, hj, rfl, ha, .inl ⟨hl, rfl, by simp [hoff]⟩⟩
    · have hnil : a.acts = [] := List.eq_nil_of_length_eq_zero (by omega)
      have hbe : b.acts = [] ∧ b.ask = none :=
        ⟨List.eq_nil_of_length_eq_zero (by rw [hlen, hnil]; rfl), hbk⟩
      have hb2e : ¬ (b2.acts = [] ∧ b2.ask = none) := by
        intro h; rw [hb2k] at h; rw [h.2] at hask; cases hask
      have hB : ∀ g, aEnter B (g + 2) (some (some (ib j))) = some (.at ⟨q, 0⟩) := by
        intro g
        simp only [aEnter, hb]
        rw [if_pos ((isEmptyNode_iff b).mpr hbe), hbd]
        simp only [List.head?_cons, Option.join_some, aEnter, hb2]
        rw [if_neg (fun h => hb2e ((isEmptyNode_iff b2).mp h))]
      refine ⟨⟨q, 0⟩, hB, ⟨j, a, hj, rfl, ha, .inr ⟨by rw [hnil]; rfl, hask, .inr ⟨q, hir, rfl, rfl⟩⟩⟩, ?_⟩
      intro g
      match g with
      | 0 => exact .inr rfl
      | 1 =>
        right
        simp only [aEnter, hb]
        rw [if_pos ((isEmptyNode_iff b).mpr hbe), hbd]
        rfl
      | g + 2 => exact .inl (hB g)
  · -- linked to the next node of its chain
    have hl : 0 < a.acts.length := List.length_pos_iff.mpr hne
    have hbl : 0 + 0 < b.acts.length := fuse_lt_of_lt hacts 0 hl
    have hbe : ¬ (b.acts = [] ∧ b.ask = none) := by
      intro h
      rw [h.1] at hbl
      simp at hbl
    apply hstay hbe
    exact ⟨j, a, hj, rfl, ha, .inl ⟨hl, rfl, by simp [hoff]⟩⟩

/-- a do-nothing node of `A` that starts a chain: `B` has the same, with corresponding exits -/
theorem fuse_enter_node_empty (hs : FuseOf A B V ia ib off ir) (j : ι) (hj : V j) (hoff : off j = 0)
    (a : ANode) (ha : A[ia j]? = some a) (hemp : a.acts = [] ∧ a.ask = none) :
    ∃ b : ANode, (∀ f, aEnter A (f + 1) (some (some (ia j))) = aEnter A f (a.dests.head?.join)) ∧
      (∀ g, aEnter B (g + 1) (some (some (ib j))) = aEnter B g (b.dests.head?.join)) ∧
      DRelO A V ia ib off (a.dests.head?.join) (b.dests.head?.join) := by
  obtain ⟨a', b, ha', hb, hacts, hcase⟩ := hs.node j hj
  rw [ha] at ha'; injection ha' with ha'; subst ha'
  have hA : ∀ f', aEnter A (f' + 1) (some (some (ia j))) = aEnter A f' (a.dests.head?.join) := by
    intro f'
    simp only [aEnter, ha]
    rw [if_pos ((isEmptyNode_iff a).mpr hemp)]
  rcases hcase with ⟨_, hlen, hbk, hbd⟩ | ⟨q, b2, _, hask, _⟩ | ⟨j', _, hne, _⟩
  · have hbe : b.acts = [] ∧ b.ask = none := by
      refine ⟨List.eq_nil_of_length_eq_zero ?_, ?_⟩
      · rw [hlen, hoff, hemp.1]; rfl
      · rw [hbk]; exact hemp.2
    refine ⟨b, hA, ?_, DRelO.head hbd⟩
    intro g'
    simp only [aEnter, hb]
    rw [if_pos ((isEmptyNode_iff b).mpr hbe)]
  · rw [hemp.2] at hask; cases hask
  · exact absurd hemp.1 hne

/-- what entering leads to in `A` is what entering the corresponding destination leads to in `B` -/
theorem fuse_enter_fwd (hs : FuseOf A B V ia ib off ir) :
    ∀ (f : Nat) (x y : Option (Option Nat)), DRelO A V ia ib off x y →
    (aEnter A f x = none → ∃ g, aEnter B g y = none) ∧
    (∀ p, aEnter A f x = some (.at p) →
      ∃ g p', aEnter B g y = some (.at p') ∧ SRelO A V ia ib off ir (.at p) (.at p')) := by
  intro f
  induction f with
  | zero =>
    intro x y hxy
    cases hxy with
    | none => exact ⟨fun _ => ⟨0, rfl⟩, fun p hp => (by simp [aEnter] at hp)⟩
    | out => exact ⟨fun hp => (by simp [aEnter] at hp), fun p hp => (by simp [aEnter] at hp)⟩
    | node j hj _ => exact ⟨fun hp => (by simp [aEnter] at hp), fun p hp => (by simp [aEnter] at hp)⟩
    | skip k a y hk _ _ _ => exact ⟨fun hp => (by simp [aEnter] at hp), fun p hp => (by simp [aEnter] at hp)⟩
  | succ f ih =>
    intro x y hxy
    cases hxy with
    | none => exact ⟨fun _ => ⟨0, rfl⟩, fun p hp => (by simp [aEnter] at hp)⟩
    | out => exact ⟨fun _ => ⟨1, rfl⟩, fun p hp => (by simp [aEnter] at hp)⟩
    | node j hj hoff =>
      obtain ⟨a, _, ha, _⟩ := hs.node j hj
      by_cases hemp : a.acts = [] ∧ a.ask = none
      · obtain ⟨b, hA, hB, hd⟩ := fuse_enter_node_empty hs j hj hoff a ha hemp
        obtain ⟨i1, i2⟩ := ih _ _ hd
        rw [hA]
        refine ⟨fun h0 => ?_, fun p hp => ?_⟩
        · obtain ⟨g, hg⟩ := i1 h0
          exact ⟨g + 1, by rw [hB]; exact hg⟩
        · obtain ⟨g, p', hg, hr⟩ := i2 p hp
          exact ⟨g + 1, p', by rw [hB]; exact hg, hr⟩
      · obtain ⟨p', hB, hr, _⟩ := fuse_enter_node_nonempty hs j hj hoff a ha hemp
        have hA : aEnter A (f + 1) (some (some (ia j))) = some (.at ⟨ia j, 0⟩) := by
          simp only [aEnter, ha]
          rw [if_neg (fun h => hemp ((isEmptyNode_iff a).mp h))]
        rw [hA]
        refine ⟨fun h0 => (by cases h0), fun p hp => ?_⟩
        injection hp with hp; injection hp with hp; subst hp
        exact ⟨2, p', hB 0, hr⟩
    | skip k a y hk ha1 ha2 hd =>
      have hA : aEnter A (f + 1) (some (some k)) = aEnter A f (a.dests.head?.join) := by
        simp only [aEnter, hk]
        rw [if_pos ((isEmptyNode_iff a).mpr ⟨ha1, ha2⟩)]
      rw [hA]
      exact ih _ _ hd

/-- … and conversely -/
theorem fuse_enter_bwd (hs : FuseOf A B V ia ib off ir) :
    ∀ (g : Nat) (x y : Option (Option Nat)), DRelO A V ia ib off x y →
    (aEnter B g y = none → ∃ f, aEnter A f x = none) ∧
    (∀ p', aEnter B g y = some (.at p') →
      ∃ f p, aEnter A f x = some (.at p) ∧ SRelO A V ia ib off ir (.at p) (.at p')) := by
  intro g
  induction g with
  | zero =>
    intro x y hxy
    induction hxy with
    | none => exact ⟨fun _ => ⟨0, rfl⟩, fun p hp => (by simp [aEnter] at hp)⟩
    | out => exact ⟨fun hp => (by simp [aEnter] at hp), fun p hp => (by simp [aEnter] at hp)⟩
    | node j hj _ => exact ⟨fun hp => (by simp [aEnter] at hp), fun p hp => (by simp [aEnter] at hp)⟩
    | skip k a y hk ha1 ha2 hd ihd =>
      have hA : ∀ f, aEnter A (f + 1) (some (some k)) = aEnter A f (a.dests.head?.join) := by
        intro f
        simp only [aEnter, hk]
        rw [if_pos ((isEmptyNode_iff a).mpr ⟨ha1, ha2⟩)]
      refine ⟨fun h0 => ?_, fun p' hp => ?_⟩
      · obtain ⟨f, hf⟩ := ihd.1 h0
        exact ⟨f + 1, by rw [hA]; exact hf⟩
      · obtain ⟨f, p, hf, hr⟩ := ihd.2 p' hp
        exact ⟨f + 1, p, by rw [hA]; exact hf, hr⟩
  | succ g ih =>
    intro x y hxy
    induction hxy with
    | none => exact ⟨fun _ => ⟨0, rfl⟩, fun p hp => (by simp [aEnter] at hp)⟩
    | out => exact ⟨fun _ => ⟨1, rfl⟩, fun p hp => (by simp [aEnter] at hp)⟩
    | node j hj hoff =>
      obtain ⟨a, _, ha, _⟩ := hs.node j hj
      by_cases hemp : a.acts = [] ∧ a.ask = none
      · obtain ⟨b, hA, hB, hd⟩ := fuse_enter_node_empty hs j hj hoff a ha hemp
        obtain ⟨i1, i2⟩ := ih _ _ hd
        rw [hB]
        refine ⟨fun h0 => ?_, fun p' hp => ?_⟩
        · obtain ⟨f, hf⟩ := i1 h0
          exact ⟨f + 1, by rw [hA]; exact hf⟩
        · obtain ⟨f, p, hf, hr⟩ := i2 p' hp
          exact ⟨f + 1, p, by rw [hA]; exact hf, hr⟩
      · obtain ⟨p0, _, hr, hB⟩ := fuse_enter_node_nonempty hs j hj hoff a ha hemp
        have hA : aEnter A 1 (some (some (ia j))) = some (.at ⟨ia j, 0⟩) := by
          simp only [aEnter, ha]
          rw [if_neg (fun h => hemp ((isEmptyNode_iff a).mp h))]
        refine ⟨fun h0 => ?_, fun p' hp => ?_⟩
        · rcases hB (g + 1) with h1 | h1 <;> rw [h1] at h0 <;> cases h0
        · rcases hB (g + 1) with h1 | h1
          · rw [h1] at hp; injection hp with hp; injection hp with hp; subst hp
            exact ⟨1, _, hA, hr⟩
          · rw [h1] at hp; cases hp
    | skip k a y hk ha1 ha2 hd ihd =>
      have hA : ∀ f, aEnter A (f + 1) (some (some k)) = aEnter A f (a.dests.head?.join) := by
        intro f
        simp only [aEnter, hk]
        rw [if_pos ((isEmptyNode_iff a).mpr ⟨ha1, ha2⟩)]
      refine ⟨fun h0 => ?_, fun p' hp => ?_⟩
      · obtain ⟨f, hf⟩ := ihd.1 h0
        exact ⟨f + 1, by rw [hA]; exact hf⟩
      · obtain ⟨f, p, hf, hr⟩ := ihd.2 p' hp
        exact ⟨f + 1, p, by rw [hA]; exact hf, hr⟩

/-- entering corresponding destinations, with the fuels the two systems use -/
theorem fuse_enter_rel (hs : FuseOf A B V ia ib off ir) (x y : Option (Option Nat))
    (hxy : DRelO A V ia ib off x y) :
    OptRel (SRelO A V ia ib off ir) (aEnter A (A.length + 1) x) (aEnter B (B.length + 1) y) := by
  cases hr : aEnter A (A.length + 1) x with
  | none =>
    obtain ⟨g, hg⟩ := (fuse_enter_fwd hs _ x y hxy).1 hr
    rw [aEnter_canon B g y none hg (by simp)]
    trivial
  | some sA =>
    cases sA with
    | «at» p =>
      obtain ⟨g, p', hg, hrel⟩ := (fuse_enter_fwd hs _ x y hxy).2 p hr
      rw [aEnter_canon B g y _ hg (by simp)]
      exact hrel
    | div =>
      cases hrB : aEnter B (B.length + 1) y with
      | none =>
        obtain ⟨f, hf⟩ := (fuse_enter_bwd hs _ x y hxy).1 hrB
        have := aEnter_canon A f x none hf (by simp)
        rw [hr] at this; cases this
      | some sB =>
        cases sB with
        | div => trivial
        | «at» p' =>
          obtain ⟨f, p, hf, _⟩ := (fuse_enter_bwd hs _ x y hxy).2 p' hrB
          have := aEnter_canon A f x _ hf (by simp)
          rw [hr] at this; cases this

/-- the positions of `SRelO` behave alike -/
theorem srelO_step (hs : FuseOf A B V ia ib off ir) (s t : St) (hst : SRelO A V ia ib off ir s t) :
    aObs A s = aObs B t ∧ aArity A s = aArity B t ∧
      ∀ c, c < aArity A s → OptRel (SRelO A V ia ib off ir) (aNext A s c) (aNext B t c) := by
  cases s with
  | div =>
    cases t with
    | div => exact ⟨rfl, rfl, fun c hc => absurd hc (by simp [aArity])⟩
    | «at» p' => cases hst
  | «at» p =>
    cases t with
    | div => cases hst
    | «at» p' =>
      obtain ⟨j, a, hj, hpn, ha, hpos⟩ := hst
      obtain ⟨a', b, ha', hb, hacts, hcase⟩ := hs.node j hj
      rw [ha] at ha'; injection ha' with ha'; subst ha'
      obtain ⟨pn, pk⟩ := p
      obtain ⟨pn', pk'⟩ := p'
      simp only at hpn hpos
      subst hpn
      rcases hpos with ⟨hlt, hn', hk'⟩ | ⟨heq, hask, hsub⟩
      · -- inside the actions
        subst hn'
        rw [hk']
        clear hk'
        have hx : a.acts[pk]? = some a.acts[pk] := by simp [hlt]
        have hbx : b.acts[off j + pk]? = some a.acts[pk] := by rw [hacts pk hlt, hx]
        refine ⟨?_, ?_, ?_⟩
        · simp only [aObs, ha, hb, hx, hbx]
        · simp only [aArity, ha, hb, hx, hbx]
        · intro c _
          simp only [aNext, ha, hb, hx, hbx]
          by_cases hnext : pk + 1 < a.acts.length
          · have hbnext : off j + pk + 1 < b.acts.length := fuse_lt_of_lt hacts (pk + 1) hnext
            simp only [hnext, hbnext, if_true]
            exact ⟨j, a, hj, rfl, ha, .inl ⟨hnext, rfl, rfl⟩⟩
          · simp only [hnext, if_false]
            have hlast : pk + 1 = a.acts.length := by omega
            rcases hcase with ⟨hir, hlen, hbk, hbd⟩ |
              ⟨q, b2, hir, hask, hlen, hbk, hbd, hb2, hb2a, hb2k, hb2d⟩ |
              ⟨j', hj', hne, hak, had, hib, hoff', a2, ha2, hne2⟩
            · -- last of its chain, not split
              have hbnext : ¬ (off j + pk + 1 < b.acts.length) := by omega
              simp only [hbnext, if_false]
              rw [hbk]
              cases hk : a.ask with
              | some r =>
                exact ⟨j, a, hj, rfl, ha, .inr ⟨hlast, by rw [hk]; rfl, .inl ⟨hir, rfl, rfl⟩⟩⟩
              | none => exact fuse_enter_rel hs _ _ (DRelO.head hbd)
            · -- last of its chain, split
              have hbnext : ¬ (off j + pk + 1 < b.acts.length) := by omega
              simp only [hbnext, if_false]
              rw [hbk]
              cases hk : a.ask with
              | none => rw [hk] at hask; cases hask
              | some r =>
                simp only [hbd, List.head?_cons, Option.join_some]
                have hb2e : ¬ (b2.acts = [] ∧ b2.ask = none) := by
                  intro h; rw [hb2k, hk] at h; cases h.2
                have : aEnter B (B.length + 1) (some (some q)) = some (.at ⟨q, 0⟩) := by
                  simp only [aEnter, hb2]
                  rw [if_neg (fun h => hb2e ((isEmptyNode_iff b2).mp h))]
                rw [this]
                exact ⟨j, a, hj, rfl, ha, .inr ⟨hlast, by rw [hk]; rfl, .inr ⟨q, hir, rfl, rfl⟩⟩⟩
            · -- linked: `A` enters the next node of the chain, `B` stays in its node
              obtain ⟨a2', b', ha2', hb', hacts', _⟩ := hs.node j' hj'
              rw [ha2] at ha2'; injection ha2' with ha2'; subst ha2'
              rw [hib, hb] at hb'; injection hb' with hb'; subst hb'
              have hl2 : 0 < a2.acts.length := List.length_pos_iff.mpr hne2
              have hbl : off j' + 0 < b.acts.length := fuse_lt_of_lt hacts' 0 hl2
              have hbnext : off j + pk + 1 < b.acts.length := by omega
              simp only [hbnext, if_true]
              rw [hak, had]
              simp only [List.head?_cons, Option.join_some]
              have ha2e : ¬ (a2.acts = [] ∧ a2.ask = none) := fun h => hne2 h.1
              have : aEnter A (A.length + 1) (some (some (ia j'))) = some (.at ⟨ia j', 0⟩) := by
                simp only [aEnter, ha2]
                rw [if_neg (fun h => ha2e ((isEmptyNode_iff a2).mp h))]
              rw [this]
              exact ⟨j', a2, hj', rfl, ha2, .inl ⟨hl2, hib.symm, by simp only; omega⟩⟩
      · -- at the decision
        subst heq
        have hx : a.acts[a.acts.length]? = none := by simp
        -- the node of `B` that decides
        have hB : ∃ bb, B[pn']? = some bb ∧ bb.acts[pk']? = none ∧ bb.ask = a.ask ∧
            List.Forall₂ (DRelO A V ia ib off) a.dests bb.dests := by
          rcases hsub with ⟨hir, hn', hk'⟩ | ⟨q, hir, hn', hk'⟩
          · rcases hcase with ⟨_, hlen, hbk, hbd⟩ | ⟨q, b2, hir', _⟩ | ⟨j', _, _, hak, _⟩
            · subst hn'
              refine ⟨b, hb, ?_, hbk, hbd⟩
              rw [hk', ← hlen]; simp
            · rw [hir] at hir'; cases hir'
            · rw [hak] at hask; cases hask
          · rcases hcase with ⟨hir', _⟩ | ⟨q', b2, hir', _, _, _, _, hb2, hb2a, hb2k, hb2d⟩ |
              ⟨j', _, _, hak, _⟩
            · rw [hir] at hir'; cases hir'
            · rw [hir] at hir'; injection hir' with hir'; subst hir'
              subst hn' hk'
              exact ⟨b2, hb2, by rw [hb2a]; rfl, hb2k, hb2d⟩
            · rw [hak] at hask; cases hask
        obtain ⟨bb, hbb, hbx, hbk, hbd⟩ := hB
        obtain ⟨r, hr⟩ : ∃ r, a.ask = some r := by
          cases hk : a.ask with
          | none => rw [hk] at hask; cases hask
          | some r => exact ⟨r, rfl⟩
        refine ⟨?_, ?_, ?_⟩
        · simp only [aObs, ha, hbb, hx, hbx, hbk, hr]
        · simp only [aArity, ha, hbb, hx, hbx, hbk, hr]
          exact hbd.length_eq
        · intro c _
          simp only [aNext, ha, hbb, hx, hbx, hbk, hr]
          exact fuse_enter_rel hs _ _ (DRelO.get hbd c)

/-- **a flow abstraction and one in which chains of nodes are fused have the same runs** -/
theorem run_fuse (hs : FuseOf A B V ia ib off ir)
    (hstart : (A = [] ∧ B = []) ∨ (A ≠ [] ∧ B ≠ [] ∧ ∃ j0, V j0 ∧ off j0 = 0 ∧ ia j0 = 0 ∧ ib j0 = 0))
    (env : Nat → Nat) (n : Nat) :
    run (aSys A) (aStart A) env n = run (aSys B) (aStart B) env n := by
  refine run_eq_of_rel (aSys A) (aSys B) (SRelO A V ia ib off ir) (fun s t hst => srelO_step hs s t hst) n _ _ env ?_
  rcases hstart with ⟨hA, hB⟩ | ⟨hA, hB, j0, hj0, h0, h1, h2⟩
  · subst hA hB; trivial
  · have e1 : aStart A = aEnter A (A.length + 1) (some (some 0)) := by
      cases A with
      | nil => exact absurd rfl hA
      | cons _ _ => rfl
    have e2 : aStart B = aEnter B (B.length + 1) (some (some 0)) := by
      cases B with
      | nil => exact absurd rfl hB
      | cons _ _ => rfl
    rw [e1, e2]
    have := fuse_enter_rel hs _ _
      (DRelO.node (A := A) (V := V) (ia := ia) (ib := ib) (off := off) j0 hj0 h0)
    rw [h1, h2] at this
    exact this

end

/-- flows whose abstractions are related by fusing chains of nodes are trace equivalent -/
theorem trace_eq_of_fuse {ι : Type} (lvl : ObsLevel) (f g : Flow) (V : ι → Prop) (ia ib off : ι → Nat)
    (ir : ι → Option Nat)
    (hs : FuseOf (absFlow lvl f) (absFlow lvl g) V ia ib off ir)
    (hstart : (absFlow lvl f = [] ∧ absFlow lvl g = []) ∨
      (absFlow lvl f ≠ [] ∧ absFlow lvl g ≠ [] ∧ ∃ j0, V j0 ∧ off j0 = 0 ∧ ia j0 = 0 ∧ ib j0 = 0))
    (env : Nat → Nat) (n : Nat) : trace lvl f env n = trace lvl g env n := by
  rw [trace_abs, trace_abs]
  exact run_fuse hs hstart env n

end Rpft.Flow
