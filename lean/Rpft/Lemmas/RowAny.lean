/-
Field round trips (`FieldRT`) for untyped lists (`list`): packed into one cell (strings and
lists of strings, two levels), or — plain strings only — spread over `f.1, f.2, …`
(an untyped list holding lists cannot be spread: finding F-C04-d).
-/
import Rpft.Lemmas.RowElemSub
set_option linter.unusedSimpArgs false
set_option linter.unusedVariables false
namespace Rpft.Row
open Rpft Rpft.Cell

mutual
theorem toPV_ofPV : ∀ (x : PV), Tree.toPV (Tree.ofPV x) = some x
  | .atom s => by simp [Tree.ofPV, Tree.toPV]
  | .list xs => by simp [Tree.ofPV, Tree.toPV, toPVs_ofPVs xs]
theorem toPVs_ofPVs : ∀ (xs : List PV), Tree.toPVs (Tree.ofPVs xs) = some xs
  | [] => by simp [Tree.ofPVs, Tree.toPVs]
  | x :: xs => by simp [Tree.ofPVs, Tree.toPVs, toPV_ofPV x, toPVs_ofPVs xs]
end

/-! ### packed -/

def atomStr : PV → Str
  | .atom s => s
  | .list _ => []

def pvToElem : PV → Elem
  | .atom s => .atom s
  | .list ys => .list (ys.map atomStr)

theorem inner_ok {ys : List PV} (h : (ys.all fun
      | .atom s => strOk s && !s.isEmpty
      | .list _ => false) = true) :
    ys = (ys.map atomStr).map PV.atom ∧ ∀ s ∈ ys.map atomStr, strOk s = true ∧ s ≠ [] := by
  induction ys with
  | nil => simp
  | cons y ys ih =>
    simp only [List.all_cons, Bool.and_eq_true] at h
    obtain ⟨h1, h2⟩ := h
    obtain ⟨e, hs⟩ := ih h2
    cases y with
    | list _ => simp at h1
    | atom s =>
      simp only [Bool.and_eq_true, Bool.not_eq_true', List.isEmpty_eq_false_iff] at h1
      constructor
      · simp only [List.map_cons, atomStr]; rw [← e]
      · intro t ht
        simp only [List.map_cons, atomStr, List.mem_cons] at ht
        rcases ht with rfl | ht
        · exact ⟨h1.1, h1.2⟩
        · exact hs t ht

theorem pv_elem_facts {x : PV} (h : pvOk x = true) :
    nestedOfPV x = elemToNested (pvToElem x) ∧ PV.ofElem (pvToElem x) = x ∧
    Props.C08.WFElem (pvToElem x) ∧ ElemAll (fun s => strOk s = true) (pvToElem x) ∧
    pvToElem x ≠ .atom [] := by
  cases x with
  | atom s =>
    simp only [pvOk, Bool.and_eq_true, Bool.not_eq_true', List.isEmpty_eq_false_iff] at h
    refine ⟨by simp [nestedOfPV, pvToElem, elemToNested], by simp [pvToElem, PV.ofElem],
      trivial, h.1, ?_⟩
    simp only [pvToElem, ne_eq, Elem.atom.injEq]
    exact h.2
  | list ys =>
    simp only [pvOk, Bool.and_eq_true, Bool.not_eq_true', List.isEmpty_eq_false_iff] at h
    obtain ⟨e, hs⟩ := inner_ok h.2
    have hne : ys.map atomStr ≠ [] := by simpa using h.1
    refine ⟨?_, ?_, ⟨hne, ?_⟩, fun s hs' => (hs s hs').1, by simp [pvToElem]⟩
    · have : nestedOfPVs ys = (ys.map atomStr).map Nested.str := by
        conv => lhs; rw [e]
        generalize ys.map atomStr = ss
        induction ss with
        | nil => rfl
        | cons s ss ih => simp [nestedOfPVs, nestedOfPV, ih]
      simp [nestedOfPV, pvToElem, elemToNested, this]
    · simp only [pvToElem, PV.ofElem]; rw [← e]
    · intro _ hl
      cases hg : (ys.map atomStr).getLast? with
      | none => simp [hg] at hl
      | some a =>
        rw [hg] at hl
        simp only [Option.some.injEq] at hl
        exact (hs a (List.mem_of_getLast? hg)).2 hl

theorem nestedOfPVs_map : ∀ (xs : List PV), (∀ x ∈ xs, pvOk x = true) →
    nestedOfPVs xs = (xs.map pvToElem).map elemToNested ∧ (xs.map pvToElem).map PV.ofElem = xs
  | [], _ => by simp [nestedOfPVs]
  | x :: xs, h => by
    obtain ⟨h1, h2⟩ := nestedOfPVs_map xs (fun y hy => h y (List.mem_cons_of_mem _ hy))
    obtain ⟨f1, f2, _⟩ := pv_elem_facts (h x (by simp))
    simp [nestedOfPVs, f1, h1, f2, h2]

theorem fieldRT_any_packed {lay : Layout} {fs : List Field} {n : Str} {d : Option Val}
    (hn : simpleName n = true) (hf : fieldLookup n fs = some (n, .anyList, d))
    (he : lay.excluded = []) (hm : matchesHeaders ('.' :: n) lay.targets = true)
    (xs : List PV) (hne : xs ≠ []) (hxs : ∀ x ∈ xs, pvOk x = true) :
    FieldRT lay fs n .anyList (.any xs) := by
  obtain ⟨hnest, hback⟩ := nestedOfPVs_map xs hxs
  have hwf : Props.C08.WFCell (.list (xs.map pvToElem)) := by
    refine ⟨by simpa using hne, ?_, ?_⟩
    · intro e he'
      obtain ⟨x, hx, rfl⟩ := List.mem_map.mp he'
      exact (pv_elem_facts (hxs x hx)).2.2.1
    · intro _ hl
      rw [List.getLast?_map] at hl
      cases hg : xs.getLast? with
      | none => simp [hg] at hl
      | some a =>
        rw [hg] at hl
        simp only [Option.map_some, Option.some.injEq] at hl
        exact (pv_elem_facts (hxs a (List.mem_of_getLast? hg))).2.2.2.2 hl
  have hok : CellOk (.list (xs.map pvToElem)) := by
    intro e he'
    obtain ⟨x, hx, rfl⟩ := List.mem_map.mp he'
    exact (pv_elem_facts (hxs x hx)).2.2.2.1
  refine fieldRT_single hn hf (joinCell (.list (xs.map pvToElem))) (.list xs)
    (.list (Tree.ofPVs xs)) ?_ ?_ ?_ ?_ rfl
  · intro out
    unfold unparseRec
    simp only [he, matchesHeaders_nil, hm, isBasicVal, Bool.false_or, if_true, Bool.false_eq_true,
      if_false, writeValue, toNested, hnest]
    rw [joinPacked_cell]
  · simp only [leafValue, isListTy, Bool.true_or, if_true]
    rw [cellParse_joinCell hwf hok]
    simp [PV.ofCell, hback]
  · simp [assignValue, assignAny]
  · simp [validate, toPVs_ofPVs]

/-! ### spread (plain strings) -/

/-- appending to a list-like position (typed or untyped list) -/
theorem findSet_listlike_next (leaf : Ty → Except Err (Option Tree)) (lty : Ty)
    (hl : isListTy lty = true) (ts : List Tree) (tr : Tree)
    (hleaf : leaf (listChild lty) = .ok (some tr)) :
    findSet leaf lty (.list ts) [printNat (ts.length + 1)] = .ok (.list (ts ++ [tr])) := by
  conv => lhs; unfold findSet
  have h1 : (Int.ofNat (ts.length + 1) : Int) - 1 = (ts.length : Int) := by simp
  simp only [hl, if_true, pyInt_printNat, h1, hleaf, leafList]
  have h2 : ¬ ((ts.length : Int) ≤ (ts.length : Int) ∧ (ts.length : Int) ≠ (ts.length : Int)) := by
    intro h; exact h.2 rfl
  simp only [h2, if_false, Int.le_refl, if_true, List.length_append, List.length_singleton]
  have h3 : pyIndex (ts.length + 1) (ts.length : Int) = some ts.length := by simp [pyIndex]
  simp only [h3]
  simp

theorem unparsePVs_atoms {lay : Layout} (he : lay.excluded = []) {n : Str}
    (hn : simpleName n = true) : ∀ (ss : List Str) (i : Nat) (out : Out),
    (∀ kv ∈ out, headSeg kv.1 ≠ n ∨ ∃ k, k < i ∧ kv.1 = n ++ '.' :: printNat k) →
    unparsePVs lay (ss.map PV.atom) ('.' :: n) i out = .ok (out ++ spreadCols n i ss)
  | [], _, out, _ => by simp [unparsePVs, spreadCols]
  | s :: ss, i, out, hout => by
    have hkey : alookup (n ++ '.' :: printNat i) out = none := by
      rw [alookup_none_iff]
      intro hm
      obtain ⟨kv, hkv, e⟩ := List.mem_map.mp hm
      rcases hout kv hkv with h | ⟨k, hk, h⟩
      · rw [e, headSeg_dotted hn] at h; exact h rfl
      · rw [e] at h
        have := printNat_inj (List.cons.inj (List.append_cancel_left h)).2
        omega
    simp only [List.map_cons, unparsePVs, unparsePV, he, matchesHeaders_nil, Bool.false_eq_true,
      if_false, writeOut, idxPrefix, List.cons_append, trimPrefix, hkey]
    rw [unparsePVs_atoms he hn ss (i + 1) (out ++ [(n ++ '.' :: printNat i, s)])]
    · simp [spreadCols]
    · intro kv hkv
      rcases List.mem_append.mp hkv with h | h
      · rcases hout kv h with h' | ⟨k, hk, h'⟩
        · exact Or.inl h'
        · exact Or.inr ⟨k, by omega, h'⟩
      · simp only [List.mem_singleton] at h
        exact Or.inr ⟨i, by omega, by rw [h]⟩

theorem fold_spread_any {fs : List Field} {n : Str} {d : Option Val}
    (hn : simpleName n = true) (hf : fieldLookup n fs = some (n, .anyList, d))
    (kvs : List (Str × Tree)) (hk : alookup n kvs = none) :
    ∀ (ss : List Str) (s : Str) (ts : List Tree) (cur : Option Tree),
      (cur = none ∧ ts = [] ∨ cur = some (.list ts)) →
      (∀ x ∈ s :: ss, strOk x = true) →
      foldE (parseEntry (plainTop fs)) (.dict (st kvs n cur))
          (inl (spreadCols n (ts.length + 1) (s :: ss))) =
        .ok (.dict (st kvs n (some (.list (ts ++ (s :: ss).map Tree.str)))))
  | ss, s, ts, cur, hcur, hok => by
    have hinit : initChild .anyList (cur.getD Tree.none) = .list ts := by
      rcases hcur with ⟨rfl, rfl⟩ | rfl <;> simp [initChild, isListTy]
    obtain ⟨h1, h2, _⟩ := strOk_spec (hok s (by simp))
    have hstep : parseEntry (plainTop fs) (.dict (st kvs n cur))
        (n ++ '.' :: printNat (ts.length + 1), Sum.inl s) =
        .ok (.dict (st kvs n (some (.list (ts ++ [Tree.str s]))))) := by
      rw [parseEntry_nested hn hf kvs hk cur _ (printNat_keyChar _),
        splitDot_simple _ (printNat_no_dot _), hinit,
        findSet_listlike_next _ .anyList rfl ts (Tree.str s)
          (by simp [listChild, leafFn, leafValue, isListTy, isModelTy, parseAsString_ok h1 h2,
            assignValue, assignStr])]
    cases ss with
    | nil =>
      simp only [spreadCols, inl, List.map_cons, List.map_nil, foldE]
      rw [hstep]
    | cons s' ss' =>
      have ih := fold_spread_any hn hf kvs hk ss' s' (ts ++ [Tree.str s])
        (some (.list (ts ++ [Tree.str s]))) (Or.inr rfl)
        (fun x hx => hok x (List.mem_cons_of_mem _ hx))
      simp only [List.length_append, List.length_singleton] at ih
      simp only [spreadCols, inl, List.map_cons, foldE] at ih ⊢
      rw [hstep]
      simp only
      rw [ih]
      simp

theorem ofPVs_atoms : ∀ (ss : List Str), Tree.ofPVs (ss.map PV.atom) = ss.map Tree.str
  | [] => rfl
  | s :: ss => by simp [Tree.ofPVs, Tree.ofPV, ofPVs_atoms ss]

theorem fieldRT_any_spread {lay : Layout} {fs : List Field} {n : Str} {d : Option Val}
    (hn : simpleName n = true) (hf : fieldLookup n fs = some (n, .anyList, d))
    (he : lay.excluded = []) (hm : matchesHeaders ('.' :: n) lay.targets = false)
    (ss : List Str) (hne : ss ≠ []) (hss : ∀ s ∈ ss, strOk s = true) :
    FieldRT lay fs n .anyList (.any (ss.map PV.atom)) := by
  refine ⟨spreadCols n 1 ss, .list (ss.map Tree.str), ?_, ?_, spreadCols_nodup n ss 1, ?_, ?_, rfl⟩
  · intro out hout
    unfold unparseRec
    simp only [he, matchesHeaders_nil, hm, isBasicVal, Bool.false_or, Bool.false_eq_true, if_false]
    exact unparsePVs_atoms he hn ss 1 out (fun kv hkv => Or.inl (hout kv hkv))
  · intro kv hkv
    obtain ⟨k, _, e⟩ := spreadCols_keys n ss 1 kv hkv
    rw [e]
    refine ⟨headSeg_dotted hn _, ?_⟩
    intro c hc
    rcases List.mem_append.mp hc with h | h
    · exact simpleName_keyChar hn c h
    · simp only [List.mem_cons] at h
      rcases h with rfl | h
      · decide
      · exact printNat_keyChar k c h
  · intro kvs hk
    cases ss with
    | nil => exact absurd rfl hne
    | cons s ss' =>
      have := fold_spread_any hn hf kvs hk ss' s [] none (Or.inl ⟨rfl, rfl⟩) hss
      simpa [st] using this
  · simp only [validate]
    rw [← ofPVs_atoms ss, toPVs_ofPVs]

end Rpft.Row
