/-
The desugared twin of an `insert_as_block` row, the class of template bodies covered, and the
decomposition of the two runs (the insert row; the twin block) into their phases.
-/
import Rpft.Lemmas.CompileInsertEmit
import Rpft.Lemmas.CompileInsertIds
set_option linter.unusedSimpArgs false
set_option linter.unusedVariables false
namespace Rpft.Compile
open Rpft Function

/-! ### the twin -/

/-- a row attached to `start` in the template gets a blank `from` in the twin -/
def startS : Str := "start".toList

def retargetEdge (e : Edge) : Edge := if e.from_ = startS then { e with from_ := [] } else e

def retargetRow (r : Row) : Row := { r with edges := r.edges.map retargetEdge }

/-- only the rows the template's own parser reads are retargeted (a nested insertion keeps its
own template) -/
def retargetEv : Event → Event
  | .row r => .row (retargetRow r)
  | .openGroup es st => .openGroup (es.map retargetEdge) st
  | .closeGroup id => .closeGroup id
  | .insert r body => .insert (retargetRow r) body

def retarget (body : List Event) : List Event := body.map retargetEv

/-- `begin_block` with the insert row's edges, the template's rows, `end_block` under the insert row's id -/
def twin (r : Row) (body : List Event) : List Event :=
  [.openGroup r.edges false] ++ retarget body ++ [.closeGroup r.rowId]

/-! ### the covered class -/

/-- the entry row of the template: an action row creating a node, attached to `start` (or with a
blank `from`) unconditionally, without `_nodeId` / node name -/
def EntryRow (r : Row) : Prop :=
  r.edges ≠ [] ∧ (∀ e ∈ r.edges, (e.from_ = startS ∨ e.from_ = []) ∧ e.cond.blank = true) ∧
  r.type ≠ "hard_exit".toList ∧ r.type ≠ "loose_exit".toList ∧ r.type ≠ "go_to".toList ∧
  r.type ≠ "no_op".toList ∧ r.type ≠ "insert_as_block".toList ∧ r.nodeUuid = [] ∧ r.nodeName = []

instance (r : Row) : Decidable (EntryRow r) := by unfold EntryRow; exact inferInstance

/-- no edge read by this parser is attached to `start` -/
def Event.noStart : Event → Bool
  | .row r => r.edges.all fun e => e.from_ ≠ startS
  | .openGroup es _ => es.all fun e => e.from_ ≠ startS
  | .closeGroup _ => true
  | .insert r _ => r.edges.all fun e => e.from_ ≠ startS

def noStartL (es : List Event) : Bool := es.all Event.noStart

theorem retargetEdge_of_ne {e : Edge} (h : e.from_ ≠ startS) : retargetEdge e = e := by
  unfold retargetEdge; rw [if_neg h]

theorem map_retargetEdge_of_noStart {es : List Edge} (h : es.all (fun e => e.from_ ≠ startS) = true) :
    es.map retargetEdge = es := by
  induction es with
  | nil => rfl
  | cons e es ih =>
    simp only [List.all_cons, Bool.and_eq_true, decide_eq_true_eq] at h
    simp only [List.map_cons, retargetEdge_of_ne h.1, ih h.2]

theorem retarget_of_noStart {es : List Event} (h : noStartL es = true) : retarget es = es := by
  induction es with
  | nil => rfl
  | cons e es ih =>
    simp only [noStartL, List.all_cons, Bool.and_eq_true] at h
    have ih' := ih h.2
    simp only [retarget, List.map_cons] at ih' ⊢
    rw [ih']
    congr 1
    cases e with
    | row r => simp only [retargetEv, retargetRow, map_retargetEdge_of_noStart h.1]
    | openGroup es st => simp only [retargetEv, map_retargetEdge_of_noStart h.1]
    | closeGroup id => rfl
    | insert r body => simp only [retargetEv, retargetRow, map_retargetEdge_of_noStart h.1]

/-! ### runs -/

theorem steps_append (a b : List Event) : steps (a ++ b) = (do steps a; steps b) := by
  induction a with
  | nil => simp only [List.nil_append]; unfold steps; simp
  | cons e es ih =>
    simp only [List.cons_append]
    rw [steps, ih, steps]
    simp [bind_assoc]

theorem run_steps_append {a b : List Event} {s t : St} (h : (steps (a ++ b)).run s = .ok ((), t)) :
    ∃ u, (steps a).run s = .ok ((), u) ∧ (steps b).run u = .ok ((), t) := by
  rw [steps_append] at h
  obtain ⟨_, u, h1, h2⟩ := run_bind_ok h
  exact ⟨u, h1, h2⟩

theorem run_steps_cons {e : Event} {es : List Event} {s t : St} (h : (steps (e :: es)).run s = .ok ((), t)) :
    ∃ u, (step e).run s = .ok ((), u) ∧ (steps es).run u = .ok ((), t) := by
  rw [steps] at h
  obtain ⟨_, u, h1, h2⟩ := run_bind_ok h
  exact ⟨u, h1, h2⟩

theorem run_steps_nil {s t : St} (h : (steps []).run s = .ok ((), t)) : t = s := by
  rw [steps] at h
  cases h; rfl

theorem run_pure_ok {α : Type} {a b : α} {s t : St} (h : (pure a : M α).run s = .ok (b, t)) : b = a ∧ t = s := by
  cases h; exact ⟨rfl, rfl⟩

theorem run_get_ok {a s t : St} (h : (get : M St).run s = .ok (a, t)) : a = s ∧ t = s := by
  cases h; exact ⟨rfl, rfl⟩

theorem run_modify_ok {f : St → St} {s t : St} {u : PUnit} (h : (modify f : M PUnit).run s = .ok (u, t)) : t = f s := by
  cases h; rfl

theorem run_addNode_ok {n : NodeM} {s t : St} {i : Nat} (h : (addNode n).run s = .ok (i, t)) :
    i = s.nodes.size ∧ t = { s with nodes := s.nodes.push n } := by
  cases h; exact ⟨rfl, rfl⟩

theorem run_addGrp_ok {g : Grp} {s t : St} {i : Nat} (h : (addGrp g).run s = .ok (i, t)) :
    i = s.groups.size ∧ t = { s with groups := s.groups.push g } := by
  cases h; exact ⟨rfl, rfl⟩

/-- the run of `append_node_group` -/
theorem appendGroup_run {g : Nat} {id : Str} {s t : St} (h : (appendGroup g id).run s = .ok ((), t)) :
    ∃ b rest cs, s.stack = b :: rest ∧ s.groups[b]? = some (.block cs) ∧
      t = { s with groups := s.groups.setIfInBounds b (.block (cs ++ [g])),
                   rowIds := if id.isEmpty then s.rowIds else (id, g) :: s.rowIds } := by
  have hw : wp (appendGroup g id) s (fun _ t => ∃ b rest cs, s.stack = b :: rest ∧ s.groups[b]? = some (.block cs) ∧
      t = { s with groups := s.groups.setIfInBounds b (.block (cs ++ [g])),
                   rowIds := if id.isEmpty then s.rowIds else (id, g) :: s.rowIds }) := by
    unfold appendGroup addRowId
    rw [wp_bind, wp_get]
    cases hst : s.stack with
    | nil => simp only []; rw [wp_fail]; trivial
    | cons b rest =>
      simp only []
      cases hg : s.groups[b]? with
      | none => simp only []; rw [wp_fail]; trivial
      | some grp =>
        cases grp with
        | row _ _ => simp only []; rw [wp_fail]; trivial
        | noop _ _ => simp only []; rw [wp_fail]; trivial
        | block cs =>
          simp only []
          rw [wp_bind, wp_setGrp]
          cases hid : id.isEmpty with
          | true =>
            simp only [if_true]
            rw [wp_pure]
            exact ⟨b, rest, cs, rfl, hg, by simp [hst]⟩
          | false =>
            simp only [Bool.false_eq_true, if_false]
            rw [wp_modify]
            exact ⟨b, rest, cs, rfl, hg, by simp [hst]⟩
  exact wp_of_run hw h

/-- the run of a row that creates its node -/
theorem newRow_run {r : Row} {nm : Str} {s t : St} (h : (newRow r nm).run s = .ok ((), t)) :
    ∃ act s1 n s2 s3 t',
      (rowAction r).run s = .ok (act, s1) ∧ (rowNode r act).run s1 = .ok (n, s2) ∧
      (r.edges.forM (addRowEdge (.node n.uid))).run { s2 with nodes := s2.nodes.push n } = .ok ((), s3) ∧
      (appendGroup s3.groups.size r.rowId).run { s3 with groups := s3.groups.push (.row [s2.nodes.size] r.type) }
        = .ok ((), t') ∧
      t = { t' with names := (nm, s2.nodes.size) :: t'.names } := by
  unfold newRow at h
  obtain ⟨act, s1, h1, h⟩ := run_bind_ok h
  obtain ⟨n, s2, h2, h⟩ := run_bind_ok h
  obtain ⟨i, s2', h3, h⟩ := run_bind_ok h
  obtain ⟨rfl, rfl⟩ := run_addNode_ok h3
  obtain ⟨_, s3, h4, h⟩ := run_bind_ok h
  obtain ⟨g, s3', h5, h⟩ := run_bind_ok h
  obtain ⟨rfl, rfl⟩ := run_addGrp_ok h5
  obtain ⟨_, t', h6, h⟩ := run_bind_ok h
  have := run_modify_ok h
  exact ⟨act, s1, n, s2, s3, t', h1, h2, h4, h6, this⟩

/-- an entry row is parsed as a row creating a node, without a name -/
theorem parseRow_entry {r : Row} (he : EntryRow r) {s t : St} (h : (parseRow r).run s = .ok ((), t)) :
    (newRow { r with edges := dropTrivial r.edges } []).run s = .ok ((), t) := by
  obtain ⟨_, _, h1, h2, h3, h4, h5, h6, h7⟩ := he
  unfold parseRow at h
  simp only [h1, h2, h3, h4, h5, false_or, if_false] at h
  unfold actionRow at h
  by_cases hok : r.actionOk = true
  · simp only [hok, not_true_eq_false, if_false, h6, h7, List.isEmpty_nil, if_true] at h
    obtain ⟨a, u, hg, h⟩ := run_bind_ok h
    obtain ⟨rfl, rfl⟩ := run_get_ok hg
    rw [hok, h6, h7]
    simpa using h
  · simp only [hok, not_false_eq_true, if_true] at h
    cases h

/-! ### the edges of the entry row -/

theorem mem_dropTrivial {es : List Edge} {e : Edge} (h : e ∈ dropTrivial es) : e ∈ es := by
  unfold dropTrivial at h
  simp only [List.mem_map, List.mem_filter] at h
  obtain ⟨p, ⟨hp, _⟩, rfl⟩ := h
  have := (List.mem_zipIdx hp).2.2
  rw [this]; exact List.getElem_mem _

theorem filter_zipIdx_trivial : ∀ (l : List Edge) (k : Nat), 1 ≤ k → (∀ e ∈ l, e.trivial = true) →
    (l.zipIdx k).filter (fun p => p.2 = 0 || !p.1.trivial) = [] := by
  intro l
  induction l with
  | nil => intro k _ _; rfl
  | cons e l ih =>
    intro k hk ht
    simp only [List.zipIdx_cons, List.filter_cons]
    have h1 : e.trivial = true := ht e (by simp)
    have h2 : ¬ k = 0 := by omega
    simp only [h1, h2, decide_false, Bool.not_true, Bool.or_self, Bool.false_eq_true, if_false]
    exact ih (k + 1) (by omega) (fun x hx => ht x (by simp [hx]))

/-- a non-empty list of trivial edges: only the first one is read -/
theorem dropTrivial_all_trivial (e : Edge) (l : List Edge) (h : ∀ x ∈ e :: l, x.trivial = true) :
    dropTrivial (e :: l) = [e] := by
  unfold dropTrivial
  have hf : (fun (x : Edge × Nat) => match x with | (e, i) => decide (i = 0) || !e.trivial) =
      (fun p => decide (p.2 = 0) || !p.1.trivial) := by
    funext p; rfl
  rw [hf]
  simp only [List.zipIdx_cons, List.filter_cons, decide_true, Bool.true_or, if_true, List.map_cons]
  rw [filter_zipIdx_trivial l 1 (by omega) (fun x hx => h x (by simp [hx]))]
  rfl

theorem retargetEdge_trivial {e : Edge} (h : (e.from_ = startS ∨ e.from_ = []) ∧ e.cond.blank = true) :
    (retargetEdge e).trivial = true ∧ (retargetEdge e).from_ = [] ∧ (retargetEdge e).cond = e.cond := by
  unfold retargetEdge
  rcases h.1 with h1 | h1
  · simp [h1, Edge.trivial, h.2]
  · have : ¬ e.from_ = startS := by rw [h1]; decide
    rw [if_neg this]
    simp [Edge.trivial, h1, h.2]

/-- the edges the twin's entry row is read with: one blank edge -/
theorem dropTrivial_retarget_entry {r : Row} (he : EntryRow r) :
    ∃ e, dropTrivial (r.edges.map retargetEdge) = [e] ∧ e.from_ = [] ∧ e.cond.blank = true := by
  obtain ⟨hne, hall, _⟩ := he
  cases hr : r.edges with
  | nil => exact absurd hr hne
  | cons e l =>
    rw [hr] at hall
    refine ⟨retargetEdge e, ?_, (retargetEdge_trivial (hall e (by simp))).2.1, ?_⟩
    · simp only [List.map_cons]
      apply dropTrivial_all_trivial
      intro x hx
      simp only [List.mem_cons, List.mem_map] at hx
      rcases hx with rfl | ⟨y, hy, rfl⟩
      · exact (retargetEdge_trivial (hall e (by simp))).1
      · exact (retargetEdge_trivial (hall y (by simp [hy]))).1
    · rw [(retargetEdge_trivial (hall e (by simp))).2.2]; exact (hall e (by simp)).2

theorem run_fuelOf_ok {f : Nat} {s t : St} (h : fuelOf.run s = .ok (f, t)) : f = 2 * s.groups.size + 8 ∧ t = s := by
  cases h; exact ⟨rfl, rfl⟩

/-- an edge attached to `start`, or a blank one when there is no node group yet, adds nothing -/
theorem addRowEdge_noop (d : Dest) (e : Edge) (s : St) (h : e.from_ = startS ∨ e.from_ = [])
    (hm : mostRecentIn s.groups s.stack = none) : (addRowEdge d e).run s = .ok ((), s) := by
  unfold addRowEdge groupOfEdge
  rcases h with h | h
  · have : e.from_ = "start".toList := h
    simp only [this, if_true]
    rfl
  · have h1 : ¬ e.from_ = "start".toList := by rw [h]; decide
    simp only [h1, if_false, h, List.isEmpty_nil, not_true_eq_false]
    show (mostRecent >>= _).run s = _
    rw [run_bind_of (mostRecent_run s), hm]
    rfl

theorem edges_noop (d : Dest) (es : List Edge) (s : St) (h : ∀ e ∈ es, e.from_ = startS ∨ e.from_ = [])
    (hm : mostRecentIn s.groups s.stack = none) : (es.forM (addRowEdge d)).run s = .ok ((), s) := by
  induction es with
  | nil => rfl
  | cons e es ih =>
    show (addRowEdge d e >>= fun _ => es.forM (addRowEdge d)).run s = _
    rw [run_bind_of (addRowEdge_noop d e s (h e (by simp)) hm)]
    exact ih (fun x hx => h x (by simp [hx]))

/-! ### the source groups of the insert row's edges -/

/-- the parents the begin row's `no_op` group records: the source group of every edge, looked up
in the state before the block (`none`: a lookup fails) -/
def psOf (s₀ : St) : List Edge → Option (List (Nat × Cond))
  | [] => some []
  | e :: es =>
    match (groupOfEdge e).run s₀ with
    | .ok (none, _) => psOf s₀ es
    | .ok (some src, _) => (psOf s₀ es).map ((src, e.cond) :: ·)
    | .error _ => none

/-- the scope of `s'` shows the same row ids and the same most recent node group as that of `s` -/
def ScopeLike (s s' : St) : Prop :=
  s'.rowIds = s.rowIds ∧ mostRecentIn s'.groups s'.stack = mostRecentIn s.groups s.stack

theorem groupOfEdge_scopeLike {s s' : St} (h : ScopeLike s s') (e : Edge) :
    (groupOfEdge e).run s' = ((groupOfEdge e).run s).map (fun p => (p.1, s')) := by
  unfold groupOfEdge
  by_cases h1 : e.from_ = "start".toList
  · simp only [h1, if_true]; rfl
  · simp only [h1, if_false]
    by_cases h2 : e.from_.isEmpty = true
    · simp only [h2, not_true_eq_false, if_false]
      rw [mostRecent_run, mostRecent_run, h.2]; rfl
    · simp only [h2, Bool.false_eq_true, not_false_eq_true, if_true]
      rw [run_bind_of (lookupRow_run _ s'), run_bind_of (lookupRow_run _ s), h.1]
      cases lookupIn s.rowIds e.from_ <;> rfl

/-- the twin after `begin_block`, while the begin row's edges are read: the new block, and the
`no_op` group with the parents recorded so far -/
def twOpen (s₀ : St) (ps : List (Nat × Cond)) : St :=
  { s₀ with groups := (s₀.groups.push (.block [])).push (.noop ps none), stack := s₀.groups.size :: s₀.stack }

/-- the twin after `begin_block` -/
def twO (s₀ : St) (ps : List (Nat × Cond)) : St :=
  { s₀ with groups := (s₀.groups.push (.block [s₀.groups.size + 1])).push (.noop ps none),
            stack := s₀.groups.size :: s₀.stack }

theorem set_push_last {α : Type} (a : Array α) (y y' : α) : (a.push y).setIfInBounds a.size y' = a.push y' := by
  apply Array.ext_getElem?
  intro i
  rw [Array.getElem?_setIfInBounds, Array.getElem?_push, Array.getElem?_push]
  by_cases h : a.size = i
  · simp [h]
  · have : ¬ i = a.size := fun e => h e.symm
    simp [h, this]

theorem getElem?_push_push_lt {α : Type} {a : Array α} {x y : α} {i : Nat} (h : i < a.size) :
    ((a.push x).push y)[i]? = a[i]? := by
  rw [Array.getElem?_push, Array.getElem?_push]
  have h1 : ¬ i = (a.push x).size := by simp; omega
  have h2 : ¬ i = a.size := by omega
  simp only [h1, h2, if_false]

theorem twOpen_scopeLike (s₀ : St) (ps : List (Nat × Cond)) (hsb : ∀ b ∈ s₀.stack, b < s₀.groups.size) :
    ScopeLike s₀ (twOpen s₀ ps) := by
  refine ⟨rfl, ?_⟩
  show mostRecentIn ((s₀.groups.push (.block [])).push (.noop ps none)) (s₀.groups.size :: s₀.stack) = _
  have e1 : ((s₀.groups.push (Grp.block [])).push (Grp.noop ps none))[s₀.groups.size]? = some (.block []) := by
    rw [Array.getElem?_push]
    have : ¬ s₀.groups.size = (s₀.groups.push (Grp.block [])).size := by simp
    simp [this]
  have e2 : mostRecentIn ((s₀.groups.push (.block [])).push (.noop ps none)) (s₀.groups.size :: s₀.stack) =
      mostRecentIn ((s₀.groups.push (.block [])).push (.noop ps none)) s₀.stack := by
    rw [mostRecentIn, e1]
    rfl
  rw [e2]
  exact mostRecentIn_congr _ (fun b hb => getElem?_push_push_lt (hsb b hb))

/-- one edge of the begin row: the source group (looked up as before the block) becomes a parent -/
theorem noopEdge_twOpen (s₀ : St) (ps : List (Nat × Cond)) (hsb : ∀ b ∈ s₀.stack, b < s₀.groups.size)
    (e : Edge) :
    wp (noopEdge (s₀.groups.size + 1) e) (twOpen s₀ ps) (fun _ t =>
      (∃ s', (groupOfEdge e).run s₀ = .ok (none, s') ∧ t = twOpen s₀ ps) ∨
      (∃ src s', (groupOfEdge e).run s₀ = .ok (some src, s') ∧ t = twOpen s₀ (ps ++ [(src, e.cond)]))) := by
  unfold noopEdge
  rw [wp_bind, wp_def]
  intro a u h1
  rw [groupOfEdge_scopeLike (twOpen_scopeLike s₀ ps hsb)] at h1
  cases hg : (groupOfEdge e).run s₀ with
  | error err => rw [hg] at h1; cases h1
  | ok p =>
    obtain ⟨a0, s'⟩ := p
    rw [hg] at h1
    simp only [Except.map] at h1
    injection h1 with h1
    injection h1 with h1 h1'
    subst h1; subst h1'
    cases a0 with
    | none =>
      simp only []
      rw [wp_pure]
      exact .inl ⟨s', rfl, rfl⟩
    | some src =>
      simp only []
      have hgg : (twOpen s₀ ps).groups[s₀.groups.size + 1]? = some (.noop ps none) := by
        unfold twOpen
        simp only []
        rw [Array.getElem?_push]
        simp
      rw [wp_bind, wp_getGrp]
      intro g hg2
      rw [hgg] at hg2
      injection hg2 with hg2
      subst hg2
      simp only []
      rw [wp_bind, wp_setGrp, wp_pure]
      refine .inr ⟨src, s', rfl, ?_⟩
      unfold twOpen
      simp only []
      congr 1
      have := set_push_last (s₀.groups.push (Grp.block [])) (Grp.noop ps none) (Grp.noop (ps ++ [(src, e.cond)]) none)
      simp only [Array.size_push] at this
      exact this

/-- all edges of the begin row -/
theorem noopEdges_twOpen (s₀ : St) (hsb : ∀ b ∈ s₀.stack, b < s₀.groups.size) :
    ∀ (es : List Edge) (ps : List (Nat × Cond)),
      wp (es.forM (noopEdge (s₀.groups.size + 1))) (twOpen s₀ ps) (fun _ t =>
        ∃ ps', psOf s₀ es = some ps' ∧ t = twOpen s₀ (ps ++ ps')) := by
  intro es
  induction es with
  | nil => intro ps; rw [wp_forM_nil]; exact ⟨[], rfl, by simp⟩
  | cons e es ih =>
    intro ps
    rw [wp_forM_cons]
    refine wp_mono (noopEdge_twOpen s₀ ps hsb e) ?_
    intro _ t ht
    rcases ht with ⟨s', hg, rfl⟩ | ⟨src, s', hg, rfl⟩
    · refine wp_mono (ih ps) ?_
      intro _ t' ⟨ps', hp, ht'⟩
      exact ⟨ps', by simp only [psOf, hg, hp], ht'⟩
    · refine wp_mono (ih (ps ++ [(src, e.cond)])) ?_
      intro _ t' ⟨ps', hp, ht'⟩
      refine ⟨(src, e.cond) :: ps', by simp only [psOf, hg, hp, Option.map_some], ?_⟩
      rw [ht']; simp

/-- the twin's `begin_block`: a block holding the `no_op` group of the begin row, whose parents are
the source groups of the insert row's edges -/
theorem openGroup_twin (s₀ : St) (hsb : ∀ b ∈ s₀.stack, b < s₀.groups.size) (edges : List Edge) :
    wp (openGroup edges false) s₀ (fun _ t => ∃ ps, psOf s₀ (dropTrivial edges) = some ps ∧ t = twO s₀ ps) := by
  unfold openGroup parseNoop
  simp only [Bool.false_eq_true, if_false]
  rw [wp_bind, wp_addGrp, wp_bind, wp_modify, wp_bind, wp_addGrp, wp_bind]
  simp only [Array.size_push]
  change wp _ (twOpen s₀ []) _
  refine wp_mono (noopEdges_twOpen s₀ hsb (dropTrivial edges) []) ?_
  intro _ t ⟨ps, hp, ht⟩
  simp only [List.nil_append] at ht
  subst ht
  rw [wp_def]
  intro _ t' hrun
  obtain ⟨b, rest, cs, hst, hg, ht'⟩ := appendGroup_run hrun
  refine ⟨ps, hp, ?_⟩
  have hb : b = s₀.groups.size := by
    have : (twOpen s₀ ps).stack = s₀.groups.size :: s₀.stack := rfl
    rw [this] at hst
    injection hst with h1 _
    exact h1.symm
  subst hb
  have hcs : cs = [] := by
    have : (twOpen s₀ ps).groups[s₀.groups.size]? = some (.block []) := by
      unfold twOpen
      simp only []
      rw [Array.getElem?_push]
      have : ¬ s₀.groups.size = (s₀.groups.push (Grp.block [])).size := by simp
      simp [this]
    rw [this] at hg
    injection hg with hg; injection hg with hg
    exact hg.symm
  subst hcs
  rw [ht']
  unfold twOpen twO
  simp only [List.isEmpty_nil, if_true, List.nil_append]
  congr 1
  apply Array.ext_getElem?
  intro i
  rw [Array.getElem?_setIfInBounds, Array.getElem?_push, Array.getElem?_push, Array.getElem?_push, Array.getElem?_push]
  simp only [Array.size_push]
  by_cases h1 : s₀.groups.size = i
  · subst h1
    have : ¬ s₀.groups.size = s₀.groups.size + 1 := by omega
    simp [this]
    omega
  · have h2 : ¬ i = s₀.groups.size := fun e => h1 e.symm
    simp only [h1, h2, if_false]

end Rpft.Compile
