/-
Positional switch nodes: case `i` selects category `i`, category `i` owns exit `i`, the default
category comes right after the cases' categories and the timeout category after it.  For such a
node the answer `c` of the environment leads where exit `c` leads — on both the compiled nodes
(whose identifiers are fresh) and the reference nodes (whose identifiers are positional).
-/
import Rpft.Lemmas.FlowAbs
set_option linter.unusedSimpArgs false
set_option linter.unusedVariables false
namespace Rpft.Flow
open Rpft

structure Positional (n : Node) (operand : Str) (cases : List Case) (cats : List Category) (d : Id)
    (w : Option (Option (Nat × Id))) (rn : Option Str) : Prop where
  router : n.router = some (.switch operand cases cats d w rn)
  catsNodup : (cats.map (·.uuid)).Nodup
  exitsNodup : (n.exits.map (·.uuid)).Nodup
  catExit : cats.map (·.exitUuid) = n.exits.map (·.uuid)
  caseCat : ∀ (i : Nat) (k : Case), cases[i]? = some k → (cats[i]?).map (·.uuid) = some k.catUuid
  dflt : (cats[cases.length]?).map (·.uuid) = some d
  tmo : ∀ secs t, w = some (some (secs, t)) → (cats[cases.length + 1]?).map (·.uuid) = some t
  len : cats.length = routerArity (.switch operand cases cats d w rn)

theorem find?_of_nodup {α β} [DecidableEq β] (l : List α) (f : α → β) (h : (l.map f).Nodup) (i : Nat) (x : α)
    (hx : l[i]? = some x) : l.find? (fun y => decide (f y = f x)) = some x := by
  induction l generalizing i with
  | nil => simp at hx
  | cons a l ih =>
    rw [List.map_cons, List.nodup_cons] at h
    cases i with
    | zero =>
      simp only [List.getElem?_cons_zero, Option.some.injEq] at hx
      subst hx; simp
    | succ i =>
      simp only [List.getElem?_cons_succ] at hx
      have hne : f a ≠ f x := by
        intro e
        exact h.1 (e ▸ List.mem_map_of_mem (List.mem_of_getElem? hx))
      simp only [List.find?_cons, hne, decide_false]
      exact ih h.2 i hx

/-- choosing the category at position `c` leads where exit `c` leads -/
theorem Positional.catDest {n : Node} {operand : Str} {cases : List Case} {cats : List Category} {d : Id}
    {w : Option (Option (Nat × Id))} {rn : Option Str} (p : Positional n operand cases cats d w rn)
    (c : Nat) (cat : Category) (hc : cats[c]? = some cat) :
    Flow.catDest n (.switch operand cases cats d w rn) cat.uuid = (n.exits[c]?).bind (·.dest) := by
  unfold Flow.catDest
  simp only [Router.cats]
  rw [find?_of_nodup cats (·.uuid) p.catsNodup c cat hc]
  simp only [Option.bind_some]
  -- exit `c` has the category's exit identifier
  have hlen : c < cats.length := (List.getElem?_eq_some_iff.mp hc).1
  have hel : c < n.exits.length := by
    have := congrArg List.length p.catExit
    simp only [List.length_map] at this
    omega
  have hex : n.exits[c]? = some n.exits[c] := by simp [hel]
  have hu : (n.exits[c]).uuid = cat.exitUuid := by
    have h1 : (cats.map (·.exitUuid))[c]? = some cat.exitUuid := by simp [hc]
    rw [p.catExit] at h1
    simp only [List.getElem?_map, hex, Option.map_some, Option.some.injEq] at h1
    exact h1
  unfold exitDest
  rw [← hu, find?_of_nodup n.exits (·.uuid) p.exitsNodup c _ hex, hex]

theorem Positional.choice {n : Node} {operand : Str} {cases : List Case} {cats : List Category} {d : Id}
    {w : Option (Option (Nat × Id))} {rn : Option Str} (p : Positional n operand cases cats d w rn)
    (c : Nat) (hc : c < routerArity (.switch operand cases cats d w rn)) :
    (routerChoice (.switch operand cases cats d w rn) c).bind (Flow.catDest n (.switch operand cases cats d w rn)) =
      (n.exits[c]?).bind (·.dest) := by
  have hlen := p.len
  have hcl : c < cats.length := by omega
  have hcat : cats[c]? = some cats[c] := by simp [hcl]
  have key : routerChoice (.switch operand cases cats d w rn) c = some (cats[c]).uuid := by
    unfold routerChoice
    by_cases h1 : c < cases.length
    · have hk : cases[c]? = some cases[c] := by simp [h1]
      have := p.caseCat c _ hk
      rw [hcat] at this
      simp only [Option.map_some, Option.some.injEq] at this
      simp [h1, this]
    · by_cases h2 : c = cases.length
      · have := p.dflt
        rw [← h2, hcat] at this
        simp only [Option.map_some, Option.some.injEq] at this
        subst h2
        simp [this]
      · simp only [h1, h2, if_false]
        simp only [routerArity] at hc
        rcases hw : w with _ | _ | ⟨secs, t⟩
        · rw [hw] at hc; simp at hc; omega
        · rw [hw] at hc; simp at hc; omega
        · rw [hw] at hc
          have h3 : c = cases.length + 1 := by simp at hc; omega
          have := p.tmo secs t hw
          rw [← h3, hcat] at this
          simp only [Option.map_some, Option.some.injEq] at this
          simp [this]
  rw [key]
  simp only [Option.bind_some]
  exact p.catDest c _ hcat

/-- the abstraction of a positional switch node: its exits, in order -/
theorem Positional.abs {n : Node} {operand : Str} {cases : List Case} {cats : List Category} {d : Id}
    {w : Option (Option (Nat × Id))} {rn : Option Str} (p : Positional n operand cases cats d w rn)
    (lvl : ObsLevel) (f : Flow) :
    absNode lvl f n =
      { acts := n.actions.map (·.obs), ask := some (routerObs lvl (.switch operand cases cats d w rn)),
        dests := n.exits.map (fun e => destIdx f e.dest) } := by
  have hel : n.exits.length = routerArity (.switch operand cases cats d w rn) := by
    have := congrArg List.length p.catExit
    simp only [List.length_map] at this
    rw [← p.len]; exact this.symm
  unfold absNode
  simp only [p.router, Option.map_some]
  congr 1
  apply List.ext_getElem?
  intro c
  simp only [List.getElem?_map, List.getElem?_range']
  by_cases hc : c < routerArity (.switch operand cases cats d w rn)
  · have h1 : (List.range (routerArity (.switch operand cases cats d w rn)))[c]? = some c := by simp [hc]
    rw [h1]
    simp only [Option.map_some]
    rw [p.choice c hc]
    have hce : c < n.exits.length := by omega
    simp [hce]
  · have h1 : (List.range (routerArity (.switch operand cases cats d w rn)))[c]? = none := by simp; omega
    have h2 : n.exits[c]? = none := by simp; omega
    rw [h1, h2]; rfl

/-! ### any router whose categories and exits correspond by position -/

structure CatsPos (n : Node) (r : Router) : Prop where
  router : n.router = some r
  catsNodup : (r.cats.map (·.uuid)).Nodup
  exitsNodup : (n.exits.map (·.uuid)).Nodup
  catExit : r.cats.map (·.exitUuid) = n.exits.map (·.uuid)

theorem CatsPos.catDest {n : Node} {r : Router} (p : CatsPos n r)
    (c : Nat) (cat : Category) (hc : r.cats[c]? = some cat) :
    Flow.catDest n r cat.uuid = (n.exits[c]?).bind (·.dest) := by
  unfold Flow.catDest
  rw [find?_of_nodup r.cats (·.uuid) p.catsNodup c cat hc]
  simp only [Option.bind_some]
  have hlen : c < r.cats.length := (List.getElem?_eq_some_iff.mp hc).1
  have hel : c < n.exits.length := by
    have := congrArg List.length p.catExit
    simp only [List.length_map] at this
    omega
  have hex : n.exits[c]? = some n.exits[c] := by simp [hel]
  have hu : (n.exits[c]).uuid = cat.exitUuid := by
    have h1 : (r.cats.map (·.exitUuid))[c]? = some cat.exitUuid := by simp [hc]
    rw [p.catExit] at h1
    simp only [List.getElem?_map, hex, Option.map_some, Option.some.injEq] at h1
    exact h1
  unfold exitDest
  rw [← hu, find?_of_nodup n.exits (·.uuid) p.exitsNodup c _ hex, hex]

/-- choice `c` selects the category at position `sel c`: the node's abstraction lists the exits at
those positions -/
theorem CatsPos.abs {n : Node} {r : Router} (p : CatsPos n r) (sel : Nat → Nat)
    (hsel : ∀ c, c < routerArity r → ∃ cat, r.cats[sel c]? = some cat ∧ routerChoice r c = some cat.uuid)
    (lvl : ObsLevel) (f : Flow) :
    absNode lvl f n =
      { acts := n.actions.map (·.obs), ask := some (routerObs lvl r),
        dests := (List.range (routerArity r)).map (fun c => destIdx f ((n.exits[sel c]?).bind (·.dest))) } := by
  unfold absNode
  simp only [p.router, Option.map_some]
  congr 1
  apply List.map_congr_left
  intro c hc
  obtain ⟨cat, h1, h2⟩ := hsel c (List.mem_range.mp hc)
  rw [h2]
  simp only [Option.bind_some]
  rw [p.catDest (sel c) cat h1]

/-- the actions of a node only show in the `acts` component of its abstraction -/
theorem absNode_acts (lvl : ObsLevel) (f : Flow) (n : Node) (a : List Action) :
    absNode lvl f { n with actions := a } = { absNode lvl f n with acts := a.map (·.obs) } := rfl

/-- a switch with two categories — one selected by the first case, the other (the default) by all
further cases and by "none of them": the abstraction lists the first exit once and the second for
every other choice -/
theorem absNode_two (lvl : ObsLevel) (f : Flow) (n : Node) (op : Str) (cases : List Case) (c0 c1 : Category)
    (e0 e1 : Exit) (rn : Option Str) (m : Nat)
    (hr : n.router = some (.switch op cases [c0, c1] c1.uuid none rn)) (hex : n.exits = [e0, e1])
    (hc0 : c0.exitUuid = e0.uuid) (hc1 : c1.exitUuid = e1.uuid) (hne : c0.uuid ≠ c1.uuid) (hne' : e0.uuid ≠ e1.uuid)
    (hcc : cases.map (·.catUuid) = c0.uuid :: List.replicate m c1.uuid) :
    absNode lvl f n =
      { acts := n.actions.map (·.obs), ask := some (routerObs lvl (.switch op cases [c0, c1] c1.uuid none rn)),
        dests := destIdx f e0.dest :: List.replicate (m + 1) (destIdx f e1.dest) } := by
  have hlen : cases.length = m + 1 := by
    have := congrArg List.length hcc
    simpa using this
  have p : CatsPos n (.switch op cases [c0, c1] c1.uuid none rn) := by
    refine ⟨hr, ?_, ?_, ?_⟩
    · simp [Router.cats, hne]
    · rw [hex]; simp [hne']
    · rw [hex]; simp [Router.cats, hc0, hc1]
  have har : routerArity (.switch op cases [c0, c1] c1.uuid none rn) = m + 2 := by
    simp [routerArity, hlen]
  have hsel : ∀ c, c < routerArity (.switch op cases [c0, c1] c1.uuid none rn) →
      ∃ cat, (Router.cats (.switch op cases [c0, c1] c1.uuid none rn))[min c 1]? = some cat ∧
        routerChoice (.switch op cases [c0, c1] c1.uuid none rn) c = some cat.uuid := by
    intro c hc
    rw [har] at hc
    simp only [Router.cats, routerChoice]
    by_cases h0 : c = 0
    · subst h0
      refine ⟨c0, rfl, ?_⟩
      have : (cases.map (·.catUuid))[0]? = some c0.uuid := by rw [hcc]; rfl
      simp only [List.getElem?_map] at this
      have hpos : 0 < cases.length := by omega
      simp only [hpos, if_true]
      exact this
    · have hmin : min c 1 = 1 := by omega
      rw [hmin]
      refine ⟨c1, rfl, ?_⟩
      by_cases h1 : c < cases.length
      · simp only [h1, if_true]
        have : (cases.map (·.catUuid))[c]? = some c1.uuid := by
          rw [hcc]
          obtain ⟨c', rfl⟩ : ∃ c', c = c' + 1 := ⟨c - 1, by omega⟩
          simp only [List.getElem?_cons_succ]
          rw [List.getElem?_replicate]
          simp; omega
        simpa using this
      · have : c = cases.length := by omega
        simp [this]
  rw [p.abs (fun c => min c 1) hsel, har, hex]
  congr 1
  rw [List.range_succ_eq_map]
  simp only [List.map_cons, List.map_map]
  congr 1
  apply List.ext_getElem?
  intro i
  simp only [List.getElem?_map, List.getElem?_range', List.getElem?_replicate]
  by_cases hi : i < m + 1
  · have h1 : (List.range (m + 1))[i]? = some i := by simp [hi]
    rw [h1]
    have : min (i + 1) 1 = 1 := by omega
    simp [hi, this]
  · have h1 : (List.range (m + 1))[i]? = none := by simp; omega
    rw [h1]; simp [hi]

/-- a random router whose categories and exits correspond by position: the abstraction lists the
exits in order -/
theorem absNode_random (lvl : ObsLevel) (f : Flow) (n : Node) (cats : List Category) (rn : Option Str)
    (hr : n.router = some (.random cats rn)) (hcn : (cats.map (·.uuid)).Nodup) (hen : (n.exits.map (·.uuid)).Nodup)
    (hce : cats.map (·.exitUuid) = n.exits.map (·.uuid)) :
    absNode lvl f n =
      { acts := n.actions.map (·.obs), ask := some (routerObs lvl (.random cats rn)),
        dests := n.exits.map (fun e => destIdx f e.dest) } := by
  have p : CatsPos n (.random cats rn) := ⟨hr, hcn, hen, hce⟩
  have hlen : cats.length = n.exits.length := by
    have := congrArg List.length hce; simpa using this
  have hsel : ∀ c, c < routerArity (.random cats rn) →
      ∃ cat, (Router.cats (.random cats rn))[c]? = some cat ∧ routerChoice (.random cats rn) c = some cat.uuid := by
    intro c hc
    simp only [routerArity] at hc
    refine ⟨cats[c], by simp [Router.cats, hc], by simp [routerChoice, hc]⟩
  rw [p.abs (fun c => c) hsel]
  congr 1
  simp only [routerArity]
  apply List.ext_getElem?
  intro i
  simp only [List.getElem?_map, List.getElem?_range']
  by_cases hi : i < cats.length
  · have h1 : (List.range cats.length)[i]? = some i := by simp [hi]
    have h2 : i < n.exits.length := by omega
    rw [h1]; simp [h2]
  · have h1 : (List.range cats.length)[i]? = none := by simp; omega
    have h2 : n.exits[i]? = none := by simp; omega
    rw [h1, h2]; rfl

end Rpft.Flow
