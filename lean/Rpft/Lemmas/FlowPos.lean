/-
Positional switch nodes: case `i` selects category `i`, category `i` owns exit `i`, the default
category comes right after the cases' categories and the timeout category after it.  For such a
node the answer `c` of the environment leads where exit `c` leads — on both the compiled nodes
(whose identifiers are fresh) and the reference nodes (whose identifiers are positional).
-/
import Rpft.Lemmas.FlowAbs
set_option linter.unusedSimpArgs false
set_option linter.unusedVariables false
namespace Rpft.Flow
open Rpft

structure Positional (n : Node) (operand : Str) (cases : List Case) (cats : List Category) (d : Id)
    (w : Option (Option (Nat × Id))) (rn : Option Str) : Prop where
  router : n.router = some (.switch operand cases cats d w rn)
  catsNodup : (cats.map (·.uuid)).Nodup
  exitsNodup : (n.exits.map (·.uuid)).Nodup
  catExit : cats.map (·.exitUuid) = n.exits.map (·.uuid)
  caseCat : ∀ (i : Nat) (k : Case), cases[i]? = some k → (cats[i]?).map (·.uuid) = some k.catUuid
  dflt : (cats[cases.length]?).map (·.uuid) = some d
  tmo : ∀ secs t, w = some (some (secs, t)) → (cats[cases.length + 1]?).map (·.uuid) = some t
  len : cats.length = routerArity (.switch operand cases cats d w rn)

theorem find?_of_nodup {α β} [DecidableEq β] (l : List α) (f : α → β) (h : (l.map f).Nodup) (i : Nat) (x : α)
    (hx : l[i]? = some x) : l.find? (fun y => decide (f y = f x)) = some x := by
  induction l generalizing i with
  | nil => simp at hx
  | cons a l ih =>
    rw [List.map_cons, List.nodup_cons] at h
    cases i with
    | zero =>
      simp only [List.getElem?_cons_zero, Option.some.injEq] at hx
      subst hx; simp
    | succ i =>
      simp only [List.getElem?_cons_succ] at hx
      have hne : f a ≠ f x := by
        intro e
        exact h.1 (e ▸ List.mem_map_of_mem (List.mem_of_getElem? hx))
      simp only [List.find?_cons, hne, decide_false]
      exact ih h.2 i hx

/-- choosing the category at position `c` leads where exit `c` leads -/
theorem Positional.catDest {n : Node} {operand : Str} {cases : List Case} {cats : List Category} {d : Id}
    {w : Option (Option (Nat × Id))} {rn : Option Str} (p : Positional n operand cases cats d w rn)
    (c : Nat) (cat : Category) (hc : cats[c]? = some cat) :
    Flow.catDest n (.switch operand cases cats d w rn) cat.uuid = (n.exits[c]?).bind (·.dest) := by
  unfold Flow.catDest
  simp only [Router.cats]
  rw [find?_of_nodup cats (·.uuid) p.catsNodup c cat hc]
  simp only [Option.bind_some]
  -- exit `c` has the category's exit identifier
  have hlen : c < cats.length := (List.getElem?_eq_some_iff.mp hc).1
  have hel : c < n.exits.length := by
    have := congrArg List.length p.catExit
    simp only [List.length_map] at this
    omega
  have hex : n.exits[c]? = some n.exits[c] := by simp [hel]
  have hu : (n.exits[c]).uuid = cat.exitUuid := by
    have h1 : (cats.map (·.exitUuid))[c]? = some cat.exitUuid := by simp [hc]
    rw [p.catExit] at h1
    simp only [List.getElem?_map, hex, Option.map_some, Option.some.injEq] at h1
    exact h1
  unfold exitDest
  rw [← hu, find?_of_nodup n.exits (·.uuid) p.exitsNodup c _ hex, hex]

theorem Positional.choice {n : Node} {operand : Str} {cases : List Case} {cats : List Category} {d : Id}
    {w : Option (Option (Nat × Id))} {rn : Option Str} (p : Positional n operand cases cats d w rn)
    (c : Nat) (hc : c < routerArity (.switch operand cases cats d w rn)) :
    (routerChoice (.switch operand cases cats d w rn) c).bind (Flow.catDest n (.switch operand cases cats d w rn)) =
      (n.exits[c]?).bind (·.dest) := by
  have hlen := p.len
  have hcl : c < cats.length := by omega
  have hcat : cats[c]? = some cats[c] := by simp [hcl]
  have key : routerChoice (.switch operand cases cats d w rn) c = some (cats[c]).uuid := by
    unfold routerChoice
    by_cases h1 : c < cases.length
    · have hk : cases[c]? = some cases[c] := by simp [h1]
      have := p.caseCat c _ hk
      rw [hcat] at this
      simp only [Option.map_some, Option.some.injEq] at this
      simp [h1, this]
    · by_cases h2 : c = cases.length
      · have := p.dflt
        rw [← h2, hcat] at this
        simp only [Option.map_some, Option.some.injEq] at this
        subst h2
        simp [this]
      · simp only [h1, h2, if_false]
        simp only [routerArity] at hc
        rcases hw : w with _ | _ | ⟨secs, t⟩
        · rw [hw] at hc; simp at hc; omega
        · rw [hw] at hc; simp at hc; omega
        · rw [hw] at hc
          have h3 : c = cases.length + 1 := by simp at hc; omega
          have := p.tmo secs t hw
          rw [← h3, hcat] at this
          simp only [Option.map_some, Option.some.injEq] at this
          simp [this]
  rw [key]
  simp only [Option.bind_some]
  exact p.catDest c _ hcat

/-- the abstraction of a positional switch node: its exits, in order -/
theorem Positional.abs {n : Node} {operand : Str} {cases : List Case} {cats : List Category} {d : Id}
    {w : Option (Option (Nat × Id))} {rn : Option Str} (p : Positional n operand cases cats d w rn)
    (lvl : ObsLevel) (f : Flow) :
    absNode lvl f n =
      { acts := n.actions.map (·.obs), ask := some (routerObs lvl (.switch operand cases cats d w rn)),
        dests := n.exits.map (fun e => destIdx f e.dest) } := by
  have hel : n.exits.length = routerArity (.switch operand cases cats d w rn) := by
    have := congrArg List.length p.catExit
    simp only [List.length_map] at this
    rw [← p.len]; exact this.symm
  unfold absNode
  simp only [p.router, Option.map_some]
  congr 1
  apply List.ext_getElem?
  intro c
  simp only [List.getElem?_map, List.getElem?_range']
  by_cases hc : c < routerArity (.switch operand cases cats d w rn)
  · have h1 : (List.range (routerArity (.switch operand cases cats d w rn)))[c]? = some c := by simp [hc]
    rw [h1]
    simp only [Option.map_some]
    rw [p.choice c hc]
    have hce : c < n.exits.length := by omega
    simp [hce]
  · have h1 : (List.range (routerArity (.switch operand cases cats d w rn)))[c]? = none := by simp; omega
    have h2 : n.exits[c]? = none := by simp; omega
    rw [h1, h2]; rfl

end Rpft.Flow
