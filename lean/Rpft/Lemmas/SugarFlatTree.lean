import Rpft.Lemmas.SugarFlatRun
set_option linter.unusedSimpArgs false
set_option linter.unusedVariables false
namespace Rpft.SugarFlat
open Rpft Rpft.Sugar
open Rpft.Cli (RowType BlockType Fault isEndOfBlock blockEndMap)

variable {Raw Inst Ctx Val Hdr Err S : Type}

/-! ## ill-nested remainders -/

/-- an ill-nested remainder read with `omit_content=True` -/
theorem skip_P (I : FIface Raw Inst Ctx Val Hdr Err S) :
    ∀ (t : PTree Raw) (bt : BlockType), WkP I.kind bt t → bt ≠ .root → ∀ (F d : Nat)
      (m : List (Nat × List Raw)) (c : Ctx) (ev : List (Ev Inst Hdr)), (flattenP t).length < F →
      parseBlock I F d bt true ⟨flattenP t, m, c, ev⟩ = .error (skipP I t) := by
  intro t
  induction t with
  | done its => intro bt h hbt; exact absurd h.1 hbt
  | fault its f rest =>
    intro bt h hbt F d m c ev hF
    obtain ⟨hits, hf⟩ := h
    have hl := length_le_flattenFL its
    simp only [flattenP, List.length_append] at hF ⊢
    rw [omit_items I its hits F d bt rest m c ev (by omega)]
    simp only [skipP, firstFail_append]
    cases firstFail I (flattenFL its) with
    | some x => simp
    | none =>
      obtain ⟨n, hn⟩ : ∃ n, F - its.length = n + 1 := ⟨F - its.length - 1, by omega⟩
      cases rest with
      | nil =>
        simp only [] at hf
        simp [hn, parseBlock_eof, hf, firstFail]
      | cons r rs =>
        simp only [] at hf
        simp only [hn, parseBlock_omit, List.take_succ_cons, List.take_zero, firstFail]
        cases I.scanFail r with
        | some x => simp
        | none => simp [hf]
  | open_ its isFor b inner ih =>
    intro bt h hbt F d m c ev hF
    obtain ⟨hits, hb, hin⟩ := h
    have hl := length_le_flattenFL its
    simp only [flattenP, List.length_append, List.length_cons] at hF ⊢
    rw [omit_items I its hits F d bt _ m c ev (by omega)]
    simp only [skipP, firstFail_append, firstFail]
    cases firstFail I (flattenFL its) with
    | some x => simp
    | none =>
      obtain ⟨n, hn⟩ : ∃ n, F - its.length = n + 1 := ⟨F - its.length - 1, by omega⟩
      simp only [hn, parseBlock_omit]
      cases I.scanFail b with
      | some x => simp
      | none =>
        cases isFor with
        | true =>
          simp only [if_true] at hb hin
          simp only [hb, isEnd_beginFor, skipTurn]
          rw [ih .for_ hin (by simp) n (d + 1) m c ev (by omega)]
        | false =>
          simp only [Bool.false_eq_true, if_false] at hb hin
          simp only [hb, isEnd_beginBlock, skipTurn]
          rw [ih .block hin (by simp) n (d + 1) m c ev (by omega)]

/-- inside a block the reading of a remainder is always an error (the block is never closed) -/
theorem evP_error (I : FIface Raw Inst Ctx Val Hdr Err S) :
    ∀ (t : PTree Raw) (bt : BlockType), WkP I.kind bt t → bt ≠ .root → ∀ (c : Ctx),
      ∃ x, evP I c t = .error x := by
  intro t
  induction t with
  | done its => intro bt h hbt; exact absurd h.1 hbt
  | fault its f rest =>
    intro bt h hbt c
    simp only [evP]
    cases evFs I c its with
    | error x => exact ⟨_, rfl⟩
    | ok es =>
      cases rest with
      | nil => exact ⟨_, rfl⟩
      | cons r rs =>
        simp only []
        cases I.inst c r <;> exact ⟨_, rfl⟩
  | open_ its isFor b inner ih =>
    intro bt h hbt c
    obtain ⟨hits, hb, hin⟩ := h
    simp only [evP]
    cases evFs I c its with
    | error x => exact ⟨_, rfl⟩
    | ok es =>
      simp only []
      cases I.inst c b with
      | error x => exact ⟨_, rfl⟩
      | ok i =>
        simp only []
        cases I.includeIf i with
        | false => exact ⟨_, rfl⟩
        | true =>
          simp only [if_true]
          cases isFor with
          | false =>
            simp only [Bool.false_eq_true, if_false] at hin ⊢
            exact ih .block hin (by simp) c
          | true =>
            simp only [if_true] at hin ⊢
            cases I.loopVars i with
            | none => exact ⟨_, rfl⟩
            | some vi =>
              obtain ⟨v, idx⟩ := vi
              simp only []
              cases I.iterList i with
              | nil => exact ⟨_, rfl⟩
              | cons x xs => exact ih .for_ hin (by simp) _

/-- **the flat machine on the rows of a scan tree = the reading of the tree** (content evaluated) -/
theorem run_P (I : FIface Raw Inst Ctx Val Hdr Err S) (L : FlatLaws I) :
    ∀ (t : PTree Raw) (bt : BlockType), WkP I.kind bt t → ∀ (F d : Nat)
      (m : List (Nat × List Raw)) (c : Ctx) (ev : List (Ev Inst Hdr)), (flattenP t).length < F →
      MarksBelow d m →
      parseBlock I F d bt false ⟨flattenP t, m, c, ev⟩ =
        (match evP I c t with
         | .error x => .error x
         | .ok es => .ok ⟨[], m, c, ev ++ es⟩) := by
  intro t
  induction t with
  | done its =>
    intro bt h F d m c ev hF hm
    obtain ⟨hbt, hits⟩ := h
    subst hbt
    have hl := length_le_flattenFL its
    simp only [flattenP] at hF ⊢
    have := run_items I L its hits F d .root [] m c ev hF hm
    simp only [List.append_nil] at this
    rw [this]
    simp only [evP]
    cases evFs I c its with
    | error x => simp
    | ok es =>
      obtain ⟨n, hn⟩ : ∃ n, F - its.length = n + 1 := ⟨F - its.length - 1, by omega⟩
      simp [hn, parseBlock_eof]
  | fault its f rest =>
    intro bt h F d m c ev hF hm
    obtain ⟨hits, hf⟩ := h
    have hl := length_le_flattenFL its
    simp only [flattenP, List.length_append] at hF ⊢
    rw [run_items I L its hits F d bt rest m c ev (by omega) hm]
    simp only [evP]
    cases evFs I c its with
    | error x => simp
    | ok es =>
      obtain ⟨n, hn⟩ : ∃ n, F - its.length = n + 1 := ⟨F - its.length - 1, by omega⟩
      cases rest with
      | nil =>
        simp only [] at hf
        simp [hn, parseBlock_eof, hf]
      | cons r rs =>
        simp only [] at hf
        simp only [hn, parseBlock_run]
        cases hi : I.inst c r with
        | error x => simp
        | ok i => simp [L.kind_inst c r i hi, hf]
  | open_ its isFor b inner ih =>
    intro bt h F d m c ev hF hm
    obtain ⟨hits, hb, hin⟩ := h
    have hl := length_le_flattenFL its
    simp only [flattenP, List.length_append, List.length_cons] at hF ⊢
    rw [run_items I L its hits F d bt _ m c ev (by omega) hm]
    simp only [evP]
    cases evFs I c its with
    | error x => simp
    | ok es =>
      obtain ⟨n, hn⟩ : ∃ n, F - its.length = n + 1 := ⟨F - its.length - 1, by omega⟩
      simp only [hn, parseBlock_run]
      cases hi : I.inst c b with
      | error x => simp
      | ok i =>
        have hk := L.kind_inst c b i hi
        cases isFor with
        | false =>
          simp only [Bool.false_eq_true, if_false] at hb hin ⊢
          simp only [hk, hb, isEnd_beginBlock, skipTurn]
          cases hinc : I.includeIf i with
          | false =>
            simp only [Bool.false_eq_true, if_false]
            rw [skip_P I inner .block hin (by simp) n (d + 1) m c _ (by omega)]
          | true =>
            simp only [if_true]
            rw [ih .block hin n (d + 1) m c _ (by omega) (MarksBelow_succ d m hm)]
            obtain ⟨x, hx⟩ := evP_error I inner .block hin (by simp) c
            simp [hx]
        | true =>
          simp only [if_true] at hb hin ⊢
          simp only [hk, hb, isEnd_beginFor, skipTurn]
          cases hinc : I.includeIf i with
          | false =>
            simp only [Bool.false_eq_true, if_false]
            rw [skip_P I inner .for_ hin (by simp) n (d + 1) m c _ (by omega)]
          | true =>
            simp only [if_true, beginFor]
            cases hv : I.loopVars i with
            | none => simp
            | some vi =>
              obtain ⟨v, idx⟩ := vi
              simp only []
              cases hl : I.iterList i with
              | nil =>
                simp only [List.zipIdx_nil, iterate, List.isEmpty_nil, if_true]
                rw [skip_P I inner .for_ hin (by simp) n (d + 1) _ c _ (by omega)]
              | cons x xs =>
                simp only [List.zipIdx_cons, iterate, getMark_setMark]
                rw [bindVars_ctx I L, ih .for_ hin n (d + 1) _ _ _ (by omega)
                  (MarksBelow_setMark d _ m hm)]
                obtain ⟨y, hy⟩ := evP_error I inner .for_ hin (by simp) (iterCtx I.toIface c v idx x 0)
                simp [hy]

/-- **flat machine = tree reading, every sheet.**  The result of `_parse_block` on a flat sheet
is what `evP` reads off the scan tree of the sheet: the same events in the same order, the same
first error; and the context left behind is the initial one. -/
theorem runFlat_eq_evP (I : FIface Raw Inst Ctx Val Hdr Err S) (L : FlatLaws I) (ctx : Ctx) (rows : List Raw) :
    runFlat I ctx rows =
      (match evP I ctx (parseAll I.kind rows) with
       | .error x => .error x
       | .ok es => .ok (es, ctx)) := by
  have h := run_P I L (parseAll I.kind rows) .root (WkP_parseAll I.kind rows) (rows.length + 1) 0 [] ctx []
    (by rw [flattenP_parseAll]; omega) (fun q hq => by simp at hq)
  rw [flattenP_parseAll] at h
  unfold runFlat
  rw [h]
  cases evP I ctx (parseAll I.kind rows) <;> simp

/-! ## the tree reading and `Sugar.evItems` -/

theorem firstFail_quiet (I : FIface Raw Inst Ctx Val Hdr Err S) (rows : List Raw) (h : Quiet I rows) :
    firstFail I rows = none := by
  induction rows with
  | nil => rfl
  | cons r rs ih =>
    simp only [firstFail, (h r (by simp)).1]
    exact ih (fun q hq => h q (by simp [hq]))

theorem Quiet_append (I : FIface Raw Inst Ctx Val Hdr Err S) (a b : List Raw) :
    Quiet I (a ++ b) ↔ Quiet I a ∧ Quiet I b := by
  unfold Quiet
  constructor
  · intro h
    exact ⟨fun r hr => h r (by simp [hr]), fun r hr => h r (by simp [hr])⟩
  · intro ⟨h1, h2⟩ r hr
    rcases List.mem_append.1 hr with hr | hr
    · exact h1 r hr
    · exact h2 r hr

theorem Quiet_cons (I : FIface Raw Inst Ctx Val Hdr Err S) (r : Raw) (b : List Raw) :
    Quiet I (r :: b) ↔ Quiet I [r] ∧ Quiet I b := by
  rw [← Quiet_append]; rfl

theorem thenEnd_quiet (I : FIface Raw Inst Ctx Val Hdr Err S) (e : Raw) (h : Quiet I [e])
    (he : I.kind e = .endFor ∨ I.kind e = .endBlock) (c : Ctx) (r : Except Err (List (Ev Inst Hdr))) :
    thenEnd I c e r = r := by
  obtain ⟨i, hi⟩ := (h e (by simp)).2 he c
  cases r <;> simp [thenEnd, hi]

mutual
theorem evF_eq_evItem (I : FIface Raw Inst Ctx Val Hdr Err S) :
    ∀ (it : FItem Raw), WkF I.kind it → Quiet I (flattenF it) → ∀ (c : Ctx),
      evF I c it = evItem I.toIface c it.erase
  | .row r, h, q, c => by
    simp only [evF, FItem.erase, evItem]
    cases I.inst c r <;> rfl
  | .block b body e, h, q, c => by
    obtain ⟨hb, hbody, he⟩ := h
    simp only [flattenF] at q
    rw [Quiet_cons, Quiet_append] at q
    obtain ⟨qb, qbody, qe⟩ := q
    have ih := evFs_eq_evItems I body hbody qbody c
    have hskip : firstFail I (flattenFL body ++ [e]) = none :=
      firstFail_quiet I _ ((Quiet_append I _ _).2 ⟨qbody, qe⟩)
    simp only [evF, FItem.erase, evItem, skipRows, hskip, thenEnd_quiet I e qe (Or.inr he), ih]
    cases I.inst c b with
    | error x => rfl
    | ok i =>
      simp only []
      cases I.includeIf i with
      | false => rfl
      | true =>
        simp only [if_true]
        cases evItems I.toIface c (eraseL body) <;> rfl
  | .forLoop b body e, h, q, c => by
    obtain ⟨hb, hbody, he⟩ := h
    simp only [flattenF] at q
    rw [Quiet_cons, Quiet_append] at q
    obtain ⟨qb, qbody, qe⟩ := q
    have hskip : firstFail I (flattenFL body ++ [e]) = none :=
      firstFail_quiet I _ ((Quiet_append I _ _).2 ⟨qbody, qe⟩)
    have hpt : ∀ c', thenEnd I c' e (evFs I c' body) = evItems I.toIface c' (eraseL body) := by
      intro c'
      rw [thenEnd_quiet I e qe (Or.inl he), evFs_eq_evItems I body hbody qbody c']
    simp only [evF, FItem.erase, evItem, skipRows, hskip, evLoop, hpt]
    cases I.inst c b with
    | error x => rfl
    | ok i =>
      simp only []
      cases I.includeIf i with
      | false => rfl
      | true =>
        simp only [if_true]
        cases I.loopVars i with
        | none => rfl
        | some vi =>
          obtain ⟨v, idx⟩ := vi
          simp only []
          cases hl : I.iterList i with
          | nil => simp [sequence]
          | cons x xs =>
            simp only [List.isEmpty_cons, Bool.false_eq_true, if_false]
            cases sequence (List.map (fun x_1 : Val × Nat =>
                evItems I.toIface (iterCtx I.toIface c v idx x_1.1 x_1.2) (eraseL body)) (x :: xs).zipIdx) <;> rfl
theorem evFs_eq_evItems (I : FIface Raw Inst Ctx Val Hdr Err S) :
    ∀ (its : List (FItem Raw)), WkFL I.kind its → Quiet I (flattenFL its) → ∀ (c : Ctx),
      evFs I c its = evItems I.toIface c (eraseL its)
  | [], _, _, c => by simp [evFs, eraseL, evItems]
  | it :: its, h, q, c => by
    obtain ⟨h1, h2⟩ := h
    simp only [flattenFL] at q
    rw [Quiet_append] at q
    rw [evFs, eraseL, evItems, evF_eq_evItem I it h1 q.1 c, evFs_eq_evItems I its h2 q.2 c]
    cases evItem I.toIface c it.erase with
    | error x => rfl
    | ok a => cases evItems I.toIface c (eraseL its) <;> rfl
end

/-! ## shape of the outcome on an ill-nested sheet -/

theorem skipP_shape (I : FIface Raw Inst Ctx Val Hdr Err S) :
    ∀ (t : PTree Raw) (bt : BlockType), WkP I.kind bt t → bt ≠ .root →
      (∃ f, t.fault? = some f ∧ skipP I t = .fault f) ∨ ∃ e, skipP I t = .err e := by
  intro t
  induction t with
  | done its => intro bt h hbt; exact absurd h.1 hbt
  | fault its f rest =>
    intro bt h hbt
    simp only [skipP, PTree.fault?]
    cases firstFail I (flattenFL its ++ List.take 1 rest) with
    | some x => exact Or.inr ⟨x, rfl⟩
    | none => exact Or.inl ⟨f, rfl, rfl⟩
  | open_ its isFor b inner ih =>
    intro bt h hbt
    obtain ⟨hits, hb, hin⟩ := h
    simp only [skipP, PTree.fault?]
    cases firstFail I (flattenFL its ++ [b]) with
    | some x => exact Or.inr ⟨x, rfl⟩
    | none => exact ih _ hin (by cases isFor <;> simp)

/-- on a sheet with a structural fault the parser stops with that fault, or earlier with an
error of a row (it never succeeds) -/
theorem evP_shape (I : FIface Raw Inst Ctx Val Hdr Err S) :
    ∀ (t : PTree Raw) (bt : BlockType), WkP I.kind bt t → ∀ (f : Fault), t.fault? = some f → ∀ (c : Ctx),
      evP I c t = .error (.fault f) ∨ ∃ e, evP I c t = .error (.err e) := by
  intro t
  induction t with
  | done its => intro bt h f hf; simp [PTree.fault?] at hf
  | fault its f' rest =>
    intro bt h f hf c
    simp only [PTree.fault?, Option.some.injEq] at hf
    subst hf
    simp only [evP]
    cases evFs I c its with
    | error x => exact Or.inr ⟨x, rfl⟩
    | ok es =>
      cases rest with
      | nil => exact Or.inl rfl
      | cons r rs =>
        simp only []
        cases I.inst c r with
        | error x => exact Or.inr ⟨x, rfl⟩
        | ok i => exact Or.inl rfl
  | open_ its isFor b inner ih =>
    intro bt h f hf c
    obtain ⟨hits, hb, hin⟩ := h
    simp only [PTree.fault?] at hf
    have hne : (if isFor = true then BlockType.for_ else BlockType.block) ≠ .root := by cases isFor <;> simp
    have hskip : (Except.error (skipP I inner) : Res Err (List (Ev Inst Hdr))) = .error (.fault f) ∨
        ∃ e, (Except.error (skipP I inner) : Res Err (List (Ev Inst Hdr))) = .error (.err e) := by
      rcases skipP_shape I inner _ hin hne with ⟨f', h1, h2⟩ | ⟨e, h2⟩
      · rw [hf] at h1; injection h1 with h1; subst h1; exact Or.inl (by rw [h2])
      · exact Or.inr ⟨e, by rw [h2]⟩
    simp only [evP]
    cases evFs I c its with
    | error x => exact Or.inr ⟨x, rfl⟩
    | ok es =>
      simp only []
      cases I.inst c b with
      | error x => exact Or.inr ⟨x, rfl⟩
      | ok i =>
        simp only []
        cases I.includeIf i with
        | false => exact hskip
        | true =>
          simp only [if_true]
          cases isFor with
          | false =>
            simp only [Bool.false_eq_true, if_false] at hin ⊢
            exact ih _ hin f hf c
          | true =>
            simp only [if_true] at hin ⊢
            cases I.loopVars i with
            | none => exact Or.inr ⟨_, rfl⟩
            | some vi =>
              obtain ⟨v, idx⟩ := vi
              simp only []
              cases I.iterList i with
              | nil => exact hskip
              | cons x xs => exact ih _ hin f hf _

theorem fault?_isSome (kind : Raw → RowKind) :
    ∀ (t : PTree Raw) (bt : BlockType), WkP kind bt t → bt ≠ .root → t.fault?.isSome = true := by
  intro t
  induction t with
  | done its => intro bt h hbt; exact absurd h.1 hbt
  | fault its f rest => intro bt h hbt; rfl
  | open_ its isFor b inner ih =>
    intro bt h hbt
    exact ih _ h.2.2 (by cases isFor <;> simp)


theorem evP_stop (I : FIface Raw Inst Ctx Val Hdr Err S) :
    ∀ (t : PTree Raw) (c : Ctx) (x : Stop Err), evP I c t = .error x →
      (∃ e, x = .err e) ∨ (∃ f, x = .fault f) := by
  have hskip : ∀ (t : PTree Raw), (∃ e, skipP I t = .err e) ∨ (∃ f, skipP I t = .fault f) := by
    intro t
    induction t with
    | done its => exact Or.inr ⟨_, rfl⟩
    | fault its f rest =>
      simp only [skipP]
      cases firstFail I (flattenFL its ++ List.take 1 rest) with
      | some x => exact Or.inl ⟨_, rfl⟩
      | none => exact Or.inr ⟨_, rfl⟩
    | open_ its isFor b inner ih =>
      simp only [skipP]
      cases firstFail I (flattenFL its ++ [b]) with
      | some x => exact Or.inl ⟨_, rfl⟩
      | none => exact ih
  intro t
  induction t with
  | done its =>
    intro c x h
    simp only [evP] at h
    cases hE : evFs I c its with
    | error e => simp [hE] at h; exact Or.inl ⟨e, h.symm⟩
    | ok es => simp [hE] at h
  | fault its f rest =>
    intro c x h
    simp only [evP] at h
    cases hE : evFs I c its with
    | error e => simp [hE] at h; exact Or.inl ⟨e, h.symm⟩
    | ok es =>
      simp only [hE] at h
      cases rest with
      | nil => simp at h; exact Or.inr ⟨f, h.symm⟩
      | cons r rs =>
        simp only [] at h
        cases hi : I.inst c r with
        | error e => simp [hi] at h; exact Or.inl ⟨e, h.symm⟩
        | ok i => simp [hi] at h; exact Or.inr ⟨f, h.symm⟩
  | open_ its isFor b inner ih =>
    intro c x h
    simp only [evP] at h
    cases hE : evFs I c its with
    | error e => simp [hE] at h; exact Or.inl ⟨e, h.symm⟩
    | ok es =>
      simp only [hE] at h
      cases hi : I.inst c b with
      | error e => simp [hi] at h; exact Or.inl ⟨e, h.symm⟩
      | ok i =>
        simp only [hi] at h
        have hsk : ∀ y, (Except.error (skipP I inner) : Res Err (List (Ev Inst Hdr))) = .error y →
            (∃ e, y = .err e) ∨ (∃ f, y = .fault f) := by
          intro y hy
          injection hy with hy
          subst hy
          exact hskip inner
        cases hinc : I.includeIf i with
        | false => simp [hinc] at h; exact hsk x (by rw [h])
        | true =>
          simp only [hinc, if_true] at h
          cases isFor with
          | false => simp at h; exact ih c x h
          | true =>
            simp only [if_true] at h
            cases hv : I.loopVars i with
            | none => simp [hv] at h; exact Or.inl ⟨_, h.symm⟩
            | some vi =>
              obtain ⟨v, idx⟩ := vi
              simp only [hv] at h
              cases hl : I.iterList i with
              | nil => simp [hl] at h; exact hsk x (by rw [h])
              | cons y ys => simp only [hl] at h; exact ih _ x h


end Rpft.SugarFlat
