/-
Renaming of the identifiers stored in the values of the compiler model (categories, cases,
routers, nodes), equivariance of the pure router / node functions, and: rendering commutes with
renaming (`renderNode (rnNode ρ n) = (renderNode n).rename ρ`).
-/
import Rpft.Lemmas.CompileWp
import Rpft.Lemmas.CompileExits
import Rpft.Lemmas.FlowRename
import Rpft.CompileRender
set_option linter.unusedSimpArgs false
set_option linter.unusedVariables false
namespace Rpft.Compile
open Rpft Function

variable (ρ : Uid → Uid)

def rnDest : Dest → Dest
  | .none => .none
  | .hard => .hard
  | .node u => .node (ρ u)

def rnCat (c : Cat) : Cat := { uid := ρ c.uid, name := c.name, exitUid := ρ c.exitUid, dest := rnDest ρ c.dest }

def rnCase (k : Case) : Case := { uid := ρ k.uid, type := k.type, args := k.args, catUid := ρ k.catUid }

def rnSw (r : SwitchR) : SwitchR :=
  { operand := r.operand, cases := r.cases.map (rnCase ρ), cats := r.cats.map (rnCat ρ), dflt := rnCat ρ r.dflt,
    noResp := r.noResp.map (rnCat ρ), wait := r.wait, resultName := r.resultName }

def rnRnd (r : RandomR) : RandomR := { cats := r.cats.map (rnCat ρ), resultName := r.resultName }

def rnRouter : RouterM → RouterM
  | .sw r => .sw (rnSw ρ r)
  | .rnd r => .rnd (rnRnd ρ r)

def rnAct (a : Uid × Str) : Uid × Str := (ρ a.1, a.2)

def rnNode (n : NodeM) : NodeM :=
  { uid := ρ n.uid, kind := n.kind, actions := n.actions.map (rnAct ρ), router := n.router.map (rnRouter ρ),
    dexitUid := ρ n.dexitUid, dexitDest := rnDest ρ n.dexitDest }

variable {ρ}

@[simp] theorem rnDest_none : rnDest ρ .none = .none := rfl
@[simp] theorem rnDest_hard : rnDest ρ .hard = .hard := rfl
@[simp] theorem rnDest_node (u : Uid) : rnDest ρ (.node u) = .node (ρ u) := rfl

theorem rnDest_eq_none {d : Dest} : rnDest ρ d = .none ↔ d = .none := by
  cases d <;> simp [rnDest]

theorem rnDest_beq_none (d : Dest) : (rnDest ρ d == Dest.none) = (d == Dest.none) := by
  cases d <;> rfl

@[simp] theorem rnCat_uid (c : Cat) : (rnCat ρ c).uid = ρ c.uid := rfl
@[simp] theorem rnCat_name (c : Cat) : (rnCat ρ c).name = c.name := rfl
@[simp] theorem rnCat_exitUid (c : Cat) : (rnCat ρ c).exitUid = ρ c.exitUid := rfl
@[simp] theorem rnCat_dest (c : Cat) : (rnCat ρ c).dest = rnDest ρ c.dest := rfl
@[simp] theorem rnCase_uid (k : Case) : (rnCase ρ k).uid = ρ k.uid := rfl
@[simp] theorem rnCase_type (k : Case) : (rnCase ρ k).type = k.type := rfl
@[simp] theorem rnCase_args (k : Case) : (rnCase ρ k).args = k.args := rfl
@[simp] theorem rnCase_catUid (k : Case) : (rnCase ρ k).catUid = ρ k.catUid := rfl
@[simp] theorem rnSw_operand (r : SwitchR) : (rnSw ρ r).operand = r.operand := rfl
@[simp] theorem rnSw_cases (r : SwitchR) : (rnSw ρ r).cases = r.cases.map (rnCase ρ) := rfl
@[simp] theorem rnSw_cats (r : SwitchR) : (rnSw ρ r).cats = r.cats.map (rnCat ρ) := rfl
@[simp] theorem rnSw_dflt (r : SwitchR) : (rnSw ρ r).dflt = rnCat ρ r.dflt := rfl
@[simp] theorem rnSw_noResp (r : SwitchR) : (rnSw ρ r).noResp = r.noResp.map (rnCat ρ) := rfl
@[simp] theorem rnSw_wait (r : SwitchR) : (rnSw ρ r).wait = r.wait := rfl
@[simp] theorem rnSw_resultName (r : SwitchR) : (rnSw ρ r).resultName = r.resultName := rfl
@[simp] theorem rnRnd_cats (r : RandomR) : (rnRnd ρ r).cats = r.cats.map (rnCat ρ) := rfl
@[simp] theorem rnRnd_resultName (r : RandomR) : (rnRnd ρ r).resultName = r.resultName := rfl
@[simp] theorem rnNode_uid (n : NodeM) : (rnNode ρ n).uid = ρ n.uid := rfl
@[simp] theorem rnNode_kind (n : NodeM) : (rnNode ρ n).kind = n.kind := rfl
@[simp] theorem rnNode_actions (n : NodeM) : (rnNode ρ n).actions = n.actions.map (rnAct ρ) := rfl
@[simp] theorem rnNode_router (n : NodeM) : (rnNode ρ n).router = n.router.map (rnRouter ρ) := rfl
@[simp] theorem rnNode_dexitUid (n : NodeM) : (rnNode ρ n).dexitUid = ρ n.dexitUid := rfl
@[simp] theorem rnNode_dexitDest (n : NodeM) : (rnNode ρ n).dexitDest = rnDest ρ n.dexitDest := rfl

theorem rnSw_allCats (r : SwitchR) : (rnSw ρ r).allCats = r.allCats.map (rnCat ρ) := by
  unfold SwitchR.allCats
  cases h : r.noResp <;> simp [rnSw, h]

theorem rnSw_mapCats (r : SwitchR) (f f' : Cat → Cat) (hf : ∀ c, f' (rnCat ρ c) = rnCat ρ (f c)) :
    (rnSw ρ r).mapCats f' = rnSw ρ (r.mapCats f) := by
  unfold SwitchR.mapCats rnSw
  cases h : r.noResp <;> simp [h, hf, List.map_map, Function.comp_def]

theorem find?_map_rnCat (p p' : Cat → Bool) (hp : ∀ c, p' (rnCat ρ c) = p c) (l : List Cat) :
    (l.map (rnCat ρ)).find? p' = (l.find? p).map (rnCat ρ) := by
  induction l with
  | nil => rfl
  | cons c cs ih =>
    simp only [List.map_cons, List.find?_cons, hp]
    cases p c <;> simp [ih]

theorem rnSw_catByName (r : SwitchR) (name : Str) :
    (rnSw ρ r).catByName name = (r.catByName name).map (rnCat ρ) := by
  unfold SwitchR.catByName
  rw [rnSw_allCats]
  exact find?_map_rnCat _ _ (fun c => rfl) _

theorem rnSw_findCatUid (h : Injective ρ) (r : SwitchR) (u : Uid) :
    (rnSw ρ r).allCats.find? (·.uid = ρ u) = (r.allCats.find? (·.uid = u)).map (rnCat ρ) := by
  rw [rnSw_allCats]
  apply find?_map_rnCat
  intro c
  simp only [rnCat_uid]
  by_cases hc : c.uid = u
  · simp [hc]
  · have : ρ c.uid ≠ ρ u := fun e => hc (h e)
    simp [hc, this]

theorem rnSw_setDest (h : Injective ρ) (r : SwitchR) (u : Uid) (d : Dest) :
    (rnSw ρ r).setDest (ρ u) (rnDest ρ d) = rnSw ρ (r.setDest u d) := by
  unfold SwitchR.setDest
  apply rnSw_mapCats
  intro c
  simp only [rnCat_uid]
  by_cases hc : c.uid = u
  · simp [hc, rnCat]
  · have : ρ c.uid ≠ ρ u := fun e => hc (h e)
    simp [hc, this]

theorem rnSw_setDflt (r : SwitchR) (d : Dest) : (rnSw ρ r).setDflt (rnDest ρ d) = rnSw ρ (r.setDflt d) := rfl

theorem rnSw_findCase (r : SwitchR) (p : Case → Bool) (p' : Case → Bool) (hp : ∀ k, p' (rnCase ρ k) = p k) :
    (rnSw ρ r).cases.find? p' = (r.cases.find? p).map (rnCase ρ) := by
  simp only [rnSw_cases]
  induction r.cases with
  | nil => rfl
  | cons c cs ih =>
    simp only [List.map_cons, List.find?_cons, hp]
    cases p c <;> simp [ih]

theorem genCatName_go_rn (r : SwitchR) : ∀ (fuel : Nat) (n : Str),
    genCatName.go (rnSw ρ r) fuel n = genCatName.go r fuel n := by
  intro fuel
  induction fuel with
  | zero => intro n; rfl
  | succ f ih =>
    intro n
    simp only [genCatName.go, rnSw_catByName, Option.isSome_map, ih]

theorem rnSw_genCatName (r : SwitchR) (args : List (Option Str)) :
    genCatName (rnSw ρ r) args = genCatName r args := by
  unfold genCatName
  simp only [genCatName_go_rn, rnSw_allCats, List.length_map]

theorem rnNode_exitDests (n : NodeM) : (rnNode ρ n).exitDests = n.exitDests.map (rnDest ρ) := by
  unfold NodeM.exitDests
  cases h : n.router with
  | none => simp [h]
  | some rt =>
    cases rt with
    | sw r => simp [h, rnRouter, rnSw_allCats, List.map_map, Function.comp_def]
    | rnd r => simp [h, rnRouter, List.map_map, Function.comp_def]

theorem rnNode_hasLoose (n : NodeM) : (rnNode ρ n).hasLoose = n.hasLoose := by
  unfold NodeM.hasLoose
  rw [rnNode_exitDests, List.any_map]
  congr 1
  funext d
  exact rnDest_beq_none d

theorem rnNode_connectLoose (n : NodeM) (d : Dest) :
    (rnNode ρ n).connectLoose (rnDest ρ d) = rnNode ρ (n.connectLoose d) := by
  have hf : ∀ c : Cat, (fun (c : Cat) => if c.dest == Dest.none then { c with dest := rnDest ρ d } else c) (rnCat ρ c)
      = rnCat ρ ((fun (c : Cat) => if c.dest == Dest.none then { c with dest := d } else c) c) := by
    intro c
    simp only [rnCat_dest, rnDest_beq_none]
    cases hd : (c.dest == Dest.none) <;> simp [rnCat]
  unfold NodeM.connectLoose
  cases h : n.router with
  | none =>
    simp only [rnNode_router, h, Option.map_none, rnNode_dexitDest, rnDest_beq_none]
    cases hd : (n.dexitDest == Dest.none) <;> simp [rnNode, h]
  | some rt =>
    cases rt with
    | sw r =>
      simp only [rnNode_router, h, Option.map_some, rnRouter]
      rw [rnSw_mapCats r _ _ hf]
      simp [rnNode, h, rnRouter]
    | rnd r =>
      simp only [rnNode_router, h, Option.map_some, rnRouter]
      simp only [rnNode, h, Option.map_some, rnRouter, rnRnd, List.map_map, Function.comp_def]
      congr 3
      have : ∀ l : List Cat, List.map (fun x => if ((rnCat ρ x).dest == Dest.none) = true then
            ({ uid := (rnCat ρ x).uid, name := (rnCat ρ x).name, exitUid := (rnCat ρ x).exitUid, dest := rnDest ρ d } : Cat)
          else rnCat ρ x) l = List.map (fun x => rnCat ρ
            (if (x.dest == Dest.none) = true then { uid := x.uid, name := x.name, exitUid := x.exitUid, dest := d } else x)) l := by
        intro l
        apply List.map_congr_left
        intro c _
        exact hf c
      rw [this]

theorem rnNode_withAct (n : NodeM) (a : Option (Uid × Str)) :
    (rnNode ρ n).withAct (a.map (rnAct ρ)) = rnNode ρ (n.withAct a) := by
  cases a <;> simp [NodeM.withAct, rnNode]

theorem rnNode_operandOf (n : NodeM) : operandOf (rnNode ρ n) = operandOf n := by
  unfold operandOf
  cases h : n.router with
  | none => simp [h]
  | some rt => cases rt <;> simp [h, rnRouter]

/-! ### rendering commutes with renaming -/

theorem renderDest_rn (d : Dest) : renderDest (rnDest ρ d) = (renderDest d).map ρ := by
  cases d <;> rfl

theorem renderNode_rn (n : NodeM) : renderNode (rnNode ρ n) = (renderNode n).rename ρ := by
  unfold renderNode Flow.Node.rename
  cases h : n.router with
  | none =>
    simp [h, renderDest_rn, Flow.Exit.rename, Flow.Action.rename, List.map_map, Function.comp_def, rnAct]
  | some rt =>
    cases rt with
    | sw r =>
      simp only [rnNode_uid, rnNode_actions, rnNode_router, h, Option.map_some, rnRouter, renderRouter,
        rnSw_allCats, List.map_map, Function.comp_def, Flow.Router.rename, rnSw_operand, rnSw_cases,
        rnSw_dflt, rnCat_uid, rnSw_wait, rnSw_noResp, rnSw_resultName]
      refine congr (congr (congr (congr rfl rfl) ?_) ?_) ?_
      · simp [Flow.Action.rename, rnAct]
      · have e1 : List.map (fun x => renderCase (rnCase ρ x)) r.cases =
            List.map (fun x => Flow.Case.rename ρ (renderCase x)) r.cases := by
          apply List.map_congr_left; intro k _; rfl
        have e2 : List.map (fun x => renderCat (rnCat ρ x)) r.allCats =
            List.map (fun x => Flow.Category.rename ρ (renderCat x)) r.allCats := by
          apply List.map_congr_left; intro k _; rfl
        rw [e1, e2]
        congr 1
        rcases r.wait with _ | _ | w <;> rcases r.noResp with _ | nr <;> rfl
      · simp [renderExit, Flow.Exit.rename, renderDest_rn]
    | rnd r =>
      simp [h, rnRouter, renderRouter, Flow.Router.rename, List.map_map, Function.comp_def,
        renderCat, Flow.Category.rename, renderExit, Flow.Exit.rename, renderDest_rn, Flow.Action.rename, rnAct]

theorem renderOut_rn (ns : List NodeM) :
    renderOut { nodes := ns.map (rnNode ρ) } = (renderOut { nodes := ns }).rename ρ := by
  simp [renderOut, Flow.Flow.rename, List.map_map, Function.comp_def, renderNode_rn]

end Rpft.Compile
