/-
Helper lemmas for C04 (graph level): a successful export as a whole — its skeleton, the multiset
and order facts instantiated at the top-level call, every id a row mentions is the id of a row
(so the remapping never fails).
-/
import Rpft.Lemmas.ExportGraphFinal
import Rpft.Lemmas.ExportGraphRemap
set_option linter.unusedSimpArgs false
set_option linter.unusedVariables false
set_option linter.unusedSectionVars false
namespace Rpft.Export
open Function

variable {U : Type} [DecidableEq U]

/-- the edge into the first row of the sheet: `Edge(from_="start")` -/
def startEdge (n0 : NodeX U) : GEdge U := ⟨none, blankLabel, firstId n0⟩

/-- everything the graph theorems need of a successful export -/
structure Skeleton (f : FlowX U) (rows : List (RowT U)) (n0 : NodeX U) (items : List (Item U)) (vis : List U) : Prop where
  head : f.head? = some n0
  run : Run f DTrue (.node n0 ⟨none, blankLabel⟩) [] [] vis items
  rows_eq : rows = renderAll items
  inv : Inv f vis items
  closed : Closed f vis items
  reach : ∀ m, m ∈ blockNodes items ↔ Reach f m

theorem export_skeleton (f : FlowX U) (rows : List (RowT U)) (h : toRowsT f = .ok rows) (hne : f ≠ []) :
    ∃ n0 items vis, Skeleton f rows n0 items vis := by
  cases f with
  | nil => exact absurd rfl hne
  | cons n0 f =>
    obtain ⟨vis, items, r, hr⟩ := toRowsT_run n0 f rows h
    obtain ⟨a, b, c⟩ := run_top_reach r
    exact ⟨n0, items, vis, rfl, r, hr, a, b, c⟩

namespace Skeleton
variable {f : FlowX U} {rows : List (RowT U)} {n0 : NodeX U} {items : List (Item U)} {vis : List U}

theorem taskOk (sk : Skeleton f rows n0 items vis) : TaskOk f [] (.node n0 ⟨none, blankLabel⟩) :=
  ⟨(Reach.start sk.head).canon, by simp⟩

theorem nodes0 (items : List (Item U)) : blockNodes items = blockNodes items ++ blockNodes ([] : List (Item U)) := by
  simp [blockNodes]

theorem edges (sk : Skeleton f rows n0 items vis) : edgesOfT rows = skelEdges items := by
  rw [sk.rows_eq]
  exact edgesOfT_renderAll items (fun n es hm => (sk.inv.canonB n es hm).2)

theorem nodup (sk : Skeleton f rows n0 items vis) : ((blockNodes items).map (·.uuid)).Nodup := sk.inv.nodup

/-- the graph of the sheet, as a multiset -/
theorem perm (sk : Skeleton f rows n0 items vis) :
    (edgesOfT rows).Perm (startEdge n0 :: (blockNodes items).flatMap (nodeOut f)) := by
  have := run_perm f DTrue sk.run (inv_nil f) sk.taskOk (blockNodes items) (nodes0 items)
  rw [sk.edges]
  simpa [taskEdges, skelEdges, startEdge, inEdge] using this

/-- the selected sub-list of the graph of the sheet -/
theorem sel_eq (sk : Skeleton f rows n0 items vis) {D : List (Item U) → NodeX U → NodeX U → Label → Prop}
    (r : Run f D (.node n0 ⟨none, blankLabel⟩) [] [] vis items) {n : NodeX U} (hn : Reach f n) (Q : GEdge U → Bool)
    (hD : DoneOk f D (lastId n) Q) :
    sel (lastId n) Q (edgesOfT rows) = (exitsEdges f n).filter Q := by
  have := run_filter f D (lastId n) Q hD r (inv_nil f) sk.taskOk (blockNodes items) (nodes0 items)
  rw [sk.edges, this, sel_flatMap_nodeOut f Q sk.nodup ((sk.reach n).2 hn)]
  have : sel (lastId n) Q (taskEdges f (.node n0 ⟨none, blankLabel⟩)) = [] := by
    apply sel_eq_nil_of_src
    intro e he
    simp only [taskEdges, List.mem_singleton] at he
    subst he
    simp [inEdge]
  rw [this]
  simp [skelEdges]

/-- a visited node has been completed by the end -/
theorem completed_of_visited (sk : Skeleton f rows n0 items vis) {c : NodeX U} (hc : Canon f c) (hv : c.uuid ∈ vis) :
    c ∈ blockNodes items := by
  obtain ⟨_, newN, hd⟩ := run_inv f DTrue sk.run (inv_nil f) sk.taskOk
  have hnew : newN = blockNodes items := by simpa [blockNodes] using hd.nodes.symm
  rcases hd.visited _ hv with h0 | ⟨m, hm, e⟩
  · cases h0
  · rw [hnew] at hm
    obtain ⟨es, hes⟩ := mem_blockNodes.1 hm
    exact Canon.eq (sk.inv.canonB m es hes).1 hc e ▸ hm

theorem nodeRows (sk : Skeleton f rows n0 items vis) : nodeRowsT rows = (blockNodes items).flatMap nodeSig := by
  rw [sk.rows_eq]; exact nodeRowsT_renderAll items

theorem order_head (sk : Skeleton f rows n0 items vis) : (blockNodes items).head? = some n0 := by
  obtain ⟨rest, hrest⟩ := run_node_head sk.run
  rw [hrest, blockNodes_cons_block]; rfl

/-- the id of every row of a completed node is the id of a row of the sheet -/
theorem rowId_mem (sk : Skeleton f rows n0 items vis) {m : NodeX U} (hm : m ∈ blockNodes items) {j : Nat}
    (hj : j < m.rows.length) : rowId m j ∈ rows.map (·.id) := by
  have h1 : rowId m j ∈ (nodeRowsT rows).map (·.1) := by
    rw [sk.nodeRows]
    apply List.mem_map.2
    refine ⟨(rowId m j, some m.uuid, (m.rows[j]).2, (m.rows[j]).1), ?_, rfl⟩
    apply List.mem_flatMap.2
    refine ⟨m, hm, ?_⟩
    simp only [nodeSig, List.mem_map]
    exact ⟨(m.rows[j], j), List.mk_mem_zipIdx_iff_getElem?.2 (by simp [hj]), rfl⟩
  obtain ⟨x, hx, e⟩ := List.mem_map.1 h1
  simp only [nodeRowsT, List.mem_map, List.mem_filter] at hx
  obtain ⟨r, ⟨hr, _⟩, rfl⟩ := hx
  exact List.mem_map.2 ⟨r, hr, e⟩

/-- the source of every edge of the sheet graph is `"start"` or a row of the sheet -/
theorem src_mem (sk : Skeleton f rows n0 items vis) {e : GEdge U} (he : e ∈ skelEdges items) :
    ∀ k, e.src = some k → k ∈ rows.map (·.id) := by
  have hp := sk.perm
  rw [sk.edges] at hp
  have := hp.mem_iff.1 he
  intro k hk
  rcases List.mem_cons.1 this with h | h
  · subst h; cases hk
  · obtain ⟨m, hm, hem⟩ := List.mem_flatMap.1 h
    obtain ⟨es, hes⟩ := mem_blockNodes.1 hm
    have hrows := (sk.inv.canonB m es hes).2
    have hlen : 0 < m.rows.length := List.length_pos_iff.2 hrows
    simp only [nodeOut, List.mem_append] at hem
    rcases hem with hem | hem
    · obtain ⟨j, hj, rfl⟩ := mem_chain hem
      cases hk
      exact sk.rowId_mem hm (by omega)
    · obtain ⟨lab, d, c, _, _, rfl⟩ := mem_loopEdges hem
      cases hk
      exact sk.rowId_mem hm (by omega)

theorem mem_render {r : RowT U} (h : r ∈ renderAll items) : ∃ it ∈ items, r ∈ it.render := by
  simpa [renderAll, List.mem_flatMap] using h

theorem mem_mkRowsFrom {n : NodeX U} {r : RowT U} : ∀ {rs : List (Payload × Option U)} {i : Nat} {pe : EdgeT U},
    r ∈ mkRowsFrom n i pe rs → ∃ j, i ≤ j ∧ j < i + rs.length ∧ r.id = rowId n j ∧ r.goto = [] ∧ r.nodeId = some n.uuid ∧
      (j = i → r.edges = [pe]) ∧ (i < j → r.edges = [⟨some (rowId n (j - 1)), blankLabel⟩])
  | [], _, _, h => by cases h
  | (p, o) :: rs, i, pe, h => by
    simp only [mkRowsFrom, List.mem_cons] at h
    rcases h with h | h
    · subst h
      exact ⟨i, Nat.le_refl _, by simp, rfl, rfl, rfl, fun _ => rfl, fun hlt => absurd hlt (Nat.lt_irrefl _)⟩
    · obtain ⟨j, h1, h2, h3, h4, h5, h6, h7⟩ := mem_mkRowsFrom h
      refine ⟨j, by omega, by simp only [List.length_cons]; omega, h3, h4, h5, fun e => by omega, ?_⟩
      intro _
      by_cases hj : j = i + 1
      · rw [h6 hj, hj]; simp
      · exact h7 (by omega)

/-- every id a row of the sheet mentions is the id of a row of the sheet -/
theorem refs (sk : Skeleton f rows n0 items vis) : ∀ r ∈ rows, RowRefs (rows.map (·.id)) r := by
  intro r hr
  refine ⟨List.mem_map.2 ⟨r, hr, rfl⟩, ?_⟩
  rw [sk.rows_eq] at hr
  obtain ⟨it, hit, hrit⟩ := mem_render hr
  have hsub : ∀ e, e ∈ itemEdges it → e ∈ skelEdges items := fun e he => List.mem_flatMap.2 ⟨it, hit, he⟩
  cases it with
  | goto k c e =>
    simp only [Item.render, List.mem_singleton] at hrit
    subst hrit
    constructor
    · intro e' he' k' hk'
      simp only [gotoRow, List.mem_singleton] at he'
      subst he'
      exact sk.src_mem (hsub (inEdge c e') (by simp [itemEdges])) k' hk'
    · intro k' hk'
      simp only [gotoRow, List.mem_singleton] at hk'
      subst hk'
      obtain ⟨hcc, hcv⟩ := sk.inv.canonG k c e hit
      have hm := sk.completed_of_visited hcc hcv
      obtain ⟨es, hes⟩ := mem_blockNodes.1 hm
      exact sk.rowId_mem hm (List.length_pos_iff.2 (sk.inv.canonB c es hes).2)
  | block n es =>
    have hm : n ∈ blockNodes items := mem_blockNodes.2 ⟨es, hit⟩
    simp only [Item.render, blockRows] at hrit
    cases hrw : n.rows with
    | nil => simp [hrw] at hrit
    | cons x rest =>
      obtain ⟨p, o⟩ := x
      simp only [hrw, List.mem_cons] at hrit
      rcases hrit with h | h
      · subst h
        refine ⟨?_, by intro k' hk'; cases hk'⟩
        intro e' he' k' hk'
        exact sk.src_mem (hsub (inEdge n e') (by simp only [itemEdges, List.mem_append, List.mem_map]; exact Or.inl ⟨e', he', rfl⟩)) k' hk'
      · obtain ⟨j, h1, h2, h3, h4, h5, h6, h7⟩ := mem_mkRowsFrom h
        refine ⟨?_, by rw [h4]; intro k' hk'; cases hk'⟩
        intro e' he' k' hk'
        have hj : j = 1 ∨ 1 < j := by omega
        rcases hj with hj | hj
        · rw [h6 hj] at he'
          simp only [List.mem_singleton] at he'
          subst he'
          cases hk'
          exact sk.rowId_mem hm (by rw [hrw]; simp)
        · rw [h7 hj] at he'
          simp only [List.mem_singleton] at he'
          subst he'
          cases hk'
          exact sk.rowId_mem hm (by rw [hrw]; simp only [List.length_cons]; omega)

end Skeleton

/-- the remapping of an exported sheet never fails: whatever `toRowsT` returns, `strippedRows`
returns the remapped rows or the same error -/
theorem strippedRows_ok (numbered : Bool) (f : FlowX U) (rows : List (RowT U)) (h : toRowsT f = .ok rows) :
    ∃ out, strippedRows numbered f = .ok out ∧ remap numbered rows = .ok out := by
  have hnd := toRowsT_ids_nodup f rows h
  by_cases hne : f = []
  · subst hne
    simp only [toRowsT, Except.ok.injEq] at h
    subst h
    exact ⟨[], by simp [strippedRows, toRowsT, remap, buildTable, remapRows], by simp [remap, buildTable, remapRows]⟩
  · obtain ⟨n0, items, vis, sk⟩ := export_skeleton f rows h hne
    obtain ⟨out, ho⟩ := remap_ok_of_refs numbered rows hnd sk.refs
    exact ⟨out, by simp [strippedRows, h, ho], ho⟩

end Rpft.Export

namespace Rpft.Export
variable {U : Type} [DecidableEq U]

theorem Reach.ne_nil {f : FlowX U} {n : NodeX U} (h : Reach f n) : f ≠ [] := by
  induction h with
  | start h0 => intro e; subst e; cases h0
  | step _ _ _ ih => exact ih

/-- edges leaving a row, after an injective renaming of the row ids -/
theorem outOf_map_of_inj (σ : TempId U → Str) (ids : List (TempId U)) (es : List (GEdge U)) (s : TempId U)
    (hs : s ∈ ids) (hsrc : ∀ e ∈ es, ∀ k, e.src = some k → k ∈ ids)
    (hinj : ∀ a ∈ ids, ∀ b ∈ ids, σ a = σ b → a = b) :
    outOf (σ s) (es.map (SEdge.map σ)) = (outOf s es).map (SEdge.map σ) := by
  simp only [outOf, List.filter_map]
  congr 1
  apply List.filter_congr
  intro e he
  simp only [Function.comp, SEdge.map]
  have key : (Option.map σ e.src = some (σ s)) ↔ (e.src = some s) := by
    rcases hsr : e.src with _ | k
    · simp
    · simp only [Option.map_some, Option.some.injEq]
      have hk := hsrc e he k hsr
      exact ⟨fun heq => hinj k hk s hs heq, fun heq => heq ▸ rfl⟩
  exact decide_eq_decide.2 key

end Rpft.Export
