/-
Layer B, the parser: rows, open / close group and inserted blocks keep the group tree
well-formed.
-/
import Rpft.Lemmas.CompileInvB3
set_option linter.unusedSimpArgs false
set_option linter.unusedVariables false
namespace Rpft.Compile
open Rpft

theorem addRowId_bframe (rowId : Str) (g : Nat) : BFrame (addRowId rowId g) := by
  intro s; unfold addRowId; wp_simp; simp

theorem SInv.ne_nil {H : Nat → Prop} {root : Nat} {st : List Nat} (h : SInv H root st) : st ≠ [] := by
  intro e; have := h.last; rw [e] at this; simp at this

/-- `append_node_group` -/
theorem appendGroup_B (g : Nat) (rowId : Str) (P H H' : Nat → Prop) (root : Nat) (s : St)
    (b : BInv P H' root s) (hg : H' g) (hlt : ∀ x ∈ s.stack, x < g) (hh : ∀ x, H x ↔ (x ≠ g ∧ H' x)) :
    wp (appendGroup g rowId) s (fun _ s' => BInv P H root s' ∧ s'.stack = s.stack) := by
  unfold appendGroup
  wp_simp
  split
  · wp_simp
  · rename_i b0 rest hst
    split
    · rename_i ch hb
      wp_simp [wp_setGrp]
      have b' : BInvC P H' root s.nodes.size s.groups (b0 :: rest) := by rw [← hst]; exact b
      have b1 := BInvC.append (H := H) b' hb hg (hlt b0 (by simp [hst])) hh
      have b2 : BInv P H root { s with groups := s.groups.setIfInBounds b0 (Grp.block (ch ++ [g])) } := by
        unfold BInv; rw [hst]; exact b1
      refine wp_mono (addRowId_bframe _ _ _) ?_
      intro _ s' ⟨h1, h2, h3⟩
      exact ⟨b2.frame h1 h2 h3, h2⟩
    · wp_simp

theorem noopEdge_B (g : Nat) (e : Edge) : BStep (noopEdge g e) := by
  intro P H root s b
  unfold noopEdge
  wp_simp
  refine wp_ro (ro_groupOfEdge _) s _ ?_
  intro og
  split
  · wp_simp; exact ⟨b, rfl⟩
  · wp_simp [wp_getGrp, wp_setGrp]
    intro grp hgrp
    split
    · rename_i parents router
      wp_simp [wp_setGrp]
      have b1 : ∀ grp', held grp' = held (Grp.noop parents router) → kids grp' = kids (Grp.noop parents router) →
          BInv P H root { s with groups := s.groups.setIfInBounds g grp' } :=
        fun grp' h1 h2 => BInvC.setSame grp' b hgrp h1 h2
      split
      · wp_simp [wp_getNode]
        intro n hn
        refine wp_ro ro_fuelOf _ _ ?_
        intro fuel
        exact addExit_B fuel _ _ _ P H root _ (b1 _ (by simp [held]) (by simp [kids]))
      · wp_simp; exact ⟨b1 _ (by simp [held]) (by simp [kids]), rfl⟩
    · wp_simp

/-- a group is created and, after `mid` ran, appended to the innermost open block -/
theorem newGrp_append (grp : Grp) (rowId : Str) (mid : Nat → M PUnit) (P P' H : Nat → Prop) (root : Nat)
    (s : St) (b : BInv P' H root s) (hk : kids grp = [])
    (hn : NInv P' s.nodes.size (heldF s.groups) →
      NInv P s.nodes.size (upd (heldF s.groups) s.groups.size (held grp)))
    (hmid : ∀ g, BStep (mid g)) :
    wp (do let g ← addGrp grp; mid g; appendGroup g rowId) s (fun _ s' =>
      BInv P H root s' ∧ s'.stack = s.stack) := by
  wp_simp [wp_addGrp]
  have b1 : BInv P (fun x => x = s.groups.size ∨ H x) root { s with groups := s.groups.push grp } :=
    BInvC.newGrp grp b hk hn
  refine wp_mono (hmid _ _ _ _ _ b1) ?_
  intro _ s2 ⟨b2, h2⟩
  refine wp_mono (appendGroup_B _ _ P H _ root s2 b2 (.inl rfl) ?_ ?_) ?_
  · intro x hx
    rw [h2] at hx
    exact b.g.rlt x (.inl hx)
  · intro x
    constructor
    · intro hx; exact ⟨fun e => by have := b.g.rlt x (.inr hx); omega, .inr hx⟩
    · rintro ⟨h1, h3 | h3⟩
      · exact absurd h3 h1
      · exact h3
  · intro _ s3 ⟨b3, h3⟩
    exact ⟨b3, h3.trans h2⟩

theorem newGrp_append' (grp : Grp) (rowId : Str) (P P' H : Nat → Prop) (root : Nat)
    (s : St) (b : BInv P' H root s) (hk : kids grp = [])
    (hn : NInv P' s.nodes.size (heldF s.groups) →
      NInv P s.nodes.size (upd (heldF s.groups) s.groups.size (held grp))) :
    wp (addGrp grp) s (fun g s1 => wp (appendGroup g rowId) s1 (fun _ s' =>
      BInv P H root s' ∧ s'.stack = s.stack)) := by
  have key := newGrp_append grp rowId (fun _ => pure ()) P P' H root s b hk hn
    (fun g => (BFrame.pure PUnit.unit).bstep)
  simp only [wp_bind, wp_pure] at key
  exact key

theorem parseNoop_B (edges : List Edge) (rowId : Str) : BStep (parseNoop edges rowId) := by
  intro P H root s b
  unfold parseNoop
  exact newGrp_append (Grp.noop [] none) rowId (fun g => edges.forM (noopEdge g)) P P H root s b rfl
    (fun h => h.newEmpty (heldF_size _)) (fun g => BStep.forM _ _ (fun x _ => noopEdge_B g x))

theorem gotoEdge_B (ed : Edge × Str) : BStep (gotoEdge ed) := by
  intro P H root s b
  unfold gotoEdge
  wp_simp
  refine wp_ro (ro_lookupRow _) s _ ?_
  intro og
  split
  · wp_simp
  · wp_simp [wp_getNode]
    refine wp_ro ro_fuelOf s _ ?_
    intro fuel
    refine wp_ro (ro_entryNode _ _) s _ ?_
    intro i n hn
    exact addRowEdge_B _ _ P H root s b

theorem parseGoto_B (r : Row) : BStep (parseGoto r) := by
  intro P H root s b
  unfold parseGoto
  wp_simp
  exact ⟨fun _ => trivial, fun _ => BStep.forM _ _ (fun x _ => gotoEdge_B x) P H root s b⟩

theorem ro_predGroup (e : Edge) : ReadOnly (predGroup e) := by
  unfold predGroup
  split
  · exact ro_mostRecent
  · exact ro_lookupRow _

theorem mergeRow_frame (r : Row) (ex : Nat) (act : Str) : BFrame (mergeRow r ex act) := by
  intro s
  unfold mergeRow
  split
  · rename_i e _
    wp_simp
    refine ⟨fun _ => trivial, fun _ => ?_⟩
    refine wp_ro (ro_predGroup e) s _ ?_
    intro pred
    split
    · wp_simp
    · wp_simp
      refine wp_ro ro_fuelOf s _ ?_
      intro fuel
      refine wp_ro (ro_entryNode _ _) s _ ?_
      intro en
      refine ⟨fun _ => trivial, fun _ => ?_⟩
      wp_simp [wp_fresh', wp_getNode, wp_setNode]
      intro n hn
      refine ⟨fun _ => by simp, fun _ => ?_⟩
      refine wp_ro (ro_lookupRow _) _ _ ?_
      intro og
      split
      · wp_simp; simp
      · wp_simp
  · wp_simp

theorem newRow_B (r : Row) (nodeName : Str) : BStep (newRow r nodeName) := by
  intro P H root s b
  unfold newRow
  wp_simp [wp_addNode]
  refine wp_mono (rowAction_spec r s) ?_
  intro act s1 ⟨k1, hb, _⟩; subst hb
  refine wp_mono (rowNode_spec r act _) ?_
  intro n s2 ⟨k2, hb, _⟩; subst hb
  dsimp only
  have b1 : BInv (fun x => x = s.nodes.size ∨ P x) H root
      { s with nodes := s.nodes.push n, next := s.next + k1 + k2 } := by
    unfold BInv; simpa using BInvC.pending b
  refine wp_mono (BStep.forM _ _ (fun x _ => addRowEdge_B (.node n.uid) x) _ H root _ b1) ?_
  intro _ s3 ⟨b3, h3⟩
  have hsz : s.nodes.size < s3.nodes.size := b3.n.plt _ (.inl rfl)
  have key := newGrp_append' (Grp.row [s.nodes.size] r.type) r.rowId P
    (fun x => x = s.nodes.size ∨ P x) H root s3 b3 rfl
    (fun h => h.newRow (heldF_size _) (fun hp => by have := b.n.plt _ hp; omega))
  refine wp_mono key ?_
  intro g s4 h4
  refine wp_mono h4 ?_
  intro _ s5 ⟨b5, h5⟩
  exact ⟨b5.frame rfl rfl rfl, by simpa using h5.trans h3⟩

theorem actionRow_B (r : Row) : BStep (actionRow r) := by
  intro P H root s b
  unfold actionRow
  wp_simp
  refine ⟨fun _ => trivial, fun _ => ?_⟩
  split
  · exact (mergeRow_frame _ _ _).bstep P H root s b
  · exact newRow_B _ _ P H root s b

theorem parseRow_B (r : Row) : BStep (parseRow r) := by
  intro P H root s b
  unfold parseRow
  wp_simp
  exact ⟨fun _ => BStep.forM _ _ (fun x _ => addRowEdge_B _ x) P H root s b, fun _ =>
    ⟨fun _ => parseGoto_B _ P H root s b, fun _ =>
    ⟨fun _ => parseNoop_B _ _ P H root s b, fun _ => ⟨fun _ => trivial, fun _ =>
      actionRow_B _ P H root s b⟩⟩⟩⟩

/-- parser events keep the invariant (the stack may change) -/
def PStep (m : M PUnit) : Prop := ∀ P H root s, BInv P H root s → wp m s (fun _ s' => BInv P H root s')

theorem BStep.pstep {m : M PUnit} (h : BStep m) : PStep m := by
  intro P H root s b
  exact wp_mono (h P H root s b) (fun _ _ hh => hh.1)

theorem getLast?_cons_of_ne_nil {b : Nat} {st : List Nat} (h : st ≠ []) :
    (b :: st).getLast? = st.getLast? := by
  cases st with
  | nil => exact absurd rfl h
  | cons x xs => simp [List.getLast?_cons_cons]

theorem openGroup_B (edges : List Edge) (starting : Bool) : PStep (openGroup edges starting) := by
  intro P H root s b
  unfold openGroup
  wp_simp [wp_addGrp]
  have b1 : BInvC P (fun x => x = s.groups.size ∨ H x) root s.nodes.size
      (s.groups.push (Grp.block [])) s.stack :=
    BInvC.newGrp (Grp.block []) b rfl (fun h => h.newEmpty (heldF_size _))
  have b2 : BInv P H root { s with groups := s.groups.push (Grp.block []), stack := s.groups.size :: s.stack } := by
    refine BInvC.reroot b1 ?_ ⟨?_, ?_, ?_⟩
    · intro x; simp only [List.mem_cons]
      constructor
      · rintro (h | h | h)
        · exact .inl (.inr h)
        · exact .inl (.inl h)
        · exact .inr h
      · rintro ((h | h) | h)
        · exact .inr (.inl h)
        · exact .inl h
        · exact .inr (.inr h)
    · rw [List.pairwise_cons]
      exact ⟨fun x hx => b.g.rlt x (.inl hx), b.st.sorted⟩
    · intro x hx hH
      simp only [List.mem_cons] at hx
      rcases hx with hx | hx
      · have := b.g.rlt x (.inr hH); omega
      · exact b.st.notH x hx hH
    · rw [getLast?_cons_of_ne_nil b.st.ne_nil]; exact b.st.last
  refine ⟨fun _ => b2, fun _ => ?_⟩
  exact (parseNoop_B _ _).pstep P H root _ b2

theorem closeGroup_B (rowId : Str) : PStep (closeGroup rowId) := by
  intro P H root s b
  unfold closeGroup
  wp_simp
  split
  · rename_i _ b0 x xs hst
    wp_simp
    have b' : BInvC P H root s.nodes.size s.groups (b0 :: x :: xs) := by rw [← hst]; exact b
    have hs := b'.st.sorted
    rw [List.pairwise_cons] at hs
    have b1 : BInv P (fun y => y = b0 ∨ H y) root { s with stack := x :: xs } := by
      refine BInvC.reroot b' ?_ ⟨hs.2, ?_, ?_⟩
      · intro y; simp only [List.mem_cons]
        constructor
        · rintro ((h | h) | h)
          · exact .inr (.inl h)
          · exact .inl h
          · exact .inr (.inr h)
        · rintro (h | h | h)
          · exact .inl (.inr h)
          · exact .inl (.inl h)
          · exact .inr h
      · intro y hy
        rintro (h | h)
        · have := hs.1 y hy; omega
        · exact b'.st.notH y (by simp only [List.mem_cons] at hy ⊢; exact .inr hy) h
      · have := b'.st.last
        rw [getLast?_cons_of_ne_nil (by simp)] at this
        exact this
    refine wp_mono (appendGroup_B b0 rowId P H _ root _ b1 (.inl rfl) ?_ ?_) (fun _ _ hh => hh.1)
    · intro y hy; exact hs.1 y hy
    · intro y
      constructor
      · intro hy; exact ⟨fun e => b'.st.notH b0 (by simp) (e ▸ hy), .inr hy⟩
      · rintro ⟨h1, h3 | h3⟩
        · exact absurd h3 h1
        · exact h3
  · wp_simp

theorem wp_insertEnter (s : St) (Q : St × Nat → St → Prop) :
    wp insertEnter s Q ↔
      Q (s, s.groups.size) { s with groups := s.groups.push (Grp.block []), stack := [s.groups.size],
                                    rowIds := [], names := [] } := by
  unfold insertEnter
  wp_simp [wp_addGrp]

theorem insertLeave_B (s0 : St) (b0 : Nat) (r : Row) (P H : Nat → Prop) (root : Nat) (s : St)
    (b : BInv P (fun x => x ∈ s0.stack ∨ H x) b0 s) (hs0 : SInv H root s0.stack)
    (hlt : ∀ x ∈ s0.stack, x < b0) :
    wp (insertLeave s0 b0 r) s (fun _ s' => BInv P H root s') := by
  unfold insertLeave
  wp_simp
  refine ⟨fun _ => trivial, fun hl => ?_⟩
  have hst : s.stack = [b0] := by
    have h1 := b.st.last
    have hl' : s.stack.length = 1 := by simpa using hl
    match hs : s.stack, hl' with
    | [y], _ => rw [hs] at h1; simp at h1; rw [h1]
  refine wp_ro ro_fuelOf _ _ ?_
  intro fuel
  refine wp_ro (ro_entryNode _ _) _ _ ?_
  intro i
  wp_simp [wp_getNode]
  intro n hn
  have b' : BInvC P (fun x => x ∈ s0.stack ∨ H x) b0 s.nodes.size s.groups [b0] := by rw [← hst]; exact b
  have hb0 : b0 ∉ s0.stack := fun hm => b'.st.notH b0 (by simp) (.inl hm)
  have b1 : BInv P (fun y => y = b0 ∨ H y) root
      { s with stack := s0.stack, rowIds := s0.rowIds, names := s0.names } := by
    refine BInvC.reroot b' ?_ ⟨hs0.sorted, ?_, hs0.last⟩
    · intro y; simp only [List.mem_singleton]
      constructor
      · rintro (h | h | h)
        · exact .inr (.inl h)
        · exact .inl h
        · exact .inr (.inr h)
      · rintro (h | h | h)
        · exact .inr (.inl h)
        · exact .inl h
        · exact .inr (.inr h)
    · intro y hy
      rintro (h | h)
      · exact hb0 (h ▸ hy)
      · exact hs0.notH y hy h
  refine wp_mono (BStep.forM _ _ (fun x _ => addRowEdge_B (.node n.uid) x) _ _ root _ b1) ?_
  intro _ s2 ⟨b2, h2⟩
  refine wp_mono (appendGroup_B b0 r.rowId P H _ root s2 b2 (.inl rfl) ?_ ?_) (fun _ _ hh => hh.1)
  · intro y hy; rw [h2] at hy; exact hlt y hy
  · intro y
    constructor
    · intro hy
      refine ⟨fun e => ?_, .inr hy⟩
      exact b'.st.notH b0 (by simp) (.inr (e ▸ hy))
    · rintro ⟨h1, h3 | h3⟩
      · exact absurd h3 h1
      · exact h3

mutual
theorem step_B : ∀ e : Event, PStep (step e)
  | .row r => by unfold step; exact (parseRow_B r).pstep
  | .openGroup edges starting => by unfold step; exact openGroup_B _ _
  | .closeGroup rowId => by unfold step; exact closeGroup_B _
  | .insert r body => by
    intro P H root s b
    unfold step
    wp_simp [wp_insertEnter]
    have b1 : BInvC P (fun x => x = s.groups.size ∨ H x) root s.nodes.size
        (s.groups.push (Grp.block [])) s.stack :=
      BInvC.newGrp (Grp.block []) b rfl (fun h => h.newEmpty (heldF_size _))
    have b2 : BInv P (fun x => x ∈ s.stack ∨ H x) s.groups.size
        { s with groups := s.groups.push (Grp.block []), stack := [s.groups.size], rowIds := [], names := [] } := by
      refine BInvC.reroot b1 ?_ ⟨by simp, ?_, by simp⟩
      · intro x; simp only [List.mem_singleton]
        constructor
        · rintro (h | h | h)
          · exact .inr (.inl h)
          · exact .inl h
          · exact .inr (.inr h)
        · rintro (h | h | h)
          · exact .inr (.inl h)
          · exact .inl h
          · exact .inr (.inr h)
      · intro x hx
        simp only [List.mem_singleton] at hx
        rintro (h | h)
        · have := b.g.rlt x (.inl h); omega
        · have := b.g.rlt x (.inr h); omega
    refine wp_mono (steps_B body P _ _ _ b2) ?_
    intro _ s2 b3
    exact insertLeave_B s s.groups.size r P H root s2 b3 b.st (fun x hx => b.g.rlt x (.inl hx))
theorem steps_B : ∀ es : List Event, PStep (steps es)
  | [] => by intro P H root s b; unfold steps; wp_simp; exact b
  | e :: es => by
    intro P H root s b
    unfold steps
    wp_simp
    refine wp_mono (step_B e P H root s b) ?_
    intro _ s1 b1
    exact steps_B es P H root s1 b1
end

end Rpft.Compile
