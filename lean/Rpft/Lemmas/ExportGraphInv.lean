/-
Helper lemmas for C04 (graph level): the basic invariants of the DFS relation `Run`
(completed nodes are canonical, pairwise distinct and visited; go_to rows point at visited nodes and
never stand before the block of their target; what a call adds to the completed list).
-/
import Rpft.Lemmas.ExportGraphRun
set_option linter.unusedSimpArgs false
set_option linter.unusedVariables false
set_option linter.unusedSectionVars false
namespace Rpft.Export
open Function

variable {U : Type} [DecidableEq U]

/-- no `go_to` row stands before the block of its target -/
def GotoAfter : List (Item U) → Prop
  | [] => True
  | .goto _ c _ :: rest => c.uuid ∉ blockUuids rest ∧ GotoAfter rest
  | .block _ _ :: rest => GotoAfter rest

structure Inv (f : FlowX U) (vis : List U) (items : List (Item U)) : Prop where
  canonB : ∀ n es, Item.block n es ∈ items → Canon f n ∧ n.rows ≠ []
  canonG : ∀ k c e, Item.goto k c e ∈ items → Canon f c ∧ c.uuid ∈ vis
  nodup : (blockUuids items).Nodup
  sub : ∀ u ∈ blockUuids items, u ∈ vis
  gotoAfter : GotoAfter items

def TaskOk (f : FlowX U) (vis : List U) : Task U → Prop
  | .loop n _ => Canon f n ∧ n.uuid ∈ vis
  | .node n _ => Canon f n ∧ n.uuid ∉ vis

theorem inv_nil (f : FlowX U) : Inv f [] ([] : List (Item U)) :=
  { canonB := fun _ _ h => nomatch h
    canonG := fun _ _ _ h => nomatch h
    nodup := List.nodup_nil
    sub := fun _ h => nomatch h
    gotoAfter := trivial }

theorem mem_goto_map_prepend {cu : U} {e : EdgeT U} {items : List (Item U)} {k : Nat} {c : NodeX U} {e' : EdgeT U} :
    Item.goto k c e' ∈ items.map (prependItem cu e) ↔ Item.goto k c e' ∈ items := by
  constructor
  · intro h
    obtain ⟨it, hit, he⟩ := List.mem_map.1 h
    cases it with
    | goto k2 c2 e2 => simp only [prependItem] at he; rw [← he]; exact hit
    | block m es0 => simp only [prependItem] at he; split at he <;> cases he
  · intro h
    exact List.mem_map.2 ⟨_, h, rfl⟩

theorem gotoAfter_map_prepend (cu : U) (e : EdgeT U) (items : List (Item U)) (h : GotoAfter items) :
    GotoAfter (items.map (prependItem cu e)) := by
  induction items with
  | nil => trivial
  | cons it items ih =>
    cases it with
    | goto k c e' =>
      simp only [List.map_cons, prependItem, GotoAfter, blockUuids_map_prepend] at h ⊢
      exact ⟨h.1, ih h.2⟩
    | block n es =>
      simp only [List.map_cons, prependItem, GotoAfter] at h ⊢
      split <;> exact ih h

theorem blockNodes_cons_block (n : NodeX U) (es : List (EdgeT U)) (items : List (Item U)) :
    blockNodes (.block n es :: items) = n :: blockNodes items := by
  simp [blockNodes, List.filterMap_cons, Item.blockNode?]

theorem blockNodes_cons_goto (k : Nat) (c : NodeX U) (e : EdgeT U) (items : List (Item U)) :
    blockNodes (.goto k c e :: items) = blockNodes items := by
  simp [blockNodes, List.filterMap_cons, Item.blockNode?]

theorem mem_blockNodes {items : List (Item U)} {n : NodeX U} :
    n ∈ blockNodes items ↔ ∃ es, Item.block n es ∈ items := by
  simp only [blockNodes, List.mem_filterMap]
  constructor
  · rintro ⟨it, hit, he⟩
    cases it with
    | goto k c e => simp [Item.blockNode?] at he
    | block m es => simp only [Item.blockNode?, Option.some.injEq] at he; subst he; exact ⟨es, hit⟩
  · rintro ⟨es, h⟩
    exact ⟨_, h, rfl⟩

/-- what a call does to the completed list and the visited set -/
structure Delta (vis : List U) (items : List (Item U)) (vis' : List U) (items' : List (Item U))
    (newN : List (NodeX U)) : Prop where
  nodes : blockNodes items' = newN ++ blockNodes items
  fresh : ∀ m ∈ newN, m.uuid ∉ vis
  mono : ∀ u ∈ vis, u ∈ vis'
  visited : ∀ u ∈ vis', u ∈ vis ∨ ∃ m ∈ newN, m.uuid = u

theorem Delta.unique {vis vis' : List U} {items items' : List (Item U)} {a b : List (NodeX U)}
    (ha : Delta vis items vis' items' a) (hb : blockNodes items' = b ++ blockNodes items) : a = b :=
  List.append_cancel_right (ha.nodes.symm.trans hb)

theorem Inv.prepend {f : FlowX U} {vis : List U} {items : List (Item U)} (hi : Inv f vis items) (cu : U) (e : EdgeT U) :
    Inv f vis (items.map (prependItem cu e)) := by
  refine ⟨?_, ?_, ?_, ?_, ?_⟩
  · intro m es hm
    obtain ⟨es0, h0⟩ := mem_map_prepend hm
    exact hi.canonB m es0 h0
  · intro k c' e' hm
    exact hi.canonG k c' e' (mem_goto_map_prepend.1 hm)
  · rw [blockUuids_map_prepend]; exact hi.nodup
  · rw [blockUuids_map_prepend]; exact hi.sub
  · exact gotoAfter_map_prepend _ _ _ hi.gotoAfter

theorem Inv.pushGoto {f : FlowX U} {vis : List U} {items : List (Item U)} (hi : Inv f vis items) (k : Nat)
    {c : NodeX U} (e : EdgeT U) (hcc : Canon f c) (hc : c.uuid ∉ blockUuids items) (hv : c.uuid ∈ vis) :
    Inv f vis (.goto k c e :: items) := by
  refine ⟨?_, ?_, ?_, ?_, ?_⟩
  · intro m es hm
    cases hm with
    | tail _ hm => exact hi.canonB m es hm
  · intro k' c' e' hm
    cases hm with
    | head => exact ⟨hcc, hv⟩
    | tail _ hm => exact hi.canonG k' c' e' hm
  · simpa [blockUuids, blockNodes_cons_goto] using hi.nodup
  · simpa [blockUuids, blockNodes_cons_goto] using hi.sub
  · exact ⟨hc, hi.gotoAfter⟩

theorem Inv.visit {f : FlowX U} {vis : List U} {items : List (Item U)} (hi : Inv f vis items) (u : U) :
    Inv f (u :: vis) items :=
  ⟨hi.canonB, fun k c e hm => ⟨(hi.canonG k c e hm).1, List.mem_cons_of_mem _ (hi.canonG k c e hm).2⟩,
    hi.nodup, fun u hu => List.mem_cons_of_mem _ (hi.sub u hu), hi.gotoAfter⟩

theorem run_inv (f : FlowX U) (D : List (Item U) → NodeX U → NodeX U → Label → Prop)
    {task : Task U} {vis : List U} {items : List (Item U)} {vis' : List U} {items' : List (Item U)}
    (h : Run f D task vis items vis' items') :
    Inv f vis items → TaskOk f vis task → Inv f vis' items' ∧ ∃ newN, Delta vis items vis' items' newN := by
  induction h with
  | nil =>
    intro hi _
    exact ⟨hi, [], ⟨rfl, by simp, fun u hu => hu, fun u hu => Or.inl hu⟩⟩
  | skip _ ih =>
    intro hi ht
    exact ih hi ht
  | @done n lab d es c vis items vis' items' hfn hc hD _ ih =>
    intro hi ht
    have hi1 : Inv f vis (items.map (prependItem c.uuid ⟨some (lastId n), lab⟩)) := by
      refine ⟨?_, ?_, ?_, ?_, ?_⟩
      · intro m es hm
        obtain ⟨es0, h0⟩ := mem_map_prepend hm
        exact hi.canonB m es0 h0
      · intro k c' e' hm
        exact hi.canonG k c' e' (mem_goto_map_prepend.1 hm)
      · rw [blockUuids_map_prepend]; exact hi.nodup
      · rw [blockUuids_map_prepend]; exact hi.sub
      · exact gotoAfter_map_prepend _ _ _ hi.gotoAfter
    obtain ⟨hi', newN, hd⟩ := ih hi1 ht
    refine ⟨hi', newN, ⟨?_, hd.fresh, hd.mono, hd.visited⟩⟩
    rw [hd.nodes, blockNodes_map_prepend]
  | @back n lab d es c k vis items vis' items' hfn hc hv _ ih =>
    intro hi ht
    have hi1 : Inv f vis (.goto k c ⟨some (lastId n), lab⟩ :: items) := by
      refine ⟨?_, ?_, ?_, ?_, ?_⟩
      · intro m es hm
        cases hm with
        | tail _ hm => exact hi.canonB m es hm
      · intro k' c' e' hm
        cases hm with
        | head => exact ⟨findNode_canon hfn, hv⟩
        | tail _ hm => exact hi.canonG k' c' e' hm
      · simpa [blockUuids, blockNodes_cons_goto] using hi.nodup
      · simpa [blockUuids, blockNodes_cons_goto] using hi.sub
      · exact ⟨hc, hi.gotoAfter⟩
    obtain ⟨hi', newN, hd⟩ := ih hi1 ht
    refine ⟨hi', newN, ⟨?_, hd.fresh, hd.mono, hd.visited⟩⟩
    rw [hd.nodes, blockNodes_cons_goto]
  | @new n lab d es c vis items vis1 items1 vis' items' hfn hc hv _ _ ih1 ih2 =>
    intro hi ht
    obtain ⟨hi1, new1, hd1⟩ := ih1 hi ⟨findNode_canon hfn, hv⟩
    obtain ⟨hi', new2, hd2⟩ := ih2 hi1 ⟨ht.1, hd1.mono _ ht.2⟩
    refine ⟨hi', new2 ++ new1, ⟨?_, ?_, ?_, ?_⟩⟩
    · rw [hd2.nodes, hd1.nodes, List.append_assoc]
    · intro m hm
      rcases List.mem_append.1 hm with hm | hm
      · exact fun hv' => hd2.fresh m hm (hd1.mono _ hv')
      · exact hd1.fresh m hm
    · exact fun u hu => hd2.mono u (hd1.mono u hu)
    · intro u hu
      rcases hd2.visited u hu with h1 | ⟨m, hm, e⟩
      · rcases hd1.visited u h1 with h0 | ⟨m, hm, e⟩
        · exact Or.inl h0
        · exact Or.inr ⟨m, List.mem_append_right _ hm, e⟩
      · exact Or.inr ⟨m, List.mem_append_left _ hm, e⟩
  | @node n pe vis items vis' items' hr _ ih =>
    intro hi ht
    have hi1 : Inv f (n.uuid :: vis) items :=
      ⟨hi.canonB, fun k c e hm => ⟨(hi.canonG k c e hm).1, List.mem_cons_of_mem _ (hi.canonG k c e hm).2⟩,
        hi.nodup, fun u hu => List.mem_cons_of_mem _ (hi.sub u hu), hi.gotoAfter⟩
    obtain ⟨hi', new2, hd2⟩ := ih hi1 ⟨ht.1, List.mem_cons_self ..⟩
    have hnot : n.uuid ∉ blockUuids items' := by
      intro hm
      simp only [blockUuids, hd2.nodes, List.map_append, List.mem_append] at hm
      rcases hm with hm | hm
      · obtain ⟨m, hm, e⟩ := List.mem_map.1 hm
        exact hd2.fresh m hm (e ▸ List.mem_cons_self ..)
      · exact ht.2 (hi.sub _ hm)
    refine ⟨⟨?_, ?_, ?_, ?_, ?_⟩, n :: new2, ⟨?_, ?_, ?_, ?_⟩⟩
    · intro m es hm
      cases hm with
      | head => exact ⟨ht.1, hr⟩
      | tail _ hm => exact hi'.canonB m es hm
    · intro k c e hm
      cases hm with
      | tail _ hm => exact hi'.canonG k c e hm
    · simp only [blockUuids, blockNodes_cons_block, List.map_cons, List.nodup_cons]
      exact ⟨hnot, hi'.nodup⟩
    · intro u hu
      simp only [blockUuids, blockNodes_cons_block, List.map_cons, List.mem_cons] at hu
      rcases hu with hu | hu
      · subst hu; exact hd2.mono _ (List.mem_cons_self ..)
      · exact hi'.sub u hu
    · exact hi'.gotoAfter
    · rw [blockNodes_cons_block, hd2.nodes]; rfl
    · intro m hm
      rcases List.mem_cons.1 hm with hm | hm
      · subst hm; exact ht.2
      · exact fun hv => hd2.fresh m hm (List.mem_cons_of_mem _ hv)
    · exact fun u hu => hd2.mono u (List.mem_cons_of_mem _ hu)
    · intro u hu
      rcases hd2.visited u hu with h1 | ⟨m, hm, e⟩
      · rcases List.mem_cons.1 h1 with h1 | h1
        · exact Or.inr ⟨n, List.mem_cons_self .., h1.symm⟩
        · exact Or.inl h1
      · exact Or.inr ⟨m, List.mem_cons_of_mem _ hm, e⟩

end Rpft.Export
