/-
Helper lemmas for the data-sheet operations (C11).  Property theorems: `Rpft/Props/C11.lean`.
-/
import Rpft.DataOps
import Rpft.Lemmas.Dict
set_option linter.unusedSimpArgs false
set_option linter.unusedVariables false
namespace Rpft.DataOps
open Rpft

/-! ### the key order is a total preorder -/

theorem strLe_total : ∀ (a b : Str), strLe a b = true ∨ strLe b a = true
  | [], _ => by simp [strLe]
  | _ :: _, [] => by simp [strLe]
  | a :: as, b :: bs => by
    simp only [strLe]
    by_cases h1 : a.toNat < b.toNat
    · simp [h1]
    · by_cases h2 : b.toNat < a.toNat
      · simp [h1, h2]
      · simp [h1, h2, strLe_total as bs]

theorem strLe_trans : ∀ (a b c : Str), strLe a b = true → strLe b c = true → strLe a c = true
  | [], _, _ => by simp [strLe]
  | _ :: _, [], _ => by simp [strLe]
  | _ :: _, _ :: _, [] => by simp [strLe]
  | a :: as, b :: bs, c :: cs => by
    simp only [strLe]
    intro h1 h2
    by_cases ab : a.toNat < b.toNat
    · by_cases bc : b.toNat < c.toNat
      · have : a.toNat < c.toNat := by omega
        simp [this]
      · by_cases cb : c.toNat < b.toNat
        · simp [bc, cb] at h2
        · have : a.toNat < c.toNat := by omega
          simp [this]
    · by_cases ba : b.toNat < a.toNat
      · simp [ab, ba] at h1
      · simp only [ab, ba, if_false] at h1
        by_cases bc : b.toNat < c.toNat
        · have : a.toNat < c.toNat := by omega
          simp [this]
        · by_cases cb : c.toNat < b.toNat
          · simp [bc, cb] at h2
          · simp only [bc, cb, if_false] at h2
            have e1 : ¬ a.toNat < c.toNat := by omega
            have e2 : ¬ c.toNat < a.toNat := by omega
            simp only [e1, e2, if_false]
            exact strLe_trans as bs cs h1 h2

theorem strLe_refl (a : Str) : strLe a a = true := by
  rcases strLe_total a a with h | h <;> exact h

theorem Key.le_total (a b : Key) : (a.le b || b.le a) = true := by
  cases a <;> cases b <;> simp [Key.le]
  · omega
  · rename_i x y
    exact strLe_total x y

theorem Key.le_trans (a b c : Key) : a.le b = true → b.le c = true → a.le c = true := by
  cases a <;> cases b <;> cases c <;> simp [Key.le]
  · omega
  · rename_i x y z
    exact strLe_trans x y z

theorem Key.le_refl (a : Key) : a.le a = true := by
  have := Key.le_total a a
  simpa using this

theorem sortLe_total (k : Payload → Key) (desc : Bool) (a b : Row) :
    (sortLe k desc a b || sortLe k desc b a) = true := by
  cases desc <;> simp only [sortLe, if_true, if_false, Bool.false_eq_true]
  · exact Key.le_total _ _
  · rw [Bool.or_comm]; exact Key.le_total _ _

theorem sortLe_trans (k : Payload → Key) (desc : Bool) (a b c : Row) :
    sortLe k desc a b = true → sortLe k desc b c = true → sortLe k desc a c = true := by
  cases desc <;> simp only [sortLe, if_true, if_false, Bool.false_eq_true]
  · exact Key.le_trans _ _ _
  · intro h1 h2; exact Key.le_trans _ _ _ h2 h1

/-! ### concat -/

theorem foldl_update_eq (d : Sheet) (ss : List Sheet) :
    ss.foldl Dict.update d = Dict.update d ss.flatten := by
  induction ss generalizing d with
  | nil => rfl
  | cons s ss ih => simp [ih, Dict.update_append]

theorem concatSheets_eq (ss : List Sheet) : concatSheets ss = Dict.ofList ss.flatten := by
  simp [concatSheets, foldl_update_eq, Dict.ofList]

/-! ### filter -/

theorem filter_foldl (p : Payload → FKey) (s acc : Sheet)
    (hs : (Dict.keys s).Nodup) (hd : ∀ k ∈ Dict.keys s, k ∉ Dict.keys acc) :
    s.foldl (fun acc r => if p r.2 = .isTrue then Dict.set acc r.1 r.2 else acc) acc
      = acc ++ s.filter (fun r => p r.2 = .isTrue) := by
  induction s generalizing acc with
  | nil => simp
  | cons r s ih =>
    obtain ⟨i, v⟩ := r
    simp only [Dict.keys, List.map_cons, List.nodup_cons] at hs
    simp only [List.foldl_cons, List.filter_cons]
    by_cases hp : p v = .isTrue
    · simp only [hp, if_true, decide_true]
      rw [Dict.set_of_not_mem (hd i (by simp [Dict.keys]))]
      rw [ih _ hs.2]
      · simp
      · intro k hk
        simp only [Dict.keys, List.map_append, List.map_cons, List.map_nil, List.mem_append,
          List.mem_singleton, not_or]
        refine ⟨?_, fun e => hs.1 (e ▸ hk)⟩
        have := hd k (by simp only [Dict.keys, List.map_cons, List.mem_cons]; exact Or.inr hk)
        simpa [Dict.keys] using this
    · simp only [hp, if_false, decide_false, Bool.false_eq_true]
      apply ih _ hs.2
      intro k hk
      exact hd k (by simp only [Dict.keys, List.map_cons, List.mem_cons]; exact Or.inr hk)

theorem nodup_filter_foldl (p : Payload → FKey) (s acc : Sheet) (ha : (Dict.keys acc).Nodup) :
    (Dict.keys (s.foldl (fun acc r => if p r.2 = .isTrue then Dict.set acc r.1 r.2 else acc)
      acc)).Nodup := by
  induction s generalizing acc with
  | nil => exact ha
  | cons r s ih =>
    simp only [List.foldl_cons]
    split
    · exact ih _ (Dict.nodup_set ha _ _)
    · exact ih _ ha

/-! ### sort -/

theorem keys_perm {a b : Sheet} (h : a.Perm b) : (Dict.keys a).Perm (Dict.keys b) :=
  h.map _

theorem sortSheet_eq (k : Payload → Key) (desc : Bool) (s : Sheet) (hs : (Dict.keys s).Nodup) :
    sortSheet k desc s = s.mergeSort (sortLe k desc) := by
  unfold sortSheet
  apply Dict.ofList_of_nodup
  exact (keys_perm (List.mergeSort_perm s _)).nodup_iff.mpr hs

/-- stability in its usual form: the rows with a given key value appear in input order -/
theorem mergeSort_filter_eq {α : Type} (le : α → α → Bool)
    (trans : ∀ a b c, le a b = true → le b c = true → le a c = true)
    (total : ∀ a b, (le a b || le b a) = true)
    (q : α → Bool) (hq : ∀ a b, q a = true → q b = true → le a b = true) (l : List α) :
    (l.mergeSort le).filter q = l.filter q := by
  have hsub : List.Sublist (l.filter q) (l.mergeSort le) := by
    apply List.sublist_mergeSort trans total
    · rw [List.pairwise_iff_forall_sublist]
      intro a b hab
      have ha : a ∈ l.filter q := hab.subset (by simp)
      have hb : b ∈ l.filter q := hab.subset (by simp)
      exact hq a b (List.mem_filter.mp ha).2 (List.mem_filter.mp hb).2
    · exact List.filter_sublist
  have h2 : List.Sublist ((l.filter q).filter q) ((l.mergeSort le).filter q) := hsub.filter q
  rw [List.filter_filter] at h2
  simp only [Bool.and_self] at h2
  have hlen : ((l.mergeSort le).filter q).length = (l.filter q).length :=
    ((List.mergeSort_perm l le).filter q).length_eq
  exact (h2.eq_of_length hlen.symm).symm

/-! ### state -/

theorem runOps_append (env : Env) (st : St) (a b : List Op) :
    runOps env st (a ++ b) = (runOps env st a).bind (fun st' => runOps env st' b) := by
  induction a generalizing st with
  | nil => rfl
  | cons op a ih =>
    simp only [List.cons_append, runOps]
    cases processDataSheet env st op with
    | error e => rfl
    | ok st' => exact ih st'

end Rpft.DataOps
