/-
Open mode: the extra first child the special block has on the right — the begin row of the twin
block kept as a `no_op` group — is inert as long as its parents are row groups without loose exit:
`has_loose_exits` answers no, `connect_loose_exits` changes nothing (group-level facts of
`Lemmas/CompileConnect.lean`).
-/
import Rpft.Lemmas.CompileInsertSim
import Rpft.Lemmas.CompileConnect
set_option linter.unusedSimpArgs false
set_option linter.unusedVariables false
namespace Rpft.Compile
open Rpft Function

/-- every node reached from an inert group exists and has no loose exit -/
theorem inert_reach {gx : Nat} {s : St} (hi : Inert gx s) {i : Nat} (r : Reach s.groups gx i) :
    ∃ n, s.nodes[i]? = some n ∧ n.hasLoose = false := by
  obtain ⟨ps, hgx, hps⟩ := hi
  cases r with
  | row h1 => rw [hgx] at h1; cases h1
  | router h1 => rw [hgx] at h1; cases h1
  | child h1 => rw [hgx] at h1; cases h1
  | parent h1 hp r' =>
    rw [hgx] at h1; injection h1 with h1; injection h1 with h1 _; subst h1
    obtain ⟨nodes, t, hgp, hn⟩ := hps _ hp
    cases r' with
    | row h2 h3 =>
      rw [hgp] at h2; injection h2 with h2; injection h2 with h2 _; subst h2
      obtain ⟨n, hn1, hn2⟩ := hn i (List.mem_of_getLast? h3)
      exact ⟨n, hn1, hn2.1⟩
    | router h2 => rw [hgp] at h2; cases h2
    | parent h2 => rw [hgp] at h2; cases h2
    | child h2 => rw [hgp] at h2; cases h2

/-- `has_loose_exits` of an inert group: no -/
theorem inert_hasLoose {gx : Nat} {s : St} (hi : Inert gx s) (f : Nat) :
    wp (hasLoose f gx) s (fun b s' => s' = s ∧ b = false) := by
  refine wp_mono (hasLoose_spec f gx s) ?_
  intro b s' ⟨e, ans⟩
  refine ⟨e, ?_⟩
  cases b with
  | false => rfl
  | true =>
    obtain ⟨i, n, r, hn, hl⟩ := ans.2 rfl
    obtain ⟨n', hn', hl'⟩ := inert_reach hi r
    rw [hn] at hn'; injection hn' with hn'; subst hn'
    rw [hl] at hl'; cases hl'

theorem eq_of_conn_none {d : Dest} {T : Nat → Prop} {s s' : St} (c : Conn d T s s')
    (h : ∀ i n, T i → s.nodes[i]? = some n → n.hasLoose = false) : s' = s := by
  obtain ⟨⟨e, z⟩, hc⟩ := c
  have hn : s'.nodes = s.nodes := by
    apply Array.ext z
    intro i h1 h2
    have hs : s.nodes[i]? = some s.nodes[i] := Array.getElem?_eq_getElem h2
    have : s'.nodes[i]? = some s.nodes[i] := by
      by_cases t : T i
      · have := (hc i _ hs).1 t
        rw [connectLoose_of_not_loose _ d (h i _ t hs)] at this; exact this
      · exact (hc i _ hs).2 t
    rw [Array.getElem?_eq_getElem h1] at this
    injection this
  rw [e, hn]

/-- `connect_loose_exits` of an inert group changes nothing -/
theorem inert_connectLoose {gx : Nat} {s : St} (hi : Inert gx s) (f : Nat) (d : Dest) :
    wp (connectLoose f gx d) s (fun _ s' => s' = s) := by
  refine wp_mono (connectLoose_conn d f gx s) ?_
  intro _ s' c
  refine eq_of_conn_none c ?_
  intro i n r hn
  obtain ⟨n', hn', hl'⟩ := inert_reach hi r
  rw [hn] at hn'; injection hn' with hn'; subst hn'; exact hl'

theorem inert_connectIfLoose {gx : Nat} {s : St} (hi : Inert gx s) (f : Nat) (d : Dest) :
    wp (connectIfLoose f d gx) s (fun _ s' => s' = s) := by
  unfold connectIfLoose
  rw [wp_bind]
  refine wp_mono (inert_hasLoose hi f) ?_
  intro b s' ⟨e, hb⟩
  subst e; subst hb
  simp only [Bool.false_eq_true, if_false]
  rw [wp_pure]

/-- a computation on the right that is known to change nothing and to answer `c` can be skipped -/
theorem rwp_skip_right {α β γ : Type} {m₁ : M α} {m : M γ} {k : γ → M β} {s₁ s₂ : St}
    {Q : α → St → β → St → Prop} {c : γ} (hm : wp m s₂ (fun b s' => s' = s₂ ∧ b = c))
    (h : rwp m₁ (k c) s₁ s₂ Q) : rwp m₁ (m >>= k) s₁ s₂ Q := by
  intro a t₁ b t₂ h1 h2
  obtain ⟨c', u, h3, h4⟩ := run_bind_ok h2
  obtain ⟨rfl, rfl⟩ := wp_of_run hm h3
  exact h a t₁ b t₂ h1 h4

end Rpft.Compile
