/-
Helper definitions and lemmas for Props/C09.lean: the flow schema's context remap, the
indexed edge headers, `Unambiguous`, the observable of `parse_row`.
-/
import Rpft.Lemmas.RowStar
import Rpft.Lemmas.RowPos
import Rpft.Lemmas.RowPerm
import Rpft.Lemmas.RowLeaf
import Rpft.FlowSchema
set_option linter.unusedSimpArgs false
set_option linter.unusedVariables false
namespace Rpft.Row
open Rpft

def msgHdr : Str := "message_text".toList
def typeCol : Str := "type".toList


theorem flow_main : flowRowSchema.ctxMain = some (msgHdr, typeCol, flowMainArg) := rfl
theorem flow_basic : flowRowSchema.ctxBasic = flowBasicHeaders := rfl

theorem flow_ctx (d₁ d₂ : List (Str × Str)) (h : alookup typeCol d₁ = alookup typeCol d₂) (k : Str) :
    ctxRemap flowRowSchema d₁ k = ctxRemap flowRowSchema d₂ k := by
  apply ctxRemap_ctx_congr
  intro hd tcol tb hm
  rw [flow_main] at hm
  simp only [Option.some.injEq, Prod.mk.injEq] at hm
  rw [← hm.2.1]
  exact h

theorem flow_id (d : List (Str × Str)) (k : Str) (h1 : alookup k flowBasicHeaders = none)
    (h2 : k ≠ msgHdr) : ctxRemap flowRowSchema d k = .ok k := by
  apply ctxRemap_id _ _ _ h1
  intro hd tc tb hm
  rw [flow_main] at hm
  simp only [Option.some.injEq, Prod.mk.injEq] at hm
  rw [← hm.1]
  exact h2


def edgesS : Str := "edges".toList

/-- the header `edges.k.b` -/
def idxKey (k : Nat) (b : Str) : Str := edgesS ++ '.' :: (printNat k ++ '.' :: b)

/-- the sub-headers of an edge reachable through the short headers -/
def edgeLeaves : List Str :=
  ["from_".toList, "condition.value".toList, "condition.variable".toList, "condition.type".toList,
   "condition.name".toList]


theorem replace1_no_occ (c : Char) (r : Str) : ∀ (s : Str), c ∉ s → replace1 c r s = s
  | [], _ => rfl
  | x :: s, h => by
    have hx : x ≠ c := fun e => h (by simp [e])
    have ih := replace1_no_occ c r s (fun hm => h (List.mem_cons_of_mem _ hm))
    simp only [replace1, List.flatMap_cons, hx, if_false] at ih ⊢
    rw [ih]; rfl

/-- replacing `*` by the index in `edges.*.b` -/
theorem star_key (k : Nat) (b : Str) (hb : b ∈ edgeLeaves) :
    replace1 '*' (printNat k) ("edges.*.".toList ++ b) = idxKey k b := by
  have hnb : '*' ∉ b := by
    simp only [edgeLeaves, List.mem_cons, List.not_mem_nil, or_false] at hb
    rcases hb with rfl | rfl | rfl | rfl | rfl <;> decide
  have h1 : ("edges.*.".toList ++ b) = "edges.".toList ++ ('*' :: ('.' :: b)) := rfl
  rw [h1, Cell.replace1_append, replace1_no_occ _ _ "edges.".toList (by decide)]
  have h2 := replace1_no_occ '*' (printNat k) ('.' :: b) (by
    intro hm
    simp only [List.mem_cons] at hm
    rcases hm with h | h
    · exact absurd h (by decide)
    · exact hnb h)
  have h3 : replace1 '*' (printNat k) ('*' :: '.' :: b) =
      printNat k ++ replace1 '*' (printNat k) ('.' :: b) := by
    simp [replace1, List.flatMap_cons]
  rw [h3, h2]
  simp [idxKey, edgesS]


/-- `Unambiguous`: the positional cell is not a pair whose first value is (after
header→field remap; none here) the name of a field of the record — the case in which
`assign_value` prefers the keyword reading (finding F-C09-a).  Entries of a positional
cell of basic values are plain strings, so the entry-level rule cannot fire. -/
def Unambiguous (sfs : List Field) (texts : List Str) : Bool :=
  match texts with
  | [k, _] => (fieldLookup k sfs).isNone
  | _ => true

theorem alookup_fieldAssigners_none : ∀ (sfs : List Field) (k : Str),
    fieldLookup k sfs = none → alookup k (fieldAssigners sfs) = none
  | [], _, _ => rfl
  | (n, t, d) :: rest, k, h => by
    simp only [fieldLookup] at h
    simp only [fieldAssigners, alookup]
    split at h
    · simp at h
    · rename_i hne
      simp [hne, alookup_fieldAssigners_none rest k h]

theorem tryKwarg_of_unambiguous (sfs : List Field) (pm : List SPair)
    (h : Unambiguous sfs (pm.map fun p => printBasic p.2) = true) :
    tryKwarg (fieldAssigners sfs) [] (.list (pm.map posEntry)) = none := by
  match pm, h with
  | [], _ => simp [tryKwarg]
  | [p], _ => simp [tryKwarg]
  | [p, q], h =>
    simp only [List.map_cons, List.map_nil, Unambiguous, Option.isNone_iff_eq_none] at h
    simp [tryKwarg, posEntry, remap_nil, alookup_fieldAssigners_none sfs _ h]
  | p :: q :: r :: rest, _ => simp [tryKwarg]


/-- the row value, or nothing when the code raises (exception classes are not compared) -/
def toOpt : Except Err Val → Option Val
  | .ok v => some v
  | .error _ => none

theorem parseRow_obs (sch : Schema) (data : List (Str × Str)) (es : List (Str × ColVal))
    (h : rowEntries sch data = .ok es) : toOpt (parseRow sch data) = parseEntries sch.top es := by
  simp only [parseRow, h, parseEntries]
  cases buildTree sch.top es with
  | error e => rfl
  | ok t => simp only; cases finish sch.top t <;> rfl


end Rpft.Row
