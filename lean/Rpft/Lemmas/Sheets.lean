/-
Helper lemmas for C14 (sheet readers).  Core Lean only.
-/
import Rpft.Sheets
set_option linter.unusedSimpArgs false
set_option linter.unusedVariables false
namespace Rpft.Sheets
open Rpft

/-! ### Dataset bookkeeping -/

theorem width_of_uniform {α β : Type} (hs : List α) (n : Nat) (hn : hs.length = n)
    (acc : List (List β)) (hacc : ∀ r ∈ acc, r.length = n) : width hs acc = n := by
  cases acc with
  | nil => simpa [width] using hn
  | cons a t => simpa [width] using hacc a (by simp)

theorem validRow_of_uniform {α β : Type} (hs : List α) (n : Nat) (hn : hs.length = n)
    (acc : List (List β)) (hacc : ∀ r ∈ acc, r.length = n) (r : List β) (hr : r.length = n) :
    validRow hs acc r = true := by
  unfold validRow
  rw [width_of_uniform hs n hn acc hacc]
  split
  · simp only [List.all_eq_true, beq_iff_eq]
    intro x hx; exact hacc x hx
  · simp [hr]

/-- rows of the right length are appended unchanged, in order -/
theorem appendAll_ok {α β : Type} (hs : List α) (n : Nat) (hn : hs.length = n) :
    ∀ (rows acc : List (List β)), (∀ r ∈ rows, r.length = n) → (∀ r ∈ acc, r.length = n) →
      appendAll hs rows acc = .ok (acc ++ rows) := by
  intro rows
  induction rows with
  | nil => intro acc _ _; simp [appendAll]
  | cons r rs ih =>
    intro acc hrows hacc
    have hr : r.length = n := hrows r (by simp)
    simp only [appendAll, validRow_of_uniform hs n hn acc hacc r hr, if_true]
    rw [ih (acc ++ [r]) (fun x hx => hrows x (by simp [hx]))
      (by intro x hx; simp only [List.mem_append, List.mem_singleton] at hx
          rcases hx with hx | hx
          · exact hacc x hx
          · exact hx ▸ hr)]
    simp

/-! ### ordered dicts -/

theorem odInsert_fresh (k v : Str) : ∀ (d : List (Str × Str)), k ∉ d.map Prod.fst →
    odInsert k v d = d ++ [(k, v)]
  | [], _ => rfl
  | (k', v') :: t, h => by
    simp only [List.map_cons, List.mem_cons, not_or] at h
    have hne : ¬ k' = k := fun e => h.1 e.symm
    simp [odInsert, hne, odInsert_fresh k v t h.2]

theorem foldl_odInsert_nodup : ∀ (ps d : List (Str × Str)),
    ((d ++ ps).map Prod.fst).Nodup →
    ps.foldl (fun d kv => odInsert kv.1 kv.2 d) d = d ++ ps
  | [], d, _ => by simp
  | (k, v) :: ps, d, h => by
    have hk : k ∉ d.map Prod.fst := by
      intro hm
      simp only [List.map_append, List.map_cons] at h
      have := (List.nodup_append.mp h).2.2 k hm k (by simp)
      exact this rfl
    simp only [List.foldl_cons]
    rw [odInsert_fresh k v d hk, foldl_odInsert_nodup ps (d ++ [(k, v)]) (by simpa using h)]
    simp

/-- `dict(pairs)` keeps the pairs as they are when the keys are distinct -/
theorem odOfPairs_nodup (ps : List (Str × Str)) (h : (ps.map Prod.fst).Nodup) :
    odOfPairs ps = ps := by
  unfold odOfPairs
  rw [foldl_odInsert_nodup ps [] (by simpa using h)]
  simp

/-! ### XLSX -/

theorem cellStr_toXCell (c : Str) : cellStr (toXCell c) = c := by
  unfold toXCell
  cases c with
  | nil => simp [cellStr]
  | cons a t => simp [cellStr]

theorem map_cellStr_toXCell (r : List Str) : (r.map toXCell).map cellStr = r := by
  induction r with
  | nil => rfl
  | cons a t ih => simp only [List.map_cons, cellStr_toXCell, ih]

theorem map_cellStr_str (r : List Str) : (r.map XVal.str).map cellStr = r := by
  induction r with
  | nil => rfl
  | cons a t ih => simp only [List.map_cons, cellStr, ih]

/-- rows that (after `str()`) have the header count and a non-empty cell pass through the row
loop of `_sanitize` unchanged -/
theorem sanitizeRows_ok (hs : List (Option Str)) :
    ∀ (xrows : List (List XVal)) (acc : List (List Str)),
      (∀ r ∈ xrows, (r.map cellStr).length = hs.length ∧
        (r.map cellStr).any (fun c => !c.isEmpty) = true) →
      (∀ r ∈ acc, r.length = hs.length) →
      sanitizeRows hs xrows acc = .ok (acc ++ xrows.map (fun r => r.map cellStr)) := by
  intro xrows
  induction xrows with
  | nil => intro acc _ _; simp [sanitizeRows]
  | cons r rs ih =>
    intro acc hrows hacc
    obtain ⟨hlen, hany⟩ := hrows r (by simp)
    have htake : (r.map cellStr).take hs.length = r.map cellStr := by
      rw [← hlen]; exact List.take_length
    have hv := validRow_of_uniform hs hs.length rfl acc hacc (r.map cellStr) hlen
    simp only [sanitizeRows, htake, hany, hv, if_true]
    rw [ih (acc ++ [r.map cellStr]) (fun x hx => hrows x (by simp [hx]))
      (by intro x hx; simp only [List.mem_append, List.mem_singleton] at hx
          rcases hx with hx | hx
          · exact hacc x hx
          · exact hx ▸ hlen)]
    simp

/-- what the row loop of `_sanitize` lets through: header-count many cells, one non-empty -/
theorem sanitizeRows_inv (hs : List (Option Str)) (hne : hs ≠ []) :
    ∀ (xrows : List (List XVal)) (acc out : List (List Str)),
      sanitizeRows hs xrows acc = .ok out →
      (∀ r ∈ acc, r.length = hs.length ∧ r.any (fun c => !c.isEmpty) = true) →
      (∀ r ∈ out, r.length = hs.length ∧ r.any (fun c => !c.isEmpty) = true) := by
  intro xrows
  induction xrows with
  | nil =>
    intro acc out h hacc
    simp only [sanitizeRows, Except.ok.injEq] at h
    exact h ▸ hacc
  | cons r rs ih =>
    intro acc out h hacc
    simp only [sanitizeRows] at h
    split at h
    · rename_i hany
      split at h
      · rename_i hv
        refine ih _ _ h ?_
        intro x hx
        simp only [List.mem_append, List.mem_singleton] at hx
        rcases hx with hx | hx
        · exact hacc x hx
        · subst hx
          refine ⟨?_, hany⟩
          -- the row is non-empty, and the Dataset's width is the header count
          have hw : width hs acc = hs.length :=
            width_of_uniform hs hs.length rfl acc (fun y hy => (hacc y hy).1)
          have hpos : hs.length ≠ 0 := by
            intro h0; exact hne (List.eq_nil_of_length_eq_zero h0)
          have hnonempty : (List.take hs.length (List.map cellStr r)).isEmpty = false := by
            cases hcase : List.take hs.length (List.map cellStr r) with
            | nil => rw [hcase] at hany; simp at hany
            | cons a t => rfl
          unfold validRow at hv
          rw [hnonempty, hw] at hv
          simp only [Bool.false_eq_true, if_false, Bool.or_eq_true, beq_iff_eq] at hv
          rcases hv with hv | hv
          · exact absurd hv hpos
          · exact hv
      · cases h
    · exact ih _ _ h hacc

/-! ### `omit_empty_rows` -/

theorem omitEmptyRows_idem (rows : List (List Str)) :
    omitEmptyRows (omitEmptyRows rows) = omitEmptyRows rows := by
  simp [omitEmptyRows, List.filter_filter]

theorem omitEmptyRows_eq_self_iff (rows : List (List Str)) :
    omitEmptyRows rows = rows ↔ ∀ r ∈ rows, keepRow r = true := by
  unfold omitEmptyRows
  exact List.filter_eq_self

theorem omitEmptyRows_append (a b : List (List Str)) :
    omitEmptyRows (a ++ b) = omitEmptyRows a ++ omitEmptyRows b := by
  simp [omitEmptyRows]

theorem mem_omitEmptyRows {rows : List (List Str)} {r : List Str} :
    r ∈ omitEmptyRows rows ↔ r ∈ rows ∧ keepRow r = true := by
  simp [omitEmptyRows]

/-- rows that (after `str()`) have the header count go through the row loop of `_sanitize` as
through `omit_empty_rows`: the all-empty ones disappear, the others stay, in order -/
theorem sanitizeRows_filter (hs : List (Option Str)) :
    ∀ (xrows : List (List XVal)) (acc : List (List Str)),
      (∀ r ∈ xrows, (r.map cellStr).length = hs.length) →
      (∀ r ∈ acc, r.length = hs.length) →
      sanitizeRows hs xrows acc = .ok (acc ++ omitEmptyRows (xrows.map (fun r => r.map cellStr))) := by
  intro xrows
  induction xrows with
  | nil => intro acc _ _; simp [sanitizeRows, omitEmptyRows]
  | cons r rs ih =>
    intro acc hrows hacc
    have hlen := hrows r (by simp)
    have htake : (r.map cellStr).take hs.length = r.map cellStr := by
      rw [← hlen]; exact List.take_length
    have hv := validRow_of_uniform hs hs.length rfl acc hacc (r.map cellStr) hlen
    cases hk : keepRow (r.map cellStr) with
    | true =>
      have hany : (r.map cellStr).any (fun c => !c.isEmpty) = true := hk
      simp only [sanitizeRows, htake, hany, hv, if_true]
      rw [ih (acc ++ [r.map cellStr]) (fun x hx => hrows x (by simp [hx]))
        (by intro x hx; simp only [List.mem_append, List.mem_singleton] at hx
            rcases hx with hx | hx
            · exact hacc x hx
            · exact hx ▸ hlen)]
      simp [omitEmptyRows, hk]
    | false =>
      have hany : (r.map cellStr).any (fun c => !c.isEmpty) = false := hk
      simp only [sanitizeRows, htake, hany, Bool.false_eq_true, if_false]
      rw [ih acc (fun x hx => hrows x (by simp [hx])) hacc]
      simp [omitEmptyRows, hk]

/-- EVERY grid (ragged, any cell values): when the row loop of `_sanitize` succeeds, what it
returns is `omit_empty_rows` of the stringified rows cut to the header count -/
theorem sanitizeRows_eq_omit (hs : List (Option Str)) :
    ∀ (xrows : List (List XVal)) (acc out : List (List Str)),
      sanitizeRows hs xrows acc = .ok out →
      out = acc ++ omitEmptyRows (xrows.map (fun r => (r.map cellStr).take hs.length)) := by
  intro xrows
  induction xrows with
  | nil => intro acc out h; simp [sanitizeRows] at h; simp [omitEmptyRows, h]
  | cons r rs ih =>
    intro acc out h
    simp only [sanitizeRows] at h
    split at h
    · rename_i hany
      split at h
      · rw [ih _ _ h]
        have hk : keepRow (List.take hs.length (List.map cellStr r)) = true := hany
        simp [omitEmptyRows, hk]
      · cases h
    · rename_i hany
      rw [ih _ _ h]
      have hk : keepRow (List.take hs.length (List.map cellStr r)) = false := by
        simpa [keepRow] using hany
      simp [omitEmptyRows, hk]

theorem popTrailingNone_of_last_some (hs : List (Option Str)) (l : Option Str)
    (hl : hs.getLast? = some l) (hsome : l.isSome = true) : popTrailingNone hs = hs := by
  unfold popTrailingNone
  have : hs.reverse.head? = some l := by simpa [List.head?_reverse] using hl
  cases hr : hs.reverse with
  | nil => rw [hr] at this; simp at this
  | cons a t =>
    rw [hr] at this
    simp only [List.head?_cons, Option.some.injEq] at this
    subst this
    have hnot : (fun h : Option Str => h.isNone) a = false := by
      cases a with
      | none => simp at hsome
      | some x => rfl
    rw [List.dropWhile_cons_of_neg (by cases a <;> simp_all)]
    rw [← hr, List.reverse_reverse]

/-- after popping, the last header (if any) is not `None` -/
theorem popTrailingNone_last (hs : List (Option Str)) :
    ∀ l, (popTrailingNone hs).getLast? = some l → l.isSome = true := by
  intro l hl
  unfold popTrailingNone at hl
  rw [List.getLast?_reverse] at hl
  have := List.head?_dropWhile_not (fun h : Option Str => h.isNone) hs.reverse
  rw [hl] at this
  cases l with
  | none => simp at this
  | some x => rfl

end Rpft.Sheets
