/-
Helper lemmas for C17: what the temp-id remapping produces when the temp ids are pairwise
distinct (numbered: 1..n in row order; named: pairwise distinct, none is "start").
-/
import Rpft.Lemmas.Export
import Rpft.Lemmas.Dict
set_option linter.unusedSimpArgs false
set_option linter.unusedVariables false
set_option linter.unusedSectionVars false
namespace Rpft.Export
open Function

variable {U : Type} [DecidableEq U]

def vals (d : Dict (TempId U) Str) : List Str := d.map (·.2)

theorem pickName_not_mem {base : Str} {used : List Str} {new : Str} (h : pickName base used = .ok new) :
    new ∉ used := by
  unfold pickName at h
  split at h
  · rename_i k hk
    have := List.find?_some hk
    simp only [decide_eq_true_eq] at this
    cases h
    exact this
  · cases h

theorem buildTable_spec (numbered : Bool) (rows : List (RowT U)) :
    ∀ (idx : Nat) (d d' : Dict (TempId U) Str),
      (Dict.keys d ++ rows.map (·.id)).Nodup → buildTable numbered idx rows d = .ok d' →
      Dict.keys d' = Dict.keys d ++ rows.map (·.id) ∧
      (numbered = true → vals d' = vals d ++ (List.range rows.length).map (fun i => natStr (idx + i + 1))) ∧
      (numbered = false → (usedValues d).Nodup → (usedValues d').Nodup) := by
  induction rows with
  | nil =>
    intro idx d d' _ h
    simp only [buildTable] at h
    cases h
    simp
  | cons r rows ih =>
    intro idx d d' hnd h
    have hr : r.id ∉ Dict.keys d := by
      intro hm
      have := (List.nodup_append.1 hnd).2.2 _ hm r.id (by simp)
      exact this rfl
    have hnd' : ∀ v, (Dict.keys (Dict.set d r.id v) ++ rows.map (·.id)).Nodup := by
      intro v
      rw [Dict.set_of_not_mem hr]
      simpa [Dict.keys, List.append_assoc] using hnd
    have hk : ∀ v, Dict.keys (Dict.set d r.id v) = Dict.keys d ++ [r.id] := by
      intro v; rw [Dict.set_of_not_mem hr]; simp [Dict.keys]
    have hv : ∀ v, vals (Dict.set d r.id v) = vals d ++ [v] := by
      intro v; rw [Dict.set_of_not_mem hr]; simp [vals]
    simp only [buildTable] at h
    cases numbered with
    | true =>
      simp only [if_true] at h
      obtain ⟨k1, k2, _⟩ := ih (idx + 1) _ d' (hnd' _) h
      refine ⟨by simp [k1, hk], ?_, by simp⟩
      intro _
      rw [k2 rfl, hv, List.length_cons, List.range_succ_eq_map]
      simp [List.map_map, Function.comp_def, Nat.add_assoc, Nat.add_comm 1]
    | false =>
      simp only [Bool.false_eq_true, if_false] at h
      cases hp : pickName r.id.2 (usedValues d) with
      | error e => simp [hp] at h
      | ok new =>
        simp only [hp] at h
        obtain ⟨k1, _, k3⟩ := ih (idx + 1) _ d' (hnd' _) h
        refine ⟨by simp [k1, hk], by simp, ?_⟩
        intro _ hu
        apply k3 rfl
        have hnew := pickName_not_mem hp
        have : usedValues (Dict.set d r.id new) = usedValues d ++ [new] := by
          have := hv new
          simp only [vals] at this
          simp [usedValues, this]
        rw [this, List.nodup_append]
        refine ⟨hu, by simp, ?_⟩
        intro a ha b hb
        simp at hb
        subst hb
        exact fun e => hnew (e ▸ ha)

theorem get_of_mem_nodup {κ β : Type} [DecidableEq κ] {d : Dict κ β} (h : (Dict.keys d).Nodup) {kv : κ × β}
    (hm : kv ∈ d) : Dict.get d kv.1 = some kv.2 := by
  induction d with
  | nil => cases hm
  | cons x d ih =>
    obtain ⟨k', v'⟩ := x
    simp only [Dict.keys, List.map_cons, List.nodup_cons] at h
    cases hm with
    | head => simp [Dict.get]
    | tail _ hm =>
      have : k' ≠ kv.1 := by
        intro e
        exact h.1 (e ▸ List.mem_map.2 ⟨kv, hm, rfl⟩)
      simp only [Dict.get, this, if_false]
      exact ih h.2 hm

theorem map_get_keys {κ β : Type} [DecidableEq κ] {d : Dict κ β} (h : (Dict.keys d).Nodup) :
    (Dict.keys d).map (Dict.get d) = d.map (fun kv => some kv.2) := by
  simp only [Dict.keys, List.map_map]
  apply List.map_congr_left
  intro kv hm
  exact get_of_mem_nodup h hm

theorem remapRows_ids (d : Dict (TempId U) Str) (rows : List (RowT U)) (out : List RowS)
    (h : remapRows d rows = .ok out) :
    rows.map (fun r => Dict.get d r.id) = out.map (fun o => some o.id) := by
  induction rows generalizing out with
  | nil => simp only [remapRows] at h; cases h; rfl
  | cons r rows ih =>
    simp only [remapRows] at h
    cases h1 : remapRow d r with
    | error e => simp [h1] at h
    | ok a =>
      cases h2 : remapRows d rows with
      | error e => simp [h1, h2] at h
      | ok b =>
        simp only [h1, h2] at h
        cases h
        simp only [List.map_cons, ih b h2]
        congr 1
        simp only [remapRow] at h1
        cases hl : Dict.get d r.id with
        | none => simp [look, hl] at h1
        | some i =>
          simp only [look, hl] at h1
          split at h1 <;> simp_all
          cases h1; rfl

/-- all ids of the remapped rows, when the temp ids are pairwise distinct: the values of the table -/
theorem remap_ids (numbered : Bool) (rows : List (RowT U)) (out : List RowS)
    (hnd : (rows.map (·.id)).Nodup) (h : remap numbered rows = .ok out) :
    (numbered = true → out.map (·.id) = (List.range out.length).map (fun i => natStr (i + 1))) ∧
    (numbered = false → (startStr :: out.map (·.id)).Nodup) := by
  unfold remap at h
  cases hb : buildTable numbered 0 rows [] with
  | error e => simp [hb] at h
  | ok d =>
    simp only [hb] at h
    obtain ⟨k1, k2, k3⟩ := buildTable_spec numbered rows 0 [] d (by simpa [Dict.keys] using hnd) hb
    simp only [Dict.keys, List.map_nil, List.nil_append] at k1
    have hkd : (Dict.keys d).Nodup := by simpa [Dict.keys, k1] using hnd
    have hids := remapRows_ids d rows out h
    have hmap : rows.map (fun r => Dict.get d r.id) = (Dict.keys d).map (Dict.get d) := by
      simp only [Dict.keys, k1, List.map_map]; rfl
    rw [hmap, map_get_keys hkd] at hids
    have hvals : out.map (·.id) = vals d := by
      have := congrArg (List.map (fun o => o.getD [])) hids
      simpa [vals, List.map_map, Function.comp_def] using this.symm
    have hlen : out.length = rows.length := by
      have := congrArg List.length hvals
      have h2 := congrArg List.length k1
      simp [vals] at this h2
      omega
    constructor
    · intro hn
      rw [hvals, k2 hn, hlen]
      simp [vals]
    · intro hn
      have := k3 hn (by simp [usedValues])
      simpa [usedValues, hvals, vals] using this

end Rpft.Export
