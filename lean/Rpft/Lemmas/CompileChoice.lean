/-
Exact behaviour of `SwitchRouter.add_choice` for a NEW test without explicit category name: the
generated category name is free, so exactly one category (at the end of the categories) and one
case (at the end of the cases, naming that category) are added.
-/
import Rpft.Lemmas.CompileInvA4
set_option linter.unusedSimpArgs false
set_option linter.unusedVariables false
namespace Rpft.Compile
open Rpft

theorem catByName_isSome_iff (r : SwitchR) (n : Str) : (r.catByName n).isSome = true ↔ n ∈ r.allCats.map (·.name) := by
  unfold SwitchR.catByName
  rw [List.find?_isSome]
  simp only [List.mem_map, decide_eq_true_eq]

theorem filter_len_mono (L : List Str) (a b : Nat) (hab : a ≤ b) :
    (L.filter (fun x => decide (b ≤ x.length))).length ≤ (L.filter (fun x => decide (a ≤ x.length))).length := by
  induction L with
  | nil => simp
  | cons y M ih =>
    simp only [List.filter_cons]
    by_cases h1 : b ≤ y.length
    · have h2 : a ≤ y.length := by omega
      simp [h1, h2, ih]
    · by_cases h2 : a ≤ y.length
      · simp [h1, h2]; omega
      · simp [h1, h2, ih]

theorem filter_len_drop (L : List Str) (a b : Nat) (hab : a ≤ b) (x0 : Str) (h0 : x0 ∈ L) (ha : a ≤ x0.length)
    (hb : x0.length < b) :
    (L.filter (fun x => decide (b ≤ x.length))).length + 1 ≤ (L.filter (fun x => decide (a ≤ x.length))).length := by
  induction L with
  | nil => cases h0
  | cons y M ih =>
    simp only [List.filter_cons]
    by_cases hy : a ≤ y.length ∧ y.length < b
    · have h1 : ¬ b ≤ y.length := by omega
      have := filter_len_mono M a b hab
      simp [h1, hy.1]; omega
    · have hm : x0 ∈ M := by
        simp only [List.mem_cons] at h0
        rcases h0 with h0 | h0
        · subst h0; exact absurd ⟨ha, hb⟩ hy
        · exact h0
      have := ih hm
      by_cases h1 : b ≤ y.length
      · have h2 : a ≤ y.length := by omega
        simp [h1, h2]; omega
      · have h2 : ¬ a ≤ y.length := by omega
        simp [h1, h2]; omega

/-- the loop of `generate_category_name` returns a free name when its fuel exceeds the number of
names at least as long as the candidate -/
theorem genCatName_go_free (r : SwitchR) : ∀ (fuel : Nat) (n : Str),
    ((r.allCats.map (·.name)).filter (fun x => decide (n.length ≤ x.length))).length < fuel →
    genCatName.go r fuel n ∉ r.allCats.map (·.name) := by
  intro fuel
  induction fuel with
  | zero => intro n h; omega
  | succ f ih =>
    intro n h
    unfold genCatName.go
    by_cases hs : (r.catByName n).isSome = true
    · rw [if_pos hs]
      apply ih
      have hn : n ∈ r.allCats.map (·.name) := (catByName_isSome_iff r n).mp hs
      have hlen : (n ++ "_alt".toList).length = n.length + 4 := by rw [List.length_append]; rfl
      rw [hlen]
      have := filter_len_drop (r.allCats.map (·.name)) n.length (n.length + 4) (by omega) n hn (Nat.le_refl _) (by omega)
      omega
    · rw [if_neg hs]
      intro hn
      exact hs ((catByName_isSome_iff r n).mpr hn)

theorem genCatName_free (r : SwitchR) (args : List (Option Str)) : r.catByName (genCatName r args) = none := by
  have : genCatName r args ∉ r.allCats.map (·.name) := by
    unfold genCatName
    apply genCatName_go_free
    have := List.length_filter_le (fun x => decide ((joinUnderscore (args.map fun a => pyTitle (argStr a))).length ≤ x.length))
      (r.allCats.map (·.name))
    simp only [List.length_map] at this ⊢
    omega
  cases h : r.catByName (genCatName r args) with
  | none => rfl
  | some c =>
    exact absurd ((catByName_isSome_iff r _).mp (by simp [h])) this

/-- **a new test**: no case with this test yet, no explicit category name -/
theorem addChoice_new (r : SwitchR) (var type : Str) (args : List (Option Str)) (dest : Dest) (s : St)
    (hnew : ∀ k ∈ r.cases, ¬ (k.type = type ∧ k.args = (if s.noArgs.contains type then [] else args)))
    (Q : SwitchR → St → Prop)
    (h : s.testTypes.contains type = true →
      Q { r with operand := if var.isEmpty then r.operand else var,
                 cats := r.cats ++ [{ uid := tid s.next, name := genCatName (if var.isEmpty then r else { r with operand := var }) args,
                                      exitUid := tid (s.next + 1), dest := dest }],
                 cases := r.cases ++ [{ uid := tid (s.next + 2), type := type,
                                        args := if s.noArgs.contains type then [] else args,
                                        catUid := tid s.next }] }
        { s with next := s.next + 3 }) :
    wp (addChoice r var type args [] dest false) s Q := by
  unfold addChoice
  wp_simp
  generalize hr0 : (if var.isEmpty = true then r else { r with operand := var }) = r0
  have hc0 : r0.cases = r.cases := by subst hr0; split <;> rfl
  have hcats0 : r0.cats = r.cats := by subst hr0; split <;> rfl
  have hop0 : r0.operand = if var.isEmpty then r.operand else var := by subst hr0; split <;> rfl
  have hnone : r0.cases.find? (fun k => decide (k.type = type ∧ k.args = (if s.noArgs.contains type then [] else args))) = none := by
    rw [List.find?_eq_none, hc0]
    intro k hk; simpa using hnew k hk
  rw [hnone]
  simp only [List.isEmpty_nil, if_true]
  unfold choiceCat
  simp only [Bool.false_eq_true, if_false]
  rw [genCatName_free]
  wp_simp [wp_mkCat]
  refine ⟨fun _ => trivial, fun _ => ?_⟩
  unfold choiceCase
  wp_simp [wp_fresh']
  refine ⟨fun ht => ?_, fun _ => trivial⟩
  have := h ht
  have e : ({ r with operand := if var.isEmpty then r.operand else var } : SwitchR) = r0 := by
    subst hr0; split <;> rfl
  cases r0
  cases r
  simp_all

/-- **a new test with an explicit category name that is not in use**: one category (at the end of
the categories, carrying that name) and one case are added -/
theorem addChoice_named (r : SwitchR) (var type : Str) (args : List (Option Str)) (name : Str) (dest : Dest) (s : St)
    (hnew : ∀ k ∈ r.cases, ¬ (k.type = type ∧ k.args = (if s.noArgs.contains type then [] else args)))
    (hne : name ≠ []) (hfree : r.catByName name = none)
    (Q : SwitchR → St → Prop)
    (h : s.testTypes.contains type = true →
      Q { r with operand := if var.isEmpty then r.operand else var,
                 cats := r.cats ++ [{ uid := tid s.next, name := name,
                                      exitUid := tid (s.next + 1), dest := dest }],
                 cases := r.cases ++ [{ uid := tid (s.next + 2), type := type,
                                        args := if s.noArgs.contains type then [] else args,
                                        catUid := tid s.next }] }
        { s with next := s.next + 3 }) :
    wp (addChoice r var type args name dest false) s Q := by
  unfold addChoice
  wp_simp
  generalize hr0 : (if var.isEmpty = true then r else { r with operand := var }) = r0
  have hc0 : r0.cases = r.cases := by subst hr0; split <;> rfl
  have hcats0 : r0.cats = r.cats := by subst hr0; split <;> rfl
  have hall0 : r0.catByName name = r.catByName name := by subst hr0; split <;> rfl
  have hop0 : r0.operand = if var.isEmpty then r.operand else var := by subst hr0; split <;> rfl
  have hnone : r0.cases.find? (fun k => decide (k.type = type ∧ k.args = (if s.noArgs.contains type then [] else args))) = none := by
    rw [List.find?_eq_none, hc0]
    intro k hk; simpa using hnew k hk
  rw [hnone]
  have hemp : name.isEmpty = false := by cases name with | nil => exact absurd rfl hne | cons _ _ => rfl
  simp only [hemp, Bool.false_eq_true, if_false]
  unfold choiceCat
  simp only [Bool.false_eq_true, if_false]
  rw [hall0, hfree]
  wp_simp [wp_mkCat]
  refine ⟨fun _ => trivial, fun _ => ?_⟩
  unfold choiceCase
  wp_simp [wp_fresh']
  refine ⟨fun ht => ?_, fun _ => trivial⟩
  have := h ht
  have e : ({ r with operand := if var.isEmpty then r.operand else var } : SwitchR) = r0 := by
    subst hr0; split <;> rfl
  cases r0
  cases r
  simp_all

/-- **a new test selecting the default category** (`is_default`): the default category takes the
destination (and the name, if one is given); one case is added -/
theorem addChoice_default (r : SwitchR) (var type : Str) (args : List (Option Str)) (name : Str) (dest : Dest) (s : St)
    (hnew : ∀ k ∈ r.cases, ¬ (k.type = type ∧ k.args = (if s.noArgs.contains type then [] else args)))
    (hne : name ≠ [])
    (Q : SwitchR → St → Prop)
    (h : s.testTypes.contains type = true →
      Q { r with operand := if var.isEmpty then r.operand else var,
                 dflt := { r.dflt with dest := dest, name := name },
                 cases := r.cases ++ [{ uid := tid s.next, type := type,
                                        args := if s.noArgs.contains type then [] else args,
                                        catUid := r.dflt.uid }] }
        { s with next := s.next + 1 }) :
    wp (addChoice r var type args name dest true) s Q := by
  unfold addChoice
  wp_simp
  generalize hr0 : (if var.isEmpty = true then r else { r with operand := var }) = r0
  have hc0 : r0.cases = r.cases := by subst hr0; split <;> rfl
  have hd0 : r0.dflt = r.dflt := by subst hr0; split <;> rfl
  have hnone : r0.cases.find? (fun k => decide (k.type = type ∧ k.args = (if s.noArgs.contains type then [] else args))) = none := by
    rw [List.find?_eq_none, hc0]
    intro k hk; simpa using hnew k hk
  rw [hnone]
  have hemp : name.isEmpty = false := by cases name with | nil => exact absurd rfl hne | cons _ _ => rfl
  simp only [hemp, Bool.false_eq_true, if_false]
  unfold choiceCat
  simp only [if_true]
  wp_simp
  unfold choiceCase
  wp_simp [wp_fresh']
  refine ⟨fun ht => ?_, fun _ => trivial⟩
  have := h ht
  have e : ({ r with operand := if var.isEmpty then r.operand else var } : SwitchR) = r0 := by
    subst hr0; split <;> rfl
  cases r0
  cases r
  simp_all

/-- a new test whose category is new: named explicitly (a name not in use) or by the generator -/
theorem addChoice_any (r : SwitchR) (var type : Str) (args : List (Option Str)) (name : Str) (dest : Dest) (s : St)
    (hnew : ∀ k ∈ r.cases, ¬ (k.type = type ∧ k.args = (if s.noArgs.contains type then [] else args)))
    (hfree : name ≠ [] → r.catByName name = none)
    (Q : SwitchR → St → Prop)
    (h : s.testTypes.contains type = true →
      Q { r with operand := if var.isEmpty then r.operand else var,
                 cats := r.cats ++ [{ uid := tid s.next,
                                      name := if name.isEmpty then genCatName (if var.isEmpty then r else { r with operand := var }) args else name,
                                      exitUid := tid (s.next + 1), dest := dest }],
                 cases := r.cases ++ [{ uid := tid (s.next + 2), type := type,
                                        args := if s.noArgs.contains type then [] else args,
                                        catUid := tid s.next }] }
        { s with next := s.next + 3 }) :
    wp (addChoice r var type args name dest false) s Q := by
  by_cases hn : name = []
  · subst hn
    exact addChoice_new r var type args dest s hnew Q (by simpa using h)
  · have hemp : name.isEmpty = false := by cases name with | nil => exact absurd rfl hn | cons _ _ => rfl
    exact addChoice_named r var type args name dest s hnew hn (hfree hn) Q (by simpa [hemp] using h)

end Rpft.Compile
