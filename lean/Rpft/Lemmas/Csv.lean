/-
Lemmas for the CSV byte format (`Rpft/Csv.lean`).

1. `parse_eq_fused`: line splitting followed by the record loop is ONE character-level machine
   (`feedM` / `finishM`): the reader automaton plus two bits of the line iterator (`prevCR`: the
   pending line end after a CR, `pend`: the current line is not empty).
2. the machine on the encoding of a list of records in which every field is tagged quoted /
   unquoted (`encRows`): `parse_encRows` — every legal CSV text of that grammar is read back as the
   records it encodes.
3. `writeRows` produces such an encoding (`writeRows_eq`), hence `parse_writeRows`.
4. for EVERY text: `parse_error_is_fieldLimit` (the "new-line character seen in unquoted field"
   error is unreachable behind `newline=""` line iteration), `parse_output_fits`, `parse_mono`.
-/
import Rpft.Csv
set_option linter.unusedSimpArgs false
set_option linter.unusedVariables false
namespace Rpft.Csv
open Rpft

/-! ### 1. the fused machine -/

structure M where
  rd : Reader
  prevCR : Bool
  pend : Bool
  out : List (List Str)

/-- `EOL` after a line, and the test of the `do … while` loop -/
def eolM (limit : Nat) (m : M) : Except CsvErr M :=
  match processChar limit m.rd none with
  | .error e => .error e
  | .ok r =>
    if r.state = .startRecord then .ok ⟨fresh, false, false, m.out ++ [r.fields]⟩
    else .ok ⟨r, false, false, m.out⟩

def stepM (limit : Nat) (m : M) (c : Char) : Except CsvErr M :=
  if c = '\n' then
    match processChar limit m.rd (some c) with
    | .error e => .error e
    | .ok r => eolM limit ⟨r, false, true, m.out⟩
  else
    match (if m.prevCR then eolM limit m else .ok m) with
    | .error e => .error e
    | .ok m1 =>
      match processChar limit m1.rd (some c) with
      | .error e => .error e
      | .ok r => .ok ⟨r, c == '\r', true, m1.out⟩

def feedM (limit : Nat) : Str → M → Except CsvErr M
  | [], m => .ok m
  | c :: t, m =>
    match stepM limit m c with
    | .ok m' => feedM limit t m'
    | .error e => .error e

def finalM (m : M) : List (List Str) :=
  if m.rd.fieldLen != 0 || m.rd.state == .inQuotedField then m.out ++ [(saveField m.rd).fields]
  else m.out

def finishM (limit : Nat) (m : M) : Except CsvErr (List (List Str)) :=
  match (if m.pend then eolM limit m else .ok m) with
  | .error e => .error e
  | .ok m1 => .ok (finalM m1)

def runM (limit : Nat) (t : Str) (m : M) : Except CsvErr (List (List Str)) :=
  match feedM limit t m with
  | .ok m' => finishM limit m'
  | .error e => .error e

theorem feedChars_append (limit : Nat) (a b : Str) (r : Reader) :
    feedChars limit r (a ++ b) =
      match feedChars limit r a with
      | .ok r' => feedChars limit r' b
      | .error e => .error e := by
  induction a generalizing r with
  | nil => rfl
  | cons c a ih =>
    simp only [List.cons_append, feedChars]
    cases processChar limit r (some c) with
    | ok r' => exact ih r'
    | error e => rfl

theorem feedM_append (limit : Nat) (a b : Str) (m : M) :
    feedM limit (a ++ b) m =
      match feedM limit a m with
      | .ok m' => feedM limit b m'
      | .error e => .error e := by
  induction a generalizing m with
  | nil => rfl
  | cons c a ih =>
    simp only [List.cons_append, feedM]
    cases stepM limit m c with
    | ok m' => exact ih m'
    | error e => rfl

theorem readerLoop_fresh_nil (limit : Nat) (acc : List (List Str)) :
    readerLoop limit [] fresh acc = .ok acc := by
  simp [readerLoop, fresh]

theorem readerLoop_nil (limit : Nat) (r : Reader) (p q : Bool) (acc : List (List Str)) :
    readerLoop limit [] r acc = .ok (finalM ⟨r, p, q, acc⟩) := by
  unfold readerLoop finalM
  split <;> rfl

/-- an error inside the current (unfinished) line surfaces when the line is delivered -/
theorem readerLoop_split_error (limit : Nat) (t cur : Str) (p : Bool) (r0 : Reader)
    (acc : List (List Str)) (e : CsvErr) (h : feedChars limit r0 cur.reverse = .error e) :
    readerLoop limit (splitLinesAux t cur p) r0 acc = .error e := by
  induction t generalizing cur p with
  | nil =>
    have hne : cur.isEmpty = false := by
      cases cur with
      | nil => simp [feedChars] at h
      | cons a t => rfl
    simp [splitLinesAux, hne, readerLoop, feedLine, h]
  | cons c t ih =>
    unfold splitLinesAux
    have hcons : feedChars limit r0 (c :: cur).reverse = .error e := by
      rw [List.reverse_cons, feedChars_append, h]
    split
    · simp only [readerLoop, feedLine, hcons]
    · split
      · simp [readerLoop, feedLine, h]
      · exact ih (c :: cur) _ hcons

/-- **the line iterator and the record loop are one character-level machine** -/
theorem readerLoop_split (limit : Nat) (t cur : Str) (p : Bool) (r0 r : Reader)
    (acc : List (List Str)) (h : feedChars limit r0 cur.reverse = .ok r) :
    readerLoop limit (splitLinesAux t cur p) r0 acc = runM limit t ⟨r, p, !cur.isEmpty, acc⟩ := by
  induction t generalizing cur p r0 r acc with
  | nil =>
    cases cur with
    | nil =>
      simp only [List.reverse_nil, feedChars, Except.ok.injEq] at h
      subst h
      simp only [splitLinesAux, List.isEmpty_nil, if_true, runM, feedM, finishM, Bool.not_true,
        Bool.false_eq_true, if_false]
      exact readerLoop_nil limit r0 p false acc
    | cons a cur =>
      simp only [splitLinesAux, List.isEmpty_cons, Bool.false_eq_true, if_false, readerLoop,
        feedLine, h, runM, feedM, finishM, Bool.not_false, if_true, eolM]
      cases hp : processChar limit r none with
      | error e => rfl
      | ok r' =>
        simp only
        split
        · simp [readerLoop_fresh_nil, finalM, fresh]
        · exact readerLoop_nil limit r' false false acc
  | cons c t ih =>
    unfold splitLinesAux
    simp only [runM, feedM, stepM]
    split
    · -- c = '\n': the character, then EOL
      rename_i hc
      simp only [readerLoop, feedLine, List.reverse_cons, feedChars_append, h, feedChars]
      cases hp : processChar limit r (some c) with
      | error e => rfl
      | ok r1 =>
        simp only [eolM]
        cases hq : processChar limit r1 none with
        | error e => rfl
        | ok r2 =>
          simp only
          split
          · exact ih [] false fresh fresh _ rfl
          · exact ih [] false r2 r2 _ rfl
    · split
      · -- a CR is pending and `c` is not LF: the line ended before `c`
        rename_i hc hp
        subst hp
        simp only [readerLoop, feedLine, h, if_true, eolM]
        cases hq : processChar limit r none with
        | error e => rfl
        | ok r2 =>
          simp only
          split
          · cases hs : processChar limit fresh (some c) with
            | error e =>
              simp only [hs]
              exact readerLoop_split_error limit t [c] _ fresh _ e (by simp [feedChars, hs])
            | ok r3 =>
              have := ih [c] (c == '\r') fresh r3 (acc ++ [r2.fields]) (by simp [feedChars, hs])
              simpa [runM, hs] using this
          · cases hs : processChar limit r2 (some c) with
            | error e =>
              simp only [hs]
              exact readerLoop_split_error limit t [c] _ r2 _ e (by simp [feedChars, hs])
            | ok r3 =>
              have := ih [c] (c == '\r') r2 r3 acc (by simp [feedChars, hs])
              simpa [runM, hs] using this
      · rename_i hc hp
        have hp' : p = false := by cases p <;> simp_all
        subst hp'
        simp only [Bool.false_eq_true, if_false]
        cases hs : processChar limit r (some c) with
        | error e =>
          simp only [hs]
          exact readerLoop_split_error limit t (c :: cur) _ r0 _ e
            (by rw [List.reverse_cons, feedChars_append, h]; simp [feedChars, hs])
        | ok r3 =>
          have := ih (c :: cur) (c == '\r') r0 r3 acc
            (by rw [List.reverse_cons, feedChars_append, h]; simp [feedChars, hs])
          simpa [runM, hs] using this

theorem parse_eq_fused (limit : Nat) (text : Str) :
    parseCsvWith limit text = runM limit text ⟨fresh, false, false, []⟩ := by
  unfold parseCsvWith splitLines
  exact readerLoop_split limit text [] false fresh fresh [] rfl

/-! ### 2. the machine on encoded records -/

/-- no character the READER treats specially outside quotes -/
def Plain (f : Str) : Prop := ∀ c ∈ f, c ≠ ',' ∧ c ≠ '"' ∧ c ≠ '\r' ∧ c ≠ '\n'

instance (f : Str) : Decidable (Plain f) := by unfold Plain; infer_instance

/-- a field with its representation: `true` = between quotes (quotes doubled), `false` = as is -/
def encField : Bool × Str → Str
  | (true, f) => '"' :: (escape f ++ ['"'])
  | (false, f) => f

def encFields : List (Bool × Str) → Str
  | [] => []
  | [p] => encField p
  | p :: q :: ps => encField p ++ ',' :: encFields (q :: ps)

def encRow (lt : Str) (r : List (Bool × Str)) : Str := encFields r ++ lt

def encRows (lt : Str) : List (List (Bool × Str)) → Str
  | [] => []
  | r :: rs => encRow lt r ++ encRows lt rs

/-- an unquoted field must be plain -/
def ValidField (p : Bool × Str) : Prop := p.1 = true ∨ Plain p.2

/-- … and a record made of one empty field must be written with quotes (otherwise it is a blank line) -/
def ValidRow (r : List (Bool × Str)) : Prop := (∀ p ∈ r, ValidField p) ∧ r ≠ [(false, [])]

instance (p : Bool × Str) : Decidable (ValidField p) := by unfold ValidField; infer_instance
instance (r : List (Bool × Str)) : Decidable (ValidRow r) := by unfold ValidRow; infer_instance

def FieldEnd (s : St) : Prop := s = .startField ∨ s = .inField ∨ s = .quoteInQuotedField

theorem escape_nil : escape [] = [] := rfl

theorem escape_cons (c : Char) (f : Str) :
    escape (c :: f) = (if c = '"' then ['"', '"'] else [c]) ++ escape f := by
  simp [escape, replace1]

/-- the body of a quoted field and its closing quote, whatever the line iterator is doing -/
theorem feedM_quoted (limit : Nat) (f rest fld : Str) (n : Nat) (flds : List Str) (p pd : Bool)
    (out : List (List Str)) (hn : n + f.length ≤ limit) :
    feedM limit (escape f ++ '"' :: rest) ⟨⟨.inQuotedField, fld, n, flds⟩, p, pd, out⟩
      = feedM limit rest ⟨⟨.quoteInQuotedField, f.reverse ++ fld, n + f.length, flds⟩, false, true, out⟩ := by
  induction f generalizing fld n p pd with
  | nil =>
    cases p <;> simp [escape_nil, feedM, stepM, eolM, processChar]
  | cons c f ih =>
    have hlt : ¬ (limit ≤ n) := by simp only [List.length_cons] at hn; omega
    have hn' : n + 1 + f.length ≤ limit := by simp only [List.length_cons] at hn; omega
    have e1 : (c :: f).reverse ++ fld = f.reverse ++ c :: fld := by simp
    have e2 : n + (c :: f).length = n + 1 + f.length := by simp only [List.length_cons]; omega
    rw [e1, e2, escape_cons]
    by_cases hq : c = '"'
    · subst hq
      have := ih ('"' :: fld) (n + 1) false true hn'
      cases p <;> simpa [feedM, stepM, eolM, processChar, addChar, withState, hlt] using this
    · by_cases hl : c = '\n'
      · subst hl
        have := ih ('\n' :: fld) (n + 1) false false hn'
        cases p <;> simpa [feedM, stepM, eolM, processChar, addChar, withState, hlt] using this
      · have := ih (c :: fld) (n + 1) (c == '\r') true hn'
        cases p <;> simpa [feedM, stepM, eolM, processChar, addChar, withState, hlt, hq, hl] using this

/-- the rest of an unquoted field -/
theorem feedM_inField (limit : Nat) (f rest fld : Str) (n : Nat) (flds : List Str)
    (out : List (List Str)) (hpl : Plain f) (hn : n + f.length ≤ limit) :
    feedM limit (f ++ rest) ⟨⟨.inField, fld, n, flds⟩, false, true, out⟩
      = feedM limit rest ⟨⟨.inField, f.reverse ++ fld, n + f.length, flds⟩, false, true, out⟩ := by
  induction f generalizing fld n with
  | nil => simp
  | cons c f ih =>
    have hlt : ¬ (limit ≤ n) := by simp only [List.length_cons] at hn; omega
    have hn' : n + 1 + f.length ≤ limit := by simp only [List.length_cons] at hn; omega
    have e1 : (c :: f).reverse ++ fld = f.reverse ++ c :: fld := by simp
    have e2 : n + (c :: f).length = n + 1 + f.length := by simp only [List.length_cons]; omega
    obtain ⟨h1, h2, h3, h4⟩ := hpl c (by simp)
    have hpl' : Plain f := fun x hx => hpl x (by simp [hx])
    rw [e1, e2]
    have hb : (c == '\r') = false := by simp [h3]
    have := ih (c :: fld) (n + 1) hpl' hn'
    simpa [feedM, stepM, processChar, addChar, hlt, h1, h2, h3, h4, hb] using this

/-- one field from START_FIELD: the automaton is left at a field end holding the field's text -/
theorem feedM_field (limit : Nat) (p : Bool × Str) (rest : Str) (flds : List Str) (pd : Bool)
    (out : List (List Str)) (hv : ValidField p) (hn : p.2.length ≤ limit) :
    ∃ E pd', FieldEnd E ∧
      feedM limit (encField p ++ rest) ⟨⟨.startField, [], 0, flds⟩, false, pd, out⟩
        = feedM limit rest ⟨⟨E, p.2.reverse, p.2.length, flds⟩, false, pd', out⟩ := by
  obtain ⟨b, f⟩ := p
  cases b with
  | true =>
    refine ⟨.quoteInQuotedField, true, Or.inr (Or.inr rfl), ?_⟩
    have := feedM_quoted limit f rest [] 0 flds false true out (by simpa using hn)
    simpa [encField, feedM, stepM, processChar, startFieldCase] using this
  | false =>
    have hpl : Plain f := by
      rcases hv with hv | hv
      · cases hv
      · exact hv
    cases f with
    | nil => exact ⟨.startField, pd, Or.inl rfl, by simp [encField]⟩
    | cons c f =>
      refine ⟨.inField, true, Or.inr (Or.inl rfl), ?_⟩
      obtain ⟨h1, h2, h3, h4⟩ := hpl c (by simp)
      have hpl' : Plain f := fun x hx => hpl x (by simp [hx])
      have hlt : ¬ (limit ≤ 0) := by simp only [List.length_cons] at hn; omega
      have := feedM_inField limit f rest [c] 1 flds out hpl' (by simp only [List.length_cons] at hn; omega)
      have e1 : (c :: f).reverse = f.reverse ++ [c] := by simp
      have e2 : (c :: f).length = 1 + f.length := by simp only [List.length_cons]; omega
      simp only [e1, e2]
      have hb : (c == '\r') = false := by simp [h3]
      simpa [encField, feedM, stepM, processChar, startFieldCase, addChar, withState, hlt, h1, h2, h3, h4, hb]
        using this

theorem feedM_delim (limit : Nat) (E : St) (hE : FieldEnd E) (rest fld : Str) (n : Nat)
    (flds : List Str) (pd : Bool) (out : List (List Str)) :
    feedM limit (',' :: rest) ⟨⟨E, fld, n, flds⟩, false, pd, out⟩
      = feedM limit rest ⟨⟨.startField, [], 0, flds ++ [fld.reverse]⟩, false, true, out⟩ := by
  rcases hE with h | h | h <;> subst h <;>
    simp [feedM, stepM, processChar, startFieldCase, saveField]

theorem feedM_term (limit : Nat) (E : St) (hE : FieldEnd E) (lt : Str) (hlt : lt = crlf ∨ lt = lf)
    (rest fld : Str) (n : Nat) (flds : List Str) (pd : Bool) (out : List (List Str)) :
    feedM limit (lt ++ rest) ⟨⟨E, fld, n, flds⟩, false, pd, out⟩
      = feedM limit rest ⟨fresh, false, false, out ++ [flds ++ [fld.reverse]]⟩ := by
  rcases hlt with h | h <;> subst h <;> rcases hE with h | h | h <;> subst h <;>
    simp [crlf, lf, feedM, stepM, eolM, processChar, startFieldCase, saveField]

/-- a non-empty list of fields and the line terminator, from START_FIELD -/
theorem feedM_fields (limit : Nat) (lt : Str) (hlt : lt = crlf ∨ lt = lf)
    (ps : List (Bool × Str)) (hne : ps ≠ []) (hv : ∀ p ∈ ps, ValidField p)
    (hn : ∀ p ∈ ps, p.2.length ≤ limit) (rest : Str) (flds : List Str) (pd : Bool)
    (out : List (List Str)) :
    feedM limit (encFields ps ++ lt ++ rest) ⟨⟨.startField, [], 0, flds⟩, false, pd, out⟩
      = feedM limit rest ⟨fresh, false, false, out ++ [flds ++ ps.map Prod.snd]⟩ := by
  induction ps generalizing flds pd with
  | nil => exact absurd rfl hne
  | cons p tl ih =>
    obtain ⟨E, pd', hE, hf⟩ := feedM_field limit p
      (match tl with | [] => lt ++ rest | _ :: _ => ',' :: (encFields tl ++ lt ++ rest))
      flds pd out (hv p (by simp)) (hn p (by simp))
    cases tl with
    | nil =>
      simp only [encFields, List.append_assoc] at hf ⊢
      rw [hf, feedM_term limit E hE lt hlt]
      simp
    | cons q tl =>
      have e : encFields (p :: q :: tl) ++ lt ++ rest
          = encField p ++ ',' :: (encFields (q :: tl) ++ lt ++ rest) := by
        simp [encFields, List.append_assoc]
      simp only at hf
      rw [e, hf, feedM_delim limit E hE,
        ih (by simp) (fun x hx => hv x (by simp [hx])) (fun x hx => hn x (by simp [hx]))]
      simp

/-- START_RECORD falls through to START_FIELD on anything that is not a line end -/
theorem feedM_startRecord (limit : Nat) (c : Char) (t : Str) (h1 : c ≠ '\n') (h2 : c ≠ '\r')
    (fld : Str) (n : Nat) (flds : List Str) (pd : Bool) (out : List (List Str)) :
    feedM limit (c :: t) ⟨⟨.startRecord, fld, n, flds⟩, false, pd, out⟩
      = feedM limit (c :: t) ⟨⟨.startField, fld, n, flds⟩, false, pd, out⟩ := by
  simp [feedM, stepM, processChar, h1, h2]

theorem encFields_head (ps : List (Bool × Str)) (hv : ValidRow ps) (hne : ps ≠ []) (tail : Str) :
    ∃ c t, encFields ps ++ tail = c :: t ∧ c ≠ '\n' ∧ c ≠ '\r' := by
  cases ps with
  | nil => exact absurd rfl hne
  | cons p tl =>
    obtain ⟨b, f⟩ := p
    cases b with
    | true =>
      cases tl with
      | nil => exact ⟨'"', _, rfl, by decide, by decide⟩
      | cons q tl => exact ⟨'"', _, rfl, by decide, by decide⟩
    | false =>
      have hpl : Plain f := by
        rcases hv.1 (false, f) (by simp) with h | h
        · cases h
        · exact h
      cases f with
      | cons c f =>
        obtain ⟨h1, h2, h3, h4⟩ := hpl c (by simp)
        cases tl with
        | nil => exact ⟨c, _, rfl, h4, h3⟩
        | cons q tl => exact ⟨c, _, rfl, h4, h3⟩
      | nil =>
        cases tl with
        | nil => exact absurd rfl hv.2
        | cons q tl => exact ⟨',', _, rfl, by decide, by decide⟩

/-- one record, from a fresh reader -/
theorem feedM_row (limit : Nat) (lt : Str) (hlt : lt = crlf ∨ lt = lf) (r : List (Bool × Str))
    (hv : ValidRow r) (hn : ∀ p ∈ r, p.2.length ≤ limit) (rest : Str) (out : List (List Str)) :
    feedM limit (encRow lt r ++ rest) ⟨fresh, false, false, out⟩
      = feedM limit rest ⟨fresh, false, false, out ++ [r.map Prod.snd]⟩ := by
  cases hr : r with
  | nil =>
    rcases hlt with h | h <;> subst h <;>
      simp [encRow, encFields, crlf, lf, fresh, feedM, stepM, eolM, processChar]
  | cons p tl =>
    rw [← hr]
    have hne : r ≠ [] := by rw [hr]; simp
    obtain ⟨c, t, hct, h1, h2⟩ := encFields_head r hv hne (lt ++ rest)
    have := feedM_fields limit lt hlt r hne hv.1 hn rest [] false out
    simp only [List.append_assoc, List.nil_append] at this
    simp only [encRow, List.append_assoc, fresh]
    rw [hct, feedM_startRecord limit c t h1 h2, ← hct]
    exact this

theorem feedM_rows (limit : Nat) (lt : Str) (hlt : lt = crlf ∨ lt = lf)
    (rs : List (List (Bool × Str))) (hv : ∀ r ∈ rs, ValidRow r)
    (hn : ∀ r ∈ rs, ∀ p ∈ r, p.2.length ≤ limit) (out : List (List Str)) :
    feedM limit (encRows lt rs) ⟨fresh, false, false, out⟩
      = .ok ⟨fresh, false, false, out ++ rs.map (fun r => r.map Prod.snd)⟩ := by
  induction rs generalizing out with
  | nil => simp [encRows, feedM]
  | cons r rs ih =>
    simp only [encRows]
    rw [feedM_row limit lt hlt r (hv r (by simp)) (hn r (by simp)),
      ih (fun x hx => hv x (by simp [hx])) (fun x hx => hn x (by simp [hx]))]
    simp

/-- **reader correctness on the grammar**: a text made of records terminated by CRLF (or by LF),
fields separated by commas, each field either plain or between quotes with its quotes doubled, is
read back as exactly those records. -/
theorem parse_encRows (limit : Nat) (lt : Str) (hlt : lt = crlf ∨ lt = lf)
    (rs : List (List (Bool × Str))) (hv : ∀ r ∈ rs, ValidRow r)
    (hn : ∀ r ∈ rs, ∀ p ∈ r, p.2.length ≤ limit) :
    parseCsvWith limit (encRows lt rs) = .ok (rs.map (fun r => r.map Prod.snd)) := by
  rw [parse_eq_fused, runM, feedM_rows limit lt hlt rs hv hn]
  simp [finishM, finalM, fresh]

/-! ### 3. the writer produces such an encoding -/

def tagField (lt : Str) (qa : Bool) (f : Str) : Bool × Str := (qa || needsQuote lt f, f)

/-- the representation `csv_writerow` chooses (the lone empty field is the special case) -/
def tagRow (lt : Str) (qa : Bool) (r : List Str) : List (Bool × Str) :=
  if r = [[]] then [(true, [])] else r.map (tagField lt qa)

theorem writeField_eq (lt : Str) (qa : Bool) (f : Str) :
    writeField lt qa f = encField (tagField lt qa f) := by
  unfold writeField tagField
  cases h : (qa || needsQuote lt f) <;> simp [encField]

theorem joinFields_eq (lt : Str) (qa : Bool) (r : List Str) :
    joinFields lt qa r = encFields (r.map (tagField lt qa)) := by
  induction r with
  | nil => rfl
  | cons f tl ih =>
    cases tl with
    | nil => simp [joinFields, encFields, writeField_eq]
    | cons g tl =>
      simp only [joinFields, List.map_cons, encFields, writeField_eq] at ih ⊢
      rw [ih]

theorem encField_ne_nil (p : Bool × Str) (h : p ≠ (false, [])) : encField p ≠ [] := by
  obtain ⟨b, f⟩ := p
  cases b with
  | true => simp [encField]
  | false =>
    cases f with
    | nil => exact absurd rfl h
    | cons c f => simp [encField]

theorem writeRow_eq (lt : Str) (qa : Bool) (r : List Str) :
    writeRow lt qa r = encRow lt (tagRow lt qa r) := by
  unfold writeRow tagRow encRow
  by_cases h : r = [[]]
  · subst h
    cases qa <;> simp [joinFields, writeField, needsQuote, encFields, encField, escape_nil]
  · simp only [h, if_false]
    rw [joinFields_eq]
    cases r with
    | nil => simp [encFields]
    | cons f tl =>
      cases tl with
      | nil =>
        have hf : f ≠ [] := by intro e; subst e; exact h rfl
        have : encField (tagField lt qa f) ≠ [] :=
          encField_ne_nil _ (by intro e; exact hf (congrArg Prod.snd e))
        simp [encFields, this]
      | cons g tl => simp [encFields]

theorem writeRows_eq (lt : Str) (qa : Bool) (rs : List (List Str)) :
    writeRows lt qa rs = encRows lt (rs.map (tagRow lt qa)) := by
  induction rs with
  | nil => rfl
  | cons r rs ih => simp [writeRows, encRows, writeRow_eq, ih]

theorem tagRow_snd (lt : Str) (qa : Bool) (r : List Str) :
    (tagRow lt qa r).map Prod.snd = r := by
  unfold tagRow
  by_cases h : r = [[]]
  · subst h; simp
  · simp only [h, if_false, List.map_map]
    conv => rhs; rw [← List.map_id r]
    apply List.map_congr_left
    intro f _; rfl

/-- the writer's output is valid as soon as every field it leaves unquoted is plain -/
theorem tagRow_valid (lt : Str) (qa : Bool) (r : List Str)
    (h : ∀ f ∈ r, (qa || needsQuote lt f) = false → Plain f) : ValidRow (tagRow lt qa r) := by
  unfold tagRow
  by_cases hr : r = [[]]
  · subst hr
    simp only [if_true]
    exact ⟨by intro p hp; simp at hp; subst hp; exact Or.inl rfl, by simp⟩
  · simp only [hr, if_false]
    refine ⟨?_, ?_⟩
    · intro p hp
      simp only [List.mem_map] at hp
      obtain ⟨f, hf, rfl⟩ := hp
      unfold ValidField tagField
      cases hq : (qa || needsQuote lt f) with
      | true => exact Or.inl rfl
      | false => exact Or.inr (h f hf hq)
    · intro e
      cases r with
      | nil => simp at e
      | cons f tl =>
        cases tl with
        | nil =>
          simp only [List.map_cons, List.map_nil, List.cons.injEq, and_true] at e
          have hf : f = [] := congrArg Prod.snd e
          subst hf
          exact hr rfl
        | cons g tl => simp at e

/-- with the CRLF line terminator (the project's dialect) every field the writer leaves unquoted is
plain: the writer's quoting test covers everything the reader treats specially -/
theorem plain_of_not_needsQuote_crlf (f : Str) (h : needsQuote crlf f = false) : Plain f := by
  intro c hc
  unfold needsQuote at h
  rw [List.any_eq_false] at h
  have := h c hc
  simp [special, crlf] at this
  obtain ⟨⟨h1, h2⟩, h3, h4⟩ := this
  exact ⟨h1, h2, h3, h4⟩

theorem tagRow_snd_all (lt : Str) (qa : Bool) (rs : List (List Str)) :
    (rs.map (tagRow lt qa)).map (fun r => r.map Prod.snd) = rs := by
  rw [List.map_map]
  conv => rhs; rw [← List.map_id rs]
  apply List.map_congr_left
  intro r _
  simp [Function.comp, tagRow_snd]

theorem tagRow_len (lt : Str) (qa : Bool) (r : List Str) (limit : Nat)
    (h : ∀ f ∈ r, f.length ≤ limit) : ∀ p ∈ tagRow lt qa r, p.2.length ≤ limit := by
  intro p hp
  have : p.2 ∈ (tagRow lt qa r).map Prod.snd := List.mem_map_of_mem hp
  rw [tagRow_snd] at this
  exact h _ this

/-- **writer then reader**, any dialect of the family: the records come back provided every field
left unquoted is plain and every field fits the reader's field limit -/
theorem parse_writeRows (limit : Nat) (lt : Str) (hlt : lt = crlf ∨ lt = lf) (qa : Bool)
    (rs : List (List Str))
    (hq : ∀ r ∈ rs, ∀ f ∈ r, (qa || needsQuote lt f) = false → Plain f)
    (hn : ∀ r ∈ rs, ∀ f ∈ r, f.length ≤ limit) :
    parseCsvWith limit (writeRows lt qa rs) = .ok rs := by
  rw [writeRows_eq, parse_encRows limit lt hlt, tagRow_snd_all]
  · intro r hr
    simp only [List.mem_map] at hr
    obtain ⟨r0, hr0, rfl⟩ := hr
    exact tagRow_valid lt qa r0 (hq r0 hr0)
  · intro r hr
    simp only [List.mem_map] at hr
    obtain ⟨r0, hr0, rfl⟩ := hr
    exact tagRow_len lt qa r0 limit (hn r0 hr0)

/-! ### 4. the machine on ARBITRARY texts: the only failure is the field limit, the output fits
the limit, success is monotone in the limit -/

theorem withState_addChar (limit : Nat) (s : St) (r : Reader) (c : Char) :
    withState s (addChar limit r c) =
      if r.fieldLen ≥ limit then .error .fieldLimit
      else .ok ⟨s, c :: r.field, r.fieldLen + 1, r.fields⟩ := by
  unfold addChar
  by_cases h : r.fieldLen ≥ limit <;> simp [h, withState]

/-- what one step of the automaton can do to the reader -/
theorem processChar_cases (limit : Nat) (r : Reader) (c : Option Char) (r' : Reader)
    (h : processChar limit r c = .ok r') :
    (∃ s, r' = ⟨s, r.field, r.fieldLen, r.fields⟩) ∨
    (∃ s, r' = ⟨s, [], 0, r.fields ++ [r.field.reverse]⟩) ∨
    (∃ s ch, r.fieldLen < limit ∧ r' = ⟨s, ch :: r.field, r.fieldLen + 1, r.fields⟩) := by
  obtain ⟨st, fld, n, flds⟩ := r
  cases st <;> cases c <;>
    simp only [processChar, startFieldCase, withState_addChar, saveField] at h <;>
    (try simp only [addChar] at h) <;>
    (repeat' split at h) <;>
    first
      | (cases h; exact Or.inl ⟨_, rfl⟩)
      | (cases h; exact Or.inr (Or.inl ⟨_, rfl⟩))
      | (cases h; exact Or.inr (Or.inr ⟨_, _, by simp only; omega, rfl⟩))
      | (cases h)

theorem processChar_error (limit : Nat) (r : Reader) (c : Option Char) (e : CsvErr)
    (h : processChar limit r c = .error e) :
    (e = .fieldLimit ∧ limit ≤ r.fieldLen) ∨ (e = .newlineInUnquoted ∧ r.state = .eatCrnl ∧ c ≠ none) := by
  obtain ⟨st, fld, n, flds⟩ := r
  cases st <;> cases c <;>
    simp only [processChar, startFieldCase, withState_addChar, saveField] at h <;>
    (try simp only [addChar] at h) <;>
    (repeat' split at h) <;>
    first
      | (cases h; exact Or.inl ⟨rfl, by simp only; omega⟩)
      | (cases h; exact Or.inr ⟨rfl, rfl, by simp⟩)
      | (cases h)

/-- after `EOL` the automaton is between records or inside a quoted field -/
theorem processChar_eol (limit : Nat) (r : Reader) :
    ∃ r', processChar limit r none = .ok r' ∧ (r'.state = .startRecord ∨ r'.state = .inQuotedField) := by
  obtain ⟨st, fld, n, flds⟩ := r
  cases st <;> simp [processChar, startFieldCase, saveField]

/-- EAT_CRNL is entered only on a CR or LF -/
theorem processChar_eatCrnl (limit : Nat) (r r' : Reader) (ch : Char)
    (h : processChar limit r (some ch) = .ok r') (hs : r'.state = .eatCrnl) :
    ch = '\n' ∨ ch = '\r' := by
  obtain ⟨st, fld, n, flds⟩ := r
  cases st <;>
    simp only [processChar, startFieldCase, withState_addChar, saveField] at h <;>
    (try simp only [addChar] at h) <;>
    (repeat' split at h) <;>
    first
      | (cases h; simp at hs; done)
      | (cases h; assumption)
      | (cases h)

/-- success does not depend on the limit, as long as it is large enough -/
theorem processChar_mono (limit L : Nat) (hL : limit ≤ L) (r r' : Reader) (c : Option Char)
    (h : processChar limit r c = .ok r') : processChar L r c = .ok r' := by
  obtain ⟨st, fld, n, flds⟩ := r
  cases st <;> cases c <;>
    simp only [processChar, startFieldCase, withState_addChar, saveField] at h ⊢ <;>
    (try simp only [addChar] at h ⊢) <;>
    (repeat' split at h) <;>
    first
      | (cases h; done)
      | (cases h; simp_all; done)
      | (cases h; simp_all; omega)

/-! ### invariants of the fused machine on ARBITRARY texts -/

/-- EAT_CRNL is only ever occupied while the line iterator still owes the line end of a CR -/
def CrInv (m : M) : Prop := m.rd.state = .eatCrnl → m.prevCR = true

theorem eolM_spec (limit : Nat) (m : M) :
    ∃ m', eolM limit m = .ok m' ∧ m'.rd.state ≠ .eatCrnl ∧
      ((m'.rd = fresh ∧ ∃ r', processChar limit m.rd none = .ok r' ∧ m'.out = m.out ++ [r'.fields]) ∨
       (processChar limit m.rd none = .ok m'.rd ∧ m'.out = m.out)) := by
  obtain ⟨r', hr, hs⟩ := processChar_eol limit m.rd
  unfold eolM
  rw [hr]
  simp only
  split
  · exact ⟨_, rfl, by simp [fresh], Or.inl ⟨rfl, r', rfl, rfl⟩⟩
  · refine ⟨_, rfl, ?_, Or.inr ⟨rfl, rfl⟩⟩
    rcases hs with h | h <;> simp [h]

theorem stepM_crinv (limit : Nat) (m : M) (c : Char) (hm : CrInv m) :
    (∀ e, stepM limit m c = .error e → e = .fieldLimit) ∧
    (∀ m', stepM limit m c = .ok m' → CrInv m') := by
  unfold stepM
  split
  · -- LF
    rename_i hc
    subst hc
    cases hp : processChar limit m.rd (some '\n') with
    | error e =>
      refine ⟨fun e' he => ?_, (fun m' he => by cases he)⟩
      simp only [Except.error.injEq] at he
      subst he
      rcases processChar_error limit m.rd _ e hp with h | ⟨_, hs, _⟩
      · exact h.1
      · -- in EAT_CRNL a LF is accepted
        simp [processChar, hs] at hp
    | ok r =>
      obtain ⟨m', hm', hs, _⟩ := eolM_spec limit ⟨r, false, true, m.out⟩
      simp only [hm']
      refine ⟨(fun e he => by cases he), fun m'' he => ?_⟩
      cases he
      intro h; exact absurd h hs
  · rename_i hc
    have key : ∀ m1 : M, m1.rd.state ≠ .eatCrnl →
        (∀ e, (match processChar limit m1.rd (some c) with
            | .error e => (.error e : Except CsvErr M)
            | .ok r => .ok ⟨r, c == '\r', true, m1.out⟩) = .error e → e = .fieldLimit) ∧
        (∀ m', (match processChar limit m1.rd (some c) with
            | .error e => (.error e : Except CsvErr M)
            | .ok r => .ok ⟨r, c == '\r', true, m1.out⟩) = .ok m' → CrInv m') := by
      intro m1 hs1
      cases hp : processChar limit m1.rd (some c) with
      | error e =>
        refine ⟨fun e' he => ?_, (fun m' he => by cases he)⟩
        simp only [Except.error.injEq] at he
        subst he
        rcases processChar_error limit m1.rd _ e hp with h | ⟨_, hs, _⟩
        · exact h.1
        · exact absurd hs hs1
      | ok r =>
        refine ⟨(fun e he => by cases he), fun m' he => ?_⟩
        cases he
        intro hs
        simp only at hs
        rcases processChar_eatCrnl limit m1.rd r c hp hs with h | h
        · exact absurd h hc
        · simp [h]
    by_cases hp : m.prevCR = true
    · simp only [hp, if_true]
      obtain ⟨m1, hm1, hs1, _⟩ := eolM_spec limit m
      simp only [hm1]
      exact key m1 hs1
    · simp only [hp, if_false]
      exact key m (fun h => hp (hm h))

theorem feedM_crinv (limit : Nat) (t : Str) (m : M) (hm : CrInv m) :
    (∀ e, feedM limit t m = .error e → e = .fieldLimit) ∧
    (∀ m', feedM limit t m = .ok m' → CrInv m') := by
  induction t generalizing m with
  | nil => exact ⟨(fun e he => by cases he), (fun m' he => by cases he; exact hm)⟩
  | cons c t ih =>
    obtain ⟨h1, h2⟩ := stepM_crinv limit m c hm
    simp only [feedM]
    cases hs : stepM limit m c with
    | error e => exact ⟨(fun e' he => by cases he; exact h1 e hs), (fun m' he => by cases he)⟩
    | ok m1 => exact ih m1 (h2 m1 hs)

/-- **the only way the parser can fail is the field limit**: with `newline=""` line iteration the
"new-line character seen in unquoted field" error of `csv.reader` is unreachable, for EVERY text -/
theorem parse_error_is_fieldLimit (limit : Nat) (text : Str) (e : CsvErr)
    (h : parseCsvWith limit text = .error e) : e = .fieldLimit := by
  rw [parse_eq_fused, runM] at h
  have hinit : CrInv ⟨fresh, false, false, []⟩ := by intro hs; simp [fresh] at hs
  obtain ⟨h1, h2⟩ := feedM_crinv limit text _ hinit
  cases hf : feedM limit text ⟨fresh, false, false, []⟩ with
  | error e' => rw [hf] at h; cases h; exact h1 e hf
  | ok m' =>
    rw [hf] at h
    simp only [finishM] at h
    by_cases hp : m'.pend = true
    · obtain ⟨m1, hm1, _⟩ := eolM_spec limit m'
      simp [hp, hm1] at h
    · simp [hp] at h

/-- the reader's buffers never exceed the limit -/
def RInv (limit : Nat) (r : Reader) : Prop :=
  r.fieldLen = r.field.length ∧ r.fieldLen ≤ limit ∧ ∀ f ∈ r.fields, f.length ≤ limit

def MFit (limit : Nat) (m : M) : Prop :=
  RInv limit m.rd ∧ ∀ r ∈ m.out, ∀ f ∈ r, f.length ≤ limit

theorem processChar_rinv (limit : Nat) (r r' : Reader) (c : Option Char) (hr : RInv limit r)
    (h : processChar limit r c = .ok r') : RInv limit r' := by
  obtain ⟨h1, h2, h3⟩ := hr
  rcases processChar_cases limit r c r' h with ⟨s, rfl⟩ | ⟨s, rfl⟩ | ⟨s, ch, hlt, rfl⟩
  · exact ⟨h1, h2, h3⟩
  · refine ⟨rfl, Nat.zero_le _, ?_⟩
    intro f hf
    simp only [List.mem_append, List.mem_singleton] at hf
    rcases hf with hf | hf
    · exact h3 f hf
    · subst hf; simp only [List.length_reverse]; omega
  · refine ⟨by simp only [List.length_cons]; omega, by simp only; omega, h3⟩

theorem rinv_fresh (limit : Nat) : RInv limit fresh :=
  ⟨rfl, Nat.zero_le _, fun f hf => by simp [fresh] at hf⟩

theorem eolM_fit (limit : Nat) (m m' : M) (hm : MFit limit m) (h : eolM limit m = .ok m') :
    MFit limit m' := by
  obtain ⟨m1, hm1, _, hcase⟩ := eolM_spec limit m
  rw [hm1] at h
  cases h
  rcases hcase with ⟨hf, r', hr', ho⟩ | ⟨hr', ho⟩
  · refine ⟨by rw [hf]; exact rinv_fresh limit, ?_⟩
    rw [ho]
    intro r hr f hf'
    simp only [List.mem_append, List.mem_singleton] at hr
    rcases hr with hr | hr
    · exact hm.2 r hr f hf'
    · subst hr; exact (processChar_rinv limit m.rd r' none hm.1 hr').2.2 f hf'
  · exact ⟨processChar_rinv limit m.rd m'.rd none hm.1 hr', by rw [ho]; exact hm.2⟩

theorem stepM_fit (limit : Nat) (m m' : M) (c : Char) (hm : MFit limit m)
    (h : stepM limit m c = .ok m') : MFit limit m' := by
  unfold stepM at h
  split at h
  · cases hp : processChar limit m.rd (some c) with
    | error e => rw [hp] at h; cases h
    | ok r =>
      rw [hp] at h
      exact eolM_fit limit ⟨r, false, true, m.out⟩ m'
        ⟨processChar_rinv limit m.rd r _ hm.1 hp, hm.2⟩ h
  · have key : ∀ m1 : M, MFit limit m1 →
        (match processChar limit m1.rd (some c) with
          | .error e => (.error e : Except CsvErr M)
          | .ok r => .ok ⟨r, c == '\r', true, m1.out⟩) = .ok m' → MFit limit m' := by
      intro m1 hm1 h1
      cases hp : processChar limit m1.rd (some c) with
      | error e => rw [hp] at h1; cases h1
      | ok r =>
        rw [hp] at h1
        cases h1
        exact ⟨processChar_rinv limit m1.rd r _ hm1.1 hp, hm1.2⟩
    by_cases hp : m.prevCR = true
    · simp only [hp, if_true] at h
      cases he : eolM limit m with
      | error e => rw [he] at h; cases h
      | ok m1 => rw [he] at h; exact key m1 (eolM_fit limit m m1 hm he) h
    · simp only [hp, if_false] at h
      exact key m hm h

theorem feedM_fit (limit : Nat) (t : Str) (m m' : M) (hm : MFit limit m)
    (h : feedM limit t m = .ok m') : MFit limit m' := by
  induction t generalizing m with
  | nil => cases h; exact hm
  | cons c t ih =>
    simp only [feedM] at h
    cases hs : stepM limit m c with
    | error e => rw [hs] at h; cases h
    | ok m1 => rw [hs] at h; exact ih m1 (stepM_fit limit m m1 c hm hs) h

/-- **whatever the reader delivers fits its field limit** — for EVERY text -/
theorem parse_output_fits (limit : Nat) (text : Str) (recs : List (List Str))
    (h : parseCsvWith limit text = .ok recs) : ∀ r ∈ recs, ∀ f ∈ r, f.length ≤ limit := by
  rw [parse_eq_fused, runM] at h
  cases hf : feedM limit text ⟨fresh, false, false, []⟩ with
  | error e => rw [hf] at h; cases h
  | ok m' =>
    rw [hf] at h
    have hm' := feedM_fit limit text _ m' ⟨rinv_fresh limit, fun r hr => by simp at hr⟩ hf
    have fin : ∀ m1 : M, MFit limit m1 → ∀ r ∈ finalM m1, ∀ f ∈ r, f.length ≤ limit := by
      intro m1 hm1 r hr f hf'
      unfold finalM at hr
      split at hr
      · simp only [List.mem_append, List.mem_singleton] at hr
        rcases hr with hr | hr
        · exact hm1.2 r hr f hf'
        · subst hr
          simp only [saveField, List.mem_append, List.mem_singleton] at hf'
          rcases hf' with hf' | hf'
          · exact hm1.1.2.2 f hf'
          · subst hf'; simp only [List.length_reverse]; have := hm1.1.1; have := hm1.1.2.1; omega
      · exact hm1.2 r hr f hf'
    simp only [finishM] at h
    by_cases hp : m'.pend = true
    · simp only [hp, if_true] at h
      cases he : eolM limit m' with
      | error e => rw [he] at h; cases h
      | ok m1 =>
        rw [he] at h
        cases h
        exact fin m1 (eolM_fit limit m' m1 hm' he)
    · simp only [hp, if_false] at h
      cases h
      exact fin m' hm'

/-! success is monotone in the limit -/

theorem eolM_mono (limit L : Nat) (hL : limit ≤ L) (m m' : M) (h : eolM limit m = .ok m') :
    eolM L m = .ok m' := by
  unfold eolM at h ⊢
  cases hp : processChar limit m.rd none with
  | error e => rw [hp] at h; cases h
  | ok r => rw [hp] at h; rw [processChar_mono limit L hL m.rd r none hp]; exact h

theorem stepM_mono (limit L : Nat) (hL : limit ≤ L) (m m' : M) (c : Char)
    (h : stepM limit m c = .ok m') : stepM L m c = .ok m' := by
  unfold stepM at h ⊢
  split
  · rename_i hc
    subst hc
    simp only [if_true] at h
    cases hp : processChar limit m.rd (some '\n') with
    | error e => rw [hp] at h; cases h
    | ok r =>
      rw [hp] at h
      rw [processChar_mono limit L hL m.rd r _ hp]
      exact eolM_mono limit L hL _ m' h
  · rename_i hc
    simp only [hc, if_false] at h
    have key : ∀ m1 : M,
        (match processChar limit m1.rd (some c) with
          | .error e => (.error e : Except CsvErr M)
          | .ok r => .ok ⟨r, c == '\r', true, m1.out⟩) = .ok m' →
        (match processChar L m1.rd (some c) with
          | .error e => (.error e : Except CsvErr M)
          | .ok r => .ok ⟨r, c == '\r', true, m1.out⟩) = .ok m' := by
      intro m1 h1
      cases hp : processChar limit m1.rd (some c) with
      | error e => rw [hp] at h1; cases h1
      | ok r => rw [hp] at h1; rw [processChar_mono limit L hL m1.rd r _ hp]; exact h1
    by_cases hp : m.prevCR = true
    · simp only [hp, if_true] at h ⊢
      cases he : eolM limit m with
      | error e => rw [he] at h; cases h
      | ok m1 => rw [he] at h; rw [eolM_mono limit L hL m m1 he]; exact key m1 h
    · simp only [hp, if_false] at h ⊢
      exact key m h

theorem feedM_mono (limit L : Nat) (hL : limit ≤ L) (t : Str) (m m' : M)
    (h : feedM limit t m = .ok m') : feedM L t m = .ok m' := by
  induction t generalizing m with
  | nil => exact h
  | cons c t ih =>
    simp only [feedM] at h ⊢
    cases hs : stepM limit m c with
    | error e => rw [hs] at h; cases h
    | ok m1 => rw [hs] at h; rw [stepM_mono limit L hL m m1 c hs]; exact ih m1 h

/-- a text that parses under one limit parses to the same records under every larger one -/
theorem parse_mono (limit L : Nat) (hL : limit ≤ L) (text : Str) (recs : List (List Str))
    (h : parseCsvWith limit text = .ok recs) : parseCsvWith L text = .ok recs := by
  rw [parse_eq_fused, runM] at h ⊢
  cases hf : feedM limit text ⟨fresh, false, false, []⟩ with
  | error e => rw [hf] at h; cases h
  | ok m' =>
    rw [hf] at h
    rw [feedM_mono limit L hL text _ m' hf]
    simp only [finishM] at h ⊢
    by_cases hp : m'.pend = true
    · simp only [hp, if_true] at h ⊢
      cases he : eolM limit m' with
      | error e => rw [he] at h; cases h
      | ok m1 => rw [he] at h; rw [eolM_mono limit L hL m' m1 he]; exact h
    · simp only [hp, if_false] at h ⊢
      exact h

end Rpft.Csv
