/-
Lemmas for JSON string literals (`Rpft/JsonText.lean`): every escaped character is read back as
itself, hence the literal round trip `scanStr_encodeString`.
-/
import Rpft.JsonText
set_option linter.unusedSimpArgs false
set_option linter.unusedVariables false
namespace Rpft.JsonText
open Rpft

theorem hex_roundtrip : ∀ n : Fin 32,
    hex4 '0' '0' (hexDigit (n.val / 16)) (hexDigit (n.val % 16)) = some n.val := by decide

theorem char_ofNat_toNat (c : Char) : Char.ofNat c.toNat = c := Char.ofNat_toNat c

/-- one escaped character is read back as that character -/
theorem scanString_escapeChar (f : Nat) (c : Char) (t acc : Str) (ht : t ≠ []) :
    scanString (f + 1) (escapeChar c ++ t) acc = scanString f t (c :: acc) := by
  unfold escapeChar
  split
  · rename_i h; subst h; simp [scanString, simpleEscape]
  split
  · rename_i h; subst h; simp [scanString, simpleEscape]
  split
  · rename_i h; subst h; simp [scanString, simpleEscape]
  split
  · rename_i h; subst h; simp [scanString, simpleEscape]
  split
  · rename_i h; subst h; simp [scanString, simpleEscape]
  split
  · rename_i h; subst h; simp [scanString, simpleEscape]
  split
  · rename_i h; subst h; simp [scanString, simpleEscape]
  split
  · rename_i h1 h2 h3 h4 h5 h6 h7 hlt
    have hr := hex_roundtrip ⟨c.toNat, hlt⟩
    simp only at hr
    have hh : isHigh c.toNat = false := by simp [isHigh]; omega
    have hl : isLow c.toNat = false := by simp [isLow]; omega
    have hte : t.isEmpty = false := by cases t with | nil => exact absurd rfl ht | cons a b => rfl
    simp [scanString, hr, hh, hl, hte, char_ofNat_toNat]
  · rename_i h1 h2 h3 h4 h5 h6 h7 hlt
    have : ¬ c.toNat ≤ 0x1f := by omega
    simp [scanString, h1, h2, this]

/-- **JSON string literal round trip**: what `json.dumps(…, ensure_ascii=False)` writes for a
string, the strict string scanner of `json.loads` reads back as that string (and stops right after
the closing quote) — for EVERY string: quotes, backslashes, control characters, any Unicode. -/
theorem scanString_encode (s : Str) (fuel : Nat) (acc rest : Str) (hf : fuel > s.length) :
    scanString fuel (s.flatMap escapeChar ++ '"' :: rest) acc = .ok (acc.reverse ++ s, rest) := by
  induction s generalizing fuel acc with
  | nil =>
    cases fuel with
    | zero => omega
    | succ f => simp [scanString]
  | cons c s ih =>
    cases fuel with
    | zero => omega
    | succ f =>
      simp only [List.flatMap_cons, List.append_assoc]
      rw [scanString_escapeChar f c _ acc (by simp), ih f (c :: acc) (by simp only [List.length_cons] at hf; omega)]
      simp

theorem escapeChar_length_pos (c : Char) : 1 ≤ (escapeChar c).length := by
  unfold escapeChar
  repeat' split
  all_goals simp

theorem length_le_flatMap (s : Str) : s.length ≤ (s.flatMap escapeChar).length := by
  induction s with
  | nil => simp
  | cons c s ih =>
    simp only [List.flatMap_cons, List.length_append, List.length_cons]
    have := escapeChar_length_pos c
    omega

theorem scanStr_encodeString (s rest : Str) : scanStr (encodeString s ++ rest) = .ok (s, rest) := by
  unfold scanStr encodeString
  simp only [List.cons_append, List.append_assoc, List.nil_append]
  rw [scanString_encode s _ [] rest (by
    have := length_le_flatMap s
    simp only [List.length_append, List.length_cons]; omega)]
  simp

end Rpft.JsonText
