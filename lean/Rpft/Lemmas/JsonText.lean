/-
Lemmas for JSON string literals (`Rpft/JsonText.lean`): every escaped character is read back as
itself, hence the literal round trip `scanStr_encodeString`.
-/
import Rpft.JsonText
set_option linter.unusedSimpArgs false
set_option linter.unusedVariables false
namespace Rpft.JsonText
open Rpft

theorem hex_roundtrip : ∀ n : Fin 32,
    hex4 '0' '0' (hexDigit (n.val / 16)) (hexDigit (n.val % 16)) = some n.val := by decide

theorem char_ofNat_toNat (c : Char) : Char.ofNat c.toNat = c := Char.ofNat_toNat c

/-- one escaped character is read back as that character -/
theorem scanString_escapeChar (f : Nat) (c : Char) (t acc : Str) (ht : t ≠ []) :
    scanString (f + 1) (escapeChar c ++ t) acc = scanString f t (c :: acc) := by
  unfold escapeChar
  split
  · rename_i h; subst h; simp [scanString, simpleEscape]
  split
  · rename_i h; subst h; simp [scanString, simpleEscape]
  split
  · rename_i h; subst h; simp [scanString, simpleEscape]
  split
  · rename_i h; subst h; simp [scanString, simpleEscape]
  split
  · rename_i h; subst h; simp [scanString, simpleEscape]
  split
  · rename_i h; subst h; simp [scanString, simpleEscape]
  split
  · rename_i h; subst h; simp [scanString, simpleEscape]
  split
  · rename_i h1 h2 h3 h4 h5 h6 h7 hlt
    have hr := hex_roundtrip ⟨c.toNat, hlt⟩
    simp only at hr
    have hh : isHigh c.toNat = false := by simp [isHigh]; omega
    have hl : isLow c.toNat = false := by simp [isLow]; omega
    have hte : t.isEmpty = false := by cases t with | nil => exact absurd rfl ht | cons a b => rfl
    simp [scanString, hr, hh, hl, hte, char_ofNat_toNat]
  · rename_i h1 h2 h3 h4 h5 h6 h7 hlt
    have : ¬ c.toNat ≤ 0x1f := by omega
    simp [scanString, h1, h2, this]

/-- **JSON string literal round trip**: what `json.dumps(…, ensure_ascii=False)` writes for a
string, the strict string scanner of `json.loads` reads back as that string (and stops right after
the closing quote) — for EVERY string: quotes, backslashes, control characters, any Unicode. -/
theorem scanString_encode (s : Str) (fuel : Nat) (acc rest : Str) (hf : fuel > s.length) :
    scanString fuel (s.flatMap escapeChar ++ '"' :: rest) acc = .ok (acc.reverse ++ s, rest) := by
  induction s generalizing fuel acc with
  | nil =>
    cases fuel with
    | zero => omega
    | succ f => simp [scanString]
  | cons c s ih =>
    cases fuel with
    | zero => omega
    | succ f =>
      simp only [List.flatMap_cons, List.append_assoc]
      rw [scanString_escapeChar f c _ acc (by simp), ih f (c :: acc) (by simp only [List.length_cons] at hf; omega)]
      simp

theorem escapeChar_length_pos (c : Char) : 1 ≤ (escapeChar c).length := by
  unfold escapeChar
  repeat' split
  all_goals simp

theorem length_le_flatMap (s : Str) : s.length ≤ (s.flatMap escapeChar).length := by
  induction s with
  | nil => simp
  | cons c s ih =>
    simp only [List.flatMap_cons, List.length_append, List.length_cons]
    have := escapeChar_length_pos c
    omega

theorem scanStr_encodeString (s rest : Str) : scanStr (encodeString s ++ rest) = .ok (s, rest) := by
  unfold scanStr encodeString
  simp only [List.cons_append, List.append_assoc, List.nil_append]
  rw [scanString_encode s _ [] rest (by
    have := length_le_flatMap s
    simp only [List.length_append, List.length_cons]; omega)]
  simp

/-! ### documents -/

def jmKeys : JMs → List Str
  | .nil => []
  | .cons k _ ms => k :: jmKeys ms

def jmAppend : JMs → JMs → JMs
  | .nil, b => b
  | .cons k v a, b => .cons k v (jmAppend a b)

def jvsAppend : JVs → JVs → JVs
  | .nil, b => b
  | .cons x a, b => .cons x (jvsAppend a b)

mutual
/-- every object has distinct keys (what a Python dict guarantees) -/
def ukV : JV → Prop
  | .str _ => True
  | .arr xs => ukVs xs
  | .obj ms => (jmKeys ms).Nodup ∧ ukMs ms
def ukVs : JVs → Prop
  | .nil => True
  | .cons x xs => ukV x ∧ ukVs xs
def ukMs : JMs → Prop
  | .nil => True
  | .cons _ v ms => ukV v ∧ ukMs ms
end

theorem jvsAppend_snoc : ∀ (a : JVs) (x : JV) (b : JVs),
    jvsAppend (jvsSnoc a x) b = jvsAppend a (.cons x b)
  | .nil, _, _ => rfl
  | .cons y a, x, b => by simp [jvsSnoc, jvsAppend, jvsAppend_snoc a x b]

theorem jvsAppend_nil : ∀ (a : JVs), jvsAppend a .nil = a
  | .nil => rfl
  | .cons y a => by simp [jvsAppend, jvsAppend_nil a]

theorem jmInsert_fresh : ∀ (k : Str) (v : JV) (a : JMs), k ∉ jmKeys a →
    jmInsert k v a = jmAppend a (.cons k v .nil)
  | _, _, .nil, _ => rfl
  | k, v, .cons k' v' a, h => by
    simp only [jmKeys, List.mem_cons, not_or] at h
    have : ¬ k' = k := fun e => h.1 e.symm
    simp [jmInsert, jmAppend, this, jmInsert_fresh k v a h.2]

theorem jmAppend_assoc_cons : ∀ (a : JMs) (k : Str) (v : JV) (b : JMs),
    jmAppend (jmAppend a (.cons k v .nil)) b = jmAppend a (.cons k v b)
  | .nil, _, _, _ => rfl
  | .cons k' v' a, k, v, b => by simp [jmAppend, jmAppend_assoc_cons a k v b]

theorem jmAppend_nil : ∀ (a : JMs), jmAppend a .nil = a
  | .nil => rfl
  | .cons k v a => by simp [jmAppend, jmAppend_nil a]

theorem jmKeys_append : ∀ (a b : JMs), jmKeys (jmAppend a b) = jmKeys a ++ jmKeys b
  | .nil, _ => rfl
  | .cons k v a, b => by simp [jmAppend, jmKeys, jmKeys_append a b]

theorem skipWs_cons (c : Char) (t : Str) (h : isWs c = false) : skipWs (c :: t) = c :: t := by
  simp [skipWs, List.dropWhile, h]

theorem skipWs_spaces (n : Nat) (c : Char) (t : Str) (h : isWs c = false) :
    skipWs (List.replicate n ' ' ++ c :: t) = c :: t := by
  induction n with
  | zero => simpa using skipWs_cons c t h
  | succ n ih =>
    simp only [List.replicate_succ, List.cons_append]
    have : isWs ' ' = true := by decide
    simp only [skipWs, List.dropWhile, this] at ih ⊢
    exact ih

theorem skipWs_nl (lvl : Nat) (c : Char) (t : Str) (h : isWs c = false) :
    skipWs (nl lvl ++ c :: t) = c :: t := by
  unfold nl
  have : isWs '\n' = true := by decide
  have h2 := skipWs_spaces (2 * lvl) c t h
  simp only [skipWs, List.cons_append, List.dropWhile, this] at h2 ⊢
  exact h2

theorem dumpValue_arr_cons (lvl : Nat) (x : JV) (xs : JVs) :
    dumpValue lvl (.arr (.cons x xs))
      = '[' :: (nl (lvl + 1) ++ dumpElems (lvl + 1) (.cons x xs) ++ nl lvl ++ [']']) := by
  rw [dumpValue]; intro h; cases h

theorem dumpValue_obj_cons (lvl : Nat) (k : Str) (v : JV) (ms : JMs) :
    dumpValue lvl (.obj (.cons k v ms))
      = '{' :: (nl (lvl + 1) ++ dumpMembers (lvl + 1) (.cons k v ms) ++ nl lvl ++ ['}']) := by
  rw [dumpValue]; intro h; cases h

theorem dumpElems_cons_cons (lvl : Nat) (x y : JV) (ys : JVs) :
    dumpElems lvl (.cons x (.cons y ys))
      = dumpValue lvl x ++ ',' :: (nl lvl ++ dumpElems lvl (.cons y ys)) := by
  rw [dumpElems]; intro h; cases h

theorem dumpMembers_cons_cons (lvl : Nat) (k : Str) (v : JV) (k2 : Str) (v2 : JV) (ms : JMs) :
    dumpMembers lvl (.cons k v (.cons k2 v2 ms))
      = encodeString k ++ ':' :: ' ' :: (dumpValue lvl v ++ ',' :: (nl lvl ++ dumpMembers lvl (.cons k2 v2 ms))) := by
  rw [dumpMembers]; intro h; cases h

/-- a dumped value starts with a quote, a bracket or a brace -/
theorem dumpValue_head (lvl : Nat) (v : JV) :
    ∃ c t, dumpValue lvl v = c :: t ∧ (c = '"' ∨ c = '[' ∨ c = '{') := by
  cases v with
  | str s => exact ⟨'"', _, rfl, Or.inl rfl⟩
  | arr xs => cases xs with
    | nil => exact ⟨'[', _, rfl, Or.inr (Or.inl rfl)⟩
    | cons x xs => exact ⟨'[', _, dumpValue_arr_cons lvl x xs, Or.inr (Or.inl rfl)⟩
  | obj ms => cases ms with
    | nil => exact ⟨'{', _, rfl, Or.inr (Or.inr rfl)⟩
    | cons k v ms => exact ⟨'{', _, dumpValue_obj_cons lvl k v ms, Or.inr (Or.inr rfl)⟩


theorem dumpElems_head (lvl : Nat) (x : JV) (xs : JVs) :
    ∃ c t, dumpElems lvl (.cons x xs) = c :: t ∧ (c = '"' ∨ c = '[' ∨ c = '{') := by
  obtain ⟨c, t, h, hc⟩ := dumpValue_head lvl x
  cases xs with
  | nil => exact ⟨c, t, by rw [dumpElems, h], hc⟩
  | cons y ys => exact ⟨c, _, by rw [dumpElems_cons_cons, h]; rfl, hc⟩

theorem dumpMembers_head (lvl : Nat) (k : Str) (v : JV) (ms : JMs) :
    ∃ t, dumpMembers lvl (.cons k v ms) = '"' :: t := by
  cases ms with
  | nil => exact ⟨_, by rw [dumpMembers]; rfl⟩
  | cons k2 v2 ms => exact ⟨_, by rw [dumpMembers_cons_cons]; rfl⟩

theorem isWs_open (c : Char) (h : c = '"' ∨ c = '[' ∨ c = '{') :
    isWs c = false ∧ c ≠ ']' ∧ c ≠ '}' := by
  rcases h with h | h | h <;> subst h <;> decide

theorem parseValue_str (f : Nat) (s rest : Str) :
    parseValue (f + 1) (encodeString s ++ rest) = .ok (.str s, rest) := by
  have hlen := length_le_flatMap s
  have := scanString_encode s ((s.flatMap escapeChar ++ '"' :: rest).length + 1) [] rest
    (by simp only [List.length_append, List.length_cons]; omega)
  simp only [encodeString, List.cons_append, List.append_assoc, List.nil_append, parseValue,
    ↓reduceIte]
  rw [this]
  simp

theorem scanKey (k rest : Str) :
    scanString ((k.flatMap escapeChar ++ '"' :: rest).length + 1) (k.flatMap escapeChar ++ '"' :: rest) []
      = .ok (k, rest) := by
  have hlen := length_le_flatMap k
  have := scanString_encode k ((k.flatMap escapeChar ++ '"' :: rest).length + 1) [] rest
    (by simp only [List.length_append, List.length_cons]; omega)
  simpa using this

theorem fuel_succ {n fuel : Nat} (h : n < fuel) : ∃ f, fuel = f + 1 ∧ n ≤ f :=
  ⟨fuel - 1, by omega, by omega⟩

theorem jvsSnoc_eq (a : JVs) (x : JV) : jvsSnoc a x = jvsAppend a (.cons x .nil) := by
  have := jvsAppend_snoc a x .nil
  rwa [jvsAppend_nil] at this

/-- one `"key": value` of an object -/
theorem parseMembers_member (f : Nat) (k V T : Str) (v : JV) (acc : JMs) (c0 : Char) (t0 : Str)
    (hV : V = c0 :: t0) (hw : isWs c0 = false) (hv : parseValue f (V ++ T) = .ok (v, T)) :
    parseMembers (f + 1) (encodeString k ++ ':' :: ' ' :: (V ++ T)) acc =
      match skipWs T with
      | [] => .error .expectingComma
      | c2 :: r3 =>
        if c2 = '}' then .ok (.obj (jmInsert k v acc), r3)
        else if c2 = ',' then parseMembers f (skipWs r3) (jmInsert k v acc)
        else .error .expectingComma := by
  have hkey := scanKey k (':' :: ' ' :: (V ++ T))
  have hcolon : isWs ':' = false := by decide
  have hsp : skipWs (' ' :: (V ++ T)) = V ++ T := by
    have := skipWs_spaces 1 c0 (t0 ++ T) hw
    simpa [hV] using this
  simp only [encodeString, List.append_assoc, List.cons_append, List.nil_append]
  rw [parseMembers]
  simp only [ne_eq, not_true_eq_false, ↓reduceIte, hkey, skipWs_cons ':' _ hcolon, hsp, hv]
  cases skipWs T <;> rfl

mutual
theorem rtV : ∀ (v : JV) (lvl : Nat) (rest : Str) (fuel : Nat), ukV v →
    2 * (dumpValue lvl v ++ rest).length < fuel →
    parseValue fuel (dumpValue lvl v ++ rest) = .ok (v, rest)
  | .str s, lvl, rest, fuel, _, hf => by
    obtain ⟨f, rfl, _⟩ := fuel_succ hf
    rw [dumpValue]
    exact parseValue_str f s rest
  | .arr .nil, lvl, rest, fuel, _, hf => by
    obtain ⟨f, rfl, _⟩ := fuel_succ hf
    simp [dumpValue, parseValue, skipWs_cons ']' rest (by decide)]
  | .arr (.cons x xs), lvl, rest, fuel, huk, hf => by
    obtain ⟨f, rfl, hf'⟩ := fuel_succ hf
    obtain ⟨c2, t2, hd, hc⟩ := dumpElems_head (lvl + 1) x xs
    obtain ⟨hw, hb, _⟩ := isWs_open c2 hc
    have key := rtE (.cons x xs) (lvl + 1) lvl rest f .nil (by simp) (by simpa [ukV] using huk)
      (by rw [dumpValue_arr_cons] at hf'; simp only [List.length_append, List.length_cons] at hf' ⊢; omega)
    rw [dumpValue_arr_cons]
    rw [hd] at key
    simp only [List.cons_append, List.append_assoc, hd, parseValue]
    simp only [List.cons_append, List.append_assoc] at key
    rw [skipWs_nl _ c2 _ hw]
    simp [hb, key, jvsAppend]
  | .obj .nil, lvl, rest, fuel, _, hf => by
    obtain ⟨f, rfl, _⟩ := fuel_succ hf
    simp [dumpValue, parseValue, skipWs_cons '}' rest (by decide)]
  | .obj (.cons k v ms), lvl, rest, fuel, huk, hf => by
    obtain ⟨f, rfl, hf'⟩ := fuel_succ hf
    obtain ⟨t2, hd⟩ := dumpMembers_head (lvl + 1) k v ms
    have hw : isWs '"' = false := by decide
    have huk' : (jmKeys (.cons k v ms)).Nodup ∧ ukMs (.cons k v ms) := by simpa [ukV] using huk
    have key := rtM (.cons k v ms) (lvl + 1) lvl rest f .nil (by simp) huk'.2 (by simpa [jmKeys] using huk'.1)
      (by rw [dumpValue_obj_cons] at hf'; simp only [List.length_append, List.length_cons] at hf' ⊢; omega)
    rw [dumpValue_obj_cons]
    rw [hd] at key
    simp only [List.cons_append, List.append_assoc, hd, parseValue]
    simp only [List.cons_append, List.append_assoc] at key
    rw [skipWs_nl _ '"' _ hw]
    simp [key, jmAppend]
theorem rtE : ∀ (xs : JVs) (lvl l' : Nat) (rest : Str) (fuel : Nat) (acc : JVs), xs ≠ .nil → ukVs xs →
    2 * (dumpElems lvl xs ++ (nl l' ++ ']' :: rest)).length + 1 < fuel →
    parseElems fuel (dumpElems lvl xs ++ (nl l' ++ ']' :: rest)) acc = .ok (.arr (jvsAppend acc xs), rest)
  | .nil, _, _, _, _, _, hne, _, _ => absurd rfl hne
  | .cons x .nil, lvl, l', rest, fuel, acc, _, huk, hf => by
    obtain ⟨f, rfl, hf'⟩ := fuel_succ hf
    have hx : ukV x := by simp only [ukVs] at huk; exact huk.1
    rw [dumpElems] at hf' ⊢
    have hv := rtV x lvl (nl l' ++ ']' :: rest) f hx (by omega)
    have hws : isWs ']' = false := by decide
    simp [parseElems, hv, skipWs_nl l' ']' rest hws, jvsSnoc_eq]
  | .cons x (.cons y ys), lvl, l', rest, fuel, acc, _, huk, hf => by
    obtain ⟨f, rfl, hf'⟩ := fuel_succ hf
    have hx : ukV x := by simp only [ukVs] at huk; exact huk.1
    have hys : ukVs (.cons y ys) := by simp only [ukVs] at huk ⊢; exact huk.2
    rw [dumpElems_cons_cons] at hf' ⊢
    simp only [List.append_assoc, List.cons_append] at hf' ⊢
    have hv := rtV x lvl (',' :: (nl lvl ++ (dumpElems lvl (.cons y ys) ++ (nl l' ++ ']' :: rest)))) f hx (by omega)
    obtain ⟨c2, t2, hd, hc⟩ := dumpElems_head lvl y ys
    obtain ⟨hw, _, _⟩ := isWs_open c2 hc
    have ih := rtE (.cons y ys) lvl l' rest f (jvsSnoc acc x) (by simp) hys
      (by simp only [List.length_append, List.length_cons] at hf' ⊢; omega)
    have hcomma : isWs ',' = false := by decide
    rw [hd] at ih hv
    simp only [List.cons_append] at ih hv
    simp [parseElems, hv, skipWs_cons ',' _ hcomma, hd, skipWs_nl lvl c2 _ hw, ih, jvsAppend_snoc]
theorem rtM : ∀ (ms : JMs) (lvl l' : Nat) (rest : Str) (fuel : Nat) (acc : JMs), ms ≠ .nil → ukMs ms →
    (jmKeys acc ++ jmKeys ms).Nodup →
    2 * (dumpMembers lvl ms ++ (nl l' ++ '}' :: rest)).length + 1 < fuel →
    parseMembers fuel (dumpMembers lvl ms ++ (nl l' ++ '}' :: rest)) acc = .ok (.obj (jmAppend acc ms), rest)
  | .nil, _, _, _, _, _, hne, _, _, _ => absurd rfl hne
  | .cons k v .nil, lvl, l', rest, fuel, acc, _, huk, hnd, hf => by
    obtain ⟨f, rfl, hf'⟩ := fuel_succ hf
    have hv0 : ukV v := by simp only [ukMs] at huk; exact huk.1
    have hk : k ∉ jmKeys acc := by
      simp only [jmKeys, List.nodup_append, List.mem_cons, List.mem_singleton] at hnd
      intro hmem; exact hnd.2.2 k hmem k (Or.inl rfl) rfl
    rw [dumpMembers] at hf' ⊢
    simp only [List.append_assoc, List.cons_append] at hf' ⊢
    have hv := rtV v lvl (nl l' ++ '}' :: rest) f hv0
      (by simp only [List.length_append, List.length_cons] at hf' ⊢; omega)
    have hbrace : isWs '}' = false := by decide
    obtain ⟨c2, t2, hd, hc⟩ := dumpValue_head lvl v
    obtain ⟨hw, _, _⟩ := isWs_open c2 hc
    rw [parseMembers_member f k _ _ v acc c2 t2 hd hw hv, skipWs_nl l' '}' rest hbrace]
    simp [jmInsert_fresh k v acc hk]
  | .cons k v (.cons k2 v2 ms), lvl, l', rest, fuel, acc, _, huk, hnd, hf => by
    obtain ⟨f, rfl, hf'⟩ := fuel_succ hf
    have hv0 : ukV v := by simp only [ukMs] at huk; exact huk.1
    have hms : ukMs (.cons k2 v2 ms) := by simp only [ukMs] at huk ⊢; exact huk.2
    have hk : k ∉ jmKeys acc := by
      simp only [jmKeys, List.nodup_append, List.mem_cons] at hnd
      intro hmem; exact hnd.2.2 k hmem k (Or.inl rfl) rfl
    have hnd' : (jmKeys (jmInsert k v acc) ++ jmKeys (.cons k2 v2 ms)).Nodup := by
      rw [jmInsert_fresh k v acc hk, jmKeys_append]
      simpa [jmKeys, List.append_assoc] using hnd
    rw [dumpMembers_cons_cons] at hf' ⊢
    simp only [List.append_assoc, List.cons_append] at hf' ⊢
    have hv := rtV v lvl (',' :: (nl lvl ++ (dumpMembers lvl (.cons k2 v2 ms) ++ (nl l' ++ '}' :: rest)))) f hv0
      (by simp only [List.length_append, List.length_cons] at hf' ⊢; omega)
    have hcomma : isWs ',' = false := by decide
    have hq : isWs '"' = false := by decide
    obtain ⟨c2, t2, hd, hc⟩ := dumpValue_head lvl v
    obtain ⟨hw, _, _⟩ := isWs_open c2 hc
    obtain ⟨tm, hm⟩ := dumpMembers_head lvl k2 v2 ms
    have ih := rtM (.cons k2 v2 ms) lvl l' rest f (jmInsert k v acc) (by simp) hms hnd'
      (by simp only [List.length_append, List.length_cons] at hf' ⊢; omega)
    rw [parseMembers_member f k _ _ v acc c2 t2 hd hw hv, skipWs_cons ',' _ hcomma]
    have hsk : skipWs (nl lvl ++ (dumpMembers lvl (.cons k2 v2 ms) ++ (nl l' ++ '}' :: rest)))
        = dumpMembers lvl (.cons k2 v2 ms) ++ (nl l' ++ '}' :: rest) := by
      rw [hm]; exact skipWs_nl lvl '"' _ hq
    simp only [hsk, ih]
    simp [jmInsert_fresh k v acc hk, jmAppend_assoc_cons]
end


/-- **JSON document round trip**: `json.loads(json.dumps(v, ensure_ascii=False, indent=2)) == v`
for every value built from strings, arrays and objects with distinct keys. -/
theorem loads_dumps (v : JV) (huk : ukV v) : loads (dumps v) = .ok v := by
  obtain ⟨c, t, hd, hc⟩ := dumpValue_head 0 v
  obtain ⟨hw, _, _⟩ := isWs_open c hc
  have hrt := rtV v 0 [] (2 * (dumps v).length + 2) huk (by simp only [dumps, List.append_nil]; omega)
  simp only [List.append_nil] at hrt
  unfold loads
  have hne : c ≠ '\ufeff' := by rcases hc with h | h | h <;> subst h <;> decide
  unfold dumps at hrt ⊢
  rw [hd] at hrt ⊢
  split
  · rename_i heq; cases heq; exact absurd rfl hne
  · rw [skipWs_cons c t hw, hrt]
    simp [skipWs]

end Rpft.JsonText
