import Rpft.RefFlow
/-! Identifiers the reference flow invents (`k`, `k‹tag›i`) decode uniquely. -/
set_option linter.unusedSimpArgs false
namespace Rpft.RefFlow
open Rpft Rpft.Flow

theorem natStr_eq (n : Nat) : natStr n = Nat.toDigits 10 n := by
  unfold natStr
  show (toString n).toList = _
  rw [Nat.toString_eq_repr, Nat.toList_repr]

theorem natStr_injective {a b : Nat} (h : natStr a = natStr b) : a = b := by
  rw [natStr_eq, natStr_eq] at h
  have ha := @Nat.ofDigitChars_ten_toDigits a
  have hb := @Nat.ofDigitChars_ten_toDigits b
  rw [h] at ha
  omega

theorem natStr_digits (n : Nat) : ∀ c ∈ natStr n, c.isDigit = true := by
  intro c hc
  rw [natStr_eq] at hc
  exact Nat.isDigit_of_mem_toDigits (by decide) (by decide) hc

/-- structured form of the identifiers the reference flow invents -/
inductive Key where
  | node (k : Nat)
  | sub (k : Nat) (tag : Char) (i : Nat)
  deriving DecidableEq, Repr

def Key.idx : Key → Nat
  | .node k => k
  | .sub k _ _ => k

def Key.ok : Key → Prop
  | .node _ => True
  | .sub _ t _ => t.isDigit = false

def enc : Key → Id
  | .node k => natStr k
  | .sub k t i => natStr k ++ t :: natStr i

theorem takeWhile_digits (ds rest : Str) (t : Char) (hd : ∀ c ∈ ds, c.isDigit = true)
    (ht : t.isDigit = false) :
    (ds ++ t :: rest).takeWhile Char.isDigit = ds ∧ (ds ++ t :: rest).dropWhile Char.isDigit = t :: rest := by
  induction ds with
  | nil => simp [List.takeWhile, List.dropWhile, ht]
  | cons d ds ih =>
    have h1 : d.isDigit = true := hd d (by simp)
    have := ih (fun c hc => hd c (by simp [hc]))
    simp [List.takeWhile, List.dropWhile, h1, this]

theorem takeWhile_all (ds : Str) (hd : ∀ c ∈ ds, c.isDigit = true) :
    ds.takeWhile Char.isDigit = ds ∧ ds.dropWhile Char.isDigit = [] := by
  induction ds with
  | nil => simp
  | cons d ds ih =>
    have h1 : d.isDigit = true := hd d (by simp)
    have := ih (fun c hc => hd c (by simp [hc]))
    simp [List.takeWhile, List.dropWhile, h1, this]

theorem enc_split (a : Key) (ha : a.ok) :
    (enc a).takeWhile Char.isDigit = natStr a.idx ∧
    (enc a).dropWhile Char.isDigit = (match a with | .node _ => [] | .sub _ t i => t :: natStr i) := by
  cases a with
  | node k => exact takeWhile_all _ (natStr_digits k)
  | sub k t i => exact takeWhile_digits _ _ _ (natStr_digits k) ha

theorem enc_injective {a b : Key} (ha : a.ok) (hb : b.ok) (h : enc a = enc b) : a = b := by
  have h1 := enc_split a ha
  have h2 := enc_split b hb
  rw [h] at h1
  have hk : a.idx = b.idx := natStr_injective (h1.1.symm.trans h2.1)
  have hd := h1.2.symm.trans h2.2
  cases a with
  | node k =>
    cases b with
    | node k' => simp only [Key.idx] at hk; rw [hk]
    | sub k' t' i' => simp at hd
  | sub k t i =>
    cases b with
    | node k' => simp at hd
    | sub k' t' i' =>
      simp only [Key.idx] at hk
      simp only [List.cons.injEq] at hd
      rw [hk, hd.1, natStr_injective hd.2]

end Rpft.RefFlow
