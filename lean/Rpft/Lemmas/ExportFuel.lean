/-
Helper lemmas for C17: the recursion fuel `|nodes| + 1` of the exporter model is never exhausted
(every recursive call visits a node of the flow that was not visited before).
-/
import Rpft.Lemmas.ExportDfs
set_option linter.unusedSimpArgs false
set_option linter.unusedVariables false
set_option linter.unusedSectionVars false
namespace Rpft.Export
open Function

variable {U : Type} [DecidableEq U]

/-- number of nodes of the flow whose uuid has not been visited -/
def unvisited : FlowX U → List U → Nat
  | [], _ => 0
  | n :: f, vis => (if n.uuid ∈ vis then 0 else 1) + unvisited f vis

theorem unvisited_mono (f : FlowX U) {vis vis' : List U} (h : ∀ u ∈ vis, u ∈ vis') :
    unvisited f vis' ≤ unvisited f vis := by
  induction f with
  | nil => simp [unvisited]
  | cons n f ih =>
    simp only [unvisited]
    by_cases h1 : n.uuid ∈ vis
    · have h2 := h _ h1
      simp only [h1, h2, if_true]; omega
    · by_cases h2 : n.uuid ∈ vis'
      · simp only [h1, h2, if_true, if_false]; omega
      · simp only [h1, h2, if_false]; omega

theorem unvisited_cons_lt (f : FlowX U) {vis : List U} {n : NodeX U} (hn : n ∈ f) (hv : n.uuid ∉ vis) :
    unvisited f (n.uuid :: vis) < unvisited f vis := by
  induction f with
  | nil => cases hn
  | cons m f ih =>
    have hm := unvisited_mono f (vis := vis) (vis' := n.uuid :: vis) (fun u hu => List.mem_cons_of_mem _ hu)
    simp only [unvisited]
    by_cases hmn : m.uuid = n.uuid
    · have h1 : m.uuid ∈ n.uuid :: vis := by rw [hmn]; exact List.mem_cons_self ..
      have h2 : m.uuid ∉ vis := by rw [hmn]; exact hv
      simp only [h1, h2, if_true, if_false]; omega
    · have hn' : n ∈ f := by
        cases hn with
        | head => exact absurd rfl hmn
        | tail _ h => exact h
      have := ih hn'
      by_cases h1 : m.uuid ∈ vis
      · have h2 : m.uuid ∈ n.uuid :: vis := List.mem_cons_of_mem _ h1
        simp only [h1, h2, if_true]; omega
      · have h2 : m.uuid ∉ n.uuid :: vis := by
          intro hmem
          rcases List.mem_cons.1 hmem with h | h
          · exact hmn h
          · exact h1 h
        simp only [h1, h2, if_false]; omega

theorem unvisited_le_length (f : FlowX U) (vis : List U) : unvisited f vis ≤ f.length := by
  induction f with
  | nil => simp [unvisited]
  | cons n f ih => simp only [unvisited, List.length_cons]; split <;> omega

theorem findNode_mem {f : FlowX U} {d : U} {child : NodeX U} (h : findNode f d = some child) : child ∈ f :=
  List.mem_of_find?_eq_some h

theorem loop_visited_mono (f : FlowX U) (rc : NodeX U → EdgeT U → St U → Except Err (St U))
    (hrc : ∀ child e s s', rc child e s = .ok s' → ∀ u ∈ s.visited, u ∈ s'.visited)
    (fromId : TempId U) (es : List (Label × Option U)) :
    ∀ st st', loop f rc fromId es st = .ok st' → ∀ u ∈ st.visited, u ∈ st'.visited := by
  induction es with
  | nil => intro st st' h; simp only [loop] at h; cases h; exact fun u hu => hu
  | cons le es ih =>
    intro st st' h
    obtain ⟨lab, d⟩ := le
    cases d with
    | none => exact ih st st' (by simpa [loop] using h)
    | some d =>
      simp only [loop] at h
      cases hfn : findNode f d with
      | none => simp [hfn] at h
      | some child =>
        simp only [hfn] at h
        by_cases h1 : child.uuid ∈ st.completed
        · simp only [h1, if_true] at h
          exact fun u hu => ih _ st' h u hu
        · simp only [h1, if_false] at h
          by_cases h2 : child.uuid ∈ st.visited
          · simp only [h2, if_true] at h
            exact fun u hu => ih _ st' h u hu
          · simp only [h2, if_false] at h
            cases hr : rc child ⟨some fromId, lab⟩ st with
            | error e => simp [hr] at h
            | ok s1 =>
              simp only [hr] at h
              intro u hu
              exact ih s1 st' h u (hrc _ _ _ _ hr u hu)

theorem dfs_visited_mono (f : FlowX U) (fuel : Nat) :
    ∀ (n : NodeX U) (pe : EdgeT U) (st st' : St U), dfs f fuel n pe st = .ok st' →
      ∀ u ∈ st.visited, u ∈ st'.visited := by
  induction fuel with
  | zero => intro n pe st st' h; simp [dfs] at h
  | succ fuel ih =>
    intro n pe st st' h
    simp only [dfs] at h
    by_cases hr : n.rows = []
    · simp [hr] at h
    · simp only [hr, if_false] at h
      cases hl : loop f (dfs f fuel) (rowId n (n.rows.length - 1)) n.edges.reverse { st with visited := n.uuid :: st.visited } with
      | error e => simp [hl] at h
      | ok st2 =>
        simp only [hl] at h
        cases h
        intro u hu
        exact loop_visited_mono f (dfs f fuel) (fun c e s s' => ih c e s s') _ _ _ _ hl u (List.mem_cons_of_mem _ hu)

theorem loop_no_fuel (f : FlowX U) (fuel : Nat) (rc : NodeX U → EdgeT U → St U → Except Err (St U))
    (hmono : ∀ child e s s', rc child e s = .ok s' → ∀ u ∈ s.visited, u ∈ s'.visited)
    (hrc : ∀ child e s, child ∈ f → child.uuid ∉ s.visited → unvisited f s.visited ≤ fuel → rc child e s ≠ .error .fuel)
    (fromId : TempId U) (es : List (Label × Option U)) :
    ∀ st, unvisited f st.visited ≤ fuel → loop f rc fromId es st ≠ .error .fuel := by
  induction es with
  | nil => intro st _ h; simp [loop] at h
  | cons le es ih =>
    intro st hm
    obtain ⟨lab, d⟩ := le
    cases d with
    | none => simpa [loop] using ih st hm
    | some d =>
      simp only [loop]
      cases hfn : findNode f d with
      | none => simp
      | some child =>
        simp only []
        by_cases h1 : child.uuid ∈ st.completed
        · simp only [h1, if_true]
          exact ih _ hm
        · simp only [h1, if_false]
          by_cases h2 : child.uuid ∈ st.visited
          · simp only [h2, if_true]
            exact ih _ hm
          · simp only [h2, if_false]
            cases hr : rc child ⟨some fromId, lab⟩ st with
            | error e =>
              simp only []
              intro he
              cases he
              exact hrc child _ st (findNode_mem hfn) h2 hm hr
            | ok s1 =>
              simp only []
              exact ih s1 (Nat.le_trans (unvisited_mono f (hmono _ _ _ _ hr)) hm)

theorem dfs_no_fuel (f : FlowX U) (fuel : Nat) :
    ∀ (n : NodeX U) (pe : EdgeT U) (st : St U), n ∈ f → n.uuid ∉ st.visited → unvisited f st.visited ≤ fuel →
      dfs f fuel n pe st ≠ .error .fuel := by
  induction fuel with
  | zero =>
    intro n pe st hn hv hm
    have := unvisited_cons_lt f hn hv
    omega
  | succ fuel ih =>
    intro n pe st hn hv hm
    simp only [dfs]
    by_cases hr : n.rows = []
    · simp [hr]
    · simp only [hr, if_false]
      have hlt := unvisited_cons_lt f hn hv
      have := loop_no_fuel f fuel (dfs f fuel) (fun c e s s' => dfs_visited_mono f fuel c e s s')
        (fun c e s => ih c e s) (rowId n (n.rows.length - 1)) n.edges.reverse
        { st with visited := n.uuid :: st.visited } (by simp only []; omega)
      cases hl : loop f (dfs f fuel) (rowId n (n.rows.length - 1)) n.edges.reverse { st with visited := n.uuid :: st.visited } with
      | error e =>
        simp only []
        intro he
        cases he
        exact this hl
      | ok st2 => simp

/-- the fuel of `toRowsT` is never exhausted -/
theorem toRowsT_no_fuel (f : FlowX U) : toRowsT f ≠ .error .fuel := by
  cases f with
  | nil => simp [toRowsT]
  | cons n0 f =>
    simp only [toRowsT, List.length_cons]
    have := dfs_no_fuel (n0 :: f) (f.length + 1 + 1) n0 ⟨none, blankLabel⟩ ⟨[], [], [], 0⟩
      (List.mem_cons_self ..) (by simp)
      (by have := unvisited_le_length (n0 :: f) ([] : List U); simp only [List.length_cons] at this ⊢; omega)
    cases hd : dfs (n0 :: f) (f.length + 1 + 1) n0 ⟨none, blankLabel⟩ ⟨[], [], [], 0⟩ with
    | error e =>
      simp only []
      intro he
      cases he
      exact this hd
    | ok st => simp

/-! ### the uniqueness counter always finds a free name -/

theorem cand_inj (base : Str) {i j : Nat} (h : cand base i = cand base j) : i = j := by
  simp only [cand] at h
  by_cases hi : i = 0 <;> by_cases hj : j = 0
  · omega
  · simp only [hi, hj, if_true, if_false] at h
    have := List.self_eq_append_right.1 h
    cases this
  · simp only [hi, hj, if_true, if_false] at h
    have := List.self_eq_append_right.1 h.symm
    cases this
  · simp only [hi, hj, if_false] at h
    have := List.append_cancel_left h
    simp only [List.cons.injEq, true_and] at this
    exact natStr_inj this

theorem nodup_map_of_inj {α β : Type} (g : α → β) (hg : ∀ a b, g a = g b → a = b) {l : List α} (h : l.Nodup) :
    (l.map g).Nodup := by
  induction l with
  | nil => simp
  | cons a l ih =>
    rw [List.nodup_cons] at h
    simp only [List.map_cons, List.nodup_cons]
    refine ⟨?_, ih h.2⟩
    intro hm
    obtain ⟨b, hb, e⟩ := List.mem_map.1 hm
    exact h.1 (hg _ _ e ▸ hb)

theorem pickName_ok (base : Str) (used : List Str) : ∃ new, pickName base used = .ok new := by
  unfold pickName
  cases hf : (List.range (used.length + 1)).find? (fun k => decide (cand base k ∉ used)) with
  | some k => exact ⟨_, rfl⟩
  | none =>
    exfalso
    rw [List.find?_eq_none] at hf
    have hsub : (List.range (used.length + 1)).map (cand base) ⊆ used := by
      intro x hx
      obtain ⟨k, hk, e⟩ := List.mem_map.1 hx
      have := hf k hk
      simp only [decide_eq_true_eq, Classical.not_not] at this
      exact e ▸ this
    have hnd := nodup_map_of_inj (cand base) (fun a b => cand_inj base) (List.nodup_range (n := used.length + 1))
    have := hnd.length_le_of_subset hsub
    simp only [List.length_map, List.length_range] at this
    omega

theorem buildTable_ok (numbered : Bool) (rows : List (RowT U)) :
    ∀ (idx : Nat) (d : Dict (TempId U) Str), ∃ d', buildTable numbered idx rows d = .ok d' := by
  induction rows with
  | nil => intro idx d; exact ⟨d, rfl⟩
  | cons r rows ih =>
    intro idx d
    simp only [buildTable]
    cases numbered with
    | true => simpa using ih (idx + 1) _
    | false =>
      obtain ⟨new, hn⟩ := pickName_ok r.id.2 (usedValues d)
      simp only [Bool.false_eq_true, if_false, hn]
      exact ih (idx + 1) _

theorem remapRows_error (d : Dict (TempId U) Str) (rows : List (RowT U)) (e : Err)
    (h : remapRows d rows = .error e) : e = .keyError := by
  have hlook : ∀ k x, look d k = .error x → x = .keyError := by
    intro k x hk
    unfold look at hk
    split at hk <;> cases hk
    rfl
  have hids : ∀ ks x, remapIds d ks = .error x → x = .keyError := by
    intro ks
    induction ks with
    | nil => intro x hx; simp [remapIds] at hx
    | cons k ks ih =>
      intro x hx
      simp only [remapIds] at hx
      cases h1 : look d k with
      | error y =>
        simp only [h1] at hx
        cases hx
        exact hlook _ _ h1
      | ok s =>
        cases h2 : remapIds d ks with
        | error y => simp only [h1, h2] at hx; cases hx; exact ih _ h2
        | ok r => simp [h1, h2] at hx
  have hedges : ∀ es x, remapEdges d es = .error x → x = .keyError := by
    intro es
    induction es with
    | nil => intro x hx; simp [remapEdges] at hx
    | cons ed es ih =>
      intro x hx
      simp only [remapEdges] at hx
      cases h1 : lookFrom d ed.from_ with
      | error y =>
        simp only [h1] at hx
        cases hx
        cases hf : ed.from_ with
        | none => simp [lookFrom, hf] at h1
        | some k => simp only [lookFrom, hf] at h1; exact hlook _ _ h1
      | ok s =>
        cases h2 : remapEdges d es with
        | error y => simp only [h1, h2] at hx; cases hx; exact ih _ h2
        | ok r => simp [h1, h2] at hx
  induction rows with
  | nil => simp [remapRows] at h
  | cons r rows ih =>
    simp only [remapRows] at h
    cases h1 : remapRow d r with
    | error y =>
      simp only [h1] at h
      cases h
      simp only [remapRow] at h1
      cases a1 : look d r.id with
      | error z => simp only [a1] at h1; cases h1; exact hlook _ _ a1
      | ok i =>
        cases a2 : remapIds d r.goto with
        | error z => simp only [a1, a2] at h1; cases h1; exact hids _ _ a2
        | ok g =>
          cases a3 : remapEdges d r.edges with
          | error z => simp only [a1, a2, a3] at h1; cases h1; exact hedges _ _ a3
          | ok es => simp [a1, a2, a3] at h1
    | ok a =>
      cases h2 : remapRows d rows with
      | error y => simp only [h1, h2] at h; cases h; exact ih h2
      | ok b => simp [h1, h2] at h

/-- the only error the remapping can report is a failed lookup (`KeyError`): the uniqueness counter
always finds a free name -/
theorem remap_error (numbered : Bool) (rows : List (RowT U)) (e : Err) (h : remap numbered rows = .error e) :
    e = .keyError := by
  unfold remap at h
  obtain ⟨d, hd⟩ := buildTable_ok numbered rows 0 []
  simp only [hd] at h
  exact remapRows_error d rows e h

end Rpft.Export
