/-
C09, positional vs keyword in general: the relation `Enc ty v pv` — "the parsed cell value
`pv` (what `CellParser.parse` returns: strings and nested lists) is AN encoding of the value
`v : ty`" — with lists given element by element (or as a single value), records given by
entries that are each positional or `key;value`, in any mixture and at any nesting depth;
and the theorem that every encoding decodes to the value (`assign_value` + validation).
-/
import Rpft.Lemmas.RowMixed
import Rpft.Lemmas.RowAny
set_option linter.unusedSimpArgs false
set_option linter.unusedVariables false
namespace Rpft.Row
open Rpft

/-- `pv` is assigned as a tree that validates to `v` -/
def Decodes (ty : Ty) (v : Val) (pv : PV) : Prop :=
  ∃ tr, assignValue ty pv = .ok (some tr) ∧ validate ty tr = .ok v

/-- `assign_value` followed by validation -/
def decode (ty : Ty) (pv : PV) : Except Err Val :=
  match assignValue ty pv with
  | .error e => .error e
  | .ok r => validate ty (r.getD Tree.none)

theorem decode_of_decodes {ty : Ty} {v : Val} {pv : PV} (h : Decodes ty v pv) :
    decode ty pv = .ok v := by
  obtain ⟨tr, h1, h2⟩ := h
  simp [decode, h1, h2]

/-- one entry of a record value: positional (the value alone, at the index of its field) or
keyword (`key;value`, `key` a header of the field) -/
structure REntry where
  kw : Bool
  key : Str
  f : Field
  x : Val
  pv : PV

def REntry.entry (e : REntry) : PV := if e.kw then .list [.atom e.key, e.pv] else e.pv

def RPosAt (sfs : List Field) : Nat → List REntry → Prop
  | _, [] => True
  | i, e :: es => (e.kw = false → sfs[i]? = some e.f) ∧ RPosAt sfs (i + 1) es

theorem assignEntries_gen (sfs : List Field) (h2f : List (Str × Str)) (tr : REntry → Tree) :
    ∀ (es : List REntry) (i : Nat) (acc : List (Str × Tree)),
      RPosAt sfs i es → (es.map (·.f.1)).Nodup →
      (∀ e ∈ es, fieldLookup e.f.1 sfs = some e.f ∧
        assignValue e.f.2.1 e.pv = .ok (some (tr e)) ∧
        (e.kw = true → remap h2f e.key = e.f.1) ∧
        (e.kw = false → tryKwarg (fieldAssigners sfs) h2f e.pv = none)) →
      (∀ e ∈ es, alookup e.f.1 acc = none) →
      assignEntries (fieldAssigners sfs) h2f (fieldAssigners (sfs.drop i)) (es.map (·.entry)) acc =
        .ok (acc ++ es.map fun e => (e.f.1, tr e))
  | [], _, acc, _, _, _, _ => by simp [assignEntries]
  | e :: es, i, acc, hat, hnd, hok, hacc => by
    obtain ⟨hfl, hav, hkey, hun⟩ := hok e (by simp)
    have habs : alookup e.f.1 acc = none := hacc e (by simp)
    have hacc' : ∀ q ∈ es, alookup q.f.1 (acc ++ [(e.f.1, tr e)]) = none := by
      intro q hq
      rw [alookup_append, hacc q (List.mem_cons_of_mem _ hq)]
      have hne : e.f.1 ≠ q.f.1 := by
        intro h
        have hmem : q.f.1 ∈ es.map (·.f.1) := List.mem_map_of_mem (f := fun q : REntry => q.f.1) hq
        rw [← h] at hmem
        exact (List.nodup_cons.mp hnd).1 hmem
      simp [alookup, hne]
    have ih := assignEntries_gen sfs h2f tr es (i + 1) (acc ++ [(e.f.1, tr e)]) hat.2
      (List.nodup_cons.mp hnd).2 (fun q hq => hok q (List.mem_cons_of_mem _ hq)) hacc'
    rw [List.map_cons]
    cases hk : e.kw with
    | false =>
      have hget := hat.1 hk
      have hent : e.entry = e.pv := by simp [REntry.entry, hk]
      rw [hent, fieldAssigners_drop_get sfs i e.f hget]
      simp only [assignEntries, hun hk, hav, setOpt]
      rw [aset_of_absent _ _ acc habs, ih]
      simp
    | true =>
      have hent : e.entry = .list [.atom e.key, e.pv] := by simp [REntry.entry, hk]
      have hkw : tryKwarg (fieldAssigners sfs) h2f (.list [.atom e.key, e.pv]) =
          some (e.f.1, assignValue e.f.2.1, e.pv) := by
        simp [tryKwarg, hkey hk, alookup_fieldAssigners sfs e.f.1 e.f hfl]
      rw [hent]
      simp only [assignEntries, hkw, hav, setOpt, fieldAssigners_drop_tail]
      rw [aset_of_absent _ _ acc habs, ih]
      simp

theorem alookup_map_entryTr (tr : REntry → Tree) : ∀ (es : List REntry),
    (es.map (·.f.1)).Nodup → ∀ e ∈ es,
    alookup e.f.1 (es.map fun e => (e.f.1, tr e)) = some (tr e)
  | [], _, e, h => by simp at h
  | q :: es, hnd, e, h => by
    simp only [List.mem_cons] at h
    rcases h with rfl | h
    · simp [alookup]
    · have hne : q.f.1 ≠ e.f.1 := by
        intro h'
        have hmem : e.f.1 ∈ es.map (·.f.1) := List.mem_map_of_mem (f := fun q : REntry => q.f.1) h
        rw [← h'] at hmem
        exact (List.nodup_cons.mp hnd).1 hmem
      simp [alookup, hne]
      exact alookup_map_entryTr tr es (List.nodup_cons.mp hnd).2 e h

/-- **a record, from its entries** -/
theorem decodes_model (sfs : List Field) (h2f f2h : List (Str × Str)) (kvs : List (Str × Val))
    (es : List REntry)
    (hnames : kvs.map Prod.fst = sfs.map (·.1)) (hnd : (sfs.map (·.1)).Nodup)
    (hmem : ∀ e ∈ es, (e.f, e.x) ∈ sfs.zip (kvs.map Prod.snd))
    (hat : RPosAt sfs 0 es) (hndE : (es.map (·.f.1)).Nodup)
    (hdec : ∀ e ∈ es, Decodes e.f.2.1 e.x e.pv)
    (hkey : ∀ e ∈ es, e.kw = true → remap h2f e.key = e.f.1)
    (hU2 : ∀ e ∈ es, e.kw = false → tryKwarg (fieldAssigners sfs) h2f e.pv = none)
    (hU1 : tryKwarg (fieldAssigners sfs) h2f (.list (es.map (·.entry))) = none)
    (hrest : ∀ p ∈ sfs.zip (kvs.map Prod.snd), (∃ e ∈ es, (e.f, e.x) = p) ∨ p.1.2.2 = some p.2) :
    Decodes (.model sfs h2f f2h) (.model kvs) (.list (es.map (·.entry))) := by
  -- choose the tree of every entry
  let tr : REntry → Tree := fun e => Classical.epsilon fun t =>
    assignValue e.f.2.1 e.pv = .ok (some t) ∧ validate e.f.2.1 t = .ok e.x
  have htr : ∀ e ∈ es, assignValue e.f.2.1 e.pv = .ok (some (tr e)) ∧
      validate e.f.2.1 (tr e) = .ok e.x := by
    intro e he
    exact Classical.epsilon_spec (p := fun t =>
      assignValue e.f.2.1 e.pv = .ok (some t) ∧ validate e.f.2.1 t = .ok e.x) (hdec e he)
  have hassign := assignEntries_gen sfs h2f tr es 0 [] hat hndE
    (fun e he => ⟨fieldLookup_mem sfs hnd _ (List.of_mem_zip (hmem e he)).1, (htr e he).1,
      hkey e he, hU2 e he⟩) (fun _ _ => rfl)
  simp only [List.drop_zero, List.nil_append] at hassign
  refine ⟨.dict (es.map fun e => (e.f.1, tr e)), ?_, ?_⟩
  · simp only [assignValue, assignModel, hU1, hassign]
  · simp only [validate]
    rw [validateFields_of_spec _ sfs kvs hnames]
    intro p hp
    have hcase : (∃ e ∈ es, (e.f, e.x) = p) ∨ ((¬ ∃ e ∈ es, e.f.1 = p.1.1) ∧ p.1.2.2 = some p.2) := by
      rcases hrest p hp with h | hd
      · exact Or.inl h
      · by_cases hex : ∃ e ∈ es, e.f.1 = p.1.1
        · obtain ⟨e, he, hen⟩ := hex
          left
          refine ⟨e, he, ?_⟩
          have h1 := alookup_zip sfs kvs hnames hnd _ (hmem e he)
          have h2 := alookup_zip sfs kvs hnames hnd p hp
          have hf1 := fieldLookup_mem sfs hnd _ (List.of_mem_zip (hmem e he)).1
          have hf2 := fieldLookup_mem sfs hnd p.1 (List.of_mem_zip hp).1
          simp only at h1 hf1
          rw [hen] at h1 hf1
          rw [h2] at h1
          rw [hf2] at hf1
          exact (Prod.ext (Option.some.inj hf1) (Option.some.inj h1)).symm
        · exact Or.inr ⟨hex, hd⟩
    rcases hcase with ⟨e, he, rfl⟩ | ⟨hex, hd⟩
    · right
      exact ⟨tr e, alookup_map_entryTr tr es hndE e he, (htr e he).2⟩
    · left
      refine ⟨?_, hd⟩
      rw [alookup_none_iff]
      intro hm
      simp only [List.map_map] at hm
      obtain ⟨q, hq, e⟩ := List.mem_map.mp hm
      exact hex ⟨q, hq, e⟩

theorem assignList_cons_ok (child : Assign) (pv : PV) (pvs : List PV) (tr : Tree) (trs : List Tree)
    (h1 : child pv = .ok (some tr))
    (h2 : assignList child (.list pvs) = .ok (some (.list trs))) :
    assignList child (.list (pv :: pvs)) = .ok (some (.list (tr :: trs))) := by
  simp only [assignList, listEntries, mapE, h1] at h2 ⊢
  revert h2
  generalize mapE _ pvs = r
  intro h2
  cases r with
  | error e => simp at h2
  | ok ts => simp at h2 ⊢; exact h2

/-- **a list, from its elements** -/
theorem decodes_list (t : Ty) : ∀ (xs : List Val) (pvs : List PV), xs.length = pvs.length →
    (∀ p ∈ xs.zip pvs, Decodes t p.1 p.2) → Decodes (.list t) (.list xs) (.list pvs) := by
  have key : ∀ (xs : List Val) (pvs : List PV), xs.length = pvs.length →
      (∀ p ∈ xs.zip pvs, Decodes t p.1 p.2) →
      ∃ trs, assignList (assignValue t) (.list pvs) = .ok (some (.list trs)) ∧
        mapE (validate t) trs = .ok xs := by
    intro xs
    induction xs with
    | nil =>
      intro pvs hl _
      cases pvs with
      | nil => exact ⟨[], by simp [assignList, listEntries, mapE], rfl⟩
      | cons _ _ => simp at hl
    | cons x xs ih =>
      intro pvs hl h
      cases pvs with
      | nil => simp at hl
      | cons pv pvs =>
        obtain ⟨tr, h1, h2⟩ := h (x, pv) (by simp)
        obtain ⟨trs, h3, h4⟩ := ih pvs (by simpa using hl)
          (fun p hp => h p (by simp only [List.zip_cons_cons]; exact List.mem_cons_of_mem _ hp))
        exact ⟨tr :: trs, assignList_cons_ok _ pv pvs tr trs h1 h3, by simp [mapE, h2, h4]⟩
  intro xs pvs hlen h
  obtain ⟨trs, h1, h2⟩ := key xs pvs hlen h
  exact ⟨.list trs, by simpa [assignValue] using h1, by simp [validate, h2]⟩

/-- **The encodings of a value** -/
inductive Enc : Ty → Val → PV → Prop
  /-- a basic value: its text -/
  | basic {ty : Ty} {v : Val} : isBasicTy ty = true → reprOk false ty v = true →
      Enc ty v (.atom (printBasic v))
  /-- an untyped list: itself; a single string stands for the one-element list -/
  | any {xs : List PV} : Enc .anyList (.any xs) (.list xs)
  | anyAtom {s : Str} : Enc .anyList (.any [.atom s]) (.atom s)
  /-- a typed list: element by element; a single non-blank string stands for a one-element
  list; the blank cell for the empty list -/
  | list {t : Ty} {xs : List Val} {pvs : List PV} : xs.length = pvs.length →
      (∀ p ∈ xs.zip pvs, Enc t p.1 p.2) → Enc (.list t) (.list xs) (.list pvs)
  | listAtom {t : Ty} {x : Val} {s : Str} : s ≠ [] → Enc t x (.atom s) →
      Enc (.list t) (.list [x]) (.atom s)
  | listEmpty {t : Ty} : Enc (.list t) (.list []) (.atom [])
  /-- a record: entries, each positional (at the index of its field) or `key;value`, every
  field at most once, the others at their defaults; no entry and not the whole value may look
  like a `key;value` pair unless it is one (the keyword-first rule, finding F-C09-a) -/
  | model {sfs : List Field} {h2f f2h : List (Str × Str)} {kvs : List (Str × Val)}
      (es : List REntry) :
      kvs.map Prod.fst = sfs.map (·.1) → (sfs.map (·.1)).Nodup →
      (∀ e ∈ es, (e.f, e.x) ∈ sfs.zip (kvs.map Prod.snd)) →
      RPosAt sfs 0 es → (es.map (·.f.1)).Nodup →
      (∀ e ∈ es, Enc e.f.2.1 e.x e.pv) →
      (∀ e ∈ es, e.kw = true → remap h2f e.key = e.f.1) →
      (∀ e ∈ es, e.kw = false → tryKwarg (fieldAssigners sfs) h2f e.pv = none) →
      tryKwarg (fieldAssigners sfs) h2f (.list (es.map (·.entry))) = none →
      (∀ p ∈ sfs.zip (kvs.map Prod.snd), (∃ e ∈ es, (e.f, e.x) = p) ∨ p.1.2.2 = some p.2) →
      Enc (.model sfs h2f f2h) (.model kvs) (.list (es.map (·.entry)))
  /-- a record given by a single string: its first entry -/
  | modelAtom {sfs : List Field} {h2f f2h : List (Str × Str)} {kvs : List (Str × Val)} {a : Str} :
      Enc (.model sfs h2f f2h) (.model kvs) (.list [.atom a]) →
      Enc (.model sfs h2f f2h) (.model kvs) (.atom a)

/-- **Every encoding decodes to the value.** -/
theorem enc_decodes {ty : Ty} {v : Val} {pv : PV} (h : Enc ty v pv) : Decodes ty v pv := by
  induction h with
  | basic hb hr =>
    obtain ⟨_, _, hav, hval, _, _, _⟩ := basic_leaf hb hr
    exact ⟨_, hav, hval⟩
  | @any xs =>
    exact ⟨.list (Tree.ofPVs xs), by simp [assignValue, assignAny], by simp [validate, toPVs_ofPVs]⟩
  | @anyAtom s =>
    exact ⟨.list [.str s], by simp [assignValue, assignAny], by simp [validate, Tree.toPVs, Tree.toPV]⟩
  | list hlen _ ih => exact decodes_list _ _ _ hlen ih
  | @listAtom t x s hs _ ih =>
    obtain ⟨tr, h1, h2⟩ := ih
    exact ⟨.list [tr], by simp [assignValue, assignList, listEntries, hs, mapE, h1],
      by simp [validate, mapE, h2]⟩
  | listEmpty => exact ⟨.list [], by simp [assignValue, assignList, listEntries, mapE],
      by simp [validate, mapE]⟩
  | model es hnames hnd hmem hat hndE _ hkey hU2 hU1 hrest ih =>
    exact decodes_model _ _ _ _ es hnames hnd hmem hat hndE ih hkey hU2 hU1 hrest
  | modelAtom _ ih =>
    obtain ⟨tr, h1, h2⟩ := ih
    refine ⟨tr, ?_, h2⟩
    simpa [assignValue, assignModel] using h1

/-- **Positional = keyword = mixed, in general**: any two encodings of the same value decode
equally — to the value -/
theorem enc_decode_eq {ty : Ty} {v : Val} {pv₁ pv₂ : PV} (h₁ : Enc ty v pv₁) (h₂ : Enc ty v pv₂) :
    decode ty pv₁ = decode ty pv₂ ∧ decode ty pv₁ = .ok v := by
  rw [decode_of_decodes (enc_decodes h₁), decode_of_decodes (enc_decodes h₂)]
  exact ⟨rfl, rfl⟩

end Rpft.Row
