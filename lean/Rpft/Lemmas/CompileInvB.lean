/-
Invariants of the group arena of the compiler machine (layer B): which group holds which node
and which block holds which group.
* `NInv` — every arena node that is not pending is held by exactly one group, exactly once;
* `GInv` — every group that is not a root (open block, hidden enclosing block, group about to be
  appended) is a child of exactly one block, exactly once; children have larger indices than
  their parent;
* `SInv` — the stack of open blocks is strictly decreasing, its bottom is the parser's root.
Stated over abstract "held nodes of group g" / "children of group g" functions, with the point
updates the machine performs.
-/
import Rpft.Lemmas.CompileWp
set_option linter.unusedSimpArgs false
set_option linter.unusedVariables false
namespace Rpft.Compile
open Rpft

/-- point update -/
def upd (f : Nat → Option (List Nat)) (g : Nat) (l : List Nat) : Nat → Option (List Nat) :=
  fun x => if x = g then some l else f x

theorem upd_same (f : Nat → Option (List Nat)) (g : Nat) (l : List Nat) (h : f g = some l) :
    upd f g l = f := by
  funext x; unfold upd; split
  · rename_i e; rw [e, h]
  · rfl

theorem upd_eq_some {f : Nat → Option (List Nat)} {g x : Nat} {l m : List Nat}
    (h : upd f g l x = some m) : (x = g ∧ m = l) ∨ (x ≠ g ∧ f x = some m) := by
  unfold upd at h
  split at h
  · rename_i e; injection h with h; exact .inl ⟨e, h.symm⟩
  · rename_i e; exact .inr ⟨e, h⟩

/-- `P`: pending nodes (created, not yet in a group); `nsz`: size of the node arena;
`hf g`: the nodes held by group `g` -/
structure NInv (P : Nat → Prop) (nsz : Nat) (hf : Nat → Option (List Nat)) : Prop where
  nheld : ∀ i, i < nsz → P i ∨ ∃ g l, hf g = some l ∧ i ∈ l
  hnodup : ∀ g l, hf g = some l → l.Nodup
  hlt : ∀ g l i, hf g = some l → i ∈ l → i < nsz ∧ ¬ P i
  huniq : ∀ g g' l l' i, hf g = some l → hf g' = some l' → i ∈ l → i ∈ l' → g = g'
  plt : ∀ i, P i → i < nsz

theorem NInv.congr {P P' : Nat → Prop} {nsz : Nat} {hf : Nat → Option (List Nat)} (h : NInv P nsz hf)
    (hp : ∀ x, P x ↔ P' x) : NInv P' nsz hf := by
  refine ⟨?_, h.hnodup, ?_, h.huniq, ?_⟩
  · intro i hi; rcases h.nheld i hi with h1 | h1
    · exact .inl ((hp i).mp h1)
    · exact .inr h1
  · intro g l i hg hi; have := h.hlt g l i hg hi; exact ⟨this.1, fun hp' => this.2 ((hp i).mpr hp')⟩
  · intro i hi; exact h.plt i ((hp i).mpr hi)

/-- a new node is created and put at the end of group `g` (a row group gets the router node
created behind its node; a `no_op` group gets its router node) -/
theorem NInv.attach {P : Nat → Prop} {nsz : Nat} {hf : Nat → Option (List Nat)} {g : Nat} {l : List Nat}
    (h : NInv P nsz hf) (hg : hf g = some l) : NInv P (nsz + 1) (upd hf g (l ++ [nsz])) := by
  have hnl : nsz ∉ l := fun hm => by have := (h.hlt g l nsz hg hm).1; omega
  refine ⟨?_, ?_, ?_, ?_, ?_⟩
  · intro i hi
    by_cases hin : i = nsz
    · exact .inr ⟨g, l ++ [nsz], by simp [upd], by simp [hin]⟩
    · rcases h.nheld i (by omega) with h1 | ⟨g', l', hg', hi'⟩
      · exact .inl h1
      · right
        by_cases hgg : g' = g
        · subst hgg; rw [hg] at hg'; injection hg' with hg'; subst hg'
          exact ⟨g', l ++ [nsz], by simp [upd], by simp [hi']⟩
        · exact ⟨g', l', by simp [upd, hgg, hg'], hi'⟩
  · intro g' l' hg'
    rcases upd_eq_some hg' with ⟨_, rfl⟩ | ⟨_, h2⟩
    · rw [List.nodup_append]
      refine ⟨h.hnodup g l hg, by simp, ?_⟩
      intro a ha b hb; simp at hb; subst hb; intro e; subst e; exact hnl ha
    · exact h.hnodup g' l' h2
  · intro g' l' i hg' hi
    rcases upd_eq_some hg' with ⟨_, rfl⟩ | ⟨_, h2⟩
    · simp only [List.mem_append, List.mem_singleton] at hi
      rcases hi with hi | hi
      · have := h.hlt g l i hg hi; exact ⟨by omega, this.2⟩
      · subst hi; exact ⟨by omega, fun hp => by have := h.plt _ hp; omega⟩
    · have := h.hlt g' l' i h2 hi; exact ⟨by omega, this.2⟩
  · intro g1 g2 l1 l2 i h1 h2 hi1 hi2
    rcases upd_eq_some h1 with ⟨e1, rfl⟩ | ⟨e1, k1⟩ <;> rcases upd_eq_some h2 with ⟨e2, rfl⟩ | ⟨e2, k2⟩
    · rw [e1, e2]
    · simp only [List.mem_append, List.mem_singleton] at hi1
      rcases hi1 with hi1 | hi1
      · rw [e1]; exact h.huniq g g2 l l2 i hg k2 hi1 hi2
      · subst hi1; have := (h.hlt g2 l2 _ k2 hi2).1; omega
    · simp only [List.mem_append, List.mem_singleton] at hi2
      rcases hi2 with hi2 | hi2
      · rw [e2]; exact h.huniq g1 g l1 l i k1 hg hi1 hi2
      · subst hi2; have := (h.hlt g1 l1 _ k1 hi1).1; omega
    · exact h.huniq g1 g2 l1 l2 i k1 k2 hi1 hi2
  · intro i hp; have := h.plt i hp; omega

/-- a node is created and stays pending -/
theorem NInv.pending {P : Nat → Prop} {nsz : Nat} {hf : Nat → Option (List Nat)} (h : NInv P nsz hf) :
    NInv (fun x => x = nsz ∨ P x) (nsz + 1) hf := by
  refine ⟨?_, h.hnodup, ?_, h.huniq, ?_⟩
  · intro i hi
    by_cases hin : i = nsz
    · exact .inl (.inl hin)
    · rcases h.nheld i (by omega) with h1 | h1
      · exact .inl (.inr h1)
      · exact .inr h1
  · intro g l i hg hi
    have := h.hlt g l i hg hi
    refine ⟨by omega, ?_⟩
    rintro (e | e)
    · omega
    · exact this.2 e
  · rintro i (e | e)
    · omega
    · have := h.plt i e; omega

/-- a new group (index `gn`, unused so far) holding the pending node `i` -/
theorem NInv.newRow {P : Nat → Prop} {nsz : Nat} {hf : Nat → Option (List Nat)} {gn i : Nat}
    (h : NInv (fun x => x = i ∨ P x) nsz hf) (hgn : hf gn = none) (hpi : ¬ P i) :
    NInv P nsz (upd hf gn [i]) := by
  have hne : ∀ g' l', hf g' = some l' → g' ≠ gn := by
    intro g' l' h1 e; rw [e, hgn] at h1; cases h1
  have hil : i < nsz := h.plt i (.inl rfl)
  refine ⟨?_, ?_, ?_, ?_, ?_⟩
  · intro j hj
    rcases h.nheld j hj with (h1 | h1) | ⟨g', l', hg', hj'⟩
    · exact .inr ⟨gn, [i], by simp [upd], by simp [h1]⟩
    · exact .inl h1
    · exact .inr ⟨g', l', by simp [upd, hne g' l' hg', hg'], hj'⟩
  · intro g' l' hg'
    rcases upd_eq_some hg' with ⟨_, rfl⟩ | ⟨_, h2⟩
    · simp
    · exact h.hnodup g' l' h2
  · intro g' l' j hg' hj
    rcases upd_eq_some hg' with ⟨_, rfl⟩ | ⟨_, h2⟩
    · simp at hj; subst hj; exact ⟨hil, hpi⟩
    · have := h.hlt g' l' j h2 hj; exact ⟨this.1, fun hp => this.2 (.inr hp)⟩
  · intro g1 g2 l1 l2 j h1 h2 hj1 hj2
    rcases upd_eq_some h1 with ⟨e1, rfl⟩ | ⟨e1, k1⟩ <;> rcases upd_eq_some h2 with ⟨e2, rfl⟩ | ⟨e2, k2⟩
    · rw [e1, e2]
    · simp at hj1; subst hj1; exact absurd (.inl rfl) (h.hlt g2 l2 _ k2 hj2).2
    · simp at hj2; subst hj2; exact absurd (.inl rfl) (h.hlt g1 l1 _ k1 hj1).2
    · exact h.huniq g1 g2 l1 l2 j k1 k2 hj1 hj2
  · intro j hp; exact h.plt j (.inr hp)

/-- a new group holding nothing -/
theorem NInv.newEmpty {P : Nat → Prop} {nsz : Nat} {hf : Nat → Option (List Nat)} {gn : Nat}
    (h : NInv P nsz hf) (hgn : hf gn = none) : NInv P nsz (upd hf gn []) := by
  have hne : ∀ g' l', hf g' = some l' → g' ≠ gn := by
    intro g' l' h1 e; rw [e, hgn] at h1; cases h1
  refine ⟨?_, ?_, ?_, ?_, h.plt⟩
  · intro j hj
    rcases h.nheld j hj with h1 | ⟨g', l', hg', hj'⟩
    · exact .inl h1
    · exact .inr ⟨g', l', by simp [upd, hne g' l' hg', hg'], hj'⟩
  · intro g' l' hg'
    rcases upd_eq_some hg' with ⟨_, rfl⟩ | ⟨_, h2⟩
    · simp
    · exact h.hnodup g' l' h2
  · intro g' l' j hg' hj
    rcases upd_eq_some hg' with ⟨_, rfl⟩ | ⟨_, h2⟩
    · simp at hj
    · exact h.hlt g' l' j h2 hj
  · intro g1 g2 l1 l2 j h1 h2 hj1 hj2
    rcases upd_eq_some h1 with ⟨e1, rfl⟩ | ⟨e1, k1⟩ <;> rcases upd_eq_some h2 with ⟨e2, rfl⟩ | ⟨e2, k2⟩
    · rw [e1, e2]
    · simp at hj1
    · simp at hj2
    · exact h.huniq g1 g2 l1 l2 j k1 k2 hj1 hj2

/-- `R`: the roots; `gsz`: size of the group arena; `kf p`: the children of group `p` -/
structure GInv (R : Nat → Prop) (gsz : Nat) (kf : Nat → Option (List Nat)) : Prop where
  gparent : ∀ g, g < gsz → R g ∨ ∃ p l, kf p = some l ∧ g ∈ l
  knodup : ∀ p l, kf p = some l → l.Nodup
  klt : ∀ p l c, kf p = some l → c ∈ l → p < c ∧ c < gsz ∧ ¬ R c
  kuniq : ∀ p p' l l' c, kf p = some l → kf p' = some l' → c ∈ l → c ∈ l' → p = p'
  rlt : ∀ g, R g → g < gsz

theorem GInv.congr {R R' : Nat → Prop} {gsz : Nat} {kf : Nat → Option (List Nat)} (h : GInv R gsz kf)
    (hr : ∀ x, R x ↔ R' x) : GInv R' gsz kf := by
  refine ⟨?_, h.knodup, ?_, h.kuniq, ?_⟩
  · intro g hg; rcases h.gparent g hg with h1 | h1
    · exact .inl ((hr g).mp h1)
    · exact .inr h1
  · intro p l c hp hc; have := h.klt p l c hp hc
    exact ⟨this.1, this.2.1, fun hr' => this.2.2 ((hr c).mpr hr')⟩
  · intro g hg; exact h.rlt g ((hr g).mpr hg)

/-- a new group (a root, no children yet) -/
theorem GInv.new {R : Nat → Prop} {gsz : Nat} {kf : Nat → Option (List Nat)} (h : GInv R gsz kf)
    (hgn : kf gsz = none) : GInv (fun x => x = gsz ∨ R x) (gsz + 1) (upd kf gsz []) := by
  have hne : ∀ g' l', kf g' = some l' → g' ≠ gsz := by
    intro g' l' h1 e; rw [e, hgn] at h1; cases h1
  refine ⟨?_, ?_, ?_, ?_, ?_⟩
  · intro g hg
    by_cases hgg : g = gsz
    · exact .inl (.inl hgg)
    · rcases h.gparent g (by omega) with h1 | ⟨p, l, hp, hc⟩
      · exact .inl (.inr h1)
      · exact .inr ⟨p, l, by simp [upd, hne p l hp, hp], hc⟩
  · intro p l hp
    rcases upd_eq_some hp with ⟨_, rfl⟩ | ⟨_, h2⟩
    · simp
    · exact h.knodup p l h2
  · intro p l c hp hc
    rcases upd_eq_some hp with ⟨_, rfl⟩ | ⟨_, h2⟩
    · simp at hc
    · have := h.klt p l c h2 hc
      refine ⟨this.1, by omega, ?_⟩
      rintro (e | e)
      · omega
      · exact this.2.2 e
  · intro p1 p2 l1 l2 c h1 h2 hc1 hc2
    rcases upd_eq_some h1 with ⟨e1, rfl⟩ | ⟨e1, k1⟩ <;> rcases upd_eq_some h2 with ⟨e2, rfl⟩ | ⟨e2, k2⟩
    · rw [e1, e2]
    · simp at hc1
    · simp at hc2
    · exact h.kuniq p1 p2 l1 l2 c k1 k2 hc1 hc2
  · rintro g (e | e)
    · omega
    · have := h.rlt g e; omega

/-- the root `g` becomes the last child of block `b` -/
theorem GInv.append {R : Nat → Prop} {gsz : Nat} {kf : Nat → Option (List Nat)} {b g : Nat} {ch : List Nat}
    (h : GInv R gsz kf) (hb : kf b = some ch) (hg : R g) (hbg : b < g) :
    GInv (fun x => x ≠ g ∧ R x) gsz (upd kf b (ch ++ [g])) := by
  have hgc : ∀ p l, kf p = some l → g ∉ l := fun p l hp hm => (h.klt p l g hp hm).2.2 hg
  refine ⟨?_, ?_, ?_, ?_, ?_⟩
  · intro x hx
    by_cases hxg : x = g
    · exact .inr ⟨b, ch ++ [g], by simp [upd], by simp [hxg]⟩
    · rcases h.gparent x hx with h1 | ⟨p, l, hp, hc⟩
      · exact .inl ⟨hxg, h1⟩
      · right
        by_cases hpb : p = b
        · subst hpb; rw [hb] at hp; injection hp with hp; subst hp
          exact ⟨p, ch ++ [g], by simp [upd], by simp [hc]⟩
        · exact ⟨p, l, by simp [upd, hpb, hp], hc⟩
  · intro p l hp
    rcases upd_eq_some hp with ⟨_, rfl⟩ | ⟨_, h2⟩
    · rw [List.nodup_append]
      refine ⟨h.knodup b ch hb, by simp, ?_⟩
      intro a ha c hc; simp at hc; subst hc; intro e; subst e; exact hgc b ch hb ha
    · exact h.knodup p l h2
  · intro p l c hp hc
    rcases upd_eq_some hp with ⟨e, rfl⟩ | ⟨_, h2⟩
    · simp only [List.mem_append, List.mem_singleton] at hc
      rcases hc with hc | hc
      · have := h.klt b ch c hb hc
        exact ⟨by rw [e]; exact this.1, this.2.1, fun hr => this.2.2 hr.2⟩
      · subst hc; exact ⟨by rw [e]; exact hbg, h.rlt _ hg, fun hr => hr.1 rfl⟩
    · have := h.klt p l c h2 hc
      exact ⟨this.1, this.2.1, fun hr => this.2.2 hr.2⟩
  · intro p1 p2 l1 l2 c h1 h2 hc1 hc2
    rcases upd_eq_some h1 with ⟨e1, rfl⟩ | ⟨e1, k1⟩ <;> rcases upd_eq_some h2 with ⟨e2, rfl⟩ | ⟨e2, k2⟩
    · rw [e1, e2]
    · simp only [List.mem_append, List.mem_singleton] at hc1
      rcases hc1 with hc1 | hc1
      · rw [e1]; exact h.kuniq b p2 ch l2 c hb k2 hc1 hc2
      · subst hc1; exact absurd hc2 (hgc p2 l2 k2)
    · simp only [List.mem_append, List.mem_singleton] at hc2
      rcases hc2 with hc2 | hc2
      · rw [e2]; exact h.kuniq p1 b l1 ch c k1 hb hc1 hc2
      · subst hc2; exact absurd hc1 (hgc p1 l1 k1)
    · exact h.kuniq p1 p2 l1 l2 c k1 k2 hc1 hc2
  · intro x hx; exact h.rlt x hx.2

/-- `H`: hidden roots (open blocks of enclosing parsers, groups about to be appended) -/
structure SInv (H : Nat → Prop) (root : Nat) (st : List Nat) : Prop where
  sorted : st.Pairwise (· > ·)
  notH : ∀ b ∈ st, ¬ H b
  last : st.getLast? = some root

end Rpft.Compile
