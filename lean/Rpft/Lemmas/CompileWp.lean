/-
Weakest-precondition calculus (partial correctness: a failing run satisfies everything) for
the compiler machine `M = StateT St (Except Err)` of `Rpft/Compile.lean`, and the exact
characterisation of its primitives.  Used by the invariant proofs `Lemmas/CompileInv*.lean`.
-/
import Rpft.Lemmas.Compile
set_option linter.unusedSimpArgs false
set_option linter.unusedVariables false
namespace Rpft.Compile
open Rpft

/-- `wp m s Q`: if `m` started in `s` succeeds with value `a` in state `s'` then `Q a s'` -/
def wp {α : Type} (m : M α) (s : St) (Q : α → St → Prop) : Prop :=
  match m.run s with
  | .ok (a, s') => Q a s'
  | .error _ => True

theorem wp_def {α} (m : M α) (s : St) (Q : α → St → Prop) :
    wp m s Q ↔ ∀ a s', m.run s = .ok (a, s') → Q a s' := by
  unfold wp
  cases h : m.run s with
  | error e => simp
  | ok p => cases p; simp

theorem wp_of_run {α} {m : M α} {s : St} {Q : α → St → Prop} (h : wp m s Q) {a : α} {s' : St}
    (hr : m.run s = .ok (a, s')) : Q a s' := (wp_def m s Q).mp h a s' hr

theorem wp_pure {α} (a : α) (s : St) (Q : α → St → Prop) : wp (pure a) s Q ↔ Q a s := by
  simp [wp, StateT.run, pure, StateT.pure, Except.pure]

theorem wp_bind {α β} (m : M α) (f : α → M β) (s : St) (Q : β → St → Prop) :
    wp (m >>= f) s Q ↔ wp m s (fun a s1 => wp (f a) s1 Q) := by
  simp only [wp, StateT.run, bind, StateT.bind, Except.bind]
  cases h : m s with
  | error e => simp
  | ok p => cases p; simp

theorem wp_map {α β} (m : M α) (f : α → β) (s : St) (Q : β → St → Prop) :
    wp (f <$> m) s Q ↔ wp m s (fun a s1 => Q (f a) s1) := by
  simp only [wp, StateT.run, Functor.map, StateT.map, bind, Except.bind, pure, Except.pure]
  cases h : m s with
  | error e => simp
  | ok p => cases p; simp

theorem wp_get (s : St) (Q : St → St → Prop) : wp (get : M St) s Q ↔ Q s s := by
  simp [wp, StateT.run, get, getThe, MonadStateOf.get, StateT.get, pure, Except.pure]

theorem wp_set (s s1 : St) (Q : PUnit → St → Prop) : wp (set s1 : M PUnit) s Q ↔ Q ⟨⟩ s1 := by
  simp [wp, StateT.run, set, StateT.set, pure, Except.pure]

theorem wp_modify (f : St → St) (s : St) (Q : PUnit → St → Prop) :
    wp (modify f : M PUnit) s Q ↔ Q ⟨⟩ (f s) := by
  simp [wp, StateT.run, modify, modifyGet, MonadStateOf.modifyGet, StateT.modifyGet, pure, Except.pure]

theorem wp_fail {α} (e : Err) (s : St) (Q : α → St → Prop) : wp (fail e : M α) s Q ↔ True := by
  simp [wp, StateT.run, fail, throw, throwThe, MonadExceptOf.throw, StateT.lift, Except.bind, bind]

theorem wp_ite {α} (c : Prop) [Decidable c] (a b : M α) (s : St) (Q : α → St → Prop) :
    wp (if c then a else b) s Q ↔ (c → wp a s Q) ∧ (¬ c → wp b s Q) := by
  split <;> simp [*]

theorem wp_mono {α} {m : M α} {s : St} {Q Q' : α → St → Prop} (h : wp m s Q)
    (hq : ∀ a s', Q a s' → Q' a s') : wp m s Q' := by
  rw [wp_def] at *
  intro a s' hr; exact hq _ _ (h a s' hr)

theorem wp_true {α} (m : M α) (s : St) : wp m s (fun _ _ => True) := by
  rw [wp_def]; intros; trivial

theorem wp_and {α} {m : M α} {s : St} {Q Q' : α → St → Prop} (h : wp m s Q) (h' : wp m s Q') :
    wp m s (fun a s' => Q a s' ∧ Q' a s') := by
  rw [wp_def] at *
  intro a s' hr; exact ⟨h a s' hr, h' a s' hr⟩

/-- symbolic execution of the monadic structure -/
syntax "wp_simp" (" [" Lean.Parser.Tactic.simpLemma,* "]")? : tactic
macro_rules
  | `(tactic| wp_simp) =>
    `(tactic| simp only [wp_bind, wp_pure, wp_map, wp_get, wp_set, wp_modify, wp_fail, wp_ite])
  | `(tactic| wp_simp [$ls,*]) =>
    `(tactic| simp only [wp_bind, wp_pure, wp_map, wp_get, wp_set, wp_modify, wp_fail, wp_ite, $ls,*])

/-! ### loops -/

theorem wp_forM_nil {β} (f : β → M PUnit) (s : St) (Q : PUnit → St → Prop) :
    wp (([] : List β).forM f) s Q ↔ Q ⟨⟩ s := by
  simp [List.forM_nil, wp_pure]

theorem wp_forM_cons {β} (x : β) (l : List β) (f : β → M PUnit) (s : St) (Q : PUnit → St → Prop) :
    wp ((x :: l).forM f) s Q ↔ wp (f x) s (fun _ s1 => wp (l.forM f) s1 Q) := by
  simp [List.forM_cons, wp_bind]

/-- loop rule: an invariant of every iteration is an invariant of the loop -/
theorem wp_forM {β} (I : St → Prop) (l : List β) (f : β → M PUnit)
    (h : ∀ x ∈ l, ∀ s, I s → wp (f x) s (fun _ s' => I s')) :
    ∀ s, I s → wp (l.forM f) s (fun _ s' => I s') := by
  induction l with
  | nil => intro s hs; rw [wp_forM_nil]; exact hs
  | cons x l ih =>
    intro s hs
    rw [wp_forM_cons]
    refine wp_mono (h x (by simp) s hs) ?_
    intro _ s1 h1
    exact ih (fun y hy => h y (by simp [hy])) s1 h1

/-- a computation that never changes the state -/
def ReadOnly {α} (m : M α) : Prop := ∀ s a s', m.run s = .ok (a, s') → s' = s

theorem wp_ro {α} {m : M α} (h : ReadOnly m) (s : St) (Q : α → St → Prop) (hq : ∀ a, Q a s) :
    wp m s Q := by
  rw [wp_def]
  intro a s' hr
  rw [h s a s' hr]; exact hq a

theorem ro_iff {α} (m : M α) : ReadOnly m ↔ ∀ s, wp m s (fun _ s' => s' = s) := by
  unfold ReadOnly
  constructor
  · intro h s; rw [wp_def]; intro a s' hr; exact h s a s' hr
  · intro h s a s' hr; exact wp_of_run (h s) hr

theorem ro_anyM {β} (l : List β) (f : β → M Bool) (h : ∀ x ∈ l, ReadOnly (f x)) :
    ReadOnly (l.anyM f) := by
  induction l with
  | nil => rw [ro_iff]; intro s; simp [List.anyM, wp_pure]
  | cons x l ih =>
    rw [ro_iff]; intro s
    simp only [List.anyM, wp_bind]
    refine wp_ro (h x (by simp)) s _ ?_
    intro b
    cases b with
    | true => simp [wp_pure]
    | false =>
      exact (ro_iff _).mp (ih (fun y hy => h y (by simp [hy]))) s

/-! ### primitives -/

theorem wp_fresh (s : St) (Q : Uid → St → Prop) :
    wp fresh s Q ↔ Q ('~' :: natStr s.next) { s with next := s.next + 1 } := by
  unfold fresh; wp_simp

theorem wp_getNode (i : Nat) (s : St) (Q : NodeM → St → Prop) :
    wp (getNode i) s Q ↔ ∀ n, s.nodes[i]? = some n → Q n s := by
  unfold getNode; wp_simp
  split <;> simp_all [wp_pure, wp_fail]

theorem wp_setNode (i : Nat) (n : NodeM) (s : St) (Q : PUnit → St → Prop) :
    wp (setNode i n) s Q ↔ Q ⟨⟩ { s with nodes := s.nodes.setIfInBounds i n } := by
  unfold setNode; wp_simp

theorem wp_getGrp (i : Nat) (s : St) (Q : Grp → St → Prop) :
    wp (getGrp i) s Q ↔ ∀ g, s.groups[i]? = some g → Q g s := by
  unfold getGrp; wp_simp
  split <;> simp_all [wp_pure, wp_fail]

theorem wp_setGrp (i : Nat) (g : Grp) (s : St) (Q : PUnit → St → Prop) :
    wp (setGrp i g) s Q ↔ Q ⟨⟩ { s with groups := s.groups.setIfInBounds i g } := by
  unfold setGrp; wp_simp

theorem wp_addNode (n : NodeM) (s : St) (Q : Nat → St → Prop) :
    wp (addNode n) s Q ↔ Q s.nodes.size { s with nodes := s.nodes.push n } := by
  unfold addNode; wp_simp

theorem wp_addGrp (g : Grp) (s : St) (Q : Nat → St → Prop) :
    wp (addGrp g) s Q ↔ Q s.groups.size { s with groups := s.groups.push g } := by
  unfold addGrp; wp_simp

/-- the `k`-th identifier handed out -/
def tid (k : Nat) : Uid := '~' :: natStr k

theorem tid_inj {a b : Nat} : tid a = tid b ↔ a = b := by
  constructor
  · intro h; unfold tid at h; injection h with _ ht; exact natStr_injective ht
  · intro h; rw [h]

theorem wp_fresh' (s : St) (Q : Uid → St → Prop) :
    wp fresh s Q ↔ Q (tid s.next) { s with next := s.next + 1 } := wp_fresh s Q

theorem wp_mkCat (name : Str) (dest : Dest) (s : St) (Q : Cat → St → Prop) :
    wp (mkCat name dest) s Q ↔
      Q { uid := tid s.next, name := name, exitUid := tid (s.next + 1), dest := dest }
        { s with next := s.next + 2 } := by
  unfold mkCat; wp_simp [wp_fresh']

theorem wp_newSwitch (operand : Str) (rn : Option Str) (wait : Option Nat) (s : St)
    (Q : SwitchR → St → Prop) :
    wp (newSwitch operand rn wait) s Q ↔
      match wait with
      | some (n + 1) =>
        Q { operand := operand, cases := [], cats := [],
            dflt := { uid := tid s.next, name := "Other".toList, exitUid := tid (s.next + 1), dest := .none },
            noResp := some { uid := tid (s.next + 2), name := "No Response".toList,
                             exitUid := tid (s.next + 3), dest := .none },
            wait := wait, resultName := rn } { s with next := s.next + 4 }
      | _ =>
        Q { operand := operand, cases := [], cats := [],
            dflt := { uid := tid s.next, name := "Other".toList, exitUid := tid (s.next + 1), dest := .none },
            noResp := none, wait := wait, resultName := rn } { s with next := s.next + 2 } := by
  unfold newSwitch
  rcases wait with _ | _ | n <;> wp_simp [wp_mkCat]

theorem wp_newBasic (uid : Uid) (s : St) (Q : NodeM → St → Prop) :
    wp (newBasic uid) s Q ↔
      Q { uid := uid, kind := .basic, actions := [], router := none, dexitUid := tid (s.next + 1),
          dexitDest := .none } { s with next := s.next + 2 } := by
  unfold newBasic; wp_simp [wp_fresh']

theorem wp_newRouterNode (uid : Uid) (kind : NodeKind) (r : RouterM) (s : St) (Q : NodeM → St → Prop) :
    wp (newRouterNode uid kind r) s Q ↔
      Q { uid := uid, kind := kind, actions := [], router := some r, dexitUid := tid s.next,
          dexitDest := .none } { s with next := s.next + 1 } := by
  unfold newRouterNode; wp_simp [wp_fresh']

end Rpft.Compile
