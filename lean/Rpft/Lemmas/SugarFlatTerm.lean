import Rpft.Lemmas.SugarFlatRun
set_option linter.unusedSimpArgs false
set_option linter.unusedVariables false
namespace Rpft.SugarFlat
open Rpft Rpft.Sugar
open Rpft.Cli (RowType BlockType Fault isEndOfBlock blockEndMap)

variable {Raw Inst Ctx Val Hdr Err S : Type}

/-! ## termination of the flat machine, for ANY interface (no law is used) -/

theorem getMark_delMark_ne (d k : Nat) (m : List (Nat × List Raw)) (h : k ≠ d) :
    getMark k (delMark d m) = getMark k m := by
  induction m with
  | nil => rfl
  | cons q m ih =>
    obtain ⟨a, p⟩ := q
    by_cases ha : a = d
    · subst ha
      have : ¬ a = k := fun e => h e.symm
      simp [delMark, getMark, ih, this]
    · by_cases hk : a = k
      · subst hk; simp [delMark, getMark, ha]
      · simp [delMark, getMark, ih, ha, hk]

theorem getMark_setMark_ne (d k : Nat) (p : List Raw) (m : List (Nat × List Raw)) (h : k ≠ d) :
    getMark k (setMark d p m) = getMark k m := by
  have : ¬ d = k := fun e => h e.symm
  simp [setMark, getMark, this, getMark_delMark_ne d k m h]

/-- a call returns with no more rows left than it started with, and with the bookmarks of the
enclosing loops (depth < `d`) untouched -/
def Shrinks (d : Nat) (s s' : St Raw Inst Ctx Hdr) : Prop :=
  s'.pos.length ≤ s.pos.length ∧ ∀ k, k < d → getMark k s'.marks = getMark k s.marks

def GoodFn (d : Nat) (f : St Raw Inst Ctx Hdr → Res Err (St Raw Inst Ctx Hdr)) : Prop :=
  ∀ t t', f t = .ok t' → Shrinks d t t'

/-- never out of fuel on a state with fewer than `n` rows left -/
def NoFuel (n : Nat) (f : St Raw Inst Ctx Hdr → Res Err (St Raw Inst Ctx Hdr)) : Prop :=
  ∀ t, t.pos.length < n → f t ≠ .error .fuel

theorem Shrinks.refl (d : Nat) (s : St Raw Inst Ctx Hdr) : Shrinks d s s := ⟨Nat.le_refl _, fun _ _ => rfl⟩

theorem Shrinks.trans {d d1 d2 : Nat} {s1 s2 s3 : St Raw Inst Ctx Hdr} (h1 : Shrinks d1 s1 s2)
    (h2 : Shrinks d2 s2 s3) (hd1 : d ≤ d1) (hd2 : d ≤ d2) : Shrinks d s1 s3 :=
  ⟨Nat.le_trans h2.1 h1.1, fun k hk => by rw [h2.2 k (by omega), h1.2 k (by omega)]⟩

theorem iterate_good (I : FIface Raw Inst Ctx Val Hdr Err S) (d : Nat) (v : Str) (idx : Option Str)
    (body : St Raw Inst Ctx Hdr → Res Err (St Raw Inst Ctx Hdr)) (hb : GoodFn (d + 1) body) (p : List Raw) :
    ∀ (xs : List (Val × Nat)) (s s' : St Raw Inst Ctx Hdr), getMark d s.marks = some p →
      s.pos.length ≤ p.length → iterate I d v idx body xs s = .ok s' →
      s'.pos.length ≤ p.length ∧ ∀ k, k < d + 1 → getMark k s'.marks = getMark k s.marks := by
  intro xs
  induction xs with
  | nil =>
    intro s s' hm hp h
    simp [iterate] at h
    subst h
    exact ⟨hp, fun _ _ => rfl⟩
  | cons q xs ih =>
    intro s s' hm hp h
    obtain ⟨x, k⟩ := q
    simp only [iterate, hm] at h
    cases hbody : body { s with pos := p, ctx := bindVars I s.ctx v idx x k } with
    | error e => simp [hbody] at h
    | ok t =>
      simp only [hbody] at h
      obtain ⟨h1, h2⟩ := hb _ _ hbody
      simp only [] at h1 h2
      have hm' : getMark d t.marks = some p := by rw [h2 d (by omega)]; exact hm
      obtain ⟨h3, h4⟩ := ih t s' hm' h1 h
      exact ⟨h3, fun k hk => by rw [h4 k hk, h2 k hk]⟩

theorem iterate_nofuel (I : FIface Raw Inst Ctx Val Hdr Err S) (d : Nat) (v : Str) (idx : Option Str)
    (body : St Raw Inst Ctx Hdr → Res Err (St Raw Inst Ctx Hdr)) (hb : GoodFn (d + 1) body) (n : Nat)
    (hn : NoFuel n body) (p : List Raw) (hp : p.length < n) :
    ∀ (xs : List (Val × Nat)) (s : St Raw Inst Ctx Hdr), getMark d s.marks = some p →
      iterate I d v idx body xs s ≠ .error .fuel := by
  intro xs
  induction xs with
  | nil => intro s hm; simp [iterate]
  | cons q xs ih =>
    intro s hm
    obtain ⟨x, k⟩ := q
    simp only [iterate, hm]
    cases hbody : body { s with pos := p, ctx := bindVars I s.ctx v idx x k } with
    | error e =>
      simp only []
      intro h
      injection h with h
      subst h
      exact hn _ (by simpa using hp) hbody
    | ok t =>
      simp only []
      obtain ⟨h1, h2⟩ := hb _ _ hbody
      exact ih t (by rw [h2 d (by omega)]; exact hm)

theorem endLoopCtx_ne_fuel (I : FIface Raw Inst Ctx Val Hdr Err S) (c0 : Ctx) (v : Str) (idx : Option Str) (c : Ctx) :
    endLoopCtx I c0 v idx c ≠ .error .fuel := by
  unfold endLoopCtx popCtx
  cases I.get c v with
  | none => simp
  | some a =>
    simp only []
    cases idx with
    | none => simp
    | some i =>
      simp only []
      cases I.get (I.del c v) i <;> simp

theorem beginFor_good (I : FIface Raw Inst Ctx Val Hdr Err S) (d : Nat) (i : Inst)
    (body skip : St Raw Inst Ctx Hdr → Res Err (St Raw Inst Ctx Hdr))
    (hb : GoodFn (d + 1) body) (hs : GoodFn (d + 1) skip) : GoodFn d (beginFor I d i body skip) := by
  intro s s' h
  unfold beginFor at h
  cases hv : I.loopVars i with
  | none => simp [hv] at h
  | some vi =>
    obtain ⟨v, idx⟩ := vi
    simp only [hv] at h
    cases hit : iterate I d v idx body (I.iterList i).zipIdx
        { s with marks := setMark d s.pos s.marks, evs := s.evs ++ [.open_ (I.hdr i)] } with
    | error e => rw [hit] at h; simp at h
    | ok s2 =>
      rw [hit] at h
      obtain ⟨h1, h2⟩ := iterate_good I d v idx body hb s.pos _
        { s with marks := setMark d s.pos s.marks, evs := s.evs ++ [.open_ (I.hdr i)] } s2
        (getMark_setMark d s.pos s.marks) (Nat.le_refl _) hit
      simp only [] at h2 h
      have fin : ∀ (s3 : St Raw Inst Ctx Hdr) (c : Ctx), Shrinks (d + 1) s2 s3 →
          (match getMark d s3.marks with
           | none => (Except.error Stop.noBookmark : Res Err (St Raw Inst Ctx Hdr))
           | some _ => .ok { s3 with ctx := c, evs := s3.evs ++ [Ev.close (I.hdr i)], marks := delMark d s3.marks }) = .ok s' →
          Shrinks d s s' := by
        intro s3 c h3 hfin
        cases hg : getMark d s3.marks with
        | none => simp [hg] at hfin
        | some p' =>
          simp only [hg] at hfin
          injection hfin with hfin
          subst hfin
          refine ⟨Nat.le_trans h3.1 h1, fun k hk => ?_⟩
          simp only []
          rw [getMark_delMark_ne d k _ (by omega), h3.2 k (by omega), h2 k (by omega),
            getMark_setMark_ne d k _ _ (by omega)]
      cases hl : I.iterList i with
      | nil =>
        simp only [hl, List.isEmpty_nil, if_true] at h
        cases hsk : skip s2 with
        | error e => simp [hsk] at h
        | ok s3 =>
          simp only [hsk] at h
          exact fin s3 _ (hs _ _ hsk) h
      | cons a as =>
        simp only [hl, List.isEmpty_cons, Bool.false_eq_true, if_false] at h
        cases hc : endLoopCtx I s.ctx v idx s2.ctx with
        | error e => simp [hc] at h
        | ok c =>
          simp only [hc] at h
          exact fin s2 c (Shrinks.refl _ _) h

theorem beginFor_nofuel (I : FIface Raw Inst Ctx Val Hdr Err S) (d : Nat) (i : Inst)
    (body skip : St Raw Inst Ctx Hdr → Res Err (St Raw Inst Ctx Hdr))
    (hb : GoodFn (d + 1) body) (n : Nat) (hnb : NoFuel n body) (hns : NoFuel n skip) :
    NoFuel n (beginFor I d i body skip) := by
  intro s hs
  unfold beginFor
  cases hv : I.loopVars i with
  | none => simp
  | some vi =>
    obtain ⟨v, idx⟩ := vi
    simp only []
    cases hit : iterate I d v idx body (I.iterList i).zipIdx
        { s with marks := setMark d s.pos s.marks, evs := s.evs ++ [.open_ (I.hdr i)] } with
    | error e =>
      simp only []
      intro h
      injection h with h
      subst h
      exact iterate_nofuel I d v idx body hb n hnb s.pos hs _ _ (getMark_setMark d s.pos s.marks) hit
    | ok s2 =>
      simp only []
      obtain ⟨h1, h2⟩ := iterate_good I d v idx body hb s.pos _
        { s with marks := setMark d s.pos s.marks, evs := s.evs ++ [.open_ (I.hdr i)] } s2
        (getMark_setMark d s.pos s.marks) (Nat.le_refl _) hit
      cases hl : I.iterList i with
      | nil =>
        simp only [List.isEmpty_nil, if_true]
        cases hsk : skip s2 with
        | error e =>
          simp only []
          intro h
          injection h with h
          subst h
          exact hns s2 (by omega) hsk
        | ok s3 =>
          simp only []
          cases getMark d s3.marks <;> simp
      | cons a as =>
        simp only [List.isEmpty_cons, Bool.false_eq_true, if_false]
        cases hc : endLoopCtx I s.ctx v idx s2.ctx with
        | error e =>
          simp only []
          intro h
          injection h with h
          subst h
          exact endLoopCtx_ne_fuel I _ _ _ _ hc
        | ok c =>
          simp only []
          cases getMark d s2.marks <;> simp

theorem GoodFn.mono {d d' : Nat} {f : St Raw Inst Ctx Hdr → Res Err (St Raw Inst Ctx Hdr)} (h : GoodFn d' f)
    (hd : d ≤ d') : GoodFn d f :=
  fun t t' ht => ⟨(h t t' ht).1, fun k hk => (h t t' ht).2 k (by omega)⟩

theorem skipTurn_good (d : Nat) (k : RowKind) (f g : St Raw Inst Ctx Hdr → Res Err (St Raw Inst Ctx Hdr))
    (hf : GoodFn d f) (hg : GoodFn d g) : GoodFn d (skipTurn k f g) := by
  intro s s' h
  cases k <;> simp only [skipTurn] at h
  · exact hf _ _ h
  · exact hg _ _ h
  all_goals (injection h with h; subst h; exact Shrinks.refl _ _)

theorem skipTurn_nofuel (n : Nat) (k : RowKind) (f g : St Raw Inst Ctx Hdr → Res Err (St Raw Inst Ctx Hdr))
    (hf : NoFuel n f) (hg : NoFuel n g) : NoFuel n (skipTurn k f g) := by
  intro s hs
  cases k <;> simp only [skipTurn]
  · exact hf s hs
  · exact hg s hs
  all_goals simp

/-- the body of one turn of the `while` loop when the row is evaluated (not an end row) -/
def turnBody (I : FIface Raw Inst Ctx Val Hdr Err S) (F d : Nat) (i : Inst) (s1 : St Raw Inst Ctx Hdr) :
    Res Err (St Raw Inst Ctx Hdr) :=
  if I.includeIf i then
    (match I.kindI i with
     | .beginFor =>
       beginFor I d i (parseBlock I F (d + 1) .for_ false) (parseBlock I F (d + 1) .for_ true) s1
     | .beginBlock =>
       match parseBlock I F (d + 1) .block false { s1 with evs := s1.evs ++ [.open_ (I.hdr i)] } with
       | .error e => .error e
       | .ok s2 => .ok { s2 with evs := s2.evs ++ [.close (I.hdr i)] }
     | _ => .ok { s1 with evs := s1.evs ++ [.row i] })
  else
    skipTurn (I.kindI i) (parseBlock I F (d + 1) .for_ true) (parseBlock I F (d + 1) .block true) s1

theorem parseBlock_run' (I : FIface Raw Inst Ctx Val Hdr Err S) (F d : Nat) (bt : BlockType)
    (r : Raw) (rest : List Raw) (m : List (Nat × List Raw)) (c : Ctx) (ev : List (Ev Inst Hdr)) :
    parseBlock I (F + 1) d bt false ⟨r :: rest, m, c, ev⟩ =
      (match I.inst c r with
       | .error e => .error (.err e)
       | .ok i =>
         match isEndOfBlock bt (some (I.kindI i)) with
         | .error f => .error (.fault f)
         | .ok true => .ok ⟨rest, m, c, ev⟩
         | .ok false =>
           match turnBody I F d i ⟨rest, m, c, ev⟩ with
           | .error e => .error e
           | .ok s2 => parseBlock I F d bt false s2) := rfl

theorem turnBody_good (I : FIface Raw Inst Ctx Val Hdr Err S) (F d : Nat) (i : Inst)
    (ih : ∀ (d : Nat) (bt : BlockType) (om : Bool), GoodFn d (parseBlock I F d bt om)) :
    GoodFn d (turnBody I F d i) := by
  intro s s' h
  unfold turnBody at h
  cases hinc : I.includeIf i with
  | false =>
    simp only [hinc, Bool.false_eq_true, if_false] at h
    exact skipTurn_good d _ _ _ ((ih _ _ _).mono (by omega)) ((ih _ _ _).mono (by omega)) _ _ h
  | true =>
    simp only [hinc, if_true] at h
    cases hk : I.kindI i <;> simp only [hk] at h
    · exact beginFor_good I d i _ _ (ih (d + 1) .for_ false) (ih (d + 1) .for_ true) _ _ h
    · cases hp : parseBlock I F (d + 1) .block false { s with evs := s.evs ++ [.open_ (I.hdr i)] } with
      | error e => simp [hp] at h
      | ok s2 =>
        simp only [hp] at h
        injection h with h
        subst h
        have := (ih (d + 1) .block false).mono (Nat.le_succ d) _ _ hp
        exact ⟨this.1, this.2⟩
    all_goals (injection h with h; subst h; exact Shrinks.refl _ _)

theorem turnBody_nofuel (I : FIface Raw Inst Ctx Val Hdr Err S) (F d : Nat) (i : Inst)
    (ihg : ∀ (d : Nat) (bt : BlockType) (om : Bool), GoodFn d (parseBlock I F d bt om))
    (ihn : ∀ (d : Nat) (bt : BlockType) (om : Bool), NoFuel F (parseBlock I F d bt om)) :
    NoFuel F (turnBody I F d i) := by
  intro s hs
  unfold turnBody
  cases hinc : I.includeIf i with
  | false =>
    simp only [Bool.false_eq_true, if_false]
    exact skipTurn_nofuel F _ _ _ (ihn _ _ _) (ihn _ _ _) s hs
  | true =>
    simp only [if_true]
    cases hk : I.kindI i <;> simp only []
    · exact beginFor_nofuel I d i _ _ (ihg (d + 1) .for_ false) F (ihn _ _ _) (ihn _ _ _) s hs
    · cases hp : parseBlock I F (d + 1) .block false { s with evs := s.evs ++ [.open_ (I.hdr i)] } with
      | error e =>
        simp only []
        intro h
        injection h with h
        subst h
        exact ihn (d + 1) .block false _ (by simpa using hs) hp
      | ok s2 => simp
    all_goals simp

/-- every call of `_parse_block` returns with no more rows left than it started with and leaves
the bookmarks of the enclosing loops alone -/
theorem parseBlock_good (I : FIface Raw Inst Ctx Val Hdr Err S) :
    ∀ (F d : Nat) (bt : BlockType) (om : Bool), GoodFn d (parseBlock I F d bt om) := by
  intro F
  induction F with
  | zero => intro d bt om s s' h; simp [parseBlock_zero] at h
  | succ F ih =>
    intro d bt om s s' h
    obtain ⟨pos, m, c, ev⟩ := s
    cases pos with
    | nil =>
      rw [parseBlock_eof] at h
      cases hE : isEndOfBlock bt none with
      | error f => simp [hE] at h
      | ok b => simp [hE] at h; subst h; exact Shrinks.refl _ _
    | cons r rest =>
      have hstep : ∀ (s1 : St Raw Inst Ctx Hdr), Shrinks d ⟨rest, m, c, ev⟩ s1 →
          Shrinks d ⟨r :: rest, m, c, ev⟩ s1 := by
        intro s1 h1
        exact ⟨by have := h1.1; simp at this ⊢; omega, h1.2⟩
      have hcont : ∀ (s2 : St Raw Inst Ctx Hdr), Shrinks d ⟨rest, m, c, ev⟩ s2 →
          parseBlock I F d bt om s2 = .ok s' → Shrinks d ⟨r :: rest, m, c, ev⟩ s' := by
        intro s2 h2 hp
        have h3 := ih d bt om _ _ hp
        exact Shrinks.trans (hstep s2 h2) h3 (Nat.le_refl _) (Nat.le_refl _)
      cases om with
      | true =>
        rw [parseBlock_omit] at h
        cases hs : I.scanFail r with
        | some e => simp [hs] at h
        | none =>
          simp only [hs] at h
          cases hE : isEndOfBlock bt (some (I.kind r)) with
          | error f => simp [hE] at h
          | ok b =>
            cases b with
            | true =>
              simp [hE] at h; subst h
              exact hstep _ (Shrinks.refl _ _)
            | false =>
              simp only [hE] at h
              cases hsk : skipTurn (I.kind r) (parseBlock I F (d + 1) .for_ true)
                  (parseBlock I F (d + 1) .block true) ⟨rest, m, c, ev⟩ with
              | error e => simp [hsk] at h
              | ok s2 =>
                simp only [hsk] at h
                exact hcont s2 (skipTurn_good d _ _ _ ((ih _ _ _).mono (by omega))
                  ((ih _ _ _).mono (by omega)) _ _ hsk) h
      | false =>
        rw [parseBlock_run'] at h
        cases hi : I.inst c r with
        | error e => simp [hi] at h
        | ok i =>
          simp only [hi] at h
          cases hE : isEndOfBlock bt (some (I.kindI i)) with
          | error f => simp [hE] at h
          | ok b =>
            cases b with
            | true =>
              simp [hE] at h; subst h
              exact hstep _ (Shrinks.refl _ _)
            | false =>
              simp only [hE] at h
              cases hT : turnBody I F d i ⟨rest, m, c, ev⟩ with
              | error e => simp [hT] at h
              | ok s2 =>
                simp only [hT] at h
                exact hcont s2 (turnBody_good I F d i ih _ _ hT) h

/-- **`_parse_block` never runs out of fuel when it has more fuel than rows left** — for any
interface whatsoever (templated kinds, arbitrary lists, arbitrary context operations) -/
theorem parseBlock_nofuel (I : FIface Raw Inst Ctx Val Hdr Err S) :
    ∀ (F d : Nat) (bt : BlockType) (om : Bool), NoFuel F (parseBlock I F d bt om) := by
  intro F
  induction F with
  | zero => intro d bt om s hs; simp at hs
  | succ F ih =>
    intro d bt om s hs
    obtain ⟨pos, m, c, ev⟩ := s
    have ihg := parseBlock_good I F
    cases pos with
    | nil =>
      rw [parseBlock_eof]
      cases isEndOfBlock bt none <;> simp
    | cons r rest =>
      have hr : rest.length < F := by simpa using hs
      have hcont : ∀ (s2 : St Raw Inst Ctx Hdr), Shrinks d ⟨rest, m, c, ev⟩ s2 →
          parseBlock I F d bt om s2 ≠ .error .fuel := by
        intro s2 h2
        exact ih d bt om s2 (by have := h2.1; simp at this; omega)
      cases om with
      | true =>
        rw [parseBlock_omit]
        cases hsf : I.scanFail r with
        | some e => simp
        | none =>
          simp only []
          cases hE : isEndOfBlock bt (some (I.kind r)) with
          | error f => simp
          | ok b =>
            cases b with
            | true => simp
            | false =>
              simp only []
              cases hsk : skipTurn (I.kind r) (parseBlock I F (d + 1) .for_ true)
                  (parseBlock I F (d + 1) .block true) ⟨rest, m, c, ev⟩ with
              | error e =>
                simp only []
                intro h
                injection h with h
                subst h
                exact skipTurn_nofuel F _ _ _ (ih _ _ _) (ih _ _ _) _ (by simpa using hr) hsk
              | ok s2 =>
                simp only []
                exact hcont s2 (skipTurn_good d _ _ _ ((ihg _ _ _).mono (by omega))
                  ((ihg _ _ _).mono (by omega)) _ _ hsk)
      | false =>
        rw [parseBlock_run']
        cases hi : I.inst c r with
        | error e => simp
        | ok i =>
          simp only []
          cases hE : isEndOfBlock bt (some (I.kindI i)) with
          | error f => simp
          | ok b =>
            cases b with
            | true => simp
            | false =>
              simp only []
              cases hT : turnBody I F d i ⟨rest, m, c, ev⟩ with
              | error e =>
                simp only []
                intro h
                injection h with h
                subst h
                exact turnBody_nofuel I F d i ihg ih _ (by simpa using hr) hT
              | ok s2 =>
                simp only []
                exact hcont s2 (turnBody_good I F d i ihg _ _ hT)

end Rpft.SugarFlat
