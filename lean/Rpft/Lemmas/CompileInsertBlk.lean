/-
Unary frame facts: `add_exit` never changes which groups are blocks nor their children (it only
attaches router nodes to row / `no_op` groups), nor the stack; hence the most recent node group is
the same before and after.
-/
import Rpft.Lemmas.CompileInvB3
set_option linter.unusedSimpArgs false
set_option linter.unusedVariables false
namespace Rpft.Compile
open Rpft

/-- a row group keeps its first node (nodes are only attached behind) -/
def RowHead (s s' : St) : Prop :=
  ∀ (j i : Nat) (l : List Nat) (t : Str), s.groups[j]? = some (Grp.row (i :: l) t) →
    ∃ l', s'.groups[j]? = some (Grp.row (i :: l') t)

/-- same blocks with the same children, same stack; the group arena did not shrink; row groups
keep their first node -/
def BlkEq (s s' : St) : Prop :=
  s'.stack = s.stack ∧
  (∀ (j : Nat) (cs : List Nat), s'.groups[j]? = some (Grp.block cs) ↔ s.groups[j]? = some (Grp.block cs)) ∧
  s.groups.size ≤ s'.groups.size ∧ RowHead s s' ∧ s.nodes.size ≤ s'.nodes.size

theorem BlkEq.refl (s : St) : BlkEq s s :=
  ⟨rfl, fun _ _ => Iff.rfl, Nat.le_refl _, fun j i l t h => ⟨l, h⟩, Nat.le_refl _⟩

theorem BlkEq.trans {s t u : St} (h : BlkEq s t) (h' : BlkEq t u) : BlkEq s u :=
  ⟨h'.1.trans h.1, fun j cs => (h'.2.1 j cs).trans (h.2.1 j cs), Nat.le_trans h.2.2.1 h'.2.2.1,
    fun j i l t hg => by
      obtain ⟨l', hl'⟩ := h.2.2.2.1 j i l t hg
      exact h'.2.2.2.1 j i l' t hl', Nat.le_trans h.2.2.2.2 h'.2.2.2.2⟩

theorem BlkEq.of_groups {s s' : St} (h : s'.groups = s.groups) (hs : s'.stack = s.stack)
    (hn : s.nodes.size ≤ s'.nodes.size) : BlkEq s s' :=
  ⟨hs, fun j cs => by rw [h], by rw [h]; exact Nat.le_refl _, fun j i l t hg => ⟨l, by rw [h]; exact hg⟩, hn⟩

/-- overwriting a non-block by a non-block (a row group only by a row group with the same first node) -/
theorem BlkEq.set {s : St} {g : Nat} {old new : Grp} (ho : s.groups[g]? = some old)
    (h1 : ∀ cs, old ≠ .block cs) (h2 : ∀ cs, new ≠ .block cs)
    (h3 : ∀ i l t, old = .row (i :: l) t → ∃ l', new = .row (i :: l') t) (s' : St)
    (hg : s'.groups = s.groups.setIfInBounds g new) (hs : s'.stack = s.stack)
    (hn : s.nodes.size ≤ s'.nodes.size) : BlkEq s s' := by
  have hlt : g < s.groups.size := (Array.getElem?_eq_some_iff.mp ho).1
  refine ⟨hs, fun j cs => ?_, by rw [hg]; simp, ?_, hn⟩
  · rw [hg, Array.getElem?_setIfInBounds]
    by_cases hj : g = j
    · subst hj
      simp only [hlt, if_true]
      constructor
      · intro e; injection e with e; exact absurd e (h2 cs)
      · intro e; rw [ho] at e; injection e with e; exact absurd e (h1 cs)
    · simp [hj]
  · intro j i l t hgj
    rw [hg, Array.getElem?_setIfInBounds]
    by_cases hj : g = j
    · subst hj
      rw [ho] at hgj
      injection hgj with hgj
      obtain ⟨l', hl'⟩ := h3 i l t hgj
      exact ⟨l', by simp [hlt, hl']⟩
    · exact ⟨l, by simp [hj, hgj]⟩

theorem BlkEq.set' {s : St} {g : Nat} {old new : Grp} (ho : s.groups[g]? = some old)
    (h1 : ∀ cs, old ≠ .block cs) (h2 : ∀ cs, new ≠ .block cs)
    (h3 : ∀ i l t, old = .row (i :: l) t → ∃ l', new = .row (i :: l') t) (nodes : Array NodeM) (next : Nat)
    (hn : s.nodes.size ≤ nodes.size) :
    BlkEq s { s with nodes := nodes, next := next, groups := s.groups.setIfInBounds g new } :=
  BlkEq.set ho h1 h2 h3 _ rfl rfl hn

theorem mostRecentIn_blkEq {gs gs' : Array Grp}
    (h : ∀ (j : Nat) (cs : List Nat), gs'[j]? = some (Grp.block cs) ↔ gs[j]? = some (Grp.block cs)) :
    ∀ st, mostRecentIn gs' st = mostRecentIn gs st := by
  intro st
  induction st with
  | nil => rfl
  | cons b bs ih =>
    unfold mostRecentIn
    cases hg : gs[b]? with
    | none =>
      cases hg' : gs'[b]? with
      | none => simp only [ih]
      | some g' =>
        cases g' with
        | block cs => have := (h b cs).mp hg'; rw [hg] at this; cases this
        | row _ _ => simp only [ih]
        | noop _ _ => simp only [ih]
    | some g =>
      cases g with
      | block cs =>
        rw [(h b cs).mpr hg]
        simp only [ih]
      | row a1 a2 =>
        cases hg' : gs'[b]? with
        | none => simp only [ih]
        | some g' =>
          cases g' with
          | block cs => have := (h b cs).mp hg'; rw [hg] at this; cases this
          | row _ _ => simp only [ih]
          | noop _ _ => simp only [ih]
      | noop a1 a2 =>
        cases hg' : gs'[b]? with
        | none => simp only [ih]
        | some g' =>
          cases g' with
          | block cs => have := (h b cs).mp hg'; rw [hg] at this; cases this
          | row _ _ => simp only [ih]
          | noop _ _ => simp only [ih]

theorem BlkEq.mostRecent {s s' : St} (h : BlkEq s s') :
    mostRecentIn s'.groups s'.stack = mostRecentIn s.groups s.stack := by
  rw [h.1]; exact mostRecentIn_blkEq h.2.1 _

def BlkStep {α} (m : M α) : Prop := ∀ s, wp m s (fun _ s' => BlkEq s s')

theorem BFrame.blk {α} {m : M α} (h : BFrame m) : BlkStep m := by
  intro s
  refine wp_mono (h s) ?_
  intro _ s' ⟨h1, h2, h3⟩
  exact BlkEq.of_groups h1 h2 (by rw [h3]; exact Nat.le_refl _)

theorem BlkStep.forM {β} (l : List β) (f : β → M PUnit) (hf : ∀ x ∈ l, BlkStep (f x)) : BlkStep (l.forM f) := by
  intro s
  exact wp_forM (fun s' => BlkEq s s') l f (by
    intro x hx s1 h1
    refine wp_mono (hf x hx s1) ?_
    intro _ s2 h2
    exact h1.trans h2) s (BlkEq.refl s)

theorem routerBehind_blk (g : Nat) (nodes : List Nat) (rowType : Str) (i : Nat) (n : NodeM)
    (operandV : Str) (waitT : Option Nat) (s : St) (hg : s.groups[g]? = some (.row nodes rowType)) :
    wp (routerBehind g nodes rowType i n operandV waitT) s (fun _ s' => BlkEq s s') := by
  unfold routerBehind attachRowNode
  wp_simp [wp_fresh', wp_newRouterNode, wp_addNode, wp_setGrp, wp_setNode]
  refine ⟨fun _ => trivial, fun _ => ?_⟩
  refine wp_mono (newSwitch_spec _ _ _ _) ?_
  intro sw s1 ⟨k, hb, _⟩
  subst hb
  refine BlkEq.set hg (by intro cs e; cases e) (by intro cs e; cases e) ?_ _ rfl rfl (by simp) 
  intro i l t e
  injection e with e1 e2
  subst e1; subst e2
  exact ⟨l ++ [s.nodes.size], rfl⟩

theorem rowExitCond_blk (g : Nat) (nodes : List Nat) (rowType : Str) (i : Nat) (n : NodeM) (d : Dest)
    (c : Cond) (s : St) (hg : s.groups[g]? = some (.row nodes rowType)) :
    wp (rowExitCond g nodes rowType i n d c) s (fun _ s' => BlkEq s s') := by
  unfold rowExitCond
  wp_simp
  constructor
  · intro _
    refine wp_mono (routerBehind_blk _ _ _ _ _ _ _ s hg) ?_
    intro jn s1 h1
    refine wp_mono ((nodeAddChoice_frame _ _ _ _ _ _ _).blk s1) ?_
    intro _ s2 h2
    exact h1.trans h2
  · intro _
    exact (nodeAddChoice_frame _ _ _ _ _ _ _).blk s

theorem rowAddExit_blk (g : Nat) (nodes : List Nat) (rowType : Str) (d : Dest) (c : Cond) (s : St)
    (hg : s.groups[g]? = some (.row nodes rowType)) :
    wp (rowAddExit g nodes rowType d c) s (fun _ s' => BlkEq s s') := by
  unfold rowAddExit
  split
  · wp_simp
  · rename_i i hi
    wp_simp [wp_getNode]
    intro n hn
    exact ⟨fun _ => (rowExitBlank_frame i n d).blk s, fun _ =>
      ⟨fun _ => (rowExitEnter_frame i c d).blk s, fun _ =>
      ⟨fun _ => (rowExitHook_frame i c d).blk s, fun _ =>
      ⟨fun _ => (rowExitNoResp_frame i n d).blk s, fun _ =>
        rowExitCond_blk g nodes rowType i n d c s hg⟩⟩⟩⟩

theorem addExit_blk : ∀ fuel g d c, BlkStep (addExit fuel g d c) := by
  intro fuel
  induction fuel with
  | zero => intro g d c s; unfold addExit; wp_simp
  | succ fuel ih =>
    intro g d c s
    unfold addExit
    wp_simp [wp_getGrp]
    intro grp hgrp
    split
    · exact rowAddExit_blk g _ _ d c s hgrp
    · wp_simp
      refine ⟨fun _ => ?_, fun _ => trivial⟩
      refine wp_ro (ro_hasLoose _ _) s _ ?_
      intro bb
      exact ⟨fun _ => (BFrame.forM _ _ (fun x _ => connectIfLoose_frame _ d x)).blk s, fun _ => trivial⟩
    · split
      · wp_simp
        refine ⟨fun _ => BlkStep.forM _ _ (fun x _ => ih x.1 d x.2) s,
          fun _ => ⟨fun _ => trivial, fun _ => ?_⟩⟩
        unfold attachNoopRouter
        wp_simp [wp_fresh', wp_newRouterNode, wp_addNode, wp_setGrp]
        refine wp_mono (newSwitch_spec _ _ _ _) ?_
        intro sw s1 ⟨k, hb, _⟩
        subst hb
        rename_i parents _ _ _ _
        refine wp_mono (BlkStep.forM _ _ (fun x _ => ih x.1 (.node (tid s.next)) x.2) _) ?_
        intro _ s2 h2
        refine wp_mono ((noopRouterExit_frame _ d c).blk s2) ?_
        intro _ s3 h3
        rename_i parents _ _ _ _ _ _
        have b1 := BlkEq.set' hgrp (new := .noop parents (some s.nodes.size)) (by intro cs e; cases e)
          (by intro cs e; cases e) (by intro i l t e; cases e)
        exact ((b1 _ _ (by simp)).trans h2).trans h3
      · exact (noopRouterExit_frame _ d c).blk s

/-! `add_exit` creates no group -/

def GSz {α} (m : M α) : Prop := ∀ s, wp m s (fun _ s' => s'.groups.size = s.groups.size)

theorem BFrame.gsz {α} {m : M α} (h : BFrame m) : GSz m := by
  intro s
  refine wp_mono (h s) ?_
  intro _ s' ⟨h1, _, _⟩
  rw [h1]

theorem GSz.forM {β} (l : List β) (f : β → M PUnit) (hf : ∀ x ∈ l, GSz (f x)) : GSz (l.forM f) := by
  intro s
  exact wp_forM (fun s' => s'.groups.size = s.groups.size) l f (by
    intro x hx s1 h1
    refine wp_mono (hf x hx s1) ?_
    intro _ s2 h2
    exact h2.trans h1) s rfl

theorem routerBehind_gsz (g : Nat) (nodes : List Nat) (rowType : Str) (i : Nat) (n : NodeM)
    (operandV : Str) (waitT : Option Nat) : GSz (routerBehind g nodes rowType i n operandV waitT) := by
  intro s
  unfold routerBehind attachRowNode
  wp_simp [wp_fresh', wp_newRouterNode, wp_addNode, wp_setGrp, wp_setNode]
  refine ⟨fun _ => trivial, fun _ => ?_⟩
  refine wp_mono (newSwitch_spec _ _ _ _) ?_
  intro sw s1 ⟨k, hb, _⟩
  subst hb
  simp

theorem rowExitCond_gsz (g : Nat) (nodes : List Nat) (rowType : Str) (i : Nat) (n : NodeM) (d : Dest)
    (c : Cond) : GSz (rowExitCond g nodes rowType i n d c) := by
  intro s
  unfold rowExitCond
  wp_simp
  constructor
  · intro _
    refine wp_mono (routerBehind_gsz _ _ _ _ _ _ _ s) ?_
    intro jn s1 h1
    refine wp_mono ((nodeAddChoice_frame _ _ _ _ _ _ _).gsz s1) ?_
    intro _ s2 h2
    exact h2.trans h1
  · intro _
    exact (nodeAddChoice_frame _ _ _ _ _ _ _).gsz s

theorem rowAddExit_gsz (g : Nat) (nodes : List Nat) (rowType : Str) (d : Dest) (c : Cond) :
    GSz (rowAddExit g nodes rowType d c) := by
  intro s
  unfold rowAddExit
  split
  · wp_simp
  · rename_i i hi
    wp_simp [wp_getNode]
    intro n hn
    exact ⟨fun _ => (rowExitBlank_frame i n d).gsz s, fun _ =>
      ⟨fun _ => (rowExitEnter_frame i c d).gsz s, fun _ =>
      ⟨fun _ => (rowExitHook_frame i c d).gsz s, fun _ =>
      ⟨fun _ => (rowExitNoResp_frame i n d).gsz s, fun _ =>
        rowExitCond_gsz g nodes rowType i n d c s⟩⟩⟩⟩

theorem addExit_gsz : ∀ fuel g d c, GSz (addExit fuel g d c) := by
  intro fuel
  induction fuel with
  | zero => intro g d c s; unfold addExit; wp_simp
  | succ fuel ih =>
    intro g d c s
    unfold addExit
    wp_simp [wp_getGrp]
    intro grp hgrp
    split
    · exact rowAddExit_gsz g _ _ d c s
    · wp_simp
      refine ⟨fun _ => ?_, fun _ => trivial⟩
      refine wp_ro (ro_hasLoose _ _) s _ ?_
      intro bb
      exact ⟨fun _ => (BFrame.forM _ _ (fun x _ => connectIfLoose_frame _ d x)).gsz s, fun _ => trivial⟩
    · split
      · wp_simp
        refine ⟨fun _ => GSz.forM _ _ (fun x _ => ih x.1 d x.2) s,
          fun _ => ⟨fun _ => trivial, fun _ => ?_⟩⟩
        unfold attachNoopRouter
        wp_simp [wp_fresh', wp_newRouterNode, wp_addNode, wp_setGrp]
        refine wp_mono (newSwitch_spec _ _ _ _) ?_
        intro sw s1 ⟨k, hb, _⟩
        subst hb
        refine wp_mono (GSz.forM _ _ (fun x _ => ih x.1 (.node (tid s.next)) x.2) _) ?_
        intro _ s2 h2
        refine wp_mono ((noopRouterExit_frame _ d c).gsz s2) ?_
        intro _ s3 h3
        rw [h3, h2]; simp
      · exact (noopRouterExit_frame _ d c).gsz s

end Rpft.Compile
