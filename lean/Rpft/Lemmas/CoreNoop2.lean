/-
Lock-step simulation with `no_op` rows, row by row: the edges of a row (each from an ordinary row or
from a `no_op` row), the rows that produce a node, `hard_exit` / `loose_exit` / `go_to` rows, `no_op`
rows; all rows.
-/
import Rpft.Lemmas.CoreNoop
set_option linter.unusedSimpArgs false
set_option linter.unusedVariables false
namespace Rpft.CoreSheet
open Rpft Rpft.Compile Rpft.RefFlow

/-- one edge with destination `d` (reference target `tgt`) -/
theorem edge_simN (rows : List CRow) (outF : List OutEdge) (g : Good rows outF) (hsh : noopShape rows outF = true)
    (M : Maps) (pd : Bool) (kg : Nat) (d : Dest) (tgt : Target) (e : Compile.Edge) (s : St) (stT stT' st : P1)
    (pnd : List OutEdge) (h : Rel rows M pd kg s st) (hs : Sched rows M kg s stT st pnd)
    (hd : DestIs M s.nodes d (some tgt))
    (htg : ∀ t, tgt = Target.row t → (t < kg ∨ (pd = true ∧ t = kg)) ∧ M.fr t = false)
    (hTrow : ∀ t, tgt = Target.row t → ∃ c, rows[t]? = some c ∧ isNodeRow c = true)
    (htn : tgtNoop rows tgt = false)
    (hst : edgeStep stT kg (toREdge e) tgt = .ok stT')
    (hpre : stT'.out.reverse <+: outF)
    (hF : ∃ p', stT'.out.reverse.foldlM (schedStep rows) [] = some p') :
    wp (addRowEdge d e) s (NPost rows M pd kg s stT') := by
  unfold addRowEdge
  wp_simp
  refine wp_groupOfEdge_rel h e _ ?_
  intro o hsrc hok
  have hsrcT : edgeSrc stT kg (toREdge e) = .ok o := by
    rw [← edgeSrc_congr stT st kg (toREdge e) hs.ids hs.prev]; exact hsrc
  unfold edgeStep at hst
  rw [hsrcT] at hst
  cases o with
  | none =>
    simp only [Except.ok.injEq] at hst
    subst hst
    simp only [Option.map_none]
    wp_simp
    exact ⟨M, st, pnd, MExt.refl M, h, hs, NExt.refl _⟩
  | some j =>
    simp only [Except.ok.injEq] at hst
    subst hst
    simp only [Option.map_some]
    wp_simp [wp_fuelOf]
    obtain ⟨hj, c, hc, hnode⟩ := hok j rfl
    have hfuel : 2 * s.groups.size + 8 = (2 * s.groups.size + 6) + 2 := by omega
    rw [hfuel]
    cases hnn : isNoop c with
    | true =>
      exact noop_leave_sim rows outF g hsh M pd kg d tgt e.cond s stT st pnd j h hs hj ⟨c, hc, hnn⟩ hd htg hTrow htn
        hpre hF _
    | false =>
      exact addExit_simN rows outF g M pd kg d tgt e.cond s stT st pnd j h hs hj ⟨c, hc, hnode, hnn⟩ hd htg htn
        hpre hF _

/-- all edges of a row that lead to one destination -/
theorem edges_simN (rows : List CRow) (outF : List OutEdge) (g : Good rows outF) (hsh : noopShape rows outF = true)
    (pd : Bool) (kg : Nat) (d : Dest) (tgt : Target)
    (hTrow : ∀ t, tgt = Target.row t → ∃ c, rows[t]? = some c ∧ isNodeRow c = true)
    (htn : tgtNoop rows tgt = false) :
    ∀ (es : List Compile.Edge) (M : Maps) (s : St) (stT stT' st : P1) (pnd : List OutEdge),
      Rel rows M pd kg s st → Sched rows M kg s stT st pnd → DestIs M s.nodes d (some tgt) →
      (∀ t, tgt = Target.row t → (t < kg ∨ (pd = true ∧ t = kg)) ∧ M.fr t = false) →
      addEdges stT kg (es.map fun e => (toREdge e, tgt)) = .ok stT' →
      stT'.out.reverse <+: outF →
      (∃ p', stT'.out.reverse.foldlM (schedStep rows) [] = some p') →
      wp (es.forM (addRowEdge d)) s (NPost rows M pd kg s stT') := by
  intro es
  induction es with
  | nil =>
    intro M s stT stT' st pnd h hs _ _ hst _ _
    rw [List.map_nil, addEdges_nil] at hst
    injection hst with hst; subst hst
    rw [wp_forM_nil]; exact ⟨M, st, pnd, MExt.refl M, h, hs, NExt.refl _⟩
  | cons e es ih =>
    intro M s stT stT' st pnd h hs hd htg hst hpre hF
    rw [List.map_cons, addEdges_cons] at hst
    rw [wp_forM_cons]
    cases h1 : edgeStep stT kg (toREdge e) tgt with
    | error err => rw [h1] at hst; cases hst
    | ok stT1 =>
      rw [h1] at hst
      simp only at hst
      have hpre1 : stT1.out.reverse <+: outF := (addEdges_prefix _ _ _ _ hst).trans hpre
      have hF1 : ∃ p', stT1.out.reverse.foldlM (schedStep rows) [] = some p' := by
        obtain ⟨p', hp'⟩ := hF
        obtain ⟨t, ht⟩ := addEdges_prefix _ _ _ _ hst
        rw [← ht, List.foldlM_append] at hp'
        cases hq : stT1.out.reverse.foldlM (schedStep rows) [] with
        | none => rw [hq] at hp'; simp at hp'
        | some q => exact ⟨q, rfl⟩
      refine wp_mono (edge_simN rows outF g hsh M pd kg d tgt e s stT stT1 st pnd h hs hd htg hTrow htn h1 hpre1 hF1) ?_
      intro _ s1 ⟨M1, st1, pnd1, hM1, r1, hs1, e1⟩
      have hd1 : DestIs M1 s1.nodes d (some tgt) := (hd.ext e1).mext hM1 (fun t ht => (htg t ht).2)
      have htg1 : ∀ t, tgt = Target.row t → (t < kg ∨ (pd = true ∧ t = kg)) ∧ M1.fr t = false :=
        fun t ht => ⟨(htg t ht).1, (hM1 t (htg t ht).2).1⟩
      refine wp_mono (ih M1 s1 stT1 stT' st1 pnd1 r1 hs1 hd1 htg1 hst hpre hF) ?_
      intro _ s2 ⟨M2, st2, pnd2, hM2, r2, hs2, e2⟩
      exact ⟨M2, st2, pnd2, hM1.trans hM2, r2, hs2, e1.trans e2⟩

/-! ### rows -/

/-- the state of the compiler machine and the (true) state of pass 1 after `kg` rows -/
def RelN (rows : List CRow) (M : Maps) (kg : Nat) (s : St) (stT : P1) : Prop :=
  ∃ (st : P1) (pnd : List OutEdge), Rel rows M false kg s st ∧ Sched rows M kg s stT st pnd

theorem isNoop_false_of_ok (c : CRow) (hf : nodeRowOk c = true) : isNoop c = false := by
  have := (rowFacts c hf).t8
  unfold isNoop
  exact decide_eq_false this

/-- the edge an elided `no_op` row is left by is in the schedule -/
theorem Sched.elided_mem {rows : List CRow} {M : Maps} {kg : Nat} {s : St} {stT st : P1} {pnd : List OutEdge}
    (hs : Sched rows M kg s stT st pnd) (N : Nat) (b : OutEdge) (hN : NoopRow rows N) (hb : outOf stT N = [b]) :
    b ∈ st.out := by
  have hnop : pnd.filter (·.src = N) = [] := by
    rw [List.filter_eq_nil_iff]
    intro pe hpe hsrc
    obtain ⟨_, c, hc, _, hnn⟩ := hs.psrc pe hpe
    obtain ⟨cN, hcN, hnN⟩ := hN
    have : pe.src = N := by simpa using hsrc
    rw [this, hcN] at hc; injection hc with hc; subst hc
    rw [hnN] at hnn; cases hnn
  have := hs.split N
  rw [hnop, List.append_nil, hb] at this
  have hm : b ∈ outOf st N := by rw [← this]; simp
  have := (List.mem_filter.mp hm).1
  simpa using this

/-- the arena grows, the ghost map learns about the row being parsed: the schedule is unaffected -/
theorem Sched.push {rows : List CRow} {M M' : Maps} {k : Nat} {s s' : St} {stT st : P1} {pnd : List OutEdge}
    (hs : Sched rows M k s stT st pnd) (h : Rel rows M false k s st)
    (hn : ∀ t, t ≠ k → M'.nOf t = M.nOf t) (hel : M'.el = M.el) (hfr : M'.fr = M.fr)
    (hg : s'.groups = s.groups) : Sched rows M' k s' stT st pnd := by
  refine ⟨hs.ids, hs.prev, hs.split, hs.fold, by rw [hfr]; exact hs.pend, hs.psrc, ?_, ?_, ?_,
    fun N hel' hlt hNn => by rw [hel] at hel'; rw [hg]; exact hs.elgrp N hel' hlt hNn⟩
  · intro N hN; rw [hfr] at hN; rw [hg]; exact hs.fresh N hN
  · intro N hel' hfr' hlt
    rw [hel] at hel'; rw [hfr] at hfr'
    obtain ⟨hNn, b, T, cT, h1, h2, h3, h4, h5⟩ := hs.elided N hel' hfr' hlt
    have hT : T < k := by
      rcases h.tgtok b (hs.elided_mem N b hNn h1) T h3 with h6 | h6
      · exact h6
      · exact absurd h6.1 (by simp)
    exact ⟨hNn, b, T, cT, h1, h2, h3, by rw [hn N (by omega), hn T (by omega)]; exact h4, h5⟩
  · intro N cN hN hcN hnN hel'
    rw [hel] at hel'
    exact hs.routed N cN hN hcN hnN hel'

/-- the group of an ordinary row `k` is appended, its row id registered -/
theorem Sched.close {rows : List CRow} {M : Maps} {k : Nat} {s3 : St} {stT st : P1} {pnd : List OutEdge} {c : CRow}
    (hs : Sched rows M k s3 stT st pnd) (r3 : Rel rows M true k s3 st) (hc : rows[k]? = some c)
    (hnn : isNoop c = false) (grp : Grp) (blk : Grp) (rowIds names : List (Str × Nat)) (ids : List (Str × Nat)) :
    Sched rows M (k + 1)
      { s3 with groups := (s3.groups.push grp).setIfInBounds 0 blk, rowIds := rowIds, names := names }
      { stT with prev := some k, ids := ids } { st with prev := some k, ids := ids } pnd := by
  have helk : M.el k = false := r3.elno k c hc hnn
  have hfrk : M.fr k = false := by
    cases hf : M.fr k with
    | false => rfl
    | true => have := (r3.frel k hf).1; rw [helk] at this; cases this
  refine ⟨rfl, rfl, hs.split, hs.fold, hs.pend, fun e he => ⟨by have := (hs.psrc e he).1; omega, (hs.psrc e he).2⟩,
    ?_, ?_, ?_, ?_⟩
  rotate_right
  · intro N hel hlt hNn
    have hlt' : N < k := by
      rcases Nat.lt_succ_iff_lt_or_eq.mp hlt with h1 | h1
      · exact h1
      · rw [h1, helk] at hel; cases hel
    obtain ⟨ps, hgN⟩ := hs.elgrp N hel hlt' hNn
    refine ⟨ps, ?_⟩
    have h1 := gOf_pos rows N
    have h2 : gOf rows N < s3.groups.size := (Array.getElem?_eq_some_iff.mp hgN).1
    simp only [Array.getElem?_setIfInBounds, Array.getElem?_push]
    rw [if_neg (by omega), if_neg (by omega)]
    exact hgN
  · intro N hN
    obtain ⟨hnr, ho, hgN⟩ := hs.fresh N hN
    refine ⟨hnr, ho, ?_⟩
    have hlt : N < k := by
      have := (r3.frel N hN).2.1; exact this
    obtain ⟨cN, hcN, hnN⟩ := hnr
    have h1 := gOf_pos rows N
    have h2 : gOf rows N < s3.groups.size := (Array.getElem?_eq_some_iff.mp hgN).1
    simp only [Array.getElem?_setIfInBounds, Array.getElem?_push]
    rw [if_neg (by omega), if_neg (by omega)]
    exact hgN
  · intro N hel hfr hlt
    have : N < k := by
      rcases Nat.lt_succ_iff_lt_or_eq.mp hlt with h1 | h1
      · exact h1
      · rw [h1, helk] at hel; cases hel
    exact hs.elided N hel hfr this
  · intro N cN hlt hcN hnN hel
    have : N < k := by
      rcases Nat.lt_succ_iff_lt_or_eq.mp hlt with h1 | h1
      · exact h1
      · subst h1; rw [hc] at hcN; injection hcN with hcN; subst hcN; rw [hnn] at hnN; cases hnN
    exact hs.routed N cN this hcN hnN hel

/-- a row's edges do not lead into a `no_op` row (those of a `no_op` row do) -/
theorem tgtNoop_row_false {rows : List CRow} {k : Nat} {c : CRow} (hc : rows[k]? = some c) (hnn : isNoop c = false) :
    tgtNoop rows (Target.row k) = false := by
  show noopAt rows k = false
  unfold noopAt; rw [hc]; exact hnn

theorem foldlM_prefix_some {α β} (f : β → α → Option β) (l L : List α) (init : β) (h : l <+: L)
    (hL : ∃ p, L.foldlM f init = some p) : ∃ p, l.foldlM f init = some p := by
  obtain ⟨p, hp⟩ := hL
  obtain ⟨t, ht⟩ := h
  rw [← ht, List.foldlM_append] at hp
  cases hq : l.foldlM f init with
  | none => rw [hq] at hp; simp at hp
  | some q => exact ⟨q, rfl⟩

/-- only action rows carry node names -/
theorem namedAct_of_ok {c : CRow} (hf : nodeRowOk c = true) (hnm : c.row.nodeName ≠ []) : isNamedAct c = true := by
  simp only [nodeRowOk, Bool.or_eq_true] at hf
  rcases hf with ((h1 | h1) | h1) | h1
  · simp only [plainActionRow, Bool.and_eq_true, Bool.not_eq_true'] at h1
    unfold isNamedAct
    rw [h1.1.1.1]
    cases hh : c.row.nodeName with
    | nil => exact absurd hh hnm
    | cons _ _ => rfl
  · simp only [switchRow, Bool.and_eq_true, List.isEmpty_iff] at h1; exact absurd h1.1.2 hnm
  · simp only [fixedRow, Bool.and_eq_true, List.isEmpty_iff] at h1; exact absurd h1.1.2 hnm
  · simp only [randomRow, Bool.and_eq_true, List.isEmpty_iff] at h1; exact absurd h1.1.2 hnm

/-- a node-producing row -/
theorem node_row_simN (rows : List CRow) (outF : List OutEdge) (g : Good rows outF) (hsh : noopShape rows outF = true)
    (hFull : ∃ p, outF.foldlM (schedStep rows) [] = some p)
    (M : Maps) (k : Nat) (c : CRow)
    (hc : rows[k]? = some c) (hf : nodeRowOk c = true) (hm : (c.merged && isNamedAct c) = false)
    (s : St) (stT stT' : P1) (h : RelN rows M k s stT)
    (hst : pass1Row stT k (toRRow c) = .ok stT') (hpre : stT'.out.reverse <+: outF) :
    wp (step (toEvent c)) s (fun _ s' => ∃ M', RelN rows M' (k + 1) s' stT') := by
  obtain ⟨st, pnd, h, hs⟩ := h
  have hfacts := rowFacts c hf
  have hnode := isNodeRow_of_ok c hf hm
  have hnn := isNoop_false_of_ok c hf
  -- the reference side
  rw [pass1Row_node stT k (toRRow c) hfacts.kind] at hst
  have hes : (((toRRow c).edges.zipIdx.filter fun (p : REdge × Nat) => p.2 = 0 || !isTrivial p.1).map (·.1)).map
      (fun e => (e, Target.row k)) = (dropTrivial c.row.edges).map (fun e => (toREdge e, Target.row k)) := by
    have := dropTrivial_ref c.row.edges
    simp only [toRRow]
    rw [this, List.map_map]; rfl
  rw [hes] at hst
  cases hst1 : addEdges stT k ((dropTrivial c.row.edges).map (fun e => (toREdge e, Target.row k))) with
  | error err => rw [hst1] at hst; cases hst
  | ok stT1 =>
    rw [hst1] at hst
    simp only [Except.ok.injEq] at hst
    have hpre1 : stT1.out.reverse <+: outF := by rw [← hst] at hpre; exact hpre
    -- the compiler side
    unfold step toEvent
    refine wp_parseRow_new c hfacts s _ (names_none_of_unmerged g.annot h.names hc hm (namedAct_of_ok hf)) (fun _ => ?_)
    unfold newRow
    wp_simp [wp_addNode, wp_addGrp]
    refine wp_mono (rowAction_exact _ s) ?_
    intro act s1 ⟨⟨k1, hb1⟩, hact1⟩; subst hb1
    refine wp_mono (rowNode_sim c hf _ act hact1 _ h.args) ?_
    intro n s2 ⟨⟨k2, hb2⟩, hnrnd, hnsim⟩; subst hb2
    dsimp only
    -- the ghost map learns where the node of row `k` lives
    have r1 := h.push_node hc hnode hnn n hnrnd hnsim (s.next + k1 + k2) (by omega)
    obtain ⟨M', hM'⟩ : ∃ M' : Maps, M' = { M with nOf := fun x => if x = k then s.nodes.size else M.nOf x } := ⟨_, rfl⟩
    rw [← hM'] at r1
    have hMk : M'.nOf k = s.nodes.size := by rw [hM']; simp
    have hMo : ∀ x, x ≠ k → M'.nOf x = M.nOf x := by intro x hx; rw [hM']; simp [hx]
    have hs1 : Sched rows M' k { s with nodes := s.nodes.push n, next := s.next + k1 + k2 } stT st pnd :=
      hs.push h hMo (by rw [hM']) (by rw [hM']) rfl
    have hfrk : M'.fr k = false := by
      cases hf' : M'.fr k with
      | false => rfl
      | true => have := (r1.frel k hf').1; rw [r1.elno k c hc hnn] at this; cases this
    have hdk : DestIs M' ({ s with nodes := s.nodes.push n, next := s.next + k1 + k2 } : St).nodes (.node n.uid)
        (some (Target.row k)) := ⟨n, by rw [hMk]; simp, rfl⟩
    refine wp_mono (edges_simN rows outF g hsh true k (.node n.uid) (Target.row k)
      (fun t ht => by injection ht with ht; subst ht; exact ⟨c, hc, hnode⟩) (tgtNoop_row_false hc hnn)
      _ M' _ stT stT1 st pnd r1 hs1 hdk
      (fun t ht => by injection ht with ht; subst ht; exact ⟨.inr ⟨rfl, rfl⟩, hfrk⟩) hst1 hpre1
      (foldlM_prefix_some _ _ _ _ hpre1 hFull)) ?_
    intro _ s3 ⟨M3, st3, pnd3, hM3, r3, hs3, _⟩
    have hM3k : M3.nOf k = s.nodes.size := by rw [(hM3 k hfrk).2, hMk]
    have hM3r : M3.rOf k = none := r3.rnone k (Nat.le_refl _)
    -- the row group is created and appended to the root block
    unfold appendGroup
    wp_simp [wp_setGrp]
    simp only [r3.stack]
    have hsz : s3.groups.size = gOf rows k := r3.gsize
    have hpos := gOf_pos rows k
    have hroot3 : (s3.groups.push (Grp.row [s.nodes.size] c.row.type))[0]? = some (.block (List.range' 1 (gOf rows k - 1))) := by
      rw [Array.getElem?_push]
      have : ¬ 0 = s3.groups.size := by rw [hsz]; omega
      simp [this, r3.root]
    rw [hroot3]
    wp_simp [wp_setGrp]
    unfold addRowId
    have hgrp1 : isNoop c = false → Grp.row [s.nodes.size] c.row.type = .row (M3.nOf k :: (M3.rOf k).toList) c.row.type := by
      intro _; rw [hM3k, hM3r]; rfl
    have hnames3 : NamesInv rows M3 (k + 1) ((c.row.nodeName, s.nodes.size) :: s3.names) := by
      have := r3.names.push hc hnode hnn (namedAct_of_ok hf)
      rw [hM3k] at this; exact this
    have hfinal := fun rowIds ids hids hlt =>
      r3.close_row hc hnode (.inl rfl) (fun hh => by
        have := (r3.frel k hh).1; rw [r3.elno k c hc hnn] at this; cases this)
        (Grp.row [s.nodes.size] c.row.type) hgrp1 (fun hh => by rw [hnn] at hh; cases hh) rowIds ids
        ((c.row.nodeName, s.nodes.size) :: s3.names) hids hlt hnames3
    by_cases hrid : c.row.rowId = []
    · simp only [hrid, List.isEmpty_nil, if_true]
      wp_simp
      refine ⟨M3, { st3 with prev := some k, ids := st3.ids }, pnd3, ?_, ?_⟩
      · have := hfinal s3.rowIds st3.ids r3.ids
          (fun p hp => by have := r3.idok p hp; exact ⟨by omega, this.2⟩)
        simpa [r3.stack] using this
      · have := hs3.close r3 hc hnn (Grp.row [s.nodes.size] c.row.type)
          (Grp.block (List.range' 1 (gOf rows k - 1) ++ [s3.groups.size])) s3.rowIds ((c.row.nodeName, s.nodes.size) :: s3.names) st3.ids
        rw [← hst]
        have e1 : ({ stT1 with prev := some k, ids := if (toRRow c).rowId.isEmpty then stT1.ids else ((toRRow c).rowId, k) :: stT1.ids } : P1)
            = { stT1 with prev := some k, ids := st3.ids } := by
          simp [toRRow, hrid, hs3.ids]
        rw [e1]
        simpa [r3.stack] using this
    · simp only [List.isEmpty_iff, hrid, if_false]
      wp_simp
      refine ⟨M3, { st3 with prev := some k, ids := (c.row.rowId, k) :: st3.ids }, pnd3, ?_, ?_⟩
      · have := hfinal ((c.row.rowId, s3.groups.size) :: s3.rowIds) ((c.row.rowId, k) :: st3.ids)
          (by simp [r3.ids, hsz])
          (fun p hp => by
            simp only [List.mem_cons] at hp
            rcases hp with rfl | hp
            · exact ⟨by simp, c, hc, hnode⟩
            · have := r3.idok p hp; exact ⟨by omega, this.2⟩)
        simpa [r3.stack] using this
      · have := hs3.close r3 hc hnn (Grp.row [s.nodes.size] c.row.type)
          (Grp.block (List.range' 1 (gOf rows k - 1) ++ [s3.groups.size]))
          ((c.row.rowId, s3.groups.size) :: s3.rowIds) ((c.row.nodeName, s.nodes.size) :: s3.names) ((c.row.rowId, k) :: st3.ids)
        rw [← hst]
        have e1 : ({ stT1 with prev := some k, ids := if (toRRow c).rowId.isEmpty then stT1.ids else ((toRRow c).rowId, k) :: stT1.ids } : P1)
            = { stT1 with prev := some k, ids := (c.row.rowId, k) :: st3.ids } := by
          simp [toRRow, List.isEmpty_iff, hrid, hs3.ids]
        rw [e1]
        simpa [r3.stack] using this

/-! ### rows that produce no node -/

theorem dropTrivial_map (es : List Compile.Edge) :
    ((es.map toREdge).zipIdx.filter fun (p : REdge × Nat) => p.2 = 0 || !isTrivial p.1).map (·.1) =
      (dropTrivial es).map toREdge := dropTrivial_ref es

theorem kindOf_hard : kindOf "hard_exit".toList = .hardExit := by decide
theorem kindOf_loose : kindOf "loose_exit".toList = .looseExit := by decide
theorem kindOf_goto : kindOf "go_to".toList = .goTo := by decide

/-- a row that produces no node has been dealt with -/
theorem Sched.skip {rows : List CRow} {M : Maps} {k : Nat} {s : St} {stT st : P1} {pnd : List OutEdge} {c : CRow}
    (hs : Sched rows M k s stT st pnd) (h : Rel rows M false k s st) (hc : rows[k]? = some c)
    (hn : isNodeRow c = false) : Sched rows M (k + 1) s stT st pnd := by
  have hnn : isNoop c = false := by
    cases hh : isNoop c with
    | false => rfl
    | true => rw [isNodeRow_of_noop hh] at hn; cases hn
  have helk : M.el k = false := h.elno k c hc hnn
  refine ⟨hs.ids, hs.prev, hs.split, hs.fold, hs.pend, fun e he => ⟨by have := (hs.psrc e he).1; omega, (hs.psrc e he).2⟩,
    hs.fresh, ?_, ?_, ?_⟩
  rotate_right
  · intro N hel hlt hNn
    have : N < k := by
      rcases Nat.lt_succ_iff_lt_or_eq.mp hlt with h1 | h1
      · exact h1
      · rw [h1, helk] at hel; cases hel
    exact hs.elgrp N hel this hNn
  · intro N hel hfr hlt
    have : N < k := by
      rcases Nat.lt_succ_iff_lt_or_eq.mp hlt with h1 | h1
      · exact h1
      · rw [h1, helk] at hel; cases hel
    exact hs.elided N hel hfr this
  · intro N cN hlt hcN hnN hel
    have : N < k := by
      rcases Nat.lt_succ_iff_lt_or_eq.mp hlt with h1 | h1
      · exact h1
      · subst h1; rw [hc] at hcN; injection hcN with hcN; subst hcN; rw [hnn] at hnN; cases hnN
    exact hs.routed N cN this hcN hnN hel

theorem RelN.skip {rows : List CRow} {M : Maps} {k : Nat} {s : St} {stT : P1} {c : CRow}
    (h : RelN rows M k s stT) (hc : rows[k]? = some c) (hn : isNodeRow c = false)
    (hm : (c.merged && isNamedAct c) = false) : RelN rows M (k + 1) s stT := by
  obtain ⟨st, pnd, h, hs⟩ := h
  exact ⟨st, pnd, h.skip hc hn hm, hs.skip h hc hn⟩

theorem not_named_of_special {c : CRow} (h : specialTypes.contains c.row.type = true) :
    (c.merged && isNamedAct c) = false := by
  unfold isNamedAct; rw [h]; simp

/-- a `hard_exit` / `loose_exit` row -/
theorem exit_row_simN (rows : List CRow) (outF : List OutEdge) (g : Good rows outF) (hsh : noopShape rows outF = true)
    (hFull : ∃ p, outF.foldlM (schedStep rows) [] = some p) (M : Maps) (k : Nat) (c : CRow)
    (hc : rows[k]? = some c) (hf : exitRow c = true) (s : St) (stT stT' : P1) (h : RelN rows M k s stT)
    (hst : pass1Row stT k (toRRow c) = .ok stT') (hpre : stT'.out.reverse <+: outF) :
    wp (step (toEvent c)) s (fun _ s' => ∃ M', RelN rows M' (k + 1) s' stT') := by
  obtain ⟨st, pnd, h, hs⟩ := h
  simp only [exitRow, Bool.and_eq_true, Bool.or_eq_true, decide_eq_true_eq] at hf
  obtain ⟨ht, _⟩ := hf
  have hkind : kindOf c.row.type = .hardExit ∨ kindOf c.row.type = .looseExit := by
    rcases ht with h1 | h1 <;> rw [h1]
    · exact .inl kindOf_hard
    · exact .inr kindOf_loose
  have hsp : specialTypes.contains c.row.type = true := by rcases ht with h1 | h1 <;> rw [h1] <;> decide
  have hnn : isNodeRow c = false := by
    rw [isNodeRow_of_special hsp]; rcases hkind with h1 | h1 <;> rw [h1] <;> rfl
  -- the reference side
  have hst2 : addEdges stT k ((dropTrivial c.row.edges).map (fun e => (toREdge e, Target.exit))) = .ok stT' := by
    unfold pass1Row at hst
    have hk' : (toRRow c).kind = kindOf c.row.type := rfl
    have hes := dropTrivial_map c.row.edges
    rcases hkind with h1 | h1 <;>
      (simp only [hk', h1] at hst
       have he : (toRRow c).edges = c.row.edges.map toREdge := rfl
       rw [he, hes, List.map_map] at hst
       exact hst)
  -- the compiler side
  unfold step toEvent parseRow
  simp only
  rw [if_pos ht]
  have hd : DestIs M s.nodes (if c.row.type = "hard_exit".toList then Dest.hard else Dest.none) (some Target.exit) := by
    split
    · exact .inl rfl
    · exact .inr rfl
  refine wp_mono (edges_simN rows outF g hsh false k _ Target.exit (fun t ht => by cases ht) rfl _ M s stT stT' st pnd
    h hs hd (fun t ht => by cases ht) hst2 hpre (foldlM_prefix_some _ _ _ _ hpre hFull)) ?_
  intro _ s' ⟨M', st', pnd', _, r, hs', _⟩
  exact ⟨M', RelN.skip ⟨st', pnd', r, hs'⟩ hc hnn (not_named_of_special hsp)⟩

/-- the edges of a `go_to` row, each with its destination -/
theorem goto_edges_simN (rows : List CRow) (outF : List OutEdge) (g : Good rows outF) (hsh : noopShape rows outF = true)
    (hFull : ∃ p, outF.foldlM (schedStep rows) [] = some p) (k : Nat) :
    ∀ (es : List Compile.Edge) (M : Maps) (ds : List Str) (tgts : List Target) (s : St) (stT stT' : P1),
      RelN rows M k s stT → ds.length = es.length →
      ds.mapM (fun d => match lookupId stT.ids d with
        | some t => (pure (Target.row t) : Except WfErr Target)
        | none => throw (WfErr.unknownDest k d)) = .ok tgts →
      addEdges stT k ((es.map toREdge).zip tgts) = .ok stT' →
      stT'.out.reverse <+: outF →
      wp ((es.zip ds).forM gotoEdge) s (fun _ s' => ∃ M', RelN rows M' k s' stT') := by
  intro es
  induction es with
  | nil =>
    intro M ds tgts s stT stT' h _ _ hst _
    simp only [List.map_nil, List.zip_nil_left] at hst ⊢
    rw [addEdges_nil] at hst
    injection hst with hst; subst hst
    rw [wp_forM_nil]; exact ⟨M, h⟩
  | cons e es ih =>
    intro M ds tgts s stT stT' hN hlen hm hst hpre
    obtain ⟨st, pnd, h, hs⟩ := hN
    cases ds with
    | nil => simp at hlen
    | cons dd ds =>
      simp only [List.mapM_cons, bind, Except.bind] at hm
      cases hl : lookupId stT.ids dd with
      | none => rw [hl] at hm; cases hm
      | some t =>
        rw [hl] at hm
        simp only [pure, Except.pure] at hm
        cases hm2 : ds.mapM (fun d => match lookupId stT.ids d with
            | some t => (Except.ok (Target.row t) : Except WfErr Target)
            | none => throw (WfErr.unknownDest k d)) with
        | error err => rw [hm2] at hm; cases hm
        | ok tg2 =>
          rw [hm2] at hm
          simp only [Except.ok.injEq] at hm
          subst hm
          simp only [List.map_cons, List.zip_cons_cons] at hst ⊢
          rw [addEdges_cons] at hst
          rw [wp_forM_cons]
          cases h1 : edgeStep stT k (toREdge e) (Target.row t) with
          | error err => rw [h1] at hst; cases hst
          | ok stT1 =>
            rw [h1] at hst
            simp only at hst
            have hpre1 : stT1.out.reverse <+: outF := (addEdges_prefix _ _ _ _ hst).trans hpre
            -- the destination row: its group, its node
            have hl' : lookupId st.ids dd = some t := by rw [hs.ids]; exact hl
            obtain ⟨p, hp, hpt⟩ := lookupId_mem hl'
            have hidok := h.idok p hp
            rw [hpt] at hidok
            obtain ⟨htk, ct, hct, hnt⟩ := hidok
            have step1 : wp (gotoEdge (e, dd)) s (fun _ s1 => ∃ M1, RelN rows M1 k s1 stT1) := by
              unfold gotoEdge
              wp_simp [wp_lookupRow]
              rw [h.ids, lookup_ids, hl']
              simp only [Option.map_some]
              wp_simp [wp_fuelOf]
              have hfuel : 2 * s.groups.size + 8 = (2 * s.groups.size + 7) + 1 := by omega
              rw [hfuel]
              unfold entryNode
              wp_simp [wp_getGrp]
              intro grp hg
              cases hnnt : isNoop ct with
              | true =>
                -- the compiler rejects a `go_to` into a `no_op` row
                obtain ⟨ps, ro, hgN, _⟩ := h.grpN t ct htk hct hnnt
                rw [hgN] at hg; injection hg with hg; subst hg
                exact trivial
              | false =>
                have hgrp := h.grp t ct htk hct hnt hnnt
                have helt := h.elno t ct hct hnnt
                obtain ⟨nt, hnt', _⟩ := h.node t ct ⟨.inl htk, hct, hnt, helt⟩
                rw [hgrp] at hg; injection hg with hg; subst hg
                simp only [List.head?_cons]
                wp_simp [wp_getNode]
                intro n' hn'
                rw [hnt'] at hn'; injection hn' with hn'; subst hn'
                have hfrt : M.fr t = false := by
                  cases hf : M.fr t with
                  | false => rfl
                  | true => have := (h.frel t hf).1; rw [helt] at this; cases this
                exact wp_mono (edge_simN rows outF g hsh M false k (.node nt.uid) (Target.row t) e s stT stT1 st pnd h hs
                  ⟨nt, hnt', rfl⟩ (fun t' ht' => by injection ht' with ht'; subst ht'; exact ⟨.inl htk, hfrt⟩)
                  (fun t' ht' => by injection ht' with ht'; subst ht'; exact ⟨ct, hct, hnt⟩)
                  (tgtNoop_row_false hct hnnt) h1 hpre1 (foldlM_prefix_some _ _ _ _ hpre1 hFull))
                  (fun _ _ ⟨M1, st1, pnd1, _, r1, hs1, _⟩ => ⟨M1, st1, pnd1, r1, hs1⟩)
            refine wp_mono step1 ?_
            intro _ s1 ⟨M1, r1⟩
            have hids : stT1.ids = stT.ids := (edgeStep_prefix h1).2.1
            exact ih M1 ds tg2 s1 stT1 stT' r1 (by simpa using hlen) (by rw [hids]; exact hm2) hst hpre

/-- a `go_to` row -/
theorem goto_row_simN (rows : List CRow) (outF : List OutEdge) (g : Good rows outF) (hsh : noopShape rows outF = true)
    (hFull : ∃ p, outF.foldlM (schedStep rows) [] = some p) (M : Maps) (k : Nat) (c : CRow)
    (hc : rows[k]? = some c) (hf : gotoRow c = true) (s : St) (stT stT' : P1) (h : RelN rows M k s stT)
    (hst : pass1Row stT k (toRRow c) = .ok stT') (hpre : stT'.out.reverse <+: outF) :
    wp (step (toEvent c)) s (fun _ s' => ∃ M', RelN rows M' (k + 1) s' stT') := by
  simp only [gotoRow, Bool.and_eq_true, decide_eq_true_eq] at hf
  obtain ⟨ht, _⟩ := hf
  have hkind : kindOf c.row.type = .goTo := by rw [ht]; exact kindOf_goto
  have hsp : specialTypes.contains c.row.type = true := by rw [ht]; decide
  have hnn : isNodeRow c = false := by rw [isNodeRow_of_special hsp, hkind]; rfl
  have hlenE : ((dropTrivial c.row.edges).map toREdge).length = (dropTrivial c.row.edges).length := by simp
  -- the reference side
  unfold pass1Row at hst
  have hk' : (toRRow c).kind = kindOf c.row.type := rfl
  have he : (toRRow c).edges = c.row.edges.map toREdge := rfl
  have hd' : (toRRow c).dests = c.row.dests := rfl
  simp only [hk', hkind, he, dropTrivial_map, hd', hlenE, bind, Except.bind, pure, Except.pure] at hst
  -- the compiler side
  unfold step toEvent parseRow
  simp only
  have e10 : ¬ (c.row.type = "hard_exit".toList ∨ c.row.type = "loose_exit".toList) := by
    rw [ht]; rintro (hh | hh) <;> exact absurd hh (by decide)
  rw [if_neg e10, if_pos ht]
  unfold parseGoto
  simp only
  generalize hds : (if c.row.dests.length = 1 then List.replicate (dropTrivial c.row.edges).length (c.row.dests.headD [])
    else c.row.dests) = ds at hst ⊢
  by_cases hlen : ds.length = (dropTrivial c.row.edges).length
  · rw [if_neg (by simpa using hlen)] at hst
    simp only [hlen, ne_eq, not_true_eq_false, if_false]
    split at hst
    · cases hst
    · rename_i tgts hm
      refine wp_mono (goto_edges_simN rows outF g hsh hFull k _ M ds tgts s stT stT' h hlen hm hst hpre) ?_
      intro _ s' ⟨M', r⟩
      exact ⟨M', r.skip hc hnn (not_named_of_special hsp)⟩
  · simp only [hlen, ne_eq, not_false_eq_true, if_true]
    wp_simp

end Rpft.CoreSheet
