/-
Parser-level operations that change the scope: `append_node_group`, `no_op` rows, `go_to` rows,
merging rows, rows creating a node.
-/
import Rpft.Lemmas.CompileInsertScope
set_option linter.unusedSimpArgs false
set_option linter.unusedVariables false
namespace Rpft.Compile
open Rpft Function

variable {P : Params} {X : SParams}

/-- the children of every open block are untainted -/
def CK (P : Params) (s : St) : Prop :=
  ∀ b ∈ s.stack, ∀ cs, s.groups[b]? = some (.block cs) → ∀ c ∈ cs, ¬ P.T c

/-- a clean scope: untainted children, only the bottom block of the stack may be tainted -/
def CL (P : Params) (s : St) : Prop := CK P s ∧ ∀ b ∈ s.stack.dropLast, ¬ P.T b

theorem CK.mr {s : St} (h : CK P s) : MR P s := by
  intro x hx
  obtain ⟨b, hb, cs, hg, hc⟩ := mostRecentIn_mem' hx
  exact h b hb cs hg x hc

theorem CK.of_blkEq {s s' : St} (hb : BlkEq s s') (h : CK P s) : CK P s' := by
  intro b hbm cs hg
  rw [hb.1] at hbm
  exact h b hbm cs ((hb.2.1 b cs).mp hg)

theorem CL.of_blkEq {s s' : St} (hb : BlkEq s s') (h : CL P s) : CL P s' :=
  ⟨h.1.of_blkEq hb, by rw [hb.1]; exact h.2⟩

theorem CL.mr {s : St} (h : CL P s) : MR P s := h.1.mr

/-- every open block is a block of the arena -/
def SB (s : St) : Prop := ∀ b ∈ s.stack, ∃ cs, s.groups[b]? = some (.block cs)

theorem SB.of_blkEq {s s' : St} (hb : BlkEq s s') (h : SB s) : SB s' := by
  intro b hbm
  rw [hb.1] at hbm
  obtain ⟨cs, hcs⟩ := h b hbm
  exact ⟨cs, (hb.2.1 b cs).mpr hcs⟩

theorem SB.lt {s : St} (h : SB s) {b : Nat} (hb : b ∈ s.stack) : b < s.groups.size := by
  obtain ⟨cs, hcs⟩ := h b hb
  exact (Array.getElem?_eq_some_iff.mp hcs).1

/-- row ids name groups of the arena -/
def RV (s : St) : Prop := ∀ p ∈ s.rowIds, p.2 < s.groups.size

/-- row groups keep their first node, blocks their first child; the group arena does not shrink -/
def HeadKeep (s t : St) : Prop :=
  RowHead s t ∧ (∀ (j c : Nat) (cs : List Nat), s.groups[j]? = some (Grp.block (c :: cs)) →
    ∃ cs', t.groups[j]? = some (Grp.block (c :: cs'))) ∧ s.groups.size ≤ t.groups.size

theorem HeadKeep.refl (s : St) : HeadKeep s s :=
  ⟨fun j i l t h => ⟨l, h⟩, fun j c cs h => ⟨cs, h⟩, Nat.le_refl _⟩

theorem HeadKeep.trans {s t u : St} (h : HeadKeep s t) (h' : HeadKeep t u) : HeadKeep s u :=
  ⟨fun j i l t hg => by
      obtain ⟨l', hl'⟩ := h.1 j i l t hg
      exact h'.1 j i l' t hl',
    fun j c cs hg => by
      obtain ⟨cs', hc'⟩ := h.2.1 j c cs hg
      exact h'.2.1 j c cs' hc', Nat.le_trans h.2.2 h'.2.2⟩

theorem HeadKeep.of_blkEq {s t : St} (hb : BlkEq s t) : HeadKeep s t :=
  ⟨hb.2.2.2.1, fun j c cs hg => ⟨cs, (hb.2.1 j _).mpr hg⟩, hb.2.2.1⟩

/-- what an event-level operation keeps of the unary invariants of the left state -/
structure Eff (P : Params) (s t : St) : Prop where
  mr : MR P s → MR P t
  cl : CL P s → CL P t
  sb : SB s → SB t
  rv : RV s → RV t
  hk : HeadKeep s t

theorem Eff.of_blkEq {s t : St} (hb : BlkEq s t) (hr : t.rowIds = s.rowIds) : Eff P s t :=
  ⟨fun h => h.of_blkEq hb, fun h => h.of_blkEq hb, fun h => h.of_blkEq hb,
    fun h p hp => by rw [hr] at hp; exact Nat.lt_of_lt_of_le (h p hp) hb.2.2.1, HeadKeep.of_blkEq hb⟩

theorem Eff.of_blkEq' {s t : St} (hb : BlkEq s t) (hrv : RV s → RV t) : Eff P s t :=
  ⟨fun h => h.of_blkEq hb, fun h => h.of_blkEq hb, fun h => h.of_blkEq hb, hrv, HeadKeep.of_blkEq hb⟩

theorem Eff.trans {s t u : St} (h : Eff P s t) (h' : Eff P t u) : Eff P s u :=
  ⟨fun x => h'.mr (h.mr x), fun x => h'.cl (h.cl x), fun x => h'.sb (h.sb x), fun x => h'.rv (h.rv x),
    h.hk.trans h'.hk⟩

theorem rwp_get {α β : Type} (f₁ : St → M α) (f₂ : St → M β) (s₁ s₂ : St) (Q : α → St → β → St → Prop) :
    rwp (get >>= f₁) (get >>= f₂) s₁ s₂ Q ↔ rwp (f₁ s₁) (f₂ s₂) s₁ s₂ Q := by
  rw [rwp_bind]
  constructor
  · intro h
    exact h s₁ s₁ s₂ s₂ rfl rfl
  · intro h a t₁ b t₂ h1 h2
    cases h1; cases h2
    exact h

theorem SSim.consRowId {s₁ s₂ : St} (h : SSim P X s₁ s₂) (id : Str) (hid0 : id ≠ []) {g : Nat} (hd : P.DG g)
    (ht : P.T g → id ∈ X.F) (t₁ t₂ : St)
    (e1 : t₁.stack = s₁.stack) (e2 : t₁.rowIds = (id, g) :: s₁.rowIds) (e3 : t₁.names = s₁.names)
    (f1 : t₂.stack = s₂.stack) (f2 : t₂.rowIds = (id, P.γ g) :: s₂.rowIds) (f3 : t₂.names = s₂.names) :
    SSim P X t₁ t₂ := by
  constructor
  · rw [e1, f1]; exact h.stack
  · rw [e1]; exact h.stackDG
  · rw [e1]; exact h.tl
  · rw [e1]; exact h.bxs
  · rw [e1]; exact h.ss
  · intro x j hx hl
    rw [e2, lookupIn_cons] at hl
    rw [f2, lookupIn_cons]
    simp only [] at hl ⊢
    by_cases hid : id = x
    · simp only [hid, if_true, Option.some.injEq] at hl ⊢; rw [hl]
    · simp only [hid, if_false] at hl ⊢; exact h.ri x j hx hl
  · intro p hp
    rw [e2] at hp
    simp only [List.mem_cons] at hp
    rcases hp with hp | hp
    · rw [hp]; exact hd
    · exact h.riDG p hp
  · intro p hp
    rw [e2] at hp
    simp only [List.mem_cons] at hp
    rcases hp with hp | hp
    · rw [hp]; exact ht
    · exact h.rl p hp
  · intro p hp
    rw [e2] at hp
    simp only [List.mem_cons] at hp
    rcases hp with hp | hp
    · rw [hp]; exact hid0
    · exact h.rk p hp
  · intro x hx
    rw [e2] at hx
    rw [f2, lookupIn_cons]
    have h1 : id ≠ x := hx (id, g) (by simp)
    simp only [h1, if_false]
    exact h.rk2 x (fun p hp => hx p (by simp [hp]))
  · rw [e3, f3]; exact h.nm
  · rw [e3]; exact h.nmDN

/-- `append_node_group` -/
theorem appendGroup_rel (ok : P.Ok) {s₁ s₂ : St} (h : Sim P X s₁ s₂) {g : Nat} (rowId : Str) (hdg : P.DG g)
    (hlt : g < s₁.groups.size)
    (hT : P.T g → (∀ b, s₁.stack.head? = some b → P.T b) ∧ (rowId ≠ [] → rowId ∈ X.F)) :
    rwp (appendGroup g rowId) (appendGroup (P.γ g) rowId) s₁ s₂ (fun _ t₁ _ t₂ =>
      Sim P X t₁ t₂ ∧ t₁.stack = s₁.stack ∧ t₁.names = s₁.names ∧ t₂.names = s₂.names ∧
      (SB s₁ → SB t₁) ∧ (RV s₁ → RV t₁) ∧ HeadKeep s₁ t₁ ∧
      (¬ P.T g → MR P t₁ ∧ (CL P s₁ → CL P t₁))) := by
  unfold appendGroup
  rw [rwp_get, h.2.stack]
  cases hst : s₁.stack with
  | nil => exact rwp_fail_left _ _ _ _ _
  | cons b rest =>
    have hdb : P.DG b := h.2.stackDG b (by rw [hst]; simp)
    simp only [List.map_cons, List.cons_append]
    cases hg : s₁.groups[b]? with
    | none => exact rwp_fail_left _ _ _ _ _
    | some grp =>
      rw [h.1.groups b grp hdb hg]
      cases grp with
      | row _ _ => exact rwp_fail_left _ _ _ _ _
      | noop _ _ => exact rwp_fail_left _ _ _ _ _
      | block children =>
        have hcl := h.1.closed b _ hdb hg
        have key : ∀ (g2 : Grp) (cs2 : List Nat), mapGrpAt P b (.block children) = .block cs2 →
            mapGrpAt P b (.block (children ++ [g])) = .block (cs2 ++ [P.γ g]) := by
          intro g2 cs2 e
          by_cases hbb : b = P.bx ∧ P.sp = true
          · obtain ⟨hbb, hsp⟩ := hbb
            subst hbb
            rw [mapGrpAt_block_bx P hsp] at e ⊢
            injection e with e; subst e
            simp
          · have hbb' : b ≠ P.bx ∨ P.sp = false := by
              by_cases h1 : b = P.bx
              · right; cases hsp : P.sp with
                | false => rfl
                | true => exact absurd ⟨h1, hsp⟩ hbb
              · exact .inl h1
            rw [mapGrpAt_block_ne P hbb'] at e ⊢
            injection e with e; subst e
            simp
        obtain ⟨cs2, hcs2⟩ : ∃ cs2, mapGrpAt P b (.block children) = .block cs2 := by
          by_cases hbb : b = P.bx ∧ P.sp = true
          · exact ⟨_, by simp [mapGrpAt, hbb]; rfl⟩
          · exact ⟨_, by simp [mapGrpAt, hbb]; rfl⟩
        rw [hcs2]
        simp only []
        have a1 := h.1.setGrp ok hdb hg (g' := .block (children ++ [g]))
          (by intro i hi; simp [gnodes] at hi)
          (by
            intro x hx
            simp only [grefs, List.mem_append, List.mem_singleton] at hx
            rcases hx with hx | hx
            · exact hcl.2 x (by simpa [grefs] using hx)
            · rw [hx]; exact hdg)
          (by
            intro htb x hx
            simp only [grefs, List.mem_append, List.mem_singleton] at hx
            rcases hx with hx | hx
            · exact h.1.ra b _ hdb htb hg x (by simpa [grefs] using hx)
            · rw [hx]; intro htg
              exact htb ((hT htg).1 b (by rw [hst]; rfl)))
          (by intro _ _; cases children <;> simp)
          (by
            refine ⟨by intro i hi; simp [gnodes] at hi, ?_⟩
            intro x hx
            simp only [grefs, List.mem_append, List.mem_singleton] at hx
            rcases hx with hx | hx
            · exact (h.1.wf b _ hg).2 x (by simpa [grefs] using hx)
            · rw [hx]; exact hlt)
          (by intro _ nodes0 t0 e0; cases e0)
        rw [key (.block children) cs2 hcs2] at a1
        have hmr : ∀ t₁ : St, t₁.stack = s₁.stack → t₁.groups = s₁.groups.setIfInBounds b (.block (children ++ [g])) →
            ¬ P.T g → MR P t₁ ∧ (CL P s₁ → CL P t₁) := by
          intro t₁ e1 e2 hng
          have hlt : b < s₁.groups.size := (Array.getElem?_eq_some_iff.mp hg).1
          have hck : CK P s₁ → CK P t₁ := by
            intro hck b' hb' cs' hg'
            rw [e1] at hb'
            rw [e2, Array.getElem?_setIfInBounds] at hg'
            by_cases hbb' : b = b'
            · subst hbb'
              simp only [hlt, if_true, Option.some.injEq, Grp.block.injEq] at hg'
              subst hg'
              intro c hc
              simp only [List.mem_append, List.mem_singleton] at hc
              rcases hc with hc | hc
              · exact hck b hb' children hg c hc
              · rw [hc]; exact hng
            · simp only [hbb', if_false] at hg'
              exact hck b' hb' cs' hg'
          refine ⟨?_, fun hcl' => ⟨hck hcl'.1, by rw [e1]; exact hcl'.2⟩⟩
          intro x hx
          rw [e1, hst, e2] at hx
          unfold mostRecentIn at hx
          simp only [Array.getElem?_setIfInBounds, hlt, if_true] at hx
          simp only [List.getLast?_append, List.getLast?_singleton, Option.some_or] at hx
          injection hx with hx
          rw [← hx]; exact hng
        have hsb : ∀ t₁ : St, t₁.stack = s₁.stack → t₁.groups = s₁.groups.setIfInBounds b (.block (children ++ [g])) →
            SB s₁ → SB t₁ := by
          intro t₁ e1 e2 hs b' hb'
          have hlt : b < s₁.groups.size := (Array.getElem?_eq_some_iff.mp hg).1
          rw [e1] at hb'
          rw [e2, Array.getElem?_setIfInBounds]
          by_cases hbb' : b = b'
          · subst hbb'; simp [hlt]
          · simp only [hbb', if_false]; exact hs b' hb'
        have hhk : ∀ t₁ : St, t₁.groups = s₁.groups.setIfInBounds b (.block (children ++ [g])) → HeadKeep s₁ t₁ := by
          intro t₁ e2
          have hlt' : b < s₁.groups.size := (Array.getElem?_eq_some_iff.mp hg).1
          refine ⟨?_, ?_, by rw [e2]; simp⟩
          · intro j i l t hgj
            rw [e2, Array.getElem?_setIfInBounds]
            by_cases hbj : b = j
            · subst hbj; rw [hg] at hgj; cases hgj
            · exact ⟨l, by simp [hbj, hgj]⟩
          · intro j c cs hgj
            rw [e2, Array.getElem?_setIfInBounds]
            by_cases hbj : b = j
            · subst hbj
              rw [hg] at hgj
              injection hgj with hgj; injection hgj with hgj
              subst hgj
              exact ⟨cs ++ [g], by simp [hlt']⟩
            · exact ⟨cs, by simp [hbj, hgj]⟩
        have hrv0 : ∀ t₁ : St, t₁.groups = s₁.groups.setIfInBounds b (.block (children ++ [g])) →
            t₁.rowIds = s₁.rowIds → RV s₁ → RV t₁ := by
          intro t₁ e2 e3 hr p hp
          rw [e3] at hp
          rw [e2]; simpa using hr p hp
        have hrv1 : ∀ t₁ : St, t₁.groups = s₁.groups.setIfInBounds b (.block (children ++ [g])) →
            t₁.rowIds = (rowId, g) :: s₁.rowIds → RV s₁ → RV t₁ := by
          intro t₁ e2 e3 hr p hp
          rw [e3] at hp
          rw [e2]
          simp only [List.mem_cons] at hp
          rcases hp with hp | hp
          · rw [hp]; simpa using hlt
          · simpa using hr p hp
        unfold addRowId
        cases hid : rowId.isEmpty with
        | true =>
          simp only [if_true]
          rw [rwp_iff_wp]
          wp_simp [wp_setGrp]
          exact ⟨⟨a1, h.2.of_seq ⟨rfl, rfl, rfl⟩ ⟨rfl, rfl, rfl⟩⟩, hst, trivial, trivial, hsb _ rfl rfl, hrv0 _ rfl rfl, hhk _ rfl, hmr _ rfl rfl⟩
        | false =>
          simp only [Bool.false_eq_true, if_false]
          rw [rwp_iff_wp]
          wp_simp [wp_setGrp]
          have hne : rowId ≠ [] := by intro e; rw [e] at hid; cases hid
          exact ⟨⟨a1.congr rfl rfl rfl rfl rfl rfl rfl rfl rfl rfl,
            h.2.consRowId rowId hne hdg (fun htg => (hT htg).2 hne) _ _ rfl rfl rfl rfl rfl rfl⟩,
            hst, trivial, trivial, hsb _ rfl rfl, hrv1 _ rfl rfl, hhk _ rfl, hmr _ rfl rfl⟩

end Rpft.Compile
