/-
Invariants of the node arena of the compiler machine (layer A):
* `NodesOk`  — every destination stored anywhere in the arena is the identifier of an arena
  node, and every case of every switch router names a category of that router;
* `IdsInv`   — every identifier stored in the arena is `~k` for some `k < next`, no identifier
  occurs twice (inside one node or in two nodes);
* `NExt`     — the arena only grows and the identifier of an arena node never changes.
Here: the definitions and their behaviour under the three arena updates (allocate identifiers,
overwrite a node, push a node).
-/
import Rpft.Lemmas.CompileWp
import Rpft.CompileRender
set_option linter.unusedSimpArgs false
set_option linter.unusedVariables false
namespace Rpft.Compile
open Rpft

/-! ### destinations and cases -/

def DestOk (ns : Array NodeM) : Dest → Prop
  | .node u => ∃ (i : Nat) (n : NodeM), ns[i]? = some n ∧ n.uid = u
  | _ => True

structure NodeOk (ns : Array NodeM) (n : NodeM) : Prop where
  dests : ∀ d ∈ n.exitDests, DestOk ns d
  dexit : DestOk ns n.dexitDest
  cases : ∀ r, n.router = some (.sw r) → CaseCatsOk r

def NodesOk (ns : Array NodeM) : Prop := ∀ (i : Nat) (n : NodeM), ns[i]? = some n → NodeOk ns n

def NExt (ns ns' : Array NodeM) : Prop :=
  ∀ (i : Nat) (n : NodeM), ns[i]? = some n → ∃ n' : NodeM, ns'[i]? = some n' ∧ n'.uid = n.uid

theorem NExt.refl (ns : Array NodeM) : NExt ns ns := fun i n h => ⟨n, h, rfl⟩

theorem NExt.trans {a b c : Array NodeM} (h1 : NExt a b) (h2 : NExt b c) : NExt a c := by
  intro i n h
  obtain ⟨n1, hn1, hu1⟩ := h1 i n h
  obtain ⟨n2, hn2, hu2⟩ := h2 i n1 hn1
  exact ⟨n2, hn2, by rw [hu2, hu1]⟩

theorem DestOk.ext {ns ns' : Array NodeM} (h : NExt ns ns') {d : Dest} (hd : DestOk ns d) :
    DestOk ns' d := by
  cases d with
  | none => exact True.intro
  | hard => exact True.intro
  | node u =>
    obtain ⟨i, n, hi, hu⟩ := hd
    obtain ⟨n', hi', hu'⟩ := h i n hi
    exact ⟨i, n', hi', by rw [hu', hu]⟩

theorem NodeOk.ext {ns ns' : Array NodeM} (h : NExt ns ns') {n : NodeM} (hn : NodeOk ns n) :
    NodeOk ns' n := ⟨fun d hd => (hn.dests d hd).ext h, hn.dexit.ext h, hn.cases⟩

theorem NExt.set {ns : Array NodeM} {i : Nat} {old n' : NodeM} (ho : ns[i]? = some old)
    (hu : n'.uid = old.uid) : NExt ns (ns.setIfInBounds i n') := by
  intro j n hj
  rw [Array.getElem?_setIfInBounds]
  by_cases hij : i = j
  · subst hij
    have hlt : i < ns.size := by
      have := Array.getElem?_eq_some_iff.mp ho; exact this.1
    rw [ho] at hj; injection hj with hj; subst hj
    simp [hlt, hu]
  · simp [hij, hj]

theorem NExt.push (ns : Array NodeM) (n : NodeM) : NExt ns (ns.push n) := by
  intro j m hj
  have hlt : j < ns.size := (Array.getElem?_eq_some_iff.mp hj).1
  rw [Array.getElem?_push]
  have : j ≠ ns.size := by omega
  simp [this, hj]

theorem NodesOk.set {ns : Array NodeM} {i : Nat} {old n' : NodeM} (h : NodesOk ns)
    (ho : ns[i]? = some old) (hu : n'.uid = old.uid) (hn : NodeOk ns n') :
    NodesOk (ns.setIfInBounds i n') := by
  have hext := NExt.set (n' := n') ho hu
  intro j m hj
  rw [Array.getElem?_setIfInBounds] at hj
  by_cases hij : i = j
  · subst hij
    have hlt : i < ns.size := (Array.getElem?_eq_some_iff.mp ho).1
    simp [hlt] at hj; subst hj
    exact hn.ext hext
  · simp [hij] at hj
    exact (h j m hj).ext hext

theorem NodesOk.push {ns : Array NodeM} {n : NodeM} (h : NodesOk ns) (hn : NodeOk (ns.push n) n) :
    NodesOk (ns.push n) := by
  intro j m hj
  rw [Array.getElem?_push] at hj
  by_cases hjs : j = ns.size
  · simp [hjs] at hj; subst hj; exact hn
  · simp [hjs] at hj
    exact (h j m hj).ext (NExt.push ns n)

/-- the new node may point to itself or to any arena node -/
theorem DestOk.push_self (ns : Array NodeM) (n : NodeM) : DestOk (ns.push n) (.node n.uid) :=
  ⟨ns.size, n, by simp, rfl⟩

/-! ### identifiers -/

def SwitchR.ids (r : SwitchR) : List Uid :=
  r.allCats.map (·.exitUid) ++ (r.allCats.map (·.uid) ++ r.cases.map (·.uid))

def RandomR.ids (r : RandomR) : List Uid := r.cats.map (·.exitUid) ++ r.cats.map (·.uid)

def NodeM.tailIds (n : NodeM) : List Uid :=
  match n.router with
  | none => [n.dexitUid]
  | some (.sw r) => r.ids
  | some (.rnd r) => r.ids

/-- every identifier of a node, in the order of the rendered document -/
def NodeM.ids (n : NodeM) : List Uid := n.uid :: (n.actions.map (·.1) ++ n.tailIds)

theorem renderNode_ids (n : NodeM) : (renderNode n).ids = n.ids := by
  unfold NodeM.ids NodeM.tailIds Flow.Node.ids renderNode
  rcases h : n.router with _ | r | r
  · simp [List.map_map, Function.comp]
  · simp [List.map_map, Function.comp_def, Flow.Router.ids, renderRouter, Flow.Router.cats,
      Flow.Router.cases, SwitchR.ids, renderCat, renderExit, renderCase]
  · simp [List.map_map, Function.comp_def, Flow.Router.ids, renderRouter, Flow.Router.cats,
      Flow.Router.cases, RandomR.ids, renderCat, renderExit]

/-- an identifier that looks like an invented one (`~…`) -/
def Invented (u : Uid) : Prop := u.head? = some '~'

instance (u : Uid) : Decidable (Invented u) := by unfold Invented; exact inferInstance

/-- the node identifier counts as "freshly allocated" only when it looks invented: identifiers
given in the sheet (`_nodeId`) are not under the control of the counter -/
def uidPart (u : Uid) : List Uid := if Invented u then [u] else []

/-- the identifiers of a node other than its own -/
def NodeM.innerIds (n : NodeM) : List Uid := n.actions.map (·.1) ++ n.tailIds

/-- the identifiers of a node that the counter accounts for -/
def NodeM.fids (n : NodeM) : List Uid := uidPart n.uid ++ n.innerIds

theorem NodeM.ids_eq (n : NodeM) : n.ids = n.uid :: n.innerIds := rfl

/-- `x` is one of the identifiers handed out while the counter went from `b` to `b'` -/
def InR (b b' : Nat) (x : Uid) : Prop := ∃ k, b ≤ k ∧ k < b' ∧ x = tid k

def Below (b : Nat) (x : Uid) : Prop := ∃ k, k < b ∧ x = tid k

theorem InR.below {b b' : Nat} {x : Uid} (h : InR b b' x) : Below b' x := by
  obtain ⟨k, _, h2, h3⟩ := h; exact ⟨k, h2, h3⟩

theorem invented_tid (k : Nat) : Invented (tid k) := rfl

theorem uidPart_tid (k : Nat) : uidPart (tid k) = [tid k] := by simp [uidPart, invented_tid]

theorem Below.invented {b : Nat} {x : Uid} (h : Below b x) : Invented x := by
  obtain ⟨k, _, rfl⟩ := h; exact invented_tid k

theorem Below.mono {b b' : Nat} {x : Uid} (h : Below b x) (hb : b ≤ b') : Below b' x := by
  obtain ⟨k, h2, h3⟩ := h; exact ⟨k, by omega, h3⟩

theorem Below.not_inR {b b' : Nat} {x : Uid} (h : Below b x) : ¬ InR b b' x := by
  intro ⟨k, h1, _, h3⟩
  obtain ⟨k', h4, h5⟩ := h
  rw [h5] at h3
  have := tid_inj.mp h3
  omega

/-- `l'` arises from `l` by adding identifiers handed out in `[b, b')`, each at most once
(identifiers may also disappear) -/
def Grow (b b' : Nat) (l l' : List Uid) : Prop :=
  ∀ x, (InR b b' x → l'.count x ≤ l.count x + 1) ∧ (¬ InR b b' x → l'.count x ≤ l.count x)

theorem Grow.refl (b b' : Nat) (l : List Uid) : Grow b b' l l := by
  intro x; constructor <;> intro _ <;> omega

theorem Grow.trans {b b1 b2 : Nat} {l l1 l2 : List Uid} (h1 : Grow b b1 l l1)
    (h2 : Grow b1 b2 l1 l2) (hb : b ≤ b1) (hb' : b1 ≤ b2) : Grow b b2 l l2 := by
  intro x
  by_cases hx1 : InR b b1 x
  · have hx2 : ¬ InR b1 b2 x := by
      intro ⟨k, h3, _, h5⟩
      obtain ⟨k', _, h7, h8⟩ := hx1
      rw [h8] at h5; have := tid_inj.mp h5; omega
    have hx : InR b b2 x := by
      obtain ⟨k', h6, h7, h8⟩ := hx1; exact ⟨k', h6, by omega, h8⟩
    have a1 := (h1 x).1 hx1
    have a2 := (h2 x).2 hx2
    constructor
    · intro _; omega
    · intro hn; exact absurd hx hn
  · have a1 := (h1 x).2 hx1
    by_cases hx2 : InR b1 b2 x
    · have hx : InR b b2 x := by
        obtain ⟨k', h6, h7, h8⟩ := hx2; exact ⟨k', by omega, h7, h8⟩
      have a2 := (h2 x).1 hx2
      constructor
      · intro _; omega
      · intro hn; exact absurd hx hn
    · have a2 := (h2 x).2 hx2
      constructor <;> intro _ <;> omega

theorem Grow.mono {b b' c c' : Nat} {l l' : List Uid} (h : Grow b b' l l') (hc : c ≤ b)
    (hc' : b' ≤ c') : Grow c c' l l' := by
  intro x
  have hi : InR b b' x → InR c c' x := by
    intro ⟨k, h1, h2, h3⟩; exact ⟨k, by omega, by omega, h3⟩
  constructor
  · intro _
    by_cases hx : InR b b' x
    · exact (h x).1 hx
    · have := (h x).2 hx; omega
  · intro hn
    exact (h x).2 (fun hx => hn (hi hx))

theorem inR_tid {b b' k : Nat} (h1 : b ≤ k) (h2 : k < b') : InR b b' (tid k) := ⟨k, h1, h2, rfl⟩

theorem inR_tid_iff {b b' k : Nat} : InR b b' (tid k) ↔ b ≤ k ∧ k < b' := by
  constructor
  · intro ⟨k', h1, h2, h3⟩; have := tid_inj.mp h3; subst this; exact ⟨h1, h2⟩
  · intro ⟨h1, h2⟩; exact inR_tid h1 h2

/-- the usual way to grow: new identifiers, pairwise different, are inserted somewhere -/
theorem Grow.of_perm {b b' : Nat} {l l' new : List Uid} (hp : l'.Perm (l ++ new)) (hn : new.Nodup)
    (hr : ∀ x ∈ new, InR b b' x) : Grow b b' l l' := by
  intro x
  have hc : l'.count x = l.count x + new.count x := by
    rw [hp.count_eq, List.count_append]
  have h1 : new.count x ≤ 1 := List.nodup_iff_count.mp hn x
  constructor
  · intro _; omega
  · intro hx
    have : new.count x = 0 := by
      rw [List.count_eq_zero]; intro hm; exact hx (hr x hm)
    omega

/-- `grow_new [tid a, tid b, …]`: the new list is the old one with these identifiers inserted -/
syntax "grow_new " term (" using " Lean.Parser.Tactic.simpLemma,*)? : tactic
macro_rules
  | `(tactic| grow_new $new) => `(tactic| (
      apply Grow.of_perm (new := $new)
      · rw [List.perm_iff_count]; intro x
        simp only [List.map_append, List.count_append, List.map_cons, List.map_nil, List.count_cons,
          List.count_nil, List.cons_append, List.nil_append, List.append_nil, Option.toList]
        all_goals omega
      · simp only [List.nodup_cons, List.mem_cons, tid_inj, List.not_mem_nil, List.nodup_nil, or_false,
          not_or, not_false_eq_true, and_true]
        all_goals omega
      · simp only [List.forall_mem_cons, inR_tid_iff, List.not_mem_nil, false_imp_iff, implies_true,
          and_true]
        all_goals omega))
  | `(tactic| grow_new $new using $ls,*) => `(tactic| (
      apply Grow.of_perm (new := $new)
      · rw [List.perm_iff_count]; intro x
        simp only [List.map_append, List.count_append, List.map_cons, List.map_nil, List.count_cons,
          List.count_nil, List.cons_append, List.nil_append, List.append_nil, Option.toList, $ls,*]
        all_goals omega
      · simp only [List.nodup_cons, List.mem_cons, tid_inj, List.not_mem_nil, List.nodup_nil, or_false,
          not_or, not_false_eq_true, and_true]
        all_goals omega
      · simp only [List.forall_mem_cons, inR_tid_iff, List.not_mem_nil, false_imp_iff, implies_true,
          and_true]
        all_goals omega))

theorem Grow.weaken {b b' : Nat} {l' : List Uid} (h : Grow b b' [] l') (l : List Uid) : Grow b b' l l' := by
  intro x
  constructor
  · intro hx; have := (h x).1 hx; simp at this; omega
  · intro hx; have := (h x).2 hx; simp at this; omega

theorem Grow.perm_right {b b' : Nat} {l l' l'' : List Uid} (h : Grow b b' l l') (hp : l'.Perm l'') :
    Grow b b' l l'' := by
  intro x; rw [← hp.count_eq]; exact h x

theorem Grow.mono_left {b b' : Nat} {l l2 l' : List Uid} (h : Grow b b' l l')
    (hs : ∀ x, l.count x ≤ l2.count x) : Grow b b' l2 l' := by
  intro x
  have := hs x
  constructor
  · intro hx; have := (h x).1 hx; omega
  · intro hx; have := (h x).2 hx; omega

/-- growth inside a context -/
theorem Grow.ctx {b b' : Nat} {l l' : List Uid} (h : Grow b b' l l') (a c : List Uid) :
    Grow b b' (a ++ (l ++ c)) (a ++ (l' ++ c)) := by
  intro x
  simp only [List.count_append]
  constructor
  · intro hx; have := (h x).1 hx; omega
  · intro hx; have := (h x).2 hx; omega

theorem Grow.append {b b1 b2 : Nat} {l1 l1' l2 l2' : List Uid} (h1 : Grow b b1 l1 l1')
    (h2 : Grow b1 b2 l2 l2') (hb : b ≤ b1) (hb' : b1 ≤ b2) :
    Grow b b2 (l1 ++ l2) (l1' ++ l2') := by
  have e1 : Grow b b1 (l1 ++ l2) (l1' ++ l2) := by
    have := h1.ctx [] l2; simpa using this
  have e2 : Grow b1 b2 (l1' ++ l2) (l1' ++ l2') := by
    have := h2.ctx l1' []; simpa using this
  exact e1.trans e2 hb hb'

/-- consequences of growth for a list that was duplicate-free and below `b` -/
theorem Grow.nodup {b b' : Nat} {l l' : List Uid} (h : Grow b b' l l') (hn : l.Nodup)
    (hb : ∀ x ∈ l, Below b x) : l'.Nodup := by
  rw [List.nodup_iff_count] at *
  intro x
  by_cases hx : InR b b' x
  · have h0 : l.count x = 0 := by
      rw [List.count_eq_zero]
      intro hm; exact (hb x hm).not_inR hx
    have := (h x).1 hx; omega
  · have := (h x).2 hx; have := hn x; omega

theorem Grow.mem {b b' : Nat} {l l' : List Uid} (h : Grow b b' l l') {x : Uid} (hx : x ∈ l') :
    x ∈ l ∨ InR b b' x := by
  by_cases hr : InR b b' x
  · exact .inr hr
  · left
    have := (h x).2 hr
    have h1 : 0 < l'.count x := List.count_pos_iff.mpr hx
    exact List.count_pos_iff.mp (by omega)

structure IdsInv (ns : Array NodeM) (b : Nat) : Prop where
  nodup : ∀ (i : Nat) (n : NodeM), ns[i]? = some n → n.fids.Nodup
  below : ∀ (i : Nat) (n : NodeM), ns[i]? = some n → ∀ x ∈ n.fids, Below b x
  disj : ∀ (i j : Nat) (n m : NodeM) (x : Uid), ns[i]? = some n → ns[j]? = some m → x ∈ n.fids → x ∈ m.fids → i = j

theorem IdsInv.mono {ns : Array NodeM} {b b' : Nat} (h : IdsInv ns b) (hb : b ≤ b') : IdsInv ns b' :=
  ⟨h.nodup, fun i n hi x hx => (h.below i n hi x hx).mono hb, h.disj⟩

theorem IdsInv.set {ns : Array NodeM} {b b' i : Nat} {old n' : NodeM} (h : IdsInv ns b)
    (ho : ns[i]? = some old) (hg : Grow b b' old.fids n'.fids) (hb : b ≤ b') :
    IdsInv (ns.setIfInBounds i n') b' := by
  have hlt : i < ns.size := (Array.getElem?_eq_some_iff.mp ho).1
  have key : ∀ j m, (ns.setIfInBounds i n')[j]? = some m →
      (j = i ∧ m = n') ∨ (j ≠ i ∧ ns[j]? = some m) := by
    intro j m hj
    rw [Array.getElem?_setIfInBounds] at hj
    by_cases hij : i = j
    · subst hij; simp [hlt] at hj; exact .inl ⟨rfl, hj.symm⟩
    · simp [hij] at hj; exact .inr ⟨fun e => hij e.symm, hj⟩
  have hbn : ∀ x ∈ n'.fids, Below b' x := by
    intro x hx
    rcases hg.mem hx with h1 | h1
    · exact (h.below i old ho x h1).mono hb
    · exact h1.below
  refine ⟨?_, ?_, ?_⟩
  · intro j m hj
    rcases key j m hj with ⟨_, rfl⟩ | ⟨_, hm⟩
    · exact hg.nodup (h.nodup i old ho) (h.below i old ho)
    · exact h.nodup j m hm
  · intro j m hj x hx
    rcases key j m hj with ⟨_, rfl⟩ | ⟨_, hm⟩
    · exact hbn x hx
    · exact (h.below j m hm x hx).mono hb
  · intro j1 j2 m1 m2 x h1 h2 hx1 hx2
    rcases key j1 m1 h1 with ⟨e1, rfl⟩ | ⟨e1, hm1⟩ <;> rcases key j2 m2 h2 with ⟨e2, rfl⟩ | ⟨e2, hm2⟩
    · rw [e1, e2]
    · rcases hg.mem hx1 with h3 | h3
      · exact absurd (h.disj i j2 old m2 x ho hm2 h3 hx2).symm e2
      · exact absurd h3 (h.below j2 m2 hm2 x hx2).not_inR
    · rcases hg.mem hx2 with h3 | h3
      · exact absurd (h.disj j1 i m1 old x hm1 ho hx1 h3) e1
      · exact absurd h3 (h.below j1 m1 hm1 x hx1).not_inR
    · exact h.disj j1 j2 m1 m2 x hm1 hm2 hx1 hx2

theorem IdsInv.push {ns : Array NodeM} {b b' : Nat} {n : NodeM} (h : IdsInv ns b)
    (hg : Grow b b' [] n.fids) (hb : b ≤ b') : IdsInv (ns.push n) b' := by
  have key : ∀ j m, (ns.push n)[j]? = some m →
      (j = ns.size ∧ m = n) ∨ (j ≠ ns.size ∧ ns[j]? = some m) := by
    intro j m hj
    rw [Array.getElem?_push] at hj
    by_cases hjs : j = ns.size
    · simp [hjs] at hj; exact .inl ⟨hjs, hj.symm⟩
    · simp [hjs] at hj; exact .inr ⟨hjs, hj⟩
  have hin : ∀ x ∈ n.fids, InR b b' x := by
    intro x hx
    rcases hg.mem hx with h1 | h1
    · simp at h1
    · exact h1
  refine ⟨?_, ?_, ?_⟩
  · intro j m hj
    rcases key j m hj with ⟨_, rfl⟩ | ⟨_, hm⟩
    · exact hg.nodup List.nodup_nil (by simp)
    · exact h.nodup j m hm
  · intro j m hj x hx
    rcases key j m hj with ⟨_, rfl⟩ | ⟨_, hm⟩
    · exact (hin x hx).below
    · exact (h.below j m hm x hx).mono hb
  · intro j1 j2 m1 m2 x h1 h2 hx1 hx2
    rcases key j1 m1 h1 with ⟨e1, rfl⟩ | ⟨e1, hm1⟩ <;> rcases key j2 m2 h2 with ⟨e2, rfl⟩ | ⟨e2, hm2⟩
    · rw [e1, e2]
    · exact absurd (hin x hx1) (h.below j2 m2 hm2 x hx2).not_inR
    · exact absurd (hin x hx2) (h.below j1 m1 hm1 x hx1).not_inR
    · exact h.disj j1 j2 m1 m2 x hm1 hm2 hx1 hx2

/-! ### the combined invariant -/

/-- ghost flags: which hypotheses on the sheet's `_nodeId` column are assumed
(`ids`: given identifiers do not look like invented ones — then identifier freshness is tracked;
`noGiven`: no identifiers are given at all — then every node identifier is an invented one) -/
structure Flags where
  ids : Prop
  noGiven : Prop

/-- no hypothesis on the sheet -/
def Flags.none : Flags := ⟨False, False⟩

structure AInvC (h : Flags) (ns : Array NodeM) (b : Nat) : Prop where
  ok : NodesOk ns
  ids : h.ids → IdsInv ns b
  inv : h.noGiven → ∀ (i : Nat) (n : NodeM), ns[i]? = some n → Invented n.uid

def AInv (h : Flags) (s : St) : Prop := AInvC h s.nodes s.next

theorem AInvC.bump {h : Flags} {ns : Array NodeM} {b b' : Nat} (a : AInvC h ns b) (hb : b ≤ b') :
    AInvC h ns b' := ⟨a.ok, fun hh => (a.ids hh).mono hb, a.inv⟩

theorem AInvC.set {h : Flags} {ns : Array NodeM} {b b' i : Nat} {old n' : NodeM} (a : AInvC h ns b)
    (ho : ns[i]? = some old) (hu : n'.uid = old.uid) (hn : NodeOk ns n')
    (hg : Grow b b' old.fids n'.fids) (hb : b ≤ b') : AInvC h (ns.setIfInBounds i n') b' := by
  refine ⟨a.ok.set ho hu hn, fun hh => (a.ids hh).set ho hg hb, ?_⟩
  intro hh j m hj
  rw [Array.getElem?_setIfInBounds] at hj
  by_cases hij : i = j
  · subst hij
    have hlt : i < ns.size := (Array.getElem?_eq_some_iff.mp ho).1
    simp [hlt] at hj; subst hj
    rw [hu]; exact a.inv hh i old ho
  · simp [hij] at hj
    exact a.inv hh j m hj

theorem AInvC.push {h : Flags} {ns : Array NodeM} {b b' : Nat} {n : NodeM} (a : AInvC h ns b)
    (hn : NodeOk (ns.push n) n) (hg : h.ids → Grow b b' [] n.fids) (hi : h.noGiven → Invented n.uid)
    (hb : b ≤ b') : AInvC h (ns.push n) b' := by
  refine ⟨a.ok.push hn, fun hh => (a.ids hh).push (hg hh) hb, ?_⟩
  intro hh j m hj
  rw [Array.getElem?_push] at hj
  by_cases hjs : j = ns.size
  · simp [hjs] at hj; subst hj; exact hi hh
  · simp [hjs] at hj
    exact a.inv hh j m hj

end Rpft.Compile
