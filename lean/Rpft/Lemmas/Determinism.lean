/-
Helper lemmas for C13 (model `Rpft/Determinism.lean`): the id-consuming program under different
streams, first-occurrence canonicalisation under injective respelling, Python-dict lemmas for the
UUIDDict model.  Property theorems are in `Rpft/Props/C13.lean`.
-/
import Rpft.Determinism
set_option linter.unusedSimpArgs false
set_option linter.unusedVariables false
namespace Rpft.Det
open Rpft

theorem fillWith_counter {I : Type} (f : Nat → I) (s : Shape) (c : Nat) :
    (fillWith f s c).2 = c + s.holes := by
  induction s generalizing c with
  | given g => simp [fillWith, Shape.holes]
  | hole => simp [fillWith, Shape.holes]
  | node lb l r ihl ihr => simp [fillWith, Shape.holes, ihl, ihr, Nat.add_assoc]

/-- running with any stream = running with the counter, then spelling the ids through `f` -/
theorem fillWith_map {I : Type} (f : Nat → I) (s : Shape) (c : Nat) :
    fillWith f s c = ((fill s c).1.map f, (fill s c).2) := by
  induction s generalizing c with
  | given g => simp [fill, fillWith, Tree.map]
  | hole => simp [fill, fillWith, Tree.map]
  | node lb l r ihl ihr =>
    simp only [fill] at ihl ihr ⊢
    simp [fillWith, Tree.map, ihl, ihr]

/-- the invented ids of one run are exactly the counter values it consumed, in order -/
theorem fill_invented (s : Shape) (c : Nat) :
    (fill s c).1.invented = List.range' c s.holes := by
  induction s generalizing c with
  | given g => simp [fill, fillWith, Tree.invented, Shape.holes]
  | hole => simp [fill, fillWith, Tree.invented, Shape.holes]
  | node lb l r ihl ihr =>
    simp only [fill] at ihl ihr ⊢
    simp [fillWith, Tree.invented, Shape.holes, ihl, ihr, fillWith_counter, List.range'_append_1]

theorem map_invented {I J : Type} (h : I → J) (t : Tree I) :
    (t.map h).invented = t.invented.map h := by
  induction t with
  | given g => simp [Tree.map, Tree.invented]
  | inv i => simp [Tree.map, Tree.invented]
  | node lb l r ihl ihr => simp [Tree.map, Tree.invented, ihl, ihr]

/-- all ids handed out along a sequence of runs sharing the counter, in order -/
def inventedAll {I : Type} (ts : List (Tree I)) : List I := ts.flatMap Tree.invented

def holesAll (ss : List Shape) : Nat := (ss.map Shape.holes).sum

theorem fillAll_invented {I : Type} (f : Nat → I) (ss : List Shape) (c : Nat) :
    inventedAll (fillAll f ss c).1 = (List.range' c (holesAll ss)).map f := by
  induction ss generalizing c with
  | nil => simp [fillAll, inventedAll, holesAll]
  | cons s ss ih =>
    have ih' := ih (c + s.holes)
    simp only [inventedAll] at ih' ⊢
    simp [fillAll, holesAll, fillWith_counter, ih']
    rw [fillWith_map, map_invented, fill_invented]
    simp [← List.range'_append_1]

def Injective {A B : Type} (f : A → B) : Prop := ∀ a b, f a = f b → a = b

theorem nodup_map_of_injective {A B : Type} (f : A → B) (hf : Injective f) (l : List A)
    (h : l.Nodup) : (l.map f).Nodup := by
  induction l with
  | nil => simp
  | cons a l ih =>
    simp only [List.map_cons, List.nodup_cons] at h ⊢
    refine ⟨?_, ih h.2⟩
    intro hm
    rcases List.mem_map.mp hm with ⟨b, hb, hfb⟩
    have := hf _ _ hfb
    subst this
    exact h.1 hb

theorem fillWith_erase {I : Type} (f : Nat → I) (s : Shape) (c : Nat) :
    (fillWith f s c).1.erase = s := by
  induction s generalizing c with
  | given g => simp [fillWith, Tree.erase]
  | hole => simp [fillWith, Tree.erase]
  | node lb l r ihl ihr => simp [fillWith, Tree.erase, ihl, ihr]

theorem erase_givens {I : Type} (t : Tree I) : t.erase.givens = t.givens := by
  induction t with
  | given g => simp [Tree.erase, Shape.givens, Tree.givens]
  | inv i => simp [Tree.erase, Shape.givens, Tree.givens]
  | node lb l r ihl ihr => simp [Tree.erase, Shape.givens, Tree.givens, ihl, ihr]

/-- the correspondence induced by two id streams: "the k-th id of run 1 ↔ the k-th id of run 2" -/
def Induced {I J : Type} (f : Nat → I) (g : Nat → J) (a : I) (b : J) : Prop := ∃ k, a = f k ∧ b = g k

theorem treeRel_map {I J : Type} (f : Nat → I) (g : Nat → J) (t : Tree Nat) :
    TreeRel (Induced f g) (t.map f) (t.map g) := by
  induction t with
  | given x => exact .given x
  | inv k => exact .inv ⟨k, rfl, rfl⟩
  | node lb l r ihl ihr => exact .node lb ihl ihr

/-- shifted injective streams stay injective, so `induced_bijective` applies to `renaming_class` -/
theorem shift_injective {I : Type} (f : Nat → I) (hf : Injective f) (c : Nat) :
    Injective (fun k => f (c + k)) := by
  intro a b h
  have := hf _ _ h
  omega

/-- first-occurrence canonicalisation (what the harness compares) of the counter run from 0 is
the run itself: ids come out as 0,1,2,… in document order -/
theorem canonAux_fill (s : Shape) (c : Nat) :
    canonAux (fill s c).1 (List.range c) = ((fill s c).1, List.range (c + s.holes)) := by
  induction s generalizing c with
  | given g => simp [fill, fillWith, canonAux, Shape.holes]
  | hole =>
    simp [fill, fillWith, canonAux, Shape.holes, List.range_succ]
  | node lb l r ihl ihr =>
    simp only [fill] at ihl ihr ⊢
    simp [fillWith, canonAux, Shape.holes, ihl, ihr, fillWith_counter, Nat.add_assoc]

theorem canon_fill (s : Shape) : canon (fill s 0).1 = (fill s 0).1 := by
  have := canonAux_fill s 0
  simp [canon] at this ⊢
  rw [this]

theorem contains_map_inj {I J : Type} [DecidableEq I] [DecidableEq J] (f : I → J) (hf : Injective f)
    (tbl : List I) (i : I) : (tbl.map f).contains (f i) = tbl.contains i := by
  induction tbl with
  | nil => simp
  | cons a tbl ih =>
    simp only [List.map_cons, List.contains_cons, ih]
    by_cases h : i = a
    · subst h; simp
    · have : f i ≠ f a := fun e => h (hf _ _ e)
      have h1 : (f i == f a) = false := by simpa using this
      have h2 : (i == a) = false := by simpa using h
      rw [h1, h2]

theorem idxOf_map_inj {I J : Type} [DecidableEq I] [DecidableEq J] (f : I → J) (hf : Injective f)
    (tbl : List I) (i : I) : (tbl.map f).idxOf (f i) = tbl.idxOf i := by
  induction tbl with
  | nil => simp
  | cons a tbl ih =>
    simp only [List.map_cons, List.idxOf_cons, ih]
    by_cases h : a = i
    · subst h; simp
    · have : f a ≠ f i := fun e => h (hf _ _ e)
      have h1 : (f a == f i) = false := by simpa using this
      have h2 : (a == i) = false := by simpa using h
      simp [h1, h2]

theorem canonAux_map {I J : Type} [DecidableEq I] [DecidableEq J] (f : I → J) (hf : Injective f)
    (t : Tree I) (tbl : List I) :
    canonAux (t.map f) (tbl.map f) = ((canonAux t tbl).1, (canonAux t tbl).2.map f) := by
  induction t generalizing tbl with
  | given g => simp [Tree.map, canonAux]
  | inv i =>
    simp only [Tree.map, canonAux, contains_map_inj f hf, idxOf_map_inj f hf]
    split <;> simp
  | node lb l r ihl ihr =>
    simp only [Tree.map, canonAux, ihl, ihr]

/-- the canonical form does not see an injective respelling of the invented ids … -/
theorem canon_map {I J : Type} [DecidableEq I] [DecidableEq J] (f : I → J) (hf : Injective f)
    (t : Tree I) : canon (t.map f) = canon t := by
  have := canonAux_map f hf t []
  simp [canon] at this ⊢
  rw [this]

def keys (d : PyDict) : List Str := d.map (·.1)

theorem truthy_invented (c : Nat) : truthy (some (inventedName c)) = true := by
  simp [truthy, inventedName]

theorem generateMissing_allTruthy (d : PyDict) (c : Nat) : allTruthy (generateMissing d c).1 = true := by
  induction d generalizing c with
  | nil => simp [generateMissing, allTruthy]
  | cons e d ih =>
    rcases e with ⟨k, v⟩
    simp only [generateMissing]
    split
    · next h =>
      have := ih c
      simp only [allTruthy, List.all_cons, Bool.and_eq_true] at this ⊢
      exact ⟨h, this⟩
    · next h =>
      have := ih (c + 1)
      simp only [allTruthy, List.all_cons, Bool.and_eq_true] at this ⊢
      exact ⟨truthy_invented c, this⟩

theorem generateMissing_of_allTruthy (d : PyDict) (c : Nat) (h : allTruthy d = true) :
    generateMissing d c = (d, c) := by
  induction d generalizing c with
  | nil => simp [generateMissing]
  | cons e d ih =>
    rcases e with ⟨k, v⟩
    simp [allTruthy] at h
    have := ih c (by simpa [allTruthy] using h.2)
    simp [generateMissing, h.1, this]

theorem generateMissing_keys (d : PyDict) (c : Nat) : keys (generateMissing d c).1 = keys d := by
  induction d generalizing c with
  | nil => simp [generateMissing, keys]
  | cons e d ih =>
    rcases e with ⟨k, v⟩
    simp only [generateMissing]
    split
    · have := ih c; simp_all [keys]
    · have := ih (c + 1); simp_all [keys]

theorem mem_keys_of_truthy_get (d : PyDict) (k : Str) (h : truthy (d.get k) = true) : k ∈ keys d := by
  induction d with
  | nil => simp [PyDict.get, truthy] at h
  | cons e d ih =>
    rcases e with ⟨k', v⟩
    by_cases hk : k' = k
    · simp [keys, hk]
    · have : PyDict.get ((k', v) :: d) k = PyDict.get d k := by
        simp [PyDict.get, List.find?, hk]
      rw [this] at h
      have := ih h
      simp_all [keys]

theorem truthy_get_of_mem (d : PyDict) (k : Str) (ht : allTruthy d = true) (hk : k ∈ keys d) :
    truthy (d.get k) = true := by
  induction d with
  | nil => simp [keys] at hk
  | cons e d ih =>
    rcases e with ⟨k', v⟩
    simp [allTruthy] at ht
    by_cases h : k' = k
    · simp [PyDict.get, List.find?, h, ht.1]
    · have hg : PyDict.get ((k', v) :: d) k = PyDict.get d k := by
        simp [PyDict.get, List.find?, h]
      rw [hg]
      apply ih (by simpa [allTruthy] using ht.2)
      simp [keys] at hk
      rcases hk with hk | hk
      · exact absurd hk.symm h
      · simpa [keys] using hk

theorem set_keys (d : PyDict) (k : Str) (v : Option Str) :
    k ∈ keys (d.set k v) ∧ ∀ k', k' ∈ keys d → k' ∈ keys (d.set k v) := by
  induction d with
  | nil => simp [PyDict.set, keys]
  | cons e d ih =>
    rcases e with ⟨k0, v0⟩
    simp only [PyDict.set]
    split
    · next h => subst h; simp [keys]
    · next h =>
      refine ⟨by simp [keys]; right; simpa [keys] using ih.1, ?_⟩
      intro k' hk'
      simp [keys] at hk' ⊢
      rcases hk' with h1 | h1
      · left; exact h1
      · right; simpa [keys] using ih.2 k' (by simpa [keys] using h1)

theorem recordUuid_keys (d d' : PyDict) (n : Str) (u : Option Str) (h : recordUuid d n u = .ok d') :
    n ∈ keys d' ∧ ∀ k, k ∈ keys d → k ∈ keys d' := by
  unfold recordUuid at h
  simp only [] at h
  split at h
  · next ht =>
    split at h
    · cases h
    · cases h; exact ⟨mem_keys_of_truthy_get d n ht, fun _ hk => hk⟩
  · cases h; exact set_keys d n u

theorem recordAll_keys (d d' : PyDict) (refs : List (Str × Option Str)) (h : recordAll d refs = .ok d') :
    (∀ r, r ∈ refs → r.1 ∈ keys d') ∧ ∀ k, k ∈ keys d → k ∈ keys d' := by
  induction refs generalizing d with
  | nil => simp [recordAll] at h; subst h; simp
  | cons r rs ih =>
    rcases r with ⟨n, u⟩
    simp only [recordAll] at h
    split at h
    · next d1 h1 =>
      have k1 := recordUuid_keys d d1 n u h1
      have k2 := ih d1 h
      refine ⟨?_, fun k hk => k2.2 k (k1.2 k hk)⟩
      intro r hr
      simp at hr
      rcases hr with rfl | hr
      · exact k2.2 _ k1.1
      · exact k2.1 r hr
    · cases h

theorem assign_idem (d : PyDict) (refs : List (Str × Option Str)) :
    assign d (assign d refs) = assign d refs := by
  simp [assign, List.map_map, Function.comp_def]

theorem get_set_same (d : PyDict) (k : Str) (v : Option Str) : (d.set k v).get k = v := by
  induction d with
  | nil => simp [PyDict.set, PyDict.get, List.find?]
  | cons e d ih =>
    rcases e with ⟨k0, v0⟩
    simp only [PyDict.set]
    split
    · next h => simp [PyDict.get, List.find?, h]
    · next h =>
      have : PyDict.get ((k0, v0) :: PyDict.set d k v) k = PyDict.get (PyDict.set d k v) k := by
        simp [PyDict.get, List.find?, h]
      rw [this, ih]

theorem get_set_other (d : PyDict) (k k' : Str) (v : Option Str) (hne : k' ≠ k) :
    (d.set k v).get k' = d.get k' := by
  induction d with
  | nil =>
    have : (k = k') = False := by simp; exact fun e => hne e.symm
    simp [PyDict.set, PyDict.get, List.find?, this]
  | cons e d ih =>
    rcases e with ⟨k0, v0⟩
    simp only [PyDict.set]
    split
    · next h =>
      subst h
      have : (k0 = k') = False := by simp; exact fun e => hne e.symm
      simp [PyDict.get, List.find?, this]
    · next h =>
      by_cases h0 : k0 = k'
      · simp [PyDict.get, List.find?, h0]
      · have a1 : PyDict.get ((k0, v0) :: PyDict.set d k v) k' = PyDict.get (PyDict.set d k v) k' := by
          simp [PyDict.get, List.find?, h0]
        have a2 : PyDict.get ((k0, v0) :: d) k' = PyDict.get d k' := by
          simp [PyDict.get, List.find?, h0]
        rw [a1, a2, ih]

/-- a truthy recorded uuid is never overwritten by a later record -/
theorem recordUuid_keeps (d d' : PyDict) (n : Str) (u : Option Str) (k : Str)
    (h : recordUuid d n u = .ok d') (hk : truthy (d.get k) = true) : d'.get k = d.get k := by
  unfold recordUuid at h
  simp only [] at h
  split at h
  · split at h
    · cases h
    · cases h; rfl
  · next hf =>
    cases h
    by_cases e : k = n
    · subst e; simp [hk] at hf
    · exact get_set_other d n k u e

/-- after recording a truthy uuid for a name, that uuid is what is recorded -/
theorem recordUuid_records (d d' : PyDict) (n : Str) (u : Option Str)
    (h : recordUuid d n u = .ok d') (hu : truthy u = true) : d'.get n = u := by
  unfold recordUuid at h
  simp only [] at h
  split at h
  · split at h
    · cases h
    · next ht hc =>
      cases h
      simp only [hu, true_and, ne_eq, Decidable.not_not] at hc
      exact hc.symm
  · cases h; exact get_set_same d n u

theorem recordAll_keeps (d d' : PyDict) (refs : List (Str × Option Str)) (k : Str)
    (h : recordAll d refs = .ok d') (hk : truthy (d.get k) = true) : d'.get k = d.get k := by
  induction refs generalizing d with
  | nil => simp [recordAll] at h; subst h; rfl
  | cons r rs ih =>
    rcases r with ⟨n, u⟩
    simp only [recordAll] at h
    split at h
    · next d1 h1 =>
      have e1 := recordUuid_keeps d d1 n u k h1 hk
      have := ih d1 h (by rw [e1]; exact hk)
      rw [this, e1]
    · cases h

theorem recordAll_records (d d' : PyDict) (refs : List (Str × Option Str))
    (h : recordAll d refs = .ok d') (hall : ∀ r, r ∈ refs → truthy r.2 = true) :
    ∀ r, r ∈ refs → d'.get r.1 = r.2 := by
  induction refs generalizing d with
  | nil => intro r hr; cases hr
  | cons r0 rs ih =>
    rcases r0 with ⟨n, u⟩
    simp only [recordAll] at h
    split at h
    · next d1 h1 =>
      intro r hr
      simp at hr
      rcases hr with rfl | hr
      · have hu := hall (n, u) (by simp)
        have e1 := recordUuid_records d d1 n u h1 hu
        have := recordAll_keeps d1 d' rs n h (by rw [e1]; exact hu)
        rw [this, e1]
      · exact ih d1 h (fun r' hr' => hall r' (by simp [hr'])) r hr
    · cases h

theorem generateMissing_keeps (d : PyDict) (c : Nat) (k : Str) (hk : truthy (d.get k) = true) :
    (generateMissing d c).1.get k = d.get k := by
  induction d generalizing c with
  | nil => simp [generateMissing]
  | cons e d ih =>
    rcases e with ⟨k0, v0⟩
    by_cases h0 : k0 = k
    · subst h0
      have hv : truthy v0 = true := by simpa [PyDict.get, List.find?] using hk
      simp [generateMissing, hv, PyDict.get, List.find?]
    · have a : PyDict.get ((k0, v0) :: d) k = PyDict.get d k := by simp [PyDict.get, List.find?, h0]
      rw [a] at hk ⊢
      simp only [generateMissing]
      split
      · have := ih c hk
        simpa [PyDict.get, List.find?, h0] using this
      · have := ih (c + 1) hk
        simpa [PyDict.get, List.find?, h0] using this

end Rpft.Det
