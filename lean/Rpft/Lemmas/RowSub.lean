/-
Field round trips (`FieldRT`) for sub-records whose fields have basic types: spread over
`f.a, f.b, …` or packed into one cell as `a;va|b;vb` key/value pairs.
-/
import Rpft.Lemmas.RowFields
set_option linter.unusedSimpArgs false
set_option linter.unusedVariables false
namespace Rpft.Row
open Rpft Rpft.Cell

/-- the tree leaf a basic value is read back as -/
def leafTree : Val → Tree
  | .str s => .str s
  | .int i => .int i
  | .float s => .float s
  | .bool b => .bool b
  | _ => .none

theorem printInt_strOk (i : Int) : strOk (printInt i) = true := by
  simp only [strOk, Bool.and_eq_true, beq_iff_eq, Bool.not_eq_true']
  exact ⟨strip_of_no_ws _ (printInt_no_ws i), printInt_no_brace i⟩

theorem bool_strOk : strOk pyTrue = true ∧ strOk pyFalse = true := by decide

theorem pyFloatOk_ne_nil {s : Str} (h : pyFloatOk s = true) : s ≠ [] := by
  intro e; subst e; revert h; decide

/-- what reading one basic value back involves -/
theorem basic_leaf {ty : Ty} {v : Val} (hb : isBasicTy ty = true) (hr : reprOk false ty v = true) :
    isBasicVal v = true ∧
    leafValue (Sum.inl (printBasic v)) ty = .ok (.atom (printBasic v)) ∧
    assignValue ty (.atom (printBasic v)) = .ok (some (leafTree v)) ∧
    validate ty (leafTree v) = .ok v ∧ (leafTree v).isNone = false ∧
    strOk (printBasic v) = true ∧ (fieldOk true ty v = true → printBasic v ≠ []) := by
  cases ty <;> simp [isBasicTy] at hb <;> cases v <;> simp [reprOk] at hr
  case str.str s =>
    obtain ⟨h1, h2, _⟩ := strOk_spec hr
    refine ⟨rfl, ?_, ?_, ?_, rfl, hr, ?_⟩
    · simp [leafValue, isListTy, isModelTy, printBasic, parseAsString_ok h1 h2]
    · simp [assignValue, assignStr, printBasic, leafTree]
    · simp [validate, leafTree]
    · intro hf; simpa [fieldOk, printBasic] using hf
  case int.int i =>
    have h1 := strip_of_no_ws _ (printInt_no_ws i)
    refine ⟨rfl, ?_, ?_, ?_, rfl, printInt_strOk i, fun _ => printInt_ne_nil i⟩
    · simp [leafValue, isListTy, isModelTy, printBasic, parseAsString_ok h1 (printInt_no_brace i)]
    · simp [assignValue, assignInt, printBasic, leafTree, pyInt_printInt]
    · simp [validate, leafTree]
  case float.float s =>
    simp only [floatOk, Bool.and_eq_true] at hr
    obtain ⟨h1, h2, _⟩ := strOk_spec hr.2
    refine ⟨rfl, ?_, ?_, ?_, rfl, hr.2, fun _ => pyFloatOk_ne_nil hr.1⟩
    · simp [leafValue, isListTy, isModelTy, printBasic, parseAsString_ok h1 h2]
    · simp [assignValue, assignFloat, printBasic, leafTree, h1, hr.1]
    · simp [validate, leafTree]
  case bool.bool b =>
    obtain ⟨f1, f2, f3, f4, f5, f6, f7, f8⟩ := bool_facts
    cases b
    · refine ⟨rfl, ?_, ?_, ?_, rfl, bool_strOk.2, fun _ => f7⟩
      · simp [leafValue, isListTy, isModelTy, printBasic, printBool, parseAsString_ok f1 f3]
      · simp [assignValue, assignBool, printBasic, printBool, leafTree, f1, f5, f7]
      · simp [validate, leafTree]
    · refine ⟨rfl, ?_, ?_, ?_, rfl, bool_strOk.1, fun _ => f8⟩
      · simp [leafValue, isListTy, isModelTy, printBasic, printBool, parseAsString_ok f2 f4]
      · simp [assignValue, assignBool, printBasic, printBool, leafTree, f2, f6, f8]
      · simp [validate, leafTree]

/-! ### the columns and the tree entries of a sub-record -/

def subCol (n : Str) (p : SPair) : Str × Str := (n ++ '.' :: p.1.1, printBasic p.2)
def subTr (p : SPair) : Str × Tree := (p.1.1, leafTree p.2)

theorem findSet_model_leaf (leaf : Ty → Except Err (Option Tree)) (sfs : List Field) (a : Str)
    (ty : Ty) (d : Option Val) (inner : List (Str × Tree)) (tr : Tree)
    (hf : fieldLookup a sfs = some (a, ty, d)) (hk : alookup a inner = none)
    (hl : leaf ty = .ok (some tr)) :
    findSet leaf (plainTop sfs) (.dict inner) [a] = .ok (.dict (inner ++ [(a, tr)])) := by
  conv => lhs; unfold findSet
  simp only [isListTy, Bool.false_eq_true, if_false, remap_nil, hf, ensureKey, hk, hl, leafDict]
  rw [aset_of_absent a Tree.none inner hk, aset_last a Tree.none tr inner hk]

/-- hypotheses on the (sub-field, value) pairs of a sub-record of basic fields -/
def SubOk (sfs : List Field) (skvs : List (Str × Val)) (pairs : List SPair) : Prop :=
  (pairs.map (·.1.1)).Nodup ∧
  ∀ p ∈ pairs, alookup p.1.1 skvs = some p.2 ∧ simpleName p.1.1 = true ∧
    fieldLookup p.1.1 sfs = some p.1 ∧ isBasicTy p.1.2.1 = true ∧
    (nonDefault p = true → reprOk false p.1.2.1 p.2 = true)

theorem subOk_tail {sfs skvs p pairs} (h : SubOk sfs skvs (p :: pairs)) : SubOk sfs skvs pairs :=
  ⟨(List.nodup_cons.mp h.1).2, fun q hq => h.2 q (List.mem_cons_of_mem _ hq)⟩

theorem key_inj {n a b : Str} (h : n ++ '.' :: a = n ++ '.' :: b) : a = b :=
  (List.cons.inj (List.append_cancel_left h)).2

theorem unparseFields_sub {lay : Layout} (he : lay.excluded = []) {n : Str}
    (hn : simpleName n = true) (sfs : List Field) (skvs : List (Str × Val)) :
    ∀ (pairs : List SPair) (out : Out), SubOk sfs skvs pairs →
      (∀ kv ∈ out, headSeg kv.1 ≠ n ∨ ∃ a, a ∉ pairs.map (·.1.1) ∧ kv.1 = n ++ '.' :: a) →
      unparseFields lay [] ('.' :: n) (pairs.map (·.1)) skvs out =
        .ok (out ++ (pairs.filter nonDefault).map (subCol n))
  | [], out, _, _ => by simp [unparseFields]
  | ((a, ty, d), v) :: rest, out, hok, hout => by
    obtain ⟨hlook, ha, _, hb, hr⟩ := hok.2 ((a, ty, d), v) (by simp)
    have hnot : a ∉ rest.map (·.1.1) := (List.nodup_cons.mp hok.1).1
    simp only [List.map_cons, unparseFields, hlook]
    cases hdef : isDefault d v with
    | true =>
      simp only [if_true]
      rw [unparseFields_sub he hn sfs skvs rest out (subOk_tail hok)]
      · simp [List.filter, nonDefault, hdef]
      · intro kv hkv
        rcases hout kv hkv with h | ⟨b, hb', e⟩
        · exact Or.inl h
        · exact Or.inr ⟨b, fun hm => hb' (List.mem_cons_of_mem _ hm), e⟩
    | false =>
      have hnd : nonDefault ((a, ty, d), v) = true := by simp [nonDefault, hdef]
      have hbv := (basic_leaf hb (hr hnd)).1
      have hkey : alookup (n ++ '.' :: a) out = none := by
        rw [alookup_none_iff]
        intro hm
        obtain ⟨kv, hkv, e⟩ := List.mem_map.mp hm
        rcases hout kv hkv with h | ⟨b, hb', h⟩
        · rw [e, headSeg_dotted hn] at h; exact h rfl
        · rw [e] at h
          exact hb' (by rw [← key_inj h]; simp)
      simp only [Bool.false_eq_true, if_false, remap_nil, if_true]
      rw [unparseRec_basic he _ _ hbv]
      simp only [writeOut, List.cons_append, trimPrefix, hkey]
      rw [unparseFields_sub he hn sfs skvs rest _ (subOk_tail hok)]
      · simp [List.filter, hnd, subCol]
      · intro kv hkv
        rcases List.mem_append.mp hkv with h | h
        · rcases hout kv h with h' | ⟨b, hb', e⟩
          · exact Or.inl h'
          · exact Or.inr ⟨b, fun hm => hb' (List.mem_cons_of_mem _ hm), e⟩
        · simp only [List.mem_singleton] at h
          exact Or.inr ⟨a, hnot, by rw [h]⟩

theorem fold_spread_sub {fs : List Field} {n : Str} {d : Option Val} (sfs : List Field)
    (hn : simpleName n = true) (hf : fieldLookup n fs = some (n, plainTop sfs, d))
    (kvs : List (Str × Tree)) (hk : alookup n kvs = none) (skvs : List (Str × Val)) :
    ∀ (nd : List SPair) (p0 : SPair) (inner : List (Str × Tree)) (cur : Option Tree),
      (cur = none ∧ inner = [] ∨ cur = some (.dict inner)) →
      SubOk sfs skvs (p0 :: nd) → (∀ p ∈ p0 :: nd, nonDefault p = true) →
      (∀ p ∈ p0 :: nd, alookup p.1.1 inner = none) →
      foldE (parseEntry (plainTop fs)) (.dict (st kvs n cur)) (inl ((p0 :: nd).map (subCol n))) =
        .ok (.dict (st kvs n (some (.dict (inner ++ (p0 :: nd).map subTr)))))
  | nd, p0, inner, cur, hcur, hok, hnd, hin => by
    obtain ⟨_, ha, hfl, hb, hr⟩ := hok.2 p0 (by simp)
    obtain ⟨_, hlv, hav, _, _, _, _⟩ := basic_leaf hb (hr (hnd p0 (by simp)))
    have hinit : initChild (plainTop sfs) (cur.getD Tree.none) = .dict inner := by
      rcases hcur with ⟨rfl, rfl⟩ | rfl <;> simp [initChild, isListTy, isModelTy]
    have hstep : parseEntry (plainTop fs) (.dict (st kvs n cur)) (subCol n p0 |>.1, Sum.inl (subCol n p0).2) =
        .ok (.dict (st kvs n (some (.dict (inner ++ [subTr p0]))))) := by
      simp only [subCol]
      rw [parseEntry_nested hn hf kvs hk cur _ (simpleName_keyChar ha),
        splitDot_simple _ (simpleName_no_dot ha), hinit,
        findSet_model_leaf _ sfs p0.1.1 p0.1.2.1 p0.1.2.2 inner (leafTree p0.2) hfl
          (hin p0 (by simp)) (by simp only [leafFn, hlv, hav])]
      rfl
    cases nd with
    | nil =>
      simp only [inl, List.map_cons, List.map_nil, foldE]
      rw [hstep]
    | cons p1 nd' =>
      have hne : ∀ p ∈ p1 :: nd', alookup p.1.1 (inner ++ [subTr p0]) = none := by
        intro p hp
        rw [alookup_append, hin p (List.mem_cons_of_mem _ hp)]
        have : p0.1.1 ≠ p.1.1 := by
          intro e
          have hmem : p.1.1 ∈ (p1 :: nd').map (·.1.1) := List.mem_map_of_mem (f := fun q : SPair => q.1.1) hp
          rw [← e] at hmem
          exact (List.nodup_cons.mp hok.1).1 hmem
        simp [subTr, alookup, this]
      have ih := fold_spread_sub sfs hn hf kvs hk skvs nd' p1 (inner ++ [subTr p0])
        (some (.dict (inner ++ [subTr p0]))) (Or.inr rfl) (subOk_tail hok)
        (fun p hp => hnd p (List.mem_cons_of_mem _ hp)) hne
      simp only [inl, List.map_cons, foldE] at ih ⊢
      rw [hstep]
      simp only
      rw [ih]
      simp

theorem alookup_filter_map : ∀ (pairs : List SPair), (pairs.map (·.1.1)).Nodup → ∀ p ∈ pairs,
    alookup p.1.1 ((pairs.filter nonDefault).map subTr) =
      if nonDefault p then some (leafTree p.2) else none
  | [], _, p, h => by simp at h
  | q :: rest, hnd, p, h => by
    have hq : q.1.1 ∉ rest.map (·.1.1) := (List.nodup_cons.mp hnd).1
    have ih := alookup_filter_map rest (List.nodup_cons.mp hnd).2
    simp only [List.mem_cons] at h
    rcases h with rfl | h
    · cases hp : nonDefault p with
      | true => simp [List.filter, hp, subTr, alookup]
      | false =>
        simp only [List.filter, hp, Bool.false_eq_true, if_false]
        rw [alookup_none_iff]
        intro hm
        simp only [List.map_map] at hm
        obtain ⟨x, hx, e⟩ := List.mem_map.mp hm
        have hx' : x ∈ rest := (List.mem_filter.mp hx).1
        exact hq (by
          have : x.1.1 = p.1.1 := by simpa [subTr] using e
          rw [← this]; exact List.mem_map_of_mem (f := fun q : SPair => q.1.1) hx')
    · have hne : q.1.1 ≠ p.1.1 := fun e => hq (e ▸ List.mem_map_of_mem (f := fun q : SPair => q.1.1) h)
      cases hqn : nonDefault q with
      | true => simp [List.filter, hqn, subTr, alookup, hne]; simpa [subTr] using ih p h
      | false => simp only [List.filter, hqn]; exact ih p h

/-! ### assembling the sub-record facts -/

/-- family: a record type without remaps whose fields are basic, with distinct simple names -/
def subFamily (sfs : List Field) : Bool :=
  sfs.all (fun f => simpleName f.1 && isBasicTy f.2.1) && decide ((sfs.map (·.1)).Nodup)

structure SubData (sfs : List Field) (skvs : List (Str × Val)) where
  pairs : List SPair
  hpairs : pairs = sfs.zip (skvs.map Prod.snd)
  hnames : skvs.map Prod.fst = sfs.map (·.1)
  hfst : pairs.map (·.1) = sfs
  hok : SubOk sfs skvs pairs
  hne : pairs.filter nonDefault ≠ []
  hfok : ∀ p ∈ pairs, nonDefault p = true → fieldOk true p.1.2.1 p.2 = true

theorem zip_mem_of_fst : ∀ (fs : List Field) (vs : List Val), fs.length = vs.length →
    ∀ f ∈ fs, ∃ v, (f, v) ∈ fs.zip vs
  | [], [], _, f, h => by simp at h
  | [], _ :: _, h, _, _ => by simp at h
  | _ :: _, [], h, _, _ => by simp at h
  | g :: fs, w :: vs, hl, f, h => by
    simp only [List.length_cons, Nat.add_right_cancel_iff] at hl
    simp only [List.mem_cons] at h
    rcases h with rfl | h
    · exact ⟨w, by simp⟩
    · obtain ⟨v, hv⟩ := zip_mem_of_fst fs vs hl f h
      exact ⟨v, by simp [hv]⟩

theorem subData_of_repr {sfs : List Field} {skvs : List (Str × Val)} (hfam : subFamily sfs = true)
    (hr : reprOk false (plainTop sfs) (.model skvs) = true)
    (hfo : fieldOk false (plainTop sfs) (.model skvs) = true) : Nonempty (SubData sfs skvs) := by
  simp only [subFamily, Bool.and_eq_true, List.all_eq_true, decide_eq_true_eq] at hfam
  obtain ⟨hbasic, hnd⟩ := hfam
  simp only [reprOk, Bool.and_eq_true, decide_eq_true_eq, Bool.false_and, Bool.not_false,
    Bool.true_and] at hr
  obtain ⟨⟨hnames, _⟩, hrf⟩ := hr
  have hlen : sfs.length = (skvs.map Prod.snd).length := by
    have := congrArg List.length hnames
    simpa using this.symm
  have hfst := zip_map_fst sfs _ hlen
  have hnm : (sfs.zip (skvs.map Prod.snd)).map (·.1.1) = sfs.map (·.1) := by
    conv => rhs; rw [← hfst]
    simp [List.map_map]
  have hspec : ∀ p ∈ sfs.zip (skvs.map Prod.snd), alookup p.1.1 skvs = some p.2 ∧
      (nonDefault p = true → fieldOk true p.1.2.1 p.2 = true ∧ reprOk false p.1.2.1 p.2 = true) := by
    intro p hp
    have hx' := alookup_zip sfs skvs hnames hnd p hp
    refine ⟨hx', ?_⟩
    intro hnon
    obtain ⟨x, hx, hor⟩ := reprFields_mem true skvs sfs hrf p.1 (List.of_mem_zip hp).1
    rw [hx'] at hx
    cases hx
    rcases hor with h | h
    · simp [nonDefault, h] at hnon
    · exact h
  refine ⟨⟨sfs.zip (skvs.map Prod.snd), rfl, hnames, hfst, ⟨by rw [hnm]; exact hnd, ?_⟩, ?_, ?_⟩⟩
  · intro p hp
    have hmem := (List.of_mem_zip hp).1
    have hb := hbasic p.1 hmem
    exact ⟨(hspec p hp).1, hb.1, fieldLookup_mem sfs hnd p.1 hmem, hb.2, fun h => ((hspec p hp).2 h).2⟩
  · intro hempty
    simp only [fieldOk, Bool.not_eq_true'] at hfo
    have : allDefault sfs skvs = true := by
      unfold allDefault
      rw [List.all_eq_true]
      intro f hf
      obtain ⟨v, hv⟩ := zip_mem_of_fst sfs _ hlen f hf
      have h1 : alookup f.1 skvs = some v := (hspec (f, v) hv).1
      rw [h1]
      have hnot : (f, v) ∉ (sfs.zip (skvs.map Prod.snd)).filter nonDefault := by
        rw [hempty]; simp
      have : nonDefault (f, v) = false := by
        cases hq : nonDefault (f, v) with
        | false => rfl
        | true => exact absurd (List.mem_filter.mpr ⟨hv, hq⟩) hnot
      simpa [nonDefault] using this
    rw [this] at hfo
    cases hfo
  · intro p hp hnon
    exact ((hspec p hp).2 hnon).1

theorem validate_sub {sfs : List Field} {skvs : List (Str × Val)} (D : SubData sfs skvs) :
    validate (plainTop sfs) (.dict ((D.pairs.filter nonDefault).map subTr)) = .ok (.model skvs) := by
  simp only [validate]
  rw [validateFields_of_spec _ sfs skvs D.hnames]
  intro p hp
  rw [← D.hpairs] at hp
  obtain ⟨_, _, _, hb, hr⟩ := D.hok.2 p hp
  rw [alookup_filter_map D.pairs D.hok.1 p hp]
  cases hnon : nonDefault p with
  | false =>
    left
    refine ⟨by simp, ?_⟩
    simpa [nonDefault, isDefault] using hnon
  | true =>
    right
    exact ⟨leafTree p.2, by simp, (basic_leaf hb (hr hnon)).2.2.2.1⟩

theorem nodup_map_inj {α β : Type} (f : α → β) (hf : ∀ a b, f a = f b → a = b) :
    ∀ (l : List α), l.Nodup → (l.map f).Nodup
  | [], _ => by simp
  | a :: l, h => by
    simp only [List.map_cons, List.nodup_cons] at h ⊢
    refine ⟨?_, nodup_map_inj f hf l h.2⟩
    intro hm
    obtain ⟨b, hb, e⟩ := List.mem_map.mp hm
    exact h.1 (hf _ _ e.symm ▸ hb)

theorem subOk_filter {sfs skvs} {pairs : List SPair} (h : SubOk sfs skvs pairs) :
    SubOk sfs skvs (pairs.filter nonDefault) :=
  ⟨(h.1.sublist (List.Sublist.map _ List.filter_sublist)),
    fun p hp => h.2 p (List.mem_filter.mp hp).1⟩

theorem fieldRT_sub_spread {lay : Layout} {fs : List Field} {n : Str} {d : Option Val}
    {sfs : List Field} {skvs : List (Str × Val)}
    (hn : simpleName n = true) (hf : fieldLookup n fs = some (n, plainTop sfs, d))
    (he : lay.excluded = []) (hm : matchesHeaders ('.' :: n) lay.targets = false)
    (D : SubData sfs skvs) : FieldRT lay fs n (plainTop sfs) (.model skvs) := by
  have hokf := subOk_filter D.hok
  refine ⟨(D.pairs.filter nonDefault).map (subCol n), .dict ((D.pairs.filter nonDefault).map subTr),
    ?_, ?_, ?_, ?_, validate_sub D, rfl⟩
  · intro out hout
    unfold unparseRec
    simp only [he, matchesHeaders_nil, hm, isBasicVal, Bool.false_or, Bool.false_eq_true, if_false]
    have := unparseFields_sub he hn sfs skvs D.pairs out D.hok (fun kv hkv => Or.inl (hout kv hkv))
    rw [D.hfst] at this
    exact this
  · intro kv hkv
    obtain ⟨p, hp, rfl⟩ := List.mem_map.mp hkv
    obtain ⟨_, ha, _, _, _⟩ := hokf.2 p hp
    refine ⟨headSeg_dotted hn _, ?_⟩
    intro c hc
    simp only [subCol] at hc
    rcases List.mem_append.mp hc with h | h
    · exact simpleName_keyChar hn c h
    · simp only [List.mem_cons] at h
      rcases h with rfl | h
      · decide
      · exact simpleName_keyChar ha c h
  · rw [List.map_map]
    have : (Prod.fst ∘ subCol n) = (fun a => n ++ '.' :: a) ∘ (fun p : SPair => p.1.1) := by
      funext p; rfl
    rw [this, ← List.map_map]
    exact nodup_map_inj _ (fun a b e => key_inj e) _ hokf.1
  · intro kvs hk
    cases hnd : D.pairs.filter nonDefault with
    | nil => exact absurd hnd D.hne
    | cons p0 nd =>
      rw [hnd] at hokf
      have := fold_spread_sub sfs hn hf kvs hk skvs nd p0 [] none (Or.inl ⟨rfl, rfl⟩) hokf
        (fun p hp => by
          have : p ∈ D.pairs.filter nonDefault := by rw [hnd]; exact hp
          exact (List.mem_filter.mp this).2)
        (fun p _ => rfl)
      simpa [st] using this

/-! ### a sub-record packed into one cell -/

def subElem (p : SPair) : Elem := .list [p.1.1, printBasic p.2]
def subEntry (p : SPair) : PV := .list [.atom p.1.1, .atom (printBasic p.2)]

theorem toNested_basic {ty : Ty} {v : Val} (hb : isBasicTy ty = true)
    (hr : reprOk false ty v = true) : toNested ty v = .ok (.str (printBasic v)) := by
  cases ty <;> simp [isBasicTy] at hb <;> cases v <;> simp [reprOk] at hr <;>
    simp [toNested, printBasic]

theorem nestedFields_sub (sfs : List Field) (skvs : List (Str × Val)) :
    ∀ (pairs : List SPair), SubOk sfs skvs pairs →
      nestedFields (pairs.map (·.1)) skvs =
        .ok (((pairs.filter nonDefault).map subElem).map elemToNested)
  | [], _ => by simp [nestedFields]
  | ((a, ty, d), v) :: rest, hok => by
    obtain ⟨hlook, ha, _, hb, hr⟩ := hok.2 ((a, ty, d), v) (by simp)
    have ih := nestedFields_sub sfs skvs rest (subOk_tail hok)
    simp only [List.map_cons, nestedFields, hlook]
    cases hdef : isDefault d v with
    | true => simp [List.filter, nonDefault, hdef, ih]
    | false =>
      have hnd : nonDefault ((a, ty, d), v) = true := by simp [nonDefault, hdef]
      simp [List.filter, hnd, toNested_basic hb (hr hnd), ih, subElem, elemToNested]

theorem alookup_fieldAssigners : ∀ (sfs : List Field) (a : Str) (f : Field),
    fieldLookup a sfs = some f → alookup a (fieldAssigners sfs) = some (assignValue f.2.1)
  | [], _, _, h => by simp [fieldLookup] at h
  | (n, t, d) :: rest, a, f, h => by
    simp only [fieldLookup] at h
    simp only [fieldAssigners, alookup]
    split at h
    · rename_i hna
      simp only [Option.some.injEq] at h
      subst h
      simp [hna]
    · rename_i hna
      simp [hna, alookup_fieldAssigners rest a f h]

theorem tryKwarg_pairs_none (fas : List (Str × Assign)) (nd : List SPair) :
    tryKwarg fas [] (.list (nd.map subEntry)) = none := by
  match nd with
  | [] => simp [tryKwarg]
  | [p] => simp [tryKwarg]
  | [p, q] => simp [tryKwarg, subEntry]
  | p :: q :: r :: rest => simp [tryKwarg]

theorem assignEntries_kw (sfs : List Field) (skvs : List (Str × Val)) :
    ∀ (nd : List SPair) (rem : List (Str × Assign)) (acc : List (Str × Tree)),
      SubOk sfs skvs nd → (∀ p ∈ nd, nonDefault p = true) →
      (∀ p ∈ nd, alookup p.1.1 acc = none) →
      assignEntries (fieldAssigners sfs) [] rem (nd.map subEntry) acc = .ok (acc ++ nd.map subTr)
  | [], _, acc, _, _, _ => by simp [assignEntries]
  | p :: nd, rem, acc, hok, hnd, hacc => by
    obtain ⟨_, ha, hfl, hb, hr⟩ := hok.2 p (by simp)
    obtain ⟨_, _, hav, _, _, _, _⟩ := basic_leaf hb (hr (hnd p (by simp)))
    have hkw : tryKwarg (fieldAssigners sfs) [] (subEntry p) =
        some (p.1.1, assignValue p.1.2.1, .atom (printBasic p.2)) := by
      simp [tryKwarg, subEntry, remap_nil, alookup_fieldAssigners sfs p.1.1 p.1 hfl]
    simp only [List.map_cons, assignEntries, hkw, hav, setOpt]
    rw [aset_of_absent _ _ acc (hacc p (by simp))]
    rw [assignEntries_kw sfs skvs nd rem.tail _ (subOk_tail hok)
      (fun q hq => hnd q (List.mem_cons_of_mem _ hq))]
    · simp [subTr]
    · intro q hq
      rw [alookup_append, hacc q (List.mem_cons_of_mem _ hq)]
      have hne : p.1.1 ≠ q.1.1 := by
        intro e
        have hmem : q.1.1 ∈ nd.map (·.1.1) := List.mem_map_of_mem (f := fun q : SPair => q.1.1) hq
        rw [← e] at hmem
        exact (List.nodup_cons.mp hok.1).1 hmem
      simp [alookup, hne]

theorem simpleName_strOk {a : Str} (h : simpleName a = true) : strOk a = true := by
  simp only [simpleName, Bool.and_eq_true, List.all_eq_true] at h
  simp only [strOk, Bool.and_eq_true, beq_iff_eq, Bool.not_eq_true', List.contains_eq_mem,
    decide_eq_false_iff_not]
  refine ⟨strip_of_no_ws _ ?_, ?_⟩
  · intro c hc
    have := h.2 c hc
    simp [okChar] at this
    exact this.1.2
  · intro hm
    have := h.2 _ hm
    simp [okChar] at this

theorem wfCell_pairs {sfs skvs} {nd : List SPair} (hne : nd ≠ []) (hok : SubOk sfs skvs nd)
    (hnd : ∀ p ∈ nd, nonDefault p = true)
    (hfok : ∀ p ∈ nd, fieldOk true p.1.2.1 p.2 = true) :
    Props.C08.WFCell (.list (nd.map subElem)) ∧ CellOk (.list (nd.map subElem)) := by
  have hfacts : ∀ p ∈ nd, strOk p.1.1 = true ∧ strOk (printBasic p.2) = true ∧ printBasic p.2 ≠ [] := by
    intro p hp
    obtain ⟨_, ha, _, hb, hr⟩ := hok.2 p hp
    obtain ⟨_, _, _, _, _, hs, hn⟩ := basic_leaf hb (hr (hnd p hp))
    exact ⟨simpleName_strOk ha, hs, hn (hfok p hp)⟩
  refine ⟨⟨by simpa using hne, ?_, ?_⟩, ?_⟩
  · intro e he
    obtain ⟨p, hp, rfl⟩ := List.mem_map.mp he
    obtain ⟨h1, h2, h3⟩ := hfacts p hp
    refine ⟨by simp [subElem], ?_⟩
    intro _
    simp [subElem, h3]
  · intro _ hl
    rw [List.getLast?_map] at hl
    cases hg : nd.getLast? with
    | none => simp [hg] at hl
    | some a => simp [hg, subElem] at hl
  · intro e he
    obtain ⟨p, hp, rfl⟩ := List.mem_map.mp he
    obtain ⟨h1, h2, _⟩ := hfacts p hp
    intro x hx
    simp only [subElem, List.mem_cons, List.not_mem_nil, or_false] at hx
    rcases hx with rfl | rfl
    · exact h1
    · exact h2

theorem fieldRT_sub_packed {lay : Layout} {fs : List Field} {n : Str} {d : Option Val}
    {sfs : List Field} {skvs : List (Str × Val)}
    (hn : simpleName n = true) (hf : fieldLookup n fs = some (n, plainTop sfs, d))
    (he : lay.excluded = []) (hm : matchesHeaders ('.' :: n) lay.targets = true)
    (D : SubData sfs skvs) : FieldRT lay fs n (plainTop sfs) (.model skvs) := by
  have hokf := subOk_filter D.hok
  have hndall : ∀ p ∈ D.pairs.filter nonDefault, nonDefault p = true :=
    fun p hp => (List.mem_filter.mp hp).2
  obtain ⟨hwf, hcok⟩ := wfCell_pairs D.hne hokf hndall
    (fun p hp => D.hfok p (List.mem_filter.mp hp).1 (hndall p hp))
  refine fieldRT_single hn hf (joinCell (.list ((D.pairs.filter nonDefault).map subElem)))
    (.list ((D.pairs.filter nonDefault).map subEntry))
    (.dict ((D.pairs.filter nonDefault).map subTr)) ?_ ?_ ?_ (validate_sub D) rfl
  · intro out
    unfold unparseRec
    have h1 := nestedFields_sub sfs skvs D.pairs D.hok
    rw [D.hfst] at h1
    simp only [he, matchesHeaders_nil, hm, isBasicVal, Bool.false_or, if_true, Bool.false_eq_true,
      if_false, writeValue, toNested, h1]
    rw [joinPacked_cell]
  · simp only [leafValue, isListTy, isModelTy, Bool.false_or, if_true]
    rw [cellParse_joinCell hwf hcok]
    simp [PV.ofCell, List.map_map, PV.ofElem, subElem, subEntry, Function.comp]
  · simp only [assignValue, assignModel]
    rw [tryKwarg_pairs_none]
    simp only
    rw [assignEntries_kw sfs skvs _ _ [] hokf hndall (fun p _ => rfl)]
    simp

end Rpft.Row
