import Rpft.SugarFlat
import Rpft.Lemmas.Sugar
set_option linter.unusedSimpArgs false
set_option linter.unusedVariables false
namespace Rpft.SugarFlat
open Rpft Rpft.Sugar
open Rpft.Cli (RowType BlockType Fault isEndOfBlock blockEndMap)

variable {Raw Inst Ctx Val Hdr Err S : Type}

/-! ## `_is_end_of_block` on the five kinds -/

@[simp] theorem isEnd_other (bt : BlockType) : isEndOfBlock bt (some .other) = .ok false := by
  simp [isEndOfBlock, blockEndMap]
@[simp] theorem isEnd_beginFor (bt : BlockType) : isEndOfBlock bt (some .beginFor) = .ok false := by
  simp [isEndOfBlock, blockEndMap]
@[simp] theorem isEnd_beginBlock (bt : BlockType) : isEndOfBlock bt (some .beginBlock) = .ok false := by
  simp [isEndOfBlock, blockEndMap]
@[simp] theorem isEnd_for_endFor : isEndOfBlock .for_ (some .endFor) = .ok true := by
  simp [isEndOfBlock, blockEndMap]
@[simp] theorem isEnd_block_endBlock : isEndOfBlock .block (some .endBlock) = .ok true := by
  simp [isEndOfBlock, blockEndMap]
@[simp] theorem isEnd_root_none : isEndOfBlock .root none = .ok true := by
  simp [isEndOfBlock]

theorem isEnd_root_ne_true (k : RowType) : isEndOfBlock .root (some k) ≠ .ok true := by
  cases k <;> simp [isEndOfBlock, blockEndMap]

theorem isEnd_true_iff (bt : BlockType) (k : RowType) :
    isEndOfBlock bt (some k) = .ok true ↔ (bt = .for_ ∧ k = .endFor) ∨ (bt = .block ∧ k = .endBlock) := by
  cases bt <;> cases k <;> simp [isEndOfBlock, blockEndMap]

theorem isEnd_false_iff (bt : BlockType) (k : RowType) :
    isEndOfBlock bt (some k) = .ok false ↔ (k = .other ∨ k = .beginFor ∨ k = .beginBlock) := by
  cases bt <;> cases k <;> simp [isEndOfBlock, blockEndMap]

/-! ## well-kinded trees -/

mutual
/-- every row of the tree sits where its kind says -/
def WkF (kind : Raw → RowKind) : FItem Raw → Prop
  | .row r => kind r = .other
  | .forLoop b body e => kind b = .beginFor ∧ WkFL kind body ∧ kind e = .endFor
  | .block b body e => kind b = .beginBlock ∧ WkFL kind body ∧ kind e = .endBlock
def WkFL (kind : Raw → RowKind) : List (FItem Raw) → Prop
  | [] => True
  | it :: its => WkF kind it ∧ WkFL kind its
end

theorem WkFL_append (kind : Raw → RowKind) (a b : List (FItem Raw)) :
    WkFL kind (a ++ b) ↔ WkFL kind a ∧ WkFL kind b := by
  induction a with
  | nil => simp [WkFL]
  | cons x a ih => simp [WkFL, ih, and_assoc]

theorem WkFL_reverse (kind : Raw → RowKind) (a : List (FItem Raw)) :
    WkFL kind a.reverse ↔ WkFL kind a := by
  induction a with
  | nil => simp
  | cons x a ih => simp [WkFL_append, WkFL, ih, and_comm]

/-- the fault recorded in a scan tree is the one `_is_end_of_block` reports at that place, begin
rows are begin rows, the items are well kinded; `bt` = type of the enclosing block -/
def WkP (kind : Raw → RowKind) : BlockType → PTree Raw → Prop
  | bt, .done its => bt = .root ∧ WkFL kind its
  | bt, .fault its f rest =>
    WkFL kind its ∧
      (match rest with
       | [] => isEndOfBlock bt none = .error f
       | r :: _ => isEndOfBlock bt (some (kind r)) = .error f)
  | _, .open_ its isFor b inner =>
    WkFL kind its ∧ kind b = (if isFor then .beginFor else .beginBlock) ∧
      WkP kind (if isFor then .for_ else .block) inner

theorem flattenFL_append (a b : List (FItem Raw)) :
    flattenFL (a ++ b) = flattenFL a ++ flattenFL b := by
  induction a with
  | nil => simp [flattenFL]
  | cons x a ih => simp [flattenFL, ih]

theorem flattenFL_singleton (x : FItem Raw) : flattenFL [x] = flattenF x := by
  simp [flattenFL]

mutual
theorem length_le_flattenF : ∀ (it : FItem Raw), 1 ≤ (flattenF it).length
  | .row r => by simp [flattenF]
  | .forLoop b body e => by simp [flattenF]
  | .block b body e => by simp [flattenF]
theorem length_le_flattenFL : ∀ (its : List (FItem Raw)), its.length ≤ (flattenFL its).length
  | [] => by simp [flattenFL]
  | it :: its => by
    have h1 := length_le_flattenF it
    have h2 := length_le_flattenFL its
    simp only [flattenFL, List.length_cons, List.length_append]
    omega
end

/-! ## the structural parser: round trips -/

theorem build_cons (kind : Raw → RowKind) (st : List (Frame Raw)) (cur : List (FItem Raw)) (r : Raw) (rs : List Raw) :
    build kind st cur (r :: rs) =
      (match isEndOfBlock (frameBt st) (some (kind r)) with
       | .error f => wrap st (.fault cur.reverse f (r :: rs))
       | .ok true =>
         match st with
         | fr :: st' =>
           build kind st'
             ((if fr.isFor then FItem.forLoop fr.b cur.reverse r else FItem.block fr.b cur.reverse r)
               :: fr.before) rs
         | [] => .done []
       | .ok false =>
         match kind r with
         | .beginFor => build kind (⟨true, r, cur⟩ :: st) [] rs
         | .beginBlock => build kind (⟨false, r, cur⟩ :: st) [] rs
         | _ => build kind st (.row r :: cur) rs) := by
  rw [build.eq_def]
  rfl

mutual
theorem build_flattenF (kind : Raw → RowKind) :
    ∀ (it : FItem Raw), WkF kind it → ∀ (st : List (Frame Raw)) (cur : List (FItem Raw)) (rest : List Raw),
      build kind st cur (flattenF it ++ rest) = build kind st (it :: cur) rest
  | .row r, h, st, cur, rest => by
    simp only [WkF] at h
    simp [flattenF, build, h]
  | .forLoop b body e, h, st, cur, rest => by
    obtain ⟨hb, hbody, he⟩ := h
    have ih := build_flattenFL kind body hbody (⟨true, b, cur⟩ :: st) [] (e :: rest)
    simp only [flattenF, List.cons_append, List.append_assoc, List.singleton_append, List.nil_append]
    rw [build_cons]
    simp only [hb, isEnd_beginFor]
    rw [ih]
    rw [build_cons]
    simp [frameBt, he]
  | .block b body e, h, st, cur, rest => by
    obtain ⟨hb, hbody, he⟩ := h
    have ih := build_flattenFL kind body hbody (⟨false, b, cur⟩ :: st) [] (e :: rest)
    simp only [flattenF, List.cons_append, List.append_assoc, List.singleton_append, List.nil_append]
    rw [build_cons]
    simp only [hb, isEnd_beginBlock]
    rw [ih]
    rw [build_cons]
    simp [frameBt, he]
theorem build_flattenFL (kind : Raw → RowKind) :
    ∀ (its : List (FItem Raw)), WkFL kind its → ∀ (st : List (Frame Raw)) (cur : List (FItem Raw)) (rest : List Raw),
      build kind st cur (flattenFL its ++ rest) = build kind st (its.reverse ++ cur) rest
  | [], _, st, cur, rest => by simp [flattenFL]
  | it :: its, h, st, cur, rest => by
    obtain ⟨h1, h2⟩ := h
    simp only [flattenFL, List.append_assoc]
    rw [build_flattenF kind it h1, build_flattenFL kind its h2]
    simp
end

/-- **flatten, then parse = identity** (every well-kinded tree) -/
theorem parseTree_flatten (kind : Raw → RowKind) (its : List (FItem Raw)) (h : WkFL kind its) :
    parseTree kind (flattenFL its) = .ok its := by
  have := build_flattenFL kind its h [] [] []
  simp only [List.append_nil] at this
  simp [parseTree, parseAll, this, build]

/-- the rows a scan state stands for -/
def unwind : List (Frame Raw) → List Raw → List Raw
  | [], inner => inner
  | f :: st, inner => unwind st (flattenFL f.before.reverse ++ f.b :: inner)

theorem flattenP_wrap (st : List (Frame Raw)) (t : PTree Raw) :
    flattenP (wrap st t) = unwind st (flattenP t) := by
  induction st generalizing t with
  | nil => simp [wrap, unwind]
  | cons f st ih => simp [wrap, unwind, ih, flattenP]

theorem flattenP_build (kind : Raw → RowKind) (rows : List Raw) :
    ∀ (st : List (Frame Raw)) (cur : List (FItem Raw)),
      flattenP (build kind st cur rows) = unwind st (flattenFL cur.reverse ++ rows) := by
  induction rows with
  | nil =>
    intro st cur
    cases st with
    | nil => simp [build, flattenP, unwind]
    | cons f st => simp [build, flattenP_wrap, flattenP]
  | cons r rs ih =>
    intro st cur
    rw [build_cons]
    cases hE : isEndOfBlock (frameBt st) (some (kind r)) with
    | error f => simp [flattenP_wrap, flattenP]
    | ok b =>
      cases b with
      | true =>
        cases st with
        | nil => exact absurd hE (isEnd_root_ne_true _)
        | cons fr st' =>
          simp only []
          rw [ih]
          cases hf : fr.isFor <;>
            simp [unwind, flattenFL_append, flattenFL, flattenF, List.append_assoc]
      | false =>
        simp only []
        split
        · rw [ih]; simp [unwind, flattenFL]
        · rw [ih]; simp [unwind, flattenFL]
        · rw [ih]; simp [flattenFL_append, flattenFL, flattenF]

/-- **parse, then flatten = identity** (every sheet, well nested or not) -/
theorem flattenP_parseAll (kind : Raw → RowKind) (rows : List Raw) :
    flattenP (parseAll kind rows) = rows := by
  simp [parseAll, flattenP_build, unwind, flattenFL]

/-- frames of a scan state are well kinded -/
def WkSt (kind : Raw → RowKind) : List (Frame Raw) → Prop
  | [] => True
  | f :: st => kind f.b = (if f.isFor then .beginFor else .beginBlock) ∧ WkFL kind f.before ∧ WkSt kind st

theorem WkP_wrap (kind : Raw → RowKind) (st : List (Frame Raw)) (t : PTree Raw)
    (hst : WkSt kind st) (ht : WkP kind (frameBt st) t) : WkP kind .root (wrap st t) := by
  induction st generalizing t with
  | nil => simpa [wrap, frameBt] using ht
  | cons f st ih =>
    obtain ⟨h1, h2, h3⟩ := hst
    simp only [wrap]
    apply ih _ h3
    refine ⟨(WkFL_reverse kind _).2 h2, h1, ?_⟩
    simpa [frameBt] using ht

theorem WkP_build (kind : Raw → RowKind) (rows : List Raw) :
    ∀ (st : List (Frame Raw)) (cur : List (FItem Raw)), WkSt kind st → WkFL kind cur →
      WkP kind .root (build kind st cur rows) := by
  induction rows with
  | nil =>
    intro st cur hst hcur
    cases st with
    | nil => simp [build, WkP, WkFL_reverse, hcur]
    | cons f st =>
      simp only [build]
      apply WkP_wrap kind _ _ hst
      refine ⟨(WkFL_reverse kind _).2 hcur, ?_⟩
      cases hf : f.isFor <;> simp [frameBt, hf, isEndOfBlock]
  | cons r rs ih =>
    intro st cur hst hcur
    rw [build_cons]
    cases hE : isEndOfBlock (frameBt st) (some (kind r)) with
    | error f =>
      simp only []
      apply WkP_wrap kind _ _ hst
      exact ⟨(WkFL_reverse kind _).2 hcur, hE⟩
    | ok b =>
      cases b with
      | true =>
        cases st with
        | nil => exact absurd hE (isEnd_root_ne_true _)
        | cons fr st' =>
          obtain ⟨h1, h2, h3⟩ := hst
          simp only []
          apply ih _ _ h3
          have hk := (isEnd_true_iff _ _).1 hE
          cases hf : fr.isFor
          · simp [frameBt, hf] at hk
            simp [hf, WkFL, WkF, h2, WkFL_reverse, hcur, hk] at h1 ⊢
            exact h1
          · simp [frameBt, hf] at hk
            simp [hf, WkFL, WkF, h2, WkFL_reverse, hcur, hk] at h1 ⊢
            exact h1
      | false =>
        simp only []
        have hk := (isEnd_false_iff _ _).1 hE
        split
        · next hb => exact ih _ _ ⟨by simp [hb], hcur, hst⟩ (by simp [WkFL])
        · next hb => exact ih _ _ ⟨by simp [hb], hcur, hst⟩ (by simp [WkFL])
        · next h1 h2 =>
          apply ih _ _ hst
          refine ⟨?_, hcur⟩
          simp only [WkF]
          rcases hk with hk | hk | hk
          · exact hk
          · exact absurd hk h1
          · exact absurd hk h2

theorem WkP_parseAll (kind : Raw → RowKind) (rows : List Raw) : WkP kind .root (parseAll kind rows) :=
  WkP_build kind rows [] [] (by simp [WkSt]) (by simp [WkFL])

/-- **a successful parse is a tree of exactly these rows, every row where its kind says** -/
theorem parseTree_sound (kind : Raw → RowKind) (rows : List Raw) (its : List (FItem Raw))
    (h : parseTree kind rows = .ok its) : flattenFL its = rows ∧ WkFL kind its := by
  have h1 := flattenP_parseAll kind rows
  have h2 := WkP_parseAll kind rows
  unfold parseTree at h
  cases hp : parseAll kind rows with
  | done its' =>
    simp only [hp] at h h1 h2
    injection h with h
    subst h
    exact ⟨by simpa [flattenP] using h1, h2.2⟩
  | fault a f r => simp [hp] at h
  | open_ a b c d => simp [hp] at h

theorem parseTree_ok_iff (kind : Raw → RowKind) (rows : List Raw) (its : List (FItem Raw)) :
    parseTree kind rows = .ok its ↔ parseAll kind rows = .done its := by
  unfold parseTree
  cases hp : parseAll kind rows <;> simp

/-! ## the scan finds the fault that `Cli.checkBlocks` (C15) finds -/

theorem fault?_wrap (st : List (Frame Raw)) (t : PTree Raw) : (wrap st t).fault? = t.fault? := by
  induction st generalizing t with
  | nil => simp [wrap]
  | cons f st ih => simp [wrap, ih, PTree.fault?]

def frameBts : List (Frame Raw) → List BlockType
  | [] => []
  | f :: st => (if f.isFor then BlockType.for_ else .block) :: frameBts st

theorem top_frameBts (st : List (Frame Raw)) : Cli.top (frameBts st) = frameBt st := by
  cases st <;> simp [frameBts, Cli.top, frameBt]

/-- the error of an outcome -/
def errOf {ε α : Type} : Except ε α → Option ε
  | .ok _ => none
  | .error f => some f

theorem fault?_build (kind : Raw → RowKind) (rows : List Raw) :
    ∀ (st : List (Frame Raw)) (cur : List (FItem Raw)),
      (build kind st cur rows).fault? = errOf (Cli.runBlocks (frameBts st) (rows.map kind)) := by
  induction rows with
  | nil =>
    intro st cur
    cases st with
    | nil => simp [build, PTree.fault?, Cli.runBlocks, frameBts, Cli.top, isEndOfBlock, errOf]
    | cons f st =>
      cases hf : f.isFor <;>
        simp [build, fault?_wrap, PTree.fault?, Cli.runBlocks, frameBts, Cli.top, isEndOfBlock, hf, errOf]
  | cons r rs ih =>
    intro st cur
    rw [build_cons]
    simp only [List.map_cons, Cli.runBlocks, top_frameBts]
    cases hE : isEndOfBlock (frameBt st) (some (kind r)) with
    | error f => simp [fault?_wrap, PTree.fault?, errOf]
    | ok b =>
      cases b with
      | true =>
        cases st with
        | nil => exact absurd hE (isEnd_root_ne_true _)
        | cons fr st' =>
          simp only []
          rw [ih]
          simp [frameBts]
      | false =>
        simp only []
        have hk := (isEnd_false_iff _ _).1 hE
        rcases hk with hk | hk | hk <;> simp [hk, ih, frameBts]

end Rpft.SugarFlat
