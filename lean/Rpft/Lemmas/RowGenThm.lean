/-
General round-trip development (C07 `parse_unparse`), part 6: the theorem in terms of the
decidable domain predicates of RowSpec.lean (`goodTop`, `Representable`, `LayoutOk`,
`RemapConsistent`), and its specialisation to row models without a context remap whose
tables satisfy the static side conditions (`goodTy`).
-/
import Rpft.Lemmas.RowGenTop
set_option linter.unusedSimpArgs false
set_option linter.unusedVariables false
namespace Rpft.Row
open Rpft

theorem layoutOk_top {sch : Schema} {lay : Layout} {fs : List Field} {h2f f2h : List (Str × Str)}
    {kvs : List (Str × Val)} (htop : sch.top = .model fs h2f f2h)
    (hl : LayoutOk sch lay (.model kvs) = true) :
    lay.excluded = [] ∧ layOkFields lay f2h [] kvs fs = true := by
  simp only [LayoutOk, Bool.and_eq_true, List.isEmpty_iff, htop] at hl
  refine ⟨hl.1, ?_⟩
  have := hl.2
  unfold layOk at this
  simpa [isBasicTy, matchesHeaders] using this

/-- **C07, general form.** -/
theorem parse_unparse_gen (sch : Schema) (lay : Layout) (v : Val)
    (hg : goodTop sch.top = true) (hr : Representable sch.top v = true)
    (hl : LayoutOk sch lay v = true) (hc : RemapConsistent sch lay v = true) :
    ∃ cells, unparseRow sch lay v = .ok cells ∧ parseRow sch cells = .ok v := by
  cases htop : sch.top with
  | model fs h2f f2h =>
    rw [htop] at hg hr
    cases v with
    | model kvs =>
      simp only [goodTop, Bool.and_eq_true, List.all_eq_true, decide_eq_true_eq] at hg
      obtain ⟨⟨hsimple, hnd⟩, hgf⟩ := hg
      simp only [Representable, Bool.and_eq_true, decide_eq_true_eq] at hr
      obtain ⟨hnames, hrf⟩ := hr
      obtain ⟨he, hlay⟩ := layoutOk_top htop hl
      simp only [RemapConsistent, htop] at hc
      cases hun : unparseRec lay (.model fs h2f f2h) (.model kvs) [] [] with
      | error e => simp [hun] at hc
      | ok cells0 =>
        simp only [hun, Bool.and_eq_true, decide_eq_true_eq, List.all_eq_true] at hc
        obtain ⟨H1, Hall⟩ := hc
        apply top_roundtrip sch lay he fs h2f f2h htop hsimple hnd hgf kvs hnames hrf hlay H1
        · intro p hp hpn
          exact (Hall p (List.mem_filter.mpr ⟨hp, hpn⟩)).1
        · intro cells hcells _ p hp hpn
          have hce : cells = cells0 := by
            unfold unparseRow at hcells
            rw [htop, hun] at hcells
            exact (Except.ok.inj hcells).symm
          subst hce
          have := (Hall p (List.mem_filter.mpr ⟨hp, hpn⟩)).2
          constructor
          · intro hrm
            have hrm' : remap f2h p.1.1 = p.1.1 := hrm
            simp only [hrm', if_true, Bool.and_eq_true, decide_eq_true_eq, List.all_eq_true,
              bne_iff_ne, ne_eq] at this
            refine ⟨this.1, ?_⟩
            intro k hk
            apply ctxRemap_untouched
            intro k' hk' e
            exact this.2 k' hk' (by rw [e, hk])
          · intro hrm
            have hrm' : ¬ remap f2h p.1.1 = p.1.1 := hrm
            simp only [hrm', if_false] at this
            cases hcr : ctxRemap sch cells (remap f2h p.1.1) with
            | error e => simp [hcr] at this
            | ok pn =>
              simp only [hcr, Bool.and_eq_true, decide_eq_true_eq] at this
              exact ⟨pn, hcr, this.1, this.2⟩
    | _ => simp [Representable] at hr
  | _ => rw [htop] at hg; simp [goodTop] at hg

/-- **C07 for row models without a context remap**: the static side conditions `goodTy`
(at every level, the root included: `header_name_to_field_name` undoes
`field_name_to_header_name`, names and headers distinct) are enough. -/
theorem parse_unparse_static (sch : Schema) (lay : Layout) (v : Val)
    (hb : sch.ctxBasic = []) (hm : sch.ctxMain = none)
    (hg : goodTy sch.top = true) (hr : Representable sch.top v = true)
    (hl : LayoutOk sch lay v = true) :
    ∃ cells, unparseRow sch lay v = .ok cells ∧ parseRow sch cells = .ok v := by
  cases htop : sch.top with
  | model fs h2f f2h =>
    rw [htop] at hg hr
    cases v with
    | model kvs =>
      simp only [goodTy, Bool.and_eq_true] at hg
      obtain ⟨hrm, hgf⟩ := hg
      simp only [Representable, Bool.and_eq_true, decide_eq_true_eq] at hr
      obtain ⟨hnames, hrf⟩ := hr
      obtain ⟨he, hlay⟩ := layoutOk_top htop hl
      have hlen : fs.length = (kvs.map Prod.snd).length := by
        have := congrArg List.length hnames
        simpa using this.symm
      obtain ⟨hnd, H1, H2⟩ := remapOk_facts hrm (kvs.map Prod.snd) hlen
      have hsimple : ∀ f ∈ fs, simpleName f.1 = true := by
        simp only [remapOk, Bool.and_eq_true, List.all_eq_true, decide_eq_true_eq] at hrm
        exact fun f hf => (hrm.1.1 f hf).1.1
      apply top_roundtrip sch lay he fs h2f f2h htop hsimple hnd hgf kvs hnames hrf hlay H1
        (fun p hp _ => (H2 p hp).1)
      intro cells _ _ p hp hpn
      constructor
      · intro hrm'
        have := (H2 p hp).2
        rw [hrm'] at this
        exact ⟨this, fun k _ => ctxRemap_plain sch hb hm cells k⟩
      · intro _
        exact ⟨hdr f2h p, ctxRemap_plain sch hb hm cells _, (H2 p hp).1, (H2 p hp).2⟩
    | _ => simp [Representable] at hr
  | _ => rw [htop] at hr; simp [Representable] at hr

end Rpft.Row
