/-
An event-level condition under which the twin block is tight (`TightAt`): the insert row directly
follows a plain action row and is attached to it unconditionally (blank `from`, or its row id).
The action row's node is a basic node without router whose only exit the edge into the block
connects — no unconnected exit of a row leading into the block is left.
-/
import Rpft.Lemmas.CompileInsertMainG
import Rpft.Lemmas.CompileInsertKind
set_option linter.unusedSimpArgs false
set_option linter.unusedVariables false
namespace Rpft.Compile
open Rpft Function

/-- a plain action row: it creates a basic node of its own (`send_message`, `save_value`, … without
`_nodeId` / node name) -/
def PlainRow (q : Row) : Prop :=
  basicTypes.contains q.type = true ∧ q.nodeUuid = [] ∧ q.nodeName = []

instance (q : Row) : Decidable (PlainRow q) := by unfold PlainRow; exact inferInstance

/-- the row `r` is attached, unconditionally and only, to the row `q` read just before it: by a
blank `from` or by `q`'s row id -/
def Follows (q r : Row) : Prop :=
  ∃ e, dropTrivial r.edges = [e] ∧ e.cond.blank = true ∧
    (e.from_ = [] ∨ (e.from_ = q.rowId ∧ q.rowId ≠ [] ∧ q.rowId ≠ startS))

theorem withAct_kind (n : NodeM) (a : Option (Uid × Str)) : (n.withAct a).kind = n.kind ∧ (n.withAct a).router = n.router := by
  cases a <;> exact ⟨rfl, rfl⟩

theorem rowNode_plain (r : Row) (act : Option (Uid × Str)) (hb : basicTypes.contains r.type = true) (s : St) :
    wp (rowNode r act) s (fun n _ => n.kind = .basic ∧ n.router = none) := by
  unfold rowNode
  rw [if_pos hb]
  split
  · unfold basicNode newBasic nodeUid
    split
    · wp_simp [wp_fresh']
      exact ⟨(withAct_kind _ act).1, (withAct_kind _ act).2⟩
    · wp_simp [wp_fresh']
      exact ⟨(withAct_kind _ act).1, (withAct_kind _ act).2⟩
  · rw [wp_fail]; trivial

theorem plain_types {q : Row} (hb : basicTypes.contains q.type = true) :
    q.type ≠ "hard_exit".toList ∧ q.type ≠ "loose_exit".toList ∧ q.type ≠ "go_to".toList ∧
    q.type ≠ "no_op".toList ∧ q.type ≠ "insert_as_block".toList := by
  have : q.type ∈ basicTypes := by simpa using hb
  simp only [basicTypes, List.map_cons, List.map_nil, List.mem_cons, List.not_mem_nil, or_false] at this
  rcases this with h | h | h | h | h <;> (rw [h]; decide)

theorem parseRow_plain {q : Row} (hp : PlainRow q) {s t : St} (h : (parseRow q).run s = .ok ((), t)) :
    (newRow { q with edges := dropTrivial q.edges } []).run s = .ok ((), t) := by
  obtain ⟨hb, h6, h7⟩ := hp
  obtain ⟨h1, h2, h3, h4, h5⟩ := plain_types hb
  unfold parseRow at h
  simp only [h1, h2, h3, h4, h5, false_or, if_false] at h
  unfold actionRow at h
  by_cases hok : q.actionOk = true
  · simp only [hok, not_true_eq_false, if_false, h6, h7, List.isEmpty_nil, if_true] at h
    obtain ⟨a, u, hg, h⟩ := run_bind_ok h
    obtain ⟨rfl, rfl⟩ := run_get_ok hg
    rw [hok, h6, h7]
    simpa using h
  · simp only [hok, not_false_eq_true, if_true] at h
    cases h

/-- what is known of the state after a plain action row `q`: its row group (holding one basic node
without router) is the most recent one and the one `q`'s row id names -/
structure ParentAt (s₀ : St) (q : Row) (g i : Nat) : Prop where
  grp : s₀.groups[g]? = some (.row [i] q.type)
  node : ∃ n0, s₀.nodes[i]? = some n0 ∧ n0.kind = .basic ∧ n0.router = none
  recent : mostRecentIn s₀.groups s₀.stack = some g
  named : q.rowId ≠ [] → lookupIn s₀.rowIds q.rowId = some g

theorem parent_at {q : Row} (hp : PlainRow q) {s s₀ : St} (h : (parseRow q).run s = .ok ((), s₀)) :
    ∃ g i, ParentAt s₀ q g i := by
  have h' := parseRow_plain hp h
  obtain ⟨act, s1, n, s2, s3, t', h1, h2, h3, h4, h5⟩ := newRow_run h'
  have hk := wp_of_run (rowNode_plain _ act hp.1 s1) h2
  obtain ⟨k0, rfl⟩ := bump_of_rowAction h1
  obtain ⟨k1, rfl⟩ := bump_of_rowNode h2
  have e3 := wp_of_run ((KeepsN.forM _ _ (fun x _ => keepn_addRowEdge (.node n.uid) x)).k _) h3
  obtain ⟨b, rest, cs, hst, hgb, ht'⟩ := appendGroup_run h4
  obtain ⟨n', hn', hkr⟩ := e3 s.nodes.size n (by show (s.nodes.push n)[s.nodes.size]? = _; simp)
  have hbne : b ≠ s3.groups.size := by
    intro e
    rw [e] at hgb
    have : (s3.groups.push (Grp.row [s.nodes.size] q.type))[s3.groups.size]? = some (Grp.row [s.nodes.size] q.type) := by simp
    rw [this] at hgb; cases hgb
  have hblt : b < (s3.groups.push (Grp.row [s.nodes.size] q.type)).size := (Array.getElem?_eq_some_iff.mp hgb).1
  refine ⟨s3.groups.size, s.nodes.size, ?_, ?_, ?_, ?_⟩
  · rw [h5, ht']
    show ((s3.groups.push _).setIfInBounds b _)[s3.groups.size]? = _
    rw [Array.getElem?_setIfInBounds, if_neg hbne]
    simp
  · rw [h5, ht']
    exact ⟨n', hn', hkr.1.trans hk.1, hkr.2 hk.2⟩
  · rw [h5, ht']
    show mostRecentIn ((s3.groups.push _).setIfInBounds b _) _ = _
    have hst' : (({ s3 with groups := s3.groups.push (Grp.row [s.nodes.size] q.type) } : St)).stack = b :: rest := hst
    rw [hst']
    unfold mostRecentIn
    rw [Array.getElem?_setIfInBounds, if_pos rfl, if_pos hblt]
    simp
  · intro hne
    rw [h5, ht']
    have hemp : q.rowId.isEmpty = false := by cases hq : q.rowId <;> simp_all
    show lookupIn (if q.rowId.isEmpty = true then _ else (q.rowId, s3.groups.size) :: _) _ = _
    rw [hemp]
    simp only [Bool.false_eq_true, if_false]
    rw [lookupIn_cons, if_pos rfl]

/-- the source group of an edge attached to `q` -/
theorem psOf_follows {s₀ : St} {q r : Row} {g i : Nat} (hp : ParentAt s₀ q g i) (hf : Follows q r) :
    ∃ c, c.blank = true ∧ psOf s₀ (dropTrivial r.edges) = some [(g, c)] := by
  obtain ⟨e, he, hc, hfrom⟩ := hf
  refine ⟨e.cond, hc, ?_⟩
  rw [he]
  unfold psOf
  have hge : (groupOfEdge e).run s₀ = .ok (some g, s₀) := by
    unfold groupOfEdge
    rcases hfrom with h0 | ⟨h1, h2, h3⟩
    · have hs : e.from_ ≠ "start".toList := by rw [h0]; decide
      rw [if_neg hs, h0]
      simp only [List.isEmpty_nil, not_true_eq_false, if_false]
      rw [mostRecent_run, hp.recent]
    · have hs : e.from_ ≠ "start".toList := by rw [h1]; exact h3
      have hne : ¬ e.from_.isEmpty = true := by rw [h1]; cases hq : q.rowId <;> simp_all
      rw [if_neg hs, if_pos hne, run_bind_of (lookupRow_run _ s₀), h1, hp.named h2]
      rfl
  rw [hge]
  simp [psOf]

/-- the edge into the block, applied to the plain row's node: its exit is connected, nothing else changes -/
theorem addExit_parent {t : St} {g i : Nat} {ty : Str} {n0 : NodeM} (hg : t.groups[g]? = some (.row [i] ty))
    (hn : t.nodes[i]? = some n0) (hk : n0.kind = .basic) (hr : n0.router = none) (f : Nat) (u : Uid) (c : Cond)
    (hc : c.blank = true) :
    wp (addExit (f + 1) g (.node u) c) t (fun _ e => e.groups = t.groups ∧ e.nodes.size = t.nodes.size ∧
      ∃ n1, e.nodes[i]? = some n1 ∧ NoLoose n1) := by
  unfold addExit
  rw [wp_bind, wp_getGrp]
  intro grp hgrp
  rw [hg] at hgrp; injection hgrp with hgrp; subst hgrp
  simp only []
  unfold rowAddExit
  simp only [List.getLast?_singleton]
  rw [wp_bind, wp_getNode]
  intro n hn'
  rw [hn] at hn'; injection hn' with hn'; subst hn'
  have hcond : c.blank = true ∧ n0.kind ≠ NodeKind.random := ⟨hc, by rw [hk]; intro e; cases e⟩
  rw [if_pos hcond]
  unfold rowExitBlank
  rw [hk]
  simp only []
  rw [wp_bind, wp_fresh', wp_setNode]
  refine ⟨rfl, by simp, ?_⟩
  have hlt : i < t.nodes.size := (Array.getElem?_eq_some_iff.mp hn).1
  refine ⟨{ n0 with dexitUid := tid t.next, dexitDest := .node u }, ?_, ?_⟩
  · show (t.nodes.setIfInBounds i _)[i]? = _
    rw [Array.getElem?_setIfInBounds, if_pos rfl, if_pos hlt, hk]
  exact ⟨(hasLoose_basic (n := { n0 with dexitUid := tid t.next, dexitDest := .node u }) hr).mpr (fun e => by cases e),
    fun _ e => by cases e⟩

/-- **an insert row that directly follows a plain action row and is attached to it unconditionally
gives a tight twin block**: after the template's first row is read, the begin row's `no_op` group
has the action row's group as its only parent, and that row's node has no unconnected exit -/
theorem tight_of_follows (na nt : List Str) (pre' : List Event) (q r r₁ : Row) (hq : PlainRow q)
    (hf : Follows q r) (he : EntryRow r₁) (hid : okIdsL (pre' ++ [.row q]) = true) :
    ∀ a₂, (steps ((pre' ++ [.row q]) ++ [.openGroup r.edges false, .row (retargetRow r₁)])).run (initSt na nt) =
      .ok ((), a₂) → TightAt a₂ := by
  intro a₂ hrun
  obtain ⟨s₀, hp, hrest⟩ := run_steps_append hrun
  obtain ⟨s', hp', hq'⟩ := run_steps_append hp
  obtain ⟨s₀x, hq1, hq2⟩ := run_steps_cons hq'
  have e0 : s₀ = s₀x := run_steps_nil hq2
  rw [← e0] at hq1
  have hgd : Good na nt s₀ := good_run hid hp
  have hq1' : (parseRow q).run s' = .ok ((), s₀) := by unfold step at hq1; exact hq1
  obtain ⟨g, i, hpa⟩ := parent_at hq hq1'
  obtain ⟨o₂, hO, hrest⟩ := run_steps_cons hrest
  obtain ⟨a₂', hF, hnil⟩ := run_steps_cons hrest
  have e1 : a₂ = a₂' := run_steps_nil hnil
  rw [← e1] at hF
  unfold step at hO hF
  obtain ⟨ps, hps, ho⟩ := wp_of_run (openGroup_twin s₀ (fun b hb => hgd.sb.lt hb) r.edges) hO
  subst ho
  obtain ⟨c, hc, hps'⟩ := psOf_follows hpa hf
  rw [hps'] at hps
  injection hps with hps
  subst hps
  have hglt : g < s₀.groups.size := (Array.getElem?_eq_some_iff.mp hpa.grp).1
  obtain ⟨n0, hn0, hk0, hr0⟩ := hpa.node
  have hilt : i < s₀.nodes.size := (Array.getElem?_eq_some_iff.mp hn0).1
  obtain ⟨act, n, k0, k1, e₂, t', hA, hN, hE, hAp, ha₂⟩ := first_twin he hF
  -- the edge into the block
  have hE' : (addExit (2 * (s₀.groups.size + 2) + 6 + 1) g (.node n.uid) c).run (twT s₀ [(g, c)] n (k0 + k1)) =
      .ok ((), e₂) := by
    have : ([(g, c)].forM (fun p => addExit (2 * (s₀.groups.size + 2) + 7) p.1 (.node n.uid) p.2)) =
        (addExit (2 * (s₀.groups.size + 2) + 7) g (.node n.uid) c >>= fun _ => pure PUnit.unit) := rfl
    rw [this] at hE
    obtain ⟨_, u, h1, h2⟩ := run_bind_ok hE
    cases h2
    exact h1
  have hgt : (twT s₀ [(g, c)] n (k0 + k1)).groups[g]? = some (.row [i] q.type) := by
    rw [twT_groups_lt _ n (k0 + k1) hglt]; exact hpa.grp
  have hnt : (twT s₀ [(g, c)] n (k0 + k1)).nodes[i]? = some n0 := by
    rw [twT_nodes_lt _ n (k0 + k1) hilt]; exact hn0
  obtain ⟨eg, _, n1, hn1, hnl1⟩ := wp_of_run (addExit_parent hgt hnt hk0 hr0 _ n.uid c hc) hE'
  -- the frame of the edge
  have hdn : Below (s₀.next + (k0 + k1)) n.dexitUid := by
    have := wp_of_run (rowNode_dex r₁ act _) hN
    simpa [DexQ, Nat.add_assoc] using this
  obtain ⟨fe1, fe2, fe3, fe4, fe5, fe6, fe7, fe8, fe9, fe10⟩ :=
    twin_E_frame hgd [(g, c)] n (k0 + k1) (by intro p hp; simp at hp; rw [hp]; exact hglt) (.inl hdn) _ _ hE
  -- the state after the row
  obtain ⟨b, rest', cs, hst, hgb, ht'⟩ := appendGroup_run hAp
  have hst' : e₂.stack = b :: rest' := hst
  rw [fe4.1] at hst'
  have hstk : (twT s₀ [(g, c)] n (k0 + k1)).stack = s₀.groups.size :: s₀.stack := rfl
  rw [hstk] at hst'
  injection hst' with hb _
  subst hb
  refine ⟨s₀.groups.size, ?_, ?_⟩
  · rw [ha₂, ht']
    show e₂.stack.head? = _
    rw [fe4.1, hstk]; rfl
  · refine ⟨[(g, c)], ?_, ?_⟩
    · rw [ha₂, ht']
      show ((e₂.groups.push _).setIfInBounds s₀.groups.size _)[s₀.groups.size + 1]? = _
      rw [Array.getElem?_setIfInBounds, if_neg (by omega), Array.getElem?_push, if_neg (by omega)]
      exact fe3
    · intro p hp
      simp only [List.mem_singleton] at hp
      subst hp
      refine ⟨[i], q.type, ?_, ?_⟩
      · rw [ha₂, ht']
        show ((e₂.groups.push _).setIfInBounds s₀.groups.size _)[g]? = _
        rw [Array.getElem?_setIfInBounds, if_neg (by omega), Array.getElem?_push, if_neg (by omega), eg]
        exact hgt
      · intro j hj
        simp only [List.mem_singleton] at hj
        subst hj
        refine ⟨n1, ?_, hnl1⟩
        rw [ha₂, ht']
        exact hn1

/-- **the shape of the harness's twin workbooks**: the insert row directly follows a plain action
row and is attached to it — at any block depth; the rows after the block may continue from it -/
theorem insert_twin_nodes_follows (na nt : List Str) (pre' post rest : List Event) (q r r₁ : Row)
    (hq : PlainRow q) (hf : Follows q r)
    (he : EntryRow r₁) (hns : noStartL rest = true) (hnn : noNamesL rest = true)
    (hid : okIdsL ((pre' ++ [.row q]) ++ [.insert r (.row r₁ :: rest)] ++ post) = true)
    (hnl : noLooseL post = true)
    (hav : avoidsOpen (defsL (.row r₁ :: rest)) post = true)
    {o₁ o₂ : Out}
    (h₁ : compile na nt ((pre' ++ [.row q]) ++ [.insert r (.row r₁ :: rest)] ++ post) = .ok o₁)
    (h₂ : compile na nt ((pre' ++ [.row q]) ++ twin r (.row r₁ :: rest) ++ post) = .ok o₂) :
    ∃ ρ : Uid → Uid, Injective ρ ∧ o₂.nodes = o₁.nodes.map (rnNode ρ) := by
  have hidp : okIdsL (pre' ++ [.row q]) = true := by
    rw [List.append_assoc, okIdsL_append] at hid
    exact (Bool.and_eq_true_iff.mp hid).1
  exact insert_twin_nodes_open na nt (pre' ++ [.row q]) post rest r r₁ he hns hnn hid
    (tight_of_follows na nt pre' q r r₁ hq hf he hidp) hnl hav h₁ h₂

end Rpft.Compile
