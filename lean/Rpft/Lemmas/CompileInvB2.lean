/-
Layer B at the level of machine states: `BInv` and its behaviour under the group-arena
updates of the machine (attach a node to a group, create a group, append a group to the open
block, push / pop / swap the stack).
-/
import Rpft.Lemmas.CompileInvB
set_option linter.unusedSimpArgs false
set_option linter.unusedVariables false
namespace Rpft.Compile
open Rpft

/-- the nodes a group holds itself (what `add_nodes_to_flow` emits for it) -/
def held : Grp → List Nat
  | .row ns _ => ns
  | .noop _ (some j) => [j]
  | .noop _ none => []
  | .block _ => []

/-- the groups a block holds -/
def kids : Grp → List Nat
  | .block ch => ch
  | _ => []

def heldF (gs : Array Grp) : Nat → Option (List Nat) := fun g => (gs[g]?).map held
def kidsF (gs : Array Grp) : Nat → Option (List Nat) := fun g => (gs[g]?).map kids

theorem mapF_set (f : Grp → List Nat) {gs : Array Grp} {g : Nat} {grp : Grp} (grp' : Grp)
    (hg : gs[g]? = some grp) :
    (fun x => ((gs.setIfInBounds g grp')[x]?).map f) = upd (fun x => (gs[x]?).map f) g (f grp') := by
  have hlt : g < gs.size := (Array.getElem?_eq_some_iff.mp hg).1
  funext x
  simp only [upd, Array.getElem?_setIfInBounds]
  by_cases hx : x = g
  · subst hx; simp [hlt]
  · have : ¬ g = x := fun e => hx e.symm
    simp [hx, this]

theorem mapF_push (f : Grp → List Nat) (gs : Array Grp) (grp : Grp) :
    (fun x => ((gs.push grp)[x]?).map f) = upd (fun x => (gs[x]?).map f) gs.size (f grp) := by
  funext x
  simp only [upd, Array.getElem?_push]
  split <;> simp

theorem heldF_set {gs : Array Grp} {g : Nat} {grp : Grp} (grp' : Grp) (hg : gs[g]? = some grp) :
    heldF (gs.setIfInBounds g grp') = upd (heldF gs) g (held grp') := mapF_set held grp' hg

theorem kidsF_set {gs : Array Grp} {g : Nat} {grp : Grp} (grp' : Grp) (hg : gs[g]? = some grp) :
    kidsF (gs.setIfInBounds g grp') = upd (kidsF gs) g (kids grp') := mapF_set kids grp' hg

theorem heldF_push (gs : Array Grp) (grp : Grp) : heldF (gs.push grp) = upd (heldF gs) gs.size (held grp) :=
  mapF_push held gs grp

theorem kidsF_push (gs : Array Grp) (grp : Grp) : kidsF (gs.push grp) = upd (kidsF gs) gs.size (kids grp) :=
  mapF_push kids gs grp

theorem heldF_size (gs : Array Grp) : heldF gs gs.size = none := by simp [heldF]
theorem kidsF_size (gs : Array Grp) : kidsF gs gs.size = none := by simp [kidsF]

/-- `P` pending nodes, `H` hidden roots, `root` the bottom of the stack (ghost parameters) -/
structure BInvC (P H : Nat → Prop) (root : Nat) (nsz : Nat) (gs : Array Grp) (st : List Nat) : Prop where
  n : NInv P nsz (heldF gs)
  g : GInv (fun x => x ∈ st ∨ H x) gs.size (kidsF gs)
  st : SInv H root st

def BInv (P H : Nat → Prop) (root : Nat) (s : St) : Prop := BInvC P H root s.nodes.size s.groups s.stack

theorem BInv.frame {P H : Nat → Prop} {root : Nat} {s s' : St} (b : BInv P H root s)
    (h1 : s'.groups = s.groups) (h2 : s'.stack = s.stack) (h3 : s'.nodes.size = s.nodes.size) :
    BInv P H root s' := by
  unfold BInv at *; rw [h1, h2, h3]; exact b

/-- a group is overwritten by one that holds the same nodes and groups -/
theorem BInvC.setSame {P H : Nat → Prop} {root nsz : Nat} {gs : Array Grp} {st : List Nat} {g : Nat}
    {grp : Grp} (grp' : Grp) (b : BInvC P H root nsz gs st) (hg : gs[g]? = some grp)
    (hh : held grp' = held grp) (hk : kids grp' = kids grp) :
    BInvC P H root nsz (gs.setIfInBounds g grp') st := by
  refine ⟨?_, ?_, b.st⟩
  · rw [heldF_set grp' hg, hh, upd_same]; exact b.n
    simp [heldF, hg]
  · rw [kidsF_set grp' hg, hk, upd_same, Array.size_setIfInBounds]; exact b.g
    simp [kidsF, hg]

/-- a node is created and put at the end of group `g` -/
theorem BInvC.attach {P H : Nat → Prop} {root nsz : Nat} {gs : Array Grp} {st : List Nat} {g : Nat}
    {grp : Grp} (grp' : Grp) (b : BInvC P H root nsz gs st) (hg : gs[g]? = some grp)
    (hh : held grp' = held grp ++ [nsz]) (hk : kids grp' = kids grp) :
    BInvC P H root (nsz + 1) (gs.setIfInBounds g grp') st := by
  refine ⟨?_, ?_, b.st⟩
  · rw [heldF_set grp' hg, hh]
    exact b.n.attach (by simp [heldF, hg])
  · rw [kidsF_set grp' hg, hk, upd_same, Array.size_setIfInBounds]; exact b.g
    simp [kidsF, hg]

theorem BInvC.pending {P H : Nat → Prop} {root nsz : Nat} {gs : Array Grp} {st : List Nat}
    (b : BInvC P H root nsz gs st) : BInvC (fun x => x = nsz ∨ P x) H root (nsz + 1) gs st :=
  ⟨b.n.pending, b.g, b.st⟩

theorem BInvC.congrH {P H H' : Nat → Prop} {root nsz : Nat} {gs : Array Grp} {st : List Nat}
    (b : BInvC P H root nsz gs st) (hh : ∀ x, H x ↔ H' x) : BInvC P H' root nsz gs st := by
  refine ⟨b.n, b.g.congr (fun x => by rw [hh x]), ⟨b.st.sorted, ?_, b.st.last⟩⟩
  intro x hx hx'; exact b.st.notH x hx ((hh x).mpr hx')

/-- a new group, not yet appended anywhere: it becomes a hidden root -/
theorem BInvC.newGrp {P P' H : Nat → Prop} {root nsz : Nat} {gs : Array Grp} {st : List Nat} (grp : Grp)
    (b : BInvC P' H root nsz gs st) (hk : kids grp = [])
    (hn : NInv P' nsz (heldF gs) → NInv P nsz (upd (heldF gs) gs.size (held grp))) :
    BInvC P (fun x => x = gs.size ∨ H x) root nsz (gs.push grp) st := by
  refine ⟨?_, ?_, ⟨b.st.sorted, ?_, b.st.last⟩⟩
  · rw [heldF_push]; exact hn b.n
  · rw [kidsF_push, hk, Array.size_push]
    refine (b.g.new (kidsF_size gs)).congr ?_
    intro x; constructor
    · rintro (h | h | h)
      · exact .inr (.inl h)
      · exact .inl h
      · exact .inr (.inr h)
    · rintro (h | h | h)
      · exact .inr (.inl h)
      · exact .inl h
      · exact .inr (.inr h)
  · intro x hx
    rintro (h | h)
    · have := b.g.rlt x (.inl hx); omega
    · exact b.st.notH x hx h

/-- `append_node_group`: the hidden root `g` becomes the last child of the innermost open block -/
theorem BInvC.append {P H H' : Nat → Prop} {root nsz : Nat} {gs : Array Grp} {b0 g : Nat} {rest ch : List Nat}
    (b : BInvC P H' root nsz gs (b0 :: rest)) (hb : gs[b0]? = some (.block ch)) (hg : H' g) (hbg : b0 < g)
    (hh : ∀ x, H x ↔ (x ≠ g ∧ H' x)) :
    BInvC P H root nsz (gs.setIfInBounds b0 (.block (ch ++ [g]))) (b0 :: rest) := by
  have hgs : g ∉ b0 :: rest := fun hm => b.st.notH g hm hg
  refine ⟨?_, ?_, ⟨b.st.sorted, ?_, b.st.last⟩⟩
  · rw [heldF_set _ hb, upd_same]; exact b.n
    simp [heldF, hb, held]
  · rw [kidsF_set _ hb, Array.size_setIfInBounds]
    have := b.g.append (b := b0) (g := g) (ch := ch) (by simp [kidsF, hb, kids]) (.inr hg) hbg
    refine this.congr ?_
    intro x; rw [hh x]; constructor
    · rintro ⟨h1, h2 | h2⟩
      · exact .inl h2
      · exact .inr ⟨h1, h2⟩
    · rintro (h | ⟨h1, h2⟩)
      · exact ⟨fun e => hgs (e ▸ h), .inl h⟩
      · exact ⟨h1, .inr h2⟩
  · intro x hx hx'; exact b.st.notH x hx ((hh x).mp hx').2

/-- the stack and the hidden roots are rearranged (push, pop, entering / leaving an inserted
block): the set of roots stays the same -/
theorem BInvC.reroot {P H H' : Nat → Prop} {root root' nsz : Nat} {gs : Array Grp} {st st' : List Nat}
    (b : BInvC P H root nsz gs st) (hr : ∀ x, (x ∈ st ∨ H x) ↔ (x ∈ st' ∨ H' x))
    (hs : SInv H' root' st') : BInvC P H' root' nsz gs st' :=
  ⟨b.n, b.g.congr hr, hs⟩

end Rpft.Compile
