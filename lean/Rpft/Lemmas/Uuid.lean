/-
Helper lemmas for M6 (`Rpft/Uuid.lean`): insertion-ordered dict, `_record_uuid`,
`generate_missing_uuids`, and the invariants of `recordAll` used by `Props/C06.lean`.
-/
import Rpft.Uuid
set_option linter.unusedSimpArgs false
set_option linter.unusedVariables false
set_option linter.unusedSectionVars false
deriving instance DecidableEq for Except

namespace Rpft.Uuid

variable {N U : Type} [DecidableEq N] [DecidableEq U]

/-! ### dict -/

theorem dget_dset_same (d : Dict N U) (n : N) (v : Option U) : dget (dset d n v) n = some v := by
  induction d with
  | nil => simp [dset, dget]
  | cons p t ih =>
    obtain ⟨k, w⟩ := p
    by_cases h : k = n <;> simp [dset, dget, h, ih]

theorem dget_dset_ne (d : Dict N U) {n m : N} (v : Option U) (h : m ≠ n) :
    dget (dset d n v) m = dget d m := by
  induction d with
  | nil => simp [dset, dget, Ne.symm h]
  | cons p t ih =>
    obtain ⟨k, w⟩ := p
    by_cases hk : k = n
    · subst hk; simp [dset, dget, Ne.symm h]
    · by_cases hm : k = m
      · subst hm; simp [dset, dget, hk]
      · simp [dset, dget, hk, hm, ih]

theorem dget_isSome_iff (d : Dict N U) (n : N) : (dget d n).isSome ↔ n ∈ dkeys d := by
  induction d with
  | nil => simp [dget, dkeys]
  | cons p t ih =>
    obtain ⟨k, w⟩ := p
    by_cases h : k = n
    · simp [dget, dkeys, h]
    · simp [dget, dkeys, h, Ne.symm h] at ih ⊢
      simpa [dkeys] using ih

theorem dget_none_iff (d : Dict N U) (n : N) : dget d n = none ↔ n ∉ dkeys d := by
  rw [← dget_isSome_iff]; cases dget d n <;> simp

theorem dkeys_dset (d : Dict N U) (n : N) (v : Option U) :
    dkeys (dset d n v) = if n ∈ dkeys d then dkeys d else dkeys d ++ [n] := by
  induction d with
  | nil => simp [dset, dkeys]
  | cons p t ih =>
    obtain ⟨k, w⟩ := p
    by_cases h : k = n
    · simp [dset, dkeys, h]
    · have ih' : List.map Prod.fst (dset t n v) =
          if n ∈ List.map Prod.fst t then List.map Prod.fst t else List.map Prod.fst t ++ [n] := ih
      simp only [dset, dkeys, h, if_false, List.map_cons, List.mem_cons, Ne.symm h, false_or, ih']
      split <;> simp

theorem dkeys_dset_nodup (d : Dict N U) (n : N) (v : Option U) (h : (dkeys d).Nodup) :
    (dkeys (dset d n v)).Nodup := by
  rw [dkeys_dset]
  split
  · exact h
  · rename_i hn
    rw [List.nodup_append]
    refine ⟨h, by simp, ?_⟩
    intro a ha b hb
    simp at hb; subst hb
    intro hab; subst hab; exact hn ha

/-- with distinct keys, `dget` finds every entry -/
theorem dget_of_mem {d : Dict N U} (h : (dkeys d).Nodup) {n : N} {v : Option U}
    (hm : (n, v) ∈ d) : dget d n = some v := by
  induction d with
  | nil => cases hm
  | cons p t ih =>
    obtain ⟨k, w⟩ := p
    simp only [dkeys, List.map_cons, List.nodup_cons] at h
    rcases List.mem_cons.1 hm with heq | hin
    · cases heq; simp [dget]
    · have hk : k ≠ n := by
        intro hkn; subst hkn
        exact h.1 (List.mem_map.2 ⟨(k, v), hin, rfl⟩)
      simp [dget, hk]
      exact ih h.2 hin

theorem mem_of_dget {d : Dict N U} {n : N} {v : Option U} (h : dget d n = some v) : (n, v) ∈ d := by
  induction d with
  | nil => simp [dget] at h
  | cons p t ih =>
    obtain ⟨k, w⟩ := p
    by_cases hk : k = n
    · simp [dget, hk] at h; subst hk; subst h; simp
    · simp [dget, hk] at h; exact List.mem_cons_of_mem _ (ih h)

/-! ### `_record_uuid` -/

/-- the two ways `_record_uuid` can succeed -/
theorem recordDict_ok {k : Kind} {d d' : Dict N U} {n : N} {g : Option U}
    (h : recordDict k d n g = .ok d') :
    (∃ r, dget d n = some (some r) ∧ (g = none ∨ g = some r) ∧ d' = d) ∨
    ((dget d n = none ∨ dget d n = some none) ∧ d' = dset d n g) := by
  unfold recordDict at h
  split at h
  · rename_i r hr
    left
    cases g with
    | none => simp at h; exact ⟨r, hr, Or.inl rfl, h.symm⟩
    | some u =>
      simp only at h
      split at h
      · cases h
      · rename_i hne
        simp at hne
        cases h
        exact ⟨r, hr, Or.inr (by rw [hne]), rfl⟩
  · rename_i hn
    right
    cases h
    refine ⟨?_, rfl⟩
    cases hd : dget d n with
    | none => exact Or.inl rfl
    | some v =>
      cases v with
      | none => exact Or.inr rfl
      | some r => exact absurd hd (hn r)

/-- when the recorded value is truthy and the new one is absent or equal: nothing happens -/
theorem recordDict_noop {k : Kind} {d : Dict N U} {n : N} {g : Option U} {r : U}
    (hr : dget d n = some (some r)) (hg : g = none ∨ g = some r) : recordDict k d n g = .ok d := by
  unfold recordDict
  rw [hr]
  rcases hg with rfl | rfl <;> simp

/-- conflict: both truthy and different -/
theorem recordDict_conflict {k : Kind} {d : Dict N U} {n : N} {u r : U}
    (hr : dget d n = some (some r)) (hne : u ≠ r) :
    recordDict k d n (some u) = .error (.conflict k n u r) := by
  unfold recordDict
  rw [hr]
  simp [hne]

theorem recordDict_error {k : Kind} {d : Dict N U} {n : N} {g : Option U} {e : Err N U}
    (h : recordDict k d n g = .error e) :
    ∃ u r, g = some u ∧ dget d n = some (some r) ∧ u ≠ r ∧ e = .conflict k n u r := by
  unfold recordDict at h
  split at h
  · rename_i r hr
    cases g with
    | none => simp at h
    | some u =>
      simp only at h
      split at h
      · rename_i hne
        cases h
        exact ⟨u, r, rfl, hr, hne, rfl⟩
      · cases h
  · cases h

theorem recordDict_truthy_mono {k : Kind} {d d' : Dict N U} {n : N} {g : Option U}
    (h : recordDict k d n g = .ok d') {m : N} {u : U} (hm : dget d m = some (some u)) :
    dget d' m = some (some u) := by
  rcases recordDict_ok h with ⟨r, _, _, rfl⟩ | ⟨hf, rfl⟩
  · exact hm
  · by_cases hmn : m = n
    · subst hmn; rcases hf with hf | hf <;> rw [hf] at hm <;> cases hm
    · rw [dget_dset_ne _ _ hmn]; exact hm

theorem recordDict_given {k : Kind} {d d' : Dict N U} {n : N} {u : U}
    (h : recordDict k d n (some u) = .ok d') : dget d' n = some (some u) := by
  rcases recordDict_ok h with ⟨r, hr, hg, rfl⟩ | ⟨_, rfl⟩
  · rcases hg with hg | hg
    · cases hg
    · cases hg; exact hr
  · exact dget_dset_same _ _ _

theorem recordDict_key {k : Kind} {d d' : Dict N U} {n : N} {g : Option U}
    (h : recordDict k d n g = .ok d') : (dget d' n).isSome := by
  rcases recordDict_ok h with ⟨r, hr, _, rfl⟩ | ⟨_, rfl⟩
  · simp [hr]
  · simp [dget_dset_same]

theorem recordDict_keys_mono {k : Kind} {d d' : Dict N U} {n : N} {g : Option U}
    (h : recordDict k d n g = .ok d') {m : N} (hm : (dget d m).isSome) : (dget d' m).isSome := by
  rcases recordDict_ok h with ⟨r, _, _, rfl⟩ | ⟨_, rfl⟩
  · exact hm
  · by_cases hmn : m = n
    · subst hmn; simp [dget_dset_same]
    · rw [dget_dset_ne _ _ hmn]; exact hm

theorem recordDict_keys_bound {k : Kind} {d d' : Dict N U} {n : N} {g : Option U}
    (h : recordDict k d n g = .ok d') {m : N} (hm : (dget d' m).isSome) :
    (dget d m).isSome ∨ m = n := by
  rcases recordDict_ok h with ⟨r, _, _, rfl⟩ | ⟨_, rfl⟩
  · exact Or.inl hm
  · by_cases hmn : m = n
    · exact Or.inr hmn
    · rw [dget_dset_ne _ _ hmn] at hm; exact Or.inl hm

/-- a truthy value in the dict after a record was there before or is the recorded one -/
theorem recordDict_truthy_bound {k : Kind} {d d' : Dict N U} {n : N} {g : Option U}
    (h : recordDict k d n g = .ok d') {m : N} {u : U} (hm : dget d' m = some (some u)) :
    dget d m = some (some u) ∨ (m = n ∧ g = some u) := by
  rcases recordDict_ok h with ⟨r, _, _, rfl⟩ | ⟨_, rfl⟩
  · exact Or.inl hm
  · by_cases hmn : m = n
    · subst hmn; rw [dget_dset_same] at hm; cases hm; exact Or.inr ⟨rfl, rfl⟩
    · rw [dget_dset_ne _ _ hmn] at hm; exact Or.inl hm

theorem recordDict_nodup {k : Kind} {d d' : Dict N U} {n : N} {g : Option U}
    (h : recordDict k d n g = .ok d') (hd : (dkeys d).Nodup) : (dkeys d').Nodup := by
  rcases recordDict_ok h with ⟨r, _, _, rfl⟩ | ⟨_, rfl⟩
  · exact hd
  · exact dkeys_dset_nodup _ _ _ hd

/-! ### state -/

@[simp] theorem St.get_put_same (st : St N U) (k : Kind) (d : Dict N U) : (st.put k d).get k = d := by
  cases k <;> rfl

theorem St.get_put_ne (st : St N U) {k k' : Kind} (d : Dict N U) (h : k' ≠ k) :
    (st.put k d).get k' = st.get k' := by
  cases k <;> cases k' <;> first | rfl | exact absurd rfl h

def Truthy (st : St N U) (k : Kind) (n : N) (u : U) : Prop := dget (st.get k) n = some (some u)
def HasKey (st : St N U) (k : Kind) (n : N) : Prop := (dget (st.get k) n).isSome = true
def WF (st : St N U) : Prop := (dkeys st.flows).Nodup ∧ (dkeys st.groups).Nodup
def AllSome (d : Dict N U) : Prop := ∀ p ∈ d, p.2.isSome = true

theorem WF.get {st : St N U} (h : WF st) (k : Kind) : (dkeys (st.get k)).Nodup := by
  cases k
  · exact h.2
  · exact h.1

theorem WF_empty : WF (St.empty : St N U) := by simp [WF, St.empty, dkeys]

theorem recordOcc_ok {st st' : St N U} {o : Occ N U} (h : recordOcc st o = .ok st') :
    ¬ (o.site = .trigFlow ∧ (dget st.flows o.name).isNone = true) ∧
    ∃ d, recordDict o.kind (st.get o.kind) o.name o.given = .ok d ∧ st' = st.put o.kind d := by
  unfold recordOcc at h
  split at h
  · cases h
  · rename_i hc
    refine ⟨hc, ?_⟩
    split at h
    · rename_i d hd; cases h; exact ⟨d, hd, rfl⟩
    · cases h

theorem recordOcc_truthy_mono {st st' : St N U} {o : Occ N U} (h : recordOcc st o = .ok st')
    {k : Kind} {n : N} {u : U} (ht : Truthy st k n u) : Truthy st' k n u := by
  obtain ⟨_, d, hd, rfl⟩ := recordOcc_ok h
  unfold Truthy at *
  by_cases hk : k = o.kind
  · subst hk; rw [St.get_put_same]; exact recordDict_truthy_mono hd ht
  · rw [St.get_put_ne _ _ hk]; exact ht

theorem recordOcc_keys_mono {st st' : St N U} {o : Occ N U} (h : recordOcc st o = .ok st')
    {k : Kind} {n : N} (ht : HasKey st k n) : HasKey st' k n := by
  obtain ⟨_, d, hd, rfl⟩ := recordOcc_ok h
  unfold HasKey at *
  by_cases hk : k = o.kind
  · subst hk; rw [St.get_put_same]; exact recordDict_keys_mono hd ht
  · rw [St.get_put_ne _ _ hk]; exact ht

theorem recordOcc_key {st st' : St N U} {o : Occ N U} (h : recordOcc st o = .ok st') :
    HasKey st' o.kind o.name := by
  obtain ⟨_, d, hd, rfl⟩ := recordOcc_ok h
  unfold HasKey; rw [St.get_put_same]; exact recordDict_key hd

theorem recordOcc_given {st st' : St N U} {o : Occ N U} (h : recordOcc st o = .ok st') {u : U}
    (hg : o.given = some u) : Truthy st' o.kind o.name u := by
  obtain ⟨_, d, hd, rfl⟩ := recordOcc_ok h
  unfold Truthy; rw [St.get_put_same]; rw [hg] at hd; exact recordDict_given hd

theorem recordOcc_keys_bound {st st' : St N U} {o : Occ N U} (h : recordOcc st o = .ok st')
    {k : Kind} {n : N} (ht : HasKey st' k n) : HasKey st k n ∨ (o.kind = k ∧ o.name = n) := by
  obtain ⟨_, d, hd, rfl⟩ := recordOcc_ok h
  unfold HasKey at *
  by_cases hk : k = o.kind
  · subst hk; rw [St.get_put_same] at ht
    rcases recordDict_keys_bound hd ht with h1 | h1
    · exact Or.inl h1
    · exact Or.inr ⟨rfl, h1.symm⟩
  · rw [St.get_put_ne _ _ hk] at ht; exact Or.inl ht

theorem recordOcc_truthy_bound {st st' : St N U} {o : Occ N U} (h : recordOcc st o = .ok st')
    {k : Kind} {n : N} {u : U} (ht : Truthy st' k n u) :
    Truthy st k n u ∨ (o.kind = k ∧ o.name = n ∧ o.given = some u) := by
  obtain ⟨_, d, hd, rfl⟩ := recordOcc_ok h
  unfold Truthy at *
  by_cases hk : k = o.kind
  · subst hk; rw [St.get_put_same] at ht
    rcases recordDict_truthy_bound hd ht with h1 | ⟨h1, h2⟩
    · exact Or.inl h1
    · exact Or.inr ⟨rfl, h1.symm, h2⟩
  · rw [St.get_put_ne _ _ hk] at ht; exact Or.inl ht

theorem recordOcc_wf {st st' : St N U} {o : Occ N U} (h : recordOcc st o = .ok st') (hw : WF st) :
    WF st' := by
  obtain ⟨_, d, hd, rfl⟩ := recordOcc_ok h
  have := recordDict_nodup hd (hw.get o.kind)
  generalize o.kind = k at this hd
  cases k <;> simp only [WF, St.put]
  · exact ⟨hw.1, this⟩
  · exact ⟨this, hw.2⟩

/-- a record that changes nothing -/
theorem recordOcc_noop {st : St N U} {o : Occ N U} {r : U}
    (hr : Truthy st o.kind o.name r) (hg : o.given = none ∨ o.given = some r) :
    recordOcc st o = .ok st := by
  unfold recordOcc
  have hc : ¬ (o.site = .trigFlow ∧ (dget st.flows o.name).isNone = true) := by
    rintro ⟨hs, hn⟩
    have hk : o.kind = .flow := by simp [Occ.kind, hs, Site.kind]
    unfold Truthy at hr; rw [hk] at hr
    simp only [St.get] at hr
    rw [hr] at hn; simp at hn
  rw [if_neg hc, recordDict_noop hr hg]
  simp only
  cases hk : o.kind <;> simp [St.put] <;> unfold Truthy at hr <;> rfl

/-! ### `recordAll` -/

theorem recordAll_append {st : St N U} {a b : List (Occ N U)} :
    recordAll st (a ++ b) =
      match recordAll st a with
      | .ok st' => recordAll st' b
      | .error e => .error e := by
  induction a generalizing st with
  | nil => simp [recordAll]
  | cons o os ih =>
    simp only [List.cons_append, recordAll]
    cases recordOcc st o with
    | error e => simp
    | ok st1 => simp [ih]

theorem recordAll_truthy_mono {st st' : St N U} {occs : List (Occ N U)}
    (h : recordAll st occs = .ok st') {k : Kind} {n : N} {u : U} (ht : Truthy st k n u) :
    Truthy st' k n u := by
  induction occs generalizing st with
  | nil => simp [recordAll] at h; subst h; exact ht
  | cons o os ih =>
    simp only [recordAll] at h
    cases h1 : recordOcc st o with
    | error e => rw [h1] at h; cases h
    | ok st1 => rw [h1] at h; exact ih h (recordOcc_truthy_mono h1 ht)

theorem recordAll_keys_mono {st st' : St N U} {occs : List (Occ N U)}
    (h : recordAll st occs = .ok st') {k : Kind} {n : N} (ht : HasKey st k n) : HasKey st' k n := by
  induction occs generalizing st with
  | nil => simp [recordAll] at h; subst h; exact ht
  | cons o os ih =>
    simp only [recordAll] at h
    cases h1 : recordOcc st o with
    | error e => rw [h1] at h; cases h
    | ok st1 => rw [h1] at h; exact ih h (recordOcc_keys_mono h1 ht)

theorem recordAll_wf {st st' : St N U} {occs : List (Occ N U)}
    (h : recordAll st occs = .ok st') (hw : WF st) : WF st' := by
  induction occs generalizing st with
  | nil => simp [recordAll] at h; subst h; exact hw
  | cons o os ih =>
    simp only [recordAll] at h
    cases h1 : recordOcc st o with
    | error e => rw [h1] at h; cases h
    | ok st1 => rw [h1] at h; exact ih h (recordOcc_wf h1 hw)

/-- every occurrence's name is a key afterwards, and an explicit uuid is the recorded one -/
theorem recordAll_mem {st st' : St N U} {occs : List (Occ N U)}
    (h : recordAll st occs = .ok st') {o : Occ N U} (ho : o ∈ occs) :
    HasKey st' o.kind o.name ∧ ∀ u, o.given = some u → Truthy st' o.kind o.name u := by
  induction occs generalizing st with
  | nil => cases ho
  | cons p os ih =>
    simp only [recordAll] at h
    cases h1 : recordOcc st p with
    | error e => rw [h1] at h; cases h
    | ok st1 =>
      rw [h1] at h
      rcases List.mem_cons.1 ho with rfl | hin
      · exact ⟨recordAll_keys_mono h (recordOcc_key h1),
          fun u hu => recordAll_truthy_mono h (recordOcc_given h1 hu)⟩
      · exact ih h hin

theorem recordAll_keys_bound {st st' : St N U} {occs : List (Occ N U)}
    (h : recordAll st occs = .ok st') {k : Kind} {n : N} (ht : HasKey st' k n) :
    HasKey st k n ∨ ∃ o ∈ occs, o.kind = k ∧ o.name = n := by
  induction occs generalizing st with
  | nil => simp [recordAll] at h; subst h; exact Or.inl ht
  | cons p os ih =>
    simp only [recordAll] at h
    cases h1 : recordOcc st p with
    | error e => rw [h1] at h; cases h
    | ok st1 =>
      rw [h1] at h
      rcases ih h with h2 | ⟨o, ho, hk, hn⟩
      · rcases recordOcc_keys_bound h1 h2 with h3 | ⟨h3, h4⟩
        · exact Or.inl h3
        · exact Or.inr ⟨p, List.mem_cons_self, h3, h4⟩
      · exact Or.inr ⟨o, List.mem_cons_of_mem _ ho, hk, hn⟩

theorem recordAll_truthy_bound {st st' : St N U} {occs : List (Occ N U)}
    (h : recordAll st occs = .ok st') {k : Kind} {n : N} {u : U} (ht : Truthy st' k n u) :
    Truthy st k n u ∨ ∃ o ∈ occs, o.kind = k ∧ o.name = n ∧ o.given = some u := by
  induction occs generalizing st with
  | nil => simp [recordAll] at h; subst h; exact Or.inl ht
  | cons p os ih =>
    simp only [recordAll] at h
    cases h1 : recordOcc st p with
    | error e => rw [h1] at h; cases h
    | ok st1 =>
      rw [h1] at h
      rcases ih h with h2 | ⟨o, ho, hk, hn, hg⟩
      · rcases recordOcc_truthy_bound h1 h2 with h3 | ⟨h3, h4, h5⟩
        · exact Or.inl h3
        · exact Or.inr ⟨p, List.mem_cons_self, h3, h4, h5⟩
      · exact Or.inr ⟨o, List.mem_cons_of_mem _ ho, hk, hn, hg⟩

theorem recordAll_noop {st : St N U} {occs : List (Occ N U)}
    (h : ∀ o ∈ occs, ∃ r, Truthy st o.kind o.name r ∧ (o.given = none ∨ o.given = some r)) :
    recordAll st occs = .ok st := by
  induction occs with
  | nil => rfl
  | cons p os ih =>
    obtain ⟨r, hr, hg⟩ := h p List.mem_cons_self
    simp only [recordAll, recordOcc_noop hr hg]
    exact ih (fun o ho => h o (List.mem_cons_of_mem _ ho))

/-! ### parse-time records -/

theorem recordPre_inv {st st' : St N U} {pre : List (PreItem N U)}
    (h : recordPre st pre = .ok st') (hw : WF st) :
    WF st' ∧ (∀ k n u, Truthy st k n u → Truthy st' k n u) ∧
    ∀ o, PreItem.own o ∈ pre → ∀ u, o.given = some u → Truthy st' o.kind o.name u := by
  induction pre generalizing st with
  | nil => simp [recordPre] at h; subst h; exact ⟨hw, fun _ _ _ h => h, fun o ho => by cases ho⟩
  | cons p t ih =>
    cases p with
    | own o =>
      simp only [recordPre] at h
      cases h1 : recordOcc st o with
      | error e => rw [h1] at h; cases h
      | ok st1 =>
        rw [h1] at h
        obtain ⟨w, m, g⟩ := ih h (recordOcc_wf h1 hw)
        refine ⟨w, fun k n u ht => m k n u (recordOcc_truthy_mono h1 ht), ?_⟩
        intro o' ho' u hu
        rcases List.mem_cons.1 ho' with heq | hin
        · cases heq; exact m _ _ _ (recordOcc_given h1 hu)
        · exact g o' hin u hu
    | scratch os =>
      simp only [recordPre] at h
      cases h1 : recordAll (St.empty : St N U) os with
      | error e => rw [h1] at h; cases h
      | ok st1 =>
        rw [h1] at h
        obtain ⟨w, m, g⟩ := ih h hw
        refine ⟨w, m, ?_⟩
        intro o' ho' u hu
        rcases List.mem_cons.1 ho' with heq | hin
        · cases heq
        · exact g o' hin u hu

/-! ### `generate_missing_uuids` -/

theorem genDict_truthy (fresh : Nat → U) (d : Dict N U) (c : Nat) {n : N} {u : U}
    (h : dget d n = some (some u)) : dget (genDict fresh d c).1 n = some (some u) := by
  induction d generalizing c with
  | nil => simp [dget] at h
  | cons p t ih =>
    obtain ⟨k, w⟩ := p
    cases w with
    | none =>
      by_cases hk : k = n
      · simp [dget, hk] at h
      · simp [dget, hk] at h; simp [genDict, dget, hk]; exact ih _ h
    | some x =>
      by_cases hk : k = n
      · simp [dget, hk] at h; simp [genDict, dget, hk, h]
      · simp [dget, hk] at h; simp [genDict, dget, hk]; exact ih _ h

theorem genDict_keys (fresh : Nat → U) (d : Dict N U) (c : Nat) :
    dkeys (genDict fresh d c).1 = dkeys d := by
  induction d generalizing c with
  | nil => rfl
  | cons p t ih =>
    obtain ⟨k, w⟩ := p
    cases w with
    | none => simp [genDict, dkeys]; exact ih _
    | some x => simp [genDict, dkeys]; exact ih _

theorem genDict_allSome (fresh : Nat → U) (d : Dict N U) (c : Nat) :
    AllSome (genDict fresh d c).1 := by
  induction d generalizing c with
  | nil => intro p hp; cases hp
  | cons p t ih =>
    obtain ⟨k, w⟩ := p
    cases w with
    | none =>
      intro q hq
      simp only [genDict, List.mem_cons] at hq
      rcases hq with rfl | hq
      · rfl
      · exact ih _ q hq
    | some x =>
      intro q hq
      simp only [genDict, List.mem_cons] at hq
      rcases hq with rfl | hq
      · rfl
      · exact ih _ q hq

theorem genDict_of_allSome (fresh : Nat → U) (d : Dict N U) (c : Nat) (h : AllSome d) :
    genDict fresh d c = (d, c) := by
  induction d generalizing c with
  | nil => rfl
  | cons p t ih =>
    obtain ⟨k, w⟩ := p
    have hw := h (k, w) List.mem_cons_self
    cases w with
    | none => simp at hw
    | some x =>
      simp only [genDict]
      rw [ih c (fun q hq => h q (List.mem_cons_of_mem _ hq))]

/-- with every value truthy, a present key has a truthy value -/
theorem allSome_dget {d : Dict N U} (h : AllSome d) {n : N} (hk : (dget d n).isSome = true) :
    ∃ u, dget d n = some (some u) := by
  cases hd : dget d n with
  | none => rw [hd] at hk; cases hk
  | some v =>
    have := h (n, v) (mem_of_dget hd)
    cases v with
    | none => cases this
    | some u => exact ⟨u, rfl⟩

theorem generateMissing_get (fresh : Nat → U) (st : St N U) (c : Nat) (k : Kind) :
    ∃ c', (generateMissing fresh st c).1.get k = (genDict fresh (st.get k) c').1 := by
  cases k
  · exact ⟨(genDict fresh st.flows c).2, rfl⟩
  · exact ⟨c, rfl⟩

theorem generateMissing_truthy (fresh : Nat → U) {st : St N U} (c : Nat) {k : Kind} {n : N} {u : U}
    (h : Truthy st k n u) : Truthy (generateMissing fresh st c).1 k n u := by
  obtain ⟨c', hc⟩ := generateMissing_get fresh st c k
  unfold Truthy; rw [hc]; exact genDict_truthy fresh _ _ h

theorem generateMissing_keys (fresh : Nat → U) (st : St N U) (c : Nat) (k : Kind) :
    dkeys ((generateMissing fresh st c).1.get k) = dkeys (st.get k) := by
  obtain ⟨c', hc⟩ := generateMissing_get fresh st c k
  rw [hc]; exact genDict_keys fresh _ _

theorem generateMissing_allSome (fresh : Nat → U) (st : St N U) (c : Nat) (k : Kind) :
    AllSome ((generateMissing fresh st c).1.get k) := by
  obtain ⟨c', hc⟩ := generateMissing_get fresh st c k
  rw [hc]; exact genDict_allSome fresh _ _

theorem generateMissing_hasKey (fresh : Nat → U) {st : St N U} (c : Nat) {k : Kind} {n : N} :
    HasKey (generateMissing fresh st c).1 k n ↔ HasKey st k n := by
  unfold HasKey
  rw [dget_isSome_iff, dget_isSome_iff, generateMissing_keys]

theorem generateMissing_wf (fresh : Nat → U) {st : St N U} (c : Nat) (h : WF st) :
    WF (generateMissing fresh st c).1 := by
  have hf := generateMissing_keys fresh st c .flow
  have hg := generateMissing_keys fresh st c .group
  simp only [St.get] at hf hg
  exact ⟨by rw [hf]; exact h.1, by rw [hg]; exact h.2⟩

theorem generateMissing_fix (fresh : Nat → U) (st : St N U) (c : Nat)
    (hf : AllSome st.flows) (hg : AllSome st.groups) : generateMissing fresh st c = (st, c) := by
  unfold generateMissing
  simp [genDict_of_allSome fresh _ _ hf, genDict_of_allSome fresh _ _ hg]

/-! ### anatomy of a successful run -/

theorem runOccs_ok {fresh : Nat → U} {st : St N U} {nx : Nat} {occs : List (Occ N U)} {out : Out N U}
    (h : runOccs fresh st nx occs = .ok out) :
    ∃ st1, recordAll st occs = .ok st1 ∧
      out.st = (generateMissing fresh st1 nx).1 ∧ out.next = (generateMissing fresh st1 nx).2 ∧
      out.groups = out.st.groups ∧
      out.occs = (occs.filter (fun o => inOutput o.site)).map (assignOcc out.st) := by
  unfold runOccs at h
  cases h1 : recordAll st occs with
  | error e => rw [h1] at h; cases h
  | ok st1 =>
    rw [h1] at h
    simp only at h
    cases h
    exact ⟨st1, rfl, rfl, rfl, rfl, rfl⟩

theorem lookup_of_truthy {st : St N U} {k : Kind} {n : N} {u : U} (h : Truthy st k n u) :
    lookup st k n = some u := by
  unfold lookup; unfold Truthy at h; rw [h]; rfl

/-! ### the validated container re-flattens to `reOccs` -/

theorem filter_const_true {α : Type} (l : List α) : l.filter (fun _ => true) = l := by
  induction l with
  | nil => rfl
  | cons a t ih => simp [List.filter_cons, ih]

theorem filter_map_nodeOccs (st : St N U) (nd : NodeRefs N U) :
    ((nodeOccs nd).filter (fun o => inOutput o.site)).map (assignOcc st) =
    nodeOccs { actions := nd.actions.map (fun a => (a.1, a.2.assign st a.1))
               cases := nd.cases.map (fun r => r.assign st .group) } := by
  simp [nodeOccs, List.filter_append, List.filter_map, List.map_append, Function.comp_def,
    inOutput, assignOcc, assignable, Ref.assign, Occ.kind, Site.kind, filter_const_true]

theorem filter_map_campaignOccs (st : St N U) (cp : CampaignC N U) :
    ((campaignOccs cp).filter (fun o => inOutput o.site)).map (assignOcc st) =
    campaignOccs { events := cp.events.map (fun e => { e with flow := e.flow.assign st .flow })
                   group := cp.group.assign st .group } := by
  simp [campaignOccs, List.filter_append, List.filter_map, List.map_append, Function.comp_def,
    inOutput, assignOcc, assignable, Ref.assign, Occ.kind, Site.kind, filter_const_true]

theorem filter_map_triggerOccs (st : St N U) (t : TriggerC N U) :
    ((triggerOccs t).filter (fun o => inOutput o.site)).map (assignOcc st) =
    triggerOccs { flow := t.flow.assign st .flow
                  groups := t.groups.map (fun r => r.assign st .group)
                  exclude := t.exclude.map (fun r => r.assign st .group) } := by
  simp [triggerOccs, List.filter_append, List.filter_map, List.map_append, Function.comp_def,
    inOutput, assignOcc, assignable, Ref.assign, Occ.kind, Site.kind, filter_const_true]

theorem filter_map_flatMap {α : Type} (st : St N U) (l : List α) (f g : α → List (Occ N U))
    (h : ∀ a, ((f a).filter (fun o => inOutput o.site)).map (assignOcc st) = g a) :
    ((l.flatMap f).filter (fun o => inOutput o.site)).map (assignOcc st) = l.flatMap g := by
  induction l with
  | nil => rfl
  | cons a t ih => simp [List.flatMap_cons, List.filter_append, h, ih]

theorem occsOf_validated (st : St N U) (c : Container N U) :
    occsOf (c.validated st) =
      (groupList st).map (fun p => (⟨p.1, p.2, .groupList⟩ : Occ N U)) ++
      ((occsOf c).filter (fun o => inOutput o.site)).map (assignOcc st) := by
  unfold occsOf Container.validated
  simp only [List.filter_append, List.map_append, List.append_assoc]
  have e1 : ((c.groups.map (fun r => (⟨r.name, r.given, .groupList⟩ : Occ N U))).filter
      (fun o => inOutput o.site)).map (assignOcc st) = [] := by
    simp [List.filter_map, Function.comp_def, inOutput]
  have e2 : ((c.flows.map (fun f => (⟨f.name, f.uuid, .flowDef⟩ : Occ N U))).filter
      (fun o => inOutput o.site)).map (assignOcc st) =
      c.flows.map (fun f => (⟨f.name, f.uuid, .flowDef⟩ : Occ N U)) := by
    simp [List.filter_map, Function.comp_def, inOutput, assignOcc, assignable, filter_const_true]
  rw [e1, e2]
  rw [filter_map_flatMap st c.flows _ _ (fun f => filter_map_flatMap st f.nodes _ _ (filter_map_nodeOccs st))]
  rw [filter_map_flatMap st c.campaigns _ _ (filter_map_campaignOccs st)]
  rw [filter_map_flatMap st c.triggers _ _ (filter_map_triggerOccs st)]
  simp [List.map_map, List.flatMap_map, Function.comp_def]
end Rpft.Uuid
