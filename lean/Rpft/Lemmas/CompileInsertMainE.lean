/-
Assembly, part E: the final correspondence (a block swap on identifiers and on node indices, the
shift by the begin row's `no_op` group on group indices), glued from the correspondence inside
the block and the one for the edges into the block.
-/
import Rpft.Lemmas.CompileInsertMainD
set_option linter.unusedVariables false
set_option linter.unusedSimpArgs false
set_option linter.unusedSectionVars false
namespace Rpft.Compile
open Rpft Function

/-- `[A, B)` moves up by `m`, `[B, B + m)` moves down to `[A, A + m)`, everything else stays -/
def swapFrom (A B m : Nat) (x : Nat) : Nat :=
  if x < A then x else if x < B then x + m else if x < B + m then x - (B - A) else x

theorem swapFrom_injective {A B m : Nat} (h : A ≤ B) : Injective (swapFrom A B m) := by
  intro x y e
  unfold swapFrom at e
  by_cases h1 : x < A <;> by_cases h2 : x < B <;> by_cases h3 : x < B + m <;>
  by_cases h4 : y < A <;> by_cases h5 : y < B <;> by_cases h6 : y < B + m <;>
  simp only [h1, h2, h3, h4, h5, h6, if_true, if_false] at e <;> omega

theorem swapFrom_lt {A B m x : Nat} (h : x < A) : swapFrom A B m x = x := by simp [swapFrom, h]
theorem swapFrom_mid {A B m x : Nat} (h1 : A ≤ x) (h2 : x < B) : swapFrom A B m x = x + m := by
  have : ¬ x < A := by omega
  simp [swapFrom, this, h2]
theorem swapFrom_hi {A B m x : Nat} (h0 : A ≤ B) (h1 : B ≤ x) (h2 : x < B + m) : swapFrom A B m x = x - (B - A) := by
  have a : ¬ x < A := by omega
  have b : ¬ x < B := by omega
  simp [swapFrom, a, b, h2]
theorem swapFrom_ge {A B m x : Nat} (h0 : A ≤ B) (h1 : B + m ≤ x) : swapFrom A B m x = x := by
  have a : ¬ x < A := by omega
  have b : ¬ x < B := by omega
  have c : ¬ x < B + m := by omega
  simp [swapFrom, a, b, c]

/-- the final correspondence -/
noncomputable def PF (na nt : List Str) (s₀ : St) (kk : Nat) (e₂ b₁ x₁ y₂ : St) : Params := { ρ := rhoOf (swapFrom (s₀.next + kk) b₁.next (e₂.next - (s₀.next + kk))), ν := swapFrom (s₀.nodes.size + 1) b₁.nodes.size (e₂.nodes.size - (s₀.nodes.size + 1)), γ := shiftFrom (s₀.groups.size + 1) 1, DN := fun _ => True, DG := fun _ => True, T := fun j => j = s₀.groups.size ∨ j = 0, bx := s₀.groups.size, gx := s₀.groups.size + 1, base₁ := x₁, base₂ := y₂, hb := True, sp := true, na := na, nt := nt }

theorem PF_ok (na nt : List Str) (s₀ : St) (kk : Nat) (e₂ b₁ x₁ y₂ : St) (h1 : s₀.next + kk ≤ b₁.next)
    (h2 : s₀.nodes.size + 1 ≤ b₁.nodes.size) : (PF na nt s₀ kk e₂ b₁ x₁ y₂).Ok :=
  ⟨rhoOf_injective (swapFrom_injective h1), swapFrom_injective h2, shiftFrom_injective _ _, fun _ _ => .inl rfl,
    fun x hx => rhoOf_plain _ hx, fun h => Bool.noConfusion h⟩

section
variable {na nt : List Str} {s₀ : St} {kk : Nat} {e₂ b₁ b₂ x₁ y₂ a₁ a₂ t₂ w₁ : St}

/-- counters and sizes after both phases -/
structure Sizes (s₀ : St) (kk : Nat) (e₂ b₁ b₂ x₁ : St) : Prop where
  AB : s₀.next + kk ≤ b₁.next
  AE : s₀.next + kk ≤ e₂.next
  AB' : s₀.nodes.size + 1 ≤ b₁.nodes.size
  AE' : s₀.nodes.size + 1 ≤ e₂.nodes.size
  gE : e₂.groups.size = s₀.groups.size + 2
  gB : s₀.groups.size + 2 ≤ b₁.groups.size
  b2next : b₂.next = b₁.next + (e₂.next - (s₀.next + kk))
  b2nodes : b₂.nodes.size = b₁.nodes.size + (e₂.nodes.size - (s₀.nodes.size + 1))
  b2groups : b₂.groups.size = b₁.groups.size + 1
  x1next : x₁.next = b₁.next + (e₂.next - (s₀.next + kk))
  x1nodes : x₁.nodes.size = b₁.nodes.size + (e₂.nodes.size - (s₀.nodes.size + 1))
  x1groups : x₁.groups.size = b₁.groups.size

theorem sizes_of (hR : ASim (PR na nt s₀ kk e₂ a₁ a₂) b₁ b₂) (hE : ASim (PE na nt s₀ kk b₁ t₂ w₁) e₂ x₁)
    (AB : s₀.next + kk ≤ b₁.next) (AE : s₀.next + kk ≤ e₂.next)
    (AB' : s₀.nodes.size + 1 ≤ b₁.nodes.size) (AE' : s₀.nodes.size + 1 ≤ e₂.nodes.size)
    (gE : e₂.groups.size = s₀.groups.size + 2) (gB : s₀.groups.size + 2 ≤ b₁.groups.size) :
    Sizes s₀ kk e₂ b₁ b₂ x₁ := by
  refine ⟨AB, AE, AB', AE', gE, gB, ?_, ?_, ?_, ?_, ?_, ?_⟩
  · have := hR.idsync 0
    simp only [Nat.add_zero] at this
    have e : (PR na nt s₀ kk e₂ a₁ a₂).ρ (tid b₁.next) = tid (b₁.next + (e₂.next - (s₀.next + kk))) := by
      show rhoOf _ _ = _
      rw [rhoOf_tid, shiftFrom_ge AB]
    rw [e] at this
    exact (tid_inj.mp this).symm
  · have := hR.nsync 0
    simp only [Nat.add_zero] at this
    have e : (PR na nt s₀ kk e₂ a₁ a₂).ν b₁.nodes.size = b₁.nodes.size + (e₂.nodes.size - (s₀.nodes.size + 1)) :=
      shiftFrom_ge AB'
    rw [e] at this; exact this.symm
  · have := hR.gsync 0
    simp only [Nat.add_zero] at this
    have e : (PR na nt s₀ kk e₂ a₁ a₂).γ b₁.groups.size = b₁.groups.size + (e₂.groups.size - (s₀.groups.size + 1)) :=
      shiftFrom_ge (by omega)
    rw [e] at this; omega
  · have := hE.idsync 0
    simp only [Nat.add_zero] at this
    have e : (PE na nt s₀ kk b₁ t₂ w₁).ρ (tid e₂.next) = tid (e₂.next + (b₁.next - (s₀.next + kk))) := by
      show rhoOf _ _ = _
      rw [rhoOf_tid, shiftFrom_ge AE]
    rw [e] at this
    have := tid_inj.mp this
    omega
  · have := hE.nsync 0
    simp only [Nat.add_zero] at this
    have e : (PE na nt s₀ kk b₁ t₂ w₁).ν e₂.nodes.size = e₂.nodes.size + (b₁.nodes.size - (s₀.nodes.size + 1)) :=
      shiftFrom_ge AE'
    rw [e] at this; omega
  · have := hE.gsync 0
    simp only [Nat.add_zero] at this
    have e : (PE na nt s₀ kk b₁ t₂ w₁).γ e₂.groups.size = e₂.groups.size + (b₁.groups.size - (s₀.groups.size + 2)) :=
      shiftFrom_ge (by omega)
    rw [e] at this; omega

theorem arr_some_of_lt {α : Type} {a : Array α} {i : Nat} (h : i < a.size) : ∃ x, a[i]? = some x :=
  ⟨a[i], by simp [h]⟩

theorem arr_lt_of_some {α : Type} {a : Array α} {i : Nat} {x : α} (h : a[i]? = some x) : i < a.size :=
  (Array.getElem?_eq_some_iff.mp h).1

theorem map_eq_self {α : Type} {l : List α} {f : α → α} (h : ∀ x ∈ l, f x = x) : l.map f = l := by
  rw [List.map_congr_left (g := id) h]; simp

theorem grefs_mapGrpAt_ne (P : Params) {j : Nat} (h : j ≠ P.bx ∨ P.sp = false) (g : Grp) :
    grefs (mapGrpAt P j g) = (grefs g).map P.γ := by
  cases g with
  | row ns t => rfl
  | noop ps r => simp [mapGrpAt, mapGrp, grefs, List.map_map, Function.comp_def]
  | block cs => rw [mapGrpAt_block_ne P h]; rfl

theorem asimF_glue
    (hR : ASim (PR na nt s₀ kk e₂ a₁ a₂) b₁ b₂) (hE : ASim (PE na nt s₀ kk b₁ t₂ w₁) e₂ x₁)
    (hs : Sizes s₀ kk e₂ b₁ b₂ x₁)
    (ha2n : a₂.nodes = e₂.nodes)
    (ha2g : ∀ j, j ≠ s₀.groups.size → j < s₀.groups.size + 2 → a₂.groups[j]? = e₂.groups[j]?)
    (hw1n : w₁.nodes = b₁.nodes) (hw1g : w₁.groups = b₁.groups)
    (hy1 : y₂.nodes = b₂.nodes) (hy2 : y₂.groups = b₂.groups) (hy3 : y₂.next = b₂.next)
    (hy4 : y₂.noArgs = b₂.noArgs) (hy5 : y₂.testTypes = b₂.testTypes)
    (hidb : ∀ (i : Nat) (m : NodeM), b₁.nodes[i]? = some m → ∀ x ∈ m.allIds, IdOk b₁.next x)
    (hidx : ∀ (i : Nat) (m : NodeM), x₁.nodes[i]? = some m → ∀ x ∈ m.allIds, IdOk x₁.next x)
    (hwfx : ∀ (j : Nat) (g : Grp), x₁.groups[j]? = some g →
      (∀ i ∈ gnodes g, i < x₁.nodes.size) ∧ (∀ x ∈ grefs g, x < x₁.groups.size))
    (hdexx : ∀ (i : Nat) (n : NodeM), x₁.nodes[i]? = some n → Below x₁.next n.dexitUid ∨ ¬ Invented n.dexitUid)
    (hra0 : ∀ (j : Nat) (g : Grp), j ≠ 0 → x₁.groups[j]? = some g → ∀ x ∈ grefs g, x ≠ 0) :
    ASim (PF na nt s₀ kk e₂ b₁ x₁ y₂) x₁ y₂ := by
  -- abbreviations
  have hq : e₂.nodes.size - (s₀.nodes.size + 1) + (s₀.nodes.size + 1) = e₂.nodes.size := by have := hs.AE'; omega
  -- the body part of the insert side is what the nested parser left
  have xbn : ∀ i, s₀.nodes.size ≤ i → i < b₁.nodes.size → x₁.nodes[i]? = b₁.nodes[i]? := by
    intro i h1 h2
    rw [hE.fr2n i ?_]
    · show w₁.nodes[i]? = _; rw [hw1n]
    · intro i₀ hd e
      have hd' : i₀ ≠ s₀.nodes.size := hd
      have e' : shiftFrom (s₀.nodes.size + 1) (b₁.nodes.size - (s₀.nodes.size + 1)) i₀ = i := e
      unfold shiftFrom at e'
      split at e' <;> omega
  have xbg : ∀ j, s₀.groups.size ≤ j → j < b₁.groups.size → x₁.groups[j]? = b₁.groups[j]? := by
    intro j h1 h2
    rw [hE.fr2g j ?_]
    · show w₁.groups[j]? = _; rw [hw1g]
    · intro j₀ hd e
      have e' : shiftFrom (s₀.groups.size + 2) (b₁.groups.size - (s₀.groups.size + 2)) j₀ = j := e
      have hd' : j₀ < s₀.groups.size ∨ s₀.groups.size + 2 ≤ j₀ := hd
      unfold shiftFrom at e'
      split at e' <;> omega
  -- the part of the twin outside the block is what the edges into the block left
  have ybn : ∀ i, i ≠ s₀.nodes.size → i < e₂.nodes.size → b₂.nodes[i]? = e₂.nodes[i]? := by
    intro i h1 h2
    rw [hR.fr2n i ?_]
    · show a₂.nodes[i]? = _; rw [ha2n]
    · intro i₀ hd e
      have hd' : s₀.nodes.size ≤ i₀ := hd
      have e' : shiftFrom (s₀.nodes.size + 1) (e₂.nodes.size - (s₀.nodes.size + 1)) i₀ = i := e
      unfold shiftFrom at e'
      split at e' <;> omega
  have ybg : ∀ j, j ≠ s₀.groups.size → j < s₀.groups.size + 2 → b₂.groups[j]? = e₂.groups[j]? := by
    intro j h1 h2
    rw [hR.fr2g j ?_]
    · exact ha2g j h1 h2
    · intro j₀ hd e
      have hd' : s₀.groups.size ≤ j₀ := hd
      have e' : shiftFrom (s₀.groups.size + 1) (e₂.groups.size - (s₀.groups.size + 1)) j₀ = j := e
      have := hs.gE
      unfold shiftFrom at e'
      split at e' <;> omega
  constructor
  · exact hE.na₂
  · rw [hy4]; exact hR.na₂
  · exact hE.nt₂
  · rw [hy5]; exact hR.nt₂
  · exact ⟨Nat.le_refl _, Nat.le_refl _, Nat.le_refl _⟩
  · exact ⟨Nat.le_refl _, Nat.le_refl _, Nat.le_refl _⟩
  · intro k
    show rhoOf _ (tid (x₁.next + k)) = tid (y₂.next + k)
    rw [rhoOf_tid, hy3, hs.b2next, hs.x1next, swapFrom_ge hs.AB (by omega)]
  · intro k
    show swapFrom _ _ _ (x₁.nodes.size + k) = y₂.nodes.size + k
    rw [hy1, hs.b2nodes, hs.x1nodes, swapFrom_ge hs.AB' (by omega)]
  · intro k
    show shiftFrom _ _ (x₁.groups.size + k) = y₂.groups.size + k
    rw [hy2, hs.b2groups, hs.x1groups, shiftFrom_ge (by have := hs.gB; omega)]; omega
  · intro _ _; trivial
  · intro j hj
    rw [hs.x1groups] at hj
    refine ⟨trivial, ?_⟩
    have := hs.gB
    show ¬ (j = s₀.groups.size ∨ j = 0)
    omega
  · rw [hs.x1groups]; have := hs.gB; show s₀.groups.size < _; omega
  · intro _
    obtain ⟨c, cs, hc⟩ := hR.bne trivial
    refine ⟨c, cs, ?_⟩
    show x₁.groups[s₀.groups.size]? = _
    rw [xbg s₀.groups.size (Nat.le_refl _) (by have := hs.gB; omega)]
    exact hc
  · exact hwfx
  · exact hdexx
  · -- nodes
    intro i m _ hm
    have hil : i < x₁.nodes.size := arr_lt_of_some hm
    rw [hs.x1nodes] at hil
    show y₂.nodes[swapFrom _ _ _ i]? = some (rnNode (rhoOf _) m)
    rw [hy1]
    by_cases hbody : s₀.nodes.size ≤ i ∧ i < b₁.nodes.size
    · -- a node created inside the block
      obtain ⟨h1, h2⟩ := hbody
      rw [xbn i h1 h2] at hm
      have hrn := hR.nodes i m h1 hm
      have eν : swapFrom (s₀.nodes.size + 1) b₁.nodes.size (e₂.nodes.size - (s₀.nodes.size + 1)) i =
          (PR na nt s₀ kk e₂ a₁ a₂).ν i := by
        show _ = shiftFrom _ _ i
        rcases Nat.lt_or_ge i (s₀.nodes.size + 1) with h3 | h3
        · rw [swapFrom_lt h3, shiftFrom_lt h3]
        · rw [swapFrom_mid h3 h2, shiftFrom_ge h3]
      rw [eν, hrn]
      congr 1
      apply rnNode_congr
      intro x hx
      show rhoOf _ x = rhoOf _ x
      apply rhoOf_congr
      intro k hk
      rcases hidb i m hm x hx with ⟨k', hk', e⟩ | hp
      · have : k = k' := tid_inj.mp (hk ▸ e)
        subst this
        rcases Nat.lt_or_ge k (s₀.next + kk) with h3 | h3
        · rw [shiftFrom_lt h3, swapFrom_lt h3]
        · rw [shiftFrom_ge h3, swapFrom_mid h3 hk']
      · exact absurd (hk ▸ invented_tid k) hp
    · -- a node from before the block, or created by an edge into the block
      have hout : i < s₀.nodes.size ∨ b₁.nodes.size ≤ i := by
        rcases Nat.lt_or_ge i s₀.nodes.size with h | h
        · exact .inl h
        · rcases Nat.lt_or_ge i b₁.nodes.size with h' | h'
          · exact absurd ⟨h, h'⟩ hbody
          · exact .inr h'
      -- its index on the twin's side
      let i₀ := swapFrom (s₀.nodes.size + 1) b₁.nodes.size (e₂.nodes.size - (s₀.nodes.size + 1)) i
      have hi₀ : i₀ ≠ s₀.nodes.size ∧ i₀ < e₂.nodes.size ∧
          shiftFrom (s₀.nodes.size + 1) (b₁.nodes.size - (s₀.nodes.size + 1)) i₀ = i := by
        show swapFrom _ _ _ i ≠ _ ∧ swapFrom _ _ _ i < _ ∧ shiftFrom _ _ (swapFrom _ _ _ i) = i
        rcases hout with h | h
        · rw [swapFrom_lt (by omega)]
          exact ⟨by omega, by have := hs.AE'; omega, shiftFrom_lt (by omega)⟩
        · rw [swapFrom_hi hs.AB' h hil]
          have := hs.AB'; have := hs.AE'
          refine ⟨by omega, by omega, ?_⟩
          rw [shiftFrom_ge (by omega)]; omega
      obtain ⟨m₀, hm₀⟩ := arr_some_of_lt hi₀.2.1
      have hrel := hE.nodes i₀ m₀ hi₀.1 hm₀
      have eν : (PE na nt s₀ kk b₁ t₂ w₁).ν i₀ = i := hi₀.2.2
      rw [eν, hm] at hrel
      injection hrel with hrel
      -- m = rnNode ρ_E m₀
      rw [ybn i₀ hi₀.1 hi₀.2.1, hm₀]
      congr 1
      -- m₀ = rnNode ρ_fin m
      have hinv : rnNode (rhoOf (unshiftFrom (s₀.next + kk) (b₁.next - (s₀.next + kk)))) m = m₀ := by
        rw [hrel]
        exact rnNode_inv (fun x => rhoOf_leftInv (unshift_shift _ _) x) m₀
      rw [← hinv]
      apply rnNode_congr
      intro x hx
      apply rhoOf_congr
      intro k hk
      -- the identifiers of `m` are images under the shift, and below the counter
      have himg : ∃ x₀ ∈ m₀.allIds, x = (PE na nt s₀ kk b₁ t₂ w₁).ρ x₀ := by
        rw [hrel] at hx; exact allIds_rnNode m₀ x hx
      obtain ⟨x₀, _, hx₀⟩ := himg
      have hbelow : k < x₁.next := by
        rcases hidx i m hm x hx with ⟨k', hk', e⟩ | hp
        · have : k = k' := tid_inj.mp (hk ▸ e)
          omega
        · exact absurd (hk ▸ invented_tid k) hp
      rw [hs.x1next] at hbelow
      -- k is not in the range of the identifiers drawn inside the block
      have hrange : k < s₀.next + kk ∨ b₁.next ≤ k := by
        have hx₀' : tid k = rhoOf (shiftFrom (s₀.next + kk) (b₁.next - (s₀.next + kk))) x₀ := hk ▸ hx₀
        cases hu : untid x₀ with
        | none =>
          have : rhoOf (shiftFrom (s₀.next + kk) (b₁.next - (s₀.next + kk))) x₀ = x₀ := by
            unfold rhoOf; rw [hu]
          rw [this] at hx₀'
          rw [← hx₀', untid_tid] at hu; cases hu
        | some k₀ =>
          rw [untid_some hu, rhoOf_tid] at hx₀'
          have := tid_inj.mp hx₀'
          rw [this]
          unfold shiftFrom
          have := hs.AB
          split <;> omega
      rcases hrange with h | h
      · show unshiftFrom _ _ k = swapFrom _ _ _ k
        rw [swapFrom_lt h]
        simp [unshiftFrom, h]
      · show unshiftFrom _ _ k = swapFrom _ _ _ k
        rw [swapFrom_hi hs.AB h hbelow]
        have : ¬ k < s₀.next + kk := by have := hs.AB; omega
        simp [unshiftFrom, this]
  · -- groups
    intro j g _ hgj
    have hjl : j < x₁.groups.size := arr_lt_of_some hgj
    rw [hs.x1groups] at hjl
    show y₂.groups[shiftFrom (s₀.groups.size + 1) 1 j]? = some (mapGrpAt (PF na nt s₀ kk e₂ b₁ x₁ y₂) j g)
    rw [hy2]
    have hγR : (PR na nt s₀ kk e₂ a₁ a₂).γ = shiftFrom (s₀.groups.size + 1) 1 := by
      show shiftFrom _ (e₂.groups.size - (s₀.groups.size + 1)) = _
      rw [hs.gE]
      congr 1; omega
    by_cases hbody : s₀.groups.size ≤ j
    · rw [xbg j hbody hjl] at hgj
      have hrg := hR.groups j g hbody hgj
      rw [hγR] at hrg
      rw [hrg]
      congr 1
      have hwf := hR.wf j g hgj
      have hν : ∀ i, i < b₁.nodes.size → (PR na nt s₀ kk e₂ a₁ a₂).ν i = (PF na nt s₀ kk e₂ b₁ x₁ y₂).ν i := by
        intro i hi
        show shiftFrom _ _ i = swapFrom _ _ _ i
        rcases Nat.lt_or_ge i (s₀.nodes.size + 1) with h3 | h3
        · rw [swapFrom_lt h3, shiftFrom_lt h3]
        · rw [swapFrom_mid h3 hi, shiftFrom_ge h3]
      cases g with
      | row ns t =>
        show Grp.row (ns.map _) t = Grp.row (ns.map _) t
        congr 1
        apply List.map_congr_left
        intro i hi
        exact hν i (hwf.1 i (by simpa [gnodes] using hi))
      | noop ps r =>
        show Grp.noop (ps.map fun p => ((PR na nt s₀ kk e₂ a₁ a₂).γ p.1, p.2)) (r.map _) =
          Grp.noop (ps.map fun p => (shiftFrom (s₀.groups.size + 1) 1 p.1, p.2)) (r.map _)
        rw [hγR]
        congr 1
        cases r with
        | none => rfl
        | some i =>
          simp only [Option.map_some]
          rw [hν i (hwf.1 i (by simp [gnodes]))]
      | block cs =>
        unfold mapGrpAt
        simp only []
        rw [hγR]
        rfl
    · -- a group from before the block
      have hj : j < s₀.groups.size := by omega
      obtain ⟨g₀, hg₀⟩ := arr_some_of_lt (a := e₂.groups) (i := j) (by rw [hs.gE]; omega)
      have hrel := hE.groups j g₀ (.inl hj) hg₀
      have eγ : (PE na nt s₀ kk b₁ t₂ w₁).γ j = j := shiftFrom_lt (by omega)
      rw [eγ, hgj] at hrel
      injection hrel with hrel
      rw [shiftFrom_lt (by omega), ybg j (by omega) (by omega), hg₀]
      congr 1
      have hwf := hE.wf j g₀ hg₀
      have hcl := hE.closed j g₀ (.inl hj) hg₀
      have hrefs : ∀ x ∈ grefs g₀, x < s₀.groups.size := by
        intro x hx
        have h1 := hwf.2 x hx
        rw [hs.gE] at h1
        rcases hcl.2 x hx with h2 | h2 <;> omega
      have hνν : ∀ i, i < e₂.nodes.size → (PF na nt s₀ kk e₂ b₁ x₁ y₂).ν ((PE na nt s₀ kk b₁ t₂ w₁).ν i) = i := by
        intro i hi
        show swapFrom _ _ _ (shiftFrom _ _ i) = i
        have := hs.AB'; have := hs.AE'
        rcases Nat.lt_or_ge i (s₀.nodes.size + 1) with h3 | h3
        · rw [shiftFrom_lt h3, swapFrom_lt h3]
        · rw [shiftFrom_ge h3, swapFrom_hi hs.AB' (by omega) (by omega)]; omega
      have hγγ : ∀ x, x < s₀.groups.size → (PF na nt s₀ kk e₂ b₁ x₁ y₂).γ ((PE na nt s₀ kk b₁ t₂ w₁).γ x) = x := by
        intro x hx
        show shiftFrom _ _ (shiftFrom _ _ x) = x
        rw [shiftFrom_lt (a := s₀.groups.size + 2) (by omega), shiftFrom_lt (by omega)]
      have hne1 : j ≠ (PE na nt s₀ kk b₁ t₂ w₁).bx := by show j ≠ s₀.groups.size; omega
      have hne2 : j ≠ (PF na nt s₀ kk e₂ b₁ x₁ y₂).bx := by show j ≠ s₀.groups.size; omega
      rw [hrel]
      cases g₀ with
      | row ns t =>
        show Grp.row ns t = Grp.row ((ns.map _).map _) t
        congr 1
        rw [List.map_map]
        symm
        apply map_eq_self
        intro i hi
        exact hνν i (hwf.1 i (by simpa [gnodes] using hi))
      | noop ps r =>
        show Grp.noop ps r = Grp.noop ((ps.map fun p => ((PE na nt s₀ kk b₁ t₂ w₁).γ p.1, p.2)).map
          fun p => ((PF na nt s₀ kk e₂ b₁ x₁ y₂).γ p.1, p.2)) ((r.map _).map _)
        have h1 : (ps.map fun p => ((PE na nt s₀ kk b₁ t₂ w₁).γ p.1, p.2)).map
            (fun p => ((PF na nt s₀ kk e₂ b₁ x₁ y₂).γ p.1, p.2)) = ps := by
          rw [List.map_map]
          apply map_eq_self
          intro p hp
          show ((PF na nt s₀ kk e₂ b₁ x₁ y₂).γ ((PE na nt s₀ kk b₁ t₂ w₁).γ p.1), p.2) = p
          rw [hγγ p.1 (hrefs p.1 (by simp only [grefs, List.mem_map]; exact ⟨p, hp, rfl⟩))]
        have h2 : (r.map (PE na nt s₀ kk b₁ t₂ w₁).ν).map (PF na nt s₀ kk e₂ b₁ x₁ y₂).ν = r := by
          cases r with
          | none => rfl
          | some i =>
            simp only [Option.map_some]
            rw [hνν i (hwf.1 i (by simp [gnodes]))]
        rw [h1, h2]
      | block cs =>
        rw [mapGrpAt_block_ne _ (.inl hne1), mapGrpAt_block_ne _ (.inl hne2)]
        congr 1
        rw [List.map_map]
        symm
        apply map_eq_self
        intro c hc
        exact hγγ c (hrefs c (by simpa [grefs] using hc))
  · intro _ _ _ _; exact ⟨fun _ _ => trivial, fun _ _ => trivial⟩
  · -- untainted groups do not refer to the block or the root
    intro j g _ htj hgj x hx
    have hj0 : j ≠ 0 := fun e => htj (.inr e)
    have hjG : j ≠ s₀.groups.size := fun e => htj (.inl e)
    have hjl : j < x₁.groups.size := arr_lt_of_some hgj
    rw [hs.x1groups] at hjl
    show ¬ (x = s₀.groups.size ∨ x = 0)
    have h0 := hra0 j g hj0 hgj x hx
    have hG : x ≠ s₀.groups.size := by
      by_cases hbody : s₀.groups.size ≤ j
      · rw [xbg j hbody hjl] at hgj
        exact hR.ra j g hbody hjG hgj x hx
      · have hj : j < s₀.groups.size := by omega
        obtain ⟨g₀, hg₀⟩ := arr_some_of_lt (a := e₂.groups) (i := j) (by rw [hs.gE]; omega)
        have hrel := hE.groups j g₀ (.inl hj) hg₀
        have eγ : (PE na nt s₀ kk b₁ t₂ w₁).γ j = j := shiftFrom_lt (by omega)
        rw [eγ, hgj] at hrel
        injection hrel with hrel
        have hwf := hE.wf j g₀ hg₀
        have hcl := hE.closed j g₀ (.inl hj) hg₀
        have hne1 : j ≠ (PE na nt s₀ kk b₁ t₂ w₁).bx := by show j ≠ s₀.groups.size; omega
        rw [hrel, grefs_mapGrpAt_ne _ (.inl hne1)] at hx
        obtain ⟨x₀, hx₀, rfl⟩ := List.mem_map.mp hx
        have h1 := hwf.2 x₀ hx₀
        rw [hs.gE] at h1
        have h2 : x₀ < s₀.groups.size := by
          rcases hcl.2 x₀ hx₀ with h2 | h2 <;> omega
        show shiftFrom _ _ x₀ ≠ _
        rw [shiftFrom_lt (by omega)]; omega
    intro h
    rcases h with h | h
    · exact hG h
    · exact h0 h
  · intro i h; exact absurd trivial h
  · intro j h; exact absurd trivial h
  · intro i _; rfl
  · intro j _; rfl
  · intro h; exact Bool.noConfusion h

end

/-! ### the two modes of the final correspondence -/

/-- the final correspondence in mode `m`: `false` — the inserted block and the root are tainted (the
rows after the block avoid it); `true` — open mode: nothing is tainted (the rows after the block may
continue from it; its extra child is inert) -/
noncomputable def PFm (m : Bool) (na nt : List Str) (s₀ : St) (kk : Nat) (e₂ b₁ x₁ y₂ : St) : Params := { PF na nt s₀ kk e₂ b₁ x₁ y₂ with T := fun j => m = false ∧ (j = s₀.groups.size ∨ j = 0), op := m }

theorem PFm_ok (m : Bool) (na nt : List Str) (s₀ : St) (kk : Nat) (e₂ b₁ x₁ y₂ : St) (h1 : s₀.next + kk ≤ b₁.next)
    (h2 : s₀.nodes.size + 1 ≤ b₁.nodes.size) : (PFm m na nt s₀ kk e₂ b₁ x₁ y₂).Ok := by
  have ok := PF_ok na nt s₀ kk e₂ b₁ x₁ y₂ h1 h2
  refine ⟨ok.hρ, ok.hν, ok.hγ, fun _ hm => ⟨hm, .inl rfl⟩, ok.hfix, fun _ => ⟨rfl, fun j e => ?_⟩⟩
  have e' : shiftFrom (s₀.groups.size + 1) 1 j = s₀.groups.size + 1 := e
  unfold shiftFrom at e'
  split at e' <;> omega

theorem asimF_mode (m : Bool) {na nt : List Str} {s₀ : St} {kk : Nat} {e₂ b₁ x₁ y₂ : St}
    (h : ASim (PF na nt s₀ kk e₂ b₁ x₁ y₂) x₁ y₂)
    (hin : m = true → Inert (s₀.groups.size + 1) y₂) : ASim (PFm m na nt s₀ kk e₂ b₁ x₁ y₂) x₁ y₂ := by
  have hsub : ∀ j, (PFm m na nt s₀ kk e₂ b₁ x₁ y₂).T j → (PF na nt s₀ kk e₂ b₁ x₁ y₂).T j := fun j hj => hj.2
  constructor
  · exact h.na₁
  · exact h.na₂
  · exact h.nt₁
  · exact h.nt₂
  · exact h.mono₁
  · exact h.mono₂
  · exact h.idsync
  · exact h.nsync
  · exact h.gsync
  · exact h.ndom
  · intro j hj; exact ⟨(h.gdom j hj).1, fun ht => (h.gdom j hj).2 (hsub j ht)⟩
  · exact h.bxlt
  · exact h.bne
  · exact h.wf
  · exact h.dex
  · exact h.nodes
  · exact h.groups
  · exact h.closed
  · intro j g hd ht hg x hx hx'
    have hm : m = false := hx'.1
    have ht' : ¬ (PF na nt s₀ kk e₂ b₁ x₁ y₂).T j := fun h' => ht ⟨hm, h'⟩
    exact h.ra j g hd ht' hg x hx hx'.2
  · exact h.fr1n
  · exact h.fr1g
  · exact h.fr2n
  · exact h.fr2g
  · exact hin

end Rpft.Compile
