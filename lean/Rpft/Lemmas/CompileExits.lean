import Rpft.Compile
/-! `connect_loose_exits` at the level of one node: which exits an edge naming a block re-targets. -/
set_option linter.unusedSimpArgs false
namespace Rpft.Compile
open Rpft

/-- what `connect_loose_exits` does to one destination -/
def fillLoose (d : Dest) (x : Dest) : Dest := if x == Dest.none then d else x

theorem allCats_mapCats (r : SwitchR) (f : Cat → Cat) : (r.mapCats f).allCats = r.allCats.map f := by
  unfold SwitchR.mapCats SwitchR.allCats
  cases r.noResp <;> simp

/-- **Block edges, node level**: connecting the loose exits of a node to `d` re-targets exactly the
exits that lead nowhere; every other exit — in particular a hard exit — keeps its destination,
and the number and order of exits do not change. -/
theorem connectLoose_exitDests (n : NodeM) (d : Dest) :
    (n.connectLoose d).exitDests = n.exitDests.map (fillLoose d) := by
  unfold NodeM.connectLoose NodeM.exitDests
  cases hr : n.router with
  | none =>
    simp only [hr]
    by_cases h : n.dexitDest == Dest.none
    · simp [h, hr, fillLoose]
    · simp [h, hr, fillLoose]
  | some rt =>
    cases rt with
    | sw r =>
      simp only [hr, allCats_mapCats, List.map_map]
      apply List.map_congr_left
      intro c _
      simp only [Function.comp, fillLoose]
      split <;> rfl
    | rnd r =>
      simp only [hr, List.map_map]
      apply List.map_congr_left
      intro c _
      simp only [Function.comp, fillLoose]
      split <;> rfl

theorem fillLoose_hard (d : Dest) : fillLoose d .hard = .hard := by simp [fillLoose]
theorem fillLoose_node (d : Dest) (u : Uid) : fillLoose d (.node u) = .node u := by simp [fillLoose]
theorem fillLoose_none (d : Dest) : fillLoose d .none = d := by simp [fillLoose]

/-- after connecting to a real destination no exit of the node is loose any more -/
theorem connectLoose_no_loose (n : NodeM) (d : Dest) (hd : d ≠ Dest.none) :
    (n.connectLoose d).hasLoose = false := by
  unfold NodeM.hasLoose
  rw [connectLoose_exitDests]
  simp only [List.any_map, List.any_eq_false, Function.comp]
  intro x _
  unfold fillLoose
  split
  · simpa using hd
  · assumption

end Rpft.Compile
