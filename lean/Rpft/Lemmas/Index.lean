/-
Helper lemmas for the content index model (C10).  Property theorems: `Rpft/Props/C10.lean`.
-/
import Rpft.Index
import Rpft.Lemmas.Dict
import Rpft.Lemmas.Cell
set_option linter.unusedSimpArgs false
set_option linter.unusedVariables false
namespace Rpft.Index
open Rpft

/-! ### folds in `Except` -/

theorem foldlM_nil' {σ α ε : Type} (f : σ → α → Except ε σ) (s : σ) :
    List.foldlM f s [] = .ok s := rfl

theorem foldlM_cons' {σ α ε : Type} (f : σ → α → Except ε σ) (s : σ) (a : α) (l : List α) :
    List.foldlM f s (a :: l) = (f s a).bind (fun s' => List.foldlM f s' l) := by
  simp only [List.foldlM_cons]
  rfl

theorem foldlM_append' {σ α ε : Type} (f : σ → α → Except ε σ) (s : σ) (l₁ l₂ : List α) :
    List.foldlM f s (l₁ ++ l₂) = (List.foldlM f s l₁).bind (fun s' => List.foldlM f s' l₂) := by
  induction l₁ generalizing s with
  | nil => rfl
  | cons a l ih =>
    simp only [List.cons_append, foldlM_cons']
    cases f s a with
    | error e => rfl
    | ok s' => exact ih s'

theorem foldlM_mono {σ α ε : Type} (f g : σ → α → Except ε σ)
    (h : ∀ s a out, f s a = .ok out → g s a = .ok out) :
    ∀ (l : List α) (s out : σ), List.foldlM f s l = .ok out → List.foldlM g s l = .ok out := by
  intro l
  induction l with
  | nil => intro s out hs; exact hs
  | cons a l ih =>
    intro s out hs
    rw [foldlM_cons'] at hs ⊢
    cases hf : f s a with
    | error e => rw [hf] at hs; cases hs
    | ok s' =>
      rw [hf] at hs
      rw [h s a s' hf]
      exact ih s' out hs

theorem rev_ind {α : Type} {P : List α → Prop} (h0 : P [])
    (h1 : ∀ l a, P l → P (l ++ [a])) : ∀ l, P l := by
  intro l
  rw [← List.reverse_reverse l]
  induction l.reverse with
  | nil => exact h0
  | cons a t ih => rw [List.reverse_cons]; exact h1 _ _ ih

/-! ### processTable -/

/-- what a nested `content_index` row calls at nesting budget `fuel` -/
def recur (res : Resolve) (pats : Dict Int (List Str)) : Nat → St → List IndexRow → Except Err St
  | 0 => fun _ _ => throw .recursion
  | fuel + 1 => processTable res pats fuel

theorem processTable_eq (res : Resolve) (pats : Dict Int (List Str)) (fuel : Nat) (st : St)
    (rows : List IndexRow) :
    processTable res pats fuel st rows = rows.foldlM (rowStep res pats (recur res pats fuel)) st := by
  cases fuel <;> rfl

theorem processTable_nil (res : Resolve) (pats) (fuel : Nat) (st : St) :
    processTable res pats fuel st [] = .ok st := by
  rw [processTable_eq]; rfl

theorem processTable_cons (res : Resolve) (pats) (fuel : Nat) (st : St) (r : IndexRow)
    (rows : List IndexRow) :
    processTable res pats fuel st (r :: rows) =
      (rowStep res pats (recur res pats fuel) st r).bind
        (fun st' => processTable res pats fuel st' rows) := by
  rw [processTable_eq, foldlM_cons']
  congr 1
  funext st'
  rw [processTable_eq]

theorem processTable_append (res : Resolve) (pats) (fuel : Nat) (st : St) (a b : List IndexRow) :
    processTable res pats fuel st (a ++ b) =
      (processTable res pats fuel st a).bind (fun st' => processTable res pats fuel st' b) := by
  rw [processTable_eq, foldlM_append', ← processTable_eq]
  congr 1
  funext st'
  rw [processTable_eq]

theorem rowStep_inert {res : Resolve} {pats} {rec} {st : St} {r : IndexRow}
    (h : inert pats r = true) : rowStep res pats rec st r = .ok st := by
  simp [rowStep, h, pure, Except.pure]

theorem rowStep_mono (res : Resolve) (pats) (rec₁ rec₂ : St → List IndexRow → Except Err St)
    (h : ∀ st rows out, rec₁ st rows = .ok out → rec₂ st rows = .ok out)
    (st : St) (r : IndexRow) (out : St)
    (hs : rowStep res pats rec₁ st r = .ok out) : rowStep res pats rec₂ st r = .ok out := by
  unfold rowStep at hs ⊢
  by_cases hi : inert pats r = true
  · simp only [hi, if_true] at hs ⊢; exact hs
  · simp only [hi] at hs ⊢
    by_cases hty : kindOf r.ty = .contentIndex
    · simp only [hty, if_true] at hs ⊢
      cases hf : firstName r with
      | error e => simp [hf, bind, Except.bind] at hs
      | ok n =>
        cases hr : resolveOrDie res n with
        | error e => simp [hf, hr, bind, Except.bind] at hs
        | ok sh =>
          simp only [hf, hr, bind, Except.bind] at hs ⊢
          exact h _ _ _ hs
    · simp only [hty, if_false] at hs ⊢; exact hs

/-- more nesting budget never changes a successful result -/
theorem processTable_fuel_mono (res : Resolve) (pats) :
    ∀ (fuel : Nat) (st : St) (rows : List IndexRow) (out : St),
      processTable res pats fuel st rows = .ok out →
      processTable res pats (fuel + 1) st rows = .ok out := by
  intro fuel
  induction fuel with
  | zero =>
    intro st rows out h
    rw [processTable_eq] at h ⊢
    refine foldlM_mono _ _ ?_ rows st out h
    intro s a o hs
    refine rowStep_mono res pats _ _ ?_ s a o hs
    intro st rows out h
    simp [recur, throw, throwThe, MonadExceptOf.throw] at h
  | succ fuel ih =>
    intro st rows out h
    rw [processTable_eq] at h ⊢
    refine foldlM_mono _ _ ?_ rows st out h
    intro s a o hs
    refine rowStep_mono res pats _ _ ?_ s a o hs
    intro st rows out h
    exact ih st rows out h

/-! ### readers -/

theorem getLast?_filterMap_eq {α β : Type} (f : α → Option β) (l : List α) :
    (l.filterMap f).getLast? = ((l.filter (fun a => (f a).isSome)).getLast?).bind f := by
  induction l using rev_ind with
  | h0 => rfl
  | h1 l a ih =>
    rw [List.filterMap_append, List.filter_append]
    cases hf : f a with
    | none => simp [hf, ih]
    | some b => simp [hf]

/-! ### a registry (Python dict) under a history of set / pop operations -/

inductive RegOp (β : Type)
  | set (k : Str) (v : β)
  | pop (k : Str)
  | nop

def applyOp {β : Type} : RegOp β → Dict Str β → Dict Str β
  | .set k v, d => d.set k v
  | .pop k, d => d.pop k
  | .nop, d => d

/-- the operation concerns name `k` -/
def touches {β : Type} (k : Str) : RegOp β → Bool
  | .set k' _ => k' = k
  | .pop k' => k' = k
  | .nop => false

/-- what a name holds right after an operation that concerns it -/
def RegOp.result {β : Type} : RegOp β → Option β
  | .set _ v => some v
  | _ => none

def applyOps {β : Type} (ops : List (RegOp β)) (d : Dict Str β) : Dict Str β :=
  ops.foldl (fun d o => applyOp o d) d

theorem applyOps_snoc {β : Type} (ops : List (RegOp β)) (o : RegOp β) (d : Dict Str β) :
    applyOps (ops ++ [o]) d = applyOp o (applyOps ops d) := by
  simp [applyOps, List.foldl_append]

theorem nodup_applyOp {β : Type} (o : RegOp β) {d : Dict Str β} (h : (Dict.keys d).Nodup) :
    (Dict.keys (applyOp o d)).Nodup := by
  cases o with
  | set k v => exact Dict.nodup_set h k v
  | pop k => exact Dict.nodup_pop h k
  | nop => exact h

theorem nodup_applyOps {β : Type} (ops : List (RegOp β)) {d : Dict Str β}
    (h : (Dict.keys d).Nodup) : (Dict.keys (applyOps ops d)).Nodup := by
  induction ops using rev_ind with
  | h0 => exact h
  | h1 l a ih => rw [applyOps_snoc]; exact nodup_applyOp a ih

/-- what the LAST operation concerning `k` left (`dflt` if no operation concerns `k`) -/
def lastOpResult {β : Type} (ops : List (RegOp β)) (k : Str) (dflt : Option β) : Option β :=
  match ops.reverse.find? (touches k) with
  | some o => o.result
  | none => dflt

/-- **last operation wins**: after any history of operations, a name holds what the LAST
operation concerning it left (a `set` its value, a `pop` nothing); untouched names keep their
old value. -/
theorem get_applyOps {β : Type} (ops : List (RegOp β)) (d : Dict Str β)
    (hd : (Dict.keys d).Nodup) (k : Str) :
    (applyOps ops d).get k = lastOpResult ops k (d.get k) := by
  unfold lastOpResult
  induction ops using rev_ind with
  | h0 => rfl
  | h1 l a ih =>
    rw [applyOps_snoc, List.reverse_append, List.reverse_cons, List.reverse_nil, List.nil_append,
      List.singleton_append, List.find?_cons]
    cases a with
    | set k' v =>
      by_cases hk : k' = k
      · subst hk; simp [touches, applyOp, RegOp.result, Dict.get_set_self]
      · have : k ≠ k' := fun e => hk e.symm
        simp only [touches, hk, decide_false, applyOp]
        rw [Dict.get_set_ne _ _ this, ih]
    | pop k' =>
      by_cases hk : k' = k
      · subst hk
        simp [touches, applyOp, RegOp.result, Dict.get_pop_self _ _ (nodup_applyOps l hd)]
      · have : k ≠ k' := fun e => hk e.symm
        simp only [touches, hk, decide_false, applyOp]
        rw [Dict.get_pop_ne _ this, ih]
    | nop => simp only [touches, applyOp]; exact ih

/-! ### what one active row does to each registry -/

def campName (r : IndexRow) (n : Str) : Str := if r.newName ≠ [] then r.newName else n

/-- the effect of a row on the campaign registry -/
def campOp (res : Resolve) (r : IndexRow) : RegOp Campaign :=
  match kindOf r.ty, r.sheetNames with
  | .createCampaign, n :: _ =>
    match res n with
    | some sh => .set (campName r n) { group := r.group, prov := sh.prov }
    | none => .nop
  | .ignoreRow, n :: _ => .pop n
  | _, _ => .nop

/-- the effect of a row on the trigger registry -/
def trigOp (res : Resolve) (r : IndexRow) : RegOp Nat :=
  match kindOf r.ty, r.sheetNames with
  | .createTriggers, n :: _ =>
    match res n with
    | some sh => .set n sh.prov
    | none => .nop
  | .ignoreRow, n :: _ => .pop n
  | _, _ => .nop

/-- the effect of a row on the template registry: only `template_definition` rows touch it -/
def tplOp (res : Resolve) (r : IndexRow) : RegOp Template :=
  match kindOf r.ty, r.sheetNames with
  | .templateDefinition, n :: _ =>
    match res n with
    | some sh => .set n { prov := sh.prov, args := r.tplArgs }
    | none => .nop
  | _, _ => .nop

/-- `row.new_name or row.sheet_name[0]`, total version -/
def keyOf (r : IndexRow) : Str := if r.newName ≠ [] then r.newName else r.sheetNames.headD []

theorem flowKey_ok {r : IndexRow} {k : Str} (h : flowKey r = .ok k) : k = keyOf r := by
  unfold flowKey at h
  unfold keyOf
  by_cases hn : r.newName ≠ []
  · simp [hn, pure, Except.pure] at h ⊢; exact h.symm
  · simp only [hn, if_false] at h ⊢
    unfold firstName at h
    cases hs : r.sheetNames with
    | nil => simp [hs, throw, throwThe, MonadExceptOf.throw] at h
    | cons n tl => simp [hs, pure, Except.pure] at h ⊢; exact h.symm

theorem dropFlowRows_ok {n : Str} : ∀ {l keep : List IndexRow}, dropFlowRows n l = .ok keep →
    keep = l.filter (fun r => decide (keyOf r ≠ n)) := by
  intro l
  induction l with
  | nil => intro keep h; simp [dropFlowRows, pure, Except.pure] at h; simp [h]
  | cons r rs ih =>
    intro keep h
    unfold dropFlowRows at h
    cases hk : flowKey r with
    | error e => simp [hk, bind, Except.bind] at h
    | ok k =>
      cases hr : dropFlowRows n rs with
      | error e => simp [hk, hr, bind, Except.bind] at h
      | ok rest =>
        simp only [hk, hr, bind, Except.bind, pure, Except.pure, Except.ok.injEq] at h
        have := ih hr
        have hk' := flowKey_ok hk
        subst hk'
        subst this
        rw [List.filter_cons]
        by_cases hkn : keyOf r = n <;> simp [hkn] at h ⊢ <;> exact h.symm

/-- the effect of one active, non-index row on every registry -/
theorem step_effect {res : Resolve} {st st' : St} {r : IndexRow} (h : step res st r = .ok st') :
    st'.campaigns = applyOp (campOp res r) st.campaigns ∧
    st'.triggers = applyOp (trigOp res r) st.triggers ∧
    st'.templates = applyOp (tplOp res r) st.templates ∧
    st'.flowRows =
      (match kindOf r.ty, r.sheetNames with
       | .createFlow, _ => st.flowRows ++ [r]
       | .ignoreRow, n :: _ => st.flowRows.filter (fun x => decide (keyOf x ≠ n))
       | _, _ => st.flowRows) := by
  unfold step at h
  cases hk : kindOf r.ty with
  | dataSheet =>
    simp only [hk] at h
    split at h
    · simp only [pure, Except.pure, Except.ok.injEq] at h
      subst h
      simp [campOp, trigOp, tplOp, hk, applyOp]
    · simp [throw, throwThe, MonadExceptOf.throw] at h
  | templateDefinition =>
    simp only [hk] at h
    unfold addTemplate firstName at h
    cases hs : r.sheetNames with
    | nil => simp [hs, bind, Except.bind, throw, throwThe, MonadExceptOf.throw] at h
    | cons n tl =>
      simp only [hs, bind, Except.bind, pure, Except.pure, Bool.not_true, Bool.and_false,
        Bool.false_eq_true, if_false] at h
      unfold resolveOrDie at h
      cases hr : res n with
      | none => simp [hr, throw, throwThe, MonadExceptOf.throw] at h
      | some sh =>
        simp only [hr, pure, Except.pure, Except.ok.injEq] at h
        subst h
        simp [campOp, trigOp, tplOp, hk, hs, hr, applyOp]
  | createFlow =>
    simp only [hk, pure, Except.pure, Except.ok.injEq] at h
    subst h
    simp [campOp, trigOp, tplOp, hk, applyOp]
  | createCampaign =>
    simp only [hk] at h
    unfold firstName at h
    cases hs : r.sheetNames with
    | nil => simp [hs, bind, Except.bind, throw, throwThe, MonadExceptOf.throw] at h
    | cons n tl =>
      simp only [hs, bind, Except.bind, pure, Except.pure] at h
      unfold resolveOrDie at h
      cases hr : res n with
      | none => simp [hr, throw, throwThe, MonadExceptOf.throw] at h
      | some sh =>
        simp only [hr, pure, Except.pure, Except.ok.injEq] at h
        subst h
        simp [campOp, trigOp, tplOp, hk, hs, hr, applyOp, campName]
  | createTriggers =>
    simp only [hk] at h
    unfold firstName at h
    cases hs : r.sheetNames with
    | nil => simp [hs, bind, Except.bind, throw, throwThe, MonadExceptOf.throw] at h
    | cons n tl =>
      simp only [hs, bind, Except.bind, pure, Except.pure] at h
      unfold resolveOrDie at h
      cases hr : res n with
      | none => simp [hr, throw, throwThe, MonadExceptOf.throw] at h
      | some sh =>
        simp only [hr, pure, Except.pure, Except.ok.injEq] at h
        subst h
        simp [campOp, trigOp, tplOp, hk, hs, hr, applyOp]
  | ignoreRow =>
    simp only [hk] at h
    unfold firstName at h
    cases hs : r.sheetNames with
    | nil => simp [hs, bind, Except.bind, throw, throwThe, MonadExceptOf.throw] at h
    | cons n tl =>
      simp only [hs, bind, Except.bind, pure, Except.pure] at h
      unfold ignoreRow at h
      cases hd : dropFlowRows n st.flowRows with
      | error e => simp [hd, bind, Except.bind] at h
      | ok keep =>
        simp only [hd, bind, Except.bind, pure, Except.pure, Except.ok.injEq] at h
        subst h
        have := dropFlowRows_ok hd
        simp [campOp, trigOp, tplOp, hk, hs, applyOp, this]
  | contentIndex =>
    simp only [hk, pure, Except.pure, Except.ok.injEq] at h
    subst h
    simp [campOp, trigOp, tplOp, hk, applyOp]
  | invalid =>
    simp only [hk, pure, Except.pure, Except.ok.injEq] at h
    subst h
    simp [campOp, trigOp, tplOp, hk, applyOp]

/-- a flat history: active rows that are not `content_index` rows, top to bottom -/
def runFlat (res : Resolve) (st : St) (rows : List IndexRow) : Except Err St :=
  rows.foldlM (step res) st

theorem runFlat_cons (res : Resolve) (st : St) (r : IndexRow) (rows : List IndexRow) :
    runFlat res st (r :: rows) = (step res st r).bind (fun st' => runFlat res st' rows) :=
  foldlM_cons' _ _ _ _

theorem runFlat_registries {res : Resolve} :
    ∀ (rows : List IndexRow) {st out : St}, runFlat res st rows = .ok out →
    out.campaigns = applyOps (rows.map (campOp res)) st.campaigns ∧
    out.triggers = applyOps (rows.map (trigOp res)) st.triggers ∧
    out.templates = applyOps (rows.map (tplOp res)) st.templates := by
  intro rows
  induction rows with
  | nil =>
    intro st out h
    simp only [runFlat, foldlM_nil', Except.ok.injEq] at h
    subst h
    simp [applyOps]
  | cons r rows ih =>
    intro st out h
    rw [runFlat_cons] at h
    cases hs : step res st r with
    | error e => simp [hs, Except.bind] at h
    | ok st1 =>
      simp only [hs, Except.bind] at h
      obtain ⟨h1, h2, h3⟩ := ih h
      obtain ⟨e1, e2, e3, _⟩ := step_effect hs
      simp only [List.map_cons, applyOps, List.foldl_cons] at h1 h2 h3 ⊢
      rw [h1, h2, h3, e1, e2, e3]
      exact ⟨rfl, rfl, rfl⟩

/-! ### surviving flow rows -/

/-- the row is an `ignore_row` naming `n` -/
def ignoresName (r : IndexRow) (n : Str) : Bool :=
  kindOf r.ty = .ignoreRow && r.sheetNames.head? = some n

/-- some row of `later` is an `ignore_row` for the (new) name of `r` -/
def ignoredBy (later : List IndexRow) (r : IndexRow) : Bool :=
  later.any (fun x => ignoresName x (keyOf r))

/-- the `create_flow` rows of a history that no LATER `ignore_row` names -/
def survivors : List IndexRow → List IndexRow
  | [] => []
  | r :: rs =>
    if kindOf r.ty = .createFlow && !ignoredBy rs r then r :: survivors rs else survivors rs

theorem runFlat_flowRows {res : Resolve} :
    ∀ (rows : List IndexRow) {st out : St}, runFlat res st rows = .ok out →
    out.flowRows = st.flowRows.filter (fun x => !ignoredBy rows x) ++ survivors rows := by
  intro rows
  induction rows with
  | nil =>
    intro st out h
    simp only [runFlat, foldlM_nil', Except.ok.injEq] at h
    subst h
    simp only [ignoredBy, survivors, List.any_nil, Bool.not_false, List.append_nil]
    exact (List.filter_eq_self.mpr (fun _ _ => rfl)).symm
  | cons r rows ih =>
    intro st out h
    rw [runFlat_cons] at h
    cases hs : step res st r with
    | error e => simp [hs, Except.bind] at h
    | ok st1 =>
      simp only [hs, Except.bind] at h
      rw [ih h]
      obtain ⟨_, _, _, e4⟩ := step_effect hs
      rw [e4]
      cases hk : kindOf r.ty with
      | createFlow =>
        simp only [survivors, hk, List.filter_append, List.append_assoc]
        congr 1
        · apply List.filter_congr
          intro x _
          simp [ignoredBy, ignoresName, hk]
        · simp [List.filter_cons, List.filter_nil]
          split <;> simp
      | ignoreRow =>
        cases hsn : r.sheetNames with
        | nil =>
          simp only [survivors, hk]
          congr 1
          · apply List.filter_congr
            intro x _
            simp [ignoredBy, ignoresName, hk, hsn]
        | cons n tl =>
          simp only [survivors, hk, List.filter_filter]
          congr 1
          · apply List.filter_congr
            intro x _
            simp only [ignoredBy, ignoresName, hk, hsn, List.any_cons, List.head?_cons,
              Option.some.injEq, decide_true, Bool.true_and]
            by_cases hx : keyOf x = n
            · simp [hx]
            · have : ¬ n = keyOf x := fun e => hx e.symm
              simp [hx, this]
      | _ =>
        simp only [survivors, hk]
        congr 1
        apply List.filter_congr
        intro x _
        simp [ignoredBy, ignoresName, hk]

/-! ### the data-sheet registry -/

/-- the data operation a `data_sheet` row of the index stands for (no `operation` column here) -/
def dataOpOf (r : IndexRow) : DataOps.Op :=
  { sources := r.sheetNames, newName := r.newName, kind := .none }

/-- the C11 chain contained in a history: its `data_sheet` rows, in order -/
def dataOpsOf (rows : List IndexRow) : List DataOps.Op :=
  (rows.filter (fun r => kindOf r.ty = .dataSheet)).map dataOpOf

theorem step_data {res : Resolve} {st st' : St} {r : IndexRow} (h : step res st r = .ok st') :
    (kindOf r.ty = .dataSheet →
      DataOps.processDataSheet (dataEnv res) st.data (dataOpOf r) = .ok st'.data) ∧
    (kindOf r.ty ≠ .dataSheet → st'.data = st.data) := by
  unfold step at h
  cases hk : kindOf r.ty with
  | dataSheet =>
    simp only [hk] at h
    refine ⟨fun _ => ?_, fun hne => absurd rfl hne⟩
    split at h
    · rename_i d hd
      simp only [pure, Except.pure, Except.ok.injEq] at h
      subst h
      exact hd
    · simp [throw, throwThe, MonadExceptOf.throw] at h
  | templateDefinition =>
    simp only [hk] at h
    refine ⟨fun hc => (by cases hc), fun _ => ?_⟩
    unfold addTemplate firstName at h
    cases hs : r.sheetNames with
    | nil => simp [hs, bind, Except.bind, throw, throwThe, MonadExceptOf.throw] at h
    | cons n tl =>
      simp only [hs, bind, Except.bind, pure, Except.pure, Bool.not_true, Bool.and_false,
        Bool.false_eq_true, if_false] at h
      unfold resolveOrDie at h
      cases hr : res n with
      | none => simp [hr, throw, throwThe, MonadExceptOf.throw] at h
      | some sh =>
        simp only [hr, pure, Except.pure, Except.ok.injEq] at h
        subst h
        rfl
  | createFlow =>
    simp only [hk, pure, Except.pure, Except.ok.injEq] at h
    subst h
    exact ⟨fun hc => (by cases hc), fun _ => rfl⟩
  | createCampaign =>
    simp only [hk] at h
    refine ⟨fun hc => (by cases hc), fun _ => ?_⟩
    unfold firstName at h
    cases hs : r.sheetNames with
    | nil => simp [hs, bind, Except.bind, throw, throwThe, MonadExceptOf.throw] at h
    | cons n tl =>
      simp only [hs, bind, Except.bind, pure, Except.pure] at h
      unfold resolveOrDie at h
      cases hr : res n with
      | none => simp [hr, throw, throwThe, MonadExceptOf.throw] at h
      | some sh =>
        simp only [hr, pure, Except.pure, Except.ok.injEq] at h
        subst h
        rfl
  | createTriggers =>
    simp only [hk] at h
    refine ⟨fun hc => (by cases hc), fun _ => ?_⟩
    unfold firstName at h
    cases hs : r.sheetNames with
    | nil => simp [hs, bind, Except.bind, throw, throwThe, MonadExceptOf.throw] at h
    | cons n tl =>
      simp only [hs, bind, Except.bind, pure, Except.pure] at h
      unfold resolveOrDie at h
      cases hr : res n with
      | none => simp [hr, throw, throwThe, MonadExceptOf.throw] at h
      | some sh =>
        simp only [hr, pure, Except.pure, Except.ok.injEq] at h
        subst h
        rfl
  | ignoreRow =>
    simp only [hk] at h
    refine ⟨fun hc => (by cases hc), fun _ => ?_⟩
    unfold firstName at h
    cases hs : r.sheetNames with
    | nil => simp [hs, bind, Except.bind, throw, throwThe, MonadExceptOf.throw] at h
    | cons n tl =>
      simp only [hs, bind, Except.bind, pure, Except.pure] at h
      unfold ignoreRow at h
      cases hd : dropFlowRows n st.flowRows with
      | error e => simp [hd, bind, Except.bind] at h
      | ok keep =>
        simp only [hd, bind, Except.bind, pure, Except.pure, Except.ok.injEq] at h
        subst h
        rfl
  | contentIndex =>
    simp only [hk, pure, Except.pure, Except.ok.injEq] at h
    subst h
    exact ⟨fun hc => (by cases hc), fun _ => rfl⟩
  | invalid =>
    simp only [hk, pure, Except.pure, Except.ok.injEq] at h
    subst h
    exact ⟨fun hc => (by cases hc), fun _ => rfl⟩

theorem runFlat_data {res : Resolve} :
    ∀ (rows : List IndexRow) {st out : St}, runFlat res st rows = .ok out →
    DataOps.runOps (dataEnv res) st.data (dataOpsOf rows) = .ok out.data := by
  intro rows
  induction rows with
  | nil =>
    intro st out h
    simp only [runFlat, foldlM_nil', Except.ok.injEq] at h
    subst h
    rfl
  | cons r rows ih =>
    intro st out h
    rw [runFlat_cons] at h
    cases hs : step res st r with
    | error e => simp [hs, Except.bind] at h
    | ok st1 =>
      simp only [hs, Except.bind] at h
      have := ih h
      obtain ⟨d1, d2⟩ := step_data hs
      by_cases hk : kindOf r.ty = .dataSheet
      · simp only [dataOpsOf, List.filter_cons, hk, decide_true, if_true, List.map_cons,
          DataOps.runOps]
        rw [d1 hk]
        exact this
      · simp only [dataOpsOf, List.filter_cons, hk, decide_false, Bool.false_eq_true, if_false]
        rw [← d2 hk]
        exact this

/-! ### surrounding whitespace of a cell (`str.strip`) -/

theorem lstrip_append_ws {ws : Char → Bool} {l : Str} (hl : ∀ c ∈ l, ws c = true) (s : Str) :
    lstrip ws (l ++ s) = lstrip ws s := by
  induction l with
  | nil => rfl
  | cons c l ih =>
    have hc := hl c (by simp)
    have := ih (fun x hx => hl x (by simp [hx]))
    simp only [lstrip] at this ⊢
    simp [List.dropWhile_cons, hc, this]

theorem rstrip_append_ws {ws : Char → Bool} {r : Str} (hr : ∀ c ∈ r, ws c = true) (s : Str) :
    rstrip ws (s ++ r) = rstrip ws s := by
  induction s with
  | nil => simpa [rstrip] using Cell.rstrip_eq_nil_of_all hr
  | cons c s ih =>
    rw [List.cons_append, Cell.rstrip_cons, Cell.rstrip_cons, ih]

theorem strip_padded {ws : Char → Bool} {l r : Str} (hl : ∀ c ∈ l, ws c = true)
    (hr : ∀ c ∈ r, ws c = true) (s : Str) : strip ws (l ++ s ++ r) = strip ws s := by
  unfold strip
  rw [List.append_assoc, lstrip_append_ws hl]
  induction s with
  | nil =>
    have h := lstrip_append_ws hr ([] : Str)
    rw [List.append_nil] at h
    rw [List.nil_append, h]
  | cons c s ih =>
    by_cases hc : ws c = true
    · simpa [lstrip, List.dropWhile_cons, hc] using ih
    · have hc' : ws c = false := by simpa using hc
      simp only [lstrip, List.cons_append, List.dropWhile_cons, hc', Bool.false_eq_true, if_false]
      exact rstrip_append_ws hr (c :: s)

/-- `s'` is the cell `s` with surrounding whitespace: any characters `str.strip()` removes
(ASCII and Unicode, `pyWs`), before and / or after -/
def Padded (s s' : Str) : Prop :=
  ∃ l r : Str, (∀ c ∈ l, pyWs c = true) ∧ (∀ c ∈ r, pyWs c = true) ∧ s' = l ++ s ++ r

theorem cellText_padded {s s' : Str} (h : Padded s s') : cellText s' = cellText s := by
  obtain ⟨l, r, hl, hr, rfl⟩ := h
  exact strip_padded hl hr s

theorem cellNames_padded {s s' : Str} (h : Padded s s') : cellNames s' = cellNames s := by
  obtain ⟨l, r, hl, hr, rfl⟩ := h
  unfold cellNames
  rw [strip_padded hl hr s]

/-- lists related entry by entry -/
inductive Pointwise {α : Type} (R : α → α → Prop) : List α → List α → Prop
  | nil : Pointwise R [] []
  | cons {a b : α} {as bs : List α} : R a b → Pointwise R as bs → Pointwise R (a :: as) (b :: bs)

theorem map_cellText_padded {ts ts' : List Str} (h : Pointwise Padded ts ts') :
    ts'.map cellText = ts.map cellText := by
  induction h with
  | nil => rfl
  | cons hp _ ih => simp [cellText_padded hp, ih]

end Rpft.Index
