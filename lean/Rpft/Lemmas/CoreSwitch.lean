/-
The two switch nodes of a deciding row — the reference's (`mkSwitch`, positional identifiers) and the
compiled one (fresh identifiers, `SwitchSim`) — have the same index-resolved abstraction.
-/
import Rpft.Lemmas.CoreSim2
import Rpft.Lemmas.FlowPos
import Rpft.Lemmas.RefFlowNode
set_option linter.unusedSimpArgs false
set_option linter.unusedVariables false
namespace Rpft.CoreSheet
open Rpft Rpft.Compile Rpft.RefFlow Rpft.Flow

/-! ### the observation at a switch, category names not observed -/

theorem routerObs_switch (rnf : Bool) (op : Str) (cases : List Flow.Case) (cats : List Category) (d : Id)
    (w : Option (Option (Nat × Id))) (rn : Option Str) :
    routerObs ⟨false, rnf⟩ (.switch op cases cats d w rn) =
      { kind := "switch".toList, operand := op, tests := cases.map fun k => (k.type, testArgs k),
        caseCats := [], otherCats := [], wait := w.map (fun o => o.map (·.1)),
        resultName := if rnf then rn else none } := rfl

theorem tests_of_typeargs (cs1 cs2 : List Flow.Case)
    (h : cs1.map (fun k => (k.type, k.args)) = cs2.map (fun k => (k.type, k.args))) :
    cs1.map (fun k => (k.type, testArgs k)) = cs2.map (fun k => (k.type, testArgs k)) := by
  have e : ∀ cs : List Flow.Case, cs.map (fun k => (k.type, testArgs k)) =
      (cs.map (fun k => (k.type, k.args))).map
        (fun (p : Str × List Str) => (p.1, if p.1 = "has_group".toList then p.2.drop 1 else p.2)) := by
    intro cs
    rw [List.map_map]
    exact List.map_congr_left (fun k _ => rfl)
  rw [e cs1, e cs2, h]

/-! ### the reference node -/

/-- the node `mkNode` builds around a `mkSwitch` router -/
def swNode (k : Nat) (sw : Router × List Exit) : Node :=
  { uuid := nodeId k, actions := [], router := some sw.1, exits := sw.2 }

abbrev RTests := List (Str × List Str × Option Id)

theorem zipIdx_fst_map {α β} (l : List α) (f : α → β) : l.zipIdx.map (fun p => f p.1) = l.map f := by
  have : (fun p : α × Nat => f p.1) = f ∘ Prod.fst := rfl
  rw [this, ← List.map_map, List.zipIdx_map_fst]

/-- the abstraction of a reference switch node: its exits, in order -/
theorem absNode_mkSwitch (rnf : Bool) (f : Flow) (k : Nat) (op : Str) (tests : RTests) (dflt : Option Id)
    (wait : Option (Option (Nat × Option Id))) (rn : Option Str) :
    absNode ⟨false, rnf⟩ f (swNode k (mkSwitch k op tests dflt wait rn)) =
      { acts := [],
        ask := some { kind := "switch".toList, operand := op, tests := tests.map (fun t =>
                        (t.1, if t.1 = "has_group".toList then t.2.1.drop 1 else t.2.1)),
                      caseCats := [], otherCats := [], wait := wait.map (fun o => o.map (·.1)),
                      resultName := if rnf then rn else none },
        dests := (tests.map (fun t => destIdx f t.2.2)) ++ [destIdx f dflt] ++
          (match wait with
           | some (some (_, td)) => [destIdx f td]
           | _ => []) } := by
  obtain ⟨h1, h2, h3, h4, h5, h6, h7⟩ := mkSwitch_shape k op tests dflt wait rn
  -- the explicit form of the router
  have hcases : ∀ (cs : List Flow.Case), cs = tests.zipIdx.map (fun (p : (Str × List Str × Option Id) × Nat) =>
      ({ uuid := subId k "k" p.2, type := p.1.1, args := p.1.2.1, catUuid := subId k "c" p.2 } : Flow.Case)) →
      cs.map (fun c => (c.type, testArgs c)) =
        tests.map (fun t => (t.1, if t.1 = "has_group".toList then t.2.1.drop 1 else t.2.1)) := by
    intro cs hcs
    rw [hcs, List.map_map]
    have := zipIdx_fst_map tests (fun t => (t.1, if t.1 = "has_group".toList then t.2.1.drop 1 else t.2.1))
    rw [← this]
    apply List.map_congr_left
    intro p _
    rfl
  have hexits : ∀ (es : List Exit), es = tests.zipIdx.map (fun (p : (Str × List Str × Option Id) × Nat) =>
      ({ uuid := subId k "e" p.2, dest := p.1.2.2 } : Exit)) →
      es.map (fun e => destIdx f e.dest) = tests.map (fun t => destIdx f t.2.2) := by
    intro es hes
    rw [hes, List.map_map]
    have := zipIdx_fst_map tests (fun t => destIdx f t.2.2)
    rw [← this]
    apply List.map_congr_left
    intro p _; rfl
  have hm : tests.length < swArity tests.length wait := by rcases wait with _ | _ | _ <;> simp [swArity]
  have hpos : ∀ (op' : Str) (cases : List Flow.Case) (cats : List Category) (d : Id)
      (w : Option (Option (Nat × Id))) (rn' : Option Str),
      (mkSwitch k op tests dflt wait rn).1 = .switch op' cases cats d w rn' →
      cats.length = routerArity (.switch op' cases cats d w rn') →
      Positional (swNode k (mkSwitch k op tests dflt wait rn)) op' cases cats d w rn' := by
    intro op' cases cats d w rn' hr hlen
    have c1 : cats.map (·.uuid) = (List.range (swArity tests.length wait)).map (subId k "c") := by
      have := h1; rw [hr] at this; exact this
    have c2 : cats.map (·.exitUuid) = (List.range (swArity tests.length wait)).map (subId k "e") := by
      have := h2; rw [hr] at this; exact this
    have c4 : cases.map (·.uuid) = (List.range tests.length).map (subId k "k") := by
      have := h4; rw [hr] at this; exact this
    have c5 : cases.map (·.catUuid) = (List.range tests.length).map (subId k "c") := by
      have := h5; rw [hr] at this; exact this
    have hcl : cases.length = tests.length := by
      have := congrArg List.length c4; simpa using this
    have hcatl : cats.length = swArity tests.length wait := by
      have := congrArg List.length c1; simpa using this
    have catu : ∀ i, i < cats.length → (cats[i]?).map (·.uuid) = some (subId k "c" i) := by
      intro i hi
      have hi' : i < swArity tests.length wait := by rw [← hcatl]; exact hi
      have : (cats.map (·.uuid))[i]? = some (subId k "c" i) := by
        rw [c1]; simp [hi']
      simpa using this
    refine ⟨by simp [swNode, hr], by rw [c1]; exact range_subId_nodup _ _ _, by
      simp only [swNode]; rw [h3]; exact range_subId_nodup _ _ _, by simp only [swNode]; rw [c2, h3], ?_, ?_, ?_, hlen⟩
    · intro i kk hk
      have hil : i < cases.length := (List.getElem?_eq_some_iff.mp hk).1
      have : (cases.map (·.catUuid))[i]? = some kk.catUuid := by simp [hk]
      rw [c5] at this
      have hit : i < tests.length := by rw [← hcl]; exact hil
      have h9 : (List.map (subId k "c") (List.range tests.length))[i]? = some (subId k "c" i) := by
        simp [hit]
      rw [h9] at this
      rw [catu i (by rw [hcatl]; omega)]
      exact this
    · have : Router.defaultCats (mkSwitch k op tests dflt wait rn).1 = [subId k "c" tests.length] := h6
      rw [hr] at this
      simp only [Router.defaultCats, List.cons.injEq, and_true] at this
      rw [hcl, catu _ (by rw [hcatl]; omega), this]
    · intro secs t hw
      have := h7 t (by rw [hr, hw]; simp [Router.timeoutCats])
      rw [hcl, catu _ (by rw [hcatl]; omega), this.1]
  rcases wait with _ | _ | ⟨secs, td⟩
  · have hr : (mkSwitch k op tests dflt none rn).1 = .switch op _ _ _ none rn := rfl
    have p := hpos _ _ _ _ _ _ hr (by simp [routerArity])
    rw [p.abs, routerObs_switch]
    simp only [swNode, List.map_nil, mkSwitch, List.map_append, List.map_cons, Option.map_none]
    congr 1
    · congr 1; congr 1; exact hcases _ rfl
    · rw [hexits _ rfl]; simp
  · have hr : (mkSwitch k op tests dflt (some none) rn).1 = .switch op _ _ _ (some none) rn := rfl
    have p := hpos _ _ _ _ _ _ hr (by simp [routerArity])
    rw [p.abs, routerObs_switch]
    simp only [swNode, List.map_nil, mkSwitch, List.map_append, List.map_cons, Option.map_some, Option.map_none]
    congr 1
    · congr 1; congr 1; exact hcases _ rfl
    · rw [hexits _ rfl]; simp
  · have hr : (mkSwitch k op tests dflt (some (some (secs, td))) rn).1 = .switch op _ _ _ (some (some (secs, _))) rn := rfl
    have p := hpos _ _ _ _ _ _ hr (by simp [routerArity])
    rw [p.abs, routerObs_switch]
    simp only [swNode, List.map_nil, mkSwitch, List.map_append, List.map_cons, Option.map_some]
    congr 1
    · congr 1; congr 1; exact hcases _ rfl
    · rw [hexits _ rfl]; simp

/-! ### the reference node of a deciding row -/

/-- the tests of the reference switch of a row of kind `K` -/
def refTests (K : Kind) (es : List OutEdge) : RTests :=
  (testsOf K es).map (fun e => ((refTest K e.cond).1, (refTest K e.cond).2, tgtDest e.tgt))

/-- the `wait` attribute of the reference switch -/
def refWait (r : RRow) (es : List OutEdge) : Option (Option (Nat × Option Id)) :=
  if r.kind = .wait then
    (if r.timeout = 0 then some none
     else some (some (r.timeout, lastTgt (es.filter (fun e => !e.cond.blank)) (fun e => isNR e.cond))))
  else none

theorem testsOf_wait (es : List OutEdge) :
    testsOf .wait es = (es.filter (fun e => !e.cond.blank)).filter (fun e => !isNR e.cond) := by
  unfold testsOf
  congr 1

theorem testsOf_other (K : Kind) (hK : K ≠ .wait) (es : List OutEdge) :
    testsOf K es = es.filter (fun e => !e.cond.blank) := by
  unfold testsOf
  have : (fun (e : OutEdge) => !(decide (K = Kind.wait) && isNR e.cond)) = fun _ => true := by
    funext e; simp [hK]
  rw [this, List.filter_true]

theorem mkNode_switch (k : Nat) (r : RRow) (es : List OutEdge)
    (hk : r.kind = .wait ∨ r.kind = .splitValue ∨ r.kind = .splitGroup) (hact : r.act = none) :
    mkNode k r es = swNode k (mkSwitch k r.operand (refTests r.kind es)
      (lastTgt (es.filter (·.cond.blank)) (fun _ => true)) (refWait r es) (some r.saveName)) := by
  rcases hk with h | h | h
  · unfold mkNode
    simp only [h, hact, swNode, refTests, refWait, testsOf_wait, refTest, List.map_map, if_true]
    have hne : ¬ (Kind.wait = Kind.splitGroup) := by decide
    simp only [hne, if_false]
    try rfl
  · unfold mkNode
    have hw : ¬ (Kind.splitValue = Kind.wait) := by decide
    simp only [h, hact, swNode, refTests, refWait, testsOf_other _ hw, refTest, List.map_map, hw, if_false]
    have hne : ¬ (Kind.splitValue = Kind.splitGroup) := by decide
    simp only [hne, if_false]
    try rfl
  · unfold mkNode
    have hw : ¬ (Kind.splitGroup = Kind.wait) := by decide
    simp only [h, hact, swNode, refTests, refWait, testsOf_other _ hw, refTest, List.map_map, hw, if_false, if_true]
    try rfl

/-! ### the compiled node of a deciding row -/

/-- the `wait` attribute the renderer gives a switch router -/
def renderWait (r : SwitchR) : Option (Option (Nat × Id)) :=
  match r.wait, r.noResp with
  | some (n + 1), some nr => some (some (n + 1, nr.uid))
  | some _, _ => some none
  | none, _ => none

theorem renderRouter_sw (r : SwitchR) :
    renderRouter (.sw r) = .switch r.operand (r.cases.map renderCase) (r.allCats.map renderCat) r.dflt.uid
      (renderWait r) r.resultName := rfl

/-- the abstraction of a compiled switch node (no actions): its categories' destinations, in order -/
theorem absNode_sw (rnf : Bool) (f : Flow) (n : NodeM) (r : SwitchR) (hr : n.router = some (.sw r))
    (hacts : n.actions = [])
    (hu : (r.allCats.map (·.uid)).Nodup) (he : (r.allCats.map (·.exitUid)).Nodup)
    (hcc : r.cases.map (·.catUid) = r.cats.map (·.uid))
    (hnr : r.noResp.isSome = true ↔ ∃ m, r.wait = some (m + 1)) :
    absNode ⟨false, rnf⟩ f (renderNode n) =
      { acts := [],
        ask := some { kind := "switch".toList, operand := r.operand,
                      tests := (r.cases.map renderCase).map (fun k => (k.type, testArgs k)),
                      caseCats := [], otherCats := [], wait := (renderWait r).map (fun o => o.map (·.1)),
                      resultName := if rnf then r.resultName else none },
        dests := r.allCats.map (fun c => destIdx f (renderDest c.dest)) } := by
  have hlen : r.cases.length = r.cats.length := by
    have := congrArg List.length hcc; simpa using this
  have hall : r.allCats.length = r.cats.length + 1 + r.noResp.toList.length := by
    simp [SwitchR.allCats]; omega
  have hexits : (renderNode n).exits = r.allCats.map renderExit := by simp [renderNode, hr]
  have p : Positional (renderNode n) r.operand (r.cases.map renderCase) (r.allCats.map renderCat) r.dflt.uid
      (renderWait r) r.resultName := by
    refine ⟨by simp [renderNode, hr, renderRouter_sw], ?_, ?_, ?_, ?_, ?_, ?_, ?_⟩
    · simpa [List.map_map, Function.comp_def, renderCat] using hu
    · rw [hexits]; simpa [List.map_map, Function.comp_def, renderExit] using he
    · rw [hexits]; simp [List.map_map, Function.comp_def, renderCat, renderExit]
    · intro i k hk
      simp only [List.getElem?_map] at hk ⊢
      cases hki : r.cases[i]? with
      | none => rw [hki] at hk; cases hk
      | some k0 =>
        rw [hki] at hk
        simp only [Option.map_some, Option.some.injEq] at hk
        subst hk
        have hil : i < r.cats.length := by rw [← hlen]; exact (List.getElem?_eq_some_iff.mp hki).1
        have h1 : (r.cases.map (·.catUid))[i]? = some k0.catUid := by simp [hki]
        rw [hcc] at h1
        have h2 : r.allCats[i]? = r.cats[i]? := by
          simp only [SwitchR.allCats, List.append_assoc]
          rw [List.getElem?_append_left hil]
        rw [h2]
        simp only [List.getElem?_map] at h1
        cases hci : r.cats[i]? with
        | none => rw [hci] at h1; cases h1
        | some c0 =>
          rw [hci] at h1
          simp only [Option.map_some, Option.some.injEq] at h1
          simp [renderCat, renderCase, h1]
    · simp only [List.length_map, List.getElem?_map, hlen]
      have : r.allCats[r.cats.length]? = some r.dflt := by
        simp only [SwitchR.allCats, List.append_assoc]
        rw [List.getElem?_append_right (Nat.le_refl _)]
        simp
      rw [this]; rfl
    · intro secs t hw
      simp only [List.length_map, List.getElem?_map, hlen]
      unfold renderWait at hw
      split at hw
      · rename_i m nr hwm hnrr
        simp only [Option.some.injEq, Prod.mk.injEq] at hw
        have : r.allCats[r.cats.length + 1]? = some nr := by
          simp only [SwitchR.allCats, hnrr, Option.toList]
          rw [List.getElem?_append_right (by simp)]
          simp
        rw [this]; simp [renderCat, hw.2]
      · cases hw
      · cases hw
    · simp only [List.length_map, routerArity, hall, hlen]
      rcases hw : r.wait with _ | _ | m
      · cases hnn : r.noResp with
        | none => simp [renderWait, hw, hnn]
        | some nr =>
          obtain ⟨m, hm⟩ := hnr.mp (by simp [hnn])
          rw [hw] at hm; cases hm
      · cases hnn : r.noResp with
        | none => simp [renderWait, hw, hnn]
        | some nr =>
          obtain ⟨m, hm⟩ := hnr.mp (by simp [hnn])
          rw [hw] at hm; cases hm
      · cases hnn : r.noResp with
        | none =>
          have := hnr.mpr ⟨m, hw⟩
          rw [hnn] at this; cases this
        | some nr => simp [renderWait, hw, hnn]
  rw [p.abs, routerObs_switch, hexits]
  simp only [renderNode, hacts, List.map_nil, List.map_map]
  congr 1

end Rpft.CoreSheet
