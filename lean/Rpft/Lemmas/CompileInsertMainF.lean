/-
Assembly, part F: the theorem on the compiler model.
-/
import Rpft.Lemmas.CompileInsertMainE
set_option linter.unusedVariables false
set_option linter.unusedSimpArgs false
set_option linter.unusedSectionVars false
namespace Rpft.Compile
open Rpft Function

theorem okIdsL_append (a b : List Event) : okIdsL (a ++ b) = (okIdsL a && okIdsL b) := by
  induction a with
  | nil => simp [okIdsL]
  | cons e es ih => simp [okIdsL, ih, Bool.and_assoc]

/-- the identifier flags used with the existing invariants: given identifiers are plain -/
def flg : Flags := ⟨True, False⟩

theorem evsOk_of (es : List Event) (h : okIdsL es = true) : EvsOk flg es := ⟨fun _ => h, fun hf => hf.elim⟩

theorem ainv_steps {s t : St} (a : AInv flg s) (es : List Event) (hid : okIdsL es = true)
    (hr : (steps es).run s = .ok ((), t)) : AInv flg t ∧ NExt s.nodes t.nodes :=
  wp_of_run (steps_spec flg es (evsOk_of es hid) s a trivial) hr

/-- the source group an edge is attached to exists -/
theorem groupOfEdge_valid {na nt : List Str} {s₀ : St} (hg : Good na nt s₀) {e : Edge} {src : Nat} {s' : St}
    (h : (groupOfEdge e).run s₀ = .ok (some src, s')) : src < s₀.groups.size := by
  unfold groupOfEdge at h
  by_cases h1 : e.from_ = "start".toList
  · simp only [h1, if_true] at h; cases h
  · simp only [h1, if_false] at h
    by_cases h2 : e.from_.isEmpty = true
    · simp only [h2, not_true_eq_false, if_false] at h
      rw [mostRecent_run] at h
      injection h with h; injection h with h _
      obtain ⟨b, _, cs, hgb, hc⟩ := mostRecentIn_mem' h
      exact (hg.wf b _ hgb).2 src (by simpa [grefs] using hc)
    · simp only [h2, Bool.false_eq_true, not_false_eq_true, if_true] at h
      rw [run_bind_of (lookupRow_run _ s₀)] at h
      cases hl : lookupIn s₀.rowIds e.from_ with
      | none => rw [hl] at h; cases h
      | some g =>
        rw [hl] at h
        injection h with h; injection h with h _
        injection h with h
        subst h
        exact hg.rv _ (lookupIn_mem hl)

theorem psOf_valid {na nt : List Str} {s₀ : St} (hg : Good na nt s₀) : ∀ (es : List Edge) (ps : List (Nat × Cond)),
    psOf s₀ es = some ps → ∀ p ∈ ps, p.1 < s₀.groups.size := by
  intro es
  induction es with
  | nil => intro ps h p hp; simp only [psOf, Option.some.injEq] at h; subst h; simp at hp
  | cons e es ih =>
    intro ps h p hp
    unfold psOf at h
    cases hge : (groupOfEdge e).run s₀ with
    | error err => rw [hge] at h; cases h
    | ok pr =>
      obtain ⟨a0, s'⟩ := pr
      rw [hge] at h
      cases a0 with
      | none => exact ih ps h p hp
      | some src =>
        simp only [] at h
        cases hps : psOf s₀ es with
        | none => rw [hps] at h; cases h
        | some ps' =>
          rw [hps] at h
          simp only [Option.map_some, Option.some.injEq] at h
          subst h
          simp only [List.mem_cons] at hp
          rcases hp with rfl | hp
          · exact groupOfEdge_valid hg hge
          · exact ih ps' hps p hp

theorem allIds_ok {s : St} (a : AInv flg s)
    (hdex : ∀ (i : Nat) (n : NodeM), s.nodes[i]? = some n → Below s.next n.dexitUid ∨ ¬ Invented n.dexitUid) :
    ∀ (i : Nat) (m : NodeM), s.nodes[i]? = some m → ∀ x ∈ m.allIds, IdOk s.next x :=
  fun i m hm => allIds_range a hdex hm

theorem rhoOf_idOk {π : Nat → Nat} {B : Nat} (hπ : ∀ k, k < B → π k = k) {x : Uid} (h : IdOk B x) : rhoOf π x = x := by
  rcases h with ⟨k, hk, rfl⟩ | h
  · rw [rhoOf_tid, hπ k hk]
  · exact rhoOf_plain _ h

theorem entryNode_two {s : St} {G c i : Nat} {cs l : List Nat} {t : Str}
    (h1 : s.groups[G]? = some (.block (c :: cs))) (h2 : s.groups[c]? = some (.row (i :: l) t)) (f : Nat) :
    wp (entryNode f G) s (fun j _ => j = i) := by
  cases f with
  | zero => unfold entryNode; rw [wp_fail]; trivial
  | succ f =>
    unfold entryNode
    rw [wp_bind, wp_getGrp]
    intro g hg
    rw [h1] at hg; cases hg
    simp only [List.head?_cons]
    cases f with
    | zero => unfold entryNode; rw [wp_fail]; trivial
    | succ f =>
      unfold entryNode
      rw [wp_bind, wp_getGrp]
      intro g hg
      rw [h2] at hg; cases hg
      simp only [List.head?_cons]
      rw [wp_pure]

theorem run_steps_cons_of {e : Event} {es : List Event} {s u t : St} (h1 : (step e).run s = .ok ((), u))
    (h2 : (steps es).run u = .ok ((), t)) : (steps (e :: es)).run s = .ok ((), t) := by
  rw [steps, run_bind_of h1]; exact h2

theorem run_steps_nil_of (s : St) : (steps []).run s = .ok ((), s) := by rw [steps]; rfl

/-- **the insert row and its twin block compile to the same flow up to an injective renaming of
identifiers**, on the compiler model -/
theorem insert_twin_nodes (md : Bool) (na nt : List Str) (pre post rest : List Event) (r r₁ : Row)
    (he : EntryRow r₁) (hns : noStartL rest = true) (hnn : noNamesL rest = true)
    (hid : okIdsL (pre ++ [.insert r (.row r₁ :: rest)] ++ post) = true)
    (htop : md = false → ∀ s₀, (steps pre).run (initSt na nt) = .ok ((), s₀) → s₀.stack.length = 1)
    (F : List Str) (hFr : md = false → (r.rowId = [] ∨ r.rowId ∈ F))
    (hPL : md = true → ∀ s₀ o₂ a₂, (steps pre).run (initSt na nt) = .ok ((), s₀) →
      (openGroup r.edges false).run s₀ = .ok ((), o₂) →
      (step (.row (retargetRow r₁))).run o₂ = .ok ((), a₂) → Inert (s₀.groups.size + 1) a₂)
    (hnl : md = true → noLooseL post = true)
    (hFk : ∀ s₀ v, (steps pre).run (initSt na nt) = .ok ((), s₀) →
      (steps (.row r₁ :: rest)).run (enterSt s₀) = .ok ((), v) → ∀ p ∈ v.rowIds, p.1 ∈ F)
    (hNv : ∀ s₀, (steps pre).run (initSt na nt) = .ok ((), s₀) → ∀ p ∈ s₀.names, p.2 < s₀.nodes.size)
    (hNm : ∀ s₀ o₂ b₂, (steps pre).run (initSt na nt) = .ok ((), s₀) →
      (openGroup r.edges false).run s₀ = .ok ((), o₂) →
      (steps (.row (retargetRow r₁) :: rest)).run o₂ = .ok ((), b₂) →
      ∀ x, x ≠ [] → lookupIn b₂.names x = lookupIn s₀.names x)
    (havA : md = false → avoids F true 0 post = true)
    (havB : md = true → avoidsOpen F post = true)
    {o₁ o₂ : Out}
    (h₁ : compile na nt (pre ++ [.insert r (.row r₁ :: rest)] ++ post) = .ok o₁)
    (h₂ : compile na nt (pre ++ twin r (.row r₁ :: rest) ++ post) = .ok o₂) :
    ∃ ρ : Uid → Uid, Injective ρ ∧ o₂.nodes = o₁.nodes.map (rnNode ρ) := by
  obtain ⟨f₁, hr₁, hl₁, ho₁⟩ := compile_ok h₁
  obtain ⟨f₂, hr₂, hl₂, ho₂⟩ := compile_ok h₂
  -- identifiers given in the sheet are plain, in every part
  have hid' : okIdsL pre = true ∧ ((decide (¬ Invented r₁.nodeUuid) = true ∧ okIdsL rest = true) ∧
      okIdsL post = true) := by
    simpa [okIdsL_append, okIdsL, Event.okIds] using hid
  obtain ⟨hid_pre, hid_body, hid_post⟩ := hid'
  -- the runs
  rw [List.append_assoc] at hr₁ hr₂
  obtain ⟨s₀, hp₁, hq₁⟩ := run_steps_append hr₁
  obtain ⟨s₀', hp₂, hq₂⟩ := run_steps_append hr₂
  obtain ⟨_, hs0⟩ := run_det hp₁ hp₂
  subst hs0
  rw [List.singleton_append] at hq₁
  obtain ⟨z₁, hi₁, hpost₁⟩ := run_steps_cons hq₁
  obtain ⟨a₁, b₁, hF₁, hR₁, hL₁⟩ := insert_run hi₁
  obtain ⟨o₂', a₂, b₂, z₂, hO₂, hF₂, hR₂, hC₂, hpost₂⟩ := twin_run hns hq₂
  -- the state before the block
  have hg : Good na nt s₀ := good_run hid_pre hp₁
  have ha0 : AInv flg s₀ := (ainv_steps (ainv_init flg na nt) pre hid_pre hp₁).1
  have hids0 := allIds_ok ha0 hg.dex
  have hbinv := final_binv hp₁
  obtain ⟨h₀, Stk, hS⟩ : ∃ h₀ Stk, s₀.stack = h₀ :: Stk := by
    have := hbinv.st.last
    cases hst : s₀.stack with
    | nil => rw [hst] at this; cases this
    | cons a l => exact ⟨a, l, rfl⟩
  have hstkA : md = false → s₀.stack = [0] := fun hm => final_stack hbinv (htop hm s₀ hp₁)
  -- the twin's begin_block
  obtain ⟨ps, hps, ho⟩ := wp_of_run (openGroup_twin s₀ (fun b hb => hg.sb.lt hb) r.edges) hO₂
  subst ho
  have hpsv := psOf_valid hg _ _ hps
  -- the entry row on both sides: the same action, the same node, the same number of identifiers
  obtain ⟨act, n, k0, k1, hA₁, hN₁, ha₁⟩ := first_ins hg he hF₁
  subst ha₁
  obtain ⟨act', n', k0', k1', e₂, t', hA₂, hN₂, hE₂, hAp₂, ha₂⟩ := first_twin he hF₂
  obtain ⟨eact, k, ek1, ek2⟩ := same_rowAction (idSync_id (s := enterSt s₀) (t := twO s₀ ps) rfl rfl rfl) hA₁ hA₂
  have hk0 : k0' = k0 := by
    have h1 := congrArg St.next ek1
    have h2 := congrArg St.next ek2
    simp only [enterSt, twO] at h1 h2
    omega
  subst hk0; subst eact
  obtain ⟨en, k', ek1', ek2'⟩ := same_rowNode
    (idSync_id (s := { enterSt s₀ with next := s₀.next + k0' }) (t := { twO s₀ ps with next := s₀.next + k0' })
      rfl rfl rfl) hN₁ hN₂
  have hk1 : k1' = k1 := by
    have h1 := congrArg St.next ek1'
    have h2 := congrArg St.next ek2'
    simp only [] at h1 h2
    omega
  subst hk1; subst en
  -- the entry node: its identifiers
  have hdn : Below (s₀.next + (k0' + k1')) n'.dexitUid := by
    have := wp_of_run (rowNode_dex r₁ act' _) hN₁
    simpa [DexQ, Nat.add_assoc] using this
  have haE : AInv flg (enterSt s₀) := AInv.of_eq ha0 rfl rfl
  have haA := wp_of_run (parseRow_spec flg r₁ ⟨fun _ => by simpa using hid_body.1, fun hf => hf.elim⟩
    (enterSt s₀) haE trivial) hF₁
  have hdexA : ∀ (i : Nat) (m : NodeM), (insA s₀ r₁ n' (k0' + k1')).nodes[i]? = some m →
      Below (insA s₀ r₁ n' (k0' + k1')).next m.dexitUid ∨ ¬ Invented m.dexitUid := by
    intro i m hm
    show Below (s₀.next + (k0' + k1')) m.dexitUid ∨ _
    rcases insA_nodes_cases hm with ⟨_, h1⟩ | ⟨_, rfl⟩
    · rcases hg.dex i m h1 with h' | h'
      · exact .inl (h'.mono (Nat.le_add_right _ _))
      · exact .inr h'
    · exact .inl hdn
  have hnids : ∀ x ∈ n'.allIds, IdOk (s₀.next + (k0' + k1')) x :=
    allIds_ok haA.1 hdexA s₀.nodes.size n' (by show (s₀.nodes.push n')[s₀.nodes.size]? = _; simp)
  -- the twin after the edges into the block
  obtain ⟨fe1, fe2, fe3, fe4, fe5, fe6, fe7, fe8, fe9, fe10⟩ :=
    twin_E_frame hg ps n' (k0' + k1') hpsv (.inl hdn) _ _ hE₂
  have hE2 : E2Facts na nt s₀ n' (k0' + k1') e₂ :=
    ⟨fe1, fe2, fe4.1, fe4.2.1, fe4.2.2, fe5, fe6, fe7, fe8, by omega⟩
  -- the twin after the entry row
  have ha₂' : a₂ = twA s₀ e₂ r₁ := by
    obtain ⟨b, rest', cs, hst, hgb, ht'⟩ := appendGroup_run hAp₂
    have hst' : e₂.stack = b :: rest' := hst
    rw [hE2.stack] at hst'
    injection hst' with hb _
    subst hb
    have hgb' : (e₂.groups.push (Grp.row [s₀.nodes.size] r₁.type))[s₀.groups.size]? = some (.block cs) := hgb
    rw [Array.getElem?_push, if_neg (by omega), hE2.blk] at hgb'
    injection hgb' with hgb'; injection hgb' with hgb'
    subst hgb'
    rw [ha₂, ht']
    rfl
  subst ha₂'
  -- the rest of the template, in the clean scope
  have hidr : r₁.rowId.isEmpty = false ∨ r₁.rowId = [] := by cases r₁.rowId <;> simp
  obtain ⟨hS0, hCL0, hSB0, hRV0⟩ := simR_establish hg hidr hnids hE2
  obtain ⟨hSR, hEff⟩ := steps_clean rest hid_body.2 _ (XR s₀) _ _ (PR_ok na nt s₀ _ e₂ _ _) hS0 rfl (.inr hnn)
    hCL0 hSB0 hRV0 (fun h => Bool.noConfusion h) () b₁ () b₂ hR₁ hR₂
  -- the nested parser returns
  obtain ⟨hlen, i, nn, x₁, hEN, hnn1, hEd₁, hApp₁⟩ := insertLeave_run hL₁
  have hb1stk : b₁.stack = [s₀.groups.size] := by
    rcases hSR.2.tl with h' | ⟨_, h'⟩
    · have h'' : s₀.stack = [] := h'
      rw [hS] at h''; cases h''
    · have h'' : b₁.stack.getLast? = some s₀.groups.size := h'
      cases hb : b₁.stack with
      | nil => rw [hb] at hlen; cases hlen
      | cons x xs =>
        cases xs with
        | nil => rw [hb] at h''; simp at h''; rw [h'']
        | cons y ys => rw [hb] at hlen; simp at hlen
  have hAG : (insA s₀ r₁ n' (k0' + k1')).groups[s₀.groups.size]? = some (.block [s₀.groups.size + 1]) := by
    show ((s₀.groups.push _).push _)[s₀.groups.size]? = _
    simp [Array.getElem?_push]
  have hAG1 : (insA s₀ r₁ n' (k0' + k1')).groups[s₀.groups.size + 1]? = some (.row [s₀.nodes.size] r₁.type) := by
    show ((s₀.groups.push _).push _)[s₀.groups.size + 1]? = _
    rw [Array.getElem?_push, if_pos (by simp)]
  obtain ⟨csB, hBG⟩ := hEff.hk.2.1 _ _ _ hAG
  obtain ⟨lB, hBG1⟩ := hEff.hk.1 _ _ _ _ hAG1
  have hi : i = s₀.nodes.size := wp_of_run (entryNode_two (s := restoreSt b₁ s₀) hBG hBG1 _) hEN
  subst hi
  have haB := ainv_steps haA.1 rest hid_body.2 hR₁
  obtain ⟨n'', hn''1, hn''2⟩ := haB.2 s₀.nodes.size n'
    (by show (s₀.nodes.push n')[s₀.nodes.size]? = _; simp)
  have hnn2 : nn.uid = n'.uid := by
    have : b₁.nodes[s₀.nodes.size]? = some nn := hnn1
    rw [hn''1] at this
    injection this with this
    rw [← this]; exact hn''2
  rw [hnn2] at hEd₁
  have hB1 : B1Facts na nt s₀ (k0' + k1') b₁ := by
    refine ⟨?_, ?_, hSR.1.na₁, hSR.1.nt₁, hSR.1.mono₁.1, ?_, ?_⟩
    · intro j hj
      rw [hSR.1.fr1n j (by show ¬ (s₀.nodes.size ≤ j); omega)]
      show (s₀.nodes.push n')[j]? = _
      rw [Array.getElem?_push, if_neg (by omega)]
    · intro j hj
      rw [hSR.1.fr1g j (by show ¬ (s₀.groups.size ≤ j); omega)]
      show ((s₀.groups.push _).push _)[j]? = _
      rw [Array.getElem?_push, if_neg (by simp; omega), Array.getElem?_push, if_neg (by omega)]
    · have := hSR.1.mono₁.2.1
      have e : (insA s₀ r₁ n' (k0' + k1')).nodes.size = s₀.nodes.size + 1 := by
        show (s₀.nodes.push n').size = _; simp
      show s₀.nodes.size + 1 ≤ _
      rw [← e]; exact this
    · have := hSR.1.mono₁.2.2
      have e : (insA s₀ r₁ n' (k0' + k1')).groups.size = s₀.groups.size + 2 := by
        show ((s₀.groups.push _).push _).size = _; simp
      show s₀.groups.size + 2 ≤ _
      rw [← e]; exact this
  -- the edges into the block, applied on both sides
  have hAE := asimE_establish hg hids0 hpsv (.inl hdn) hB1 (w := restoreSt b₁ s₀) (ps := ps) (n := n')
    rfl rfl rfl rfl rfl
  have hSL : ScopeLike s₀ (restoreSt b₁ s₀) :=
    ⟨rfl, mostRecentIn_congr s₀.stack (fun b hb => hB1.groups b (hg.sb.lt hb))⟩
  have hdE : rnDest (PE na nt s₀ (k0' + k1') b₁ (twT s₀ ps n' (k0' + k1')) (restoreSt b₁ s₀)).ρ (.node n'.uid) =
      .node n'.uid := by
    show Dest.node (rhoOf _ n'.uid) = _
    rw [rhoOf_idOk (B := s₀.next + (k0' + k1')) (fun k hk => shiftFrom_lt hk) (hnids _ (by simp [NodeM.allIds]))]
  obtain ⟨hAE', hse2, hsx, hbe2, hbx⟩ := E_rel (PE_ok na nt s₀ (k0' + k1') b₁ _ _) s₀ (.node n'.uid) hdE (fun h => Bool.noConfusion h) _
    (fun src hsrc => ⟨shiftFrom_lt (by omega), .inl hsrc, by show ¬ (src = s₀.groups.size); omega⟩)
    (fun e src s' h => groupOfEdge_valid hg h) (dropTrivial r.edges) ps hps _ _ hAE hSL () e₂ () x₁ hE₂ hEd₁
  -- the twin's end_block
  obtain ⟨bb, cc, rr, hbst, hApp₂⟩ := closeGroup_run hC₂
  have hb2stk : b₂.stack = s₀.groups.size :: s₀.stack := by
    have e : b₂.stack = b₁.stack.map (shiftFrom (s₀.groups.size + 1) (e₂.groups.size - (s₀.groups.size + 1))) ++
        s₀.stack := hSR.2.stack
    rw [hb1stk] at e
    rw [e]
    show [shiftFrom _ _ _] ++ s₀.stack = _
    rw [shiftFrom_lt (by omega)]; rfl
  rw [hb2stk, hS] at hbst
  injection hbst with hbb hbst
  injection hbst with hcc hrr
  subst hbb; subst hcc; subst hrr
  rw [← hS] at hApp₂
  -- the state after the insert row
  have hid_ins : okIdsL [.insert r (.row r₁ :: rest)] = true := by
    simpa [okIdsL, Event.okIds] using hid_body
  have hrun_ins := run_steps_cons_of hi₁ (run_steps_nil_of z₁)
  have hgz : Good na nt z₁ := (good_steps hg _ hid_ins hrun_ins).1
  have haz : AInv flg z₁ := (ainv_steps ha0 _ hid_ins hrun_ins).1
  obtain ⟨b0, rest0, cs0, hxst, hxg, hz₁⟩ := appendGroup_run hApp₁
  have hx1stk : x₁.stack = s₀.stack := hsx.1
  rw [hx1stk, hS] at hxst
  injection hxst with hb0 _
  subst hb0
  have hzn : z₁.nodes = x₁.nodes := by rw [hz₁]
  have hznx : z₁.next = x₁.next := by rw [hz₁]
  have hzgs : z₁.groups.size = x₁.groups.size := by rw [hz₁]; simp
  have hzg : ∀ j, j ≠ h₀ → z₁.groups[j]? = x₁.groups[j]? := by
    intro j hj
    rw [hz₁]
    show (x₁.groups.setIfInBounds h₀ _)[j]? = _
    rw [Array.getElem?_setIfInBounds, if_neg (Ne.symm hj)]
  have hzg0 : z₁.groups[h₀]? = some (.block (cs0 ++ [s₀.groups.size])) := by
    rw [hz₁]
    show (x₁.groups.setIfInBounds h₀ _)[h₀]? = _
    rw [Array.getElem?_setIfInBounds, if_pos rfl, if_pos (Array.getElem?_eq_some_iff.mp hxg).1]
  have hra0x : ∀ (j : Nat) (g : Grp), j ≠ 0 → x₁.groups[j]? = some g → ∀ x ∈ grefs g, x ≠ 0 := by
    intro j g hj0 hj x hx
    by_cases jh : j = h₀
    · subst jh
      rw [hxg] at hj; injection hj with hj; subst hj
      exact hgz.ra j _ hj0 hzg0 x (by simp only [grefs] at hx ⊢; exact List.mem_append_left _ hx)
    · exact hgz.ra j g hj0 (by rw [hzg j jh]; exact hj) x hx
  have hs := sizes_of hSR.1 hAE' hB1.next fe7 hB1.nsz fe8 fe9 hB1.gsz
  have haB1 := haB.1
  have hAF := asimF_glue hSR.1 hAE' hs (y₂ := { b₂ with stack := s₀.stack }) rfl
    (by
      intro j hj1 hj2
      show ((e₂.groups.push _).setIfInBounds s₀.groups.size _)[j]? = _
      rw [Array.getElem?_setIfInBounds, if_neg (Ne.symm hj1), Array.getElem?_push, if_neg (by omega)])
    rfl rfl rfl rfl rfl rfl rfl
    (allIds_ok haB1 hSR.1.dex)
    (fun i m hm x hx => by
      have := allIds_ok haz hgz.dex i m (by rw [hzn]; exact hm) x hx
      rw [hznx] at this; exact this)
    (by
      intro j g hj
      by_cases j0 : j = h₀
      · subst j0
        rw [hxg] at hj; injection hj with hj; subst hj
        have := hgz.wf j _ hzg0
        refine ⟨by intro i hi; simp [gnodes] at hi, fun x hx => ?_⟩
        have := this.2 x (by simp only [grefs] at hx ⊢; exact List.mem_append_left _ hx)
        rw [hzgs] at this; exact this
      · have := hgz.wf j g (by rw [hzg j j0]; exact hj)
        rw [hzn, hzgs] at this; exact this)
    (fun i n hn => by
      have := hgz.dex i n (by rw [hzn]; exact hn)
      rw [hznx] at this; exact this)
    hra0x
  -- the scopes after the block correspond
  have hF₁' : (step (.row r₁)).run (enterSt s₀) = .ok ((), insA s₀ r₁ n' (k0' + k1')) := by
    unfold step; exact hF₁
  have hF₂' : (step (.row (retargetRow r₁))).run (twO s₀ ps) = .ok ((), twA s₀ e₂ r₁) := by
    unfold step; exact hF₂
  have hxr : x₁.rowIds = s₀.rowIds := hsx.2.1
  have hxn : x₁.names = s₀.names := hsx.2.2
  -- the begin row of the twin block, kept as its first child
  have hgxb : b₂.groups[s₀.groups.size + 1]? = some (.noop ps none) := by
    rw [hSR.1.fr2g (s₀.groups.size + 1) ?_]
    · show ((e₂.groups.push _).setIfInBounds s₀.groups.size _)[s₀.groups.size + 1]? = _
      rw [Array.getElem?_setIfInBounds, if_neg (by omega), Array.getElem?_push, if_neg (by omega)]
      exact fe3
    · intro j hj e
      have hj' : s₀.groups.size ≤ j := hj
      have e' : shiftFrom (s₀.groups.size + 1) (e₂.groups.size - (s₀.groups.size + 1)) j = s₀.groups.size + 1 := e
      unfold shiftFrom at e'
      split at e' <;> omega
  -- open mode: it is inert
  have hin : md = true → Inert (s₀.groups.size + 1) { b₂ with stack := s₀.stack } := by
    intro hmd
    obtain ⟨ps', hgx', hps'⟩ := hPL hmd s₀ _ _ hp₁ hO₂ hF₂'
    have e0 : (twA s₀ e₂ r₁).groups[s₀.groups.size + 1]? = some (.noop ps none) := by
      show ((e₂.groups.push _).setIfInBounds s₀.groups.size _)[s₀.groups.size + 1]? = _
      rw [Array.getElem?_setIfInBounds, if_neg (by omega), Array.getElem?_push, if_neg (by omega)]
      exact fe3
    rw [e0] at hgx'
    injection hgx' with hgx'; injection hgx' with hgx' _
    subst hgx'
    refine ⟨ps, hgxb, fun p hp => ?_⟩
    obtain ⟨nodes, t, hgp, hn⟩ := hps' p hp
    have hplt := hpsv p hp
    have hgp_e : e₂.groups[p.1]? = some (.row nodes t) := by
      have : (twA s₀ e₂ r₁).groups[p.1]? = e₂.groups[p.1]? := by
        show ((e₂.groups.push _).setIfInBounds s₀.groups.size _)[p.1]? = _
        rw [Array.getElem?_setIfInBounds, if_neg (by omega), Array.getElem?_push, if_neg (by omega)]
      rw [← this]; exact hgp
    have hcl := (hAE'.closed p.1 _ (.inl hplt) hgp_e).1
    have hwf := (hAE'.wf p.1 _ hgp_e).1
    refine ⟨nodes, t, ?_, fun i hi => ?_⟩
    · show b₂.groups[p.1]? = _
      rw [hSR.1.fr2g p.1 ?_]
      · exact hgp
      · intro j hj e
        have hj' : s₀.groups.size ≤ j := hj
        have e' : shiftFrom (s₀.groups.size + 1) (e₂.groups.size - (s₀.groups.size + 1)) j = p.1 := e
        unfold shiftFrom at e'
        split at e' <;> omega
    · obtain ⟨n, hn1, hn2⟩ := hn i hi
      have hi1 : i ≠ s₀.nodes.size := hcl i hi
      have hi2 : i < e₂.nodes.size := hwf i hi
      refine ⟨n, ?_, hn2⟩
      show b₂.nodes[i]? = _
      rw [hSR.1.fr2n i ?_]
      · exact hn1
      · intro j hj e
        have hj' : s₀.nodes.size ≤ j := hj
        have e' : shiftFrom (s₀.nodes.size + 1) (e₂.nodes.size - (s₀.nodes.size + 1)) j = i := e
        unfold shiftFrom at e'
        split at e' <;> omega
  have okF := PFm_ok md na nt s₀ (k0' + k1') e₂ b₁ x₁ { b₂ with stack := s₀.stack } hB1.next hB1.nsz
  have hAFm := asimF_mode md hAF hin
  have hTsub : ∀ j, (PFm md na nt s₀ (k0' + k1') e₂ b₁ x₁ { b₂ with stack := s₀.stack }).T j →
      j = s₀.groups.size ∨ j = 0 := by
    intro j hj
    exact hj.2
  have hSS : SSim (PFm md na nt s₀ (k0' + k1') e₂ b₁ x₁ { b₂ with stack := s₀.stack }) ⟨[], F, true, b₂.rowIds⟩ x₁
      { b₂ with stack := s₀.stack } := by
    constructor
    · show s₀.stack = x₁.stack.map (shiftFrom (s₀.groups.size + 1) 1) ++ []
      rw [hx1stk, List.append_nil, map_eq_self (fun b hb => shiftFrom_lt (Nat.lt_succ_of_lt (hg.sb.lt hb)))]
    · intro _ _; trivial
    · exact .inl rfl
    · intro _ _; trivial
    · rw [hx1stk]
      cases hmd : md with
      | false => rw [hstkA hmd]; exact List.pairwise_singleton _ _
      | true =>
        refine hg.ss.imp ?_
        intro a b _ ht
        exact Bool.noConfusion (show true = false from ht.1)
    · intro id j hidF hl
      rw [hxr] at hl
      have hjlt := hg.rv _ (lookupIn_mem hl)
      have hk2 := hSR.2.rk2 id (fun p hp e => hidF (e ▸ hFk s₀ b₁ hp₁ (run_steps_cons_of hF₁' hR₁) p hp))
      show lookupIn b₂.rowIds id = some (shiftFrom (s₀.groups.size + 1) 1 j)
      rw [shiftFrom_lt (Nat.lt_succ_of_lt hjlt), hk2]; exact hl
    · intro _ _; trivial
    · intro p hp hT
      rw [hxr] at hp
      have h1 := hg.rv p hp
      have h2 := hg.r0 p hp
      rcases hTsub _ hT with h | h
      · omega
      · exact absurd h h2
    · rw [hxr]; exact hg.rk
    · intro id _; rfl
    · intro _ x hx
      show lookupIn b₂.names x = (lookupIn x₁.names x).map (swapFrom (s₀.nodes.size + 1) b₁.nodes.size _)
      rw [hxn, hNm s₀ _ b₂ hp₁ hO₂ (run_steps_cons_of hF₂' hR₂) x hx]
      cases hl : lookupIn s₀.names x with
      | none => rfl
      | some i =>
        have := hNv s₀ hp₁ _ (lookupIn_mem hl)
        show some i = some (swapFrom _ _ _ i)
        rw [swapFrom_lt (Nat.lt_succ_of_lt this)]
    · intro _ _; trivial
  have hxG : s₀.groups.size < x₁.groups.size := by have := hs.x1groups; have := hB1.gsz; omega
  have hcl := appendGroup_rel okF (X := ⟨[], F, true, b₂.rowIds⟩) ⟨hAFm, hSS⟩ (g := s₀.groups.size) r.rowId trivial hxG
    (fun ht => ⟨fun b hb => by
        rw [hx1stk, hstkA ht.1] at hb; injection hb with hb; subst hb; exact ⟨ht.1, .inr rfl⟩,
      fun hne => by
        rcases hFr ht.1 with h | h
        · exact absurd h hne
        · exact h⟩)
  have hγG : (PFm md na nt s₀ (k0' + k1') e₂ b₁ x₁ { b₂ with stack := s₀.stack }).γ s₀.groups.size = s₀.groups.size :=
    shiftFrom_lt (Nat.lt_succ_self _)
  rw [hγG] at hcl
  obtain ⟨hSZ, _, _, _, _, _, _, hmrz⟩ := hcl () z₁ () z₂ hApp₁ hApp₂
  -- the rows after the block
  have hSF : Sim (PFm md na nt s₀ (k0' + k1') e₂ b₁ x₁ { b₂ with stack := s₀.stack }) ⟨[], F, true, b₂.rowIds⟩ f₁ f₂ := by
    cases hmd : md with
    | false =>
      have hTop : TopInv (PFm md na nt s₀ (k0' + k1') e₂ b₁ x₁ { b₂ with stack := s₀.stack }) true 0 z₁ :=
        ⟨fun hm => Bool.noConfusion hm, fun b hb => by simp at hb, hgz.sb, hgz.rv⟩
      have := steps_top okF (X := ⟨[], F, true, b₂.rowIds⟩) rfl post true 0 z₁ z₂ (havA hmd) hid_post hSZ hTop
        (fun hop => by rw [hmd] at hop; exact Bool.noConfusion hop) () f₁ () f₂ hpost₁ hpost₂
      rw [hmd] at this; exact this
    | true =>
      have := steps_open okF (X := ⟨[], F, true, b₂.rowIds⟩) rfl
        (fun j hj => by rw [hmd] at hj; exact Bool.noConfusion hj.1) post z₁ z₂ (havB hmd) hid_post hSZ hgz.sb hgz.rv
        (fun _ => hnl hmd) () f₁ () f₂ hpost₁ hpost₂
      rw [hmd] at this; exact this
  -- the emitted nodes
  have hgx : ∃ ps', f₂.groups[s₀.groups.size + 1]? = some (.noop ps' none) := by
    refine ⟨ps, ?_⟩
    rw [hSF.1.fr2g (s₀.groups.size + 1) ?_]
    · exact hgxb
    · intro j _ e
      have e' : shiftFrom (s₀.groups.size + 1) 1 j = s₀.groups.size + 1 := e
      unfold shiftFrom at e'
      split at e' <;> omega
  have hout := out_sim okF hSF.1 (fun _ => trivial) (fun _ => trivial) (fun _ => hgx)
    (kidsUp_of_ginv (final_ginv (final_binv hr₁) hl₁)) (kidsUp_of_ginv (final_ginv (final_binv hr₂) hl₂))
    (show shiftFrom (s₀.groups.size + 1) 1 0 = 0 from shiftFrom_lt (Nat.succ_pos _))
  exact ⟨_, okF.hρ, by rw [ho₁, ho₂]; exact hout⟩

end Rpft.Compile
