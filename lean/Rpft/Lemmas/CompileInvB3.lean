/-
Layer B, node groups: `connect_loose_exits` and most of `add_exit` do not touch the group arena;
where `add_exit` creates a node (router behind a basic node, router of a `no_op` row) the node
joins the group at once.
-/
import Rpft.Lemmas.CompileInvB2
import Rpft.Lemmas.CompileInvA5
set_option linter.unusedSimpArgs false
set_option linter.unusedVariables false
namespace Rpft.Compile
open Rpft

/-- an operation that leaves the group arena, the stack and the size of the node arena alone -/
def BFrame {α} (m : M α) : Prop :=
  ∀ s, wp m s (fun _ s' => s'.groups = s.groups ∧ s'.stack = s.stack ∧ s'.nodes.size = s.nodes.size)

theorem BFrame.of_ro {α} {m : M α} (h : ReadOnly m) : BFrame m := by
  intro s; exact wp_ro h s _ (fun _ => ⟨rfl, rfl, rfl⟩)

theorem BFrame.pure {α} (a : α) : BFrame (pure a : M α) := by
  intro s; rw [wp_pure]; exact ⟨rfl, rfl, rfl⟩

theorem BFrame.forM {β} (l : List β) (f : β → M PUnit) (hf : ∀ x ∈ l, BFrame (f x)) : BFrame (l.forM f) := by
  intro s
  exact wp_forM (fun s' => s'.groups = s.groups ∧ s'.stack = s.stack ∧ s'.nodes.size = s.nodes.size) l f (by
    intro x hx s1 ⟨h1, h2, h3⟩
    refine wp_mono (hf x hx s1) ?_
    intro _ s2 ⟨k1, k2, k3⟩
    exact ⟨k1.trans h1, k2.trans h2, k3.trans h3⟩) s ⟨rfl, rfl, rfl⟩

theorem connectNode_frame (i : Nat) (d : Dest) : BFrame (connectNode i d) := by
  intro s
  unfold connectNode
  wp_simp [wp_getNode, wp_setNode]
  intro n _; simp

theorem connectLoose_frame (d : Dest) : ∀ fuel g, BFrame (connectLoose fuel g d) := by
  intro fuel
  induction fuel with
  | zero => intro g s; unfold connectLoose; wp_simp
  | succ fuel ih =>
    intro g s
    unfold connectLoose
    wp_simp [wp_getGrp]
    intro grp _
    split
    · split
      · exact BFrame.pure _ s
      · exact connectNode_frame _ d s
    · split
      · exact connectNode_frame _ d s
      · exact BFrame.forM _ _ (fun x _ => ih x.1) s
    · exact BFrame.forM _ _ (fun x _ => ih x) s

theorem updSwitch_frame (i : Nat) (d : Dest) (f : SwitchR → M SwitchR) (hf : SwUpd d f) :
    BFrame (updSwitch i f) := by
  intro s
  unfold updSwitch
  wp_simp [wp_getNode]
  intro n hn
  split
  · rename_i r hr
    wp_simp [wp_setNode]
    refine wp_mono (hf r s) ?_
    intro r' s1 ⟨k, hb, _⟩
    subst hb; simp
  · wp_simp

theorem rowExitBlank_frame (i : Nat) (n : NodeM) (d : Dest) : BFrame (rowExitBlank i n d) := by
  intro s
  unfold rowExitBlank
  split
  · wp_simp [wp_fresh', wp_setNode]; simp
  · wp_simp
  · exact updSwitch_frame i d _ (swUpd_setDflt d) s

theorem rowExitEnter_frame (i : Nat) (c : Cond) (d : Dest) : BFrame (rowExitEnter i c d) := by
  intro s
  unfold rowExitEnter
  wp_simp
  exact ⟨fun _ => updSwitch_frame i d _ (swUpd_byName _ d) s,
    fun _ => ⟨fun _ => updSwitch_frame i d _ (swUpd_setDflt d) s, fun _ => trivial⟩⟩

theorem rowExitHook_frame (i : Nat) (c : Cond) (d : Dest) : BFrame (rowExitHook i c d) := by
  intro s
  unfold rowExitHook
  wp_simp
  exact ⟨fun _ => updSwitch_frame i d _ (swUpd_byName _ d) s,
    fun _ => ⟨fun _ => updSwitch_frame i d _ (swUpd_setDflt d) s, fun _ => trivial⟩⟩

theorem rowExitNoResp_frame (i : Nat) (n : NodeM) (d : Dest) : BFrame (rowExitNoResp i n d) := by
  intro s
  unfold rowExitNoResp
  split
  · split
    · wp_simp [wp_setNode]; simp
    · exact BFrame.pure _ s
  · exact BFrame.pure _ s

theorem nodeAddChoice_frame (i : Nat) (n : NodeM) (operandV ctype : Str) (args : List (Option Str))
    (c : Cond) (d : Dest) : BFrame (nodeAddChoice i n operandV ctype args c d) := by
  intro s
  unfold nodeAddChoice
  split
  · wp_simp [wp_setNode]
    refine wp_mono (addChoice_spec _ _ _ _ _ _ _ _) ?_
    intro r' s1 ⟨k, hb, _⟩
    subst hb; simp
  · wp_simp [wp_setNode]
    refine wp_mono (randomAddChoice_spec _ _ _ _) ?_
    intro r' s1 ⟨k, hb, _⟩
    subst hb; simp
  · wp_simp

theorem noopRouterExit_frame (j : Nat) (d : Dest) (c : Cond) : BFrame (noopRouterExit j d c) := by
  intro s
  unfold noopRouterExit
  wp_simp
  exact ⟨fun _ => updSwitch_frame j d _ (swUpd_setDflt d) s,
    fun _ => updSwitch_frame j d _ (swUpd_addChoice _ _ _ _ d false) s⟩

theorem connectIfLoose_frame (fuel : Nat) (d : Dest) (ch : Nat) : BFrame (connectIfLoose fuel d ch) := by
  intro s
  unfold connectIfLoose
  wp_simp
  refine wp_ro (ro_hasLoose _ _) s _ ?_
  intro b
  exact ⟨fun _ => connectLoose_frame d fuel ch s, fun _ => ⟨rfl, rfl, rfl⟩⟩

/-! ### operations that may create nodes -/

def BPost (P H : Nat → Prop) (root : Nat) (s : St) : PUnit → St → Prop :=
  fun _ s' => BInv P H root s' ∧ s'.stack = s.stack

def BStep (m : M PUnit) : Prop := ∀ P H root s, BInv P H root s → wp m s (BPost P H root s)

theorem BFrame.bstep {m : M PUnit} (h : BFrame m) : BStep m := by
  intro P H root s b
  refine wp_mono (h s) ?_
  intro _ s' ⟨h1, h2, h3⟩
  exact ⟨b.frame h1 h2 h3, h2⟩

theorem BStep.forM {β} (l : List β) (f : β → M PUnit) (hf : ∀ x ∈ l, BStep (f x)) : BStep (l.forM f) := by
  intro P H root s b
  exact wp_forM (fun s' => BInv P H root s' ∧ s'.stack = s.stack) l f (by
    intro x hx s1 ⟨b1, h1⟩
    refine wp_mono (hf x hx P H root s1 b1) ?_
    intro _ s2 ⟨b2, h2⟩
    exact ⟨b2, h2.trans h1⟩) s ⟨b, rfl⟩

theorem routerBehind_B (g : Nat) (nodes : List Nat) (rowType : Str) (i : Nat) (n : NodeM)
    (operandV : Str) (waitT : Option Nat) (P H : Nat → Prop) (root : Nat) (s : St)
    (b : BInv P H root s) (hg : s.groups[g]? = some (.row nodes rowType)) :
    wp (routerBehind g nodes rowType i n operandV waitT) s (fun _ s' =>
      BInv P H root s' ∧ s'.stack = s.stack) := by
  unfold routerBehind attachRowNode
  wp_simp [wp_fresh', wp_newRouterNode, wp_addNode, wp_setGrp, wp_setNode]
  refine ⟨fun _ => trivial, fun _ => ?_⟩
  refine wp_mono (newSwitch_spec _ _ _ _) ?_
  intro sw s1 ⟨k, hb, _⟩
  subst hb
  refine ⟨?_, rfl⟩
  have := BInvC.attach (Grp.row (nodes ++ [s.nodes.size]) rowType) b hg (by simp [held]) (by simp [kids])
  unfold BInv
  simpa using this

theorem rowExitCond_B (g : Nat) (nodes : List Nat) (rowType : Str) (i : Nat) (n : NodeM) (d : Dest)
    (c : Cond) (P H : Nat → Prop) (root : Nat) (s : St)
    (b : BInv P H root s) (hg : s.groups[g]? = some (.row nodes rowType)) :
    wp (rowExitCond g nodes rowType i n d c) s (BPost P H root s) := by
  unfold rowExitCond
  wp_simp
  constructor
  · intro _
    refine wp_mono (routerBehind_B _ _ _ _ _ _ _ P H root s b hg) ?_
    intro jn s1 ⟨b1, h1⟩
    refine wp_mono ((nodeAddChoice_frame _ _ _ _ _ _ _).bstep P H root s1 b1) ?_
    intro _ s2 ⟨b2, h2⟩
    exact ⟨b2, h2.trans h1⟩
  · intro _
    exact (nodeAddChoice_frame _ _ _ _ _ _ _).bstep P H root s b

theorem rowAddExit_B (g : Nat) (nodes : List Nat) (rowType : Str) (d : Dest) (c : Cond)
    (P H : Nat → Prop) (root : Nat) (s : St)
    (b : BInv P H root s) (hg : s.groups[g]? = some (.row nodes rowType)) :
    wp (rowAddExit g nodes rowType d c) s (BPost P H root s) := by
  unfold rowAddExit
  split
  · wp_simp
  · rename_i i hi
    wp_simp [wp_getNode]
    intro n hn
    exact ⟨fun _ => (rowExitBlank_frame i n d).bstep P H root s b, fun _ =>
      ⟨fun _ => (rowExitEnter_frame i c d).bstep P H root s b, fun _ =>
      ⟨fun _ => (rowExitHook_frame i c d).bstep P H root s b, fun _ =>
      ⟨fun _ => (rowExitNoResp_frame i n d).bstep P H root s b, fun _ =>
        rowExitCond_B g nodes rowType i n d c P H root s b hg⟩⟩⟩⟩

theorem addExit_B : ∀ fuel g d c, BStep (addExit fuel g d c) := by
  intro fuel
  induction fuel with
  | zero => intro g d c P H root s b; unfold addExit; wp_simp
  | succ fuel ih =>
    intro g d c P H root s b
    unfold addExit
    wp_simp [wp_getGrp]
    intro grp hgrp
    split
    · exact rowAddExit_B g _ _ d c P H root s b hgrp
    · wp_simp
      refine ⟨fun _ => ?_, fun _ => trivial⟩
      refine wp_ro (ro_hasLoose _ _) s _ ?_
      intro bb
      exact ⟨fun _ => (BFrame.forM _ _ (fun x _ => connectIfLoose_frame _ d x)).bstep P H root s b,
        fun _ => trivial⟩
    · split
      · wp_simp
        refine ⟨fun _ => BStep.forM _ _ (fun x _ => ih x.1 d x.2) P H root s b,
          fun _ => ⟨fun _ => trivial, fun _ => ?_⟩⟩
        unfold attachNoopRouter
        wp_simp [wp_fresh', wp_newRouterNode, wp_addNode, wp_setGrp]
        refine wp_mono (newSwitch_spec _ _ _ _) ?_
        intro sw s1 ⟨k, hb, _⟩
        subst hb
        rename_i parents _ _ _ _
        have b1 := BInvC.attach (Grp.noop parents (some s.nodes.size)) b hgrp (by simp [held]) (by simp [kids])
        refine wp_mono (BStep.forM _ _ (fun x _ => ih x.1 (.node (tid s.next)) x.2) P H root _ (by
          unfold BInv; simpa using b1)) ?_
        intro _ s2 ⟨b2, h2⟩
        refine wp_mono ((noopRouterExit_frame _ d c).bstep P H root s2 b2) ?_
        intro _ s3 ⟨b3, h3⟩
        exact ⟨b3, (h3.trans h2)⟩
      · exact (noopRouterExit_frame _ d c).bstep P H root s b

theorem addRowEdge_B (d : Dest) (e : Edge) : BStep (addRowEdge d e) := by
  intro P H root s b
  unfold addRowEdge
  wp_simp
  refine wp_ro (ro_groupOfEdge _) s _ ?_
  intro og
  split
  · wp_simp; exact ⟨b, rfl⟩
  · wp_simp
    refine wp_ro ro_fuelOf s _ ?_
    intro fuel
    exact addExit_B fuel _ d _ P H root s b

end Rpft.Compile
