/-
Events: `_parse_row`, begin / end of a block.
-/
import Rpft.Lemmas.CompileInsertRows
set_option linter.unusedSimpArgs false
set_option linter.unusedVariables false
namespace Rpft.Compile
open Rpft Function

variable {P : Params} {X : SParams}

/-- a row that certainly appends a node group to the open block -/
def Row.appends (r : Row) : Bool :=
  decide (r.type ≠ "hard_exit".toList ∧ r.type ≠ "loose_exit".toList ∧ r.type ≠ "go_to".toList ∧
    r.type ≠ "insert_as_block".toList ∧ (r.type = "no_op".toList ∨ (r.nodeUuid = [] ∧ r.nodeName = [])))

/-- what a row must satisfy in the current left state -/
def RowPre (P : Params) (X : SParams) (s₁ : St) (r : Row) : Prop :=
  EdgesPre P X s₁ (dropTrivial r.edges) ∧ (∀ d ∈ r.dests, d ∉ X.F) ∧ P.ρ r.nodeUuid = r.nodeUuid ∧ RV s₁ ∧
  (X.nmAll = true ∨ (r.nodeUuid = [] ∧ r.nodeName = [])) ∧
  (P.op = true → r.type ≠ "loose_exit".toList)

theorem Eff.of_spost {s₁ s₂ t₁ t₂ : St} (h : SPost P X s₁ s₂ ⟨⟩ t₁ ⟨⟩ t₂) : Eff P s₁ t₁ :=
  Eff.of_blkEq h.2.2.2 h.2.1.2.1

/-- `_parse_row` -/
theorem parseRow_rel (ok : P.Ok) {s₁ s₂ : St} (h : Sim P X s₁ s₂) (r0 : Row) (hpre : RowPre P X s₁ r0) :
    rwp (parseRow r0) (parseRow r0) s₁ s₂ (fun _ t₁ _ t₂ =>
      Sim P X t₁ t₂ ∧ t₁.stack = s₁.stack ∧ Eff P s₁ t₁ ∧ (r0.appends = true → MR P t₁)) := by
  obtain ⟨hed, hds, hgiv, hrv, hnmk, hnl⟩ := hpre
  unfold parseRow
  simp only []
  refine rwp_ite (fun hx => ?_) fun h1 => ?_
  · have : rwp ((dropTrivial r0.edges).forM (addRowEdge (if r0.type = "hard_exit".toList then Dest.hard else Dest.none)))
        ((dropTrivial r0.edges).forM (addRowEdge (rnDest P.ρ (if r0.type = "hard_exit".toList then Dest.hard else Dest.none))))
        s₁ s₂ (SPost P X s₁ s₂) := edges_rel ok h _ _ hed.1 hed.2 (by
          intro hop
          rcases hx with hx | hx
          · rw [if_pos hx]; intro e'; cases e'
          · exact absurd hx (hnl hop))
    have e : rnDest P.ρ (if r0.type = "hard_exit".toList then Dest.hard else Dest.none) =
        (if r0.type = "hard_exit".toList then Dest.hard else Dest.none) := by split <;> rfl
    rw [e] at this
    refine rwp_mono this ?_
    intro _ t₁ _ t₂ hp
    refine ⟨hp.1, hp.2.1.1, Eff.of_spost hp, ?_⟩
    intro ha
    simp only [Row.appends, decide_eq_true_eq] at ha
    rcases hx with hx | hx
    · exact absurd hx ha.1
    · exact absurd hx ha.2.1
  refine rwp_ite (fun hx => ?_) fun h2 => ?_
  · refine rwp_mono (parseGoto_rel ok h { r0 with edges := dropTrivial r0.edges } hed hds) ?_
    intro _ t₁ _ t₂ hp
    refine ⟨hp.1, hp.2.1.1, Eff.of_spost hp, ?_⟩
    intro ha
    simp only [Row.appends, decide_eq_true_eq] at ha
    exact absurd hx ha.2.2.1
  refine rwp_ite (fun hx => ?_) fun h3 => ?_
  · refine rwp_mono (parseNoop_rel ok h (dropTrivial r0.edges) r0.rowId hed hrv) ?_
    intro _ t₁ _ t₂ ⟨ht, e, hm, hf⟩
    exact ⟨ht, e, hf, fun _ => hm⟩
  refine rwp_ite (fun hx => rwp_fail_left _ _ _ _ _) fun h4 => ?_
  refine rwp_mono (actionRow_rel ok h { r0 with edges := dropTrivial r0.edges } hgiv hed hnmk) ?_
  intro _ t₁ _ t₂ ⟨ht, e, hf, hm⟩
  refine ⟨ht, e, hf, ?_⟩
  intro ha
  simp only [Row.appends, decide_eq_true_eq] at ha
  rcases ha.2.2.2.2 with hx | hx
  · exact absurd hx h3
  · exact hm hx.1 hx.2

theorem mostRecentIn_push_empty (gs : Array Grp) : ∀ st : List Nat,
    mostRecentIn (gs.push (.block [])) st = mostRecentIn gs st := by
  intro st
  induction st with
  | nil => rfl
  | cons b bs ih =>
    unfold mostRecentIn
    rw [Array.getElem?_push]
    by_cases hb : b = gs.size
    · simp only [hb, if_true]
      have : gs[gs.size]? = none := by simp
      rw [this]
      simp only [List.getLast?_nil]
      exact ih
    · simp only [hb, if_false]
      cases gs[b]? with
      | none => simp only [ih]
      | some g => cases g <;> simp only [ih]

theorem mostRecentIn_congr {gs gs' : Array Grp} : ∀ st : List Nat, (∀ b ∈ st, gs'[b]? = gs[b]?) →
    mostRecentIn gs' st = mostRecentIn gs st := by
  intro st
  induction st with
  | nil => intro _; rfl
  | cons b bs ih =>
    intro h
    unfold mostRecentIn
    rw [h b (by simp), ih (fun x hx => h x (by simp [hx]))]

/-- same stack, and the blocks on it are the same groups -/
def StackSame (s w : St) : Prop := w.stack = s.stack ∧ ∀ b ∈ s.stack, w.groups[b]? = s.groups[b]?

theorem Eff.of_stackSame {s w : St} (h : StackSame s w) (hrv : RV s → RV w) (hk : HeadKeep s w) : Eff P s w := by
  refine ⟨?_, ?_, ?_, hrv, hk⟩
  · intro hm x hx
    rw [h.1, mostRecentIn_congr _ h.2] at hx
    exact hm x hx
  · intro hc
    refine ⟨?_, by rw [h.1]; exact hc.2⟩
    intro b hb cs hg
    rw [h.1] at hb
    rw [h.2 b hb] at hg
    exact hc.1 b hb cs hg
  · intro hs b hb
    rw [h.1] at hb
    rw [h.2 b hb]
    exact hs b hb

theorem SSim.push {s₁ s₂ : St} (h : SSim P X s₁ s₂) (nb : Nat) (hd : P.DG nb) (ht : ¬ P.T nb) (hne : nb ≠ P.bx)
    (t₁ t₂ : St) (e1 : t₁.stack = nb :: s₁.stack) (e2 : t₁.rowIds = s₁.rowIds) (e3 : t₁.names = s₁.names)
    (f1 : t₂.stack = P.γ nb :: s₂.stack) (f2 : t₂.rowIds = s₂.rowIds) (f3 : t₂.names = s₂.names) :
    SSim P X t₁ t₂ := by
  constructor
  · rw [e1, f1, h.stack]; simp
  · rw [e1]; intro b hb
    simp only [List.mem_cons] at hb
    rcases hb with hb | hb
    · rw [hb]; exact hd
    · exact h.stackDG b hb
  · rw [e1]
    rcases h.tl with h' | ⟨hsp, h'⟩
    · exact .inl h'
    · right
      refine ⟨hsp, ?_⟩
      cases hs : s₁.stack with
      | nil => rw [hs] at h'; simp at h'
      | cons x xs => rw [hs] at h'; simpa [List.getLast?_cons_cons] using h'
  · rw [e1]; intro hsp hb
    simp only [List.mem_cons] at hb
    rcases hb with hb | hb
    · exact absurd hb.symm hne
    · exact h.bxs hsp hb
  · rw [e1]
    rw [List.pairwise_cons]
    exact ⟨fun y _ hx => absurd hx ht, h.ss⟩
  · rw [e2, f2]; exact h.ri
  · rw [e2]; exact h.riDG
  · rw [e2]; exact h.rl
  · rw [e2]; exact h.rk
  · rw [e2, f2]; exact h.rk2
  · rw [e3, f3]; exact h.nm
  · rw [e3]; exact h.nmDN

theorem EdgesPre.mono {s t : St} {es : List Edge} (hm : MR P s → MR P t) (h : EdgesPre P X s es) : EdgesPre P X t es :=
  ⟨h.1, fun he => hm (h.2 he)⟩

/-- the effect of pushing a fresh empty block -/
theorem eff_push (s : St) (hnt : ¬ P.T s.groups.size) :
    Eff P s { s with groups := s.groups.push (.block []), stack := s.groups.size :: s.stack } := by
  have hget : ∀ b cs, (s.groups.push (.block []))[b]? = some (.block cs) →
      (b = s.groups.size ∧ cs = []) ∨ (b ≠ s.groups.size ∧ s.groups[b]? = some (.block cs)) := by
    intro b cs hg
    rw [Array.getElem?_push] at hg
    by_cases hb : b = s.groups.size
    · simp only [hb, if_true, Option.some.injEq, Grp.block.injEq] at hg
      exact .inl ⟨hb, hg.symm⟩
    · simp only [hb, if_false] at hg
      exact .inr ⟨hb, hg⟩
  refine ⟨?_, ?_, ?_, ?_, ?_⟩
  rotate_left 3
  · intro hr p hp
    have := hr p hp
    simp; omega
  · refine ⟨fun j i l t hg => ⟨l, getElem?_push_lt' hg⟩, fun j c cs hg => ⟨cs, getElem?_push_lt' hg⟩, by simp⟩
  · intro hm x hx
    simp only [] at hx
    unfold mostRecentIn at hx
    simp only [Array.getElem?_push, if_true, List.getLast?_nil] at hx
    rw [mostRecentIn_push_empty] at hx
    exact hm x hx
  · intro hc
    refine ⟨?_, ?_⟩
    · intro b hb cs hg
      simp only [] at hb hg
      rcases hget b cs hg with ⟨_, rfl⟩ | ⟨hne, hg'⟩
      · intro c hc'; simp at hc'
      · simp only [List.mem_cons] at hb
        rcases hb with hb | hb
        · exact absurd hb hne
        · exact hc.1 b hb cs hg'
    · intro b hb
      simp only [] at hb
      cases hs : s.stack with
      | nil => rw [hs] at hb; simp at hb
      | cons x xs =>
        rw [hs] at hb
        simp only [List.dropLast_cons_cons, List.mem_cons] at hb
        rcases hb with hb | hb
        · rw [hb]; exact hnt
        · exact hc.2 b (by rw [hs]; exact hb)
  · intro hs b hb
    simp only [List.mem_cons] at hb
    rcases hb with hb | hb
    · exact ⟨[], by simp [hb]⟩
    · obtain ⟨cs, hcs⟩ := hs b hb
      exact ⟨cs, getElem?_push_lt' hcs⟩

/-- `begin_block` / `begin_for` -/
theorem openGroup_rel (ok : P.Ok) {s₁ s₂ : St} (h : Sim P X s₁ s₂) (edges : List Edge) (starting : Bool)
    (hpre : starting = false → EdgesPre P X s₁ (dropTrivial edges)) (hrv : RV s₁) :
    rwp (openGroup edges starting) (openGroup edges starting) s₁ s₂ (fun _ t₁ _ t₂ =>
      Sim P X t₁ t₂ ∧ t₁.stack = s₁.groups.size :: s₁.stack ∧ ¬ P.T s₁.groups.size ∧ Eff P s₁ t₁ ∧
      (starting = false → MR P t₁)) := by
  unfold openGroup
  rw [rwp_bind, rwp_iff_wp, wp_addGrp]
  rw [wp_addGrp]
  rw [rwp_bind, rwp_iff_wp, wp_modify]
  rw [wp_modify]
  have hd := h.1.gdom s₁.groups.size (Nat.le_refl _)
  have h0 : P.γ s₁.groups.size = s₂.groups.size := by simpa using h.1.gsync 0
  have hne : s₁.groups.size ≠ P.bx := by have := h.1.bxlt; omega
  have a1 := h.1.addGrp (.block []) (by intro i hi; simp [gnodes] at hi) (by intro x hx; simp [grefs] at hx)
    (by intro x hx; simp [grefs] at hx) ⟨by intro i hi; simp [gnodes] at hi, by intro x hx; simp [grefs] at hx⟩
  have hs1 : Sim P X { s₁ with groups := s₁.groups.push (.block []), stack := s₁.groups.size :: s₁.stack }
      { s₂ with groups := s₂.groups.push (.block []), stack := s₂.groups.size :: s₂.stack } :=
    ⟨a1.congr rfl rfl rfl rfl rfl rfl rfl rfl rfl rfl,
      h.2.push s₁.groups.size hd.1 hd.2 hne _ _ rfl rfl rfl (by rw [h0]) rfl rfl⟩
  have hef := eff_push (P := P) s₁ hd.2
  cases starting with
  | true =>
    simp only [if_true]
    rw [rwp_pure]
    exact ⟨hs1, rfl, hd.2, hef, fun hh => by cases hh⟩
  | false =>
    simp only [Bool.false_eq_true, if_false]
    refine rwp_mono (parseNoop_rel ok hs1 (dropTrivial edges) [] ((hpre rfl).mono hef.mr) (hef.rv hrv)) ?_
    intro _ t₁ _ t₂ ⟨ht, e, hm, hf⟩
    exact ⟨ht, e, hd.2, hef.trans hf, fun _ => hm⟩

theorem SSim.pop {s₁ s₂ : St} (h : SSim P X s₁ s₂) {b c : Nat} {rest : List Nat} (hst : s₁.stack = b :: c :: rest)
    (t₁ t₂ : St) (e1 : t₁.stack = c :: rest) (e2 : t₁.rowIds = s₁.rowIds) (e3 : t₁.names = s₁.names)
    (f1 : t₂.stack = P.γ c :: (rest.map P.γ ++ X.tail)) (f2 : t₂.rowIds = s₂.rowIds) (f3 : t₂.names = s₂.names) :
    SSim P X t₁ t₂ := by
  constructor
  · rw [e1, f1]; simp
  · rw [e1]; intro x hx; exact h.stackDG x (by rw [hst]; simp [List.mem_cons] at hx ⊢; exact .inr hx)
  · rw [e1]
    rcases h.tl with h' | ⟨hsp, h'⟩
    · exact .inl h'
    · right; rw [hst, List.getLast?_cons_cons] at h'; exact ⟨hsp, h'⟩
  · rw [e1]; intro hsp hb; exact h.bxs hsp (by rw [hst]; simp [List.mem_cons] at hb ⊢; exact .inr hb)
  · rw [e1]
    have := h.ss
    rw [hst, List.pairwise_cons] at this
    exact this.2
  · rw [e2, f2]; exact h.ri
  · rw [e2]; exact h.riDG
  · rw [e2]; exact h.rl
  · rw [e2]; exact h.rk
  · rw [e2, f2]; exact h.rk2
  · rw [e3, f3]; exact h.nm
  · rw [e3]; exact h.nmDN

/-- `end_block` / `end_for` -/
theorem closeGroup_rel (ok : P.Ok) {s₁ s₂ : St} (h : Sim P X s₁ s₂) (rowId : Str)
    (hclose : ∀ b c rest, s₁.stack = b :: c :: rest → P.T b → rowId ≠ [] → rowId ∈ X.F)
    (hsbl : ∀ b ∈ s₁.stack, b < s₁.groups.size) :
    rwp (closeGroup rowId) (closeGroup rowId) s₁ s₂ (fun _ t₁ _ t₂ =>
      Sim P X t₁ t₂ ∧ t₁.stack = s₁.stack.tail ∧ (SB s₁ → SB t₁) ∧ (RV s₁ → RV t₁) ∧ HeadKeep s₁ t₁ ∧
      (∃ b c rest, s₁.stack = b :: c :: rest) ∧
      (∀ b, s₁.stack.head? = some b → ¬ P.T b → MR P t₁ ∧ (CL P s₁ → CL P t₁))) := by
  unfold closeGroup
  rw [rwp_get, h.2.stack]
  match hst : s₁.stack with
  | [] => exact rwp_fail_left _ _ _ _ _
  | [b] => exact rwp_fail_left _ _ _ _ _
  | b :: c :: rest =>
    simp only [List.map_cons, List.cons_append]
    rw [rwp_bind, rwp_iff_wp, wp_set]
    rw [wp_set]
    have hs1 : Sim P X { s₁ with stack := c :: rest } { s₂ with stack := P.γ c :: (rest.map P.γ ++ X.tail) } :=
      ⟨h.1.congr rfl rfl rfl rfl rfl rfl rfl rfl rfl rfl, h.2.pop hst _ _ rfl rfl rfl rfl rfl rfl⟩
    have hdb : P.DG b := h.2.stackDG b (by rw [hst]; simp)
    have hss := h.2.ss
    rw [hst, List.pairwise_cons] at hss
    refine rwp_mono (appendGroup_rel ok hs1 rowId hdb (hsbl b (by rw [hst]; simp)) ?_) ?_
    · intro htb
      refine ⟨?_, fun hne => hclose b c rest hst htb hne⟩
      intro b' hb'
      simp only [List.head?_cons, Option.some.injEq] at hb'
      rw [← hb']; exact hss.1 c (by simp) htb
    · intro _ t₁ _ t₂ ⟨ht, e, _, _, hsb, hrvt, hhk, hm⟩
      refine ⟨ht, by rw [e]; rfl, ?_, hrvt, hhk, ⟨b, c, rest, rfl⟩, ?_⟩
      · intro hs
        apply hsb
        intro x hx
        exact hs x (by rw [hst]; simp only [List.mem_cons] at hx ⊢; exact .inr hx)
      · intro b' hb' hnt
        simp only [List.head?_cons, Option.some.injEq] at hb'
        subst hb'
        refine ⟨(hm hnt).1, fun hc => (hm hnt).2 ⟨?_, ?_⟩⟩
        · intro x hx cs hg
          exact hc.1 x (by rw [hst]; simp only [List.mem_cons] at hx ⊢; exact .inr hx) cs hg
        · intro x hx
          apply hc.2 x
          rw [hst]
          simp only [List.dropLast_cons_cons] at hx ⊢
          exact List.mem_cons_of_mem _ hx

end Rpft.Compile
